/-
  MF.Model.TreeParse — reader of the TREE line format produced by the Go harness (a generic-tree dump with the
  implementation's own Pos()/End()/SQL() per node).  Used by the driver only (not by any theorem).
-/
import MF.Model.Ast
namespace MF.Ast

structure GoVals where
  kind : String
  pos : String
  «end» : String
  sql : String
  deriving Repr, Inhabited

def hexOr (s : String) : Bytes := if s == "-" then [] else (ofHex? s).getD []

def parseToks : Nat → List String → List TokRec → Option (List TokRec × List String)
  | 0, ts, acc => some (acc.reverse, ts)
  | n + 1, k :: raw :: sp :: p :: e :: nc :: ts, acc =>
    let ncn := nc.toNat?.getD 0
    let rec comments : Nat → List String → List (Bytes × Bytes) → Option (List (Bytes × Bytes) × List String)
      | 0, ts, acc => some (acc.reverse, ts)
      | m + 1, a :: b :: ts, acc => comments m ts ((hexOr a, hexOr b) :: acc)
      | _ + 1, _, _ => none
    match comments ncn ts [] with
    | some (cs, ts') => parseToks n ts' (⟨hexOr k, hexOr raw, hexOr sp, cs, p.toInt?.getD 0, e.toInt?.getD 0⟩ :: acc)
    | none => none
  | _ + 1, _, _ => none

def parseScalars : Nat → List String → List (String × Scalar) → Option (List (String × Scalar) × List String)
  | 0, ts, acc => some (acc.reverse, ts)
  | n + 1, "P" :: name :: v :: ts, acc => parseScalars n ts ((name, .pos (v.toInt?.getD 0)) :: acc)
  | n + 1, "B" :: name :: v :: ts, acc => parseScalars n ts ((name, .bool (v == "1")) :: acc)
  | n + 1, "I" :: name :: v :: ts, acc => parseScalars n ts ((name, .int (v.toInt?.getD 0)) :: acc)
  | n + 1, "S" :: name :: v :: ts, acc => parseScalars n ts ((name, .str (hexOr v)) :: acc)
  | n + 1, "T" :: name :: cnt :: ts, acc =>
    match parseToks (cnt.toNat?.getD 0) ts [] with
    | some (tk, ts') => parseScalars n ts' ((name, .toks tk) :: acc)
    | none => none
  | _ + 1, _, _ => none

/-- parse one node; returns the node, the implementation's values of all nodes in pre-order, and the rest -/
partial def parseNode : List String → Option (Node × List GoVals × List String)
  | "N" :: kind :: p :: e :: sql :: nsc :: ts =>
    match parseScalars (nsc.toNat?.getD 0) ts [] with
    | none => none
    | some (scs, nk :: ts') =>
      let rec kidsLoop : Nat → List String → List (String × Option Nat × Node) → List GoVals →
          Option (List (String × Option Nat × Node) × List GoVals × List String)
        | 0, ts, acc, gv => some (acc.reverse, gv, ts)
        | n + 1, "K" :: f :: idx :: ts, acc, gv =>
          match parseNode ts with
          | some (c, cg, ts') => kidsLoop n ts' ((f, idx.toNat?, c) :: acc) (gv ++ cg)
          | none => none
        | _ + 1, _, _, _ => none
      match kidsLoop (nk.toNat?.getD 0) ts' [] [] with
      | some (ks, gv, rest) => some (.mk kind scs (Kids.ofList ks), ⟨kind, p, e, sql⟩ :: gv, rest)
      | none => none
    | some (_, []) => none
  | _ => none

/-- all nodes in pre-order -/
partial def preorder : Node → List Node
  | .mk k s ks => (.mk k s ks) :: (ks.toList.flatMap (fun x => preorder x.2.2))

end MF.Ast
