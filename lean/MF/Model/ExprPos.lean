/-
  MF.Model.ExprPos — the expression core of `parser.go` AGAIN (same 28 functions as `MF/Model/Expr.lean`, same fuel
  discipline, one Lean function per Go function / loop), now building nodes that carry EVERY `token.Pos` field of the
  corresponding Go struct (ast/ast.go), filled exactly as parser.go fills them from the tokens it consumes; and the
  generated `Pos()` / `End()` of ast/pos.go for these node kinds (`posP`, `endP`).

  Go struct                         position fields                 Pos()                End()
  NullLiteral                       Null                            Null                 Null + 4
  BoolLiteral                       ValuePos                        ValuePos             ValuePos + (Value ? 4 : 5)
  Int/Float/String/BytesLiteral     ValuePos ValueEnd               ValuePos             ValueEnd
  Param                             Atmark                          Atmark               Atmark + 1 + len(Name)
  Ident                             NamePos NameEnd                 NamePos              NameEnd
  Path                              —                               Idents[0].pos        Idents[$].end
  ParenExpr                         Lparen Rparen                   Lparen               Rparen + 1
  UnaryExpr                         OpPos                           OpPos                Expr.end
  BinaryExpr                        —                               Left.pos             Right.end
  IsNullExpr                        Null                            Left.pos             Null + 4
  IsBoolExpr                        RightPos                        Left.pos             RightPos + (Right ? 4 : 5)
  BetweenExpr                       —                               Left.pos             RightEnd.end
  InExpr                            —                               Left.pos             Right.end
  ValuesInCondition                 Lparen Rparen                   Lparen               Rparen + 1
  UnnestInCondition                 Unnest Rparen                   Unnest               Rparen + 1
  SelectorExpr                      —                               Expr.pos             Ident.end
  IndexExpr                         Rbrack                          Expr.pos             Rbrack + 1
  ExprArg                           —                               Expr.pos             Expr.end
  SubscriptSpecifierKeyword         KeywordPos Rparen               KeywordPos           Rparen + 1
  CaseExpr                          Case EndPos                     Case                 EndPos + 3
  CaseWhen                          When                            When                 Then.end
  CaseElse                          Else                            Else                 Expr.end
  IfExpr                            If Rparen                       If                   Rparen + 1
  ArrayLiteral                      Array (= InvalidPos) Lbrack Rbrack   Array || Lbrack = Lbrack   Rbrack + 1
  CastExpr                          Cast Rparen                     Cast                 Rparen + 1
  NamedType                         —                               Path[0].pos          Path[$].end

  `PExpr` has the shape of `MF.Expr.Expr` (the `InCondition` / `SubscriptSpecifier` nodes are flattened into their
  parent exactly as there), `erase : PExpr → Expr` forgets the positions.  `nodesP` lists ALL Go nodes of a tree in
  preorder (including `ValuesInCondition`, `UnnestInCondition`, `ExprArg`, `SubscriptSpecifierKeyword` and the `Ident`s
  of a `Path` / `SelectorExpr`) with depth, kind, `Pos()`, `End()`, the stored position fields and the spans of the
  direct children: this is what the EXPRPOS channel compares with the Go tree, and what C05 is stated about.

  Positions are `Nat` (`token.InvalidPos = -1` never occurs in a parser-built node of the fragment: every child is
  non-nil and a `Path` has at least two identifiers; the Go `nodePos(nil)` branch is therefore not modelled, `posP`
  of an empty `Path` is 0 by convention).
-/
import MF.Model.Expr
namespace MF.Expr

/-- `ast.Ident` -/
structure PIdent where
  namePos : Nat
  nameEnd : Nat
  name : Bytes
  deriving DecidableEq, Repr, Inhabited

/-- `ast.SubscriptSpecifierKeyword` without its operand; `spelled` is the ghost of `MF.Expr.Expr.index` -/
structure PKw where
  k : PosKw
  spelled : Bytes
  keywordPos : Nat
  rparen : Nat
  deriving DecidableEq, Repr, Inhabited

mutual
inductive PExpr
  /-- `NullLiteral{Null}` -/
  | null (nullPos : Nat)
  /-- `BoolLiteral{ValuePos, Value}` -/
  | bool (valuePos : Nat) (b : Bool)
  /-- `IntLiteral{ValuePos, ValueEnd, Value = sign ++ raw}` -/
  | int (valuePos valueEnd : Nat) (sign : Option Sign) (raw : Bytes)
  | float (valuePos valueEnd : Nat) (sign : Option Sign) (raw : Bytes)
  | str (valuePos valueEnd : Nat) (v : Bytes)
  | bytes (valuePos valueEnd : Nat) (v : Bytes)
  /-- `Param{Atmark, Name}` -/
  | param (atmark : Nat) (name : Bytes)
  | ident (id : PIdent)
  /-- `Path{Idents}` -/
  | path (ids : List PIdent)
  /-- `ParenExpr{Lparen, Rparen, Expr}` -/
  | paren (lparen rparen : Nat) (e : PExpr)
  /-- `UnaryExpr{OpPos, Op, Expr}` -/
  | unary (opPos : Nat) (op : UOp) (e : PExpr)
  | bin (op : BOp) (l r : PExpr)
  /-- `IsNullExpr{Null, Not, Left}` -/
  | isNull (nullPos : Nat) (e : PExpr) (not : Bool)
  /-- `IsBoolExpr{RightPos, Not, Left, Right}` -/
  | isBool (rightPos : Nat) (e : PExpr) (not : Bool) (right : Bool)
  | between (not : Bool) (e lo hi : PExpr)
  /-- `InExpr{Not, Left, Right: ValuesInCondition{Lparen, Rparen, Exprs = first :: more}}` -/
  | inList (not : Bool) (e : PExpr) (lparen rparen : Nat) (first : PExpr) (more : PExprs)
  /-- `InExpr{Not, Left, Right: UnnestInCondition{Unnest, Rparen, Expr}}` -/
  | inUnnest (not : Bool) (e : PExpr) (unnest rparen : Nat) (arg : PExpr)
  /-- `SelectorExpr{Expr, Ident}` -/
  | sel (e : PExpr) (id : PIdent)
  /-- `IndexExpr{Rbrack, Expr, Index}`; `kw = none`: `ExprArg{Expr}`; `kw = some w`: `SubscriptSpecifierKeyword` -/
  | index (rbrack : Nat) (e : PExpr) (kw : Option PKw) (i : PExpr)
  /-- `CaseExpr{Case, EndPos, Expr, Whens = CaseWhen{When, Cond, Then} :: more, Else}` -/
  | caseE (casePos endPos : Nat) (operand : POExpr) (whenPos : Nat) (cond then_ : PExpr) (more : PWhens) (els : POExpr)
  /-- `IfExpr{If, Rparen, Expr, TrueResult, ElseResult}` -/
  | ifE (ifPos rparen : Nat) (c t e : PExpr)
  /-- `ArrayLiteral{Array: InvalidPos, Lbrack, Rbrack, Type: nil, Values}` -/
  | array (lbrack rbrack : Nat) (values : PExprs)
  /-- `CastExpr{Cast, Rparen, Safe: false, Expr, Type: NamedType{Path}}` -/
  | cast (castPos rparen : Nat) (e : PExpr) (typePath : List PIdent)
inductive PExprs
  | nil
  | cons (e : PExpr) (es : PExprs)
/-- further `CaseWhen{When, Cond, Then}` nodes -/
inductive PWhens
  | nil
  | cons (whenPos : Nat) (cond then_ : PExpr) (ws : PWhens)
/-- an optional expression; `kwPos` is `CaseElse.Else` for the ELSE clause and 0 (no such field) for the operand of CASE -/
inductive POExpr
  | none
  | some (kwPos : Nat) (e : PExpr)
end

instance : Inhabited PExpr := ⟨.null 0⟩

def PExprs.toList : PExprs → List PExpr
  | .nil => []
  | .cons e es => e :: es.toList

/-! ## erasure -/

def PKw.erase (w : PKw) : PosKw × Bytes := (w.k, w.spelled)

mutual
def erase : PExpr → Expr
  | .null _ => .null
  | .bool _ b => .bool b
  | .int _ _ s raw => .int s raw
  | .float _ _ s raw => .float s raw
  | .str _ _ v => .str v
  | .bytes _ _ v => .bytes v
  | .param _ n => .param n
  | .ident id => .ident id.name
  | .path ids => .path (ids.map (·.name))
  | .paren _ _ e => .paren (erase e)
  | .unary _ op e => .unary op (erase e)
  | .bin op l r => .bin op (erase l) (erase r)
  | .isNull _ e not => .isNull (erase e) not
  | .isBool _ e not r => .isBool (erase e) not r
  | .between not e lo hi => .between not (erase e) (erase lo) (erase hi)
  | .inList not e _ _ first more => .inList not (erase e) (erase first) (erases more)
  | .inUnnest not e _ _ a => .inUnnest not (erase e) (erase a)
  | .sel e id => .sel (erase e) id.name
  | .index _ e kw i => .index (erase e) (kw.map PKw.erase) (erase i)
  | .caseE _ _ o _ c t ws el => .caseE (eraseO o) (erase c) (erase t) (eraseW ws) (eraseO el)
  | .ifE _ _ c t e => .ifE (erase c) (erase t) (erase e)
  | .array _ _ es => .array (erases es)
  | .cast _ _ e path => .cast (erase e) (path.map (·.name))
def erases : PExprs → Exprs
  | .nil => .nil
  | .cons e es => .cons (erase e) (erases es)
def eraseW : PWhens → Whens
  | .nil => .nil
  | .cons _ c t ws => .cons (erase c) (erase t) (eraseW ws)
def eraseO : POExpr → OExpr
  | .none => .none
  | .some _ e => .some (erase e)
end

/-! ## `Pos()` / `End()` (ast/pos.go) -/

/-- `len("TRUE")` / `len("FALSE")`: `ifThenElse(b, 4, 5)` -/
def boolLen (b : Bool) : Nat := if b then 4 else 5

/-- `Pos()` / `End()` of a `NamedType` -/
def posCT (path : List PIdent) : Nat := (path.head?.map (·.namePos)).getD 0
def endCT (path : List PIdent) : Nat := (path.getLast?.map (·.nameEnd)).getD 0

/-- `Pos()` -/
def posP : PExpr → Nat
  | .null p => p
  | .bool p _ => p
  | .int p _ _ _ => p
  | .float p _ _ _ => p
  | .str p _ _ => p
  | .bytes p _ _ => p
  | .param a _ => a
  | .ident id => id.namePos
  | .path ids => (ids.head?.map (·.namePos)).getD 0
  | .paren lp _ _ => lp
  | .unary p _ _ => p
  | .bin _ l _ => posP l
  | .isNull _ e _ => posP e
  | .isBool _ e _ _ => posP e
  | .between _ e _ _ => posP e
  | .inList _ e _ _ _ _ => posP e
  | .inUnnest _ e _ _ _ => posP e
  | .sel e _ => posP e
  | .index _ e _ _ => posP e
  | .caseE p _ _ _ _ _ _ _ => p
  | .ifE p _ _ _ _ => p
  | .array lb _ _ => lb         -- posChoice(Array, Lbrack) with Array = InvalidPos
  | .cast p _ _ _ => p

/-- `End()` -/
def endP : PExpr → Nat
  | .null p => p + 4
  | .bool p b => p + boolLen b
  | .int _ e _ _ => e
  | .float _ e _ _ => e
  | .str _ e _ => e
  | .bytes _ e _ => e
  | .param a n => a + 1 + n.length
  | .ident id => id.nameEnd
  | .path ids => (ids.getLast?.map (·.nameEnd)).getD 0
  | .paren _ rp _ => rp + 1
  | .unary _ _ e => endP e
  | .bin _ _ r => endP r
  | .isNull p _ _ => p + 4
  | .isBool p _ _ r => p + boolLen r
  | .between _ _ _ hi => endP hi
  | .inList _ _ _ rp _ _ => rp + 1      -- InExpr.End = Right.End = ValuesInCondition.Rparen + 1
  | .inUnnest _ _ _ rp _ => rp + 1      -- InExpr.End = Right.End = UnnestInCondition.Rparen + 1
  | .sel _ id => id.nameEnd
  | .index rb _ _ _ => rb + 1
  | .caseE _ ep _ _ _ _ _ _ => ep + 3
  | .ifE _ rp _ _ _ => rp + 1
  | .array _ rb _ => rb + 1
  | .cast _ rp _ _ => rp + 1

/-- `(Pos(), End())` -/
def spanP (e : PExpr) : Nat × Nat := (posP e, endP e)

def PIdent.span (i : PIdent) : Nat × Nat := (i.namePos, i.nameEnd)

def spansP : PExprs → List (Nat × Nat)
  | .nil => []
  | .cons e es => spanP e :: spansP es

/-- `(Pos(), End())` of the `CaseWhen` nodes -/
def spansW : PWhens → List (Nat × Nat)
  | .nil => []
  | .cons wp _ t ws => (wp, endP t) :: spansW ws

/-- `(Pos(), End())` of the operand of CASE (`kw = false`) or of the `CaseElse` node (`kw = true`), if present -/
def spanO (kw : Bool) : POExpr → List (Nat × Nat)
  | .none => []
  | .some p e => [(if kw then p else posP e, endP e)]

/-! ## all Go nodes of a tree, in preorder -/

/-- one Go node: depth in the tree, struct name, `Pos()`, `End()`, the struct's `token.Pos` fields in declaration
order, and the `(Pos(), End())` of its direct child nodes in field order -/
structure NodeInfo where
  depth : Nat
  kind : String
  pos : Nat
  «end» : Nat
  /-- `token.InvalidPos` is -1 (`ArrayLiteral.Array` of a literal without the ARRAY keyword) -/
  fields : List (String × Int)
  kids : List (Nat × Nat)
  deriving DecidableEq, Repr, Inhabited

def identNode (d : Nat) (i : PIdent) : NodeInfo :=
  ⟨d, "Ident", i.namePos, i.nameEnd, [("NamePos", i.namePos), ("NameEnd", i.nameEnd)], []⟩

/-- the `NamedType` node and the `Ident`s of its path -/
def nodesCT (d : Nat) (path : List PIdent) : List NodeInfo :=
  ⟨d, "NamedType", posCT path, endCT path, [], path.map PIdent.span⟩ :: path.map (identNode (d + 1))

mutual
def nodesP : Nat → PExpr → List NodeInfo
  | d, .null p => [⟨d, "NullLiteral", p, p + 4, [("Null", p)], []⟩]
  | d, .bool p b => [⟨d, "BoolLiteral", p, p + boolLen b, [("ValuePos", p)], []⟩]
  | d, .int p e _ _ => [⟨d, "IntLiteral", p, e, [("ValuePos", p), ("ValueEnd", e)], []⟩]
  | d, .float p e _ _ => [⟨d, "FloatLiteral", p, e, [("ValuePos", p), ("ValueEnd", e)], []⟩]
  | d, .str p e _ => [⟨d, "StringLiteral", p, e, [("ValuePos", p), ("ValueEnd", e)], []⟩]
  | d, .bytes p e _ => [⟨d, "BytesLiteral", p, e, [("ValuePos", p), ("ValueEnd", e)], []⟩]
  | d, .param a n => [⟨d, "Param", a, a + 1 + n.length, [("Atmark", a)], []⟩]
  | d, .ident id => [identNode d id]
  | d, .path ids =>
    ⟨d, "Path", posP (.path ids), endP (.path ids), [], ids.map PIdent.span⟩ :: ids.map (identNode (d + 1))
  | d, .paren lp rp e =>
    ⟨d, "ParenExpr", lp, rp + 1, [("Lparen", lp), ("Rparen", rp)], [spanP e]⟩ :: nodesP (d + 1) e
  | d, .unary p _ e => ⟨d, "UnaryExpr", p, endP e, [("OpPos", p)], [spanP e]⟩ :: nodesP (d + 1) e
  | d, .bin _ l r =>
    ⟨d, "BinaryExpr", posP l, endP r, [], [spanP l, spanP r]⟩ :: (nodesP (d + 1) l ++ nodesP (d + 1) r)
  | d, .isNull p e _ => ⟨d, "IsNullExpr", posP e, p + 4, [("Null", p)], [spanP e]⟩ :: nodesP (d + 1) e
  | d, .isBool p e _ r => ⟨d, "IsBoolExpr", posP e, p + boolLen r, [("RightPos", p)], [spanP e]⟩ :: nodesP (d + 1) e
  | d, .between _ e lo hi =>
    ⟨d, "BetweenExpr", posP e, endP hi, [], [spanP e, spanP lo, spanP hi]⟩ ::
      (nodesP (d + 1) e ++ (nodesP (d + 1) lo ++ nodesP (d + 1) hi))
  | d, .inList _ e lp rp first more =>
    ⟨d, "InExpr", posP e, rp + 1, [], [spanP e, (lp, rp + 1)]⟩ ::
      (nodesP (d + 1) e ++
        (⟨d + 1, "ValuesInCondition", lp, rp + 1, [("Lparen", lp), ("Rparen", rp)], spanP first :: spansP more⟩ ::
          (nodesP (d + 2) first ++ nodesPs (d + 2) more)))
  | d, .inUnnest _ e un rp a =>
    ⟨d, "InExpr", posP e, rp + 1, [], [spanP e, (un, rp + 1)]⟩ ::
      (nodesP (d + 1) e ++
        (⟨d + 1, "UnnestInCondition", un, rp + 1, [("Unnest", un), ("Rparen", rp)], [spanP a]⟩ :: nodesP (d + 2) a))
  | d, .sel e id =>
    ⟨d, "SelectorExpr", posP e, id.nameEnd, [], [spanP e, id.span]⟩ :: (nodesP (d + 1) e ++ [identNode (d + 1) id])
  | d, .index rb e none i =>
    ⟨d, "IndexExpr", posP e, rb + 1, [("Rbrack", rb)], [spanP e, spanP i]⟩ ::
      (nodesP (d + 1) e ++ (⟨d + 1, "ExprArg", posP i, endP i, [], [spanP i]⟩ :: nodesP (d + 2) i))
  | d, .index rb e (some w) i =>
    ⟨d, "IndexExpr", posP e, rb + 1, [("Rbrack", rb)], [spanP e, (w.keywordPos, w.rparen + 1)]⟩ ::
      (nodesP (d + 1) e ++
        (⟨d + 1, "SubscriptSpecifierKeyword", w.keywordPos, w.rparen + 1,
            [("KeywordPos", w.keywordPos), ("Rparen", w.rparen)], [spanP i]⟩ :: nodesP (d + 2) i))
  | d, .caseE cp ep o wp c t ws el =>
    ⟨d, "CaseExpr", cp, ep + 3, [("Case", cp), ("EndPos", ep)],
        spanO false o ++ ((wp, endP t) :: (spansW ws ++ spanO true el))⟩ ::
      (nodesPO false (d + 1) o ++
        (⟨d + 1, "CaseWhen", wp, endP t, [("When", wp)], [spanP c, spanP t]⟩ ::
          (nodesP (d + 2) c ++ (nodesP (d + 2) t ++ (nodesPW (d + 1) ws ++ nodesPO true (d + 1) el)))))
  | d, .ifE ip rp c t e =>
    ⟨d, "IfExpr", ip, rp + 1, [("If", ip), ("Rparen", rp)], [spanP c, spanP t, spanP e]⟩ ::
      (nodesP (d + 1) c ++ (nodesP (d + 1) t ++ nodesP (d + 1) e))
  | d, .array lb rb es =>
    ⟨d, "ArrayLiteral", lb, rb + 1, [("Array", -1), ("Lbrack", lb), ("Rbrack", rb)], spansP es⟩ :: nodesPs (d + 1) es
  | d, .cast cp rp e t =>
    ⟨d, "CastExpr", cp, rp + 1, [("Cast", cp), ("Rparen", rp)], [spanP e, (posCT t, endCT t)]⟩ ::
      (nodesP (d + 1) e ++ nodesCT (d + 1) t)
def nodesPs : Nat → PExprs → List NodeInfo
  | _, .nil => []
  | d, .cons e es => nodesP d e ++ nodesPs d es
/-- the `CaseWhen` nodes (at depth `d`) with their sub-trees -/
def nodesPW : Nat → PWhens → List NodeInfo
  | _, .nil => []
  | d, .cons wp c t ws =>
    ⟨d, "CaseWhen", wp, endP t, [("When", wp)], [spanP c, spanP t]⟩ ::
      (nodesP (d + 1) c ++ (nodesP (d + 1) t ++ nodesPW d ws))
/-- the operand of CASE at depth `d` (`kw = false`), or the `CaseElse` node at depth `d` with its expression -/
def nodesPO (kw : Bool) : Nat → POExpr → List NodeInfo
  | _, .none => []
  | d, .some p e =>
    if kw then ⟨d, "CaseElse", p, endP e, [("Else", p)], [spanP e]⟩ :: nodesP (d + 1) e else nodesP d e
end

/-! ## the sub-expressions of a tree (the nodes that are `PExpr`s: every Go `ast.Expr` node except the `Ident`s that
are components of a `Path` or the field name of a `SelectorExpr`) -/

mutual
def subsP : PExpr → List PExpr
  | .paren lp rp e => .paren lp rp e :: subsP e
  | .unary p op e => .unary p op e :: subsP e
  | .bin op l r => .bin op l r :: (subsP l ++ subsP r)
  | .isNull p e n => .isNull p e n :: subsP e
  | .isBool p e n r => .isBool p e n r :: subsP e
  | .between n e lo hi => .between n e lo hi :: (subsP e ++ (subsP lo ++ subsP hi))
  | .inList n e lp rp first more => .inList n e lp rp first more :: (subsP e ++ (subsP first ++ subsPs more))
  | .inUnnest n e un rp a => .inUnnest n e un rp a :: (subsP e ++ subsP a)
  | .sel e id => .sel e id :: subsP e
  | .index rb e kw i => .index rb e kw i :: (subsP e ++ subsP i)
  | .caseE cp ep o wp c t ws el =>
    .caseE cp ep o wp c t ws el :: (subsPO o ++ (subsP c ++ (subsP t ++ (subsPW ws ++ subsPO el))))
  | .ifE ip rp c t e => .ifE ip rp c t e :: (subsP c ++ (subsP t ++ subsP e))
  | .array lb rb es => .array lb rb es :: subsPs es
  | .cast cp rp e t => .cast cp rp e t :: subsP e
  | e => [e]
def subsPs : PExprs → List PExpr
  | .nil => []
  | .cons e es => subsP e ++ subsPs es
def subsPW : PWhens → List PExpr
  | .nil => []
  | .cons _ c t ws => subsP c ++ (subsP t ++ subsPW ws)
def subsPO : POExpr → List PExpr
  | .none => []
  | .some _ e => subsP e
end

/-! ## moving a tree (for C06: the text of a node, parsed on its own, is the node moved to offset 0) -/

def PIdent.shift (d : Nat) (i : PIdent) : PIdent := ⟨i.namePos - d, i.nameEnd - d, i.name⟩
def PKw.shift (d : Nat) (w : PKw) : PKw := ⟨w.k, w.spelled, w.keywordPos - d, w.rparen - d⟩

mutual
/-- all positions moved `d` bytes to the left -/
def shiftP (d : Nat) : PExpr → PExpr
  | .null p => .null (p - d)
  | .bool p b => .bool (p - d) b
  | .int p e s raw => .int (p - d) (e - d) s raw
  | .float p e s raw => .float (p - d) (e - d) s raw
  | .str p e v => .str (p - d) (e - d) v
  | .bytes p e v => .bytes (p - d) (e - d) v
  | .param a n => .param (a - d) n
  | .ident id => .ident (id.shift d)
  | .path ids => .path (ids.map (PIdent.shift d))
  | .paren lp rp e => .paren (lp - d) (rp - d) (shiftP d e)
  | .unary p op e => .unary (p - d) op (shiftP d e)
  | .bin op l r => .bin op (shiftP d l) (shiftP d r)
  | .isNull p e n => .isNull (p - d) (shiftP d e) n
  | .isBool p e n r => .isBool (p - d) (shiftP d e) n r
  | .between n e lo hi => .between n (shiftP d e) (shiftP d lo) (shiftP d hi)
  | .inList n e lp rp first more => .inList n (shiftP d e) (lp - d) (rp - d) (shiftP d first) (shiftPs d more)
  | .inUnnest n e un rp a => .inUnnest n (shiftP d e) (un - d) (rp - d) (shiftP d a)
  | .sel e id => .sel (shiftP d e) (id.shift d)
  | .index rb e kw i => .index (rb - d) (shiftP d e) (kw.map (PKw.shift d)) (shiftP d i)
  | .caseE cp ep o wp c t ws el =>
    .caseE (cp - d) (ep - d) (shiftPO d o) (wp - d) (shiftP d c) (shiftP d t) (shiftPW d ws) (shiftPO d el)
  | .ifE ip rp c t e => .ifE (ip - d) (rp - d) (shiftP d c) (shiftP d t) (shiftP d e)
  | .array lb rb es => .array (lb - d) (rb - d) (shiftPs d es)
  | .cast cp rp e path => .cast (cp - d) (rp - d) (shiftP d e) (path.map (PIdent.shift d))
def shiftPs (d : Nat) : PExprs → PExprs
  | .nil => .nil
  | .cons e es => .cons (shiftP d e) (shiftPs d es)
def shiftPW (d : Nat) : PWhens → PWhens
  | .nil => .nil
  | .cons wp c t ws => .cons (wp - d) (shiftP d c) (shiftP d t) (shiftPW d ws)
def shiftPO (d : Nat) : POExpr → POExpr
  | .none => .none
  | .some p e => .some (p - d) (shiftP d e)
end

/-! ## results, leaf productions -/

abbrev PPR := Res (PExpr × List Token)


/-- `ast.InCondition` of the fragment (return type of `parseInCondition`) -/
inductive PInCond
  | values (lparen rparen : Nat) (first : PExpr) (more : PExprs)
  | unnest (unnest rparen : Nat) (e : PExpr)

def PInCond.mk (not : Bool) (l : PExpr) : PInCond → PExpr
  | .values lp rp f m => .inList not l lp rp f m
  | .unnest un rp e => .inUnnest not l un rp e

/-- `ast.SubscriptSpecifier` of the fragment (return type of `parseIndexSpecifier`) -/
inductive PIdxSpec
  | plain (e : PExpr)
  | kw (w : PKw) (e : PExpr)

/-- `&ast.IndexExpr{Rbrack: rbrack, Expr: expr, Index: index}` -/
def PIdxSpec.mk (rbrack : Nat) (l : PExpr) : PIdxSpec → PExpr
  | .plain e => .index rbrack l none e
  | .kw w e => .index rbrack l (some w) e

/-- `ast.Ident` of the type model as `PIdent` -/
def ofTyIdent (i : TypeP.Ident) : PIdent := ⟨i.namePos, i.nameEnd, i.name⟩

/-- `castType` with positions (the type model `MF.TypeP.parseType` builds positioned nodes) -/
def castTypeP (f : Nat) (ts : List Token) : Res (List PIdent × List Token) :=
  match TypeP.cur ts with
  | .ident =>
    if TypeP.lookaheadSimpleType ts then .outside
    else
      match TypeP.parseType f ts with
      | .ok (.named path, rest) => .ok (path.map ofTyIdent, rest)
      | .ok (_, _) => .outside
      | .raise => .raise
      | .outOfFuel => .outOfFuel
  | .array | .struct_ => .outside
  | _ => .raise

/-- `p.expect(kind)` followed by building a leaf from the consumed token -/
def expectThenP (k : TK) (ts : List Token) (mk : Token → PExpr) : PPR :=
  if cur ts = k then .ok (mk (hd ts), ts.tail) else .raise

def parsePNullLiteral (ts : List Token) : PPR := expectThenP .null ts (fun t => .null t.pos)
/-- `pos := p.Token.Pos` is read before the `switch` -/
def parsePBoolLiteral (ts : List Token) : PPR :=
  match cur ts with
  | .true_ => .ok (.bool (hd ts).pos true, ts.tail)
  | .false_ => .ok (.bool (hd ts).pos false, ts.tail)
  | _ => .raise
def parsePIntLiteral (ts : List Token) : PPR := expectThenP .int ts (fun t => .int t.pos t.end none t.raw)
def parsePFloatLiteral (ts : List Token) : PPR := expectThenP .float ts (fun t => .float t.pos t.end none t.raw)
def parsePStringLiteral (ts : List Token) : PPR := expectThenP .string ts (fun t => .str t.pos t.end t.asString)
def parsePBytesLiteral (ts : List Token) : PPR := expectThenP .bytes ts (fun t => .bytes t.pos t.end t.asString)
def parsePParam (ts : List Token) : PPR := expectThenP .param ts (fun t => .param t.pos t.asString)

/-- `&ast.Ident{NamePos: id.Pos, NameEnd: id.End, Name: id.AsString}` -/
def identOf (t : Token) : PIdent := ⟨t.pos, t.end, t.asString⟩

def parsePIdent (ts : List Token) : Res (PIdent × List Token) :=
  if cur ts = .ident then .ok (identOf (hd ts), ts.tail) else .raise

/-- the tail of the identifier case of `parseLit` -/
def parsePLitIdent (ts : List Token) : PPR :=
  let id := hd ts
  if isCastLike id then .outside
  else if lookaheadCallExpr ts then .outside
  else if cur ts.tail = .string && isTypedLitWord id then .outside
  else .ok (.ident (identOf id), ts.tail)

/-- the part of `parseUnary` after the operand is known; `pos` is the position of the operator token:
`e.ValuePos = pos; e.Value = string(op) + e.Value; return e` -/
def foldSignP (pos : Nat) (op : UOp) (e : PExpr) : Res PExpr :=
  match op.sign? with
  | none => .ok (.unary pos op e)
  | some s =>
    match e with
    | .int vp ve none raw =>
      match unsignedRaw? raw with
      | none => .crash
      | some true => .ok (.int pos ve (some s) raw)
      | some false => .ok (.unary pos op (.int vp ve none raw))
    | .float vp ve none raw =>
      match unsignedRaw? raw with
      | none => .crash
      | some true => .ok (.float pos ve (some s) raw)
      | some false => .ok (.unary pos op (.float vp ve none raw))
    | _ => .ok (.unary pos op e)

/-- the `switch e := expr.(type)` of `parseSelector` -/
def mkSelP (e : PExpr) (id : PIdent) : PExpr :=
  match e with
  | .ident a => .path [a, id]
  | .path ids => .path (ids ++ [id])
  | _ => .sel e id

/-- the `case "IS"` of `parseComparison` (tokens after IS); `pos := p.Token.Pos` after the optional NOT -/
def parsePIsTail (e : PExpr) (ts : List Token) : PPR :=
  let not := cur ts == .not_
  let ts := if not then ts.tail else ts
  match cur ts with
  | .null => .ok (.isNull (hd ts).pos e not, ts.tail)
  | .true_ => .ok (.isBool (hd ts).pos e not true, ts.tail)
  | .false_ => .ok (.isBool (hd ts).pos e not false, ts.tail)
  | _ => .raise

/-! ## the mutually recursive productions -/

mutual

def parsePExpr : Nat → List Token → PPR
  | 0, _ => .outOfFuel
  | f + 1, ts => parsePOr f ts

def parsePOr : Nat → List Token → PPR
  | 0, _ => .outOfFuel
  | f + 1, ts => (parsePAnd f ts).bind fun p => orLoopP f p.1 p.2

def orLoopP : Nat → PExpr → List Token → PPR
  | 0, _, _ => .outOfFuel
  | f + 1, e, ts =>
    match cur ts with
    | .or_ => (parsePAnd f ts.tail).bind fun p => orLoopP f (.bin .or e p.1) p.2
    | _ => .ok (e, ts)

def parsePAnd : Nat → List Token → PPR
  | 0, _ => .outOfFuel
  | f + 1, ts => (parsePNot f ts).bind fun p => andLoopP f p.1 p.2

def andLoopP : Nat → PExpr → List Token → PPR
  | 0, _, _ => .outOfFuel
  | f + 1, e, ts =>
    match cur ts with
    | .and_ => (parsePNot f ts.tail).bind fun p => andLoopP f (.bin .and e p.1) p.2
    | _ => .ok (e, ts)

def parsePNot : Nat → List Token → PPR
  | 0, _ => .outOfFuel
  | f + 1, ts =>
    match cur ts with
    | .not_ => (parsePNot f ts.tail).bind fun p => .ok (.unary (hd ts).pos .not p.1, p.2)
    | _ => parsePComparison f ts

def parsePComparison : Nat → List Token → PPR
  | 0, _ => .outOfFuel
  | f + 1, ts0 =>
    (parsePBitOr f ts0).bind fun p =>
      let e := p.1
      let ts := p.2
      match cmpOp? (cur ts) with
      | some op => (parsePBitOr f ts.tail).bind fun q => .ok (.bin op e q.1, q.2)
      | none =>
        match cur ts with
        | .in_ => (parsePInCondition f ts.tail).bind fun q => .ok (q.1.mk false e, q.2)
        | .between => parsePBetweenTail f false e ts.tail
        | .not_ =>
          match cur ts.tail with
          | .like => (parsePBitOr f ts.tail.tail).bind fun q => .ok (.bin .notLike e q.1, q.2)
          | .in_ => (parsePInCondition f ts.tail.tail).bind fun q => .ok (q.1.mk true e, q.2)
          | .between => parsePBetweenTail f true e ts.tail.tail
          | _ => .raise
        | .is_ => parsePIsTail e ts.tail
        | _ => .ok (e, ts)

def parsePBetweenTail : Nat → Bool → PExpr → List Token → PPR
  | 0, _, _, _ => .outOfFuel
  | f + 1, not, e, ts =>
    (parsePBitOr f ts).bind fun lo =>
      if cur lo.2 = .and_ then
        (parsePBitOr f lo.2.tail).bind fun hi => .ok (.between not e lo.1 hi.1, hi.2)
      else .raise

/-- `lparen := p.Token.Pos`, `rparen := p.expect(")").Pos`; `unnest := p.Token.Pos` -/
def parsePInCondition : Nat → List Token → Res (PInCond × List Token)
  | 0, _ => .outOfFuel
  | f + 1, ts =>
    if lookaheadSubQuery ts then .outside
    else
      match cur ts with
      | .lparen =>
        (parsePExpr f ts.tail).bind fun p =>
          (inListLoopP f p.2).bind fun q =>
            if cur q.2 = .rparen then .ok (.values (hd ts).pos (hd q.2).pos p.1 q.1, q.2.tail) else .raise
      | .unnest =>
        if cur ts.tail = .lparen then
          (parsePExpr f ts.tail.tail).bind fun p =>
            if cur p.2 = .rparen then .ok (.unnest (hd ts).pos (hd p.2).pos p.1, p.2.tail) else .raise
        else .raise
      | _ => .raise

def inListLoopP : Nat → List Token → Res (PExprs × List Token)
  | 0, _ => .outOfFuel
  | f + 1, ts =>
    match cur ts with
    | .comma =>
      (parsePExpr f ts.tail).bind fun p =>
        (inListLoopP f p.2).bind fun q => .ok (.cons p.1 q.1, q.2)
    | _ => .ok (.nil, ts)

def parsePBitOr : Nat → List Token → PPR
  | 0, _ => .outOfFuel
  | f + 1, ts => (parsePBitXor f ts).bind fun p => bitOrLoopP f p.1 p.2

def bitOrLoopP : Nat → PExpr → List Token → PPR
  | 0, _, _ => .outOfFuel
  | f + 1, e, ts =>
    match cur ts with
    | .bar => (parsePBitXor f ts.tail).bind fun p => bitOrLoopP f (.bin .bitOr e p.1) p.2
    | _ => .ok (e, ts)

def parsePBitXor : Nat → List Token → PPR
  | 0, _ => .outOfFuel
  | f + 1, ts => (parsePBitAnd f ts).bind fun p => bitXorLoopP f p.1 p.2

def bitXorLoopP : Nat → PExpr → List Token → PPR
  | 0, _, _ => .outOfFuel
  | f + 1, e, ts =>
    match cur ts with
    | .caret => (parsePBitAnd f ts.tail).bind fun p => bitXorLoopP f (.bin .bitXor e p.1) p.2
    | _ => .ok (e, ts)

def parsePBitAnd : Nat → List Token → PPR
  | 0, _ => .outOfFuel
  | f + 1, ts => (parsePBitShift f ts).bind fun p => bitAndLoopP f p.1 p.2

def bitAndLoopP : Nat → PExpr → List Token → PPR
  | 0, _, _ => .outOfFuel
  | f + 1, e, ts =>
    match cur ts with
    | .amp => (parsePBitShift f ts.tail).bind fun p => bitAndLoopP f (.bin .bitAnd e p.1) p.2
    | _ => .ok (e, ts)

def parsePBitShift : Nat → List Token → PPR
  | 0, _ => .outOfFuel
  | f + 1, ts => (parsePAddSub f ts).bind fun p => shiftLoopP f p.1 p.2

def shiftLoopP : Nat → PExpr → List Token → PPR
  | 0, _, _ => .outOfFuel
  | f + 1, e, ts =>
    match shiftOp? (cur ts) with
    | some op => (parsePAddSub f ts.tail).bind fun p => shiftLoopP f (.bin op e p.1) p.2
    | none => .ok (e, ts)

def parsePAddSub : Nat → List Token → PPR
  | 0, _ => .outOfFuel
  | f + 1, ts => (parsePMulDiv f ts).bind fun p => addLoopP f p.1 p.2

def addLoopP : Nat → PExpr → List Token → PPR
  | 0, _, _ => .outOfFuel
  | f + 1, e, ts =>
    match addOp? (cur ts) with
    | some op => (parsePMulDiv f ts.tail).bind fun p => addLoopP f (.bin op e p.1) p.2
    | none => .ok (e, ts)

def parsePMulDiv : Nat → List Token → PPR
  | 0, _ => .outOfFuel
  | f + 1, ts => (parsePUnary f ts).bind fun p => mulLoopP f p.1 p.2

def mulLoopP : Nat → PExpr → List Token → PPR
  | 0, _, _ => .outOfFuel
  | f + 1, e, ts =>
    match mulOp? (cur ts) with
    | some op => (parsePUnary f ts.tail).bind fun p => mulLoopP f (.bin op e p.1) p.2
    | none => .ok (e, ts)

/-- `pos := p.Token.Pos` of the operator token -/
def parsePUnary : Nat → List Token → PPR
  | 0, _ => .outOfFuel
  | f + 1, ts =>
    match unOp? (cur ts) with
    | none => parsePSelector f ts
    | some op => (parsePUnary f ts.tail).bind fun p => (foldSignP (hd ts).pos op p.1).bind fun e => .ok (e, p.2)

def parsePSelector : Nat → List Token → PPR
  | 0, _ => .outOfFuel
  | f + 1, ts => (parsePLit f ts).bind fun p => selLoopP f p.1 p.2

/-- `rbrack := p.expect("]").Pos` -/
def selLoopP : Nat → PExpr → List Token → PPR
  | 0, _, _ => .outOfFuel
  | f + 1, e, ts =>
    match cur ts with
    | .dot =>
      if cur ts.tail = .star then .ok (e, ts)
      else (parsePIdent ts.tail).bind fun p => selLoopP f (mkSelP e p.1) p.2
    | .lbrack =>
      (parsePIndexSpecifier f ts.tail).bind fun p =>
        if cur p.2 = .rbrack then selLoopP f (p.1.mk (hd p.2).pos e) p.2.tail else .raise
    | _ => .ok (e, ts)

/-- `pos := p.Token.Pos` (the keyword), `rparen := p.expect(")").Pos`; the keyword production only when the next
token is `(` (`p.lookaheadToken().Kind == "("`), otherwise the word is an ordinary name -/
def parsePIndexSpecifier : Nat → List Token → Res (PIdxSpec × List Token)
  | 0, _ => .outOfFuel
  | f + 1, ts =>
    match posKw? ts with
    | some k =>
      if cur ts.tail = .lparen then
        (parsePExpr f ts.tail.tail).bind fun p =>
          if cur p.2 = .rparen then .ok (.kw ⟨k, (hd ts).asString, (hd ts).pos, (hd p.2).pos⟩ p.1, p.2.tail) else .raise
      else (parsePExpr f ts).bind fun p => .ok (.plain p.1, p.2)
    | none => (parsePExpr f ts).bind fun p => .ok (.plain p.1, p.2)

def parsePLit : Nat → List Token → PPR
  | 0, _ => .outOfFuel
  | f + 1, ts =>
    match cur ts with
    | .null => parsePNullLiteral ts
    | .true_ => parsePBoolLiteral ts
    | .false_ => parsePBoolLiteral ts
    | .int => parsePIntLiteral ts
    | .float => parsePFloatLiteral ts
    | .string => parsePStringLiteral ts
    | .bytes => parsePBytesLiteral ts
    | .param => parsePParam ts
    | .case_ => parsePCaseExpr f ts
    | .if_ => parsePIfExpr f ts
    | .cast => parsePCastExpr f ts
    | .litStart => .outside
    | .lbrack => parsePSimpleArrayLiteral f ts
    | .lparen => parsePParenExpr f ts
    | .ident => parsePLitIdent ts
    | _ => .raise

/-- `paren := p.Token` (its `Pos` is `Lparen`), `rparen := p.Token.Pos` at the `)` -/
def parsePParenExpr : Nat → List Token → PPR
  | 0, _ => .outOfFuel
  | f + 1, ts =>
    if lookaheadSubQuery ts then .outside
    else
      (parsePExpr f ts.tail).bind fun p =>
        match cur p.2 with
        | .rparen => .ok (.paren (hd ts).pos (hd p.2).pos p.1, p.2.tail)
        | .comma => .outside
        | _ => .raise

/-- `lbrack = p.expect("[").Pos`, `rbrack = p.expect("]").Pos` -/
def parsePSimpleArrayLiteral : Nat → List Token → PPR
  | 0, _ => .outOfFuel
  | f + 1, ts =>
    if cur ts = .lbrack then
      if cur ts.tail = .rbrack then .ok (.array (hd ts).pos (hd ts.tail).pos .nil, ts.tail.tail)
      else
        (parsePExpr f ts.tail).bind fun p =>
          (inListLoopP f p.2).bind fun q =>
            if cur q.2 = .rbrack then .ok (.array (hd ts).pos (hd q.2).pos (.cons p.1 q.1), q.2.tail) else .raise
    else .raise

/-- `cast = p.expect("CAST").Pos`, `rparen := p.expect(")").Pos` -/
def parsePCastExpr : Nat → List Token → PPR
  | 0, _ => .outOfFuel
  | f + 1, ts =>
    if cur ts = .cast then
      if cur ts.tail = .lparen then
        (parsePExpr f ts.tail.tail).bind fun p =>
          if cur p.2 = .as_ then
            (castTypeP f p.2.tail).bind fun t =>
              if cur t.2 = .rparen then .ok (.cast (hd ts).pos (hd t.2).pos p.1 t.1, t.2.tail) else .raise
          else .raise
      else .raise
    else .raise

/-- `pos := p.expect("CASE").Pos`, `end := p.expect("END").Pos` -/
def parsePCaseExpr : Nat → List Token → PPR
  | 0, _ => .outOfFuel
  | f + 1, ts =>
    if cur ts = .case_ then
      (if cur ts.tail = .when_ then .ok (POExpr.none, ts.tail)
        else (parsePExpr f ts.tail).bind fun p => .ok (POExpr.some 0 p.1, p.2)).bind fun o =>
      (parsePCaseWhen f o.2).bind fun w =>
      (caseWhenLoopP f w.2).bind fun ws =>
      (if cur ws.2 = .else_ then (parsePCaseElse f ws.2).bind fun p => .ok (POExpr.some (hd ws.2).pos p.1, p.2)
        else .ok (POExpr.none, ws.2)).bind fun el =>
      if cur el.2 = .end_ then
        .ok (.caseE (hd ts).pos (hd el.2).pos o.1 w.1.1 w.1.2.1 w.1.2.2 ws.1 el.1, el.2.tail)
      else .raise
    else .raise

def caseWhenLoopP : Nat → List Token → Res (PWhens × List Token)
  | 0, _ => .outOfFuel
  | f + 1, ts =>
    match cur ts with
    | .when_ =>
      (parsePCaseWhen f ts).bind fun w =>
        (caseWhenLoopP f w.2).bind fun q => .ok (.cons w.1.1 w.1.2.1 w.1.2.2 q.1, q.2)
    | _ => .ok (.nil, ts)

/-- `pos := p.expect("WHEN").Pos`; returns `(When, Cond, Then)` -/
def parsePCaseWhen : Nat → List Token → Res ((Nat × PExpr × PExpr) × List Token)
  | 0, _ => .outOfFuel
  | f + 1, ts =>
    if cur ts = .when_ then
      (parsePExpr f ts.tail).bind fun c =>
        if cur c.2 = .then_ then (parsePExpr f c.2.tail).bind fun t => .ok (((hd ts).pos, c.1, t.1), t.2) else .raise
    else .raise

/-- `parseCaseElse`; the position of ELSE is read by the caller from the same token -/
def parsePCaseElse : Nat → List Token → PPR
  | 0, _ => .outOfFuel
  | f + 1, ts => if cur ts = .else_ then parsePExpr f ts.tail else .raise

/-- `pos := p.expect("IF").Pos`, `rparen := p.expect(")").Pos` -/
def parsePIfExpr : Nat → List Token → PPR
  | 0, _ => .outOfFuel
  | f + 1, ts =>
    if cur ts = .if_ then
      if cur ts.tail = .lparen then
        (parsePExpr f ts.tail.tail).bind fun c =>
          if cur c.2 = .comma then
            (parsePExpr f c.2.tail).bind fun t =>
              if cur t.2 = .comma then
                (parsePExpr f t.2.tail).bind fun e =>
                  if cur e.2 = .rparen then .ok (.ifE (hd ts).pos (hd e.2).pos c.1 t.1 e.1, e.2.tail) else .raise
              else .raise
          else .raise
      else .raise
    else .raise

end

/-- `ParseExpr` with positions -/
def parsePTop (fuel : Nat) (ts : List Token) : Res PExpr :=
  (parsePExpr fuel ts).bind fun p => if cur p.2 = .eof then .ok p.1 else .raise

/-! ## the EXPRPOS line protocol -/

def NodeInfo.render (n : NodeInfo) : String :=
  s!"{n.depth}:{n.kind}:{n.pos}:{n.end}:" ++
    (if n.fields.isEmpty then "-" else ",".intercalate (n.fields.map fun f => s!"{f.1}={f.2}"))

/-- C06 (a) evaluated for one sub-expression: its text lexes and parses to the node moved to offset 0 (compared through
the node list and the shape dump) -/
def c06Node (buf : Bytes) (n : PExpr) : Bool :=
  match Lex.lexAll (slice buf (posP n) (endP n)) with
  | .ok ts' =>
    match parsePTop (topFuel ts') ts' with
    | .ok e' =>
      nodesP 0 e' == nodesP 0 (shiftP (posP n) n) && sexp (erase e') == sexp (erase n)
    | _ => false
  | _ => false

/-- `1`, or `0:<pos>:<end>` of the first sub-expression (preorder) whose text does not parse back to it -/
def c06Run (buf : Bytes) (e : PExpr) : String :=
  match (subsP e).find? (fun n => !c06Node buf n) with
  | none => "1"
  | some n => s!"0:{posP n}:{endP n}"

/-- the EXPRPOS request without the `c06` field: lex, apply the token-level OUTSIDE rule, parse with positions, list all
nodes -/
def exprPosRun (buf : Bytes) : String :=
  match Lex.lexAll buf with
  | .ok ts =>
    if tokenOutside ts then "OUTSIDE"
    else
      match parsePTop (topFuel ts) ts with
      | .ok e => "OK " ++ sexp (erase e) ++ " " ++ " ".intercalate ((nodesP 0 e).map NodeInfo.render)
      | .raise => "ERR"
      | .outside => "OUTSIDE-MODEL"
      | .crash => "CRASH"
      | .outOfFuel => "FUEL"
  | .err _ _ => "ERR"
  | .crash _ => "CRASH"

/-- the EXPRPOS request: `exprPosRun` followed by the `c06` field -/
def exprPosRunC (buf : Bytes) : String :=
  match Lex.lexAll buf with
  | .ok ts =>
    if tokenOutside ts then "OUTSIDE"
    else
      match parsePTop (topFuel ts) ts with
      | .ok e =>
        "OK " ++ sexp (erase e) ++ " " ++ " ".intercalate ((nodesP 0 e).map NodeInfo.render) ++ " c06=" ++ c06Run buf e
      | .raise => "ERR"
      | .outside => "OUTSIDE-MODEL"
      | .crash => "CRASH"
      | .outOfFuel => "FUEL"
  | .err _ _ => "ERR"
  | .crash _ => "CRASH"

end MF.Expr
