/-
  MF.Model.Lexer — `lexer.go`, function for function.

  State `(pos, Token, lastTokenKind, dotIdent)` as in `lexer.go:13-34`.  The scanning
  functions work on `rest = buf.drop pos` with *relative* indices: Go's `l.peek(i)` is
  `rest[i]?`, `l.peekOk(i)` is `i < rest.length`, `l.slice(a,b)` is `lslice? rest a b`
  (with Go's clamping of the upper bound), `l.skipN(n)` is the returned length.  Every
  unguarded Go index/slice is a partial operation whose failure is the outcome `crash`
  (= a Go runtime panic); `err` is `panic(*Error)`; loops are structural recursion on a
  fuel argument and running out of fuel is `crash` too, so "never crashes" includes
  "the fuel given by `nextToken` suffices".
-/
import MF.Model.Token
import MF.Model.Utf8
import MF.Model.File
namespace MF.Lex

inductive ErrKind
  | illegalChar | numberFollow | emptyIdent | escapeEof | hexEscape | escapeNotAllowed
  | unicodeEscape | invalidCodePoint | octalEscape | invalidEscape | unclosedNewline
  | unclosed | unclosedComment | parseUint
  deriving DecidableEq, Repr, Inhabited

structure LexErr where
  kind : ErrKind
  pos : Nat
  «end» : Nat
  deriving DecidableEq, Repr, Inhabited

inductive Res (α : Type) where
  | ok (a : α)
  | err (e : LexErr)
  | crash
  deriving Repr

/-- `l.slice(a, b)` relative to the cursor: upper bound clamped to the buffer, then a Go slice. -/
def lslice? (rest : Bytes) (a b : Nat) : Option Bytes :=
  let b' := if rest.length < b then rest.length else b
  slice? rest a b'

/-- `strconv.ParseUint(s, base, bits)` for base 8/16 (no prefix, no underscore): `none` = error. -/
def digitVal? (base : Nat) (c : UInt8) : Option Nat :=
  if base == 16 then (if Char.isHexDigit c then some (Char.hexVal c) else none)
  else (if Char.isOctalDigit c then some (c.toNat - 48) else none)

def parseUintAux (base : Nat) : Bytes → Nat → Option Nat
  | [], acc => some acc
  | c :: t, acc =>
    match digitVal? base c with
    | some d => parseUintAux base t (acc * base + d)
    | none => none

def parseUint? (s : Bytes) (base maxv : Nat) : Option Nat :=
  match s with
  | [] => none
  | _ =>
    match parseUintAux base s 0 with
    | some v => if v ≤ maxv then some v else none
    | none => none

/-- first `j < n` with `!(peekOk(i+j) && pred(peek(i+j)))` -/
def firstBad (rest : Bytes) (pred : UInt8 → Bool) (i n : Nat) : Option Nat :=
  (List.range n).find? (fun j => match rest[i + j]? with
    | some c => !pred c
    | none => true)

structure QC where
  content : Bytes
  hasError : Bool
  len : Nat
  deriving Repr, DecidableEq

/-- number of leading bytes of `rest` accepted by `pred` (the `for l.peekOk(i) && pred(l.peek(i))` loops) -/
def spanLen (pred : UInt8 → Bool) : Bytes → Nat
  | [] => 0
  | c :: t => if pred c then spanLen pred t + 1 else 0

/-- outcome of decoding one escape sequence (`i` = index just after the escape character) -/
inductive Esc where
  | bytes (bs : Bytes) (i' : Nat)       -- decoded bytes and the index after the sequence
  | bad (k : ErrKind) (a b : Nat)       -- malformed: `panic(*Error)` / in noPanic mode `hasError = true; continue`
  | crash
  deriving Repr, DecidableEq

/-- the three digit-checking escapes: `\xHH`, `\uHHHH`/`\UHHHHHHHH`, `\ooo` -/
def escapeDigits (rest : Bytes) (p0 i : Nat) (pred : UInt8 → Bool) (start size base maxv : Nat)
    (k : ErrKind) (cp : Bool) : Esc :=
  match firstBad rest pred i size with
  | some j => .bad k (p0 + i - 2) (p0 + i + j + 1)
  | none =>
    match lslice? rest start (i + size) with
    | none => .crash
    | some s =>
      match parseUint? s base maxv with
      | none => .bad .parseUint (p0 + i - 2) (p0 + i + size)
      | some u =>
        if cp then
          if (0xD800 ≤ u && u ≤ 0xDFFF) || 0x10FFFF < u then .bad .invalidCodePoint (p0 + i - 2) (p0 + i + size)
          else .bytes (Utf8.encodeRune u) (i + size)
        else .bytes [u.toUInt8] (i + size)

/-- the single-character escapes `\\a \\b \\f \\n \\r \\t \\v \\\\ \\? \\" \\' \\`` -/
def simpleEscape? (c : UInt8) : Option UInt8 :=
  if c == 97 then some 7
  else if c == 98 then some 8
  else if c == 102 then some 12
  else if c == 110 then some 10
  else if c == 114 then some 13
  else if c == 116 then some 9
  else if c == 118 then some 11
  else if c == 92 || c == 63 || c == 34 || c == 39 || c == 96 then some c
  else none

/-- the `switch c` of `consumeQuotedContent` for a non-raw literal; `c` is the escape character
and `i` the index after it -/
def escape (rest : Bytes) (p0 : Nat) (unicode : Bool) (i : Nat) (c : UInt8) : Esc :=
  match simpleEscape? c with
  | some b => .bytes [b] i
  | none =>
    if c == 120 || c == 88 then escapeDigits rest p0 i Char.isHexDigit i 2 16 255 .hexEscape false
    else if c == 117 || c == 85 then
      if !unicode then .bad .escapeNotAllowed (p0 + i - 2) (p0 + i)
      else escapeDigits rest p0 i Char.isHexDigit i (if c == 85 then 8 else 4) 16 0xFFFFFFFF .unicodeEscape true
    else if c == 48 || c == 49 || c == 50 || c == 51 then
      escapeDigits rest p0 i Char.isOctalDigit (i - 1) 2 8 255 .octalEscape false
    else .bad .invalidEscape (p0 + i - 2) (p0 + i)

inductive QStep where
  | done (qc : QC)
  | fail (e : LexErr)
  | crash
  | next (i : Nat) (content : Bytes) (hasError : Bool)
  deriving Repr, DecidableEq

/-- one iteration of the `for l.peekOk(i)` loop of `consumeQuotedContent` (and its exit).
`tp` is `l.pos` as used for the start of the three whole-token errors, `p0` is `l.pos` as used in
`l.pos + i` arithmetic; the lexer passes the same value for both (they are separate so that the
locality lemma `quotedLoop_drop` can shift one and keep the other). -/
def quotedStep (rest : Bytes) (tp p0 : Nat) (q : Bytes) (raw unicode isIdent noPanic : Bool)
    (i : Nat) (content : Bytes) (hasError : Bool) : QStep :=
  match rest[i]? with
  | none =>
    if noPanic then .done { content := [], hasError := true, len := i }
    else .fail ⟨.unclosed, tp, p0 + i⟩
  | some c =>
    match lslice? rest i (i + q.length) with
    | none => .crash
    | some sl =>
      if sl == q then
        if content.isEmpty && isIdent then
          if noPanic then .done { content := [], hasError := true, len := i + q.length }
          else .fail ⟨.emptyIdent, tp, p0 + i + q.length⟩
        else if hasError then .done { content := [], hasError := true, len := i + q.length }
        else .done { content := content, hasError := false, len := i + q.length }
      else if c == 92 then
        match rest[i + 1]? with
        | none =>
          if noPanic then .next (i + 1) content true
          else .fail ⟨.escapeEof, p0 + i, p0 + i + 1⟩
        | some c2 =>
          if raw then .next (i + 2) (content ++ [92, c2]) hasError
          else
            match escape rest p0 unicode (i + 2) c2 with
            | .bytes bs i' => .next i' (content ++ bs) hasError
            | .bad k a b => if noPanic then .next (i + 2) content true else .fail ⟨k, a, b⟩
            | .crash => .crash
      else if c == 10 && q.length != 3 then
        if noPanic then .next (i + 1) content true
        else .fail ⟨.unclosedNewline, tp, p0 + i⟩
      else .next (i + 1) (content ++ [c]) hasError

/-- `consumeQuotedContent` — `rest` starts at the opening quote, `p0` is `l.pos`. -/
def quotedLoop (rest : Bytes) (tp p0 : Nat) (q : Bytes) (raw unicode isIdent noPanic : Bool) :
    Nat → Nat → Bytes → Bool → Res QC
  | 0, _, _, _ => .crash
  | fuel + 1, i, content, hasError =>
    match quotedStep rest tp p0 q raw unicode isIdent noPanic i content hasError with
    | .done qc => .ok qc
    | .fail e => .err e
    | .crash => .crash
    | .next i' content' hasError' => quotedLoop rest tp p0 q raw unicode isIdent noPanic fuel i' content' hasError'

def consumeQuotedContent (rest : Bytes) (p0 : Nat) (q : Bytes) (raw unicode isIdent noPanic : Bool) : Res QC :=
  quotedLoop rest p0 p0 q raw unicode isIdent noPanic (rest.length + 2) q.length [] false

/-- `peekDelimiter`: `none` is the index panic / the "BUG" panic. -/
def peekDelimiter (rest : Bytes) : Option Bytes :=
  match rest[0]? with
  | none => none
  | some c =>
    if c != 34 && c != 39 then none
    else if rest[1]? == some c && rest[2]? == some c then some [c, c, c]
    else some [c]

/-- what the token scanners return: kind, bytes consumed, `AsString`, `Base`, whether the `.`
case asked for dot-identifier mode. -/
structure Scan where
  kind : TokKind
  len : Nat
  asString : Bytes := []
  base : Nat := 0
  dot : Bool := false
  deriving Repr, DecidableEq

/-- `l.peekOk(i) && pred(l.peek(i))` -/
def peekSat (rest : Bytes) (i : Nat) (pred : UInt8 → Bool) : Bool :=
  match rest[i]? with
  | some d => pred d
  | none => false

/-- the `for l.peekOk(i)` loop of `consumeNumber`; returns `(i, int)` -/
def numberLoop (rest : Bytes) (base : Nat) : Nat → Nat → Bool → Bool → Option (Nat × Bool)
  | 0, _, _, _ => none
  | fuel + 1, i, isInt, exp =>
    match rest[i]? with
    | none => some (i, isInt)
    | some c =>
      if base == 10 && Char.isDigit c then numberLoop rest base fuel (i + 1) isInt exp
      else if base == 16 && Char.isHexDigit c then numberLoop rest base fuel (i + 1) isInt exp
      else if !exp && isInt && base == 10 && c == 46 then numberLoop rest base fuel (i + 1) false exp
      else if !exp && base == 10 && (c == 69 || c == 101) then
        let i1 := i + 1
        let i2 := if rest[i1]? == some 43 || rest[i1]? == some 45 then i1 + 1 else i1
        match rest[i2]? with
        | some d => if Char.isDigit d then numberLoop rest base fuel i2 false true else some (i, isInt)
        | none => some (i, isInt)
      else some (i, isInt)

/-- `0x` / `0X` followed by at least one hexadecimal digit -/
def isHexPrefix (rest : Bytes) : Bool :=
  rest[0]? == some 48 && (rest[1]? == some 120 || rest[1]? == some 88) && peekSat rest 2 Char.isHexDigit

def consumeNumber (rest : Bytes) (p0 : Nat) (noPanic : Bool) : Res Scan :=
  let hex := isHexPrefix rest
  let i0 := if hex then 2 else 0
  let base := if hex then 16 else 10
  match numberLoop rest base (rest.length + 1) i0 true false with
  | none => .crash
  | some (i, isInt) =>
    let tok : Scan := if isInt then { kind := .int, len := i, base := base } else { kind := .float, len := i }
    match rest[i]? with
    | some c =>
      if Char.isIdentPart c then
        if noPanic then .ok { tok with kind := .bad }
        else .err ⟨.numberFollow, p0 + i, p0 + i⟩
      else .ok tok
    | none => .ok tok

/-- the `B b R r " '` prefix loop of `consumeToken`: `some (i, bytes, raw)` when a quote is
reached at offset `i`, `none` when the loop falls through to the identifier case. -/
def strPrefix (rest : Bytes) : Nat → Nat → Bool → Bool → Option (Nat × Bool × Bool)
  | 0, _, _, _ => none
  | fuel + 1, i, bytes, raw =>
    match rest[i]? with
    | none => none
    | some c =>
      if !bytes && (c == 66 || c == 98) then strPrefix rest fuel (i + 1) true raw
      else if !raw && (c == 82 || c == 114) then strPrefix rest fuel (i + 1) bytes true
      else if c == 34 || c == 39 then some (i, bytes, raw)
      else none

def isNextDotIdent : TokKind → Bool
  | .ident => true
  | .param => true
  | .sym s => s == [41] || s == [93]
  | _ => false

def singles : List UInt8 := [40, 41, 123, 125, 59, 44, 91, 93, 126, 42, 47, 38, 94, 37, 58, 63, 92, 36]

def quotedTok (kind : TokKind) (pre : Nat) (r : Res QC) : Res Scan :=
  match r with
  | .ok qc => .ok { kind := if qc.hasError then .bad else kind, len := pre + qc.len, asString := qc.content }
  | .err e => .err e
  | .crash => .crash

def identTok (rest : Bytes) : Scan :=
  let i := spanLen Char.isIdentPart rest
  let s := rest.take i
  let k := Char.toUpper s
  if reserved.contains k then { kind := .sym k, len := i }
  else { kind := .ident, len := i, asString := s }

def tok1 (k : String) : Res Scan := .ok { kind := K k, len := 1 }
def tok2 (k : String) : Res Scan := .ok { kind := K k, len := 2 }

/-- `l.peekIs(i, c)` -/
def peekIs (rest : Bytes) (i : Nat) (c : UInt8) : Bool := rest[i]? == some c

/-- the tail of `consumeToken`: identifier / keyword, or an illegal character -/
def fallbackTok (rest : Bytes) (c : UInt8) (p0 : Nat) (noPanic : Bool) : Res Scan :=
  if Char.isIdentStart c then .ok (identTok rest)
  else if noPanic then .ok { kind := .bad, len := 1 }
  else .err ⟨.illegalChar, p0, p0⟩

def paramTok (rest : Bytes) : Res Scan :=
  let i := 1 + spanLen Char.isIdentPart (rest.drop 1)
  .ok { kind := .param, len := i, asString := slice rest 1 i }

def stringTok (rest : Bytes) (c : UInt8) (p0 : Nat) (noPanic : Bool) : Res Scan :=
  match strPrefix rest 3 0 false false with
  | some (i, bytes, raw) =>
    match peekDelimiter (rest.drop i) with
    | none => .crash
    | some q =>
      quotedTok (if bytes then .bytes else .string) i
        (consumeQuotedContent (rest.drop i) (p0 + i) q raw (!bytes) false noPanic)
  | none => fallbackTok rest c p0 noPanic

/-- the `switch l.peek(0)` of `consumeToken`, as a classification of the first byte -/
inductive CC where
  | single | dot | lt | gt | plus | minus | eq | bar | bang | at | bquote | digit | strStart | other
  deriving DecidableEq, Repr

def classify (c : UInt8) : CC :=
  if singles.contains c then .single
  else if c == 46 then .dot
  else if c == 60 then .lt
  else if c == 62 then .gt
  else if c == 43 then .plus
  else if c == 45 then .minus
  else if c == 61 then .eq
  else if c == 124 then .bar
  else if c == 33 then .bang
  else if c == 64 then .at
  else if c == 96 then .bquote
  else if Char.isDigit c then .digit
  else if c == 66 || c == 98 || c == 82 || c == 114 || c == 34 || c == 39 then .strStart
  else .other

/-- `consumeToken` — `rest = buf.drop l.pos`, `p0 = l.pos`. -/
def consumeToken (rest : Bytes) (p0 : Nat) (lastKind : TokKind) (noPanic : Bool) : Res Scan :=
  match rest with
  | [] => .ok { kind := .eof, len := 0 }
  | c :: _ =>
    match classify c with
    | .single => .ok { kind := .sym [c], len := 1 }
    | .dot =>
      if !isNextDotIdent lastKind && peekSat rest 1 Char.isDigit then consumeNumber rest p0 noPanic
      else .ok { kind := K ".", len := 1, dot := isNextDotIdent lastKind }
    | .lt =>
      if peekIs rest 1 60 then tok2 "<<" else if peekIs rest 1 61 then tok2 "<="
      else if peekIs rest 1 62 then tok2 "<>" else tok1 "<"
    | .gt =>
      if peekIs rest 1 62 then tok2 ">>" else if peekIs rest 1 61 then tok2 ">=" else tok1 ">"
    | .plus => if peekIs rest 1 61 then tok2 "+=" else tok1 "+"
    | .minus =>
      if peekIs rest 1 61 then tok2 "-=" else if peekIs rest 1 62 then tok2 "->" else tok1 "-"
    | .eq => if peekIs rest 1 62 then tok2 "=>" else tok1 "="
    | .bar =>
      if peekIs rest 1 62 then tok2 "|>" else if peekIs rest 1 124 then tok2 "||" else tok1 "|"
    | .bang => if peekIs rest 1 61 then tok2 "!=" else tok1 "!"
    | .at =>
      if peekIs rest 1 64 then tok2 "@@"
      else if peekSat rest 1 Char.isIdentStart then paramTok rest
      else tok1 "@"
    | .bquote => quotedTok .ident 0 (consumeQuotedContent rest p0 [96] false true true noPanic)
    | .digit => consumeNumber rest p0 noPanic
    | .strStart => stringTok rest c p0 noPanic
    | .other => fallbackTok rest c p0 noPanic

/-- `consumeFieldToken` -/
def consumeFieldToken (rest : Bytes) (p0 : Nat) (lastKind : TokKind) (noPanic : Bool) : Res Scan :=
  match rest with
  | c :: _ =>
    if Char.isIdentPart c then
      let i := spanLen Char.isIdentPart rest
      .ok { kind := .ident, len := i, asString := rest.take i }
    else consumeToken rest p0 lastKind noPanic
  | [] => consumeToken rest p0 lastKind noPanic

/-- `skipSpaces`: number of bytes skipped -/
def skipSpaces : Nat → Bytes → Nat
  | 0, _ => 0
  | fuel + 1, rest =>
    if rest.isEmpty then 0
    else if Utf8.isSpace (Utf8.decodeRune rest).1 then
      (Utf8.decodeRune rest).2 + skipSpaces fuel (rest.drop (Utf8.decodeRune rest).2)
    else 0

/-- `skipCommentUntil`: offset just past the first occurrence of `endm`, scanning from the cursor. -/
def scanUntil (endm : Bytes) : Bytes → Option Nat
  | [] => none
  | c :: t =>
    if (c :: t).take endm.length == endm then some endm.length
    else (scanUntil endm t).map (· + 1)

def isLineCommentStart (rest : Bytes) : Bool :=
  match rest with
  | c :: _ => c == 35 || (c == 47 && rest[1]? == some 47) || (c == 45 && rest[1]? == some 45)
  | [] => false

def isBlockCommentStart (rest : Bytes) : Bool :=
  match rest with
  | c :: _ => c == 47 && rest[1]? == some 42
  | [] => false

/-- `skipComment`: `(bytes skipped, hasError)` -/
def skipComment (rest : Bytes) (p0 : Nat) (noPanic : Bool) : Res (Nat × Bool) :=
  if isLineCommentStart rest then .ok ((scanUntil [10] rest).getD rest.length, false)
  else if isBlockCommentStart rest then
    match scanUntil [42, 47] (rest.drop 2) with
    | some n => .ok (n + 2, false)
    | none =>
      if noPanic then .ok (rest.length, true)
      else .err ⟨.unclosedComment, p0, p0 + rest.length⟩
  else .ok (0, false)

structure State where
  pos : Nat := 0
  tok : Token := {}
  lastKind : TokKind := .sym []
  dotIdent : Bool := false
  deriving Repr, DecidableEq, Inhabited

/-- the trivia loop of `nextToken`; returns `(pos, comments, space, hasError)`; with `hasError` the position is
the start of the unclosed comment, which runs to the end of the input -/
def triviaLoop (buf : Bytes) (noPanic : Bool) : Nat → Nat → List Comment → Res (Nat × List Comment × Bytes × Bool)
  | 0, _, _ => .crash
  | fuel + 1, pos, comments =>
    let i := pos
    let pos1 := pos + skipSpaces (buf.length + 1) (buf.drop pos)
    match slice? buf i pos1 with
    | none => .crash
    | some space =>
      match skipComment (buf.drop pos1) pos1 noPanic with
      | .crash => .crash
      | .err e => .err e
      | .ok (n, hasError) =>
        if n == 0 then .ok (pos1, comments, space, false)
        else
          let pos2 := pos1 + n
          match slice? buf pos1 pos2 with
          | none => .crash
          | some raw =>
            -- an unclosed comment (recovery mode only) is not a comment of the token: it becomes the <bad> token itself
            if hasError then .ok (pos1, comments, space, true)
            else triviaLoop buf noPanic fuel pos2 (comments ++ [{ space := space, raw := raw, pos := pos1, «end» := pos2 }])

/-- `Lexer.nextToken(noPanic)` up to the construction of the `*Error` value -/
def nextTokenCore (buf : Bytes) (noPanic : Bool) (s : State) : Res State :=
  let lastKind := s.tok.kind
  match triviaLoop buf noPanic (buf.length + 2) s.pos [] with
  | .crash => .crash
  | .err e => .err e
  | .ok (pos, comments, space, hasError) =>
    if hasError then
      -- the rest of the input is an unclosed comment: a <bad> token spanning it
      match slice? buf pos buf.length with
      | none => .crash
      | some raw =>
        .ok { pos := buf.length, lastKind := lastKind, dotIdent := s.dotIdent,
              tok := { kind := .bad, comments := comments, space := space, raw := raw, pos := pos, «end» := buf.length } }
    else
      let rest := buf.drop pos
      let r := if s.dotIdent then consumeFieldToken rest pos lastKind noPanic
               else consumeToken rest pos lastKind noPanic
      match r with
      | .crash => .crash
      | .err e => .err e
      | .ok sc =>
        let pos' := pos + sc.len
        match slice? buf pos pos' with
        | none => .crash
        | some raw =>
          .ok { pos := pos', lastKind := lastKind,
                dotIdent := if s.dotIdent then false else sc.dot,
                tok := { kind := sc.kind, comments := comments, space := space, raw := raw,
                         asString := sc.asString, base := sc.base, pos := pos, «end» := pos' } }

/-- `Lexer.nextToken(noPanic)`: an error value is built by `l.errorfAtPosition`, which clamps `end` to the
buffer length and calls `File.Position(pos, end)`; if that panics at run time the outcome is `crash`, not `err`. -/
def clampErr (buf : Bytes) (e : LexErr) : LexErr :=
  -- `errorf` (used by the two cursor-position errors) does not clamp; `errorfAtPosition` does
  if e.kind == .illegalChar || e.kind == .numberFollow then e
  else if buf.length < e.end then { e with «end» := buf.length } else e

def nextToken (buf : Bytes) (noPanic : Bool) (s : State) : Res State :=
  match nextTokenCore buf noPanic s with
  | .err e0 =>
    let e := clampErr buf e0
    match File.position buf e.pos e.end with
    | some _ => .err e
    | none => .crash
  | r => r

/-- initial state of `&Lexer{File: …}`: zero `Token` (kind `""`). -/
def init : State := {}

inductive LexAll where
  | ok (toks : List Token)
  | err (toks : List Token) (e : LexErr)
  | crash (toks : List Token)
  deriving Repr

/-- iterate `NextToken` until `<eof>` (panic mode) -/
def lexAllFrom (buf : Bytes) : Nat → State → List Token → LexAll
  | 0, _, acc => .crash acc.reverse
  | fuel + 1, s, acc =>
    match nextToken buf false s with
    | .crash => .crash acc.reverse
    | .err e => .err acc.reverse e
    | .ok s' =>
      if s'.tok.kind == .eof then .ok (s'.tok :: acc).reverse
      else lexAllFrom buf fuel s' (s'.tok :: acc)

def lexAll (buf : Bytes) : LexAll := lexAllFrom buf (buf.length + 2) init []

end MF.Lex
