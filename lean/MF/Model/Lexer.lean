/-
  MF.Model.Lexer — `lexer.go`, function for function.

  State `(pos, Token, lastTokenKind, dotIdent)` as in `lexer.go:13-34`.  The scanning
  functions work on `rest = buf.drop pos` with *relative* indices: Go's `l.peek(i)` is
  `rest[i]?`, `l.peekOk(i)` is `i < rest.length`, `l.slice(a,b)` is `lslice? rest a b`
  (with Go's clamping of the upper bound), `l.skipN(n)` is the returned length.  Every
  unguarded Go index/slice is a partial operation whose failure is the outcome `crash`
  (= a Go runtime panic); `err` is `panic(*Error)`; loops are structural recursion on a
  fuel argument and running out of fuel is `crash` too, so "never crashes" includes
  "the fuel given by `nextToken` suffices".
-/
import MF.Model.Token
import MF.Model.Utf8
import MF.Model.File
namespace MF.Lex

inductive ErrKind
  | illegalChar | numberFollow | emptyIdent | escapeEof | hexEscape | escapeNotAllowed
  | unicodeEscape | invalidCodePoint | octalEscape | invalidEscape | unclosedNewline
  | unclosed | unclosedComment | parseUint
  deriving DecidableEq, Repr, Inhabited

structure LexErr where
  kind : ErrKind
  pos : Nat
  «end» : Nat
  deriving DecidableEq, Repr, Inhabited

inductive Res (α : Type) where
  | ok (a : α)
  | err (e : LexErr)
  | crash
  deriving Repr

/-- `l.slice(a, b)` relative to the cursor: upper bound clamped to the buffer, then a Go slice. -/
def lslice? (rest : Bytes) (a b : Nat) : Option Bytes :=
  let b' := if rest.length < b then rest.length else b
  slice? rest a b'

/-- `strconv.ParseUint(s, base, bits)` for base 8/16 (no prefix, no underscore): `none` = error. -/
def digitVal? (base : Nat) (c : UInt8) : Option Nat :=
  if base == 16 then (if Char.isHexDigit c then some (Char.hexVal c) else none)
  else (if Char.isOctalDigit c then some (c.toNat - 48) else none)

def parseUintAux (base : Nat) : Bytes → Nat → Option Nat
  | [], acc => some acc
  | c :: t, acc =>
    match digitVal? base c with
    | some d => parseUintAux base t (acc * base + d)
    | none => none

def parseUint? (s : Bytes) (base maxv : Nat) : Option Nat :=
  match s with
  | [] => none
  | _ =>
    match parseUintAux base s 0 with
    | some v => if v ≤ maxv then some v else none
    | none => none

/-- first `j < n` with `!(peekOk(i+j) && pred(peek(i+j)))` -/
def firstBad (rest : Bytes) (pred : UInt8 → Bool) (i n : Nat) : Option Nat :=
  (List.range n).find? (fun j => match rest[i + j]? with
    | some c => !pred c
    | none => true)

structure QC where
  content : Bytes
  hasError : Bool
  len : Nat
  deriving Repr, DecidableEq

/-- number of leading bytes of `rest` accepted by `pred` (the `for l.peekOk(i) && pred(l.peek(i))` loops) -/
def spanLen (pred : UInt8 → Bool) : Bytes → Nat
  | [] => 0
  | c :: t => if pred c then spanLen pred t + 1 else 0

/-- `consumeQuotedContent` — `rest` starts at the opening quote, `p0` is `l.pos`. -/
def quotedLoop (rest : Bytes) (p0 : Nat) (q : Bytes) (raw unicode isIdent noPanic : Bool) :
    Nat → Nat → Bytes → Bool → Res QC
  | 0, _, _, _ => .crash
  | fuel + 1, i, content, hasError =>
    match rest[i]? with
    | none =>
      if noPanic then .ok { content := [], hasError := true, len := i }
      else .err ⟨.unclosed, p0, p0 + i⟩
    | some c =>
      match lslice? rest i (i + q.length) with
      | none => .crash
      | some sl =>
      if sl == q then
        if content.isEmpty && isIdent then
          if noPanic then .ok { content := [], hasError := true, len := i + q.length }
          else .err ⟨.emptyIdent, p0, p0 + i + q.length⟩
        else if hasError then .ok { content := [], hasError := true, len := i + q.length }
        else .ok { content := content, hasError := false, len := i + q.length }
      else if c == 92 then
        let i := i + 1
        match rest[i]? with
        | none =>
          if noPanic then quotedLoop rest p0 q raw unicode isIdent noPanic fuel i content true
          else .err ⟨.escapeEof, p0 + i - 1, p0 + i⟩
        | some c =>
          let i := i + 1
          if raw then quotedLoop rest p0 q raw unicode isIdent noPanic fuel i (content ++ [92, c]) hasError
          else
            let simple (b : UInt8) := quotedLoop rest p0 q raw unicode isIdent noPanic fuel i (content ++ [b]) hasError
            let fail (k : ErrKind) (a b : Nat) : Res QC :=
              if noPanic then quotedLoop rest p0 q raw unicode isIdent noPanic fuel i content true
              else .err ⟨k, a, b⟩
            if c == 97 then simple 7
            else if c == 98 then simple 8
            else if c == 102 then simple 12
            else if c == 110 then simple 10
            else if c == 114 then simple 13
            else if c == 116 then simple 9
            else if c == 118 then simple 11
            else if c == 92 || c == 63 || c == 34 || c == 39 || c == 96 then simple c
            else if c == 120 || c == 88 then
              let bad := firstBad rest Char.isHexDigit i 2
              match bad, noPanic with
              | some j, false => .err ⟨.hexEscape, p0 + i - 2, p0 + i + j + 1⟩
              | _, _ =>
                let hasError := hasError || bad.isSome
                match lslice? rest i (i + 2) with
                | none => .crash
                | some s =>
                  match parseUint? s 16 255 with
                  | none =>
                    if noPanic then quotedLoop rest p0 q raw unicode isIdent noPanic fuel i content true
                    else .err ⟨.parseUint, p0 + i - 2, p0 + i + 2⟩
                  | some u =>
                    quotedLoop rest p0 q raw unicode isIdent noPanic fuel (i + 2) (content ++ [u.toUInt8]) hasError
            else if c == 117 || c == 85 then
              if !unicode then fail .escapeNotAllowed (p0 + i - 2) (p0 + i)
              else
                let size := if c == 85 then 8 else 4
                let bad := firstBad rest Char.isHexDigit i size
                match bad, noPanic with
                | some j, false => .err ⟨.unicodeEscape, p0 + i - 2, p0 + i + j + 1⟩
                | _, _ =>
                  let hasError := hasError || bad.isSome
                  match lslice? rest i (i + size) with
                  | none => .crash
                  | some s =>
                    match parseUint? s 16 0xFFFFFFFF with
                    | none =>
                      if noPanic then quotedLoop rest p0 q raw unicode isIdent noPanic fuel i content true
                      else .err ⟨.parseUint, p0 + i - 2, p0 + i + size⟩
                    | some u =>
                      if (0xD800 ≤ u && u ≤ 0xDFFF) || 0x10FFFF < u then
                        if noPanic then quotedLoop rest p0 q raw unicode isIdent noPanic fuel i content true
                        else .err ⟨.invalidCodePoint, p0 + i - 2, p0 + i + size⟩
                      else
                        quotedLoop rest p0 q raw unicode isIdent noPanic fuel (i + size)
                          (content ++ Utf8.encodeRune u) hasError
            else if c == 48 || c == 49 || c == 50 || c == 51 then
              let bad := firstBad rest Char.isOctalDigit i 2
              match bad, noPanic with
              | some j, false => .err ⟨.octalEscape, p0 + i - 2, p0 + i + j + 1⟩
              | _, _ =>
                let hasError := hasError || bad.isSome
                match lslice? rest (i - 1) (i + 2) with
                | none => .crash
                | some s =>
                  match parseUint? s 8 255 with
                  | none =>
                    if noPanic then quotedLoop rest p0 q raw unicode isIdent noPanic fuel i content true
                    else .err ⟨.parseUint, p0 + i - 2, p0 + i + 2⟩
                  | some u =>
                    quotedLoop rest p0 q raw unicode isIdent noPanic fuel (i + 2) (content ++ [u.toUInt8]) hasError
            else fail .invalidEscape (p0 + i - 2) (p0 + i)
      else if c == 10 && q.length != 3 then
        if noPanic then quotedLoop rest p0 q raw unicode isIdent noPanic fuel (i + 1) content true
        else .err ⟨.unclosedNewline, p0, p0 + i⟩
      else quotedLoop rest p0 q raw unicode isIdent noPanic fuel (i + 1) (content ++ [c]) hasError

def consumeQuotedContent (rest : Bytes) (p0 : Nat) (q : Bytes) (raw unicode isIdent noPanic : Bool) : Res QC :=
  quotedLoop rest p0 q raw unicode isIdent noPanic (rest.length + 2) q.length [] false

/-- `peekDelimiter`: `none` is the index panic / the "BUG" panic. -/
def peekDelimiter (rest : Bytes) : Option Bytes :=
  match rest[0]? with
  | none => none
  | some c =>
    if c != 34 && c != 39 then none
    else if rest[1]? == some c && rest[2]? == some c then some [c, c, c]
    else some [c]

/-- what the token scanners return: kind, bytes consumed, `AsString`, `Base`, whether the `.`
case asked for dot-identifier mode. -/
structure Scan where
  kind : TokKind
  len : Nat
  asString : Bytes := []
  base : Nat := 0
  dot : Bool := false
  deriving Repr, DecidableEq

/-- the `for l.peekOk(i)` loop of `consumeNumber`; returns `(i, int)` -/
def numberLoop (rest : Bytes) (base : Nat) : Nat → Nat → Bool → Bool → Option (Nat × Bool)
  | 0, _, _, _ => none
  | fuel + 1, i, isInt, exp =>
    match rest[i]? with
    | none => some (i, isInt)
    | some c =>
      if base == 10 && Char.isDigit c then numberLoop rest base fuel (i + 1) isInt exp
      else if base == 16 && Char.isHexDigit c then numberLoop rest base fuel (i + 1) isInt exp
      else if !exp && isInt && base == 10 && c == 46 then numberLoop rest base fuel (i + 1) false exp
      else if !exp && base == 10 && (c == 69 || c == 101) then
        let i1 := i + 1
        let i2 := if rest[i1]? == some 43 || rest[i1]? == some 45 then i1 + 1 else i1
        match rest[i2]? with
        | some d => if Char.isDigit d then numberLoop rest base fuel i2 false true else some (i, isInt)
        | none => some (i, isInt)
      else some (i, isInt)

def consumeNumber (rest : Bytes) (p0 : Nat) (noPanic : Bool) : Res Scan :=
  let hex := rest[0]? == some 48 && (rest[1]? == some 120 || rest[1]? == some 88)
  let i0 := if hex then 2 else 0
  let base := if hex then 16 else 10
  match numberLoop rest base (rest.length + 1) i0 true false with
  | none => .crash
  | some (i, isInt) =>
    let tok : Scan := if isInt then { kind := .int, len := i, base := base } else { kind := .float, len := i }
    match rest[i]? with
    | some c =>
      if Char.isIdentPart c then
        if noPanic then .ok { tok with kind := .bad }
        else .err ⟨.numberFollow, p0 + i, p0 + i⟩
      else .ok tok
    | none => .ok tok

/-- the `B b R r " '` prefix loop of `consumeToken`: `some (i, bytes, raw)` when a quote is
reached at offset `i`, `none` when the loop falls through to the identifier case. -/
def strPrefix (rest : Bytes) : Nat → Nat → Bool → Bool → Option (Nat × Bool × Bool)
  | 0, _, _, _ => none
  | fuel + 1, i, bytes, raw =>
    match rest[i]? with
    | none => none
    | some c =>
      if !bytes && (c == 66 || c == 98) then strPrefix rest fuel (i + 1) true raw
      else if !raw && (c == 82 || c == 114) then strPrefix rest fuel (i + 1) bytes true
      else if c == 34 || c == 39 then some (i, bytes, raw)
      else none

def isNextDotIdent : TokKind → Bool
  | .ident => true
  | .param => true
  | .sym s => s == [41] || s == [93]
  | _ => false

def singles : List UInt8 := [40, 41, 123, 125, 59, 44, 91, 93, 126, 42, 47, 38, 94, 37, 58, 63, 92, 36]

def quotedTok (kind : TokKind) (pre : Nat) (r : Res QC) : Res Scan :=
  match r with
  | .ok qc => .ok { kind := if qc.hasError then .bad else kind, len := pre + qc.len, asString := qc.content }
  | .err e => .err e
  | .crash => .crash

def identTok (rest : Bytes) : Scan :=
  let i := spanLen Char.isIdentPart rest
  let s := rest.take i
  let k := Char.toUpper s
  if reserved.contains k then { kind := .sym k, len := i }
  else { kind := .ident, len := i, asString := s }

/-- `consumeToken` — `rest = buf.drop l.pos`, `p0 = l.pos`. -/
def consumeToken (rest : Bytes) (p0 : Nat) (lastKind : TokKind) (noPanic : Bool) : Res Scan :=
  match rest with
  | [] => .ok { kind := .eof, len := 0 }
  | c :: _ =>
    let r1 (k : String) : Res Scan := .ok { kind := K k, len := 1 }
    let r2 (k : String) : Res Scan := .ok { kind := K k, len := 2 }
    let n1 := rest[1]?
    let fallback : Res Scan :=
      if Char.isIdentStart c then .ok (identTok rest)
      else if noPanic then .ok { kind := .bad, len := 1 }
      else .err ⟨.illegalChar, p0, p0⟩
    if singles.contains c then .ok { kind := .sym [c], len := 1 }
    else if c == 46 then
      let nd := isNextDotIdent lastKind
      if !nd && (match n1 with | some d => Char.isDigit d | none => false) then consumeNumber rest p0 noPanic
      else .ok { kind := K ".", len := 1, dot := nd }
    else if c == 60 then
      if n1 == some 60 then r2 "<<" else if n1 == some 61 then r2 "<=" else if n1 == some 62 then r2 "<>" else r1 "<"
    else if c == 62 then
      if n1 == some 62 then r2 ">>" else if n1 == some 61 then r2 ">=" else r1 ">"
    else if c == 43 then (if n1 == some 61 then r2 "+=" else r1 "+")
    else if c == 45 then
      if n1 == some 61 then r2 "-=" else if n1 == some 62 then r2 "->" else r1 "-"
    else if c == 61 then (if n1 == some 62 then r2 "=>" else r1 "=")
    else if c == 124 then
      if n1 == some 62 then r2 "|>" else if n1 == some 124 then r2 "||" else r1 "|"
    else if c == 33 then (if n1 == some 61 then r2 "!=" else r1 "!")
    else if c == 64 then
      if n1 == some 64 then r2 "@@"
      else if (match n1 with | some d => Char.isIdentStart d | none => false) then
        let i := 1 + spanLen Char.isIdentPart (rest.drop 1)
        .ok { kind := .param, len := i, asString := slice rest 1 i }
      else r1 "@"
    else if c == 96 then
      quotedTok .ident 0 (consumeQuotedContent rest p0 [96] false true true noPanic)
    else if Char.isDigit c then consumeNumber rest p0 noPanic
    else if c == 66 || c == 98 || c == 82 || c == 114 || c == 34 || c == 39 then
      match strPrefix rest 3 0 false false with
      | some (i, bytes, raw) =>
        let rest' := rest.drop i
        match peekDelimiter rest' with
        | none => .crash
        | some q =>
          quotedTok (if bytes then .bytes else .string) i
            (consumeQuotedContent rest' (p0 + i) q raw (!bytes) false noPanic)
      | none => fallback
    else fallback

/-- `consumeFieldToken` -/
def consumeFieldToken (rest : Bytes) (p0 : Nat) (lastKind : TokKind) (noPanic : Bool) : Res Scan :=
  match rest with
  | c :: _ =>
    if Char.isIdentPart c then
      let i := spanLen Char.isIdentPart rest
      .ok { kind := .ident, len := i, asString := rest.take i }
    else consumeToken rest p0 lastKind noPanic
  | [] => consumeToken rest p0 lastKind noPanic

/-- `skipSpaces`: number of bytes skipped -/
def skipSpaces : Nat → Bytes → Nat
  | 0, _ => 0
  | fuel + 1, rest =>
    match rest with
    | [] => 0
    | _ =>
      let (r, size) := Utf8.decodeRune rest
      if Utf8.isSpace r then size + skipSpaces fuel (rest.drop size) else 0

/-- `skipCommentUntil`: offset just past the first occurrence of `endm`, scanning from the cursor. -/
def scanUntil (endm : Bytes) : Bytes → Option Nat
  | [] => none
  | c :: t =>
    if (c :: t).take endm.length == endm then some endm.length
    else (scanUntil endm t).map (· + 1)

/-- `skipComment`: `(bytes skipped, hasError)` -/
def skipComment (rest : Bytes) (p0 : Nat) (noPanic : Bool) : Res (Nat × Bool) :=
  match rest with
  | [] => .ok (0, false)
  | c :: _ =>
    let n1 := rest[1]?
    if c == 35 || (c == 47 && n1 == some 47) || (c == 45 && n1 == some 45) then
      match scanUntil [10] rest with
      | some n => .ok (n, false)
      | none => .ok (rest.length, false)
    else if c == 47 && n1 == some 42 then
      match scanUntil [42, 47] rest with
      | some n => .ok (n, false)
      | none =>
        if noPanic then .ok (rest.length, true)
        else .err ⟨.unclosedComment, p0, p0 + rest.length⟩
    else .ok (0, false)

structure State where
  pos : Nat := 0
  tok : Token := {}
  lastKind : TokKind := .sym []
  dotIdent : Bool := false
  deriving Repr, DecidableEq, Inhabited

/-- the trivia loop of `nextToken`; returns `(pos, comments, space, hasError)` -/
def triviaLoop (buf : Bytes) (noPanic : Bool) : Nat → Nat → List Comment → Res (Nat × List Comment × Bytes × Bool)
  | 0, _, _ => .crash
  | fuel + 1, pos, comments =>
    let i := pos
    let pos1 := pos + skipSpaces (buf.length + 1) (buf.drop pos)
    match slice? buf i pos1 with
    | none => .crash
    | some space =>
      match skipComment (buf.drop pos1) pos1 noPanic with
      | .crash => .crash
      | .err e => .err e
      | .ok (n, hasError) =>
        if n == 0 then .ok (pos1, comments, space, false)
        else
          let pos2 := pos1 + n
          match slice? buf pos1 pos2 with
          | none => .crash
          | some raw =>
            let comments := comments ++ [{ space := space, raw := raw, pos := pos1, «end» := pos2 }]
            if hasError then .ok (pos2, comments, [], true)
            else triviaLoop buf noPanic fuel pos2 comments

/-- `Lexer.nextToken(noPanic)` up to the construction of the `*Error` value -/
def nextTokenCore (buf : Bytes) (noPanic : Bool) (s : State) : Res State :=
  let lastKind := s.tok.kind
  match triviaLoop buf noPanic (buf.length + 2) s.pos [] with
  | .crash => .crash
  | .err e => .err e
  | .ok (pos, comments, space, hasError) =>
    if hasError then
      .ok { pos := pos, lastKind := lastKind, dotIdent := s.dotIdent,
            tok := { kind := .bad, comments := comments, pos := pos, «end» := pos } }
    else
      let rest := buf.drop pos
      let r := if s.dotIdent then consumeFieldToken rest pos lastKind noPanic
               else consumeToken rest pos lastKind noPanic
      match r with
      | .crash => .crash
      | .err e => .err e
      | .ok sc =>
        let pos' := pos + sc.len
        match slice? buf pos pos' with
        | none => .crash
        | some raw =>
          .ok { pos := pos', lastKind := lastKind,
                dotIdent := if s.dotIdent then false else sc.dot,
                tok := { kind := sc.kind, comments := comments, space := space, raw := raw,
                         asString := sc.asString, base := sc.base, pos := pos, «end» := pos' } }

/-- `Lexer.nextToken(noPanic)`: an error value is built by `l.errorfAtPosition`, which calls
`File.Position(pos, end)`; if that panics at run time the outcome is `crash`, not `err`. -/
def nextToken (buf : Bytes) (noPanic : Bool) (s : State) : Res State :=
  match nextTokenCore buf noPanic s with
  | .err e =>
    match File.position buf e.pos e.end with
    | some _ => .err e
    | none => .crash
  | r => r

/-- initial state of `&Lexer{File: …}`: zero `Token` (kind `""`). -/
def init : State := {}

inductive LexAll where
  | ok (toks : List Token)
  | err (toks : List Token) (e : LexErr)
  | crash (toks : List Token)
  deriving Repr

/-- iterate `NextToken` until `<eof>` (panic mode) -/
def lexAllFrom (buf : Bytes) : Nat → State → List Token → LexAll
  | 0, _, acc => .crash acc.reverse
  | fuel + 1, s, acc =>
    match nextToken buf false s with
    | .crash => .crash acc.reverse
    | .err e => .err acc.reverse e
    | .ok s' =>
      if s'.tok.kind == .eof then .ok (s'.tok :: acc).reverse
      else lexAllFrom buf fuel s' (s'.tok :: acc)

def lexAll (buf : Bytes) : LexAll := lexAllFrom buf (buf.length + 2) init []

end MF.Lex
