/-
  MF.Model.NodeLits — the types of the facts that `tools/extract/nodelits.go` reads out of parser.go on every run
  (`MF/Gen/NodeLits.lean`), and the decidable static condition `sitesOK` over them (C04: every node literal of the parser
  fills the fields that `SQL()` / `Pos()` / `End()` dereference).

  An `Atom` is one syntactic origin of a node value; the class of a field of a literal site is the LIST of atoms over all
  paths of the extractor's flow analysis (one element for `F: p.parseX()`; several for a variable assigned in branches).
-/
import MF.Model.Required
namespace MF.NodeLits
open MF.Ast

inductive Atom where
  | absent                              -- the field is not mentioned / a `var x T` not assigned on this path
  | nilLit                              -- `nil`
  | lit (kind : String)                 -- `&ast.K{…}`
  | call (key : Nat) (name : String)    -- result `key % 16` of function `key / 16` (a function of parser.go returning a node)
  | maybeNil (name : String)            -- `p.tryParseX()` / `p.lookahead…()`
  | param (key : Nat) (name : String)   -- parameter `key % 16` of function `key / 16`
  | checked (src : String)              -- a POINTER-typed local variable on a path where `x != nil` was tested
  | identName (src : String)            -- (strings) `id.AsString` of an identifier token
  | unknown (src : String)              -- anything else
  deriving Repr, DecidableEq, Inhabited

structure Site where
  fn : Nat
  fnName : String
  line : Nat
  /-- every single-node field of the kind, in declaration order, with its class -/
  fields : List (String × List Atom)
  /-- every string field of the kind with the origin of its value -/
  strs : List (String × List Atom)
  deriving Repr, Inhabited

/-- the literal sites of one kind; `Gen.NodeLits.kindSites` has one entry per catalogue kind, in catalogue order -/
structure KindSites where
  kind : String
  sites : List Site
  deriving Repr, Inhabited

/-- `x.F = v` on a local node variable `x`; `kind = ""`: the static kind of `x` is not known syntactically -/
structure Mutation where
  fn : Nat
  fnName : String
  line : Nat
  target : String
  kind : String
  field : String
  cls : List Atom
  /-- `x` held exactly one literal of the function: the assignment was applied to that site's field -/
  attributed : Bool
  deriving Repr, Inhabited

structure Facts where
  kindSites : List KindSites
  retFacts : List (Nat × String × List Atom)
  paramFacts : List (Nat × String × List Atom)
  nonNilRets : List Nat
  nonNilParams : List Nat
  mutations : List Mutation
  failures : List String

/-- an entry of the explicit table of sites that are accepted on a reading of the Go code (function, kind, field) -/
structure Assumed where
  fn : String
  kind : String
  field : String
  deriving Repr, DecidableEq, Inhabited

/-! ### never-nil atoms, relative to the claimed sets -/

def Atom.nonNil (F : Facts) : Atom → Bool
  | .lit _ => true
  | .checked _ => true
  | .call k _ => F.nonNilRets.contains k
  | .param k _ => F.nonNilParams.contains k
  | _ => false

/-- a class is never nil: there is at least one origin and every origin is never nil -/
def clsNonNil (F : Facts) (c : List Atom) : Bool := !c.isEmpty && c.all (Atom.nonNil F)

/-- the claimed sets are CONSISTENT (a post-fixed point): every `return` of a claimed result and every call-site
    argument of a claimed parameter is a literal, a claimed result or a claimed parameter; every claimed key has a row.
    (A function without any `return` — it always panics — is vacuously never nil.) -/
def consistent (F : Facts) : Bool :=
  F.retFacts.all (fun r => !F.nonNilRets.contains r.1 || r.2.2.all (Atom.nonNil F)) &&
  F.paramFacts.all (fun r => !F.nonNilParams.contains r.1 || r.2.2.all (Atom.nonNil F)) &&
  F.nonNilRets.all (fun k => F.retFacts.any (·.1 == k)) &&
  F.nonNilParams.all (fun k => F.paramFacts.any (·.1 == k))

/-! ### the condition on the sites -/

def Assumed.covers (A : List Assumed) (fn kind field : String) : Bool :=
  A.any (fun a => a.field == field && a.kind == kind && a.fn == fn)

/-- the required node field `f` is provably filled at the site, or the site is in the assumed table -/
def fieldOK (F : Facts) (A : List Assumed) (kind : String) (s : Site) (f : String) : Bool :=
  (match s.fields.lookup f with
   | some c => clsNonNil F c
   | none => false) || Assumed.covers A s.fnName kind f

/-- the string field `f` comes from an identifier token (never empty: `lexAll_ident_ne`) -/
def strOK (A : List Assumed) (kind : String) (s : Site) (f : String) : Bool :=
  (match s.strs.lookup f with
   | some c => !c.isEmpty && c.all (fun a => match a with | .identName _ => true | _ => false)
   | none => false) || Assumed.covers A s.fnName kind f

def siteOK (F : Facts) (A : List Assumed) (kind : String) (req ne : List String) (s : Site) : Bool :=
  req.all (fieldOK F A kind s) && ne.all (strOK A kind s)

/-- one lock-step pass over the catalogue, the `SQL()` bodies, the `Pos()`/`End()` bodies and the literal sites (all four
    are generated in the declaration order of ast.go) -/
def sitesZip (F : Facts) (A : List Assumed) :
    List KindDecl → List (String × SqlBody) → List (String × GoPos × GoPos) → List KindSites → Bool
  | [], [], [], [] => true
  | k :: ks, (name, b) :: rs, (pname, pe, ee) :: ps, g :: gs =>
    name == k.name && pname == k.name && g.kind == k.name &&
      g.sites.all (siteOK F A g.kind (b.required ++ (pe.derefs ++ ee.derefs)).eraseDups b.nonEmpty.eraseDups) &&
      sitesZip F A ks rs ps gs
  | _, _, _, _ => false

/-- the sites (with their lines, for messages) that are NOT ok -/
def badSitesZip (F : Facts) (A : List Assumed) :
    List KindDecl → List (String × SqlBody) → List (String × GoPos × GoPos) → List KindSites →
    List (String × String × Nat × List String)
  | k :: ks, (_, b) :: rs, (_, pe, ee) :: ps, g :: gs =>
    (g.sites.filterMap (fun s =>
      let bad := (b.required ++ (pe.derefs ++ ee.derefs)).eraseDups.filter (fun f => !fieldOK F A k.name s f) ++
        b.nonEmpty.eraseDups.filter (fun f => !strOK A k.name s f)
      if bad.isEmpty then none else some (s.fnName, k.name, s.line, bad))) ++ badSitesZip F A ks rs ps gs
  | _, _, _, _ => []

/-! ### post-construction mutations -/

/-- is `f` a required field of the kind (of ANY kind when the kind is not known)? -/
def requiredSomewhere (bodies : List (String × SqlBody)) (kind f : String) : Bool :=
  bodies.any (fun r => (kind == "" || r.1 == kind) && r.2.required.contains f)

/-- an assignment `x.F = v` after construction never puts a possibly-nil value into a required field -/
def mutationOK (F : Facts) (A : List Assumed) (bodies : List (String × SqlBody)) (m : Mutation) : Bool :=
  clsNonNil F m.cls || !requiredSomewhere bodies m.kind m.field || Assumed.covers A m.fnName m.kind m.field

/-! ### no rot: every assumed entry still matches a site (or mutation) that needs it -/

def assumedUsed (F : Facts) (a : Assumed) : Bool :=
  F.kindSites.any (fun g => g.kind == a.kind &&
    g.sites.any (fun s => s.fnName == a.fn &&
      ((match s.fields.lookup a.field with | some c => !clsNonNil F c | none => false) ||
       (match s.strs.lookup a.field with | some _ => true | none => false)))) ||
  F.mutations.any (fun m => m.fnName == a.fn && m.kind == a.kind && m.field == a.field && !clsNonNil F m.cls)

/-- **the static condition** -/
def sitesOK (F : Facts) (T : SqlTables) (P : PosTables) (A : List Assumed) : Bool :=
  F.failures.isEmpty && consistent F && sitesZip F A T.kinds T.bodies P.go F.kindSites &&
    F.mutations.all (mutationOK F A T.bodies) && A.all (assumedUsed F)

end MF.NodeLits
