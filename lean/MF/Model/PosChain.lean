/-
  MF.Model.PosChain — the decidable consistency relation behind O3 `chains_complete` (C05/C06): the `SQL()` template
  of a kind (`Gen.SqlGo`, DSL of MF/Model/Print.lean) lists the items of the node in SOURCE ORDER; the documented
  `end` expression (`Gen.PosDoc`) must name the items that can be the LAST one present, in reverse template order,
  down to and including the last item that is always present; symmetrically `pos` names the leading optional items in
  template order up to and including the first item that is always present.

  Nothing deep is proved about the relation: it is a consistency condition between two documents (ast/sql.go and the
  `// pos =` / `// end =` comments of ast/ast.go), decided by the kernel on the regenerated tables.  What it is good
  for: an `end` chain that forgets a trailing optional clause, lists two clauses in the wrong order, drops its last
  alternative, or pairs a literal with the wrong byte count no longer matches the template.

  Template items (`flatten`):
    text s            a string literal (blank ones are separators and are skipped)
    node f            `x.F.SQL()` / `paren(p, x.F)`: a child that is always there
    optNode l f r     `sqlOpt(l, x.F, r)`: a child that may be absent, with the literal text around it
    list f            `sqlJoin(x.F, sep)`
    optText c items   `strOpt(c, e)`
    scalar f          the printed value of a scalar field (`string(x.F)`, `x.F`, `token.QuoteSQLIdent(x.F)`, …)
    opaque            `strIfElse`, locals: the row does not have the simple shape

  What each item contributes to the END chain (`endSlots`, the template read from the right):
    text s            MUST  `F + n`, n = byte length of the LAST TOKEN of s as the lexer model reads it (`")"` ↦ 1,
                            `"FOR UPDATE"` ↦ 6, `".*"` ↦ 1, `" DAY ))"` ↦ 1)
    node f            MUST  `F.end`
    optNode l f r     MAY   `F.end` if r is blank, else `G + n` for the last token of r
    list f            LIST  `Fs[$].end`; may close the chain (the documentation takes the list to be non-empty) or not
    optText c items   MAY   what its LAST item contributes: a literal ↦ `G + n` (and G = F when c is `!x.F.Invalid()`),
                            a scalar f under `x.F != ""` ↦ some position field (the value's end), a child / list under a
                            condition that only says the child / list is there ↦ as above
    scalar f          MUST  some position field (`NameEnd`, `ValueEnd`, `P + len(F)`)
  and to the POS chain (`posSlots`, from the left): the same with `F.pos`, `Fs[0].pos`, a bare position field for a
  literal; `strOpt(x.B, "SAFE_") + "CAST("` (an optional prefix glued to an always-present literal) is one literal.

  `matchSlots`: the candidates of the documented expression are, in order, one per MAY/LIST slot and they stop with the
  first MUST slot (or with a LIST slot).
-/
import MF.Model.Print
import MF.Model.Lexer
namespace MF.PosChain
open MF MF.Ast

inductive Item where
  | text (s : String)
  | node (f : String)
  | optNode (before : String) (f : String) (after : String)
  | list (f : String)
  | optText (c : SqlCond) (inner : List Item)
  | scalar (f : String)
  | opaque (why : String)
  deriving Repr, Inhabited

/-- the text of an expression that is made of literals only -/
def litText : SqlE → Option String
  | .lit s => some s
  | .cat a b =>
    match litText a, litText b with
    | some x, some y => some (x ++ y)
    | _, _ => none
  | _ => none

/-- the items of a string expression in source order -/
def flatten : SqlE → List Item
  | .lit s => if s.isEmpty then [] else [.text s]
  | .cat a b => flatten a ++ flatten b
  | .child f => [.node f]
  | .sqlOpt l f r =>
    match litText l, litText r with
    | some x, some y => [.optNode x f y]
    | _, _ => [.opaque "sqlOpt with a computed decoration"]
  | .strOpt c e => [.optText c (flatten e)]
  | .strIfElse _ _ _ => [.opaque "strIfElse"]
  | .sqlJoin f _ => [.list f]
  | .paren _ f => [.node f]
  | .enumStr f => [.scalar f]
  | .strField f => [.scalar f]
  | .quoteIdent f => [.scalar f]
  | .quoteString f => [.scalar f]
  | .quoteBytes f => [.scalar f]
  | .boolUpper f => [.scalar f]
  | .local v => [.opaque ("local " ++ v)]
  | .spaceAfterInt e => flatten e

/-- the template of a body that is a plain concatenation (`p := exprPrec(x)` in front is allowed) -/
def template : SqlBody → Option (List Item)
  | .ret e => some (flatten e)
  | .letPrec rest => template rest
  | _ => none

/-! ### candidates of the documented expressions -/

inductive Cand where
  | node (f : String)
  | last (f : String)
  | first (f : String)
  | pos (F : String) (adds : List IntE)
  | odd (why : String)
  deriving Repr, DecidableEq, Inhabited

def endCands (e : PosE) : List Cand :=
  e.alts.flatMap fun t =>
    match t.atom with
    | .var F => [.pos F t.adds]
    | .nodeEnd ch =>
      if t.adds.isEmpty then
        ch.alts.map fun a =>
          match a with
          | .var f => .node f
          | .last f => .last f
          | .idx f _ => .odd ("index into " ++ f)
      else [.odd "node end + n"]
    | .nodePos _ => [.odd "a start position in an end expression"]

def posCands (e : PosE) : List Cand :=
  e.alts.flatMap fun t =>
    match t.atom with
    | .var F => [.pos F t.adds]
    | .nodePos ch =>
      if t.adds.isEmpty then
        ch.alts.map fun a =>
          match a with
          | .var f => .node f
          | .idx f (.lit 0) => .first f
          | .idx f _ => .odd ("index into " ++ f)
          | .last f => .odd ("last of " ++ f)
      else [.odd "node pos + n"]
    | .nodeEnd _ => [.odd "an end position in a start expression"]

/-! ### slots -/

def blank (s : String) : Bool := s.toList.all (fun c => c == ' ' || c == '\n' || c == '\t')

/-- byte length of the last token of a literal, as the lexer model reads the literal on its own; `none` = it does not lex -/
def lastTokLen (s : String) : Option Nat :=
  match Lex.lexAll (B s) with
  | .ok ts =>
    match (ts.filter (fun t => t.kind != .eof)).getLast? with
    | some t => some (t.end - t.pos)
    | none => none
  | _ => none

/-- what a slot accepts -/
inductive Want where
  | nodeEnd (f : String)                          -- `F.end` / `F.pos`
  | listEnd (f : String)                          -- `Fs[$].end` / `Fs[0].pos`
  | litEnd (n : Option Nat) (guard : Option String)   -- `G + n` (end) ; `G` (pos: n = none means "no addend")
  | valEnd                                        -- some position field, whatever is added
  deriving Repr, DecidableEq, Inhabited

inductive Slot where
  | must (w : Want)
  | may (w : Want)
  | lst (f : String)
  | bad (why : String)
  deriving Repr, DecidableEq, Inhabited

/-- a condition that only says that a child / a list is there -/
def decorates : SqlCond → Bool
  | .lenPos _ | .notNil _ | .isNil _ => true
  | .not c => decorates c
  | .and a b => decorates a && decorates b
  | .or a b => decorates a && decorates b
  | _ => false

def guardOf : SqlCond → Option String
  | .not (.posInvalid F) => some F
  | _ => none

def isBlankText : Item → Bool
  | .text s => blank s
  | _ => false

def onlyText : List Item → Bool
  | [] => true
  | .text _ :: r => onlyText r
  | _ => false

/-- the slot of an `optText c inner`, from the item of `inner` that is outermost on the side looked at -/
def optSlotEnd (c : SqlCond) (inner : List Item) : Slot :=
  match (inner.filter (fun i => !isBlankText i)).getLast? with
  | some (.text s) => .may (.litEnd (lastTokLen s) (guardOf c))
  | some (.scalar g) => if c == .strNonEmpty g then .may .valEnd else .bad "a value under an unrelated condition"
  | some (.list g) => if decorates c then .lst g else .bad "a list under a condition that is not about children"
  | some (.node g) => if decorates c then .may (.nodeEnd g) else .bad "a child under a condition that is not about children"
  | some _ => .bad "nested optional item"
  | none => .bad "empty optional text"

def optSlotPos (c : SqlCond) (inner : List Item) : Slot :=
  match (inner.filter (fun i => !isBlankText i)).head? with
  | some (.text _) => .may (.litEnd none (guardOf c))
  | some (.scalar g) => if c == .strNonEmpty g then .may .valEnd else .bad "a value under an unrelated condition"
  | some (.list g) => if decorates c then .lst g else .bad "a list under a condition that is not about children"
  | some (.node g) => if decorates c then .may (.nodeEnd g) else .bad "a child under a condition that is not about children"
  | some _ => .bad "nested optional item"
  | none => .bad "empty optional text"

/-- the slots of the template read from the RIGHT -/
def endSlots : List Item → List Slot
  | [] => []
  | .text s :: r => (if blank s then [] else [.must (.litEnd (lastTokLen s) none)]) ++ endSlots r
  | .node f :: r => .must (.nodeEnd f) :: endSlots r
  | .optNode _ f a :: r => (if blank a then .may (.nodeEnd f) else .may (.litEnd (lastTokLen a) none)) :: endSlots r
  | .list f :: r => .lst f :: endSlots r
  | .optText c inner :: r =>
    (if decorates c && onlyText inner then [] else [optSlotEnd c inner]) ++ endSlots r   -- pure decoration of a child: no slot
  | .scalar _ :: r => .must .valEnd :: endSlots r
  | .opaque w :: r => .bad w :: endSlots r

/-- the slots of the template read from the LEFT -/
def posSlots : List Item → List Slot
  | [] => []
  | .text s :: r => (if blank s then [] else [.must (.litEnd none none)]) ++ posSlots r
  | .node f :: r => .must (.nodeEnd f) :: posSlots r
  | .optNode b f _ :: r => (if blank b then .may (.nodeEnd f) else .may (.litEnd none none)) :: posSlots r
  | .list f :: r => .lst f :: posSlots r
  | .optText (.bool b) inner :: .text s :: r =>
    -- an optional prefix glued to an always-present literal (`SAFE_` + `CAST(`): one literal
    if onlyText inner && !blank s then posSlots (.text s :: r) else optSlotPos (.bool b) inner :: posSlots (.text s :: r)
  | .optText c inner :: r =>
    (if decorates c && onlyText inner then [] else [optSlotPos c inner]) ++ posSlots r
  | .scalar _ :: r => .must .valEnd :: posSlots r
  | .opaque w :: r => .bad w :: posSlots r

def Want.acceptsEnd : Want → Cand → Bool
  | .nodeEnd f, .node g => f == g
  | .listEnd f, .last g => f == g
  | .litEnd (some n) guard, .pos F [.lit m] => n == m && (match guard with | some G => G == F | none => true)
  | .valEnd, .pos _ _ => true
  | _, _ => false

def Want.acceptsPos : Want → Cand → Bool
  | .nodeEnd f, .node g => f == g
  | .listEnd f, .first g => f == g
  | .litEnd none guard, .pos F [] => (match guard with | some G => G == F | none => true)
  | .valEnd, .pos _ [] => true
  | _, _ => false

/-- the candidates are: one per optional slot, in order, closed by the first always-present slot (or by a list) -/
def matchSlots (accepts : Want → Cand → Bool) : List Slot → List Cand → Bool
  | [], _ => false                                   -- no always-present item: the chain cannot be complete
  | .must w :: _, cs =>
    match cs with
    | [c] => accepts w c
    | _ => false
  | .may w :: rest, cs =>
    match cs with
    | c :: cs' => accepts w c && matchSlots accepts rest cs'
    | [] => false
  | .lst f :: rest, cs =>
    match cs with
    | [c] => accepts (.listEnd f) c
    | c :: cs' => accepts (.listEnd f) c && matchSlots accepts rest cs'
    | [] => false
  | .bad _ :: _, _ => false

inductive Verdict where
  | ok                     -- both `pos` and `end` fit
  | noTemplate             -- the `SQL()` body is not a plain concatenation
  | posMismatch
  | endMismatch
  | bothMismatch
  deriving Repr, DecidableEq, Inhabited

def verdict (body : SqlBody) (pos «end» : PosE) : Verdict :=
  match template body with
  | none => .noTemplate
  | some items =>
    match matchSlots Want.acceptsPos (posSlots items) (posCands pos),
          matchSlots Want.acceptsEnd (endSlots items.reverse) (endCands «end») with
    | true, true => .ok
    | false, true => .posMismatch
    | true, false => .endMismatch
    | false, false => .bothMismatch

/-- lock-step pass over sql.go's table and the documented positions (both in catalogue order): the kinds that do not
    fit, with the verdict; `none` = the tables are not about the same kinds -/
def misfitsZip : List (String × SqlBody) → List (String × PosE × PosE) → Option (List (String × Verdict))
  | [], [] => some []
  | b :: bs, d :: ds =>
    if b.1 == d.1 then
      (misfitsZip bs ds).map fun r =>
        match verdict b.2 d.2.1 d.2.2 with
        | .ok => r
        | v => (d.1, v) :: r
    else none
  | _, _ => none

end MF.PosChain
