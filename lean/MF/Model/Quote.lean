/-
  MF.Model.Quote — `token/quote.go`.  `unicode.IsPrint` is a parameter `isPrint : Nat → Bool`: the
  round-trip theorems hold for every such predicate, so Go's Unicode tables are not trusted; the QUOTE
  channel ships Go's answer for the runes of each request.
-/
import MF.Model.Token
import MF.Model.Utf8
namespace MF.Quote

/-- `suitableQuote` -/
def suitableQuote (b : Bytes) : UInt8 :=
  if !b.contains 39 && b.contains 34 then 39 else 34

def hexLower (n : Nat) : UInt8 := if n < 10 then (48 + n).toUInt8 else (87 + n).toUInt8

/-- `%02x` -/
def hex2 (n : Nat) : Bytes := [hexLower (n / 16 % 16), hexLower (n % 16)]
/-- `%04x` -/
def hex4 (n : Nat) : Bytes := hex2 (n / 256) ++ hex2 (n % 256)
/-- `%08x` -/
def hex8 (n : Nat) : Bytes := hex4 (n / 65536) ++ hex4 (n % 65536)

/-- `quoteSingleEscape`; `none` is the empty string -/
def quoteSingleEscape (r quote : Nat) (isString : Bool) : Option Bytes :=
  if r == quote then some [92, r.toUInt8]
  else if isString && r == 10 then some [92, 110]
  else if isString && r == 13 then some [92, 114]
  else if isString && r == 9 then some [92, 116]
  else if r == 92 then some [92, 92]
  else none

/-- what one rune of the input contributes to `quoteSQLStringContent` -/
def quoteRune (isPrint : Nat → Bool) (quote : Nat) (s : Bytes) : Bytes :=
  let r := (Utf8.decodeRune s).1
  let size := (Utf8.decodeRune s).2
  if r == Utf8.runeError && size == 1 then
    -- an invalid UTF-8 byte: kept as `\xHH`
    match s with
    | b :: _ => [92, 120] ++ hex2 b.toNat
    | [] => []
  else
    match quoteSingleEscape r quote true with
    | some q => q
    | none =>
      if isPrint r then Utf8.encodeRune r
      else if r < 0x80 then [92, 120] ++ hex2 r
      else if r > 0xFFFF then [92, 85] ++ hex8 r
      else [92, 117] ++ hex4 r

/-- `quoteSQLStringContent`: `for i, r := range s` -/
def quoteStringContent (isPrint : Nat → Bool) (quote : Nat) : Nat → Bytes → Bytes
  | 0, _ => []
  | fuel + 1, s =>
    if s.isEmpty then []
    else quoteRune isPrint quote s ++ quoteStringContent isPrint quote fuel (s.drop (Utf8.decodeRune s).2)

/-- `QuoteSQLString` -/
def quoteString (isPrint : Nat → Bool) (s : Bytes) : Bytes :=
  let q := suitableQuote s
  [q] ++ quoteStringContent isPrint q.toNat (s.length + 1) s ++ [q]

def quoteByte (quote : UInt8) (b : UInt8) : Bytes :=
  match quoteSingleEscape b.toNat quote.toNat false with
  | some q => q
  | none => if Char.isPrint b then [b] else [92, 120] ++ hex2 b.toNat

/-- `QuoteSQLBytes` -/
def quoteBytes (bs : Bytes) : Bytes :=
  let q := suitableQuote bs
  [98, q] ++ bs.flatMap (quoteByte q) ++ [q]

/-- `needQuoteSQLIdent`; `none` is the index panic on the empty string -/
def needQuoteIdent (s : Bytes) : Option Bool :=
  if isKeyword s then some true
  else match s with
    | [] => none
    | c :: _ => some (!Char.isIdentStart c || !s.all Char.isIdentPart)

/-- `QuoteSQLIdent` -/
def quoteIdent (isPrint : Nat → Bool) (s : Bytes) : Option Bytes :=
  match needQuoteIdent s with
  | none => none
  | some false => some s
  | some true => some ([96] ++ quoteStringContent isPrint 96 (s.length + 1) s ++ [96])

end MF.Quote
