/-
  R — the recovery calculus (DESIGN §2 "R", C03 obligation 2, C09).

  An abstract machine for Go's panic/recover discipline as memefish's parser uses it, over an ARBITRARY finite
  program: a program is a list of function definitions (a function is named by its index); a function has a piece
  of code that runs before its `defer` is registered (`pre`), its body, and — if it is *protected* — the code of
  its deferred `recover` handler.  Code is a tree of actions:

      call f | raise | appendErr | clobberErrs | mkBad k | lex panicMode | havoc | seq | choice | loop

  `choice` and `loop` are nondeterministic, so one `Code` stands for a set of executions; the flow-insensitive
  translation of an extracted Go function (`MF/Model/Facts.lean`) is `loop (anyOf <everything the body mentions>)`,
  which contains every sequence of events the Go body can produce, whatever its control flow is.

  The semantics is the big-step relation `Exec g c s o s'` ("running `c` in state `s` can end with outcome `o` in
  state `s'`"); theorems quantify over ALL derivations.  The state records what the properties speak about:
  the error list (`p.errors`), the `Bad*` nodes created so far, the handler runs so far, whether the current token
  is `<eof>`.

  This file: definitions (machine + the static analyses, all structurally recursive so that the kernel can evaluate
  them on the regenerated call graph).  Theorems: `MF/Proofs/Recovery.lean`.
-/
namespace MF.Recovery

/-- actions; functions are referred to by index into the program -/
inductive Code where
  | skip
  | raise                      -- `panic(*Error)`
  | appendErr                  -- `p.errors = append(p.errors, e)`
  | clobberErrs                -- any other assignment to `p.errors` (truncation, reassignment, …)
  | havoc                      -- an assignment to the lexer / current token (e.g. `p.Lexer = l`)
  | call (f : Nat)
  | lex (panicMode : Bool)     -- `Lexer.nextToken(noPanic)`; `panicMode = true` is `noPanic = false`
  | mkBad (kind : String)      -- a composite literal `ast.Bad…{…}`
  | seq (a b : Code)
  | choice (a b : Code)
  | loop (a : Code)
  deriving Repr, DecidableEq, Inhabited

/-- right-nested sequence / choice of a list -/
def seqOf : List Code → Code
  | [] => .skip
  | [c] => c
  | c :: cs => .seq c (seqOf cs)

def anyOf : List Code → Code
  | [] => .skip
  | [c] => c
  | c :: cs => .choice c (anyOf cs)

structure FunDef where
  pre : Code := .skip
  body : Code
  /-- `some h`: the body runs under `defer func(){ if r := recover(); r != nil { h } }()` -/
  handler : Option Code := none
  deriving Repr, Inhabited

abbrev Prog := List FunDef

structure State where
  /-- `p.errors` (opaque error tags) -/
  errs : List Nat
  /-- kinds of the `Bad*` literals evaluated so far, newest first -/
  bads : List String
  /-- protected functions whose handler has started so far, newest first -/
  caught : List Nat
  /-- `p.Token.Kind == token.TokenEOF` -/
  eof : Bool
  deriving Repr

def State.init (eof : Bool := false) : State := ⟨[], [], [], eof⟩

inductive Out where
  | norm | raise
  deriving Repr, DecidableEq

/-- Big-step semantics.  A raise unwinds through `seq`/`loop` and through unprotected functions; a protected
    function catches a raise of its BODY (not of its `pre` part, not of its handler) and runs the handler. -/
inductive Exec (g : Prog) : Code → State → Out → State → Prop where
  | skip {s} : Exec g .skip s .norm s
  | raise {s} : Exec g .raise s .raise s
  | appendErr {s} (e : Nat) : Exec g .appendErr s .norm { s with errs := s.errs ++ [e] }
  | clobberErrs {s} (es : List Nat) : Exec g .clobberErrs s .norm { s with errs := es }
  | havoc {s} (b : Bool) : Exec g .havoc s .norm { s with eof := b }
  | lexOk {s} (m : Bool) (b : Bool) : Exec g (.lex m) s .norm { s with eof := b }
  | lexErr {s} : Exec g (.lex true) s .raise s
  | mkBad {s} (k : String) : Exec g (.mkBad k) s .norm { s with bads := k :: s.bads }
  | seqNorm {a b s s1 o s2} : Exec g a s .norm s1 → Exec g b s1 o s2 → Exec g (.seq a b) s o s2
  | seqRaise {a b s s1} : Exec g a s .raise s1 → Exec g (.seq a b) s .raise s1
  | choiceL {a b s o s1} : Exec g a s o s1 → Exec g (.choice a b) s o s1
  | choiceR {a b s o s1} : Exec g b s o s1 → Exec g (.choice a b) s o s1
  | loopDone {a s} : Exec g (.loop a) s .norm s
  | loopStep {a s s1 o s2} : Exec g a s .norm s1 → Exec g (.loop a) s1 o s2 → Exec g (.loop a) s o s2
  | loopRaise {a s s1} : Exec g a s .raise s1 → Exec g (.loop a) s .raise s1
  /-- a function outside the program (other package): no event -/
  | callUndef {f s} : g[f]? = none → Exec g (.call f) s .norm s
  | callPlain {f d s o s1} : g[f]? = some d → d.handler = none →
      Exec g (.seq d.pre d.body) s o s1 → Exec g (.call f) s o s1
  | callPreRaise {f d h s s1} : g[f]? = some d → d.handler = some h →
      Exec g d.pre s .raise s1 → Exec g (.call f) s .raise s1
  | callNorm {f d h s s1 s2} : g[f]? = some d → d.handler = some h →
      Exec g d.pre s .norm s1 → Exec g d.body s1 .norm s2 → Exec g (.call f) s .norm s2
  | callCaught {f d h s s1 s2 o s3} : g[f]? = some d → d.handler = some h →
      Exec g d.pre s .norm s1 → Exec g d.body s1 .raise s2 →
      Exec g h { s2 with caught := f :: s2.caught } o s3 → Exec g (.call f) s o s3

/-! ## static analyses (all executable, structural recursion only) -/

/-- functions called somewhere in the code -/
def Code.calls : Code → List Nat
  | .call f => [f]
  | .seq a b | .choice a b => a.calls ++ b.calls
  | .loop a => a.calls
  | _ => []

/-- the code contains a `raise` or a panic-mode lexer step -/
def Code.raises : Code → Bool
  | .raise => true
  | .lex m => m
  | .seq a b | .choice a b => a.raises || b.raises
  | .loop a => a.raises
  | _ => false

/-- the code that runs WITHOUT the function's own recover around it -/
def FunDef.exposed (d : FunDef) : List Code :=
  match d.handler with
  | none => [d.pre, d.body]
  | some h => [d.pre, h]

def FunDef.all (d : FunDef) : List Code :=
  match d.handler with
  | none => [d.pre, d.body]
  | some h => [d.pre, d.body, h]

def calleesOf (cs : List Code) : List Nat := cs.flatMap Code.calls

/-- successors in the graph with protected bodies cut out / in the full graph -/
def expNext (g : Prog) (f : Nat) : List Nat := match g[f]? with | some d => calleesOf d.exposed | none => []
def allNext (g : Prog) (f : Nat) : List Nat := match g[f]? with | some d => calleesOf d.all | none => []

/-- depth-first closure with an explicit step budget -/
def closure (next : Nat → List Nat) : Nat → List Nat → List Nat → List Nat
  | 0, _, seen => seen
  | _, [], seen => seen
  | fuel + 1, f :: todo, seen =>
    if seen.contains f then closure next fuel todo seen
    else closure next fuel (next f ++ todo) (f :: seen)

def isClosed (next : Nat → List Nat) (R : List Nat) : Bool :=
  R.all fun f => (next f).all fun c => R.contains c

/-- number of edges + nodes: enough budget for `closure` on `g` -/
def budget (g : Prog) (next : Nat → List Nat) : Nat :=
  (List.range g.length).foldl (fun n f => n + (next f).length + 1) 8

def reachFrom (g : Prog) (next : Nat → List Nat) (roots : List Nat) : List Nat :=
  closure next (budget g next + roots.length) roots []

def expRaises (g : Prog) (f : Nat) : Bool :=
  match g[f]? with | some d => d.exposed.any Code.raises | none => false

/-- The static condition of `no_escape`: the functions reachable from `roots` in the graph with protected bodies
    cut out whose unprotected code raises.  (If the closure computation ran out of budget the result is the
    non-empty sentinel `[g.length]`, so `= []` is never claimed wrongly.) -/
def unprotectedReach (g : Prog) (roots : List Nat) : List Nat :=
  let R := reachFrom g (expNext g) roots
  if isClosed (expNext g) R && roots.all R.contains then R.filter (expRaises g) else [g.length]

/-! ### credit analysis (for `bad_implies_error`) -/

/-- which `Bad*` kinds and which handler runs are being counted against the errors -/
structure Weights where
  bad : String → Bool
  caught : Nat → Bool

def cost (W : Weights) (s : State) : Nat := s.bads.countP W.bad + s.caught.countP W.caught

/-- `credit = |errors| − (#Bad counted + #handler runs counted)` -/
def credit (W : Weights) (s : State) : Int := (s.errs.length : Int) - (cost W s : Int)

/-- lower bounds of the credit change: `nd` at normal termination, `rz` at termination by raise;
    `none` = "that kind of termination is impossible" -/
structure Bound where
  nd : Option Int
  rz : Option Int
  deriving Repr, DecidableEq, Inhabited

def addO : Option Int → Option Int → Option Int
  | some a, some b => some (a + b)
  | _, _ => none

def minO : Option Int → Option Int → Option Int
  | some a, some b => some (min a b)
  | some a, none => some a
  | none, b => b

/-- `leO claimed actual`: the claimed lower bound is implied by the computed one -/
def leO : Option Int → Option Int → Bool
  | _, none => true
  | some a, some b => decide (a ≤ b)
  | none, some _ => false

def Bound.le (claimed actual : Bound) : Bool := leO claimed.nd actual.nd && leO claimed.rz actual.rz

def wBad (W : Weights) (k : String) : Int := if W.bad k then -1 else 0
def wCaught (W : Weights) (f : Nat) : Int := if W.caught f then -1 else 0

/-- the analysis, relative to a table `σ` of claimed bounds for the functions; `none` = rejected
    (a loop whose body may lose credit, or a write to `p.errors` that is not an append) -/
def analyze (σ : Nat → Bound) (W : Weights) : Code → Option Bound
  | .skip | .havoc => some ⟨some 0, none⟩
  | .raise => some ⟨none, some 0⟩
  | .appendErr => some ⟨some 1, none⟩
  | .clobberErrs => none
  | .lex m => some ⟨some 0, if m then some 0 else none⟩
  | .mkBad k => some ⟨some (wBad W k), none⟩
  | .call f => some (σ f)
  | .seq a b =>
    match analyze σ W a, analyze σ W b with
    | some x, some y => some ⟨addO x.nd y.nd, minO x.rz (addO x.nd y.rz)⟩
    | _, _ => none
  | .choice a b =>
    match analyze σ W a, analyze σ W b with
    | some x, some y => some ⟨minO x.nd y.nd, minO x.rz y.rz⟩
    | _, _ => none
  | .loop a =>
    match analyze σ W a with
    | some x => if leO (some 0) x.nd then some ⟨some 0, x.rz⟩ else none
    | none => none

/-- bound of a whole function activation -/
def funBound (σ : Nat → Bound) (W : Weights) (f : Nat) (d : FunDef) : Option Bound :=
  match d.handler with
  | none => analyze σ W (.seq d.pre d.body)
  | some h =>
    match analyze σ W d.pre, analyze σ W d.body, analyze σ W h with
    | some p, some b, some x =>
      let viaH := addO b.rz (addO (some (wCaught W f)) x.nd)
      let rzH := addO b.rz (addO (some (wCaught W f)) x.rz)
      some ⟨addO p.nd (minO b.nd viaH), minO p.rz (addO p.nd rzH)⟩
    | _, _, _ => none

/-- every function of `R` meets its claimed bound -/
def checkSigs (g : Prog) (σ : Nat → Bound) (W : Weights) (R : List Nat) : Bool :=
  R.all fun f =>
    match g[f]? with
    | none => (σ f).le ⟨some 0, none⟩
    | some d => match funBound σ W f d with
      | some b => (σ f).le b
      | none => false

/-- the default claim: "credit never ends lower than it started, however the call ends" -/
def Bound.dflt : Bound := ⟨some 0, some 0⟩

/-- Claimed bounds: functions of `special` get the bound computed by unfolding their code (`depth` levels), all
    others the default.  Any table would do for soundness — `checkSigs` verifies it. -/
def inlineBound (g : Prog) (W : Weights) (special : List Nat) : Nat → Nat → Bound
  | 0, _ => Bound.dflt
  | depth + 1, f =>
    if special.contains f then
      match g[f]? with
      | none => ⟨some 0, none⟩
      | some d => (funBound (inlineBound g W special depth) W f d).getD Bound.dflt
    else Bound.dflt

/-- functions reachable from handler code: the ones that need a precise bound -/
def handlerFns (g : Prog) : List Nat :=
  reachFrom g (allNext g) (g.flatMap fun d => match d.handler with | some h => h.calls | none => [])

def sigTable (g : Prog) (W : Weights) : List (Nat × Bound) :=
  let sp := handlerFns g
  sp.map fun f => (f, inlineBound g W sp 4 f)

def sigOf (tbl : List (Nat × Bound)) (f : Nat) : Bound :=
  match tbl.lookup f with | some b => b | none => Bound.dflt

/-- the code writes `p.errors` other than by appending -/
def Code.clobbers : Code → Bool
  | .clobberErrs => true
  | .seq a b | .choice a b => a.clobbers || b.clobbers
  | .loop a => a.clobbers
  | _ => false

/-- monotonicity premise: no function of `R` writes the error list other than by `append(p.errors, e)` -/
def noClobber (g : Prog) (R : List Nat) : Bool :=
  R.all fun f => match g[f]? with
    | some d => d.all.all fun c => !c.clobbers
    | none => true

/-- The static condition of `bad_implies_error` for executions started in the functions `roots`:
    * the full call graph below the roots is closed;
    * MONOTONICITY (`noClobber`): no function in it writes `p.errors` other than by `p.errors = append(p.errors, e)` —
      the error list only grows;
    * every function in it meets its credit bound: this rejects `Bad*` literals outside handlers, `Bad*` literals in
      loops, handlers that can finish — normally or by a raise — having built a `Bad*` node (or merely having run)
      without having appended their error; the analysis has no bound at all for a non-append write to `p.errors`;
    * the roots themselves never end with less credit than they started. -/
def creditOK (g : Prog) (W : Weights) (roots : List Nat) : Bool :=
  let R := reachFrom g (allNext g) roots
  let σ := sigOf (sigTable g W)
  isClosed (allNext g) R && roots.all R.contains && noClobber g R && checkSigs g σ W R &&
    roots.all fun f => (Bound.dflt).le (σ f)

/-! ### entry-point shape (for `entry_contract`) -/

/-- normal form of the body of an exported `Parse…` method -/
inductive EntryStmt where
  | callStmt (f : Nat)                  -- `p.nextTokenOrBad()`
  | parse (x : String) (f : Nat)        -- `x := p.parseF()`
  | parseList (x : String) (l f : Nat)  -- `x := parseStatements(p, p.parseF)`
  | eofCheck (f : Nat)                  -- `if p.Token.Kind != token.TokenEOF { p.errors = append(p.errors, p.errorfAtToken(…)) }`
  | retIfErrors (x : String)            -- `if len(p.errors) > 0 { return x, MultiError(p.errors) }`
  | retNil (x : String)                 -- `return x, nil`
  | unrecognised (src : String)
  deriving Repr, DecidableEq, Inhabited

inductive EntryRes where
  | nilErr       -- returned `…, nil`
  | multiErr     -- returned `…, MultiError(p.errors)`
  | escaped      -- a panic left the entry point
  deriving Repr, DecidableEq

/-- the code of the statements that only call -/
def EntryStmt.code? : EntryStmt → Option Code
  | .callStmt f => some (.call f)
  | .parse _ f => some (.call f)
  | .parseList _ l f => some (.loop (.choice (.call l) (.call f)))
  | _ => none

inductive EntryExec (g : Prog) : List EntryStmt → State → EntryRes → State → Prop where
  | stepRaise {st c rest s s1} : st.code? = some c → Exec g c s .raise s1 → EntryExec g (st :: rest) s .escaped s1
  | stepNorm {st c rest s s1 r s2} : st.code? = some c → Exec g c s .norm s1 → EntryExec g rest s1 r s2 →
      EntryExec g (st :: rest) s r s2
  | eofYes {f rest s r s1} : s.eof = true → EntryExec g rest s r s1 → EntryExec g (.eofCheck f :: rest) s r s1
  | eofNoRaise {f rest s s1} : s.eof = false → Exec g (.call f) s .raise s1 →
      EntryExec g (.eofCheck f :: rest) s .escaped s1
  | eofNo {f rest s s1 e r s2} : s.eof = false → Exec g (.call f) s .norm s1 →
      EntryExec g rest { s1 with errs := s1.errs ++ [e] } r s2 → EntryExec g (.eofCheck f :: rest) s r s2
  | retErrs {x rest s} : s.errs ≠ [] → EntryExec g (.retIfErrors x :: rest) s .multiErr s
  | retSkip {x rest s r s1} : s.errs = [] → EntryExec g rest s r s1 → EntryExec g (.retIfErrors x :: rest) s r s1
  | retNil {x rest s} : EntryExec g (.retNil x :: rest) s .nilErr s

def EntryStmt.calls : EntryStmt → List Nat
  | .callStmt f => [f]
  | .parse _ f => [f]
  | .parseList _ l f => [l, f]
  | .eofCheck f => [f]
  | _ => []

/-- the three closing statements -/
def tailOK : List EntryStmt → Bool
  | [.eofCheck _, .retIfErrors _, .retNil _] => true
  | _ => false

/-- `call… ; eofCheck ; retIfErrors ; retNil`: any number of calling statements, then the three closing statements -/
def wellShaped : List EntryStmt → Bool
  | [] => false
  | st :: rest => if st.code?.isSome then wellShaped rest else tailOK (st :: rest)

/-- the value returned is the one the parse statement assigned (hygiene of the shape, not needed by the theorems) -/
def resultVars : List EntryStmt → List String
  | [] => []
  | .parse x _ :: rest | .parseList x _ _ :: rest | .retIfErrors x :: rest | .retNil x :: rest => x :: resultVars rest
  | _ :: rest => resultVars rest

def namesOK (sh : List EntryStmt) : Bool :=
  match resultVars sh with
  | [a, b, c] => a == b && b == c
  | _ => false

end MF.Recovery
