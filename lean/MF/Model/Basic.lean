/-
  MF.Model.Basic — byte strings and the partial Go operations on them.

  Go strings are byte strings; `Bytes := List UInt8`.  Every Go index / slice expression
  is modelled by a *partial* operation (`get?`, `slice?`), so that "no index out of range"
  is something to prove and never an artefact of a defaulting accessor.
-/
namespace MF

abbrev Bytes := List UInt8

/-- ASCII/Latin-1 string literal to bytes (all literals used in the model are ASCII). -/
def B (s : String) : Bytes := s.toList.map (fun c => c.toNat.toUInt8)

/-- Total slice `b[lo:hi]` (meaningful when `lo ≤ hi ≤ b.length`). -/
def slice (b : Bytes) (lo hi : Nat) : Bytes := (b.drop lo).take (hi - lo)

/-- Go's `b[lo:hi]`: `none` is the runtime panic. -/
def slice? (b : Bytes) (lo hi : Nat) : Option Bytes :=
  if lo ≤ hi ∧ hi ≤ b.length then some (slice b lo hi) else none

def isPrefixAt (b : Bytes) (i : Nat) (p : Bytes) : Bool := (b.drop i).take p.length == p

/-- hex rendering used by the line protocol -/
def hexDigit (n : Nat) : Char :=
  if n < 10 then Char.ofNat (48 + n) else Char.ofNat (87 + n)

def toHex (b : Bytes) : String :=
  String.ofList (b.flatMap (fun c => [hexDigit (c.toNat / 16), hexDigit (c.toNat % 16)]))

def hexVal? (c : Char) : Option Nat :=
  if '0' ≤ c ∧ c ≤ '9' then some (c.toNat - 48)
  else if 'a' ≤ c ∧ c ≤ 'f' then some (c.toNat - 87)
  else if 'A' ≤ c ∧ c ≤ 'F' then some (c.toNat - 55)
  else none

def ofHexAux : List Char → Bytes → Option Bytes
  | [], acc => some acc.reverse
  | [_], _ => none
  | a :: b :: rest, acc =>
    match hexVal? a, hexVal? b with
    | some x, some y => ofHexAux rest ((x * 16 + y).toUInt8 :: acc)
    | _, _ => none

def ofHex? (s : String) : Option Bytes := ofHexAux s.toList []

end MF
