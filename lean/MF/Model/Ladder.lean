/-
  MF.Model.Ladder — the shape of the operator-precedence ladder of parser.go (`parseOr … parseUnary`) as DATA.

  `tools/extract/ladder.go` reads the ten ladder functions of parser.go on every run into a list of `LFn`
  (`MF/Gen/Ladder.lean`).  This file defines the record types and the decidable conditions that
  `MF/Props/C07Ladder.lean` instantiates on the regenerated list: the chain of operand calls, the (kind, Op) ↦ level map
  the ladder implements, the associativity each function's shape implements, and the token ↦ operator assignment.
-/
import MF.Spec.PrecTable
import MF.Spec.Precedence
namespace MF.Ladder
open MF.Spec.PrecTable

/-- a nested token case inside a special case (`NOT LIKE`, `IS NULL` …) -/
structure LSub where
  toks : List String
  op : String
  builds : List String
  calls : List String
  deriving DecidableEq, Repr

/-- one `case` of a ladder function's `switch p.Token.Kind`: the token kinds, the enum constant assigned to `op`
    ("" for a special case), and for a special case the node kinds its body builds, the parse functions it calls and
    one nested level of token dispatch -/
structure LCase where
  toks : List String
  op : String
  builds : List String
  calls : List String
  sub : List LSub
  deriving DecidableEq, Repr

/-- a ladder function: shape `loop` / `once` / `prefix`, the callee giving its (left) operand or fall-through, the
    node kind its generic tail builds, the callee(s) giving the right operand / the inner expression, its cases -/
structure LFn where
  name : String
  shape : String
  operand : String
  node : String
  right : List String
  cases : List LCase
  deriving DecidableEq, Repr

def recognised (l : List LFn) : Bool :=
  l.all (fun f => f.shape == "loop" || f.shape == "once" || f.shape == "prefix")

/-- `parseExpr` enters at the first function, each function's operand is the next function, the last one descends
    into `parseSelector` -/
def chainOK (entry : String) : List LFn → Bool
  | [] => false
  | [f] => entry == f.name && f.operand == "parseSelector"
  | f :: g :: t => entry == f.name && f.operand == g.name && chainOK g.name (g :: t)

/-- the level of each function: the last one (operand `parseSelector`, level 1) is level 2, one more per step up -/
def withLevels (l : List LFn) : List (Nat × LFn) :=
  l.zipIdx.map (fun p => (l.length + 1 - p.2, p.1))

def opType (node : String) : String :=
  if node == "BinaryExpr" then "BinaryOp" else if node == "UnaryExpr" then "UnaryOp" else "<none>"

def constVal (consts : List (String × String × String)) (typ name : String) : Option String :=
  (consts.find? (fun c => c.1 == name && c.2.1 == typ)).map (·.2.2)

/-- rows (kind, Op value, level) of one function: its simple cases (also the nested ones) give rows of the generic
    node kind, its special cases a row per node kind they build -/
def fnRows (consts : List (String × String × String)) (lv : Nat) (f : LFn) : Table :=
  f.cases.flatMap (fun c =>
    (if c.op == "" then c.builds.map (fun k => (k, none, lv))
     else [(f.node, constVal consts (opType f.node) c.op, lv)]) ++
    c.sub.flatMap (fun d =>
      if d.op == "" then d.builds.map (fun k => (k, none, lv))
      else [(f.node, constVal consts (opType f.node) d.op, lv)]))

def ladderRows (consts : List (String × String × String)) (l : List LFn) : Table :=
  ((withLevels l).flatMap (fun p => fnRows consts p.1 p.2)).eraseDups

/-- the rows of the GoogleSQL table the ladder is responsible for: everything but the postfix accesses (level 1,
    `parseSelector`) and the atoms -/
def specRows : Table := operators.filter (fun r => 2 ≤ r.2.2)

/-- every simple case dispatches on the spelling of its operator (`<>` is the second spelling of `!=`; a nested case
    under `NOT` on `NOT <token>`) -/
def tokensOK (consts : List (String × String × String)) (l : List LFn) : Bool :=
  l.all (fun f => f.cases.all (fun c =>
    (c.op == "" || c.toks.all (fun t =>
      constVal consts (opType f.node) c.op == some t || (t == "<>" && constVal consts (opType f.node) c.op == some "!="))) &&
    c.sub.all (fun d => d.op == "" || (c.toks.length == 1 && d.toks.all (fun t =>
      constVal consts (opType f.node) d.op == some (String.intercalate " " (c.toks ++ [t])))))))

/-- no token is dispatched twice inside one function -/
def casesDisjoint (l : List LFn) : Bool :=
  l.all (fun f => ((f.cases.flatMap (·.toks)).eraseDups.length == (f.cases.flatMap (·.toks)).length) &&
    f.cases.all (fun c => (c.sub.flatMap (·.toks)).eraseDups.length == (c.sub.flatMap (·.toks)).length))

/-- associativity implemented by a function's shape: a loop whose right operand is the next-tighter level is left
    associative; a single optional operator application with both operands one level down does not associate; a
    prefix function recurses into itself.  BETWEEN bounds and IN conditions are read off the special cases. -/
def assocOf (f : LFn) : Option MF.Expr.Assoc :=
  if f.shape == "loop" && f.right == [f.operand] then some .left
  else if f.shape == "once" && f.right == [f.operand] &&
      f.cases.all (fun c => c.calls.all (fun g => g == f.operand || g == "parseInCondition") &&
        c.sub.all (fun d => d.calls.all (fun g => g == f.operand || g == "parseInCondition"))) then some .none
  else if f.shape == "prefix" && f.right == [f.name] then some .prefix_
  else none

def ladderAssoc (l : List LFn) : List (Nat × Option MF.Expr.Assoc) :=
  (withLevels l).map (fun p => (p.1, assocOf p.2))

/-- levels 12 … 2 of the GoogleSQL table with their associativity -/
def specAssoc : List (Nat × Option MF.Expr.Assoc) :=
  ((MF.Expr.table.filter (fun r => 2 ≤ r.1)).map (fun r => (r.1, some r.2.2))).reverse

/-- all static conditions together -/
def ladderOK (consts : List (String × String × String)) (entry : String) (l : List LFn) : Bool :=
  recognised l && chainOK entry l && sameMap (ladderRows consts l) specRows && tokensOK consts l &&
  casesDisjoint l && ladderAssoc l == specAssoc

end MF.Ladder
