/-
  MF.Model.PosLang — semantics of the POS language (the reflective interpreter of `tools/util/poslang`),
  the emitter `…ToGo` of the same package, and the semantics of the helpers of `ast/pos_util.go` that the
  emitted code calls.  `Crash` outcomes (`none`) are the Go panics: a slice index out of range, a field of the
  wrong class.
-/
import MF.Model.Ast
namespace MF.Ast

/-- what evaluation needs to know about one child: its field, index, and its own (already computed) `Pos()`/`End()` -/
structure KidPE where
  field : String
  idx : Option Nat
  pos : Int
  «end» : Int
  deriving Repr, DecidableEq, Inhabited

structure Ctx where
  scalars : List (String × Scalar)
  kids : List KidPE
  /-- classes of the fields of this kind (a single child that is absent has no `KidPE` but is still a node field) -/
  fields : List FieldDecl

def Ctx.cls (c : Ctx) (f : String) : Option FieldClass := (c.fields.find? (·.name == f)).map (·.cls)

def invalid : Int := -1

/-- a node value as seen by `nodePos`/`nodeEnd`: `none` = nil -/
abbrev NodeV := Option (Int × Int)

def Ctx.single (c : Ctx) (f : String) : Option NodeV :=
  if c.cls f == some .node then some ((c.kids.find? (fun k => k.field == f && k.idx == none)).map (fun k => (k.pos, k.end)))
  else none

def Ctx.slice (c : Ctx) (f : String) : Option (List (Int × Int)) :=
  if c.cls f == some .nodes then some ((c.kids.filter (fun k => k.field == f && k.idx != none)).map (fun k => (k.pos, k.end)))
  else none

def Ctx.posField (c : Ctx) (f : String) : Option Int :=
  match c.scalars.lookup f with
  | some (.pos p) => some p
  | _ => none

def Ctx.boolField (c : Ctx) (f : String) : Option Bool :=
  match c.scalars.lookup f with
  | some (.bool b) => some b
  | _ => none

def Ctx.strLen (c : Ctx) (f : String) : Option Nat :=
  match c.scalars.lookup f with
  | some (.str s) => some s.length
  | _ => none

/-! ### The interpreter (`EvalInt`, `EvalNode`, `EvalPos`) -/

def IntE.eval (c : Ctx) : IntE → Option Int
  | .lit n => some n
  | .len f => (c.strLen f).map Int.ofNat
  | .ite b x y =>
    match c.boolField b with
    | some true => x.eval c
    | some false => y.eval c
    | none => none

def NodeE.eval (c : Ctx) : NodeE → Option NodeV
  | .var f => c.single f
  | .last f =>
    match c.slice f with
    | some ns => some ns.getLast?
    | none => none
  | .idx f i =>
    match c.slice f, i.eval c with
    | some ns, some k =>
      if ns.isEmpty then some none
      else if k < 0 then none
      else match ns[k.toNat]? with
        | some v => some (some v)
        | none => none          -- index out of range
    | _, _ => none

/-- first non-nil alternative; a crash in an alternative that is reached is a crash -/
def evalNodeAlts (c : Ctx) : List NodeE → Option NodeV
  | [] => some none
  | e :: es =>
    match e.eval c with
    | none => none
    | some (some v) => some (some v)
    | some none => evalNodeAlts c es

def NodeChoice.eval (c : Ctx) (e : NodeChoice) : Option NodeV := evalNodeAlts c e.alts

def PosAtom.eval (c : Ctx) : PosAtom → Option Int
  | .var f => c.posField f
  | .nodePos e => (e.eval c).map (fun v => match v with | some (p, _) => p | none => invalid)
  | .nodeEnd e => (e.eval c).map (fun v => match v with | some (_, q) => q | none => invalid)

def evalAdds (c : Ctx) : Int → List IntE → Option Int
  | p, [] => some p
  | p, a :: as =>
    if p < 0 then evalAdds c invalid as     -- posAdd on an invalid position stays invalid (the addend is not evaluated)
    else match a.eval c with
      | some v => evalAdds c (p + v) as
      | none => none

def PosTerm.eval (c : Ctx) (t : PosTerm) : Option Int :=
  match t.atom.eval c with
  | some p => evalAdds c p t.adds
  | none => none

def evalPosAlts (c : Ctx) : List PosTerm → Option Int
  | [] => some invalid
  | t :: ts =>
    match t.eval c with
    | none => none
    | some p => if p < 0 then evalPosAlts c ts else some p

/-- `PosExpr.EvalPos` of the documented expression -/
def PosE.eval (c : Ctx) (e : PosE) : Option Int :=
  match e.alts with
  | [t] => t.eval c          -- a single alternative is returned as is, even if invalid
  | ts => evalPosAlts c ts

/-! ### The emitter (`PosExprToGo` …) -/

def IntE.emit : IntE → GoInt
  | .lit n => .lit n
  | .len f => .len f
  | .ite b x y => .ifThenElse b x.emit y.emit

def NodeE.emit : NodeE → GoNodeAtom
  | .var f => .wrapNode f
  | .idx f i => .nodeSliceIndex f i.emit
  | .last f => .nodeSliceLast f

def NodeChoice.emit (e : NodeChoice) : GoNode :=
  if e.paren then .nodeChoice (e.alts.map NodeE.emit)
  else match e.alts with
    | [a] => .atom a.emit
    | as => .nodeChoice (as.map NodeE.emit)

def PosAtom.emit : PosAtom → GoPosAtom
  | .var f => .field f
  | .nodePos e => .nodePos e.emit
  | .nodeEnd e => .nodeEnd e.emit

def PosTerm.emit (t : PosTerm) : GoPosTerm := ⟨t.atom.emit, t.adds.map IntE.emit⟩

def PosE.emit (e : PosE) : GoPos :=
  match e.alts with
  | [t] => .term t.emit
  | ts => .posChoice (ts.map PosTerm.emit)

/-! ### Semantics of the emitted Go (`pos_util.go`) -/

def GoInt.eval (c : Ctx) : GoInt → Option Int
  | .lit n => some n
  | .len f => (c.strLen f).map Int.ofNat
  | .ifThenElse b x y =>
    -- Go evaluates both arguments of `ifThenElse(c, t, e)` before the call
    match c.boolField b, x.eval c, y.eval c with
    | some true, some vx, some _ => some vx
    | some false, some _, some vy => some vy
    | _, _, _ => none

def GoNodeAtom.eval (c : Ctx) : GoNodeAtom → Option NodeV
  | .wrapNode f => c.single f
  | .nodeSliceLast f =>
    match c.slice f with
    | some ns => some ns.getLast?
    | none => none
  | .nodeSliceIndex f i =>
    match c.slice f, i.eval c with
    | some ns, some k =>
      if ns.isEmpty then some none
      else if k < 0 then none
      else match ns[k.toNat]? with
        | some v => some (some v)
        | none => none
    | _, _ => none

/-- `nodeChoice(a, b, …)`: Go evaluates ALL arguments, then returns the first non-nil -/
def evalGoNodeAlts (c : Ctx) : List GoNodeAtom → Option NodeV
  | [] => some none
  | e :: es =>
    match e.eval c, evalGoNodeAlts c es with
    | some (some v), some _ => some (some v)
    | some none, some r => some r
    | _, _ => none

def GoNode.eval (c : Ctx) : GoNode → Option NodeV
  | .atom a => a.eval c
  | .nodeChoice as => evalGoNodeAlts c as

def GoPosAtom.eval (c : Ctx) : GoPosAtom → Option Int
  | .field f => c.posField f
  | .nodePos e => (e.eval c).map (fun v => match v with | some (p, _) => p | none => invalid)
  | .nodeEnd e => (e.eval c).map (fun v => match v with | some (_, q) => q | none => invalid)

/-- `posAdd(p, x)`: both arguments are evaluated, then `p.Invalid()` is tested -/
def evalGoAdds (c : Ctx) : Int → List GoInt → Option Int
  | p, [] => some p
  | p, a :: as =>
    match a.eval c with
    | none => none
    | some v => evalGoAdds c (if p < 0 then invalid else p + v) as

def GoPosTerm.eval (c : Ctx) (t : GoPosTerm) : Option Int :=
  match t.atom.eval c with
  | some p => evalGoAdds c p t.adds
  | none => none

/-- `posChoice(a, b, …)`: all arguments evaluated, first valid returned -/
def evalGoPosAlts (c : Ctx) : List GoPosTerm → Option Int
  | [] => some invalid
  | t :: ts =>
    match t.eval c, evalGoPosAlts c ts with
    | some p, some r => some (if p < 0 then r else p)
    | _, _ => none

def GoPos.eval (c : Ctx) : GoPos → Option Int
  | .term t => t.eval c
  | .posChoice ts => evalGoPosAlts c ts
  | .unrecognised _ => none

end MF.Ast
