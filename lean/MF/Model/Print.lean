/-
  MF.Model.Print — `SQL()` of every node of a generic tree, computed bottom-up from the table that the extractor
  reads out of `ast/sql.go` on every run (`MF/Gen/SqlGo.lean`).

  `sql.go` is almost entirely tabular: a body is one `return` of a `+`-concatenation over a handful of helper
  functions.  The DSL below has one constructor per helper / per expression shape that occurs; the extractor
  emits a body in it only when every sub-expression has one of these shapes and every field it mentions has the
  class the shape needs, otherwise it emits `.custom "<TypeName>" "<source>"`.  The few bodies that are
  statements over type switches or token loops are written by hand at the end of this file, keyed by the type
  name AND by the (gofmt-normalised) source text they were written against: when the Go body changes, the hand
  definition no longer applies and the node evaluates to `none` (which the TREE channel reports).

  `none` is a Go panic: a nil dereference (`x.F.SQL()` on an absent child), `exprPrec: unexpected`, the index
  panic of `QuoteSQLIdent("")`; also an unknown kind or a field of the wrong class (a table that does not fit
  the catalogue).  Go evaluates all arguments of a call before the call, therefore `strOpt(c, s)` panics when `s`
  does even if `c` is false — the interpreter is strict in the same places and lazy in the same places
  (`sqlOpt` on a nil node, `if c { return a }`).
-/
import MF.Model.Ast
import MF.Model.Quote
namespace MF.Ast

/-! ### The DSL -/

/-- conditions of `strOpt` / `strIfElse` / `if`; `x` is the receiver -/
inductive SqlCond where
  | strEmpty (f : String)                  -- `x.F == ""`        (string or string-enum field)
  | strNonEmpty (f : String)               -- `x.F != ""`
  | lenPos (f : String)                    -- `len(x.F) > 0`     (slice of nodes, string, []byte)
  | posInvalid (f : String)                -- `x.F.Invalid()`    (token.Pos field)
  | bool (f : String)                      -- `x.F`              (bool field)
  | isNil (f : String)                     -- `x.F == nil`       (single node field)
  | notNil (f : String)                    -- `x.F != nil`
  | enumEq (f : String) (const : String)   -- `x.F == Const`     (enum field, declared constant by NAME)
  | enumNe (f : String) (const : String)   -- `x.F != Const`
  | localHasPrefix (v : String) (lit : String)  -- `strings.HasPrefix(v, "lit")` for a local string `v`
  | kidKindIs (f : String) (kind : String)  -- `_, ok := x.F.(*Kind); ok`  (single node field; false when nil)
  | not (c : SqlCond)
  | and (a b : SqlCond)
  | or (a b : SqlCond)
  deriving Repr, DecidableEq, Inhabited

/-- the first argument of `paren` -/
inductive PrecRef where
  | self                       -- the local `p` of `p := exprPrec(x)`
  | const (name : String)      -- a `prec…` constant
  deriving Repr, DecidableEq, Inhabited

/-- string-valued expressions -/
inductive SqlE where
  | lit (s : String)                               -- a string literal (also the package variable `indent`)
  | cat (a b : SqlE)                               -- `a + b`
  | child (f : String)                             -- `x.F.SQL()`
  | sqlOpt (l : SqlE) (f : String) (r : SqlE)      -- `sqlOpt(l, x.F, r)`
  | strOpt (c : SqlCond) (s : SqlE)                -- `strOpt(c, s)`
  | strIfElse (c : SqlCond) (a b : SqlE)           -- `strIfElse(c, a, b)`
  | sqlJoin (f : String) (sep : SqlE)              -- `sqlJoin(x.F, sep)`
  | paren (p : PrecRef) (f : String)               -- `paren(p, x.F)`
  | enumStr (f : String)                           -- `string(x.F)`
  | strField (f : String)                          -- `x.F` (a string field)
  | quoteIdent (f : String)                        -- `token.QuoteSQLIdent(x.F)`
  | quoteString (f : String)                       -- `token.QuoteSQLString(x.F)`
  | quoteBytes (f : String)                        -- `token.QuoteSQLBytes(x.F)`
  | boolUpper (f : String)                         -- `formatBoolUpper(x.F)`
  | local (v : String)                             -- a local string bound by `v := e`
  | spaceAfterInt (e : SqlE)                       -- `spaceAfterInt(e)`: a blank appended when `e` ends with a decimal integer literal
  deriving Repr, DecidableEq, Inhabited

/-- method bodies -/
inductive SqlBody where
  | ret (e : SqlE)                                  -- `return e`
  | letPrec (rest : SqlBody)                        -- `p := exprPrec(x); rest`   (`p` is `PrecRef.self` in `rest`)
  | letStr (v : String) (e : SqlE) (rest : SqlBody) -- `v := e; rest`
  | ifRet (c : SqlCond) (a : SqlE) (rest : SqlBody) -- `if c { return a }; rest`
  | custom (name : String) (src : String)           -- anything else: hand-written below, valid for this source text only
  | missing                                         -- the struct has no `SQL()` method in sql.go
  deriving Repr, DecidableEq, Inhabited

inductive CmpOp where
  | le | lt | ge | gt | eq | ne
  deriving Repr, DecidableEq, Inhabited

def CmpOp.eval : CmpOp → Nat → Nat → Bool
  | .le, a, b => decide (a ≤ b)
  | .lt, a, b => decide (a < b)
  | .ge, a, b => decide (a ≥ b)
  | .gt, a, b => decide (a > b)
  | .eq, a, b => a == b
  | .ne, a, b => a != b

structure SqlTables where
  kinds : List KindDecl
  bodies : List (String × SqlBody)
  /-- declared enum constants: (constant NAME, enum type, value) -/
  enumConsts : List (String × String × String)
  /-- the `prec` constants in `iota` order: the value of a constant is its index -/
  precConsts : List String
  /-- the `exprPrec` switch: (kind, the value of the switched-on field if the case is inside an inner switch, level) -/
  exprPrec : List (String × Option String × Nat)
  /-- (kind, field) of the inner switches of `exprPrec` (`switch e.Op`) -/
  exprPrecSwitch : List (String × String)
  /-- `paren(p, e)`: `if exprPrec(e) CMP p { e.SQL() } else { open + e.SQL() + close }` -/
  parenCmp : CmpOp
  parenOpen : String
  parenClose : String

def SqlTables.fieldsOf (T : SqlTables) (k : String) : List FieldDecl :=
  match T.kinds.find? (·.name == k) with
  | some d => d.fields
  | none => []

/-! ### Evaluation context -/

/-- what the parent needs to know about one child: field, index, kind and scalars (for `exprPrec` and the
    type switches) and its own, already computed, `SQL()` (`none` = it panics) -/
structure KidV where
  field : String
  idx : Option Nat
  kind : String
  scalars : List (String × Scalar)
  sql : Option Bytes
  deriving Repr, Inhabited

structure SqlCtx where
  kind : String
  scalars : List (String × Scalar)
  kids : List KidV
  fields : List FieldDecl
  /-- the local `p` (only after `p := exprPrec(x)`) -/
  selfPrec : Option Nat
  /-- the local strings bound so far by `v := e` -/
  locals : List (String × Bytes)

def SqlCtx.cls (c : SqlCtx) (f : String) : Option FieldClass := (c.fields.find? (·.name == f)).map (·.cls)

/-- a single node field: `some none` = nil -/
def SqlCtx.single (c : SqlCtx) (f : String) : Option (Option KidV) :=
  if c.cls f == some .node then some (c.kids.find? (fun k => k.field == f && k.idx == none)) else none

/-- a slice field: its non-nil elements in order.  The dump skips nil elements, so a gap in the indices is a
    nil element, on which `sqlJoin` panics. -/
def SqlCtx.slice (c : SqlCtx) (f : String) : Option (List KidV) :=
  if c.cls f == some .nodes then some (c.kids.filter (fun k => k.field == f && k.idx != none)) else none

def SqlCtx.str (c : SqlCtx) (f : String) : Option Bytes :=
  match c.scalars.lookup f with
  | some (.str s) => some s
  | _ => none

def SqlCtx.boolF (c : SqlCtx) (f : String) : Option Bool :=
  match c.scalars.lookup f with
  | some (.bool b) => some b
  | _ => none

def SqlCtx.posF (c : SqlCtx) (f : String) : Option Int :=
  match c.scalars.lookup f with
  | some (.pos p) => some p
  | _ => none

def SqlTables.enumVal (T : SqlTables) (const : String) : Option Bytes :=
  (T.enumConsts.find? (·.1 == const)).map (fun e => B e.2.2)

/-! ### `exprPrec` and `paren` -/

def precMatch (scalars : List (String × Scalar)) (sw : Option String) : String × Option String × Nat → Bool
  | (_, none, _) => true
  | (_, some v, _) =>
    match sw with
    | some f =>
      match scalars.lookup f with
      | some (.str s) => s == B v
      | _ => false
    | none => false

/-- `exprPrec(e)` for a non-nil `e` of the given kind; `none` = `panic("exprPrec: unexpected")` -/
def SqlTables.exprPrecOf (T : SqlTables) (kind : String) (scalars : List (String × Scalar)) : Option Nat :=
  let rows := T.exprPrec.filter (·.1 == kind)
  (rows.find? (precMatch scalars (T.exprPrecSwitch.lookup kind))).map (·.2.2)

def SqlTables.precConst (T : SqlTables) (name : String) : Option Nat :=
  let i := T.precConsts.idxOf name
  if i < T.precConsts.length then some i else none

/-! ### Conditions -/

def SqlCond.eval (T : SqlTables) (c : SqlCtx) : SqlCond → Option Bool
  | .strEmpty f => (c.str f).map (·.isEmpty)
  | .strNonEmpty f => (c.str f).map (!·.isEmpty)
  | .lenPos f =>
    match c.cls f with
    | some .nodes => (c.slice f).map (!·.isEmpty)
    | some .str | some .bytes => (c.str f).map (!·.isEmpty)
    | _ => none
  | .posInvalid f => (c.posF f).map (fun p => decide (p < 0))
  | .bool f => c.boolF f
  | .isNil f => (c.single f).map (·.isNone)
  | .notNil f => (c.single f).map (·.isSome)
  | .enumEq f k =>
    match c.str f, T.enumVal k with
    | some s, some v => some (s == v)
    | _, _ => none
  | .enumNe f k =>
    match c.str f, T.enumVal k with
    | some s, some v => some (s != v)
    | _, _ => none
  | .localHasPrefix v l => (c.locals.lookup v).map (fun s => (B l).isPrefixOf s)
  | .kidKindIs f k => (c.single f).map (fun o => match o with | some kid => kid.kind == k | none => false)
  | .not a => (a.eval T c).map (!·)
  | .and a b =>
    match a.eval T c, b.eval T c with
    | some x, some y => some (x && y)
    | _, _ => none
  | .or a b =>
    match a.eval T c, b.eval T c with
    | some x, some y => some (x || y)
    | _, _ => none

/-! ### Expressions -/

/-- `sqlJoin` over the already computed elements -/
def joinSql (sep : Bytes) : List Bytes → Bytes
  | [] => []
  | [a] => a
  | a :: b :: r => a ++ sep ++ joinSql sep (b :: r)

def allSome : List (Option Bytes) → Option (List Bytes)
  | [] => some []
  | none :: _ => none
  | some a :: r => (allSome r).map (a :: ·)

/-- the indices of the elements are `0, 1, …` (no nil element was skipped by the dump) -/
def contiguous : Nat → List KidV → Bool
  | _, [] => true
  | i, k :: r => k.idx == some i && contiguous (i + 1) r

def fmtBoolUpper (b : Bool) : Bytes := if b then B "TRUE" else B "FALSE"
def fmtBoolLower (b : Bool) : Bytes := if b then B "true" else B "false"

/-- `paren(p, x.F)` for an already evaluated `p`; `exprPrec(nil)` panics -/
def parenSql (T : SqlTables) (c : SqlCtx) (pn : Nat) (f : String) : Option Bytes :=
  match c.single f with
  | some (some k) =>
    match T.exprPrecOf k.kind k.scalars, k.sql with
    | some ep, some s => some (if T.parenCmp.eval ep pn then s else B T.parenOpen ++ s ++ B T.parenClose)
    | _, _ => none
  | _ => none

/-- `spaceAfterInt` of ast/sql.go: strip the trailing decimal digits; if there are none, or the byte before them is an
identifier byte or a dot, the text is returned as it is, else a blank is appended -/
def spaceAfterIntB (s : Bytes) : Bytes :=
  let r := s.reverse
  let rest := r.dropWhile Char.isDigit
  if rest.length == r.length then s
  else match rest with
    | [] => s ++ [32]
    | c :: _ => if Char.isIdentPart c || c == 46 then s else s ++ [32]

def SqlE.eval (T : SqlTables) (isPrint : Nat → Bool) (c : SqlCtx) : SqlE → Option Bytes
  | .lit s => some (B s)
  | .cat a b =>
    match a.eval T isPrint c, b.eval T isPrint c with
    | some x, some y => some (x ++ y)
    | _, _ => none
  | .child f =>
    match c.single f with
    | some (some k) => k.sql
    | _ => none                                   -- nil dereference
  | .sqlOpt l f r =>
    match l.eval T isPrint c, r.eval T isPrint c, c.single f with
    | some _, some _, some none => some []
    | some x, some y, some (some k) => k.sql.map (fun s => x ++ s ++ y)
    | _, _, _ => none
  | .strOpt cd s =>
    match cd.eval T c, s.eval T isPrint c with
    | some b, some x => some (if b then x else [])
    | _, _ => none
  | .strIfElse cd a b =>
    match cd.eval T c, a.eval T isPrint c, b.eval T isPrint c with
    | some t, some x, some y => some (if t then x else y)
    | _, _, _ => none
  | .sqlJoin f sep =>
    match sep.eval T isPrint c, c.slice f with
    | some sp, some ks =>
      if contiguous 0 ks then (allSome (ks.map (·.sql))).map (joinSql sp) else none
    | _, _ => none
  | .paren p f =>
    let pv := match p with
      | .self => c.selfPrec
      | .const n => T.precConst n
    match pv with
    | some pn => parenSql T c pn f
    | none => none
  | .enumStr f => if c.cls f == some .enum then c.str f else none
  | .strField f => if c.cls f == some .str then c.str f else none
  | .quoteIdent f => if c.cls f == some .str then (c.str f).bind (Quote.quoteIdent isPrint) else none
  | .quoteString f => if c.cls f == some .str then (c.str f).map (Quote.quoteString isPrint) else none
  | .quoteBytes f => if c.cls f == some .bytes then (c.str f).map Quote.quoteBytes else none
  | .boolUpper f => (c.boolF f).map fmtBoolUpper
  | .local v => c.locals.lookup v
  | .spaceAfterInt e => (e.eval T isPrint c).map spaceAfterIntB

/-! ### The hand-written bodies (statement form) -/

/-- one step of the loops of `BadNode.SQL()`: `if sql != "" && len(space) > 0 { sql += " " }; sql += raw` -/
def badPiece (acc space raw : Bytes) : Bytes :=
  (if !acc.isEmpty && space.length > 0 then acc ++ [32] else acc) ++ raw

/-- `BadNode.SQL()` as of 6bd40bd: the raw tokens, separated by one space where the token had any leading space -/
def badNodeSql : Bytes → List TokRec → Bytes
  | acc, [] => acc
  | acc, t :: ts => badNodeSql (badPiece acc t.space t.raw) ts

def badComments : Bytes → List (Bytes × Bytes) → Bytes
  | acc, [] => acc
  | acc, (sp, raw) :: cs => badComments (badPiece acc sp raw) cs

/-- `BadNode.SQL()` since e11727b: the comments attached to each token are printed before it, same spacing rule -/
def badNodeSqlC : Bytes → List TokRec → Bytes
  | acc, [] => acc
  | acc, t :: ts => badNodeSqlC (badPiece (badComments acc t.comments) t.space t.raw) ts

def srcBadNode : String :=
  "{\n\tvar sql string\n\tfor _, tok := range b.Tokens {\n\t\tif sql != \"\" && len(tok.Space) > 0 {\n\t\t\tsql += \" \"\n\t\t}\n\t\tsql += tok.Raw\n\t}\n\treturn sql\n}"

def srcBadNodeC : String :=
  "{\n\tvar sql string\n\tfor _, tok := range b.Tokens {\n\t\tfor _, c := range tok.Comments {\n\t\t\tif sql != \"\" && len(c.Space) > 0 {\n\t\t\t\tsql += \" \"\n\t\t\t}\n\t\t\tsql += c.Raw\n\t\t}\n\t\tif sql != \"\" && len(tok.Space) > 0 {\n\t\t\tsql += \" \"\n\t\t}\n\t\tsql += tok.Raw\n\t}\n\treturn sql\n}"

def srcOptionsDef : String :=
  "{\n\tvar valueSql string\n\tswitch v := g.Value.(type) {\n\tcase *NullLiteral:\n\t\tvalueSql = \"null\"\n\tcase *BoolLiteral:\n\t\tvalueSql = strconv.FormatBool(v.Value)\n\tdefault:\n\t\tvalueSql = g.Value.SQL()\n\t}\n\treturn g.Name.SQL() + \" = \" + valueSql\n}"

def srcBracedConstructorField : String :=
  "{\n\tif _, ok := b.Value.(*BracedConstructor); ok {\n\t\treturn b.Name.SQL() + \" \" + b.Value.SQL()\n\t}\n\treturn b.Name.SQL() + b.Value.SQL()\n}"

def srcChangeStreamForTables : String :=
  "{\n\tsql := \"FOR \"\n\tfor i, table := range c.Tables {\n\t\tif i > 0 {\n\t\t\tsql += \", \"\n\t\t}\n\t\tsql += table.SQL()\n\t}\n\treturn sql\n}"

/-- the bodies of `sql.go` that are not a tabular `return`; each applies only to the source text it models -/
def customSql (c : SqlCtx) (name src : String) : Option Bytes :=
  if name == "BadNode" && src == srcBadNode then
    match c.scalars.lookup "Tokens" with
    | some (.toks ts) => some (badNodeSql [] ts)
    | _ => none
  else if name == "BadNode" && src == srcBadNodeC then
    match c.scalars.lookup "Tokens" with
    | some (.toks ts) => some (badNodeSqlC [] ts)
    | _ => none
  else if name == "OptionsDef" && src == srcOptionsDef then
    -- `switch v := g.Value.(type)`: NullLiteral → "null", BoolLiteral → lowercase, default → g.Value.SQL()
    let value : Option Bytes :=
      match c.single "Value" with
      | some (some k) =>
        if k.kind == "NullLiteral" then some (B "null")
        else if k.kind == "BoolLiteral" then
          match k.scalars.lookup "Value" with
          | some (.bool b) => some (fmtBoolLower b)
          | _ => none
        else k.sql
      | _ => none                                  -- nil interface: default case, `g.Value.SQL()` panics
    match c.single "Name", value with
    | some (some n), some v => n.sql.map (fun s => s ++ B " = " ++ v)
    | _, _ => none
  else if name == "BracedConstructorField" && src == srcBracedConstructorField then
    match c.single "Name", c.single "Value" with
    | some (some n), some (some v) =>
      match n.sql, v.sql with
      | some ns, some vs => some (if v.kind == "BracedConstructor" then ns ++ B " " ++ vs else ns ++ vs)
      | _, _ => none
    | _, _ => none
  else if name == "ChangeStreamForTables" && src == srcChangeStreamForTables then
    match c.slice "Tables" with
    | some ks => if contiguous 0 ks then (allSome (ks.map (·.sql))).map (fun l => B "FOR " ++ joinSql (B ", ") l) else none
    | none => none
  else none

/-- the hand-written definitions above, as a list (reported by the driver / the report) -/
def customNames : List String := ["BadNode", "OptionsDef", "BracedConstructorField", "ChangeStreamForTables"]

/-! ### Bodies and the bottom-up interpreter -/

def SqlBody.eval (T : SqlTables) (isPrint : Nat → Bool) (c : SqlCtx) : SqlBody → Option Bytes
  | .ret e => e.eval T isPrint c
  | .letPrec rest =>
    match T.exprPrecOf c.kind c.scalars with
    | some p => rest.eval T isPrint { c with selfPrec := some p }
    | none => none
  | .letStr v e rest =>
    match e.eval T isPrint c with
    | some s => rest.eval T isPrint { c with locals := (v, s) :: c.locals }
    | none => none
  | .ifRet cd a rest =>
    match cd.eval T c with
    | some true => a.eval T isPrint c
    | some false => rest.eval T isPrint c
    | none => none
  | .custom name src => customSql c name src
  | .missing => none

mutual
  /-- `n.SQL()`; `none` = a Go panic (or a kind / field the tables do not know) -/
  def sqlOf (T : SqlTables) (isPrint : Nat → Bool) : Node → Option Bytes
    | .mk k sc kids =>
      match T.bodies.lookup k with
      | some body => body.eval T isPrint ⟨k, sc, sqlKids T isPrint kids, T.fieldsOf k, none, []⟩
      | none => none
  def sqlKids (T : SqlTables) (isPrint : Nat → Bool) : Kids → List KidV
    | .nil => []
    | .cons f i n r => ⟨f, i, n.kind, n.scalars, sqlOf T isPrint n⟩ :: sqlKids T isPrint r
end

/-! ### FNV-1a 64 (the canonical rendering of a SQL string on the TREE channel) -/

def fnv1a64 (b : Bytes) : UInt64 :=
  b.foldl (fun h c => (h ^^^ c.toUInt64) * 1099511628211) 14695981039346656037

end MF.Ast
