/-
  MF.Model.Stmt2 — the DML part of `parser.go` (fragment M2, on top of the expression model M1), one Lean function per
  Go function:

    ParseDML ParseDMLs ParseStatement ParseStatements (entry points)      parseStatements (the list loop)
    parseStatement / parseStatementInternal (only the dispatch)           parseDML parseDMLInternal
    parseInsert parseValuesInput parseValuesRow parseDefaultExpr parseDelete parseUpdate parseUpdateItem
    parseIdentOrPath parsePath parseIdent tryParseAsAlias(withOptionalAs) parseWhere parseCommaSeparatedList
    tryParseHint / tryParseThenReturn (only the test that decides whether the production is entered)

  and of `ast/sql.go` / `ast/pos.go` for Insert Delete Update UpdateItem ValuesInput ValuesRow DefaultExpr Where AsAlias
  Path Ident.

  Fragment: no hints (`@{`), no THEN RETURN, INSERT … VALUES only (no sub-query input); the expression slots (WHERE
  condition, VALUES entries, `SET path = expr`) are those of M1.  Where the Go code would enter a production outside
  the fragment the model answers `outside`.  A syntax error (a `*Error` panic, caught by the `recover` of `parseDML` /
  `parseDMLInternal` and recorded in `p.errors`, so that the entry point returns a non-nil error) is `raise`; the
  `BadDML` node and the skipping of `handleParseStatementError` are not modelled.

  The model is GENERIC in the expression parser `pe : Nat → List Token → Res (ε × List Token)`: instantiated with
  `MF.Expr.parseExpr` (trees without positions: what the C07 theorems speak about) and with `MF.Expr.parsePExpr`
  (every position field; the DML channel).  `MF/Proofs/DMLErase.lean` proves that the second run erases to the first.

  State = the list of tokens not yet consumed (head = `p.Token`), as in M1.  Loops that call the expression parser
  recurse on `fuel` (first explicit argument); the identifier-only loops recurse on the token list.
-/
import MF.Model.ExprPos
namespace MF.DML
open MF MF.Expr

/-- `p.Token.Kind` as the Go string; past the end of the list the lexer keeps answering `<eof>` -/
def kd : List Token → TokKind
  | t :: _ => t.kind
  | [] => .eof

/-- `p.Token.IsKeywordLike(s)` -/
def kwLike (s : String) (ts : List Token) : Bool := (hd ts).isKeywordLike (B s)

/-! ## the AST of the fragment (`ε` = the expression type) -/

/-- `ast.DefaultExpr{DefaultPos, Default, Expr}`: `dflt p` = `{DefaultPos: p, Default: true, Expr: nil}`,
`expr e` = `{DefaultPos: InvalidPos, Default: false, Expr: e}` -/
inductive DefaultExpr (ε : Type)
  | dflt (defaultPos : Nat)
  | expr (e : ε)
  deriving Repr

/-- `ast.ValuesRow{Lparen, Rparen, Exprs}` -/
structure ValuesRow (ε : Type) where
  lparen : Nat
  rparen : Nat
  exprs : List (DefaultExpr ε)
  deriving Repr

/-- `ast.ValuesInput{Values, Rows}` -/
structure ValuesInput (ε : Type) where
  values : Nat
  rows : List (ValuesRow ε)
  deriving Repr

/-- `ast.UpdateItem{Path, DefaultExpr}` -/
structure UpdateItem (ε : Type) where
  path : List PIdent
  dflt : DefaultExpr ε
  deriving Repr

/-- `ast.Where{Where, Expr}` -/
structure Where (ε : Type) where
  wherePos : Nat
  expr : ε
  deriving Repr

/-- `ast.AsAlias{As, Alias}`; `as = none` is `token.InvalidPos` -/
structure AsAlias where
  as : Option Nat
  alias : PIdent
  deriving DecidableEq, Repr

/-- `ast.InsertOrType` (`""`, `"UPDATE"`, `"IGNORE"`) -/
inductive InsertOrType | none | update | ignore
  deriving DecidableEq, Repr

/-- `ast.Insert` / `ast.Delete` / `ast.Update`; `Hint`, `TableHint`, `ThenReturn` are nil in the fragment; `table` is
`TableName.Idents`; the `Input` of an `Insert` is a `ValuesInput` -/
inductive Stmt (ε : Type)
  | insert (insertPos : Nat) (orType : InsertOrType) (table : List PIdent) (columns : List PIdent) (input : ValuesInput ε)
  | delete (deletePos : Nat) (table : List PIdent) (as : Option AsAlias) (where_ : Where ε)
  | update (updatePos : Nat) (table : List PIdent) (as : Option AsAlias) (updates : List (UpdateItem ε)) (where_ : Where ε)
  deriving Repr

/-! ## identifier-only productions -/

/-- the loop of `parseIdentOrPath`: `for p.Token.Kind == "." { p.nextToken(); ids = append(ids, p.parseIdent()) }` -/
def pathLoop : List Token → Res (List PIdent × List Token)
  | t :: u :: rest =>
    if tk t.kind = .dot then
      if tk u.kind = .ident then (pathLoop rest).bind fun q => .ok (identOf u :: q.1, q.2)
      else .raise
    else .ok ([], t :: u :: rest)
  | [t] => if tk t.kind = .dot then .raise else .ok ([], [t])
  | [] => .ok ([], [])

/-- `parseIdentOrPath` (= `parsePath().Idents`) -/
def parseIdentOrPath (ts : List Token) : Res (List PIdent × List Token) :=
  (parsePIdent ts).bind fun p => (pathLoop p.2).bind fun q => .ok (p.1 :: q.1, q.2)

/-- the column loop of `parseInsert`, entered when the token after `(` is not `)`:
`for p.Token.Kind != token.TokenEOF { columns = append(columns, p.parseIdent()); if p.Token.Kind != "," { break }; p.nextToken() }`
(at `<eof>` the loop is left and the `p.expect(")")` behind it raises: the same answer as `parseIdent` at `<eof>`) -/
def colLoop : List Token → Res (List PIdent × List Token)
  | t :: c :: rest =>
    if tk t.kind = .ident then
      if tk c.kind = .comma then (colLoop rest).bind fun q => .ok (identOf t :: q.1, q.2)
      else .ok ([identOf t], c :: rest)
    else .raise
  | [t] => if tk t.kind = .ident then .ok ([identOf t], []) else .raise
  | [] => .raise

/-- `tryParseAsAlias(withOptionalAs)` -/
def tryParseAsAlias (ts : List Token) : Res (Option AsAlias × List Token) :=
  if cur ts = .as_ then (parsePIdent ts.tail).bind fun p => .ok (some ⟨some (hd ts).pos, p.1⟩, p.2)
  else if cur ts = .ident then .ok (some ⟨none, identOf (hd ts)⟩, ts.tail)
  else .ok (none, ts)

/-- `tryParseHint` enters the hint production -/
def hintAhead (ts : List Token) : Bool := kd ts == K "@"

/-- `tryParseThenReturn`: nothing at a token other than THEN; `THEN RETURN` is outside; THEN followed by anything else
is the syntax error of `expectKeywordLike("RETURN")` -/
def thenReturn (ts : List Token) : Res Unit :=
  if cur ts = .then_ then (if kwLike "RETURN" ts.tail then .outside else .raise) else .ok ()

/-! ## productions with expression slots -/

section
variable {ε : Type} (pe : Nat → List Token → Res (ε × List Token))

/-- `parseDefaultExpr` -/
def parseDefaultExpr (f : Nat) (ts : List Token) : Res (DefaultExpr ε × List Token) :=
  if kd ts = K "DEFAULT" then .ok (.dflt (hd ts).pos, ts.tail)
  else (pe f ts).bind fun p => .ok (.expr p.1, p.2)

/-- the loop of `parseValuesRow`, entered when the token after `(` is not `)`:
`for p.Token.Kind != token.TokenEOF { exprs = append(exprs, p.parseDefaultExpr()); if p.Token.Kind != "," { break }; p.nextToken() }` -/
def rowLoop : Nat → List Token → Res (List (DefaultExpr ε) × List Token)
  | 0, _ => .outOfFuel
  | f + 1, ts =>
    if cur ts = .eof then .ok ([], ts)
    else
      (parseDefaultExpr pe f ts).bind fun p =>
        if cur p.2 = .comma then (rowLoop f p.2.tail).bind fun q => .ok (p.1 :: q.1, q.2)
        else .ok ([p.1], p.2)

/-- `parseValuesRow` -/
def parseValuesRow (f : Nat) (ts : List Token) : Res (ValuesRow ε × List Token) :=
  if cur ts = .lparen then
    (if cur ts.tail = .rparen then .ok ([], ts.tail) else rowLoop pe f ts.tail).bind fun q =>
      if cur q.2 = .rparen then .ok (⟨(hd ts).pos, (hd q.2).pos, q.1⟩, q.2.tail) else .raise
  else .raise

/-- `parseCommaSeparatedList(p, p.parseValuesRow)`: `nodes := []T{doParse()}; for p.Token.Kind == "," { p.nextToken(); nodes = append(nodes, doParse()) }`
(no trailing-comma rule) -/
def rowsLoop : Nat → List Token → Res (List (ValuesRow ε) × List Token)
  | 0, _ => .outOfFuel
  | f + 1, ts =>
    (parseValuesRow pe f ts).bind fun p =>
      if cur p.2 = .comma then (rowsLoop f p.2.tail).bind fun q => .ok (p.1 :: q.1, q.2)
      else .ok ([p.1], p.2)

/-- `parseValuesInput` (`expectKeywordLike("VALUES")`) -/
def parseValuesInput (f : Nat) (ts : List Token) : Res (ValuesInput ε × List Token) :=
  if kwLike "VALUES" ts then (rowsLoop pe f ts.tail).bind fun q => .ok (⟨(hd ts).pos, q.1⟩, q.2)
  else .raise

/-- `parseWhere` -/
def parseWhere (f : Nat) (ts : List Token) : Res (Where ε × List Token) :=
  if kd ts = K "WHERE" then (pe f ts.tail).bind fun p => .ok (⟨(hd ts).pos, p.1⟩, p.2)
  else .raise

/-- `parseUpdateItem` -/
def parseUpdateItem (f : Nat) (ts : List Token) : Res (UpdateItem ε × List Token) :=
  (parseIdentOrPath ts).bind fun n =>
    if cur n.2 = .eq then (parseDefaultExpr pe f n.2.tail).bind fun d => .ok (⟨n.1, d.1⟩, d.2)
    else .raise

/-- `parseCommaSeparatedList(p, p.parseUpdateItem)` -/
def itemsLoop : Nat → List Token → Res (List (UpdateItem ε) × List Token)
  | 0, _ => .outOfFuel
  | f + 1, ts =>
    (parseUpdateItem pe f ts).bind fun p =>
      if cur p.2 = .comma then (itemsLoop f p.2.tail).bind fun q => .ok (p.1 :: q.1, q.2)
      else .ok ([p.1], p.2)

/-- the optional `OR UPDATE` / `OR IGNORE` of `parseInsert` -/
def parseInsertOr (ts : List Token) : Res (InsertOrType × List Token) :=
  if cur ts = .or_ then
    if kwLike "UPDATE" ts.tail then .ok (.update, ts.tail.tail)
    else if kd ts.tail = K "IGNORE" then .ok (.ignore, ts.tail.tail)
    else .raise
  else .ok (.none, ts)

/-- `( columns )` of `parseInsert` -/
def parseColumns (ts : List Token) : Res (List PIdent × List Token) :=
  if cur ts = .lparen then
    (if cur ts.tail = .rparen then .ok ([], ts.tail) else colLoop ts.tail).bind fun c =>
      if cur c.2 = .rparen then .ok (c.1, c.2.tail) else .raise
  else .raise

/-- the tokens on which `parseQueryExpr` (the sub-query input of an INSERT) enters a production; on every other token
`parseSimpleQueryExpr` raises -/
def queryAhead (ts : List Token) : Bool :=
  kd ts == K "WITH" || kd ts == K "SELECT" || kd ts == K "FROM" || kd ts == K "("

/-- `parseInsert(pos, hint = nil)`; `ts` = the tokens after INSERT -/
def parseInsert (f : Nat) (pos : Nat) (ts : List Token) : Res (Stmt ε × List Token) :=
  (parseInsertOr ts).bind fun o =>
    let ts1 := if kd o.2 = K "INTO" then o.2.tail else o.2
    (parseIdentOrPath ts1).bind fun n =>
      if hintAhead n.2 then .outside
      else
        (parseColumns n.2).bind fun c =>
          if kwLike "VALUES" c.2 then
            (parseValuesInput pe f c.2).bind fun v =>
              (thenReturn v.2).bind fun _ => .ok (.insert pos o.1 n.1 c.1 v.1, v.2)
          else if queryAhead c.2 then .outside       -- parseSubQueryInput enters a query production
          else .raise       -- parseSimpleQueryExpr: `expected beginning of simple query` (recorded by its `recover`)

/-- `parseDelete(pos, hint = nil)`; `ts` = the tokens after DELETE -/
def parseDelete (f : Nat) (pos : Nat) (ts : List Token) : Res (Stmt ε × List Token) :=
  let ts1 := if kd ts = K "FROM" then ts.tail else ts
  (parseIdentOrPath ts1).bind fun n =>
    if hintAhead n.2 then .outside
    else
      (tryParseAsAlias n.2).bind fun a =>
        (parseWhere pe f a.2).bind fun w =>
          (thenReturn w.2).bind fun _ => .ok (.delete pos n.1 a.1 w.1, w.2)

/-- `parseUpdate(pos, hint = nil)`; `ts` = the tokens after UPDATE -/
def parseUpdate (f : Nat) (pos : Nat) (ts : List Token) : Res (Stmt ε × List Token) :=
  (parseIdentOrPath ts).bind fun n =>
    if hintAhead n.2 then .outside
    else
      (tryParseAsAlias n.2).bind fun a =>
        if kd a.2 = K "SET" then
          (itemsLoop pe f a.2.tail).bind fun u =>
            (parseWhere pe f u.2).bind fun w =>
              (thenReturn w.2).bind fun _ => .ok (.update pos n.1 a.1 u.1 w.1, w.2)
        else .raise

/-- `parseDMLInternal(hint = nil)`: `id := p.expect(token.TokenIdent)`, then the switch on `id.IsKeywordLike(…)` -/
def parseDMLInternal (f : Nat) (ts : List Token) : Res (Stmt ε × List Token) :=
  if cur ts = .ident then
    if kwLike "INSERT" ts then parseInsert pe f (hd ts).pos ts.tail
    else if kwLike "DELETE" ts then parseDelete pe f (hd ts).pos ts.tail
    else if kwLike "UPDATE" ts then parseUpdate pe f (hd ts).pos ts.tail
    else .raise
  else .raise

/-- `parseDML`: `hint := p.tryParseHint(); return p.parseDMLInternal(hint)` -/
def parseDML (f : Nat) (ts : List Token) : Res (Stmt ε × List Token) :=
  if hintAhead ts then .outside else parseDMLInternal pe f ts

/-- the tokens on which `parseStatementInternal` enters a query, DDL or CALL production -/
def otherStatementAhead (ts : List Token) : Bool :=
  kd ts == K "SELECT" || kd ts == K "WITH" || kd ts == K "(" || kd ts == K "FROM" || kd ts == K "CREATE" ||
  kwLike "ALTER" ts || kwLike "DROP" ts || kwLike "RENAME" ts || kwLike "GRANT" ts || kwLike "REVOKE" ts ||
  kwLike "ANALYZE" ts || kwLike "CALL" ts

/-- `parseStatement` = `tryParseHint` + `parseStatementInternal(hint = nil)`: the `switch` sends INSERT / DELETE / UPDATE
to `parseDMLInternal(hint)`; the query case is tested first, but no query starter is keyword-like INSERT / DELETE /
UPDATE (those are identifiers), so the order of the two tests is immaterial -/
def parseStatement (f : Nat) (ts : List Token) : Res (Stmt ε × List Token) :=
  if hintAhead ts then .outside
  else if kwLike "INSERT" ts || kwLike "DELETE" ts || kwLike "UPDATE" ts then parseDMLInternal pe f ts
  else if otherStatementAhead ts then .outside
  else .raise

end

/-- the loop of `parseStatements`:
`for p.Token.Kind != token.TokenEOF { if p.Token.Kind == ";" { p.nextTokenOrBad(); continue }; nodes = append(nodes, doParse()); if p.Token.Kind != ";" { break } }` -/
def stmtsLoop {α : Type} (doParse : Nat → List Token → Res (α × List Token)) :
    Nat → List Token → Res (List α × List Token)
  | 0, _ => .outOfFuel
  | f + 1, ts =>
    if cur ts = .eof then .ok ([], ts)
    else if kd ts = K ";" then stmtsLoop doParse f ts.tail
    else
      (doParse f ts).bind fun p =>
        if kd p.2 = K ";" then (stmtsLoop doParse f p.2).bind fun q => .ok (p.1 :: q.1, q.2)
        else .ok ([p.1], p.2)

/-- the tail of every entry point: `if p.Token.Kind != token.TokenEOF { p.errors = append(…) }` -/
def finish {α : Type} (r : Res (α × List Token)) : Res α :=
  r.bind fun p => if cur p.2 = .eof then .ok p.1 else .raise

section
variable {ε : Type} (pe : Nat → List Token → Res (ε × List Token))
/-- `ParseDML` -/
def parseDMLTop (f : Nat) (ts : List Token) : Res (Stmt ε) := finish (parseDML pe f ts)
/-- `ParseDMLs` -/
def parseDMLsTop (f : Nat) (ts : List Token) : Res (List (Stmt ε)) := finish (stmtsLoop (parseDML pe) f ts)
/-- `ParseStatement` (on a DML text) -/
def parseStatementTop (f : Nat) (ts : List Token) : Res (Stmt ε) := finish (parseStatement pe f ts)
/-- `ParseStatements` -/
def parseStatementsTop (f : Nat) (ts : List Token) : Res (List (Stmt ε)) := finish (stmtsLoop (parseStatement pe) f ts)
end

/-- fuel used by the driver: the statement level spends at most one unit per token before it calls the expression
parser with `Expr.topFuel`-many units left -/
def dmlFuel (ts : List Token) : Nat := 34 * (ts.length + 2)

/-! ## `ast/pos.go` (for trees with positioned expressions) -/

abbrev PStmt := Stmt PExpr

def posDefault : DefaultExpr PExpr → Nat
  | .dflt p => p             -- posChoice(DefaultPos, Expr.pos)
  | .expr e => posP e
def endDefault : DefaultExpr PExpr → Nat
  | .dflt p => p + 7
  | .expr e => endP e

def posRow (r : ValuesRow PExpr) : Nat := r.lparen
def endRow (r : ValuesRow PExpr) : Nat := r.rparen + 1
def posInput (v : ValuesInput PExpr) : Nat := v.values
/-- `nodeEnd(nodeSliceLast(v.Rows))` (the parser never builds an empty `Rows`) -/
def endInput (v : ValuesInput PExpr) : Nat := (v.rows.getLast?.map endRow).getD 0
def posPath (p : List PIdent) : Nat := (p.head?.map (·.namePos)).getD 0
def endPath (p : List PIdent) : Nat := (p.getLast?.map (·.nameEnd)).getD 0
def posItem (u : UpdateItem PExpr) : Nat := posPath u.path
def endItem (u : UpdateItem PExpr) : Nat := endDefault u.dflt
def posWhere (w : Where PExpr) : Nat := w.wherePos
def endWhere (w : Where PExpr) : Nat := endP w.expr
def posAlias (a : AsAlias) : Nat := a.as.getD a.alias.namePos
def endAlias (a : AsAlias) : Nat := a.alias.nameEnd

/-- `Pos()`: `posChoice(nodePos(Hint), keyword)` with `Hint = nil` -/
def posD : PStmt → Nat
  | .insert p _ _ _ _ => p
  | .delete p _ _ _ => p
  | .update p _ _ _ _ => p

/-- `End()`: `nodeEnd(nodeChoice(ThenReturn, Input / Where))` with `ThenReturn = nil` -/
def endD : PStmt → Nat
  | .insert _ _ _ _ v => endInput v
  | .delete _ _ _ w => endWhere w
  | .update _ _ _ _ w => endWhere w

/-! ## `ast/sql.go` -/

def pathSQL (p : List PIdent) : Bytes := joinBytes (B ".") (p.map fun i => identSQL i.name)

section
variable {ε : Type} (sq : ε → Bytes)

def sqlDefault : DefaultExpr ε → Bytes
  | .dflt _ => B "DEFAULT"
  | .expr e => sq e

def sqlRow (r : ValuesRow ε) : Bytes := B "(" ++ joinBytes (B ", ") (r.exprs.map (sqlDefault sq)) ++ B ")"
def sqlInput (v : ValuesInput ε) : Bytes := B "VALUES " ++ joinBytes (B ", ") (v.rows.map (sqlRow sq))
def sqlItem (u : UpdateItem ε) : Bytes := pathSQL u.path ++ B " = " ++ sqlDefault sq u.dflt
def sqlWhere (w : Where ε) : Bytes := B "WHERE " ++ sq w.expr
def sqlAlias (a : AsAlias) : Bytes := (if a.as.isSome then B "AS " else []) ++ identSQL a.alias.name
/-- `sqlOpt("", d.As, " ")` -/
def sqlAliasOpt : Option AsAlias → Bytes
  | none => []
  | some a => sqlAlias a ++ B " "
def InsertOrType.sql : InsertOrType → Bytes
  | .none => [] | .update => B "OR UPDATE " | .ignore => B "OR IGNORE "

def sqlD : Stmt ε → Bytes
  | .insert _ o t cs v =>
    B "INSERT " ++ o.sql ++ B "INTO " ++ pathSQL t ++ B " (" ++ joinBytes (B ", ") (cs.map fun i => identSQL i.name) ++ B ") "
      ++ sqlInput sq v
  | .delete _ t a w => B "DELETE FROM " ++ pathSQL t ++ B " " ++ sqlAliasOpt a ++ sqlWhere sq w
  | .update _ t a us w =>
    B "UPDATE " ++ pathSQL t ++ B " " ++ sqlAliasOpt a ++ B "SET " ++ joinBytes (B ", ") (us.map (sqlItem sq)) ++ B " "
      ++ sqlWhere sq w
end

/-! ## erasure of the positions inside the expression slots -/

section
variable {α β : Type} (g : α → β)
def DefaultExpr.map : DefaultExpr α → DefaultExpr β
  | .dflt p => .dflt p
  | .expr e => .expr (g e)
def ValuesRow.map (r : ValuesRow α) : ValuesRow β := ⟨r.lparen, r.rparen, r.exprs.map (DefaultExpr.map g)⟩
def ValuesInput.map (v : ValuesInput α) : ValuesInput β := ⟨v.values, v.rows.map (ValuesRow.map g)⟩
def UpdateItem.map (u : UpdateItem α) : UpdateItem β := ⟨u.path, u.dflt.map g⟩
def Where.map (w : Where α) : Where β := ⟨w.wherePos, g w.expr⟩
def Stmt.map : Stmt α → Stmt β
  | .insert p o t cs v => .insert p o t cs (v.map g)
  | .delete p t a w => .delete p t a (w.map g)
  | .update p t a us w => .update p t a (us.map (UpdateItem.map g)) (w.map g)
end

/-! ## the token-level OUTSIDE rule shared with the Go harness (`dmlTokenOutside` in harness/dmlchan.go)

Conservative: an input is OUTSIDE (not compared) when its token list contains a configuration at which the Go parser
could leave the fragment.  One pass with a statement-level mode; inside the expression slots the checks are those of
`MF.Expr.outsideScan` (same `prev` / `stack`), with the DML vocabulary (`;` WHERE SET INTO DEFAULT IGNORE) allowed:
on these the expression parser of M1 and the Go code both stop or raise. -/

inductive Mode
  | start      -- at the start of a statement
  | insHead    -- INSERT seen, no `)` yet
  | insInput   -- directly behind the first `)` of an INSERT
  | head       -- DELETE / UPDATE seen, before SET / WHERE
  | lhs        -- UPDATE: left of `=`
  | rows | rhs | where_   -- expression slots
  | dead       -- behind a point where the statement cannot continue inside the fragment without an error
  deriving DecidableEq, Repr

def Mode.isExpr : Mode → Bool
  | .rows | .rhs | .where_ => true
  | _ => false

/-- the reserved words of the DML level that may show up inside an expression slot without sending the Go parser into
another production: on them the expression parser stops or raises.  NOT `FROM`: `(FROM …` is a sub-query
(`lookaheadQueryStart` answers true on SELECT and FROM), so a FROM inside a slot makes the input OUTSIDE, like SELECT. -/
def dmlVocab (t : Token) : Bool :=
  t.kind == K ";" || t.kind == K "WHERE" || t.kind == K "SET" || t.kind == K "INTO" ||
  t.kind == K "DEFAULT" || t.kind == K "IGNORE"

/-- `stmtEntry`: the entry point is ParseStatement(s) -/
def dmlScan (stmtEntry : Bool) : Mode → TK → List Bool → List Token → Bool
  | _, _, _, [] => false
  | mode, prev, stack, t :: ts =>
    let k := tk t.kind
    let next := cur ts
    if t.kind == K "@" then true
    else if k == .then_ && kwLike "RETURN" ts then true
    else if t.kind == K ";" then dmlScan stmtEntry .start .eof [] ts
    else if k == .eof then false
    else
      match mode with
      | .start =>
        if t.isKeywordLike (B "INSERT") then dmlScan stmtEntry .insHead .eof [] ts
        else if t.isKeywordLike (B "DELETE") || t.isKeywordLike (B "UPDATE") then dmlScan stmtEntry .head .eof [] ts
        else if stmtEntry && otherStatementAhead (t :: ts) then true
        else dmlScan stmtEntry .dead .eof [] ts
      | .dead => dmlScan stmtEntry .dead .eof [] ts
      | .insHead => dmlScan stmtEntry (if k == .rparen then .insInput else .insHead) .eof [] ts
      | .insInput =>
        if t.isKeywordLike (B "VALUES") then dmlScan stmtEntry .rows .eof [] ts
        else if queryAhead (t :: ts) then true
        else dmlScan stmtEntry .dead .eof [] ts
      | .head =>
        if t.kind == K "SET" then dmlScan stmtEntry .lhs .eof [] ts
        else if t.kind == K "WHERE" then dmlScan stmtEntry .where_ .eof [] ts
        else dmlScan stmtEntry .head .eof [] ts
      | .lhs =>
        if k == .eq then dmlScan stmtEntry .rhs .eof [] ts
        else if t.kind == K "WHERE" then dmlScan stmtEntry .where_ .eof [] ts
        else dmlScan stmtEntry .lhs .eof [] ts
      | m =>
        -- an expression slot
        if t.kind == K "WHERE" && stack.isEmpty then dmlScan stmtEntry .where_ .eof [] ts
        else if (k == .other && !dmlVocab t) || k == .litStart || k == .select then true
        else if k == .ident && (isCastLike t
            || (next == .lparen && !(prev == .lbrack && stack.head? == some false && (posKwOf t).isSome))
            || (next == .string && isTypedLitWord t)) then true
        else if k == .ident && prev == .as_ && (simpleNameOf t.asString).isSome && next != .dot then true
        else if k == .comma && stack.isEmpty then
          (if m == .rows then dmlScan stmtEntry .rows .eof [] ts
           else if m == .rhs then dmlScan stmtEntry .lhs .eof [] ts
           else true)
        else if k == .comma && stack.head? != some true then true
        else
          let stack' :=
            if k == .lparen then (prev == .in_ || prev == .if_ || (m == .rows && stack.isEmpty)) :: stack
            else if k == .lbrack then (!operandEnd prev) :: stack
            else if k == .rparen || k == .rbrack then stack.tail
            else stack
          dmlScan stmtEntry m k stack' ts

def dmlTokenOutside (stmtEntry : Bool) (ts : List Token) : Bool := dmlScan stmtEntry .start .eof [] ts

/-! ## s-expression dump for the DML line protocol: every field, every position, `Pos()`/`End()` of every node -/

def identDump (i : PIdent) : String := s!"(id {i.namePos} {i.nameEnd} {hxs i.name})"
def pathDump (p : List PIdent) : String :=
  "(path" ++ String.join (p.map fun i => " " ++ identDump i) ++ s!")@{posPath p}:{endPath p}"

/-- an expression slot: the shape (`sexp`, as on the EXPR channel) and all its nodes with their positions (as on the
EXPRPOS channel) -/
def exprDump (e : PExpr) : String :=
  "[" ++ sexp (erase e) ++ " " ++ " ".intercalate ((nodesP 0 e).map NodeInfo.render) ++ "]"

def defaultDump : DefaultExpr PExpr → String
  | d@(.dflt p) => s!"(default {p} true -)@{posDefault d}:{endDefault d}"
  | d@(.expr e) => s!"(default -1 false {exprDump e})@{posDefault d}:{endDefault d}"

def rowDump (r : ValuesRow PExpr) : String :=
  s!"(row {r.lparen} {r.rparen}" ++ String.join (r.exprs.map fun d => " " ++ defaultDump d) ++ s!")@{posRow r}:{endRow r}"
def inputDump (v : ValuesInput PExpr) : String :=
  s!"(values {v.values}" ++ String.join (v.rows.map fun r => " " ++ rowDump r) ++ s!")@{posInput v}:{endInput v}"
def itemDump (u : UpdateItem PExpr) : String :=
  "(item (" ++ " ".intercalate (u.path.map identDump) ++ ") " ++ defaultDump u.dflt ++ s!")@{posItem u}:{endItem u}"
def whereDump (w : Where PExpr) : String := s!"(where {w.wherePos} {exprDump w.expr})@{posWhere w}:{endWhere w}"
def optPos : Option Nat → String
  | some p => toString p
  | none => "-1"
def aliasDump : Option AsAlias → String
  | none => "-"
  | some a => s!"(as {optPos a.as} {identDump a.alias})@{posAlias a}:{endAlias a}"
def InsertOrType.dump : InsertOrType → String
  | .none => "-" | .update => "UPDATE" | .ignore => "IGNORE"

def stmtDump : PStmt → String
  | s@(.insert p o t cs v) =>
    s!"(insert {p} {o.dump} {pathDump t} (" ++ " ".intercalate (cs.map identDump) ++ s!") {inputDump v})@{posD s}:{endD s}"
  | s@(.delete p t a w) => s!"(delete {p} {pathDump t} {aliasDump a} {whereDump w})@{posD s}:{endD s}"
  | s@(.update p t a us w) =>
    s!"(update {p} {pathDump t} {aliasDump a} (" ++ " ".intercalate (us.map itemDump) ++ s!") {whereDump w})@{posD s}:{endD s}"

def resLine {α : Type} (render : α → String) : Res α → String
  | .ok a => "OK " ++ render a
  | .raise => "ERR"
  | .outside => "OUTSIDE-MODEL"
  | .crash => "CRASH"
  | .outOfFuel => "FUEL"

/-- one statement: dump, hex `SQL()`, `Pos()`, `End()` -/
def stmtLine (s : PStmt) : String := s!"{stmtDump s} {hxs (sqlD sqlP s)} {posD s} {endD s}"
  where sqlP (e : PExpr) : Bytes := sqlE (erase e)

/-- the DML request: `ep` = `D` (ParseDML) | `Ds` (ParseDMLs) | `S` (ParseStatement) | `Ss` (ParseStatements) -/
def dmlRun (ep : String) (buf : Bytes) : String :=
  match Lex.lexAll buf with
  | .ok ts =>
    let stmtEntry := ep == "S" || ep == "Ss"
    if dmlTokenOutside stmtEntry ts then "OUTSIDE"
    else
      let f := dmlFuel ts
      if ep == "D" then resLine stmtLine (parseDMLTop parsePExpr f ts)
      else if ep == "S" then resLine stmtLine (parseStatementTop parsePExpr f ts)
      else if ep == "Ds" then
        resLine (fun l => s!"{l.length}" ++ String.join (l.map fun s => " " ++ stmtLine s)) (parseDMLsTop parsePExpr f ts)
      else if ep == "Ss" then
        resLine (fun l => s!"{l.length}" ++ String.join (l.map fun s => " " ++ stmtLine s)) (parseStatementsTop parsePExpr f ts)
      else "BADREQ"
  | .err _ _ => "ERR"
  | .crash _ => "CRASH"

end MF.DML
