/-
  MF.Model.File — `token/file.go` and `error.go` (`Error.Error`).
  `token.Pos` is a Go `int`, so positions are `Int` here; `none` is a runtime panic
  (index out of range on `f.lines`, slice bounds out of range on `f.Buffer`).
-/
import MF.Model.Basic
namespace MF.File

/-- `strings.Split(s, "\n")` -/
def splitLines : Bytes → List Bytes
  | [] => [[]]
  | c :: t =>
    if c == 10 then [] :: splitLines t
    else match splitLines t with
      | [] => [[c]]          -- unreachable: splitLines never returns []
      | l :: ls => (c :: l) :: ls

/-- `File.init`: `lines = [0]`, then `lines[i+1] = lines[i] + len(line_i) + 1`. -/
def linesAux : List Bytes → Nat → List Nat
  | [], _ => []
  | l :: ls, cur => (cur + l.length + 1) :: linesAux ls (cur + l.length + 1)

def lines (buf : Bytes) : List Nat := 0 :: linesAux (splitLines buf) 0

/-- the downward search loop of `ResolvePos` over `lines[0..n)`, written over the reversed prefix -/
def resolveLoop (ls : List Nat) (pos : Nat) : Nat → Option (Nat × Nat)
  | 0 => none
  | line + 1 =>
    match ls[line]? with
    | none => none   -- cannot happen for line < ls.length
    | some lp => if lp ≤ pos then some (line, pos - lp) else resolveLoop ls pos line

/-- `File.ResolvePos` -/
def resolvePos (buf : Bytes) (pos : Int) : Int × Int :=
  if pos < 0 then (-1, -1)
  else
    let ls := lines buf
    match resolveLoop ls pos.toNat ls.length with
    | some (l, c) => (l, c)
    | none => (-1, -1)

structure Position where
  pos : Int
  «end» : Int
  line : Int
  column : Int
  endLine : Int
  endColumn : Int
  source : Bytes
  deriving Repr, DecidableEq

def decimal (n : Nat) : Bytes := B (toString n)
def pad3 (n : Nat) : Bytes :=
  let d := decimal n
  List.replicate (3 - d.length) 32 ++ d

/-- `f.Buffer[f.lines[l] : f.lines[l+1]-1]` -/
def lineBuffer? (buf : Bytes) (l : Nat) : Option Bytes :=
  let ls := lines buf
  match ls[l]?, ls[l + 1]? with
  | some a, some b => if b = 0 then none else slice? buf a (b - 1)
  | _, _ => none

def multiLine (buf : Bytes) : Nat → Nat → Option Bytes
  | 0, _ => some []
  | n + 1, l =>
    match lineBuffer? buf l, multiLine buf n (l + 1) with
    | some lb, some rest => some ((if l > 0 then [10] else []) ++ pad3 (l + 1) ++ B "|  " ++ lb ++ rest)
    | _, _ => none

/-- `File.Position`; `none` = runtime panic -/
def position (buf : Bytes) (pos «end» : Int) : Option Position :=
  let (line, column) := resolvePos buf pos
  let (endLine, endColumn) := resolvePos buf «end»
  let mk (src : Bytes) : Option Position := some ⟨pos, «end», line, column, endLine, endColumn, src⟩
  if pos < 0 || «end» < 0 then mk []
  else if line == endLine then
    match lineBuffer? buf line.toNat with
    | none => none
    | some lb =>
      let count := (endColumn - column - 1).toNat
      mk (pad3 (line.toNat + 1) ++ B "|  " ++ lb ++ [10] ++ B "   |  " ++
          List.replicate column.toNat 32 ++ [94] ++ List.replicate count 126)
  else if line < endLine then
    match multiLine buf (endLine - line + 1).toNat line.toNat with
    | none => none
    | some s => mk s
  else mk []

/-- `Position.String` = `path:line+1:col+1`; `Error.Error` = `syntax error: <that>: <message>` -/
def intDec (i : Int) : Bytes := B (toString i)
def positionString (path : Bytes) (p : Position) : Bytes :=
  path ++ [58] ++ intDec (p.line + 1) ++ [58] ++ intDec (p.column + 1)
def errorString (path : Bytes) (p : Position) (msg : Bytes) : Bytes :=
  B "syntax error: " ++ positionString path p ++ B ": " ++ msg

end MF.File
