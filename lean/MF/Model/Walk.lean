/-
  MF.Model.Walk — `ast/walk.go` (`Walk`, `WalkMany`, `walkMain`) and `ast/walk_internal.go` as a table.

  A Go `Visitor` is modelled by a state `σ` with the four methods as pure functions; every call is logged as an
  `Event` carrying the visitor it was made on, so a theorem about the event list speaks about what any
  visitor can observe.  `Visit` returning `nil` is `none`.
-/
import MF.Model.Ast
namespace MF.Ast

structure Vis (σ : Type) where
  visit : σ → Node → Option σ
  visitMany : σ → List Node → σ
  field : σ → String → σ
  index : σ → Nat → σ

inductive Event (σ : Type) where
  | visit (v : σ) (n : Node)
  | visitMany (v : σ) (ns : List Node)
  | field (v : σ) (name : String)
  | index (v : σ) (i : Nat)

/-- `stackItem`: `node` (possibly nil) or `nodes` -/
inductive Item (σ : Type) where
  | node (n : Option Node) (v : σ)
  | nodes (ns : List Node) (v : σ)

/-- the single child stored in field `f`, if present -/
def Kids.single (ks : Kids) (f : String) : Option Node :=
  match ks with
  | .nil => none
  | .cons g i n r => if g == f && i == none then some n else r.single f

/-- the elements of the slice field `f`, in order -/
def Kids.slice (ks : Kids) (f : String) : List Node :=
  match ks with
  | .nil => []
  | .cons g i n r => if g == f && i != none then n :: r.slice f else r.slice f

/-- `walkInternal(node, v, stack)`: the items appended to the stack, in push order, with the `v.Field(label)`
calls made while pushing -/
def walkInternal {σ : Type} (V : Vis σ) (table : List (String × List WalkPush)) (n : Node) (v : σ) :
    List (Item σ) × List (Event σ) :=
  match table.lookup n.kind with
  | none => ([], [])
  | some pushes =>
    (pushes.map (fun p =>
        if p.many then Item.nodes (n.kids.slice p.field) (V.field v p.label)
        else Item.node (n.kids.single p.field) (V.field v p.label)),
     pushes.map (fun p => Event.field v p.label))

/-- indices `n-1, …, 0` with their elements -/
def revIndexed (ns : List Node) : List (Nat × Node) := (ns.zipIdx.map (fun p => (p.2, p.1))).reverse

/-- `walkMain`: pop the last item; the stack is a list whose HEAD is the top -/
def walkMain {σ : Type} (V : Vis σ) (table : List (String × List WalkPush)) :
    Nat → List (Item σ) → List (Event σ) → Option (List (Event σ))
  | 0, _, _ => none
  | _ + 1, [], acc => some acc
  | fuel + 1, top :: stack, acc =>
    match top with
    | .node none _ => walkMain V table fuel stack acc
    | .nodes ns v =>
      let v' := V.visitMany v ns
      let pushes := revIndexed ns
      -- pushed in order n-1 … 0, so element 0 ends on top
      let items := pushes.map (fun p => Item.node (some p.2) (V.index v' p.1))
      walkMain V table fuel (items.reverse ++ stack)
        (acc ++ [Event.visitMany v ns] ++ pushes.map (fun p => Event.index v' p.1))
    | .node (some n) v =>
      match V.visit v n with
      | none => walkMain V table fuel stack (acc ++ [Event.visit v n])
      | some v' =>
        let (items, evs) := walkInternal V table n v'
        walkMain V table fuel (items.reverse ++ stack) (acc ++ [Event.visit v n] ++ evs)

/-- `ast.Walk(node, v)`; the fuel bound is generous: every item is popped once and every node or slice field
produces at most one item -/
def walk {σ : Type} (V : Vis σ) (table : List (String × List WalkPush)) (n : Node) (v : σ) : Option (List (Event σ)) :=
  walkMain V table (4 * n.size * (n.size + 2) + 16) [.node (some n) v] []

end MF.Ast
