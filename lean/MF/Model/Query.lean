/-
  MF.Model.Query — the SELECT core of `parser.go` (ParseQuery / ParseStatement → parseQueryStatement →
  parseQueryExpr → parseSimpleQueryExpr → parseSelect …, lines ~19-61, 153-193, 247-271, 426-917, 925-1298, 5575-5585)
  and of `ast/sql.go` / `ast/pos.go` for the nodes QueryStatement, Query, Select, Star, DotStar, Alias, ExprSelectItem,
  AsAlias, From, TableName, PathTableExpr, Where, GroupBy, Having, OrderBy, OrderByItem, Limit, Offset, Path, Ident,
  for the fragment M3:

    SELECT [ALL|DISTINCT] item {, item} [,]
      [FROM path [[AS] alias]] [WHERE e] [GROUP BY e {, e}] [HAVING e]
      [ORDER BY e [ASC|DESC] {, …}] [LIMIT n [OFFSET m]]           n, m ::= <int> | @param
    item ::= * | e.* | e [AS] alias | e                             e: an expression of M1 (MF/Model/Expr.lean)

  Everything else is OUTSIDE: hints, WITH, set operators, parenthesised / FROM-first queries, pipes, joins, UNNEST,
  sub-query tables, TVF calls, TABLESAMPLE, WITH OFFSET, star modifiers, SELECT AS …, COLLATE, FOR UPDATE, CAST in LIMIT.
  The model answers `outside` exactly where the Go code dispatches into such a production; the channel decides
  OUTSIDE by the token-level rule `queryOutside` (same function on the Go side) before comparing.

  One Lean function per Go function (plus one per Go loop), fuel first.  State = the token list of `lexAll`
  (`p.Token` = head), as in M1; expressions are parsed by the positioned expression model `parsePExpr`
  (MF/Model/ExprPos.lean).  `raise` = a syntax `*Error` panic: it is recorded by the `recover` of parseQueryExpr /
  parseSimpleQueryExpr / parseExpr (the `Bad*` node built there is NOT modelled), so the entry point returns a non-nil error.

  Ghost fields (not in the Go AST; they make the consumed tokens a function of the tree): `Select.trailing` (a trailing
  comma was consumed by parseSelectResults).
-/
import MF.Model.ExprPos
namespace MF.Query
open MF MF.Expr

/-! ## token classes of the query layer -/

inductive QK
  | eof | ident | int | param
  | select | all | distinct | as_ | from_ | where_ | group | by_ | having | order | asc | desc | limit
  | star | dot | comma | lparen | rparen | semi
  /-- `@` (hint), WITH, UNNEST, TABLESAMPLE, COLLATE, FOR, `|>`, UNION, INTERSECT, EXCEPT, CAST and the join words:
  where the query layer looks at them it leaves the fragment -/
  | hint | with_ | unnest | tablesample | collate | for_ | pipe | setop | except | cast | join
  | other
  deriving DecidableEq, Repr, Inhabited

def qsymTable : List (String × QK) := [
  ("SELECT", .select), ("ALL", .all), ("DISTINCT", .distinct), ("AS", .as_), ("FROM", .from_), ("WHERE", .where_),
  ("GROUP", .group), ("BY", .by_), ("HAVING", .having), ("ORDER", .order), ("ASC", .asc), ("DESC", .desc),
  ("LIMIT", .limit), ("*", .star), (".", .dot), (",", .comma), ("(", .lparen), (")", .rparen), (";", .semi),
  ("@", .hint), ("WITH", .with_), ("UNNEST", .unnest), ("TABLESAMPLE", .tablesample), ("COLLATE", .collate),
  ("FOR", .for_), ("|>", .pipe), ("UNION", .setop), ("INTERSECT", .setop), ("EXCEPT", .except), ("CAST", .cast),
  ("INNER", .join), ("CROSS", .join), ("FULL", .join), ("LEFT", .join), ("RIGHT", .join), ("HASH", .join),
  ("LOOKUP", .join), ("JOIN", .join)]

def qsym (s : Bytes) : QK :=
  match qsymTable.find? (fun p => B p.1 == s) with
  | some p => p.2
  | none => .other

def qk : TokKind → QK
  | .eof => .eof | .ident => .ident | .int => .int | .param => .param
  | .sym s => qsym s
  | _ => .other

/-- `p.Token.Kind` as a class of the query layer; past the end of the list the lexer keeps answering `<eof>` -/
def qcur : List Token → QK
  | t :: _ => qk t.kind
  | [] => .eof

/-! ## the AST (all fields of the Go nodes; an absent optional position `token.InvalidPos` is `none`) -/

abbrev Ident := PIdent

/-- `ast.AsAlias{As, Alias}` -/
structure AsAlias where
  as : Option Nat
  alias : Ident
  deriving DecidableEq, Repr, Inhabited

/-- `ast.SelectItem`: `Star{Star}`, `DotStar{Star, Expr}`, `Alias{Expr, As}`, `ExprSelectItem{Expr}`
(`Except`, `Replace` = nil) -/
inductive SelectItem
  | star (star : Nat)
  | dotStar (star : Nat) (e : PExpr)
  | alias (e : PExpr) (as : AsAlias)
  | expr (e : PExpr)
  deriving Inhabited

/-- `ast.TableExpr`: `TableName{Table, As}` / `PathTableExpr{Path, As}` (`Hint`, `Sample`, `WithOffset` = nil);
`first :: more` are the `Path.Idents` (at least two) -/
inductive TableExpr
  | tableName (table : Ident) (as : Option AsAlias)
  | path (first : Ident) (more : List Ident) (as : Option AsAlias)
  deriving Inhabited

structure From where
  from_ : Nat
  source : TableExpr
  deriving Inhabited

structure Where where
  where_ : Nat
  e : PExpr
  deriving Inhabited

/-- `GroupBy{Group, Exprs = first :: more}` -/
structure GroupBy where
  group : Nat
  first : PExpr
  more : List PExpr
  deriving Inhabited

structure Having where
  having : Nat
  e : PExpr
  deriving Inhabited

inductive Dir | asc | desc
  deriving DecidableEq, Repr, Inhabited

/-- `OrderByItem{DirPos, Expr, Collate = nil, Dir}`: `dir = none` is `Dir = ""`, `DirPos = InvalidPos` -/
structure OrderByItem where
  e : PExpr
  dir : Option (Dir × Nat)
  deriving Inhabited

structure OrderBy where
  order : Nat
  first : OrderByItem
  more : List OrderByItem
  deriving Inhabited

/-- `ast.IntValue`: `Param{Atmark, Name}` / `IntLiteral{ValuePos, ValueEnd, Base, Value}` -/
inductive IntValue
  | param (atmark : Nat) (name : Bytes)
  | int (pos «end» base : Nat) (raw : Bytes)
  deriving DecidableEq, Repr, Inhabited

structure Offset where
  offset : Nat
  value : IntValue
  deriving DecidableEq, Repr, Inhabited

structure Limit where
  limit : Nat
  count : IntValue
  offset : Option Offset
  deriving DecidableEq, Repr, Inhabited

inductive AllOrDistinct | all | distinct
  deriving DecidableEq, Repr, Inhabited

/-- `ast.Select` (`As` = nil); `first :: more` = `Results`; `trailing` is a ghost field -/
structure Select where
  select : Nat
  aod : Option AllOrDistinct
  first : SelectItem
  more : List SelectItem
  trailing : Bool
  from_ : Option From
  where_ : Option Where
  groupBy : Option GroupBy
  having : Option Having
  deriving Inhabited

/-- `ast.QueryExpr` of the fragment: a `Select`, or `Query{With: nil, Query: Select, OrderBy, Limit, ForUpdate: nil,
PipeOperators: nil}` (built by parseQueryExprSuffix only when OrderBy or Limit is present) -/
inductive QueryExpr
  | select (s : Select)
  | query (s : Select) (orderBy : Option OrderBy) (limit : Option Limit)
  deriving Inhabited

/-- `ast.QueryStatement{Hint: nil, Query}` -/
structure QueryStatement where
  query : QueryExpr
  deriving Inhabited

/-! ## the parser -/

abbrev QR (α : Type) := Res (α × List Token)

/-- `parseIdent` -/
def parseIdent (ts : List Token) : QR Ident :=
  if qcur ts = .ident then .ok (identOf (hd ts), ts.tail) else .raise

/-- `tryParseAsAlias(withOptionalAs)` -/
def tryParseAsAlias (ts : List Token) : QR (Option AsAlias) :=
  match qcur ts with
  | .as_ => (parseIdent ts.tail).bind fun p => .ok (some ⟨some (hd ts).pos, p.1⟩, p.2)
  | .ident => .ok (some ⟨none, identOf (hd ts)⟩, ts.tail)
  | _ => .ok (none, ts)

/-- `tryParseStarModifierExcept` then `tryParseStarModifierReplace`, both leaving the fragment when they find their
modifier: EXCEPT (with `(` it is the modifier, without it the caller runs into a set operator), and the pseudo keyword
REPLACE (`expectKeywordLike("REPLACE")` succeeds, then `p.expect("(")`) -/
def starModifiers (ts : List Token) : Res Unit :=
  if qcur ts = .except then .outside
  else if (hd ts).isKeywordLike (B "REPLACE") then (if qcur ts.tail = .lparen then .outside else .raise)
  else .ok ()

/-- `parseSelectItem` -/
def parseSelectItem (fuel : Nat) (ts : List Token) : QR SelectItem :=
  if qcur ts = .star then
    (starModifiers ts.tail).bind fun _ => .ok (.star (hd ts).pos, ts.tail)
  else
    (parsePExpr fuel ts).bind fun p =>
      (tryParseAsAlias p.2).bind fun a =>
        match a.1 with
        | some as => .ok (.alias p.1 as, a.2)
        | none =>
          if qcur p.2 = .dot then
            if qcur p.2.tail = .star then
              (starModifiers p.2.tail.tail).bind fun _ => .ok (.dotStar (hd p.2.tail).pos p.1, p.2.tail.tail)
            else .raise
          else .ok (.expr p.1, p.2)

/-- the loop of `parseSelectResults` after the first item: the appended items and whether a trailing comma was consumed
(`for p.Token.Kind != <eof> { if p.Token.Kind != "," { break }; nextToken; if <eof> | FROM | ";" | ")" { break }; … }`) -/
def resultsLoop : Nat → List Token → QR (List SelectItem × Bool)
  | 0, _ => .outOfFuel
  | f + 1, ts =>
    if qcur ts = .comma then
      match qcur ts.tail with
      | .eof | .from_ | .semi | .rparen => .ok (([], true), ts.tail)
      | _ =>
        (parseSelectItem f ts.tail).bind fun i =>
          (resultsLoop f i.2).bind fun r => .ok ((i.1 :: r.1.1, r.1.2), r.2)
    else .ok (([], false), ts)

/-- `for p.Token.Kind == "." { nextToken; ids = append(ids, parseIdent()) }` of `parseIdentOrPath` -/
def pathLoop : Nat → List Token → QR (List Ident)
  | 0, _ => .outOfFuel
  | f + 1, ts =>
    if qcur ts = .dot then
      (parseIdent ts.tail).bind fun p => (pathLoop f p.2).bind fun r => .ok (p.1 :: r.1, r.2)
    else .ok ([], ts)

/-- what follows the table name and its alias: `tryParseWithOffset` (WITH), `tryParseTableSample` (TABLESAMPLE, in
`parseTableExprSuffix`), and the join loop of `parseTableExpr(toplevel = true)` (a join word or `,`) all leave the
fragment; otherwise the loop returns the table -/
def tableTail (ts : List Token) : Res Unit :=
  match qcur ts with
  | .with_ | .tablesample | .join | .comma => .outside
  | _ => .ok ()

/-- `parseTableExpr(true)` → `parseSimpleTableExpr` → `parseTableNameSuffix` / `parsePathTableExprSuffix` →
`parseTableExprSuffix`, for a table NAME -/
def parseTableExpr (fuel : Nat) (ts : List Token) : QR TableExpr :=
  match qcur ts with
  | .lparen | .unnest => .outside            -- sub-query / parenthesised join / UNNEST
  | .ident =>
    (parseIdent ts).bind fun i =>
      (pathLoop fuel i.2).bind fun r =>
        match qcur r.2 with
        | .lparen => .outside                -- TVF call
        | .hint => .outside                  -- tryParseHint
        | _ =>
          (tryParseAsAlias r.2).bind fun a =>
            (tableTail a.2).bind fun _ =>
              match r.1 with
              | [] => .ok (.tableName i.1 a.1, a.2)
              | m => .ok (.path i.1 m a.1, a.2)
  | _ => .raise

/-- `tryParseFrom` -/
def tryParseFrom (fuel : Nat) (ts : List Token) : QR (Option From) :=
  if qcur ts = .from_ then (parseTableExpr fuel ts.tail).bind fun t => .ok (some ⟨(hd ts).pos, t.1⟩, t.2)
  else .ok (none, ts)

/-- `tryParseWhere` / `parseWhere` -/
def tryParseWhere (fuel : Nat) (ts : List Token) : QR (Option Where) :=
  if qcur ts = .where_ then (parsePExpr fuel ts.tail).bind fun e => .ok (some ⟨(hd ts).pos, e.1⟩, e.2)
  else .ok (none, ts)

/-- the loop of `parseCommaSeparatedList(p, p.parseExpr)` after the first element -/
def exprListLoop : Nat → List Token → QR (List PExpr)
  | 0, _ => .outOfFuel
  | f + 1, ts =>
    if qcur ts = .comma then
      (parsePExpr f ts.tail).bind fun e => (exprListLoop f e.2).bind fun r => .ok (e.1 :: r.1, r.2)
    else .ok ([], ts)

/-- `tryParseGroupBy` -/
def tryParseGroupBy (fuel : Nat) (ts : List Token) : QR (Option GroupBy) :=
  if qcur ts = .group then
    if qcur ts.tail = .by_ then
      (parsePExpr fuel ts.tail.tail).bind fun e =>
        (exprListLoop fuel e.2).bind fun r => .ok (some ⟨(hd ts).pos, e.1, r.1⟩, r.2)
    else .raise
  else .ok (none, ts)

/-- `tryParseHaving` -/
def tryParseHaving (fuel : Nat) (ts : List Token) : QR (Option Having) :=
  if qcur ts = .having then (parsePExpr fuel ts.tail).bind fun e => .ok (some ⟨(hd ts).pos, e.1⟩, e.2)
  else .ok (none, ts)

/-- `tryParseAllOrDistinct` -/
def tryParseAllOrDistinct (ts : List Token) : Option AllOrDistinct × List Token :=
  match qcur ts with
  | .all => (some .all, ts.tail)
  | .distinct => (some .distinct, ts.tail)
  | _ => (none, ts)

/-- `parseSelect`: `p.expect("SELECT")`, `tryParseAllOrDistinct`, `tryParseSelectAs` (AS … is outside),
`parseSelectResults`, `tryParseFrom`, `tryParseWhere`, `tryParseGroupBy`, `tryParseHaving` -/
def parseSelect (fuel : Nat) (ts : List Token) : QR Select :=
  if qcur ts = .select then
    let a := tryParseAllOrDistinct ts.tail
    if qcur a.2 = .as_ then .outside
    else
      (parseSelectItem fuel a.2).bind fun i =>
      (resultsLoop fuel i.2).bind fun r =>
      (tryParseFrom fuel r.2).bind fun fr =>
      (tryParseWhere fuel fr.2).bind fun w =>
      (tryParseGroupBy fuel w.2).bind fun g =>
      (tryParseHaving fuel g.2).bind fun h =>
        .ok (⟨(hd ts).pos, a.1, i.1, r.1.1, r.1.2, fr.1, w.1, g.1, h.1⟩, h.2)
  else .raise

/-- `tryParseDirection` -/
def tryParseDirection (ts : List Token) : Option (Dir × Nat) × List Token :=
  match qcur ts with
  | .asc => (some (.asc, (hd ts).pos), ts.tail)
  | .desc => (some (.desc, (hd ts).pos), ts.tail)
  | _ => (none, ts)

/-- `parseOrderByItem`: `parseExpr`, `tryParseCollate` (COLLATE is outside), `tryParseDirection` -/
def parseOrderByItem (fuel : Nat) (ts : List Token) : QR OrderByItem :=
  (parsePExpr fuel ts).bind fun e =>
    if qcur e.2 = .collate then .outside
    else
      let d := tryParseDirection e.2
      .ok (⟨e.1, d.1⟩, d.2)

/-- the loop of `parseCommaSeparatedList(p, p.parseOrderByItem)` after the first element -/
def orderListLoop : Nat → List Token → QR (List OrderByItem)
  | 0, _ => .outOfFuel
  | f + 1, ts =>
    if qcur ts = .comma then
      (parseOrderByItem f ts.tail).bind fun e => (orderListLoop f e.2).bind fun r => .ok (e.1 :: r.1, r.2)
    else .ok ([], ts)

/-- `tryParseOrderBy` -/
def tryParseOrderBy (fuel : Nat) (ts : List Token) : QR (Option OrderBy) :=
  if qcur ts = .order then
    if qcur ts.tail = .by_ then
      (parseOrderByItem fuel ts.tail.tail).bind fun e =>
        (orderListLoop fuel e.2).bind fun r => .ok (some ⟨(hd ts).pos, e.1, r.1⟩, r.2)
    else .raise
  else .ok (none, ts)

/-- `parseIntValue`: a parameter, an integer literal, `CAST(… AS INT64)` (outside), otherwise a syntax error -/
def parseIntValue (ts : List Token) : QR IntValue :=
  match qcur ts with
  | .param => .ok (.param (hd ts).pos (hd ts).asString, ts.tail)
  | .int => .ok (.int (hd ts).pos (hd ts).end (hd ts).base (hd ts).raw, ts.tail)
  | .cast => .outside
  | _ => .raise

/-- `tryParseOffset`: the pseudo keyword OFFSET (an unquoted identifier) -/
def tryParseOffset (ts : List Token) : QR (Option Offset) :=
  if (hd ts).isKeywordLike (B "OFFSET") then
    (parseIntValue ts.tail).bind fun v => .ok (some ⟨(hd ts).pos, v.1⟩, v.2)
  else .ok (none, ts)

/-- `tryParseLimit` -/
def tryParseLimit (ts : List Token) : QR (Option Limit) :=
  if qcur ts = .limit then
    (parseIntValue ts.tail).bind fun c =>
      (tryParseOffset c.2).bind fun o => .ok (some ⟨(hd ts).pos, c.1, o.1⟩, o.2)
  else .ok (none, ts)

/-- `parseQueryExprSuffix`: `tryParseOrderBy`, `tryParseLimit`, `tryParseForUpdate` (FOR is outside),
`parsePipeOperators` (`|>` is outside); the `Query` wrapper only when something was found -/
def parseQueryExprSuffix (fuel : Nat) (s : Select) (ts : List Token) : QR QueryExpr :=
  (tryParseOrderBy fuel ts).bind fun o =>
    (tryParseLimit o.2).bind fun l =>
      match qcur l.2 with
      | .for_ | .pipe => .outside
      | _ =>
        match o.1, l.1 with
        | none, none => .ok (.select s, l.2)
        | ob, lm => .ok (.query s ob lm, l.2)

/-- `parseSimpleQueryExpr`: FROM-first and parenthesised queries are outside -/
def parseSimpleQueryExpr (fuel : Nat) (ts : List Token) : QR Select :=
  match qcur ts with
  | .from_ | .lparen => .outside
  | .select => parseSelect fuel ts
  | _ => .raise

/-- `parseQueryExpr`: WITH → `parseQuery` (outside); a simple query; directly followed by ORDER / LIMIT / FOR / `|>`
the suffix; otherwise the set-operator loop (UNION / INTERSECT / EXCEPT are outside) and then the suffix -/
def parseQueryExpr (fuel : Nat) (ts : List Token) : QR QueryExpr :=
  if qcur ts = .with_ then .outside
  else
    (parseSimpleQueryExpr fuel ts).bind fun s =>
      match qcur s.2 with
      | .setop | .except => .outside
      | _ => parseQueryExprSuffix fuel s.1 s.2

/-- `parseQueryStatement`: `tryParseHint` (`@` is outside), `parseQueryStatementInternal` -/
def parseQueryStatement (fuel : Nat) (ts : List Token) : QR QueryStatement :=
  if qcur ts = .hint then .outside
  else (parseQueryExpr fuel ts).bind fun q => .ok (⟨q.1⟩, q.2)

/-- `parseStatement` / `parseStatementInternal`: `tryParseHint`; SELECT / WITH / `(` / FROM →
`parseQueryStatementInternal`; every other statement kind is outside this model -/
def parseStatement (fuel : Nat) (ts : List Token) : QR QueryStatement :=
  if qcur ts = .hint then .outside
  else
    match qcur ts with
    | .select | .with_ | .lparen | .from_ => (parseQueryExpr fuel ts).bind fun q => .ok (⟨q.1⟩, q.2)
    | _ => .outside

/-- `ParseQuery`: the whole input must be one query statement -/
def parseQueryTop (fuel : Nat) (ts : List Token) : Res QueryStatement :=
  (parseQueryStatement fuel ts).bind fun p => if qcur p.2 = .eof then .ok p.1 else .raise

/-- `ParseStatement` -/
def parseStatementTop (fuel : Nat) (ts : List Token) : Res QueryStatement :=
  (parseStatement fuel ts).bind fun p => if qcur p.2 = .eof then .ok p.1 else .raise

def topFuel (ts : List Token) : Nat := 32 * (ts.length + 2)

/-! ## `ast/pos.go` -/

def posAs (a : AsAlias) : Nat := a.as.getD a.alias.namePos     -- posChoice(As, Alias.pos)
def endAs (a : AsAlias) : Nat := a.alias.nameEnd

def posItem : SelectItem → Nat
  | .star s => s
  | .dotStar _ e => posP e
  | .alias e _ => posP e
  | .expr e => posP e

def endItem : SelectItem → Nat
  | .star s => s + 1                     -- posChoice(nodeEnd(nil), Star + 1)
  | .dotStar s _ => s + 1
  | .alias _ a => endAs a
  | .expr e => endP e

def posTable : TableExpr → Nat
  | .tableName t _ => t.namePos
  | .path f _ _ => f.namePos

def endPathIds (f : Ident) (m : List Ident) : Nat := ((f :: m).getLast?.map (·.nameEnd)).getD 0

def endTable : TableExpr → Nat
  | .tableName t a => match a with | some a => endAs a | none => t.nameEnd
  | .path f m a => match a with | some a => endAs a | none => endPathIds f m

def endFrom (f : From) : Nat := endTable f.source
def endWhere (w : Where) : Nat := endP w.e
def endGroupBy (g : GroupBy) : Nat := endP ((g.first :: g.more).getLast?.getD g.first)
def endHaving (h : Having) : Nat := endP h.e

def Dir.len : Dir → Nat | .asc => 3 | .desc => 4

def endOrderItem (i : OrderByItem) : Nat :=
  match i.dir with
  | some (d, p) => p + d.len               -- posChoice(posAdd(DirPos, len(Dir)), …)
  | none => endP i.e

def endOrderBy (o : OrderBy) : Nat := endOrderItem ((o.first :: o.more).getLast?.getD o.first)

def posInt : IntValue → Nat
  | .param a _ => a
  | .int p _ _ _ => p
def endInt : IntValue → Nat
  | .param a n => a + 1 + n.length
  | .int _ e _ _ => e

def endOffset (o : Offset) : Nat := endInt o.value
def endLimit (l : Limit) : Nat := match l.offset with | some o => endOffset o | none => endInt l.count

def endSelect (s : Select) : Nat :=
  match s.having, s.groupBy, s.where_, s.from_ with
  | some h, _, _, _ => endHaving h
  | none, some g, _, _ => endGroupBy g
  | none, none, some w, _ => endWhere w
  | none, none, none, some f => endFrom f
  | none, none, none, none => endItem ((s.first :: s.more).getLast?.getD s.first)

def posQE : QueryExpr → Nat
  | .select s => s.select
  | .query s _ _ => s.select
def endQE : QueryExpr → Nat
  | .select s => endSelect s
  | .query s o l =>
    match l, o with
    | some l, _ => endLimit l
    | none, some o => endOrderBy o
    | none, none => endSelect s

def posQ (q : QueryStatement) : Nat := posQE q.query
def endQ (q : QueryStatement) : Nat := endQE q.query

/-! ## `ast/sql.go` -/

def sqlX (e : PExpr) : Bytes := sqlE (erase e)

def sqlAs (a : AsAlias) : Bytes := (if a.as.isSome then B "AS " else []) ++ identSQL a.alias.name

/-- `spaceAfterInt` -/
def digitsStart : List UInt8 → Nat → Nat
  | _, 0 => 0
  | s, i + 1 => if Char.isDigit (s.getD i 0) then digitsStart s i else i + 1

def spaceAfterInt (s : Bytes) : Bytes :=
  let i := digitsStart s s.length
  if i = s.length || (i > 0 && (Char.isIdentPart (s.getD (i - 1) 0) || s.getD (i - 1) 0 == 46)) then s
  else s ++ B " "

def sqlItem : SelectItem → Bytes
  | .star _ => B "*"
  | .dotStar _ e => spaceAfterInt (sqlX e) ++ B ".*"
  | .alias e a => sqlX e ++ B " " ++ sqlAs a
  | .expr e => sqlX e

def sqlOptAs : Option AsAlias → Bytes
  | some a => B " " ++ sqlAs a
  | none => []

def sqlTable : TableExpr → Bytes
  | .tableName t a => identSQL t.name ++ sqlOptAs a
  | .path f m a => joinBytes (B ".") ((f :: m).map fun i => identSQL i.name) ++ sqlOptAs a

def sqlInt : IntValue → Bytes
  | .param _ n => B "@" ++ n
  | .int _ _ _ raw => raw

def sqlOrderItem (i : OrderByItem) : Bytes :=
  sqlX i.e ++ (match i.dir with | some (.asc, _) => B " ASC" | some (.desc, _) => B " DESC" | none => [])

def sqlSelect (s : Select) : Bytes :=
  B "SELECT " ++ (match s.aod with | some .all => B "ALL " | some .distinct => B "DISTINCT " | none => []) ++
    joinBytes (B ", ") ((s.first :: s.more).map sqlItem) ++
    (match s.from_ with | some f => B " FROM " ++ sqlTable f.source | none => []) ++
    (match s.where_ with | some w => B " WHERE " ++ sqlX w.e | none => []) ++
    (match s.groupBy with | some g => B " GROUP BY " ++ joinBytes (B ", ") ((g.first :: g.more).map sqlX) | none => []) ++
    (match s.having with | some h => B " HAVING " ++ sqlX h.e | none => [])

def sqlLimit (l : Limit) : Bytes :=
  B "LIMIT " ++ sqlInt l.count ++ (match l.offset with | some o => B " OFFSET " ++ sqlInt o.value | none => [])

def sqlQE : QueryExpr → Bytes
  | .select s => sqlSelect s
  | .query s o l =>
    sqlSelect s ++
      (match o with | some o => B " ORDER BY " ++ joinBytes (B ", ") ((o.first :: o.more).map sqlOrderItem) | none => []) ++
      (match l with | some l => B " " ++ sqlLimit l | none => [])

def sqlQ (q : QueryStatement) : Bytes := sqlQE q.query

/-! ## the token-level OUTSIDE rule shared with the Go harness (`queryOutside` in harness/querychan.go)

The expression rule `MF.Expr.outsideScan` with the query words admitted: `prev`, `stack` as there; `inFrom` = the last
clause keyword at depth 0 was FROM (there a `,` is a comma join). -/

/-- the tokens of the query layer that the expression rule calls `other` but that are in the fragment -/
def isQueryWord : QK → Bool
  | .all | .distinct | .from_ | .where_ | .group | .by_ | .having | .order | .asc | .desc | .limit | .semi => true
  | _ => false

def qScan : TK → QK → List Bool → Bool → List Token → Bool
  | _, _, _, _, [] => false
  | prev, qprev, stack, inFrom, t :: ts =>
    let k := tk t.kind
    let q := qk t.kind
    let next := cur ts
    if (k == .other && !isQueryWord q) || k == .litStart || k == .select then true
    else if k == .ident && (isCastLike t
        || (next == .lparen && !(prev == .lbrack && stack.head? == some false && (posKwOf t).isSome))
        || (next == .string && isTypedLitWord t)) then true
    else if k == .ident && prev == .as_ && !stack.isEmpty && (simpleNameOf t.asString).isSome && next != .dot then true
    else if k == .comma && !stack.isEmpty && stack.head? != some true then true
    else if k == .comma && stack.isEmpty && inFrom then true
    -- FROM ( … / FROM UNNEST: sub-query, parenthesised join, UNNEST table
    else if qprev == .from_ && (k == .lparen || k == .unnest) then true
    -- SELECT [ALL|DISTINCT] AS STRUCT | VALUE | type
    else if k == .as_ && (qprev == .select || qprev == .all || qprev == .distinct) then true
    -- LIMIT CAST(…) / OFFSET CAST(…)
    else if k == .cast && (qprev == .limit || prev == .ident) then true
    else
      let stack' :=
        if k == .lparen then (prev == .in_ || prev == .if_) :: stack
        else if k == .lbrack then (!operandEnd prev) :: stack
        else if k == .rparen || k == .rbrack then stack.tail
        else stack
      let inFrom' :=
        if stack.isEmpty then
          (if q == .from_ then true
           else if q == .where_ || q == .group || q == .having || q == .order || q == .limit then false
           else inFrom)
        else inFrom
      qScan k q stack' inFrom' ts

/-- `stmt`: the entry point is ParseStatement (any first token other than SELECT is another statement kind) -/
def queryOutside (stmt : Bool) (ts : List Token) : Bool :=
  match ts with
  | [] => true
  | t :: rest =>
    if qk t.kind == .select then qScan .select .select [] false rest
    else if stmt then true
    else
      match qk t.kind with
      | .from_ | .lparen | .with_ | .hint => true
      | _ => qScan .eof .eof [] false ts

/-! ## the s-expression dump of the QUERY line protocol: every field, every position, `@Pos():End()` per node -/

def at_ (p e : Nat) : String := s!"@{p}:{e}"

/-- an expression slot: shape, then all its nodes in preorder with positions (as on the EXPRPOS channel) -/
def dumpE (e : PExpr) : String :=
  "{" ++ sexp (erase e) ++ " " ++ " ".intercalate ((nodesP 0 e).map NodeInfo.render) ++ "}"

def dumpId (i : Ident) : String := s!"(id {i.namePos} {i.nameEnd} {hxs i.name})"

def dumpAs (a : AsAlias) : String :=
  "(as " ++ (match a.as with | some p => toString p | none => "-1") ++ " " ++ dumpId a.alias ++ ")" ++ at_ (posAs a) (endAs a)

def dumpOptAs : Option AsAlias → String
  | some a => dumpAs a
  | none => "-"

def dumpItem (i : SelectItem) : String :=
  (match i with
    | .star s => s!"(star {s})"
    | .dotStar s e => s!"(dotstar {s} " ++ dumpE e ++ ")"
    | .alias e a => "(alias " ++ dumpE e ++ " " ++ dumpAs a ++ ")"
    | .expr e => "(item " ++ dumpE e ++ ")") ++ at_ (posItem i) (endItem i)

def dumpTable (t : TableExpr) : String :=
  (match t with
    | .tableName i a => "(table " ++ dumpId i ++ " " ++ dumpOptAs a ++ ")"
    | .path f m a =>
      "(pathtable (path" ++ String.join ((f :: m).map fun i => " " ++ dumpId i) ++ ")" ++ at_ f.namePos (endPathIds f m) ++
        " " ++ dumpOptAs a ++ ")") ++ at_ (posTable t) (endTable t)

def dumpInt (v : IntValue) : String :=
  (match v with
    | .param a n => s!"(param {a} {hxs n})"
    | .int p e b raw => s!"(int {p} {e} {b} {hxs raw})") ++ at_ (posInt v) (endInt v)

def dumpOrderItem (i : OrderByItem) : String :=
  "(ob " ++ (match i.dir with | some (_, p) => toString p | none => "-1") ++ " " ++ dumpE i.e ++ " " ++
    (match i.dir with | some (.asc, _) => "ASC" | some (.desc, _) => "DESC" | none => "-") ++ ")" ++
    at_ (posP i.e) (endOrderItem i)

def dumpSelect (s : Select) : String :=
  s!"(select {s.select} " ++ (match s.aod with | some .all => "ALL" | some .distinct => "DISTINCT" | none => "-") ++
    " [" ++ " ".intercalate ((s.first :: s.more).map dumpItem) ++ "] " ++
    (match s.from_ with | some f => s!"(from {f.from_} " ++ dumpTable f.source ++ ")" ++ at_ f.from_ (endFrom f) | none => "-") ++ " " ++
    (match s.where_ with | some w => s!"(where {w.where_} " ++ dumpE w.e ++ ")" ++ at_ w.where_ (endWhere w) | none => "-") ++ " " ++
    (match s.groupBy with
      | some g => s!"(groupby {g.group}" ++ String.join ((g.first :: g.more).map fun e => " " ++ dumpE e) ++ ")" ++ at_ g.group (endGroupBy g)
      | none => "-") ++ " " ++
    (match s.having with | some h => s!"(having {h.having} " ++ dumpE h.e ++ ")" ++ at_ h.having (endHaving h) | none => "-") ++
    ")" ++ at_ s.select (endSelect s)

def dumpLimit (l : Limit) : String :=
  s!"(limit {l.limit} " ++ dumpInt l.count ++ " " ++
    (match l.offset with | some o => s!"(offset {o.offset} " ++ dumpInt o.value ++ ")" ++ at_ o.offset (endOffset o) | none => "-") ++
    ")" ++ at_ l.limit (endLimit l)

def dumpQE (q : QueryExpr) : String :=
  match q with
  | .select s => dumpSelect s
  | .query s o l =>
    "(query " ++ dumpSelect s ++ " " ++
      (match o with
        | some o => s!"(orderby {o.order}" ++ String.join ((o.first :: o.more).map fun i => " " ++ dumpOrderItem i) ++ ")" ++ at_ o.order (endOrderBy o)
        | none => "-") ++ " " ++
      (match l with | some l => dumpLimit l | none => "-") ++ ")" ++ at_ (posQE q) (endQE q)

def dumpQ (q : QueryStatement) : String := "(stmt " ++ dumpQE q.query ++ ")" ++ at_ (posQ q) (endQ q)

/-- the QUERY request: lex, apply the token-level OUTSIDE rule, parse through the entry point -/
def queryRun (stmt : Bool) (buf : Bytes) : String :=
  match Lex.lexAll buf with
  | .ok ts =>
    if queryOutside stmt ts then "OUTSIDE"
    else
      match (if stmt then parseStatementTop (topFuel ts) ts else parseQueryTop (topFuel ts) ts) with
      | .ok q => "OK " ++ dumpQ q ++ " " ++ hxs (sqlQ q) ++ s!" {posQ q} {endQ q}"
      | .raise => "ERR"
      | .outside => "OUTSIDE-MODEL"
      | .crash => "CRASH"
      | .outOfFuel => "FUEL"
  | .err _ _ => "ERR"
  | .crash _ => "CRASH"

end MF.Query
