/-
  MF.Model.Required — which single-node fields of a kind must be non-nil (and which string fields non-empty) for
  `SQL()`, `Pos()`, `End()` not to panic, computed from the regenerated tables (C04, link "parser ⇒ shaped tree").

  `SqlBody.required` lists the fields whose child the body dereferences unconditionally.  It is the syntactic shadow of
  `SqlBody.need` (MF/Proofs/TreeSql.lean, the condition `SqlShaped` uses), clause by clause:
      `x.F.SQL()`  (`child f`)            F
      `paren(p, x.F)`                      F          (`exprPrec(nil)` panics)
      `sqlOpt(l, x.F, r)`                  not F (nil-safe), but what `l` and `r` dereference: Go evaluates the arguments first
      `strOpt(c, s)`, `strIfElse(c, a, b)` what `s` / BOTH `a` and `b` dereference, regardless of the condition
      `sqlJoin(x.Fs, sep)`                 nothing (a slice; its nil ELEMENTS are the `contig` clause of `needRest`)
      `if c { return a }; rest`            the union of `a` and `rest`.  Go is lazy here, `need` too; the union is the
                                           conservative static reading (sufficient, not necessary: `DefaultExpr.Expr`
                                           is listed although `DEFAULT` is printed without it when `Default` is set)
      hand-written bodies                  `OptionsDef`, `BracedConstructorField`: `Name`, `Value`; the others nothing
  `SqlBody.nonEmpty` lists the string fields passed to `token.QuoteSQLIdent` (which indexes `s[0]`).
  `SqlBody.needRest` is what remains of `need` once those fields are present / non-empty: slices without nil elements,
  `exprPrec` rows for `paren` operands and for the node itself, conditions evaluate.

  Pos()/End(): `ast/pos.go` is generated; every body is a term over the helpers of `ast/pos_util.go`, read back as a
  `GoPos` term (`MF/Model/Ast.lean`).  A single node field is only ever read as `nodePos(wrapNode(x.F))` /
  `nodeEnd(wrapNode(x.F))` / inside `nodeChoice(wrapNode(x.F), …)`: `wrapNode` turns a nil pointer (or nil interface)
  into the nil `Node`, `nodePos`/`nodeEnd`/`nodeChoice` test for nil.  Slices are read through `nodeSliceIndex(x.Fs, 0)` /
  `nodeSliceLast(x.Fs)`, which test `len(ns) == 0`.  So `GoPos.derefs` is empty for every recognised term
  (`posRequired_nil`), in agreement with `pos_end_total`, which needs `Shaped` only.  What pos_util.go is NOT safe against
  (none of it a single-node field being nil, all outside `requiredFields`):
    * a nil ELEMENT inside a node slice (`nodeSliceIndex` returns it as a non-nil interface, `n.Pos()` dereferences);
    * an interface-typed field holding a TYPED nil pointer (`wrapNode[T]` compares with the zero value of the INTERFACE);
    * `nodeSliceIndex(ns, i)` with `i ≥ len(ns)`, `i ≠ 0` (excluded by `PosTableOK`: the only index is the literal 0);
    * an unrecognised body (`GoPos.unrecognised`, excluded by `PosTableOK`; `derefs` then answers with a marker).
-/
import MF.Proofs.TreeSql
namespace MF.Ast

/-! ### SQL(): fields dereferenced unconditionally -/

def SqlE.required : SqlE → List String
  | .cat a b => a.required ++ b.required
  | .child f => [f]
  | .sqlOpt l _ r => l.required ++ r.required
  | .strOpt _ s => s.required
  | .strIfElse _ a b => a.required ++ b.required
  | .sqlJoin _ sep => sep.required
  | .paren _ f => [f]
  | .spaceAfterInt e => e.required
  | _ => []

def customRequired (name src : String) : List String :=
  if name == "BadNode" && src == srcBadNode then []
  else if name == "BadNode" && src == srcBadNodeC then []
  else if name == "OptionsDef" && src == srcOptionsDef then ["Name", "Value"]
  else if name == "BracedConstructorField" && src == srcBracedConstructorField then ["Name", "Value"]
  else if name == "ChangeStreamForTables" && src == srcChangeStreamForTables then []
  else []

def SqlBody.required : SqlBody → List String
  | .ret e => e.required
  | .letPrec rest => rest.required
  | .letStr _ e rest => e.required ++ rest.required
  | .ifRet _ a rest => a.required ++ rest.required
  | .custom name src => customRequired name src
  | .missing => []

/-! ### SQL(): string fields that must not be empty (`QuoteSQLIdent("")` indexes `s[0]`) -/

def SqlE.nonEmpty : SqlE → List String
  | .cat a b => a.nonEmpty ++ b.nonEmpty
  | .sqlOpt l _ r => l.nonEmpty ++ r.nonEmpty
  | .strOpt _ s => s.nonEmpty
  | .strIfElse _ a b => a.nonEmpty ++ b.nonEmpty
  | .sqlJoin _ sep => sep.nonEmpty
  | .quoteIdent f => [f]
  | .spaceAfterInt e => e.nonEmpty
  | _ => []

def SqlBody.nonEmpty : SqlBody → List String
  | .ret e => e.nonEmpty
  | .letPrec rest => rest.nonEmpty
  | .letStr _ e rest => e.nonEmpty ++ rest.nonEmpty
  | .ifRet _ a rest => a.nonEmpty ++ rest.nonEmpty
  | _ => []

/-- the string field `f` is present and not empty -/
def SqlCtx.strNonEmpty (c : SqlCtx) (f : String) : Bool :=
  match c.str f with
  | some s => !s.isEmpty
  | none => false

/-! ### SQL(): the remaining clauses of `need` -/

def SqlE.needRest (T : SqlTables) (c : SqlCtx) : SqlE → Bool
  | .cat a b => a.needRest T c && b.needRest T c
  | .sqlOpt l _ r => l.needRest T c && r.needRest T c
  | .strOpt _ s => s.needRest T c
  | .strIfElse _ a b => a.needRest T c && b.needRest T c
  | .sqlJoin f sep => sep.needRest T c && c.contig f
  | .paren _ f =>
    -- IF the operand is there, `exprPrec` has a row for its kind / Op
    match c.single f with
    | some (some k) => (T.exprPrecOf k.kind k.scalars).isSome
    | _ => true
  | .spaceAfterInt e => e.needRest T c
  | _ => true

def customNeedRest (c : SqlCtx) (name src : String) : Bool :=
  if name == "BadNode" && src == srcBadNode then true
  else if name == "BadNode" && src == srcBadNodeC then true
  else if name == "OptionsDef" && src == srcOptionsDef then true
  else if name == "BracedConstructorField" && src == srcBracedConstructorField then true
  else if name == "ChangeStreamForTables" && src == srcChangeStreamForTables then c.contig "Tables"
  else false

def SqlBody.needRest (T : SqlTables) (c : SqlCtx) : SqlBody → Bool
  | .ret e => e.needRest T c
  | .letPrec rest => (T.exprPrecOf c.kind c.scalars).isSome && rest.needRest T c
  | .letStr _ e rest => e.needRest T c && rest.needRest T c
  | .ifRet cd a rest =>
    match cd.eval T c with
    | some true => a.needRest T c
    | some false => rest.needRest T c
    | none => false
  | .custom name src => customNeedRest c name src
  | .missing => false

/-! ### Pos()/End(): single node fields read without a nil-safe helper -/

def GoNodeAtom.derefs : GoNodeAtom → List String
  | .wrapNode _ => []            -- `wrapNode(x.F)`: nil pointer / nil interface ↦ nil Node; `nodePos`/`nodeEnd`/`nodeChoice` test it
  | .nodeSliceIndex _ _ => []    -- a slice, guarded by `len(ns) == 0`
  | .nodeSliceLast _ => []

def GoNode.derefs : GoNode → List String
  | .atom a => a.derefs
  | .nodeChoice as => as.flatMap GoNodeAtom.derefs

def GoPosAtom.derefs : GoPosAtom → List String
  | .field _ => []
  | .nodePos e => e.derefs
  | .nodeEnd e => e.derefs

def GoPos.derefs : GoPos → List String
  | .term t => t.atom.derefs
  | .posChoice ts => ts.flatMap (fun t => t.atom.derefs)
  | .unrecognised _ => []        -- rejected by `PosTableOK`; nothing can be said about such a body

/-- the fields `Pos()` / `End()` of kind `k` dereference without a nil test -/
def posRequired (P : PosTables) (k : String) : List String :=
  match P.go.lookup k with
  | some (pe, ee) => pe.derefs ++ ee.derefs
  | none => []

/-! ### The table -/

/-- the single-node fields of kind `k` that `SQL()`, `Pos()` or `End()` dereference unconditionally -/
def requiredFields (T : SqlTables) (P : PosTables) (k : String) : List String :=
  ((match T.bodies.lookup k with
    | some b => b.required
    | none => []) ++ posRequired P k).eraseDups

/-- the string fields of kind `k` that must not be empty -/
def nonEmptyFields (T : SqlTables) (k : String) : List String :=
  match T.bodies.lookup k with
  | some b => b.nonEmpty.eraseDups
  | none => []

/-- the whole table, for display: kinds with at least one required / non-empty field -/
def requiredTable (T : SqlTables) (P : PosTables) : List (String × List String × List String) :=
  (T.kinds.map (fun d => (d.name, requiredFields T P d.name, nonEmptyFields T d.name))).filter
    (fun r => !r.2.1.isEmpty || !r.2.2.isEmpty)

/-! ### Trees in which every node carries its required fields -/

mutual
  /-- kind catalogued, scalars present, every field of `requiredFields` present, every field of `nonEmptyFields` a
      non-empty string, the remaining clauses of `need`; recursively -/
  def Node.reqShaped (T : SqlTables) (P : PosTables) : Node → Bool
    | .mk k sc kids =>
      T.kinds.any (·.name == k) && (T.fieldsOf k).all (sqlScalarOK sc) &&
        (requiredFields T P k).all (shapeCtx T k sc kids).present &&
        (nonEmptyFields T k).all (shapeCtx T k sc kids).strNonEmpty &&
        (match T.bodies.lookup k with
         | some b => b.needRest T (shapeCtx T k sc kids)
         | none => false) &&
        kids.reqShaped T P
  def Kids.reqShaped (T : SqlTables) (P : PosTables) : Kids → Bool
    | .nil => true
    | .cons _ _ n r => n.reqShaped T P && r.reqShaped T P
end

end MF.Ast
