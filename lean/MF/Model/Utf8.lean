/-
  MF.Model.Utf8 — Go's `unicode/utf8.DecodeRuneInString`, `utf8.EncodeRune`, `unicode.IsSpace`.
  Transcribed from the Go standard library algorithm (first-byte table + accept ranges).
-/
import MF.Model.Basic
namespace MF.Utf8

def runeError : Nat := 0xFFFD

/-- two-byte form, continuation accepted in 80..BF -/
def dec2 (b0 : Nat) (t : Bytes) : Nat × Nat :=
  match t with
  | s1 :: _ =>
    let b1 := s1.toNat
    if b1 < 0x80 || 0xBF < b1 then (runeError, 1)
    else ((b0 % 32) * 64 + (b1 % 64), 2)
  | _ => (runeError, 1)

/-- three-byte form; `E0` needs A0..BF, `ED` needs 80..9F (no surrogates) -/
def dec3 (b0 : Nat) (t : Bytes) : Nat × Nat :=
  let lo := if b0 == 0xE0 then 0xA0 else 0x80
  let hi := if b0 == 0xED then 0x9F else 0xBF
  match t with
  | s1 :: s2 :: _ =>
    let b1 := s1.toNat
    let b2 := s2.toNat
    if b1 < lo || hi < b1 then (runeError, 1)
    else if b2 < 0x80 || 0xBF < b2 then (runeError, 1)
    else ((b0 % 16) * 4096 + (b1 % 64) * 64 + (b2 % 64), 3)
  | _ => (runeError, 1)

/-- four-byte form; `F0` needs 90..BF, `F4` needs 80..8F -/
def dec4 (b0 : Nat) (t : Bytes) : Nat × Nat :=
  let lo := if b0 == 0xF0 then 0x90 else 0x80
  let hi := if b0 == 0xF4 then 0x8F else 0xBF
  match t with
  | s1 :: s2 :: s3 :: _ =>
    let b1 := s1.toNat
    let b2 := s2.toNat
    let b3 := s3.toNat
    if b1 < lo || hi < b1 then (runeError, 1)
    else if b2 < 0x80 || 0xBF < b2 then (runeError, 1)
    else if b3 < 0x80 || 0xBF < b3 then (runeError, 1)
    else ((b0 % 8) * 262144 + (b1 % 64) * 4096 + (b2 % 64) * 64 + (b3 % 64), 4)
  | _ => (runeError, 1)

/-- (rune, width).  Empty input: `(RuneError, 0)`; invalid: `(RuneError, 1)`. -/
def decodeRune (s : Bytes) : Nat × Nat :=
  match s with
  | [] => (runeError, 0)
  | s0 :: t =>
    let b0 := s0.toNat
    if b0 < 0x80 then (b0, 1)
    else if b0 < 0xC2 then (runeError, 1)
    else if b0 < 0xE0 then dec2 b0 t
    else if b0 < 0xF0 then dec3 b0 t
    else if b0 < 0xF5 then dec4 b0 t
    else (runeError, 1)

/-- `utf8.EncodeRune` / `bytes.Buffer.WriteRune` (surrogates and out-of-range become U+FFFD). -/
def encodeRune (r : Nat) : Bytes :=
  if r < 0x80 then [r.toUInt8]
  else if r < 0x800 then [(0xC0 + r / 64).toUInt8, (0x80 + r % 64).toUInt8]
  else if (0xD800 ≤ r && r ≤ 0xDFFF) || 0x10FFFF < r then [0xEF, 0xBF, 0xBD]
  else if r < 0x10000 then
    [(0xE0 + r / 4096).toUInt8, (0x80 + (r / 64) % 64).toUInt8, (0x80 + r % 64).toUInt8]
  else
    [(0xF0 + r / 262144).toUInt8, (0x80 + (r / 4096) % 64).toUInt8,
     (0x80 + (r / 64) % 64).toUInt8, (0x80 + r % 64).toUInt8]

/-- `unicode.IsSpace` -/
def isSpace (r : Nat) : Bool :=
  r == 0x09 || r == 0x0A || r == 0x0B || r == 0x0C || r == 0x0D || r == 0x20 ||
  r == 0x85 || r == 0xA0 || r == 0x1680 || (0x2000 ≤ r && r ≤ 0x200A) ||
  r == 0x2028 || r == 0x2029 || r == 0x202F || r == 0x205F || r == 0x3000

end MF.Utf8
