/-
  MF.Model.TypeParse — the `ParseType` entry point of `parser.go`, function for function:

    ParseType → parseType → parseSimpleType | parseNamedType (parseIdentOrPath, parseIdent)
                          | parseArrayType | parseStructType → parseStructTypeFields
                              → parseCommaSeparatedList(parseFieldType) → parseFieldType (lookaheadType) → parseType

  and of the type nodes of `ast/ast.go` (every field, position fields included), `ast/pos.go` (`Pos()`/`End()`),
  `ast/sql.go` (`SQL()`).

  State.  `PState` is the token list still in front of the parser: its HEAD is `p.Token` (the mutable current
  token), its tail is what the lexer delivers next (the Go parser lexes on demand; the lexer state depends on the
  previous token's kind only through `isNextDotIdent`, which does not distinguish `>>` from `>`, so the sequence is
  the one `MF.Lex.lexAll` produces).  `p.nextToken()` is `tail`; the in-place `>>` SPLIT of `parseArrayType` /
  `parseStructTypeFields` (`p.Token.Kind = ">"; p.Token.Raw = ">"; p.Token.Pos += 1`) REWRITES THE HEAD
  (`splitTok`): the state after a split is not a suffix of the input token list.  `Lexer.Clone()` / `p.Lexer = lexer`
  of `parseFieldType` is "keep the old state".  An empty list reads as `<eof>`.

  Results: `ok` | `raise` (the Go code panics with a syntax `*Error`: every such panic is caught by the `recover` of
  an enclosing `parseType`, appended to `p.errors`, and `ParseType` then returns a non-nil error whatever the
  recovery `handleParseTypeError` — modelled and proved in MF/Model/Handlers.lean — does afterwards) | `outOfFuel`.
  No Go run-time panic is possible in these functions (no index, no nil dereference), so there is no `crash`.

  One Lean function per Go function and per Go loop; all recursive ones take `fuel` first (matched OUTERMOST).
-/
import MF.Model.Lexer
import MF.Model.Quote
namespace MF.TypeP

/-! ## token classes -/

/-- what the type parser distinguishes about `p.Token.Kind` -/
inductive TK
  | eof | ident | array | struct_ | lt | gt | shr | ltgt | comma | dot | other
  deriving DecidableEq, Repr, Inhabited

def symTable : List (String × TK) := [
  ("ARRAY", .array), ("STRUCT", .struct_), ("<", .lt), (">", .gt), (">>", .shr), ("<>", .ltgt), (",", .comma), (".", .dot)]

def symTK (s : Bytes) : TK :=
  match symTable.find? (fun p => B p.1 == s) with
  | some p => p.2
  | none => .other

def tk : TokKind → TK
  | .eof => .eof | .ident => .ident
  | .sym s => symTK s
  | _ => .other

/-- the parser state: head = `p.Token`, tail = the tokens the lexer delivers next -/
abbrev PState := List Token

/-- `p.Token.Kind` (as a class); past the end of the list the lexer keeps answering `<eof>` -/
def cur : PState → TK
  | t :: _ => tk t.kind
  | [] => .eof

/-- `p.Token` -/
def hd (ts : PState) : Token := ts.headD {}

/-- the `>>` split: `p.Token.Kind = ">"; p.Token.Raw = ">"; p.Token.Pos += 1` (`End`, `Space`, `Comments`, `AsString` stay) -/
def splitTok (t : Token) : Token := { t with kind := K ">", raw := B ">", pos := t.pos + 1 }

/-! ## the AST: `ast.Ident`, `ast.SimpleType`, `ast.NamedType`, `ast.ArrayType`, `ast.StructType`, `ast.StructField` -/

/-- `ast.Ident{NamePos, NameEnd, Name}` -/
structure Ident where
  namePos : Nat
  nameEnd : Nat
  name : Bytes
  deriving DecidableEq, Repr, Inhabited

mutual
inductive Ty
  /-- `SimpleType{NamePos, Name}` -/
  | simple (namePos : Nat) (name : Bytes)
  /-- `NamedType{Path}` -/
  | named (path : List Ident)
  /-- `ArrayType{Array, Gt, Item}` -/
  | array (array gt : Nat) (item : Ty)
  /-- `StructType{Struct, Gt, Fields}` -/
  | struct (struct_ gt : Nat) (fields : Fields)
/-- `[]*StructField`; `cons ident type rest` is `&StructField{Ident, Type}` followed by `rest` -/
inductive Fields
  | nil
  | cons (ident : Option Ident) (type : Ty) (rest : Fields)
end

instance : Inhabited Ty := ⟨.named []⟩

/-! ## results -/

inductive Res (α : Type) where
  | ok (a : α)
  | raise
  | outOfFuel
  deriving Repr

def Res.bind {α β : Type} : Res α → (α → Res β) → Res β
  | .ok a, k => k a
  | .raise, _ => .raise
  | .outOfFuel, _ => .outOfFuel

/-! ## leaf productions -/

/-- `p.expect(kind)`: the (cloned) token and the state after `nextToken` -/
def expect (k : TK) (ts : PState) : Res (Token × PState) :=
  if cur ts = k then .ok (hd ts, ts.tail) else .raise

/-- `var simpleTypes` -/
def simpleTypes : List Bytes :=
  ["BOOL", "INT64", "FLOAT32", "FLOAT64", "DATE", "TIMESTAMP", "NUMERIC", "STRING", "BYTES", "JSON", "TOKENLIST"].map B

/-- `for _, typeName := range simpleTypes { if id.IsIdent(typeName) {…} }`: the first table entry the token reads as -/
def simpleName? (t : Token) : Option Bytes := simpleTypes.find? (fun n => t.isIdent n)

/-- `p.lookaheadToken().Kind` (as a class): the token AFTER the current one; the lexer is cloned and restored, so the
state does not change -/
def lookaheadKind (ts : PState) : TK := cur ts.tail

/-- `lookaheadSimpleType`: the current identifier reads as a simple type name AND is not followed by `.` (a scalar type
name followed by `.` is the first component of a named type: `date.T`) -/
def lookaheadSimpleType (ts : PState) : Bool :=
  if cur ts ≠ .ident then false
  else if (simpleName? (hd ts)).isSome then lookaheadKind ts != .dot else false

/-- `lookaheadType` -/
def lookaheadType (ts : PState) : Bool :=
  cur ts == .ident || cur ts == .array || cur ts == .struct_

/-- `parseSimpleType` -/
def parseSimpleType (ts : PState) : Res (Ty × PState) :=
  (expect .ident ts).bind fun p =>
    match simpleName? p.1 with
    | some n => .ok (.simple p.1.pos n, p.2)
    | none => .raise

/-- `parseIdent` -/
def parseIdent (ts : PState) : Res (Ident × PState) :=
  (expect .ident ts).bind fun p => .ok (⟨p.1.pos, p.1.end, p.1.asString⟩, p.2)

/-- the closing `>` of `parseArrayType` and of `parseStructTypeFields` (the same nine lines in both):
`if p.Token.Kind == ">>" { split; gt = old Pos } else { gt = p.expect(">").Pos }` -/
def parseGt (ts : PState) : Res (Nat × PState) :=
  if cur ts = .shr then .ok ((hd ts).pos, splitTok (hd ts) :: ts.tail)
  else (expect .gt ts).bind fun p => .ok (p.1.pos, p.2)

/-! ## the recursive productions -/

/-- the `for p.Token.Kind == "."` loop of `parseIdentOrPath` (returns the identifiers it appends) -/
def pathLoop : Nat → PState → Res (List Ident × PState)
  | 0, _ => .outOfFuel
  | f + 1, ts =>
    if cur ts = .dot then
      (parseIdent ts.tail).bind fun p => (pathLoop f p.2).bind fun q => .ok (p.1 :: q.1, q.2)
    else .ok ([], ts)

/-- `parseIdentOrPath` -/
def parseIdentOrPath (f : Nat) (ts : PState) : Res (List Ident × PState) :=
  (parseIdent ts).bind fun p => (pathLoop f p.2).bind fun q => .ok (p.1 :: q.1, q.2)

/-- `parseNamedType` -/
def parseNamedType (f : Nat) (ts : PState) : Res (Ty × PState) :=
  (parseIdentOrPath f ts).bind fun p => .ok (.named p.1, p.2)

mutual

/-- `parseType` (its `recover` is the `raise` result) -/
def parseType : Nat → PState → Res (Ty × PState)
  | 0, _ => .outOfFuel
  | f + 1, ts =>
    match cur ts with
    | .ident => if !lookaheadSimpleType ts then parseNamedType f ts else parseSimpleType ts
    | .array => parseArrayType f ts
    | .struct_ => parseStructType f ts
    | _ => .raise

/-- `parseArrayType` -/
def parseArrayType : Nat → PState → Res (Ty × PState)
  | 0, _ => .outOfFuel
  | f + 1, ts =>
    (expect .array ts).bind fun a =>
    (expect .lt a.2).bind fun l =>
    (parseType f l.2).bind fun t =>
    (parseGt t.2).bind fun g => .ok (.array a.1.pos g.1 t.1, g.2)

/-- `parseStructType` -/
def parseStructType : Nat → PState → Res (Ty × PState)
  | 0, _ => .outOfFuel
  | f + 1, ts =>
    (expect .struct_ ts).bind fun s =>
    if cur s.2 ≠ .lt ∧ cur s.2 ≠ .ltgt then .raise
    else (parseStructTypeFields f s.2).bind fun r => .ok (.struct s.1.pos r.1.2 r.1.1, r.2)

/-- `parseStructTypeFields`: the fields and the position of the closing `>` -/
def parseStructTypeFields : Nat → PState → Res ((Fields × Nat) × PState)
  | 0, _ => .outOfFuel
  | f + 1, ts =>
    if cur ts = .ltgt then .ok ((.nil, (hd ts).pos + 1), ts.tail)
    else
      (expect .lt ts).bind fun l =>
      (if cur l.2 ≠ .gt ∧ cur l.2 ≠ .shr then parseFieldList f l.2 else .ok (.nil, l.2)).bind fun fs =>
      (parseGt fs.2).bind fun g => .ok ((fs.1, g.1), g.2)

/-- `parseCommaSeparatedList(p, p.parseFieldType)` -/
def parseFieldList : Nat → PState → Res (Fields × PState)
  | 0, _ => .outOfFuel
  | f + 1, ts =>
    (parseFieldType f ts).bind fun x =>
    (fieldLoop f x.2).bind fun r => .ok (.cons x.1.1 x.1.2 r.1, r.2)

/-- the `for p.Token.Kind == ","` loop of `parseCommaSeparatedList` (returns the nodes it appends) -/
def fieldLoop : Nat → PState → Res (Fields × PState)
  | 0, _ => .outOfFuel
  | f + 1, ts =>
    if cur ts = .comma then
      (parseFieldType f ts.tail).bind fun x =>
      (fieldLoop f x.2).bind fun r => .ok (.cons x.1.1 x.1.2 r.1, r.2)
    else .ok (.nil, ts)

/-- `parseFieldType`: `name type` when an identifier is followed by something that can start a type, else (the lexer
is restored) `type` -/
def parseFieldType : Nat → PState → Res ((Option Ident × Ty) × PState)
  | 0, _ => .outOfFuel
  | f + 1, ts =>
    if cur ts = .ident ∧ lookaheadType ts.tail then
      (parseIdent ts).bind fun i => (parseType f i.2).bind fun t => .ok ((some i.1, t.1), t.2)
    else (parseType f ts).bind fun t => .ok ((none, t.1), t.2)

end

/-- `ParseType` after `nextTokenOrBad`: `parseType`, then the `<eof>` check (a leftover token is an error) -/
def parseTypeTop (fuel : Nat) (ts : PState) : Res Ty :=
  (parseType fuel ts).bind fun p => if cur p.2 = .eof then .ok p.1 else .raise

/-- fuel used by the driver: every call consumes one unit and every call chain between two consumed tokens is
shorter than 6 -/
def topFuel (ts : PState) : Nat := 6 * (ts.length + 2)

/-! ## `ast/pos.go` -/

/-- `SimpleType.End = NamePos + len(Name)`; `ArrayType.End = Gt + 1`; `StructType.End = Gt + 1`;
`NamedType.Pos = Path[0].pos`, `NamedType.End = Path[$].end` (an empty path is a nil dereference in Go: never built) -/
def posT : Ty → Nat
  | .simple p _ => p
  | .named path => (path.head?.map (·.namePos)).getD 0
  | .array a _ _ => a
  | .struct s _ _ => s

def endT : Ty → Nat
  | .simple p n => p + n.length
  | .named path => (path.getLast?.map (·.nameEnd)).getD 0
  | .array _ gt _ => gt + 1
  | .struct _ gt _ => gt + 1

/-- `StructField.Pos = (Ident ?? Type).pos` -/
def posF (i : Option Ident) (t : Ty) : Nat :=
  match i with
  | some i => i.namePos
  | none => posT t

/-- `StructField.End = Type.end` -/
def endF (_ : Option Ident) (t : Ty) : Nat := endT t

/-! ## `ast/sql.go` -/

/-- `unicode.IsPrint` on ASCII (the TYPE channel stays inside ASCII for identifier content that needs quoting) -/
def asciiPrint (r : Nat) : Bool := 0x20 ≤ r && r ≤ 0x7E

/-- `Ident.SQL()`; the empty name (an index panic in `needQuoteSQLIdent`) cannot come from the lexer -/
def identSQL (i : Ident) : Bytes := (Quote.quoteIdent asciiPrint i.name).getD []

/-- `sqlJoin(idents, ".")` -/
def pathSQL : List Ident → Bytes
  | [] => []
  | [a] => identSQL a
  | a :: rest => identSQL a ++ B "." ++ pathSQL rest

/-- `sqlOpt("", f.Ident, " ")` -/
def fieldNameSQL : Option Ident → Bytes
  | some i => identSQL i ++ B " "
  | none => []

mutual
/-- the `SQL()` methods of the type nodes -/
def sqlT : Ty → Bytes
  | .simple _ n => n
  | .named path => pathSQL path
  | .array _ _ item => B "ARRAY<" ++ sqlT item ++ B ">"
  | .struct _ _ fs => B "STRUCT<" ++ sqlFs fs ++ B ">"
/-- `sqlJoin(s.Fields, ", ")` with `StructField.SQL() = sqlOpt("", f.Ident, " ") + f.Type.SQL()` -/
def sqlFs : Fields → Bytes
  | .nil => []
  | .cons i t rest => fieldNameSQL i ++ sqlT t ++ sqlMore rest
/-- the elements of `sqlJoin` after the first (each preceded by the separator) -/
def sqlMore : Fields → Bytes
  | .nil => []
  | .cons i t rest => B ", " ++ fieldNameSQL i ++ sqlT t ++ sqlMore rest
end

/-- `StructField.SQL()` -/
def sqlF (i : Option Ident) (t : Ty) : Bytes := fieldNameSQL i ++ sqlT t

/-! ## s-expression dump for the TYPE line protocol: every field, every position, and `Pos()`/`End()` of every node -/

def hxs (b : Bytes) : String := if b.isEmpty then "-" else toHex b

def identSexp (i : Ident) : String :=
  "(id " ++ toString i.namePos ++ " " ++ toString i.nameEnd ++ " " ++ hxs i.name ++ ")"

mutual
def sexpT : Ty → String
  | .simple p n => "(simple " ++ toString p ++ " " ++ hxs n ++ ")@" ++ toString p ++ ":" ++ toString (p + n.length)
  | .named path =>
    "(named" ++ String.join (path.map fun i => " " ++ identSexp i) ++ ")@" ++ toString (posT (.named path)) ++ ":"
      ++ toString (endT (.named path))
  | .array a gt item =>
    "(array " ++ toString a ++ " " ++ toString gt ++ " " ++ sexpT item ++ ")@" ++ toString a ++ ":" ++ toString (gt + 1)
  | .struct s gt fs =>
    "(struct " ++ toString s ++ " " ++ toString gt ++ sexpFs fs ++ ")@" ++ toString s ++ ":" ++ toString (gt + 1)
def sexpFs : Fields → String
  | .nil => ""
  | .cons i t rest =>
    " (field " ++ (match i with | some i => identSexp i | none => "-") ++ " " ++ sexpT t ++ ")@" ++ toString (posF i t)
      ++ ":" ++ toString (endF i t) ++ sexpFs rest
end

/-- the TYPE request: lex, parse, dump -/
def typeRun (buf : Bytes) : String :=
  match Lex.lexAll buf with
  | .ok ts =>
    match parseTypeTop (topFuel ts) ts with
    | .ok t => "OK " ++ sexpT t ++ " " ++ hxs (sqlT t) ++ " " ++ toString (posT t) ++ " " ++ toString (endT t)
    | .raise => "ERR"
    | .outOfFuel => "FUEL"
  | .err _ _ => "ERR"
  | .crash _ => "CRASH"

end MF.TypeP
