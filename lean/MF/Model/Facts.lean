/-
  Types of the facts that `tools/extract/parserfacts.go` reads out of parser.go, parse_helpers.go, lexer.go,
  split.go (and, for the ownership facts, out of all non-test files of the four packages) on every run, and the
  translation of the call-graph facts into a program of the recovery calculus (`MF/Model/Recovery.lean`).

  Functions are numbered in the order of the table `Gen.ParserFacts.funcs` (a function's `id` is its index);
  the calculus refers to functions by that number because the kernel compares numbers fast and strings slowly.
  Names: methods are `Recv.name` (`Parser.nextToken` and `Lexer.nextToken` are different functions), package-level
  functions are `name`.
-/
import MF.Model.Recovery
namespace MF.Facts
open MF.Recovery

/-- what a stretch of a function body mentions (flow-insensitive), and — for handler code and the functions handler
    code calls — its structure (`code`) -/
structure Part where
  /-- in-package functions called or passed as function values (ids) -/
  callees : List Nat := []
  /-- calls that leave the four files: other packages, methods of `token.Token`/`token.File`, conversions are omitted -/
  ext : List String := []
  /-- `raisesDirectly`: `panic(x)` where `x` is not the recovered value, or a call of a `panicf…` method -/
  raises : Bool := false
  /-- `panic(r)` re-raising a recovered value that is not an `*Error` -/
  rethrows : Bool := false
  /-- `callsLexPanicMode`: `p.nextToken()` (also recorded as a call of `Parser.nextToken`), `l.nextToken(false)`,
      `p.Lexer.nextToken(false)`, or `Lexer.nextToken` with an argument that is not the literal `true` -/
  lexPanic : Bool := false
  /-- `Lexer.nextToken(true)` -/
  lexRecover : Bool := false
  /-- assignments `x.errors = append(x.errors, e)` -/
  errAppends : Nat := 0
  /-- all other assignments to `x.errors` -/
  errOther : Nat := 0
  /-- kinds of the `ast.Bad…{…}` literals -/
  bads : List String := []
  code : Option Code := none
  deriving Repr, Inhabited

inductive Role where
  | entry         -- exported `Parser.Parse…`
  | helperEntry   -- exported `Parse…` of parse_helpers.go
  | stmtList      -- `parseStatements`
  | handler       -- `handleError`, `handleParse…Error`
  | lookahead     -- name starts with `lookahead`
  | lexer         -- declared in lexer.go / split.go
  | production    -- every other function of parser.go / parse_helpers.go
  deriving Repr, DecidableEq, Inhabited

structure FuncFact where
  id : Nat
  name : String
  file : String
  recv : String := ""
  exported : Bool := false
  generic : Bool := false
  role : Role := .production
  /-- statements in front of the recognised `defer … recover` (empty for unprotected functions) -/
  pre : Part := {}
  body : Part := {}
  /-- `some`: the function has the top-level shape `defer func(){ if r := recover(); r != nil { … } }()` -/
  handler : Option Part := none
  /-- the one `handle…Error` method the handler calls ("" if none or several) -/
  handlerFn : String := ""
  /-- the `Bad*` literal the handler wraps the result in ("" if none) -/
  wrapper : String := ""
  /-- contents of the other `defer`s -/
  plainDefers : List Part := []
  /-- a `recover()` outside the recognised shape -/
  oddRecover : Bool := false
  /-- calls through function-typed parameters or variables (`doParse()`) -/
  dynCalls : List String := []
  /-- every such call is a call of a function-typed PARAMETER of the function itself -/
  dynOnlyParams : Bool := true
  deriving Repr, Inhabited

def FuncFact.protected (f : FuncFact) : Bool := f.handler.isSome

inductive PartKind where
  | pre | body | handler | defer
  deriving Repr, DecidableEq, Inhabited

structure BadLit where
  kind : String
  func : Nat
  funcName : String
  part : PartKind
  inLoop : Bool
  line : Nat
  deriving Repr, Inhabited

structure EntryShape where
  name : String
  id : Nat
  shape : List EntryStmt
  deriving Repr, Inhabited

/-- `func ParseX(filepath, s string) (…, error) { return newParser(filepath, s).ParseX() }` -/
structure HelperShape where
  name : String
  id : Nat
  /-- id of the `Parser` method the body tail-calls on a fresh parser; `none` = unrecognised body -/
  delegate : Option Nat
  deriving Repr, Inhabited

inductive CmpOp where
  | eq | ne
  deriving Repr, DecidableEq, Inhabited

inductive EofCtx where
  | forCond       -- the whole condition of a `for`
  | forConjunct   -- an operand of the `&&` chain that is the condition of a `for`
  | ifCond        -- (part of) the condition of an `if`
  | other
  deriving Repr, DecidableEq, Inhabited

structure EofSite where
  func : Nat
  funcName : String
  op : CmpOp
  ctx : EofCtx
  line : Nat
  deriving Repr, Inhabited

inductive TokSel where
  | raw | asString | space | comments
  deriving Repr, DecidableEq, Inhabited

inductive UseClass where
  | errorArg      -- inside an argument of an `errorf…`/`panicf…` call
  | nodeValue     -- value of a field of an `ast.X{…}` literal (detail = `X.Field`) or assigned to a node field
  | keywordTest   -- argument of `EqualFold`/`IsKeywordLike`/`IsIdent`, or inside their definitions
  | write         -- the selector is assigned to (detail = right-hand side)
  | other
  deriving Repr, DecidableEq, Inhabited

structure TokenUse where
  file : String
  funcName : String
  sel : TokSel
  recv : String
  /-- the syntactic type inference found the receiver to be a `token.Token` -/
  recvIsToken : Bool
  cls : UseClass
  detail : String
  line : Nat
  deriving Repr, Inhabited

inductive ErrShape where
  | appendOne     -- exactly `x.errors = append(x.errors, e)`
  | other
  deriving Repr, DecidableEq, Inhabited

structure ErrWrite where
  funcName : String
  shape : ErrShape
  pos : String
  src : String
  deriving Repr, Inhabited

structure FuncValueUse where
  funcName : String
  value : String
  /-- callee the value is a direct argument of ("" = any other context) -/
  argOf : String
  /-- that callee only ever calls the corresponding parameter -/
  paramOnlyCalled : Bool
  deriving Repr, Inhabited

structure PkgVar where
  pkg : String
  name : String
  file : String
  deriving Repr, Inhabited

structure VarWrite where
  pkg : String
  var : String
  funcName : String
  pos : String
  /-- `assign` | `incdec` | `addr` (address taken) -/
  how : String
  deriving Repr, Inhabited

structure GoStmt where
  pkg : String
  funcName : String
  pos : String
  deriving Repr, Inhabited

structure ImportUse where
  pkg : String
  file : String
  path : String
  deriving Repr, Inhabited

/-! ## translation into the recovery calculus -/

/-- everything the part mentions, as atomic actions -/
def Part.atoms (p : Part) : List Code :=
  p.callees.map .call ++
  (if p.raises then [.raise] else []) ++
  (if p.lexPanic then [.lex true] else []) ++
  (if p.lexRecover then [.lex false] else []) ++
  (if p.errAppends > 0 then [.appendErr] else []) ++
  (if p.errOther > 0 then [.clobberErrs] else []) ++
  p.bads.map .mkBad ++ [.havoc]

/-- the structured code if the extractor produced one, otherwise "any sequence of the mentioned actions" -/
def Part.toCode (p : Part) : Code :=
  match p.code with
  | some c => c
  | none => .loop (anyOf p.atoms)

def FuncFact.toFunDef (f : FuncFact) : FunDef :=
  { pre := f.pre.toCode, body := f.body.toCode, handler := f.handler.map Part.toCode }

def toProg (fs : List FuncFact) : Prog := fs.map FuncFact.toFunDef

/-- ids are positions -/
def idsOK (fs : List FuncFact) : Bool := fs.map (·.id) == List.range fs.length

def Part.inert (p : Part) : Bool :=
  p.callees.isEmpty && !p.raises && !p.rethrows && !p.lexPanic && !p.lexRecover && p.errAppends == 0 &&
    p.errOther == 0 && p.bads.isEmpty

/-- side conditions under which `toProg` is a faithful abstraction: no `recover()` outside the recognised shape,
    the other `defer`s do nothing the machine observes (they restore the lexer) -/
def hygiene (fs : List FuncFact) : Bool :=
  idsOK fs && fs.all fun f => !f.oddRecover && f.plainDefers.all Part.inert && f.dynOnlyParams

def nameOf (fs : List FuncFact) (i : Nat) : String := match fs[i]? with | some f => f.name | none => "<undefined>"

end MF.Facts
