/-
  MF.Model.Ast — a generic tree for all ~264 node kinds of `ast/ast.go`, and the catalogue types the
  regenerated tables (`MF/Gen/*.lean`) are written in.

  A node is its kind name, its scalar fields (positions, booleans, strings, enum strings, ints, byte strings,
  token lists) and its node-typed children in declaration order.  A single child is one entry with index `none`
  (an absent / nil child has no entry); a slice child with elements contributes one entry per element with its
  index.  The two inductive types are plainly mutual (no nesting through `List`), so structural recursion and
  induction are available.
-/
import MF.Model.Token
namespace MF.Ast

structure TokRec where
  kind : Bytes
  raw : Bytes
  space : Bytes
  comments : List (Bytes × Bytes)   -- (space, raw)
  pos : Int
  «end» : Int
  deriving Repr, DecidableEq, Inhabited

inductive Scalar where
  | pos (p : Int)
  | bool (b : Bool)
  | int (n : Int)
  | str (s : Bytes)        -- string, enum (its string value), []byte
  | toks (ts : List TokRec)
  deriving Repr, DecidableEq, Inhabited

mutual
  inductive Node where
    | mk (kind : String) (scalars : List (String × Scalar)) (kids : Kids)
  inductive Kids where
    | nil
    | cons (field : String) (idx : Option Nat) (node : Node) (rest : Kids)
end

instance : Inhabited Node := ⟨.mk "" [] .nil⟩

def Node.kind : Node → String | .mk k _ _ => k
def Node.scalars : Node → List (String × Scalar) | .mk _ s _ => s
def Node.kids : Node → Kids | .mk _ _ k => k

def Kids.toList : Kids → List (String × Option Nat × Node)
  | .nil => []
  | .cons f i n r => (f, i, n) :: r.toList

def Kids.ofList : List (String × Option Nat × Node) → Kids
  | [] => .nil
  | (f, i, n) :: r => .cons f i n (Kids.ofList r)

mutual
  def Node.size : Node → Nat
    | .mk _ _ kids => 1 + kids.size
  def Kids.size : Kids → Nat
    | .nil => 0
    | .cons _ _ n r => n.size + r.size
end

/-- how a struct field of `ast.go` is typed -/
inductive FieldClass where
  | pos | bool | int | str | enum | bytes | toks
  | node          -- `*T` or an interface: a single, possibly absent child
  | nodes         -- `[]*T` / `[]I`: a slice of children
  | other
  deriving Repr, DecidableEq, Inhabited

structure FieldDecl where
  name : String
  cls : FieldClass
  goType : String
  deriving Repr, DecidableEq, Inhabited

/-! ### The POS expression language of the node documentation (`// pos = …`, `// end = …`) -/

inductive IntE where
  | lit (n : Nat)
  | len (field : String)
  | ite (cond : String) (a b : IntE)
  deriving Repr, DecidableEq, Inhabited

inductive NodeE where
  | var (field : String)
  | idx (field : String) (i : IntE)
  | last (field : String)
  deriving Repr, DecidableEq, Inhabited

/-- `NodeExpr`: a single atom or a `(a ?? b ?? …)` chain (kept flat: the grammar does not nest choices) -/
structure NodeChoice where
  alts : List NodeE
  paren : Bool          -- written as a `( … ?? … )` chain (emitted with `nodeChoice`)
  deriving Repr, DecidableEq, Inhabited

inductive PosAtom where
  | var (field : String)
  | nodePos (e : NodeChoice)
  | nodeEnd (e : NodeChoice)
  deriving Repr, DecidableEq, Inhabited

/-- `PosExpr -> PosAtom ("+" IntAtom)*` -/
structure PosTerm where
  atom : PosAtom
  adds : List IntE
  deriving Repr, DecidableEq, Inhabited

/-- `PosChoice -> PosExpr ("||" PosExpr)*` -/
structure PosE where
  alts : List PosTerm
  deriving Repr, DecidableEq, Inhabited

/-! ### What `ast/pos.go` contains, read back as terms over the helper functions of `pos_util.go` -/

inductive GoInt where
  | lit (n : Nat)
  | len (field : String)
  | ifThenElse (cond : String) (a b : GoInt)
  deriving Repr, DecidableEq, Inhabited

inductive GoNodeAtom where
  | wrapNode (field : String)
  | nodeSliceIndex (field : String) (i : GoInt)
  | nodeSliceLast (field : String)
  deriving Repr, DecidableEq, Inhabited

inductive GoNode where
  | atom (a : GoNodeAtom)
  | nodeChoice (alts : List GoNodeAtom)
  deriving Repr, DecidableEq, Inhabited

inductive GoPosAtom where
  | field (f : String)
  | nodePos (e : GoNode)
  | nodeEnd (e : GoNode)
  deriving Repr, DecidableEq, Inhabited

/-- `posAdd(posAdd(atom, a₁), a₂) …` -/
structure GoPosTerm where
  atom : GoPosAtom
  adds : List GoInt
  deriving Repr, DecidableEq, Inhabited

inductive GoPos where
  | term (t : GoPosTerm)
  | posChoice (alts : List GoPosTerm)
  | unrecognised (src : String)
  deriving Repr, DecidableEq, Inhabited

/-- one push of `walk_internal.go`: `stack = append(stack, &stackItem{node|nodes: wrap…(n.F), visitor: v.Field("G")})` -/
structure WalkPush where
  field : String        -- F: the struct field read
  many : Bool           -- `nodes:` / `wrapNodes`
  label : String        -- G: the name passed to `v.Field`
  deriving Repr, DecidableEq, Inhabited

structure KindDecl where
  name : String
  fields : List FieldDecl
  ifaces : List String          -- node interfaces the struct implements (`isExpr`, …)
  deriving Repr, DecidableEq, Inhabited

end MF.Ast
