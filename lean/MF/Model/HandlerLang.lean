/-
  MF.Model.HandlerLang — the statement language into which `tools/extract/handlers.go` TRANSLATES the `switch
  p.Token.Kind` of the four recovery handlers of parser.go on every run (`MF/Gen/HandlersGo.lean`), with its
  semantics.  `MF/Proofs/HandlerLang.lean` proves that the hand-written `Handlers.action` (about which the theorems
  of C10 are proved) IS the interpretation of the translated switch.

  Go semantics covered: the cases of a `switch` on a string are tried in order (at most one label can match, labels
  are constants), no fall-through; `nesting` is a Go `int`: a decrement below zero is NOT modelled (`none`) — the
  regenerated switch must be shown never to do it.
-/
import MF.Model.Handlers
namespace MF.HandlerLang
open MF MF.Lex MF.Handlers

inductive HStmt
  | stop                                   -- `break skip`
  | split                                  -- `p.Token.Kind = ">"; p.Token.Pos += 1; break skip`
  | add (k : Nat)                          -- `nesting += k`
  | sub (k : Nat)                          -- `nesting -= k`
  | ifEqStop (needSimple : Bool) (v : Nat) -- `if [simple &&] nesting == v { break skip }`
  | ifEqSplit (v : Nat)                    -- `if nesting == v { …split… }`
  | unknown (text : String)
  deriving DecidableEq, Repr

structure HCase where
  toks : List String
  body : List HStmt
  deriving DecidableEq, Repr

/-- a handler as read from parser.go: name, "the skip-loop frame has the known shape", "declares nesting := 0",
    the cases of the switch in source order -/
structure HFn where
  name : String
  frame : Bool
  nesting : Bool
  cases : List HCase
  deriving DecidableEq, Repr

/-- run a case body from nesting `n`; falling off the end leaves the switch: the token is taken -/
def exec (simple : Bool) : List HStmt → Nat → Option Act
  | [], n => some (.take n)
  | .stop :: _, _ => some .stop
  | .split :: _, _ => some .split
  | .add k :: r, n => exec simple r (n + k)
  | .sub k :: r, n => if n < k then none else exec simple r (n - k)
  | .ifEqStop need v :: r, n => if (!need || simple) && n == v then some .stop else exec simple r n
  | .ifEqSplit v :: r, n => if n == v then some .split else exec simple r n
  | .unknown _ :: _, _ => none

/-- the switch: first case with a matching label; no case: leave the switch -/
def run (simple : Bool) : List HCase → Nat → TokKind → Option Act
  | [], n, _ => some (.take n)
  | c :: cs, n, k => if isK k c.toks then exec simple c.body n else run simple cs n k

def goName : HKind → String
  | .statement => "handleParseStatementError"
  | .query _ => "handleParseQueryExprError"
  | .expr => "handleParseExprError"
  | .type => "handleParseTypeError"

def isSimple : HKind → Bool
  | .query s => s
  | _ => false

def casesOf (hs : List HFn) (h : HKind) : List HCase :=
  match hs.find? (·.name == goName h) with
  | some f => f.cases
  | none => [⟨[], [.unknown "no such handler"]⟩]

/-- the interpretation of the translated switch of handler `h` -/
def actionGo (hs : List HFn) (h : HKind) (n : Nat) (k : TokKind) : Option Act :=
  run (isSimple h) (casesOf hs h) n k

/-- every handler was found and its loop frame has the known shape (`pos := p.Token.Pos; end := p.Token.Pos;
    [nesting := 0]; skip: for p.Token.Kind != <eof> { switch; end = p.Token.End / tokens = append(…, Clone());
    p.Lexer.nextToken(true) }; return the Bad node with NodePos: pos, NodeEnd: end, Tokens: tokens`), a handler that
    uses `nesting` declares it, labels are pairwise distinct inside a switch and there is no `default` -/
def framesOK (hs : List HFn) : Bool :=
  hs.map (·.name) == ["handleParseStatementError", "handleParseQueryExprError", "handleParseExprError", "handleParseTypeError"] &&
  hs.all (fun f => f.frame &&
    (f.nesting || f.cases.all (fun c => c.body.all (fun s => s == .stop))) &&
    (f.cases.flatMap (·.toks)).eraseDups.length == (f.cases.flatMap (·.toks)).length &&
    !(f.cases.flatMap (·.toks)).contains "<default>")

end MF.HandlerLang
