/-
  MF.Model.Token — `token/token.go`, `token/keywords.go`.
-/
import MF.Model.Char
namespace MF

/-- `token.TokenKind` is a Go string; the eight special kinds are constructors, every keyword
and punctuation kind is `sym` of its spelling (what Go stores). -/
inductive TokKind
  | bad | eof | ident | param | int | float | string | bytes
  | sym (s : Bytes)
  deriving DecidableEq, Repr, Inhabited

namespace TokKind
def toBytes : TokKind → Bytes
  | bad => B "<bad>" | eof => B "<eof>" | ident => B "<ident>" | param => B "<param>"
  | int => B "<int>" | float => B "<float>" | string => B "<string>" | bytes => B "<bytes>"
  | sym s => s
end TokKind

/-- shorthand for keyword / punctuation kinds -/
def K (s : String) : TokKind := .sym (B s)

structure Comment where
  space : Bytes
  raw : Bytes
  pos : Nat
  «end» : Nat
  deriving DecidableEq, Repr, Inhabited

structure Token where
  kind : TokKind := .sym []
  comments : List Comment := []
  space : Bytes := []
  raw : Bytes := []
  asString : Bytes := []
  base : Nat := 0
  pos : Nat := 0
  «end» : Nat := 0
  deriving DecidableEq, Repr, Inhabited

def Token.isIdent (t : Token) (s : Bytes) : Bool := t.kind == .ident && Char.equalFold t.asString s
def Token.isKeywordLike (t : Token) (s : Bytes) : Bool := t.kind == .ident && Char.equalFold t.raw s

/-- The 96 reserved words of the GoogleSQL lexical structure page.  `MF/Gen/Keywords.lean` is
regenerated from `token/keywords.go` and compared with this list on every run. -/
def reservedStrs : List String := [
  "ALL", "AND", "ANY", "ARRAY", "AS", "ASC", "ASSERT_ROWS_MODIFIED", "AT", "BETWEEN", "BY",
  "CASE", "CAST", "COLLATE", "CONTAINS", "CREATE", "CROSS", "CUBE", "CURRENT", "DEFAULT",
  "DEFINE", "DESC", "DISTINCT", "ELSE", "END", "ENUM", "ESCAPE", "EXCEPT", "EXCLUDE", "EXISTS",
  "EXTRACT", "FALSE", "FETCH", "FOLLOWING", "FOR", "FROM", "FULL", "GRAPH_TABLE", "GROUP",
  "GROUPING", "GROUPS", "HASH", "HAVING", "IGNORE", "IF", "IN", "INNER", "INTERSECT", "INTERVAL",
  "INTO", "IS", "JOIN", "LATERAL", "LEFT", "LIKE", "LIMIT", "LOOKUP", "MERGE", "NATURAL", "NEW",
  "NO", "NOT", "NULL", "NULLS", "OF", "ON", "OR", "ORDER", "OUTER", "OVER", "PARTITION",
  "PRECEDING", "PROTO", "RANGE", "RECURSIVE", "RESPECT", "RIGHT", "ROLLUP", "ROWS", "SELECT",
  "SET", "SOME", "STRUCT", "TABLESAMPLE", "THEN", "TO", "TREAT", "TRUE", "UNBOUNDED", "UNION",
  "UNNEST", "USING", "WHEN", "WHERE", "WINDOW", "WITH", "WITHIN"]

def reserved : List Bytes := reservedStrs.map B

/-- `token.IsKeyword` -/
def isKeyword (s : Bytes) : Bool := reserved.contains (Char.toUpper s)

end MF
