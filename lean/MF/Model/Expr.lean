/-
  MF.Model.Expr — the expression core of `parser.go` (parseExpr … parseLit, lines ~1302-1817, 2308-2350,
  5401-5480) and of `ast/sql.go` (prec, exprPrec, paren and the SQL() methods of the expression nodes), for the
  fragment M1:

    atoms      NULL TRUE FALSE <int> <float> <string> <bytes> @param identifier path ( expr )
               CASE [expr] WHEN expr THEN expr … [ELSE expr] END     IF ( expr , expr , expr )
               [ expr , … ]   (array literal without ARRAY / element type)
               CAST ( expr AS path )   the type is a NAMED type (no scalar type name, no ARRAY<…> / STRUCT<…>; no SAFE_CAST)
    prefix     + - ~ NOT
    binary     * / ||  + -  << >>  &  ^  |  = != <> < <= > >= LIKE NOT-LIKE  AND  OR
    postfix    IS [NOT] NULL|TRUE|FALSE   [NOT] BETWEEN x AND y   [NOT] IN (e, …)   [NOT] IN UNNEST(e)
               .ident   [expr]   [OFFSET|ORDINAL|SAFE_OFFSET|SAFE_ORDINAL (expr)]

  Everything else `parseLit` can start is OUTSIDE: the model answers `outside` exactly where the Go code
  dispatches into such a production.

  One Lean function per Go function, plus one per Go loop; all of them recurse on an explicit `fuel`
  (first argument, matched OUTERMOST).  The parser works on the token list produced by `MF.Lex.lexAll`
  (ending with `<eof>`); `p.Token` is the head of the list, `p.nextToken()` is `tail` (the Go parser lexes on
  demand, but the lexer state only depends on the previous token, so the token sequence is the same; every
  `Lexer.Clone()` / restore in these functions is a pure look-ahead).  An empty list reads as `<eof>`
  (the lexer keeps returning `<eof>`, theorem `eof_stable`).

  Results: `ok` | `raise` (the Go code panics with a syntax `*Error`; message and position not modelled; since
  every such panic is recorded in `p.errors` by the `recover` of `parseExpr`, `ParseExpr` then returns a non-nil
  error whatever the recovery does afterwards) | `outside` | `crash` (a Go runtime panic: only `e.Value[0]` of
  `parseUnary` on an empty literal, unreachable for lexer tokens) | `outOfFuel`.
-/
import MF.Model.Lexer
import MF.Model.Quote
import MF.Model.TypeParse
namespace MF.Expr

/-! ## token classes -/

/-- what the expression parser distinguishes about `p.Token.Kind` -/
inductive TK
  | eof | ident | param | int | float | string | bytes
  | null | true_ | false_
  | lparen | rparen | lbrack | rbrack | comma | dot
  | plus | minus | tilde | star | slash | concat
  | shl | shr | amp | caret | bar
  | eq | ne | lt | le | gt | ge
  | like | in_ | between | is_ | not_ | and_ | or_ | unnest
  /-- SELECT: `lookaheadSubQuery` -/
  | select
  /-- CASE WHEN THEN ELSE END (`parseCaseExpr`), IF (`parseIfExpr`) -/
  | case_ | when_ | then_ | else_ | end_ | if_
  /-- CAST … AS (`parseCastExpr`) -/
  | cast | as_
  /-- EXISTS EXTRACT WITH ARRAY STRUCT NEW `{`: `parseLit` enters a production outside the fragment -/
  | litStart
  /-- any other kind (`parseLit` panics "unexpected token") -/
  | other
  deriving DecidableEq, Repr, Inhabited

def symTable : List (String × TK) := [
  ("NULL", .null), ("TRUE", .true_), ("FALSE", .false_),
  ("(", .lparen), (")", .rparen), ("[", .lbrack), ("]", .rbrack), (",", .comma), (".", .dot),
  ("+", .plus), ("-", .minus), ("~", .tilde), ("*", .star), ("/", .slash), ("||", .concat),
  ("<<", .shl), (">>", .shr), ("&", .amp), ("^", .caret), ("|", .bar),
  ("=", .eq), ("!=", .ne), ("<>", .ne), ("<", .lt), ("<=", .le), (">", .gt), (">=", .ge),
  ("LIKE", .like), ("IN", .in_), ("BETWEEN", .between), ("IS", .is_), ("NOT", .not_), ("AND", .and_), ("OR", .or_),
  ("UNNEST", .unnest), ("SELECT", .select),
  ("CASE", .case_), ("WHEN", .when_), ("THEN", .then_), ("ELSE", .else_), ("END", .end_), ("IF", .if_),
  ("CAST", .cast), ("AS", .as_), ("EXISTS", .litStart), ("EXTRACT", .litStart),
  ("WITH", .litStart), ("ARRAY", .litStart), ("STRUCT", .litStart), ("NEW", .litStart), ("{", .litStart)]

def symTK (s : Bytes) : TK :=
  match symTable.find? (fun p => B p.1 == s) with
  | some p => p.2
  | none => .other

def tk : TokKind → TK
  | .eof => .eof | .ident => .ident | .param => .param | .int => .int | .float => .float
  | .string => .string | .bytes => .bytes | .bad => .other
  | .sym s => symTK s

/-- `p.Token.Kind` (as a class); past the end of the list the lexer keeps answering `<eof>` -/
def cur : List Token → TK
  | t :: _ => tk t.kind
  | [] => .eof

/-- `p.Token` -/
def hd (ts : List Token) : Token := ts.headD {}

/-! ## the AST of the fragment -/

inductive Sign | plus | minus
  deriving DecidableEq, Repr, Inhabited

/-- `ast.UnaryOp` -/
inductive UOp | plus | minus | bitNot | not
  deriving DecidableEq, Repr, Inhabited

/-- `ast.BinaryOp` (`!=` and `<>` are both `OpNotEqual`) -/
inductive BOp
  | mul | div | concat | add | sub | shl | shr | bitAnd | bitXor | bitOr
  | eq | ne | lt | le | gt | ge | like | notLike | and | or
  deriving DecidableEq, Repr, Inhabited

/-- `ast.PositionKeyword` -/
inductive PosKw | offset | ordinal | safeOffset | safeOrdinal
  deriving DecidableEq, Repr, Inhabited

mutual
inductive Expr
  | null
  | bool (b : Bool)
  /-- `IntLiteral.Value` is `sign ++ raw`: `raw` is the token's spelling, `sign` the sign `parseUnary` folded in -/
  | int (sign : Option Sign) (raw : Bytes)
  | float (sign : Option Sign) (raw : Bytes)
  | str (v : Bytes)
  | bytes (v : Bytes)
  | param (name : Bytes)
  | ident (name : Bytes)
  /-- `Path.Idents` -/
  | path (names : List Bytes)
  | paren (e : Expr)
  | unary (op : UOp) (e : Expr)
  | bin (op : BOp) (l r : Expr)
  | isNull (e : Expr) (not : Bool)
  | isBool (e : Expr) (not : Bool) (right : Bool)
  | between (not : Bool) (e lo hi : Expr)
  /-- `InExpr` with a `ValuesInCondition` (at least one element: `first`) -/
  | inList (not : Bool) (e : Expr) (first : Expr) (more : Exprs)
  /-- `InExpr` with an `UnnestInCondition` -/
  | inUnnest (not : Bool) (e : Expr) (arg : Expr)
  | sel (e : Expr) (name : Bytes)
  /-- `IndexExpr`; `kw = none`: `ExprArg`; `kw = some (k, spelled)`: `SubscriptSpecifierKeyword` (`spelled` is the
  identifier as written, which the Go AST forgets: it keeps the canonical `k` only) -/
  | index (e : Expr) (kw : Option (PosKw × Bytes)) (i : Expr)
  /-- `CaseExpr{Expr, Whens = CaseWhen{cond, then_} :: more, Else}` (at least one WHEN) -/
  | caseE (operand : OExpr) (cond then_ : Expr) (more : Whens) (els : OExpr)
  /-- `IfExpr{Expr, TrueResult, ElseResult}` -/
  | ifE (c t e : Expr)
  /-- `ArrayLiteral{Array: InvalidPos, Type: nil, Values}` (`parseSimpleArrayLiteral`) -/
  | array (values : Exprs)
  /-- `CastExpr{Safe: false, Expr, Type: NamedType{Path}}` -/
  | cast (e : Expr) (typePath : List Bytes)
inductive Exprs
  | nil
  | cons (e : Expr) (es : Exprs)
/-- the further `CaseWhen`s of a `CaseExpr` -/
inductive Whens
  | nil
  | cons (cond then_ : Expr) (ws : Whens)
/-- an optional expression (`CaseExpr.Expr`; `CaseExpr.Else` is a `CaseElse{Expr}` or nil) -/
inductive OExpr
  | none
  | some (e : Expr)
end

instance : Inhabited Expr := ⟨.null⟩

def Exprs.toList : Exprs → List Expr
  | .nil => []
  | .cons e es => e :: es.toList

/-- `ast.InCondition` of the fragment (return type of `parseInCondition`) -/
inductive InCond
  | values (first : Expr) (more : Exprs)
  | unnest (e : Expr)

def InCond.mk (not : Bool) (l : Expr) : InCond → Expr
  | .values f m => .inList not l f m
  | .unnest e => .inUnnest not l e

/-- `ast.SubscriptSpecifier` of the fragment (return type of `parseIndexSpecifier`) -/
inductive IdxSpec
  | plain (e : Expr)
  | kw (k : PosKw) (spelled : Bytes) (e : Expr)

def IdxSpec.mk (l : Expr) : IdxSpec → Expr
  | .plain e => .index l none e
  | .kw k s e => .index l (some (k, s)) e

/-! ## results -/

inductive Res (α : Type) where
  | ok (a : α)
  | raise
  | outside
  | crash
  | outOfFuel
  deriving Repr

def Res.bind {α β : Type} : Res α → (α → Res β) → Res β
  | .ok a, k => k a
  | .raise, _ => .raise
  | .outside, _ => .outside
  | .crash, _ => .crash
  | .outOfFuel, _ => .outOfFuel

abbrev PR := Res (Expr × List Token)

/-! ## look-aheads and leaf productions (no recursion into expressions) -/

/-- `(`* then SELECT -/
def selectAhead : List Token → Bool
  | t :: ts => if tk t.kind = .lparen then selectAhead ts else tk t.kind == .select
  | [] => false

/-- `lookaheadSubQuery`, conservatively: `(`, then any number of `(`, then SELECT.  (The Go function answers
`false` for some `((…(SELECT`; the parser then descends through the parentheses and reaches `(SELECT`, where the
answer is `true`: the outcome is a sub-query production either way.) -/
def lookaheadSubQuery (ts : List Token) : Bool :=
  cur ts == .lparen && selectAhead ts.tail

/-- `lookaheadCallExpr`: identifier (`.` identifier)* `(` -/
def lookaheadCallExpr : List Token → Bool
  | t :: ts =>
    if tk t.kind = .ident then
      match ts with
      | u :: ts' =>
        if tk u.kind = .lparen then true
        else if tk u.kind = .dot then lookaheadCallExpr ts'
        else false
      | [] => false
    else false
  | [] => false

def PosKw.str : PosKw → Bytes
  | .offset => B "OFFSET" | .ordinal => B "ORDINAL" | .safeOffset => B "SAFE_OFFSET" | .safeOrdinal => B "SAFE_ORDINAL"

/-- the `p.Token.IsIdent(…)` tests of `parseIndexSpecifier` (the first conjunct of its `case`, and the inner `switch`) -/
def posKwOf (t : Token) : Option PosKw :=
  if t.isIdent (B "OFFSET") then some .offset
  else if t.isIdent (B "ORDINAL") then some .ordinal
  else if t.isIdent (B "SAFE_OFFSET") then some .safeOffset
  else if t.isIdent (B "SAFE_ORDINAL") then some .safeOrdinal
  else none

def posKw? (ts : List Token) : Option PosKw :=
  if cur ts = .ident then posKwOf (hd ts) else none

/-- identifiers on which `parseLit` dispatches to a production outside the fragment before looking further -/
def isCastLike (t : Token) : Bool :=
  t.isKeywordLike (B "SAFE_CAST") || t.isKeywordLike (B "REPLACE_FIELDS")

/-- identifiers that start a typed literal when a string follows -/
def isTypedLitWord (t : Token) : Bool :=
  t.isKeywordLike (B "DATE") || t.isKeywordLike (B "TIMESTAMP") || t.isKeywordLike (B "NUMERIC") || t.isKeywordLike (B "JSON")

/-- the entry of `simpleTypes` an identifier value reads as (`Token.IsIdent` is case-insensitive) -/
def simpleNameOf (s : Bytes) : Option Bytes := TypeP.simpleTypes.find? (fun n => Char.equalFold s n)

/-- `parseType` at the type of a CAST, through the type model `MF.TypeP.parseType` (MF/Model/TypeParse.lean), for the
types of the fragment: a path (`NamedType`; returned are the names).  `ARRAY<…>` / `STRUCT<…>` are outside, and so
is a scalar type name (`SimpleType`: an identifier reading BOOL … TOKENLIST and not followed by `.`): written with
back quotes its `End()` = `NamePos + len(Name)` lies inside the token (the known C05 finding), and whether it is
written with back quotes is not visible in what the theorems see of a token (`proj`), so the whole form is left out. -/
def castType (f : Nat) (ts : List Token) : Res (List Bytes × List Token) :=
  match TypeP.cur ts with
  | .ident =>
    if TypeP.lookaheadSimpleType ts then .outside
    else
      match TypeP.parseType f ts with
      | .ok (.named path, rest) => .ok (path.map (·.name), rest)
      | .ok (_, _) => .outside
      | .raise => .raise
      | .outOfFuel => .outOfFuel
  | .array | .struct_ => .outside
  | _ => .raise

/-- `p.expect(kind)` followed by building a leaf -/
def expectThen (k : TK) (ts : List Token) (mk : Token → Expr) : PR :=
  if cur ts = k then .ok (mk (hd ts), ts.tail) else .raise

def parseNullLiteral (ts : List Token) : PR := expectThen .null ts (fun _ => .null)
def parseBoolLiteral (ts : List Token) : PR :=
  match cur ts with
  | .true_ => .ok (.bool true, ts.tail)
  | .false_ => .ok (.bool false, ts.tail)
  | _ => .raise
def parseIntLiteral (ts : List Token) : PR := expectThen .int ts (fun t => .int none t.raw)
def parseFloatLiteral (ts : List Token) : PR := expectThen .float ts (fun t => .float none t.raw)
def parseStringLiteral (ts : List Token) : PR := expectThen .string ts (fun t => .str t.asString)
def parseBytesLiteral (ts : List Token) : PR := expectThen .bytes ts (fun t => .bytes t.asString)
def parseParam (ts : List Token) : PR := expectThen .param ts (fun t => .param t.asString)
/-- `parseIdent`: the name, and the rest -/
def parseIdent (ts : List Token) : Res (Bytes × List Token) :=
  if cur ts = .ident then .ok ((hd ts).asString, ts.tail) else .raise

/-- the tail of the identifier case of `parseLit` -/
def parseLitIdent (ts : List Token) : PR :=
  let id := hd ts
  if isCastLike id then .outside
  else if lookaheadCallExpr ts then .outside
  else if cur ts.tail = .string && isTypedLitWord id then .outside
  else .ok (.ident id.asString, ts.tail)

def UOp.sign? : UOp → Option Sign
  | .plus => some .plus | .minus => some .minus | _ => none

def unOp? : TK → Option UOp
  | .plus => some .plus | .minus => some .minus | .tilde => some .bitNot | _ => none

/-- `e.Value[0] != '+' && e.Value[0] != '-'` on a literal whose `Value` is still the token's spelling;
`none` is the index panic on an empty string -/
def unsignedRaw? : Bytes → Option Bool
  | [] => none
  | c :: _ => some (c != 43 && c != 45)

/-- the part of `parseUnary` after the operand is known -/
def foldSign (op : UOp) (e : Expr) : Res Expr :=
  match op.sign? with
  | none => .ok (.unary op e)
  | some s =>
    match e with
    | .int none raw =>
      match unsignedRaw? raw with
      | none => .crash
      | some true => .ok (.int (some s) raw)
      | some false => .ok (.unary op e)
    | .float none raw =>
      match unsignedRaw? raw with
      | none => .crash
      | some true => .ok (.float (some s) raw)
      | some false => .ok (.unary op e)
    | _ => .ok (.unary op e)   -- includes literals whose Value already starts with the folded sign

/-- the `switch e := expr.(type)` of `parseSelector` -/
def mkSel (e : Expr) (n : Bytes) : Expr :=
  match e with
  | .ident a => .path [a, n]
  | .path ns => .path (ns ++ [n])
  | _ => .sel e n

/-- the simple operators of `parseComparison` -/
def cmpOp? : TK → Option BOp
  | .lt => some .lt | .gt => some .gt | .le => some .le | .ge => some .ge
  | .eq => some .eq | .ne => some .ne | .like => some .like | _ => none

def shiftOp? : TK → Option BOp
  | .shl => some .shl | .shr => some .shr | _ => none
def addOp? : TK → Option BOp
  | .plus => some .add | .minus => some .sub | _ => none
def mulOp? : TK → Option BOp
  | .star => some .mul | .slash => some .div | .concat => some .concat | _ => none

/-- the `case "IS"` of `parseComparison` (tokens after IS) -/
def parseIsTail (e : Expr) (ts : List Token) : PR :=
  let not := cur ts == .not_
  let ts := if not then ts.tail else ts
  match cur ts with
  | .null => .ok (.isNull e not, ts.tail)
  | .true_ => .ok (.isBool e not true, ts.tail)
  | .false_ => .ok (.isBool e not false, ts.tail)
  | _ => .raise

/-! ## the mutually recursive productions -/

mutual

def parseExpr : Nat → List Token → PR
  | 0, _ => .outOfFuel
  | f + 1, ts => parseOr f ts

def parseOr : Nat → List Token → PR
  | 0, _ => .outOfFuel
  | f + 1, ts => (parseAnd f ts).bind fun p => orLoop f p.1 p.2

def orLoop : Nat → Expr → List Token → PR
  | 0, _, _ => .outOfFuel
  | f + 1, e, ts =>
    match cur ts with
    | .or_ => (parseAnd f ts.tail).bind fun p => orLoop f (.bin .or e p.1) p.2
    | _ => .ok (e, ts)

def parseAnd : Nat → List Token → PR
  | 0, _ => .outOfFuel
  | f + 1, ts => (parseNot f ts).bind fun p => andLoop f p.1 p.2

def andLoop : Nat → Expr → List Token → PR
  | 0, _, _ => .outOfFuel
  | f + 1, e, ts =>
    match cur ts with
    | .and_ => (parseNot f ts.tail).bind fun p => andLoop f (.bin .and e p.1) p.2
    | _ => .ok (e, ts)

def parseNot : Nat → List Token → PR
  | 0, _ => .outOfFuel
  | f + 1, ts =>
    match cur ts with
    | .not_ => (parseNot f ts.tail).bind fun p => .ok (.unary .not p.1, p.2)
    | _ => parseComparison f ts

/-- `parseComparison` is NOT a loop: at most one comparison operator is consumed -/
def parseComparison : Nat → List Token → PR
  | 0, _ => .outOfFuel
  | f + 1, ts0 =>
    (parseBitOr f ts0).bind fun p =>
      let e := p.1
      let ts := p.2
      match cmpOp? (cur ts) with
      | some op => (parseBitOr f ts.tail).bind fun q => .ok (.bin op e q.1, q.2)
      | none =>
        match cur ts with
        | .in_ => (parseInCondition f ts.tail).bind fun q => .ok (q.1.mk false e, q.2)
        | .between => parseBetweenTail f false e ts.tail
        | .not_ =>
          match cur ts.tail with
          | .like => (parseBitOr f ts.tail.tail).bind fun q => .ok (.bin .notLike e q.1, q.2)
          | .in_ => (parseInCondition f ts.tail.tail).bind fun q => .ok (q.1.mk true e, q.2)
          | .between => parseBetweenTail f true e ts.tail.tail
          | _ => .raise
        | .is_ => parseIsTail e ts.tail
        | _ => .ok (e, ts)

/-- the two identical `case "BETWEEN"` bodies of `parseComparison` (tokens after BETWEEN) -/
def parseBetweenTail : Nat → Bool → Expr → List Token → PR
  | 0, _, _, _ => .outOfFuel
  | f + 1, not, e, ts =>
    (parseBitOr f ts).bind fun lo =>
      if cur lo.2 = .and_ then
        (parseBitOr f lo.2.tail).bind fun hi => .ok (.between not e lo.1 hi.1, hi.2)
      else .raise

def parseInCondition : Nat → List Token → Res (InCond × List Token)
  | 0, _ => .outOfFuel
  | f + 1, ts =>
    if lookaheadSubQuery ts then .outside
    else
      match cur ts with
      | .lparen =>
        (parseExpr f ts.tail).bind fun p =>
          (inListLoop f p.2).bind fun q =>
            if cur q.2 = .rparen then .ok (.values p.1 q.1, q.2.tail) else .raise
      | .unnest =>
        if cur ts.tail = .lparen then
          (parseExpr f ts.tail.tail).bind fun p =>
            if cur p.2 = .rparen then .ok (.unnest p.1, p.2.tail) else .raise
        else .raise
      | _ => .raise

/-- `for p.Token.Kind != token.TokenEOF { if p.Token.Kind != "," { break }; … }` of `parseInCondition`;
returns the appended elements -/
def inListLoop : Nat → List Token → Res (Exprs × List Token)
  | 0, _ => .outOfFuel
  | f + 1, ts =>
    match cur ts with
    | .comma =>
      (parseExpr f ts.tail).bind fun p =>
        (inListLoop f p.2).bind fun q => .ok (.cons p.1 q.1, q.2)
    | _ => .ok (.nil, ts)

def parseBitOr : Nat → List Token → PR
  | 0, _ => .outOfFuel
  | f + 1, ts => (parseBitXor f ts).bind fun p => bitOrLoop f p.1 p.2

def bitOrLoop : Nat → Expr → List Token → PR
  | 0, _, _ => .outOfFuel
  | f + 1, e, ts =>
    match cur ts with
    | .bar => (parseBitXor f ts.tail).bind fun p => bitOrLoop f (.bin .bitOr e p.1) p.2
    | _ => .ok (e, ts)

def parseBitXor : Nat → List Token → PR
  | 0, _ => .outOfFuel
  | f + 1, ts => (parseBitAnd f ts).bind fun p => bitXorLoop f p.1 p.2

def bitXorLoop : Nat → Expr → List Token → PR
  | 0, _, _ => .outOfFuel
  | f + 1, e, ts =>
    match cur ts with
    | .caret => (parseBitAnd f ts.tail).bind fun p => bitXorLoop f (.bin .bitXor e p.1) p.2
    | _ => .ok (e, ts)

def parseBitAnd : Nat → List Token → PR
  | 0, _ => .outOfFuel
  | f + 1, ts => (parseBitShift f ts).bind fun p => bitAndLoop f p.1 p.2

def bitAndLoop : Nat → Expr → List Token → PR
  | 0, _, _ => .outOfFuel
  | f + 1, e, ts =>
    match cur ts with
    | .amp => (parseBitShift f ts.tail).bind fun p => bitAndLoop f (.bin .bitAnd e p.1) p.2
    | _ => .ok (e, ts)

def parseBitShift : Nat → List Token → PR
  | 0, _ => .outOfFuel
  | f + 1, ts => (parseAddSub f ts).bind fun p => shiftLoop f p.1 p.2

def shiftLoop : Nat → Expr → List Token → PR
  | 0, _, _ => .outOfFuel
  | f + 1, e, ts =>
    match shiftOp? (cur ts) with
    | some op => (parseAddSub f ts.tail).bind fun p => shiftLoop f (.bin op e p.1) p.2
    | none => .ok (e, ts)

def parseAddSub : Nat → List Token → PR
  | 0, _ => .outOfFuel
  | f + 1, ts => (parseMulDiv f ts).bind fun p => addLoop f p.1 p.2

def addLoop : Nat → Expr → List Token → PR
  | 0, _, _ => .outOfFuel
  | f + 1, e, ts =>
    match addOp? (cur ts) with
    | some op => (parseMulDiv f ts.tail).bind fun p => addLoop f (.bin op e p.1) p.2
    | none => .ok (e, ts)

def parseMulDiv : Nat → List Token → PR
  | 0, _ => .outOfFuel
  | f + 1, ts => (parseUnary f ts).bind fun p => mulLoop f p.1 p.2

def mulLoop : Nat → Expr → List Token → PR
  | 0, _, _ => .outOfFuel
  | f + 1, e, ts =>
    match mulOp? (cur ts) with
    | some op => (parseUnary f ts.tail).bind fun p => mulLoop f (.bin op e p.1) p.2
    | none => .ok (e, ts)

def parseUnary : Nat → List Token → PR
  | 0, _ => .outOfFuel
  | f + 1, ts =>
    match unOp? (cur ts) with
    | none => parseSelector f ts
    | some op => (parseUnary f ts.tail).bind fun p => (foldSign op p.1).bind fun e => .ok (e, p.2)

def parseSelector : Nat → List Token → PR
  | 0, _ => .outOfFuel
  | f + 1, ts => (parseLit f ts).bind fun p => selLoop f p.1 p.2

def selLoop : Nat → Expr → List Token → PR
  | 0, _, _ => .outOfFuel
  | f + 1, e, ts =>
    match cur ts with
    | .dot =>
      if cur ts.tail = .star then .ok (e, ts)   -- `expr.*`: the lexer is restored, nothing consumed
      else (parseIdent ts.tail).bind fun p => selLoop f (mkSel e p.1) p.2
    | .lbrack =>
      (parseIndexSpecifier f ts.tail).bind fun p =>
        if cur p.2 = .rbrack then selLoop f (p.1.mk e) p.2.tail else .raise
    | _ => .ok (e, ts)

/-- `case (p.Token.IsIdent("OFFSET") || …) && p.lookaheadToken().Kind == "(":` the position keyword is taken only
when the NEXT token is `(` (so the `p.expect("(")` that follows cannot fail); otherwise — `a[offset]`,
`a[ordinal * 2]`, `a[offset.f]` — the word is an ordinary name and the `default:` branch parses an expression -/
def parseIndexSpecifier : Nat → List Token → Res (IdxSpec × List Token)
  | 0, _ => .outOfFuel
  | f + 1, ts =>
    match posKw? ts with
    | some k =>
      if cur ts.tail = .lparen then
        (parseExpr f ts.tail.tail).bind fun p =>
          if cur p.2 = .rparen then .ok (.kw k (hd ts).asString p.1, p.2.tail) else .raise
      else (parseExpr f ts).bind fun p => .ok (.plain p.1, p.2)
    | none => (parseExpr f ts).bind fun p => .ok (.plain p.1, p.2)

def parseLit : Nat → List Token → PR
  | 0, _ => .outOfFuel
  | f + 1, ts =>
    match cur ts with
    | .null => parseNullLiteral ts
    | .true_ => parseBoolLiteral ts
    | .false_ => parseBoolLiteral ts
    | .int => parseIntLiteral ts
    | .float => parseFloatLiteral ts
    | .string => parseStringLiteral ts
    | .bytes => parseBytesLiteral ts
    | .param => parseParam ts
    | .case_ => parseCaseExpr f ts
    | .if_ => parseIfExpr f ts
    | .cast => parseCastExpr f ts
    | .litStart => .outside
    | .lbrack => parseSimpleArrayLiteral f ts
    | .lparen => parseParenExpr f ts
    | .ident => parseLitIdent ts
    | _ => .raise

def parseParenExpr : Nat → List Token → PR
  | 0, _ => .outOfFuel
  | f + 1, ts =>
    if lookaheadSubQuery ts then .outside
    else
      (parseExpr f ts.tail).bind fun p =>
        match cur p.2 with
        | .rparen => .ok (.paren p.1, p.2.tail)
        | .comma => .outside     -- TupleStructLiteral
        | _ => .raise

/-- `parseSimpleArrayLiteral` = `parseArrayLiteralBody`: `p.expect("[")`; unless `]` follows:
`for p.Token.Kind != token.TokenEOF { values = append(values, p.parseExpr()); if p.Token.Kind != "," { break }; p.nextToken() }`;
`p.expect("]")`.  After the first element this is the loop of `parseInCondition` (`inListLoop`: at `<eof>` behind a
comma both loops end in a syntax error, the one of `p.expect("]")`, the other of `parseLit`). -/
def parseSimpleArrayLiteral : Nat → List Token → PR
  | 0, _ => .outOfFuel
  | f + 1, ts =>
    if cur ts = .lbrack then
      if cur ts.tail = .rbrack then .ok (.array .nil, ts.tail.tail)
      else
        (parseExpr f ts.tail).bind fun p =>
          (inListLoop f p.2).bind fun q =>
            if cur q.2 = .rbrack then .ok (.array (.cons p.1 q.1), q.2.tail) else .raise
    else .raise

/-- `parseCastExpr` for the keyword CAST (the pseudo keyword SAFE_CAST is an identifier on which `parseLitIdent`
answers `outside`): `p.expect("CAST")`, `p.expect("(")`, `parseExpr`, `p.expect("AS")`, `parseType`, `p.expect(")")` -/
def parseCastExpr : Nat → List Token → PR
  | 0, _ => .outOfFuel
  | f + 1, ts =>
    if cur ts = .cast then
      if cur ts.tail = .lparen then
        (parseExpr f ts.tail.tail).bind fun p =>
          if cur p.2 = .as_ then
            (castType f p.2.tail).bind fun t =>
              if cur t.2 = .rparen then .ok (.cast p.1 t.1, t.2.tail) else .raise
          else .raise
      else .raise
    else .raise

/-- `parseCaseExpr`: `p.expect("CASE")`, the operand unless WHEN follows, one `parseCaseWhen`, the loop
`for p.Token.Kind != token.TokenEOF { if p.Token.Kind != "WHEN" { break }; … }`, `parseCaseElse` if ELSE follows,
`p.expect("END")` -/
def parseCaseExpr : Nat → List Token → PR
  | 0, _ => .outOfFuel
  | f + 1, ts =>
    if cur ts = .case_ then
      (if cur ts.tail = .when_ then .ok (OExpr.none, ts.tail)
        else (parseExpr f ts.tail).bind fun p => .ok (OExpr.some p.1, p.2)).bind fun o =>
      (parseCaseWhen f o.2).bind fun w =>
      (caseWhenLoop f w.2).bind fun ws =>
      (if cur ws.2 = .else_ then (parseCaseElse f ws.2).bind fun p => .ok (OExpr.some p.1, p.2)
        else .ok (OExpr.none, ws.2)).bind fun el =>
      if cur el.2 = .end_ then .ok (.caseE o.1 w.1.1 w.1.2 ws.1 el.1, el.2.tail) else .raise
    else .raise

/-- the loop of `parseCaseExpr` after the first WHEN clause; returns the appended clauses -/
def caseWhenLoop : Nat → List Token → Res (Whens × List Token)
  | 0, _ => .outOfFuel
  | f + 1, ts =>
    match cur ts with
    | .when_ =>
      (parseCaseWhen f ts).bind fun w =>
        (caseWhenLoop f w.2).bind fun q => .ok (.cons w.1.1 w.1.2 q.1, q.2)
    | _ => .ok (.nil, ts)

/-- `parseCaseWhen`: `WHEN cond THEN then`; returns `(cond, then)` -/
def parseCaseWhen : Nat → List Token → Res ((Expr × Expr) × List Token)
  | 0, _ => .outOfFuel
  | f + 1, ts =>
    if cur ts = .when_ then
      (parseExpr f ts.tail).bind fun c =>
        if cur c.2 = .then_ then (parseExpr f c.2.tail).bind fun t => .ok ((c.1, t.1), t.2) else .raise
    else .raise

/-- `parseCaseElse`: `ELSE expr`; returns the expression -/
def parseCaseElse : Nat → List Token → PR
  | 0, _ => .outOfFuel
  | f + 1, ts => if cur ts = .else_ then parseExpr f ts.tail else .raise

/-- `parseIfExpr`: `IF ( expr , expr , expr )` -/
def parseIfExpr : Nat → List Token → PR
  | 0, _ => .outOfFuel
  | f + 1, ts =>
    if cur ts = .if_ then
      if cur ts.tail = .lparen then
        (parseExpr f ts.tail.tail).bind fun c =>
          if cur c.2 = .comma then
            (parseExpr f c.2.tail).bind fun t =>
              if cur t.2 = .comma then
                (parseExpr f t.2.tail).bind fun e =>
                  if cur e.2 = .rparen then .ok (.ifE c.1 t.1 e.1, e.2.tail) else .raise
              else .raise
          else .raise
      else .raise
    else .raise

end

/-- `ParseExpr`: the whole input must be one expression -/
def parseExprTop (fuel : Nat) (ts : List Token) : Res Expr :=
  (parseExpr fuel ts).bind fun p => if cur p.2 = .eof then .ok p.1 else .raise

/-- fuel used by the driver (every call consumes one unit; a token is reached through at most ~25 nested calls) -/
def topFuel (ts : List Token) : Nat := 32 * (ts.length + 2)

/-! ## the token-level OUTSIDE rule shared with the Go harness

An input is OUTSIDE (not compared) iff its token list contains a token outside the fragment vocabulary or one of
the configurations at which the Go parser could dispatch into a production outside the fragment.  Conservative. -/

def operandEnd : TK → Bool
  | .ident | .param | .int | .float | .string | .bytes | .null | .true_ | .false_ | .rparen | .rbrack | .end_ => true
  | _ => false

/-- `prev` = class of the previous token (`.eof` at the start), `stack` = open brackets, `true` for the
parenthesis of an IN list or of `IF(` and for the `[` of an array literal (where a `,` belongs to the production);
a `[` behind the end of an operand is a subscript (`false`; only there may a position word be followed by `(`),
any other `[` starts an array literal -/
def outsideScan : TK → List Bool → List Token → Bool
  | _, _, [] => false
  | prev, stack, t :: ts =>
    let k := tk t.kind
    let next := cur ts
    if k == .other || k == .litStart || k == .select then true
    else if k == .ident && (isCastLike t
        || (next == .lparen && !(prev == .lbrack && stack.head? == some false && (posKwOf t).isSome))
        || (next == .string && isTypedLitWord t)) then true
    else if k == .ident && prev == .as_ && (simpleNameOf t.asString).isSome && next != .dot then true
    else if k == .comma && stack.head? != some true then true
    else
      let stack :=
        if k == .lparen then (prev == .in_ || prev == .if_) :: stack
        else if k == .lbrack then (!operandEnd prev) :: stack
        else if k == .rparen || k == .rbrack then stack.tail
        else stack
      outsideScan k stack ts

def tokenOutside (ts : List Token) : Bool := outsideScan .eof [] ts

/-! ## `ast/sql.go` -/

/-- `unicode.IsPrint` restricted to ASCII (the EXPR channel only ships ASCII inputs) -/
def asciiPrint (r : Nat) : Bool := 0x20 ≤ r && r ≤ 0x7E

def UOp.str : UOp → Bytes
  | .plus => B "+" | .minus => B "-" | .bitNot => B "~" | .not => B "NOT"

def BOp.str : BOp → Bytes
  | .mul => B "*" | .div => B "/" | .concat => B "||" | .add => B "+" | .sub => B "-"
  | .shl => B "<<" | .shr => B ">>" | .bitAnd => B "&" | .bitXor => B "^" | .bitOr => B "|"
  | .eq => B "=" | .ne => B "!=" | .lt => B "<" | .le => B "<=" | .gt => B ">" | .ge => B ">="
  | .like => B "LIKE" | .notLike => B "NOT LIKE" | .and => B "AND" | .or => B "OR"

def Sign.str : Sign → Bytes
  | .plus => B "+" | .minus => B "-"

def signStr : Option Sign → Bytes
  | none => [] | some s => s.str

/-- `prec` of a binary operator -/
def BOp.prec : BOp → Nat
  | .mul | .div | .concat => 3
  | .add | .sub => 4
  | .shl | .shr => 5
  | .bitAnd => 6
  | .bitXor => 7
  | .bitOr => 8
  | .eq | .ne | .lt | .le | .gt | .ge | .like | .notLike => 9
  | .and => 11
  | .or => 12

def UOp.prec : UOp → Nat
  | .not => 10
  | _ => 2

/-- `exprPrec`: precLit = 0, precSelector = 1, precUnary = 2, precMulDiv = 3, precAddSub = 4, precBitShift = 5,
precBitAnd = 6, precBitXor = 7, precBitOr = 8, precComparison = 9, precNot = 10, precAnd = 11, precOr = 12 -/
def exprPrec : Expr → Nat
  | .index .. | .sel .. => 1
  | .inList .. | .inUnnest .. | .isNull .. | .isBool .. | .between .. => 9
  | .bin op _ _ => op.prec
  | .unary op _ => op.prec
  | _ => 0

/-- `paren(p, e)` given the text of `e` -/
def parenS (p : Nat) (e : Expr) (s : Bytes) : Bytes :=
  if exprPrec e ≤ p then s else B "(" ++ s ++ B ")"

/-- `Ident.SQL()`; the empty name (an index panic in `needQuoteSQLIdent`) cannot come from the lexer -/
def identSQL (n : Bytes) : Bytes := (Quote.quoteIdent asciiPrint n).getD []

def joinBytes (sep : Bytes) : List Bytes → Bytes
  | [] => []
  | [a] => a
  | a :: rest => a ++ sep ++ joinBytes sep rest

def boolUpper (b : Bool) : Bytes := if b then B "TRUE" else B "FALSE"

/-- `_, ok := s.Expr.(*IntLiteral)` -/
def isIntLit : Expr → Bool
  | .int _ _ => true
  | _ => false

mutual
/-- the `SQL()` methods -/
def sqlE : Expr → Bytes
  | .null => B "NULL"
  | .bool b => boolUpper b
  | .int s raw => signStr s ++ raw
  | .float s raw => signStr s ++ raw
  | .str v => Quote.quoteString asciiPrint v
  | .bytes v => Quote.quoteBytes v
  | .param n => B "@" ++ n
  | .ident n => identSQL n
  | .path ns => joinBytes (B ".") (ns.map identSQL)
  | .paren e => B "(" ++ sqlE e ++ B ")"
  | .unary op e =>
    let s := parenS op.prec e (sqlE e)
    op.str ++ (if op == .not || (op == .minus && s.head? == some 45) then B " " else []) ++ s
  | .bin op l r => parenS op.prec l (sqlE l) ++ B " " ++ op.str ++ B " " ++ parenS op.prec r (sqlE r)
  | .isNull e not => parenS 9 e (sqlE e) ++ B " IS " ++ (if not then B "NOT " else []) ++ B "NULL"
  | .isBool e not r => parenS 9 e (sqlE e) ++ B " IS " ++ (if not then B "NOT " else []) ++ boolUpper r
  | .between not e lo hi =>
    parenS 9 e (sqlE e) ++ (if not then B " NOT" else []) ++ B " BETWEEN " ++ parenS 9 lo (sqlE lo) ++ B " AND "
      ++ parenS 9 hi (sqlE hi)
  | .inList not e first more =>
    parenS 9 e (sqlE e) ++ (if not then B " NOT" else []) ++ B " IN " ++ B "(" ++ sqlE first ++ sqlEs more ++ B ")"
  | .inUnnest not e a =>
    parenS 9 e (sqlE e) ++ (if not then B " NOT" else []) ++ B " IN " ++ B "UNNEST(" ++ sqlE a ++ B ")"
  | .sel e n =>
    -- "1.f" would lex as the float literal "1." glued to "f": SelectorExpr.SQL keeps a blank after an IntLiteral
    parenS 1 e (sqlE e) ++ (if isIntLit e then B " " else []) ++ B "." ++ identSQL n
  | .index e none i => parenS 1 e (sqlE e) ++ B "[" ++ sqlE i ++ B "]"
  | .index e (some (k, _)) i => parenS 1 e (sqlE e) ++ B "[" ++ k.str ++ B "(" ++ sqlE i ++ B ")" ++ B "]"
  -- "CASE " + sqlOpt("", c.Expr, " ") + sqlJoin(c.Whens, " ") + " " + sqlOpt("", c.Else, " ") + "END"
  | .caseE o c t ws el =>
    B "CASE " ++ sqlO [] o ++ (B "WHEN " ++ sqlE c ++ B " THEN " ++ sqlE t ++ sqlWs ws) ++ B " " ++ sqlO (B "ELSE ") el
      ++ B "END"
  | .ifE c t e => B "IF(" ++ sqlE c ++ B ", " ++ sqlE t ++ B ", " ++ sqlE e ++ B ")"
  -- strOpt(!a.Array.Invalid(), "ARRAY") + sqlOpt("<", a.Type, ">") + "[" + sqlJoin(a.Values, ", ") + "]"
  | .array .nil => B "[" ++ B "]"
  | .array (.cons e es) => B "[" ++ sqlE e ++ sqlEs es ++ B "]"
  -- strOpt(c.Safe, "SAFE_") + "CAST(" + c.Expr.SQL() + " AS " + c.Type.SQL() + ")"
  | .cast e ns => B "CAST(" ++ sqlE e ++ B " AS " ++ joinBytes (B ".") (ns.map identSQL) ++ B ")"
/-- the remaining elements of `sqlJoin(v.Exprs, ", ")` -/
def sqlEs : Exprs → Bytes
  | .nil => []
  | .cons e es => B ", " ++ sqlE e ++ sqlEs es
/-- the remaining elements of `sqlJoin(c.Whens, " ")`, each a `CaseWhen.SQL()` -/
def sqlWs : Whens → Bytes
  | .nil => []
  | .cons c t ws => B " WHEN " ++ sqlE c ++ B " THEN " ++ sqlE t ++ sqlWs ws
/-- `sqlOpt("", node, " ")` where the node prints `pre ++ expr.SQL()` (`pre` is empty for the operand, `ELSE ` for a
`CaseElse`) -/
def sqlO (pre : Bytes) : OExpr → Bytes
  | .none => []
  | .some e => pre ++ sqlE e ++ B " "
end

/-! ## s-expression dump for the EXPR line protocol (values in hex; positions omitted) -/

def hxs (b : Bytes) : String := if b.isEmpty then "-" else toHex b

def UOp.name : UOp → String
  | .plus => "+" | .minus => "-" | .bitNot => "~" | .not => "NOT"

def BOp.name : BOp → String
  | .mul => "*" | .div => "/" | .concat => "||" | .add => "+" | .sub => "-"
  | .shl => "<<" | .shr => ">>" | .bitAnd => "&" | .bitXor => "^" | .bitOr => "|"
  | .eq => "=" | .ne => "!=" | .lt => "<" | .le => "<=" | .gt => ">" | .ge => ">="
  | .like => "LIKE" | .notLike => "NOT_LIKE" | .and => "AND" | .or => "OR"

def PosKw.name : PosKw → String
  | .offset => "OFFSET" | .ordinal => "ORDINAL" | .safeOffset => "SAFE_OFFSET" | .safeOrdinal => "SAFE_ORDINAL"

def bname (b : Bool) : String := if b then "true" else "false"

mutual
def sexp : Expr → String
  | .null => "null"
  | .cast e ns => "(cast " ++ sexp e ++ " (named" ++ String.join (ns.map fun n => " " ++ hxs n) ++ "))"
  | .bool b => bname b
  | .int s raw => "(int " ++ hxs (signStr s ++ raw) ++ ")"
  | .float s raw => "(float " ++ hxs (signStr s ++ raw) ++ ")"
  | .str v => "(str " ++ hxs v ++ ")"
  | .bytes v => "(bytes " ++ hxs v ++ ")"
  | .param n => "(param " ++ hxs n ++ ")"
  | .ident n => "(ident " ++ hxs n ++ ")"
  | .path ns => "(path" ++ String.join (ns.map fun n => " " ++ hxs n) ++ ")"
  | .paren e => "(paren " ++ sexp e ++ ")"
  | .unary op e => "(unary " ++ op.name ++ " " ++ sexp e ++ ")"
  | .bin op l r => "(bin " ++ op.name ++ " " ++ sexp l ++ " " ++ sexp r ++ ")"
  | .isNull e not => "(isnull " ++ bname not ++ " " ++ sexp e ++ ")"
  | .isBool e not r => "(isbool " ++ bname not ++ " " ++ bname r ++ " " ++ sexp e ++ ")"
  | .between not e lo hi => "(between " ++ bname not ++ " " ++ sexp e ++ " " ++ sexp lo ++ " " ++ sexp hi ++ ")"
  | .inList not e first more => "(in " ++ bname not ++ " " ++ sexp e ++ " (values " ++ sexp first ++ sexps more ++ "))"
  | .inUnnest not e a => "(in " ++ bname not ++ " " ++ sexp e ++ " (unnest " ++ sexp a ++ "))"
  | .sel e n => "(sel " ++ sexp e ++ " " ++ hxs n ++ ")"
  | .index e none i => "(index " ++ sexp e ++ " (expr " ++ sexp i ++ "))"
  | .index e (some (k, _)) i => "(index " ++ sexp e ++ " (" ++ k.name ++ " " ++ sexp i ++ "))"
  | .caseE o c t ws el =>
    "(case " ++ sexpO o ++ " (when " ++ sexp c ++ " " ++ sexp t ++ ")" ++ sexpWs ws ++ " " ++ sexpO el ++ ")"
  | .ifE c t e => "(if " ++ sexp c ++ " " ++ sexp t ++ " " ++ sexp e ++ ")"
  | .array es => "(array" ++ sexps es ++ ")"
def sexps : Exprs → String
  | .nil => ""
  | .cons e es => " " ++ sexp e ++ sexps es
def sexpWs : Whens → String
  | .nil => ""
  | .cons c t ws => " (when " ++ sexp c ++ " " ++ sexp t ++ ")" ++ sexpWs ws
def sexpO : OExpr → String
  | .none => "-"
  | .some e => sexp e
end

/-- the EXPR request: lex, apply the token-level OUTSIDE rule, parse -/
def exprRun (buf : Bytes) : String :=
  match Lex.lexAll buf with
  | .ok ts =>
    if tokenOutside ts then "OUTSIDE"
    else
      match parseExprTop (topFuel ts) ts with
      | .ok e => "OK " ++ sexp e ++ " " ++ hxs (sqlE e)
      | .raise => "ERR"
      | .outside => "OUTSIDE-MODEL"
      | .crash => "CRASH"
      | .outOfFuel => "FUEL"
  | .err _ _ => "ERR"
  | .crash _ => "CRASH"

end MF.Expr
