/-
  MF.Model.Char — `char/is.go`, `char/convert.go`.
  The generated file `MF/Gen/CharClass.lean` re-translates the Go bodies on every run and
  `MF/Props` proves them equal to these on all 256 bytes.
-/
import MF.Model.Basic
namespace MF.Char

def isPrint (b : UInt8) : Bool := 0x20 ≤ b && b ≤ 0x7E
def isDigit (c : UInt8) : Bool := 48 ≤ c && c ≤ 57
def isHexDigit (c : UInt8) : Bool :=
  (48 ≤ c && c ≤ 57) || (97 ≤ c && c ≤ 102) || (65 ≤ c && c ≤ 70)
def isOctalDigit (c : UInt8) : Bool := 48 ≤ c && c ≤ 55
def isIdentStart (c : UInt8) : Bool :=
  (97 ≤ c && c ≤ 122) || (65 ≤ c && c ≤ 90) || c == 95
def isIdentPart (c : UInt8) : Bool :=
  (48 ≤ c && c ≤ 57) || (97 ≤ c && c ≤ 122) || (65 ≤ c && c ≤ 90) || c == 95

def upperByte (c : UInt8) : UInt8 := if 97 ≤ c && c ≤ 122 then c - 32 else c

/-- `char.ToUpper` (its copy-on-write detail is unobservable: the result is the byte-wise map). -/
def toUpper (s : Bytes) : Bytes := s.map upperByte

/-- `char.EqualFold` -/
def equalFold (s t : Bytes) : Bool := s.length == t.length && s.map upperByte == t.map upperByte

/-- value of a hex digit (only used on bytes satisfying `isHexDigit`) -/
def hexVal (c : UInt8) : Nat :=
  if 48 ≤ c && c ≤ 57 then c.toNat - 48
  else if 97 ≤ c && c ≤ 102 then c.toNat - 87
  else c.toNat - 55

end MF.Char
