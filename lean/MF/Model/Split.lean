/-
  MF.Model.Split — `split.go` (`SplitRawStatements`), statement for statement.
-/
import MF.Model.Lexer
namespace MF.Split
open MF.Lex

structure Piece where
  pos : Nat
  «end» : Nat
  statement : Bytes
  deriving Repr, DecidableEq

inductive SplitRes where
  | ok (ps : List Piece)
  | err (e : LexErr)
  | crash
  deriving Repr

/-- `[]*RawStatement{{Statement: ""}}` when nothing was collected -/
def finish (acc : List Piece) : SplitRes :=
  if acc.isEmpty then .ok [{ pos := 0, «end» := 0, statement := [] }] else .ok acc

/-- where the piece after a `;` starts: the first leading comment of the next token, else the token -/
def startOf (t : Token) : Nat :=
  match t.comments with
  | c :: _ => c.pos
  | [] => t.pos

/-- the `for` loop of `SplitRawStatements`; `s.tok` is `lex.Token` -/
def splitLoop (buf : Bytes) : Nat → State → Nat → List Piece → SplitRes
  | 0, _, _, _ => .crash
  | fuel + 1, s, firstPos, acc =>
    if s.tok.kind == K ";" then
      match slice? buf firstPos s.tok.pos with
      | none => .crash
      | some st =>
        match nextToken buf false s with
        | .err e => .err e
        | .crash => .crash
        | .ok s' => splitLoop buf fuel s' (startOf s'.tok) (acc ++ [{ pos := firstPos, «end» := s.tok.pos, statement := st }])
    else
      match nextToken buf false s with
      | .err e => .err e
      | .crash => .crash
      | .ok s' =>
        if s'.tok.kind == .eof then
          if s'.tok.pos != firstPos then
            match slice? buf firstPos s'.tok.pos with
            | none => .crash
            | some st => finish (acc ++ [{ pos := firstPos, «end» := s'.tok.pos, statement := st }])
          else finish acc
        else splitLoop buf fuel s' firstPos acc

def split (buf : Bytes) : SplitRes := splitLoop buf (buf.length + 3) Lex.init 0 []

end MF.Split
