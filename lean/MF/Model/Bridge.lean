/-
  MF.Model.Bridge — the typed fragment trees (layer M1: `MF.Expr.PExpr`, `MF.TypeP.Ty`) as GENERIC trees (layer A:
  `MF.Ast.Node`), exactly as the reflective dump of the Go harness (harness/tree.go `dumpTreeStr`) denotes the
  corresponding `ast` value:

    kind      = the Go struct name;
    scalars   = the exported non-node fields in declaration order (`token.Pos` → `.pos`, `bool` → `.bool`, `int` → `.int`,
                `string` / string enums / `[]byte` → `.str`; an enum carries the Go constant's string value);
    children  = the node-typed fields in declaration order; a single child has index `none`, the elements of a slice
                carry their indices `0, 1, …` (a nil child has no entry: only `StructField.Ident` can be nil here).

  One function per Go node kind (`nNullLiteral`, …, `nStructField`): they take the already translated children, so that
  the per-kind theorems of MF/Proofs/Bridge*.lean can be stated about them for ARBITRARY child nodes, and a new
  constructor of `PExpr` / `Ty` only needs its own builder, its own per-kind lemma and one more case in the inductions.

  `toNodeP` / `toNodeT` are validated against Go by the BRIDGE channel: `bridgeRunE` / `bridgeRunT` render the tree in the
  line format of `dumpTreeStr` (per node also `Pos()`, `End()`, `SQL()` — computed here by the generic interpreters from
  the regenerated tables), the harness answers with its own dump of `memefish.ParseExpr` / `ParseType`.
-/
import MF.Model.ExprPos
import MF.Model.TypeParse
import MF.Model.Tree
import MF.Model.Print
namespace MF.Bridge
open MF MF.Ast

/-! ## builders, one per Go struct -/

/-- `Ident{NamePos, NameEnd, Name}` -/
def nIdent (namePos nameEnd : Nat) (name : Bytes) : Node :=
  .mk "Ident" [("NamePos", .pos namePos), ("NameEnd", .pos nameEnd), ("Name", .str name)] .nil

/-- `NullLiteral{Null}` -/
def nNullLiteral (p : Nat) : Node := .mk "NullLiteral" [("Null", .pos p)] .nil
/-- `BoolLiteral{ValuePos, Value}` -/
def nBoolLiteral (p : Nat) (b : Bool) : Node := .mk "BoolLiteral" [("ValuePos", .pos p), ("Value", .bool b)] .nil
/-- `IntLiteral{ValuePos, ValueEnd, Base, Value}` -/
def nIntLiteral (p e : Nat) (base : Nat) (v : Bytes) : Node :=
  .mk "IntLiteral" [("ValuePos", .pos p), ("ValueEnd", .pos e), ("Base", .int base), ("Value", .str v)] .nil
/-- `FloatLiteral{ValuePos, ValueEnd, Value}` -/
def nFloatLiteral (p e : Nat) (v : Bytes) : Node :=
  .mk "FloatLiteral" [("ValuePos", .pos p), ("ValueEnd", .pos e), ("Value", .str v)] .nil
/-- `StringLiteral{ValuePos, ValueEnd, Value}` -/
def nStringLiteral (p e : Nat) (v : Bytes) : Node :=
  .mk "StringLiteral" [("ValuePos", .pos p), ("ValueEnd", .pos e), ("Value", .str v)] .nil
/-- `BytesLiteral{ValuePos, ValueEnd, Value}` -/
def nBytesLiteral (p e : Nat) (v : Bytes) : Node :=
  .mk "BytesLiteral" [("ValuePos", .pos p), ("ValueEnd", .pos e), ("Value", .str v)] .nil
/-- `Param{Atmark, Name}` -/
def nParam (a : Nat) (name : Bytes) : Node := .mk "Param" [("Atmark", .pos a), ("Name", .str name)] .nil
/-- `Path{Idents}` -/
def nPath (idents : Kids) : Node := .mk "Path" [] idents
/-- `ParenExpr{Lparen, Rparen, Expr}` -/
def nParenExpr (lp rp : Nat) (e : Node) : Node :=
  .mk "ParenExpr" [("Lparen", .pos lp), ("Rparen", .pos rp)] (.cons "Expr" none e .nil)
/-- `UnaryExpr{OpPos, Op, Expr}` -/
def nUnaryExpr (opPos : Nat) (op : Bytes) (e : Node) : Node :=
  .mk "UnaryExpr" [("OpPos", .pos opPos), ("Op", .str op)] (.cons "Expr" none e .nil)
/-- `BinaryExpr{Op, Left, Right}` -/
def nBinaryExpr (op : Bytes) (l r : Node) : Node :=
  .mk "BinaryExpr" [("Op", .str op)] (.cons "Left" none l (.cons "Right" none r .nil))
/-- `IsNullExpr{Null, Not, Left}` -/
def nIsNullExpr (nullPos : Nat) (not : Bool) (l : Node) : Node :=
  .mk "IsNullExpr" [("Null", .pos nullPos), ("Not", .bool not)] (.cons "Left" none l .nil)
/-- `IsBoolExpr{RightPos, Not, Left, Right}` -/
def nIsBoolExpr (rightPos : Nat) (not : Bool) (l : Node) (right : Bool) : Node :=
  .mk "IsBoolExpr" [("RightPos", .pos rightPos), ("Not", .bool not), ("Right", .bool right)] (.cons "Left" none l .nil)
/-- `BetweenExpr{Not, Left, RightStart, RightEnd}` -/
def nBetweenExpr (not : Bool) (l lo hi : Node) : Node :=
  .mk "BetweenExpr" [("Not", .bool not)]
    (.cons "Left" none l (.cons "RightStart" none lo (.cons "RightEnd" none hi .nil)))
/-- `InExpr{Not, Left, Right}` -/
def nInExpr (not : Bool) (l r : Node) : Node :=
  .mk "InExpr" [("Not", .bool not)] (.cons "Left" none l (.cons "Right" none r .nil))
/-- `ValuesInCondition{Lparen, Rparen, Exprs}` -/
def nValuesInCondition (lp rp : Nat) (exprs : Kids) : Node :=
  .mk "ValuesInCondition" [("Lparen", .pos lp), ("Rparen", .pos rp)] exprs
/-- `UnnestInCondition{Unnest, Rparen, Expr}` -/
def nUnnestInCondition (un rp : Nat) (e : Node) : Node :=
  .mk "UnnestInCondition" [("Unnest", .pos un), ("Rparen", .pos rp)] (.cons "Expr" none e .nil)
/-- `SelectorExpr{Expr, Ident}` -/
def nSelectorExpr (e ident : Node) : Node :=
  .mk "SelectorExpr" [] (.cons "Expr" none e (.cons "Ident" none ident .nil))
/-- `IndexExpr{Rbrack, Expr, Index}` -/
def nIndexExpr (rbrack : Nat) (e index : Node) : Node :=
  .mk "IndexExpr" [("Rbrack", .pos rbrack)] (.cons "Expr" none e (.cons "Index" none index .nil))
/-- `ExprArg{Expr}` -/
def nExprArg (e : Node) : Node := .mk "ExprArg" [] (.cons "Expr" none e .nil)
/-- `SubscriptSpecifierKeyword{KeywordPos, Rparen, Keyword, Expr}` -/
def nSubscriptSpecifierKeyword (kwPos rp : Nat) (kw : Bytes) (e : Node) : Node :=
  .mk "SubscriptSpecifierKeyword" [("KeywordPos", .pos kwPos), ("Rparen", .pos rp), ("Keyword", .str kw)]
    (.cons "Expr" none e .nil)

/-- the children `a` followed by the children `b` -/
def appKids : Kids → Kids → Kids
  | .nil, b => b
  | .cons f i n r, b => .cons f i n (appKids r b)

/-- an optional single child (a nil child has no entry) -/
def optKid (f : String) : Option Node → Kids
  | none => .nil
  | some n => .cons f none n .nil

/-- `CaseExpr{Case, EndPos, Expr, Whens, Else}`; `kids` = the operand (if any), the `Whens`, the `Else` (if any) -/
def nCaseExpr (cp ep : Nat) (kids : Kids) : Node := .mk "CaseExpr" [("Case", .pos cp), ("EndPos", .pos ep)] kids
/-- `CaseWhen{When, Cond, Then}` -/
def nCaseWhen (wp : Nat) (c t : Node) : Node :=
  .mk "CaseWhen" [("When", .pos wp)] (.cons "Cond" none c (.cons "Then" none t .nil))
/-- `CaseElse{Else, Expr}` -/
def nCaseElse (p : Nat) (e : Node) : Node := .mk "CaseElse" [("Else", .pos p)] (.cons "Expr" none e .nil)
/-- `IfExpr{If, Rparen, Expr, TrueResult, ElseResult}` -/
def nIfExpr (ip rp : Nat) (c t e : Node) : Node :=
  .mk "IfExpr" [("If", .pos ip), ("Rparen", .pos rp)]
    (.cons "Expr" none c (.cons "TrueResult" none t (.cons "ElseResult" none e .nil)))

/-- `ArrayLiteral{Array, Lbrack, Rbrack, Type, Values}` of a literal without `ARRAY` keyword (`Array = InvalidPos`) and
without element type (`Type = nil`: no entry) -/
def nArrayLiteral (lb rb : Nat) (values : Kids) : Node :=
  .mk "ArrayLiteral" [("Array", .pos (-1)), ("Lbrack", .pos lb), ("Rbrack", .pos rb)] values

/-- `CastExpr{Cast, Rparen, Safe, Expr, Type}` -/
def nCastExpr (cp rp : Nat) (safe : Bool) (e t : Node) : Node :=
  .mk "CastExpr" [("Cast", .pos cp), ("Rparen", .pos rp), ("Safe", .bool safe)]
    (.cons "Expr" none e (.cons "Type" none t .nil))

/-- `SimpleType{NamePos, Name}` -/
def nSimpleType (p : Nat) (name : Bytes) : Node := .mk "SimpleType" [("NamePos", .pos p), ("Name", .str name)] .nil
/-- `NamedType{Path}` -/
def nNamedType (path : Kids) : Node := .mk "NamedType" [] path
/-- `ArrayType{Array, Gt, Item}` -/
def nArrayType (a gt : Nat) (item : Node) : Node :=
  .mk "ArrayType" [("Array", .pos a), ("Gt", .pos gt)] (.cons "Item" none item .nil)
/-- `StructType{Struct, Gt, Fields}` -/
def nStructType (s gt : Nat) (fields : Kids) : Node := .mk "StructType" [("Struct", .pos s), ("Gt", .pos gt)] fields
/-- `StructField{Ident, Type}`; `Ident` may be nil -/
def nStructField (ident : Option Node) (type : Node) : Node :=
  .mk "StructField" []
    (match ident with
     | some i => .cons "Ident" none i (.cons "Type" none type .nil)
     | none => .cons "Type" none type .nil)

/-! ## expressions -/

/-- `IntLiteral.Base` is the token's `Base`: 16 for `0x…` / `0X…`, else 10 (a folded sign leaves it alone) -/
def intBase (raw : Bytes) : Nat := if Lex.isHexPrefix raw then 16 else 10

def identP (i : Expr.PIdent) : Node := nIdent i.namePos i.nameEnd i.name

/-- the elements of an `[]*Ident` field `f`, from index `k` on -/
def identKidsP (f : String) : Nat → List Expr.PIdent → Kids
  | _, [] => .nil
  | k, i :: r => .cons f (some k) (identP i) (identKidsP f (k + 1) r)

mutual
/-- the generic tree of the `ast.Expr` value the positioned fragment tree stands for -/
def toNodeP : Expr.PExpr → Node
  | .null p => nNullLiteral p
  | .bool p b => nBoolLiteral p b
  | .int p e s raw => nIntLiteral p e (intBase raw) (Expr.signStr s ++ raw)
  | .float p e s raw => nFloatLiteral p e (Expr.signStr s ++ raw)
  | .str p e v => nStringLiteral p e v
  | .bytes p e v => nBytesLiteral p e v
  | .param a n => nParam a n
  | .ident id => identP id
  | .path ids => nPath (identKidsP "Idents" 0 ids)
  | .paren lp rp e => nParenExpr lp rp (toNodeP e)
  | .unary p op e => nUnaryExpr p op.str (toNodeP e)
  | .bin op l r => nBinaryExpr op.str (toNodeP l) (toNodeP r)
  | .isNull p e not => nIsNullExpr p not (toNodeP e)
  | .isBool p e not r => nIsBoolExpr p not (toNodeP e) r
  | .between not e lo hi => nBetweenExpr not (toNodeP e) (toNodeP lo) (toNodeP hi)
  | .inList not e lp rp first more =>
    nInExpr not (toNodeP e) (nValuesInCondition lp rp (.cons "Exprs" (some 0) (toNodeP first) (toKidsP 1 more)))
  | .inUnnest not e un rp a => nInExpr not (toNodeP e) (nUnnestInCondition un rp (toNodeP a))
  | .sel e id => nSelectorExpr (toNodeP e) (identP id)
  | .index rb e none i => nIndexExpr rb (toNodeP e) (nExprArg (toNodeP i))
  | .index rb e (some w) i =>
    nIndexExpr rb (toNodeP e) (nSubscriptSpecifierKeyword w.keywordPos w.rparen w.k.str (toNodeP i))
  | .caseE cp ep o wp c t ws el =>
    nCaseExpr cp ep (appKids (optKid "Expr" (toNodeO false o))
      (appKids (.cons "Whens" (some 0) (nCaseWhen wp (toNodeP c) (toNodeP t)) (toKidsW 1 ws))
        (optKid "Else" (toNodeO true el))))
  | .ifE ip rp c t e => nIfExpr ip rp (toNodeP c) (toNodeP t) (toNodeP e)
  | .array lb rb es => nArrayLiteral lb rb (toKidsV 0 es)
  | .cast cp rp e path => nCastExpr cp rp false (toNodeP e) (nNamedType (identKidsP "Path" 0 path))
/-- the elements of `ValuesInCondition.Exprs` from index `k` on -/
def toKidsP : Nat → Expr.PExprs → Kids
  | _, .nil => .nil
  | k, .cons e es => .cons "Exprs" (some k) (toNodeP e) (toKidsP (k + 1) es)
/-- the elements of `ArrayLiteral.Values` from index `k` on -/
def toKidsV : Nat → Expr.PExprs → Kids
  | _, .nil => .nil
  | k, .cons e es => .cons "Values" (some k) (toNodeP e) (toKidsV (k + 1) es)
/-- the elements of `CaseExpr.Whens` from index `k` on -/
def toKidsW : Nat → Expr.PWhens → Kids
  | _, .nil => .nil
  | k, .cons wp c t ws => .cons "Whens" (some k) (nCaseWhen wp (toNodeP c) (toNodeP t)) (toKidsW (k + 1) ws)
/-- `CaseExpr.Expr` (`kw = false`: the expression itself) or `CaseExpr.Else` (`kw = true`: a `CaseElse` node), if present -/
def toNodeO (kw : Bool) : Expr.POExpr → Option Node
  | .none => none
  | .some p e => some (if kw then nCaseElse p (toNodeP e) else toNodeP e)
end

/-! ## types -/

def identT (i : TypeP.Ident) : Node := nIdent i.namePos i.nameEnd i.name

def identKidsT (f : String) : Nat → List TypeP.Ident → Kids
  | _, [] => .nil
  | k, i :: r => .cons f (some k) (identT i) (identKidsT f (k + 1) r)

mutual
/-- the generic tree of the `ast.Type` value -/
def toNodeT : TypeP.Ty → Node
  | .simple p n => nSimpleType p n
  | .named path => nNamedType (identKidsT "Path" 0 path)
  | .array a gt item => nArrayType a gt (toNodeT item)
  | .struct s gt fs => nStructType s gt (toKidsF 0 fs)
/-- the elements of `StructType.Fields` from index `k` on -/
def toKidsF : Nat → TypeP.Fields → Kids
  | _, .nil => .nil
  | k, .cons i t rest => .cons "Fields" (some k) (nStructField (i.map identT) (toNodeT t)) (toKidsF (k + 1) rest)
end

/-! ## the BRIDGE line protocol: the tree in the format of `dumpTreeStr` (harness/tree.go) -/

def renderScalar : String × Scalar → String
  | (n, .pos p) => s!"P {n} {p}"
  | (n, .bool b) => s!"B {n} {if b then 1 else 0}"
  | (n, .int i) => s!"I {n} {i}"
  | (n, .str s) => s!"S {n} {if s.isEmpty then "-" else toHex s}"
  | (n, .toks ts) => s!"T {n} {ts.length}"      -- no token-list field in the fragment kinds

def renderSql : Option Bytes → String
  | some b => s!"{b.length}:{(fnv1a64 b).toNat}"
  | none => "PANIC"

def renderPos (r : Option (Int × Int)) (pick : Int × Int → Int) : String :=
  match r with
  | some v => toString (pick v)
  | none => "X"

/-- `N <Kind> <Pos()> <End()> <len:fnv of SQL()> <#scalars> <scalars…> <#children> <K field idx child>…` -/
partial def renderNode (PT : PosTables) (ST : SqlTables) (isPrint : Nat → Bool) : Node → String
  | .mk k sc kids =>
    let n : Node := .mk k sc kids
    let pe := goPosEnd PT n
    let ks := kids.toList
    s!"N {k} {renderPos pe (·.1)} {renderPos pe (·.2)} {renderSql (sqlOf ST isPrint n)} {sc.length}" ++
      String.join (sc.map fun s => " " ++ renderScalar s) ++ s!" {ks.length}" ++
      String.join (ks.map fun (f, i, c) =>
        s!" K {f} {match i with | some j => toString j | none => "-"} " ++ renderNode PT ST isPrint c)

/-- `BRIDGE E`: lex, token-level OUTSIDE rule, positioned parse (as the EXPRPOS channel), then the generic tree -/
def bridgeRunE (PT : PosTables) (ST : SqlTables) (isPrint : Nat → Bool) (buf : Bytes) : String :=
  match Lex.lexAll buf with
  | .ok ts =>
    if Expr.tokenOutside ts then "OUTSIDE"
    else
      match Expr.parsePTop (Expr.topFuel ts) ts with
      | .ok e => "OK " ++ renderNode PT ST isPrint (toNodeP e)
      | .raise => "ERR"
      | .outside => "OUTSIDE-MODEL"
      | .crash => "CRASH"
      | .outOfFuel => "FUEL"
  | .err _ _ => "ERR"
  | .crash _ => "CRASH"

/-- `BRIDGE T`: lex, `ParseType` model (as the TYPE channel), then the generic tree -/
def bridgeRunT (PT : PosTables) (ST : SqlTables) (isPrint : Nat → Bool) (buf : Bytes) : String :=
  match Lex.lexAll buf with
  | .ok ts =>
    match TypeP.parseTypeTop (TypeP.topFuel ts) ts with
    | .ok t => "OK " ++ renderNode PT ST isPrint (toNodeT t)
    | .raise => "ERR"
    | .outOfFuel => "FUEL"
  | .err _ _ => "ERR"
  | .crash _ => "CRASH"

end MF.Bridge
