/-
  MF.Model.Tree — Pos()/End() of every node of a generic tree, computed bottom-up from the regenerated
  tables: the documented POS expressions (`posDoc`) or the bodies of pos.go (`posGo`).
-/
import MF.Model.PosLang
namespace MF.Ast

structure PosTables where
  kinds : List KindDecl
  doc : List (String × PosE × PosE)
  go : List (String × GoPos × GoPos)

def PosTables.fieldsOf (T : PosTables) (k : String) : List FieldDecl :=
  match T.kinds.find? (·.name == k) with
  | some d => d.fields
  | none => []

-- `(Pos(), End())` by the documented expressions; `none` = a Go panic (or an unknown kind)
mutual
  def docPosEnd (T : PosTables) : Node → Option (Int × Int)
    | .mk k sc kids =>
      match docKids T kids, T.doc.lookup k with
      | some ks, some (pe, ee) =>
        let c : Ctx := ⟨sc, ks, T.fieldsOf k⟩
        match pe.eval c, ee.eval c with
        | some p, some e => some (p, e)
        | _, _ => none
      | _, _ => none
  def docKids (T : PosTables) : Kids → Option (List KidPE)
    | .nil => some []
    | .cons f i n r =>
      match docPosEnd T n, docKids T r with
      | some (p, e), some ks => some (⟨f, i, p, e⟩ :: ks)
      | _, _ => none
end

-- the same through the compiled methods (`pos.go` terms over the helpers of `pos_util.go`)
mutual
  def goPosEnd (T : PosTables) : Node → Option (Int × Int)
    | .mk k sc kids =>
      match goKids T kids, T.go.lookup k with
      | some ks, some (pe, ee) =>
        let c : Ctx := ⟨sc, ks, T.fieldsOf k⟩
        match pe.eval c, ee.eval c with
        | some p, some e => some (p, e)
        | _, _ => none
      | _, _ => none
  def goKids (T : PosTables) : Kids → Option (List KidPE)
    | .nil => some []
    | .cons f i n r =>
      match goPosEnd T n, goKids T r with
      | some (p, e), some ks => some (⟨f, i, p, e⟩ :: ks)
      | _, _ => none
end

end MF.Ast
