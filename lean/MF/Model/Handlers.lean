/-
  MF.Model.Handlers — the four recovery handlers of `parser.go` (`handleParseStatementError`,
  `handleParseQueryExprError(simple, …)`, `handleParseExprError`, `handleParseTypeError`) and `BadNode.SQL()` of
  `ast/sql.go`, over the lexer model.

  Every handler is `p.handleError(r, l)` (which installs the restored lexer `l`: `p.Lexer = l`, so `p.Token` is
  `l.Token`) followed by one skip loop

      pos := p.Token.Pos; end := p.Token.Pos; nesting := 0
      for p.Token.Kind != token.TokenEOF {
          switch p.Token.Kind { … break skip … nesting ± … }
          end = p.Token.End; tokens = append(tokens, p.Token.Clone())     -- (type handler: append first, then end)
          p.Lexer.nextToken(true)
      }

  The four loops differ only in the `switch`, which is the function `action` below: given the handler, the
  nesting counter and the kind of the current token it says `stop` (`break skip`), `split` (the `>>` case of the
  type handler at nesting 1: `p.Token.Kind = ">"; p.Token.Pos += 1; break skip`) or `take n'` (fall out of the
  switch with the counter updated to `n'`, collect the token, advance).  `nesting` is a Go `int` that is only
  decremented behind a `nesting == 0` / `nesting == 1` test, so it never becomes negative: `Nat` is exact.
  The loop is structural recursion on a fuel argument; running out of fuel is `crash` (so "the fuel suffices"
  is a theorem, `Proofs/Handlers.lean`).
-/
import MF.Model.Lexer
namespace MF.Handlers
open MF MF.Lex

/-- which handler; `query simple` is `handleParseQueryExprError(simple, …)` -/
inductive HKind
  | statement | query (simple : Bool) | expr | type
  deriving DecidableEq, Repr, Inhabited

/-- outcome of the `switch p.Token.Kind` of one loop iteration -/
inductive Act
  | stop                  -- `break skip`
  | split                 -- `p.Token.Kind = ">"; p.Token.Pos += 1; break skip`
  | take (nesting : Nat)  -- leave the switch with this value of `nesting`; the token is collected
  deriving DecidableEq, Repr, Inhabited

/-- `p.Token.Kind` is one of the listed keyword / punctuation kinds (a `case "a", "b", …:` label) -/
def isK (k : TokKind) (ss : List String) : Bool := ss.any (fun s => k == K s)

/-- the `switch` of the four skip loops, case for case -/
def action : HKind → Nat → TokKind → Act
  | .statement, n, k =>
    if isK k [";"] then .stop
    else .take n
  | .query simple, n, k =>
    if isK k [";"] then .stop
    else if isK k ["("] then .take (n + 1)
    else if isK k [")"] then (if n == 0 then .stop else .take (n - 1))
    else if isK k ["UNION", "INTERSECT", "EXCEPT"] then (if simple && n == 0 then .stop else .take n)
    else .take n
  | .expr, n, k =>
    if isK k [";"] then .stop
    else if isK k ["(", "[", "CASE", "WHEN"] then .take (n + 1)
    else if isK k [")", "]", "}", "END", "THEN"] then (if n == 0 then .stop else .take (n - 1))
    else if isK k [",", "AS", "FROM", "GROUP", "HAVING", "ORDER", "LIMIT", "OFFSET", "AT", "UNION", "INTERSECT", "EXCEPT"] then
      (if n == 0 then .stop else .take n)
    else .take n
  | .type, n, k =>
    if isK k [";", ")"] then .stop
    else if isK k ["<"] then .take (n + 1)
    else if isK k [">"] then (if n == 0 then .stop else .take (n - 1))
    else if isK k [">>"] then
      (if n == 0 then .stop
       else if n == 1 then .split
       else .take (n - 2))
    else if isK k [","] then (if n == 0 then .stop else .take n)
    else .take n

/-- what a handler leaves behind: the `BadNode` fields and the lexer (`p.Lexer`, whose `tok` is `p.Token`) -/
structure Out where
  tokens : List Token
  nodePos : Nat
  nodeEnd : Nat
  final : State
  deriving Repr, DecidableEq

/-- the `>>` split applied to the current token -/
def splitTok (s : State) : State := { s with tok := { s.tok with kind := K ">", pos := s.tok.pos + 1 } }

/-- the skip loop.  `s` is `*p.Lexer` at the loop head (`s.tok` is `p.Token`), `n` is `nesting`, `toks` and `e`
are `tokens` and `end`; `pos` is only carried to the result. -/
def skipLoop (buf : Bytes) (h : HKind) (pos : Nat) : Nat → State → Nat → List Token → Nat → Res Out
  | 0, _, _, _, _ => .crash
  | fuel + 1, s, n, toks, e =>
    -- `for p.Token.Kind != token.TokenEOF`
    if s.tok.kind == .eof then .ok ⟨toks, pos, e, s⟩
    else
      match action h n s.tok.kind with
      | .stop => .ok ⟨toks, pos, e, s⟩
      | .split => .ok ⟨toks, pos, e, splitTok s⟩
      | .take n' =>
        -- `end = p.Token.End; tokens = append(tokens, p.Token.Clone())` (in the type handler the other way round:
        -- neither statement can fail, so the order is not observable)
        let e' := s.tok.end
        let toks' := toks ++ [s.tok]
        -- `p.Lexer.nextToken(true)`
        match nextToken buf true s with
        | .ok s' => skipLoop buf h pos fuel s' n' toks' e'
        | .err er => .err er
        | .crash => .crash

/-- a handler applied to the restored lexer `l`: `pos := p.Token.Pos; end := p.Token.Pos; nesting := 0`, then the loop.
The fuel `len - l.pos + 2` is shown sufficient in `Proofs/Handlers.lean`. -/
def handler (buf : Bytes) (h : HKind) (l : State) : Res Out :=
  skipLoop buf h l.tok.pos (buf.length - l.pos + 2) l 0 [] l.tok.pos

/-- the comment loop of `BadNode.SQL()` for one token -/
def sqlComments (sql : Bytes) : List Comment → Bytes
  | [] => sql
  | c :: cs => sqlComments ((if !sql.isEmpty && c.space.length > 0 then sql ++ [32] else sql) ++ c.raw) cs

/-- the body of the token loop of `BadNode.SQL()` -/
def sqlTok (sql : Bytes) (t : Token) : Bytes :=
  let sql := sqlComments sql t.comments
  (if !sql.isEmpty && t.space.length > 0 then sql ++ [32] else sql) ++ t.raw

/-- `BadNode.SQL()` (ast/sql.go): per token its comments, each preceded by one blank when it had leading space
and is not at the very start, then the same for the token's `Raw`. -/
def badSQL (toks : List Token) : Bytes := toks.foldl sqlTok []

/-- what the hook `VerifRecover` does before calling the handler: `skip` panic-mode steps from the initial lexer;
a lexical error stops the advance and leaves the state before the failing token (`none` = Go runtime panic). -/
def advance (buf : Bytes) : Nat → State → Option State
  | 0, s => some s
  | k + 1, s =>
    match nextToken buf false s with
    | .ok s' => advance buf k s'
    | .err _ => some s
    | .crash => none

end MF.Handlers
