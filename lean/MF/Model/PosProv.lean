/-
  MF.Model.PosProv — types of the position-provenance facts that `tools/extract/posprov.go` reads out of parser.go on
  every run (`MF/Gen/PosProv.lean`), and the decidable checks the C05/C06 table obligations O2 (`offsets_match`) and
  O3 (`chains_complete`) are made of.  Nothing here is about bytes; the meaning of a provenance is given by
  `MF/Proofs/PosProv.lean` (`offset_sound`).

  A provenance says where the value of a `token.Pos` field of a node literal `ast.K{…}` comes from, syntactically:

    tok alts side      `p.expect("X").Pos` / `p.expectKeywordLike("W").Pos` (also through a local variable)
    tokvar alts side   `id.Pos` of a token variable (`id := p.expect(token.TokenIdent)`, `id := p.Token`)
    cur alts side      `p.Token.Pos` read from the current token (also `pos := p.Token.Pos`)
                       `alts` is what the dominating guards / the `expect` say the token is: one of the listed
                       alternatives; `[]` = NOTHING is known (no guard, or a `nextToken()` in between)
    invalid            `token.InvalidPos`
    nodePos / nodeEnd  `x.Pos()` / `x.End()` of a node
    param              a parameter of the enclosing function that no call site resolves
    unset              the literal does not set the field (it is 0, a VALID position)
    other src          anything else (the Go source text)
-/
import MF.Model.Ast
namespace MF.PosProv
open MF MF.Ast

inductive TokAlt where
  | sym (s : String)        -- `Kind == "s"`: a keyword or punctuation token
  | kwlike (w : String)     -- `IsKeywordLike("w")`: an unquoted identifier spelled w in some case
  | ident                   -- `Kind == token.TokenIdent`
  | identAs (w : String)    -- `IsIdent("w")`: an identifier (possibly back-quoted) whose name is w in some case
  | special (k : String)    -- another `token.TokenXxx` constant
  deriving Repr, DecidableEq, Inhabited

inductive Side where
  | start | «end»
  deriving Repr, DecidableEq, Inhabited

inductive Prov where
  | tok (alts : List TokAlt) (side : Side)
  | tokvar (alts : List TokAlt) (side : Side)
  | cur (alts : List TokAlt) (side : Side)
  | invalid
  | nodePos (src : String)
  | nodeEnd (src : String)
  | param (name : String)
  | unset
  | other (src : String)
  deriving Repr, DecidableEq, Inhabited

structure FieldProv where
  field : String
  /-- "" | "param <name>" (resolved at the call sites) | "assign" (set by `x.F = …` after the literal) -/
  via : String
  /-- every provenance the field can have at this site (several: joins, several call sites, literal + later assignment) -/
  provs : List Prov
  deriving Repr, DecidableEq, Inhabited

structure PosSite where
  func : String
  line : Nat
  /-- one entry per `token.Pos` field of the kind, in declaration order -/
  fields : List FieldProv
  deriving Repr, DecidableEq, Inhabited

structure KindSites where
  kind : String
  sites : List PosSite
  deriving Repr, DecidableEq, Inhabited

/-! ### O2: what a summand `F + n` needs -/

/-- byte length of the raw text of a token of this class, when the class fixes it: a keyword / punctuation token is
    spelled with the bytes of its kind (in some case), an unquoted keyword-like identifier with the letters of the word -/
def TokAlt.len : TokAlt → Option Nat
  | .sym s => some (B s).length
  | .kwlike w => some (B w).length
  | _ => none

/-- the provenance licenses `F + n`: F is the START of a token whose class is known and every alternative is n bytes long;
    or F is invalid (then `F + n` is invalid too: `posAdd`) -/
def provOK (n : Nat) : Prov → Bool
  | .tok alts .start | .tokvar alts .start | .cur alts .start => !alts.isEmpty && alts.all (fun a => a.len == some n)
  | .invalid => true
  | _ => false

/-- the summands `F + n` with a literal n -/
def litSummands (e : PosE) : List (String × Nat) :=
  e.alts.filterMap fun t =>
    match t.atom, t.adds with
    | .var f, [.lit n] => some (f, n)
    | _, _ => none

/-- summands of another shape (`NamePos + len(Name)`, `ValuePos + (Value ? 4 : 5)`, `Atmark + 1 + len(Name)`): out of scope -/
def oddSummands (e : PosE) : List (String × List IntE) :=
  e.alts.filterMap fun t =>
    match t.atom, t.adds with
    | _, [] => none
    | .var _, [.lit _] => none
    | .var f, adds => some (f, adds)
    | _, adds => some ("<node>", adds)

structure Undischarged where
  func : String
  kind : String
  field : String
  n : Nat
  prov : Prov
  deriving Repr, DecidableEq, Inhabited

abbrev Key := String × String × String

def Undischarged.key (u : Undischarged) : Key := (u.func, u.kind, u.field)

def siteUndischarged (kind : String) (f : String) (n : Nat) (st : PosSite) : List Undischarged :=
  match st.fields.find? (·.field == f) with
  | some fp => (fp.provs.filter (fun p => !provOK n p)).map fun p => ⟨st.func, kind, f, n, p⟩
  | none => [⟨st.func, kind, f, n, .other "the site has no entry for this field"⟩]

def rowUndischarged (d : String × PosE × PosE) (r : KindSites) : List Undischarged :=
  (litSummands d.2.1 ++ litSummands d.2.2).flatMap fun fn => r.sites.flatMap (siteUndischarged r.kind fn.1 fn.2)

/-- lock-step pass over the documented positions and the site table (both in catalogue order); `none` = the two tables
    are not about the same kinds -/
def undischargedZip : List (String × PosE × PosE) → List KindSites → Option (List Undischarged)
  | [], [] => some []
  | d :: ds, r :: rs =>
    if d.1 == r.kind then (undischargedZip ds rs).map (rowUndischarged d r ++ ·) else none
  | _, _ => none

/-- kinds that have a literal summand but no literal site at all (nothing to check: must be listed) -/
def noSiteZip : List (String × PosE × PosE) → List KindSites → List String
  | d :: ds, r :: rs =>
    (if (litSummands d.2.1 ++ litSummands d.2.2).isEmpty || !r.sites.isEmpty then [] else [r.kind]) ++ noSiteZip ds rs
  | _, _ => []

def dedupKeys : List Key → List Key
  | [] => []
  | k :: ks => if (dedupKeys ks).contains k then dedupKeys ks else k :: dedupKeys ks

def subsetKeys (a b : List Key) : Bool := a.all b.contains

/-- `a` and `b` list the same keys -/
def sameKeys (a b : List Key) : Bool := subsetKeys a b && subsetKeys b a

/-! ### every position is read from a token the reader can name -/

/-- the reader could say which token (or node, or `InvalidPos`) the value comes from -/
def Prov.traced : Prov → Bool
  | .tok alts _ | .tokvar alts _ | .cur alts _ => !alts.isEmpty
  | .invalid | .nodePos _ | .nodeEnd _ => true
  | .param _ | .unset | .other _ => false

/-- the (function, kind, field) of every position field with a provenance that is not traced: a token about which
    nothing is known (no dominating guard, or a `nextToken()` between guard and read), an unresolved parameter, a field
    the literal does not set, anything the reader does not understand -/
def untraced : List KindSites → List (Key × Prov)
  | [] => []
  | r :: rs =>
    (r.sites.flatMap fun st => st.fields.flatMap fun fp =>
      (fp.provs.filter (fun p => !p.traced)).map fun p => ((st.func, r.kind, fp.field), p)) ++ untraced rs

/-! ### rendering, for the diagnostics the Props files print when an obligation fails -/

def fmtKey (k : Key) : String := k.1 ++ " " ++ k.2.1 ++ "." ++ k.2.2

def fmtKeys (ks : List Key) : String := "[" ++ ", ".intercalate (ks.map fmtKey) ++ "]"

end MF.PosProv
