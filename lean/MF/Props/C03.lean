/-
  C03 — Parsing entry points are total: no panic, always terminate, typed errors.

  Obligations (DESIGN §4 C03):
   1. Lexer and splitter (full, every byte string, both lexer modes):
        `lexer_never_panics`      nextToken ≠ crash  (every Go index/slice expression is partial in the model,
                                  loops run on explicit fuel; also covers File.Position while building the *Error)
        `lexer_error_in_range`    every *Error has 0 ≤ Pos ≤ End ≤ len and is raised in panic mode only
        `recovery_lexer_total`    in recovery (noPanic) mode a token is always returned
        `lexer_terminates`        iterating NextToken from the start ends in <eof> or an error within len+2 steps
        `splitter_total`          SplitRawStatements returns pieces or the lexer's *Error, never panics, terminates
   2. Parser, structural: no `*Error` panic escapes an entry point — `Props/C03Parser.lean`
      (theorem `no_escape` about the abstract raise/recover machine, instantiated on the call graph that
      tools/extract regenerates from parser.go on every run).
   3. Parser, semantic: termination of the productions outside the modelled core is NOT proved; every request
      of every parser channel runs under a wall-clock deadline and a hang is reported as a C03 violation.
-/
import MF.Proofs.LexErr
import MF.Proofs.Split
namespace MF.Props.C03
open MF MF.Lex MF.Split

theorem lexer_never_panics {buf : Bytes} {np : Bool} {s : State} (hp : s.pos ≤ buf.length) :
    nextToken buf np s ≠ .crash := nextToken_ne_crash hp

theorem lexer_error_in_range {buf : Bytes} {np : Bool} {s : State} {e : LexErr}
    (h : nextToken buf np s = .err e) (hp : s.pos ≤ buf.length) :
    e.pos ≤ e.end ∧ e.end ≤ buf.length ∧ np = false := nextToken_err_range h hp

theorem recovery_lexer_total {buf : Bytes} {s : State} (hp : s.pos ≤ buf.length) :
    ∃ s', nextToken buf true s = .ok s' := noPanic_total hp

/-- the cursor invariant `pos ≤ len` used as hypothesis above is preserved by every successful step -/
theorem cursor_invariant {buf : Bytes} {np : Bool} {s s' : State} (h : nextToken buf np s = .ok s') :
    s'.pos ≤ buf.length := (nextToken_frame h).le_len

theorem lexer_terminates (buf : Bytes) : ∀ ts, lexAll buf ≠ .crash ts := lexAll_ne_crash buf

theorem splitter_total (buf : Bytes) :
    split buf ≠ .crash ∧ (∀ e, split buf = .err e → ∃ ts, lexAll buf = .err ts e) :=
  ⟨split_ne_crash buf, fun e h => (split_err_iff buf e).1 h⟩

/-- non-vacuity: the inputs that crashed the pinned tree are errors now, in range -/
example : nextToken (B "\"\\x") false Lex.init = .err ⟨.hexEscape, 1, 3⟩ := by rfl
example : ∃ s', nextToken (B "\"\\xa") true Lex.init = .ok s' ∧ s'.pos = 4 ∧ s'.tok.kind = .bad := ⟨_, rfl, rfl, rfl⟩

end MF.Props.C03
