/-
  C15 — The quoting functions are right inverses of lexing.

  For every byte string (and every `unicode.IsPrint` predicate `isPrint : Nat → Bool`, so Go's Unicode tables are
  not trusted), about the model `MF.Quote` of `token/quote.go` over the model `MF.Lex` of `lexer.go`:

   (1) `QuoteSQLBytes(b)` lexes as exactly one bytes-literal token (then `<eof>`) whose value is `b`  — `quoteBytes_lex`
   (2) `QuoteSQLString(s)` lexes as exactly one string-literal token (then `<eof>`) whose value is `s`,
       with no leading trivia and `Raw` the whole quoted text                                          — `quoteString_lex`
   (3) `QuoteSQLIdent(s)`, `s` non-empty, does not panic and lexes as exactly one identifier token
       (then `<eof>`) whose value is `s`                                                               — `quoteIdent_lex`
   (4) `QuoteSQLIdent(s)` returns `s` unchanged exactly when `s` is identifier-shaped and not a keyword
                                                                                                       — `quoteIdent_unquoted_iff`

  Supporting facts (in `MF/Proofs`): `Utf8.decodeRune_cases` (decode/encode round trip of the UTF-8 model),
  `parseUint_hex2/4/8` (`%02x`/`%04x`/`%08x` are read back by `ParseUint(·, 16, ·)`), `string_loop` (rune-level loop lemma).
-/
import MF.Proofs.QuoteBytes
import MF.Proofs.QuoteString
import MF.Proofs.QuoteIdent
namespace MF.Props.C15
open MF MF.Lex MF.Quote

theorem quoteBytes_lex (bs : Bytes) :
    ∃ t1 t2, lexAll (quoteBytes bs) = .ok [t1, t2] ∧ t1.kind = .bytes ∧ t1.asString = bs ∧
      t1.raw = quoteBytes bs ∧ t1.space = [] ∧ t1.comments = [] ∧ t2.kind = .eof :=
  Quote.quoteBytes_lex bs

theorem quoteString_lex (isPrint : Nat → Bool) (s : Bytes) :
    ∃ t1 t2, lexAll (quoteString isPrint s) = .ok [t1, t2] ∧ t1.kind = .string ∧ t1.asString = s ∧
      t1.raw = quoteString isPrint s ∧ t1.space = [] ∧ t1.comments = [] ∧ t2.kind = .eof :=
  Quote.quoteString_lex isPrint s

theorem quoteIdent_lex (isPrint : Nat → Bool) (s : Bytes) (hs : s ≠ []) :
    ∃ q, quoteIdent isPrint s = some q ∧ ∃ t1 t2, lexAll q = .ok [t1, t2] ∧
      t1.kind = .ident ∧ t1.asString = s ∧ t2.kind = .eof :=
  Quote.quoteIdent_lex isPrint s hs

theorem quoteIdent_unquoted_iff (isPrint : Nat → Bool) (s : Bytes) (hs : s ≠ []) :
    quoteIdent isPrint s = some s ↔
      (isKeyword s = false ∧
        match s with
        | c :: _ => Char.isIdentStart c = true ∧ s.all Char.isIdentPart = true
        | [] => False) :=
  Quote.quoteIdent_unquoted_iff isPrint s hs

/-- non-vacuity (bytes): an invalid-UTF-8 byte, both quote kinds and a NUL: `b"\xff'\"\x00"` -/
example : quoteBytes [0xff, 39, 34, 0] = B "b\"\\xff'\\\"\\x00\"" := by rfl

/-- non-vacuity (strings): an invalid UTF-8 byte and both quote kinds present: `"\xff'\""` -/
example : quoteString (fun _ => true) [0xff, 39, 34] = B "\"\\xff'\\\"\"" := by rfl

/-- non-vacuity (strings): nothing printable — invalid byte, quotes, a 3-byte rune (U+20AC), a 4-byte rune (U+1F600),
a newline and a control character: `"\xff\x27\"\u20ac\U0001f600\n\x07"`; and it lexes back -/
example : quoteString (fun _ => false) [0xff, 39, 34, 0xE2, 0x82, 0xAC, 0xF0, 0x9F, 0x98, 0x80, 10, 7] =
    B "\"\\xff\\x27\\\"\\u20ac\\U0001f600\\n\\x07\"" := by rfl

example : ∃ t1 t2, lexAll (B "\"\\xff\\x27\\\"\\u20ac\\U0001f600\\n\\x07\"") = .ok [t1, t2] ∧ t1.kind = .string ∧
    t1.asString = [0xff, 39, 34, 0xE2, 0x82, 0xAC, 0xF0, 0x9F, 0x98, 0x80, 10, 7] := ⟨_, _, rfl, rfl, rfl⟩

/-- non-vacuity (strings): only `"` present selects the single quote; a printable 3-byte rune is kept verbatim -/
example : quoteString (fun r => r == 0x20AC) [0xE2, 0x82, 0xAC, 34, 1] =
    [39, 0xE2, 0x82, 0xAC] ++ B "\\x22\\x01'" := by rfl

/-- non-vacuity (identifiers): a keyword is back-quoted; an identifier-shaped non-keyword is returned unchanged;
a back-quote, a control character and an invalid byte are escaped; the empty string is the Go index panic -/
example : quoteIdent (fun _ => true) (B "select") = some (B "`select`") := by rfl
example : quoteIdent (fun _ => true) (B "foo_1") = some (B "foo_1") := by rfl
example : quoteIdent (fun r => r == 97) [97, 96, 1, 0xff] = some (B "`a\\`\\x01\\xff`") := by rfl
example : quoteIdent (fun _ => true) [] = none := by rfl

example : ∃ t1 t2, lexAll (B "`a\\`\\x01\\xff`") = .ok [t1, t2] ∧ t1.kind = .ident ∧ t1.asString = [97, 96, 1, 0xff] :=
  ⟨_, _, rfl, rfl, rfl⟩

/-- non-vacuity (`quoteIdent_unquoted_iff`): both sides true for `foo_1`, both false for the keyword `select` and
for `1a` (not identifier-shaped) -/
example : isKeyword (B "foo_1") = false ∧ isKeyword (B "select") = true ∧
    quoteIdent (fun _ => true) (B "1a") = some (B "`1a`") := by decide

end MF.Props.C15
