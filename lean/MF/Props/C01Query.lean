/-
  C01 / C02 for the SELECT core (Task X, stage 3) — TOKEN level.  Model: MF/Model/Query.lean (`sqlQ` = the `SQL()` methods of
  the query nodes; the QUERY channel compares its bytes with Go's `SQL()` on every OK request).  `sqlToksQ q`
  (MF/Spec/QueryPrintToks.lean) = the tokens of `sqlQ q` as descriptors.

   (1) `query_print_derivable`: the printed tokens of a parsed query (without `expr.*` items) are a sentence of G_Q.
   (2) `query_roundtrip_tokens_partial` (C01): any token list that reads the printed tokens of a parsed query is accepted
       again by ParseQuery (one tree for all large fuels), the tree is well formed, and its yield reads those tokens.
       PARTIAL: (a) `expr.*` items are excluded (`noDotStar`; C07 exports no completeness before `.`), (b) the hypothesis
       `isCastLike` (the known C01 finding of the expression fragment: a back-quoted `SAFE_CAST` is printed bare),
       (c) that the re-parsed tree EQUALS the first one up to positions is NOT proved structurally (it needs uniqueness of
       G_Q-derivations, `query_unique`, not proved); it is evaluated on concrete inputs by `rtCheckQ` below and, for the
       text, by the channel.
   (3) `query_print_lossless` (C02): at the query layer `SQL()` loses exactly one kind of token, the trailing comma of
       the select list: with expression slots that print their own yield, `sqlToksQ q = yieldQ (untrail q)`, and the
       yield with the comma differs from it by that comma only (`select_trailing_only`).  ALL / DISTINCT, an optional AS,
       ASC / DESC and OFFSET are printed iff they were written; no token is added.  (Inside expression slots the losses
       are those of C01/C02 for expressions: `MF.Props.C01.lossless_expr`.)
   (4) `query_print_fixed_point`: a tree without trailing comma whose slots print their own yield prints its own yield:
       re-parsing its printed tokens consumes exactly `yieldQ q`.
-/
import MF.Proofs.QueryRound
import MF.Props.C08Query
namespace MF.Props.C01
open MF MF.Expr MF.Query

/-- (1) -/
theorem query_print_derivable {fuel : Nat} {ts : List Token} {q : QueryStatement} (hp : parseQueryTop fuel ts = .ok q)
    (hnd : noDotStar q = true) : QueryD0 (sqlToksQ q) := by
  obtain ⟨_, _, _, _, _, wf, _⟩ := MF.Props.C08.query_sound_top hp
  exact sqlToksQ_derivable wf hnd

/-- (2) C01 at token level -/
theorem query_roundtrip_tokens_partial {fuel : Nat} {ts : List Token} {q : QueryStatement}
    (hp : parseQueryTop fuel ts = .ok q) (hnd : noDotStar q = true) {pre rest : List Token}
    (hm : matchB (sqlToksQ q) pre = true) (hc : ∀ t ∈ pre, isCastLike t = false) (hr : qcur rest = .eof) :
    ∃ q' n, (∀ fuel', n ≤ fuel' → parseQueryTop fuel' (pre ++ rest) = .ok q') ∧ WFQ q' ∧
      ∃ pre' rest', pre ++ rest = pre' ++ rest' ∧ qcur rest' = .eof ∧ matchB (yieldQ q') pre' = true := by
  obtain ⟨q', n, hn⟩ := MF.Props.C08.query_complete_partial (query_print_derivable hp hnd) hm hc hr
  obtain ⟨pre', rest', e, he, m, wf, _⟩ := MF.Props.C08.query_sound_top (hn n (Nat.le_refl _))
  exact ⟨q', n, hn, wf, pre', rest', e, he, m⟩

/-- (3) C02 at the query layer -/
theorem query_print_lossless {q : QueryStatement} (h : slotsCanon q) : sqlToksQ q = yieldQ (untrail q) :=
  sqlToksQ_eq_yield h

theorem select_trailing_only (s : Select) : ∃ A B, ySelect s = A ++ (trailD s.trailing ++ B) ∧
    ySelect { s with trailing := false } = A ++ B := ySelect_trailing s

/-- (4) -/
theorem query_print_fixed_point {q : QueryStatement} (h : slotsCanon q) (ht : (selectOf q.query).trailing = false) :
    sqlToksQ q = yieldQ q := by
  rw [sqlToksQ_eq_yield h]
  obtain ⟨q⟩ := q
  cases q with
  | select s => simp only [selectOf] at ht; simp [untrail, untrailQE, yieldQ, yQE, ySelect, ht]
  | query s o l => simp only [selectOf] at ht; simp [untrail, untrailQE, yieldQ, yQE, ySelect, ht]

/-! ## non-vacuity and the unproved clause (c), evaluated through the model lexer and parser -/

/-- `buf` parses to `q`; `sqlQ q = out`; `out` lexes to tokens that read `sqlToksQ q`; they parse to `q'` with
`yieldQ q' = sqlToksQ q` (same tokens, hence the same tree up to positions on these inputs) and `sqlQ q' = out` (fixed point) -/
def rtCheckQ (buf out : Bytes) : Bool :=
  match Lex.lexAll buf with
  | .ok ts =>
    (match parseQueryTop (Query.topFuel ts) ts with
     | .ok q =>
       sqlQ q == out &&
       (match Lex.lexAll out with
        | .ok ts' =>
          matchB (sqlToksQ q) ts'.dropLast &&
          (match parseQueryTop (Query.topFuel ts') ts' with
           | .ok q' => yieldQ q' == sqlToksQ q && sqlQ q' == out
           | _ => false)
        | _ => false)
     | _ => false)
  | _ => false

example : rtCheckQ (B "select all a b , c as d, from t.u v where x=1 group by y,z having w order by p desc , q limit 10 offset @k")
    (B "SELECT ALL a b, c AS d FROM t.u v WHERE x = 1 GROUP BY y, z HAVING w ORDER BY p DESC, q LIMIT 10 OFFSET @k") = true := by
  decide +kernel
example : rtCheckQ (B "SELECT * , a[offset(1)] `x y`, FROM `t`") (B "SELECT *, a[OFFSET(1)] `x y` FROM t") = true := by
  decide +kernel
/-- the production left out of the theorem round-trips on these inputs (incl. the blank `spaceAfterInt` keeps) -/
example : rtCheckQ (B "SELECT t.*, 1 .*, a+b.* FROM t") (B "SELECT t.*, 1 .*, a + b.* FROM t") = true := by decide +kernel

end MF.Props.C01
