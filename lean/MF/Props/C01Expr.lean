/-
  C01 / C02 for the expression fragment M1 — the first BYTE-LEVEL round-trip theorems of the parser / unparser pair.

  Objects (all models, tied to the Go code by the LEX and EXPR channels):
    `Lex.lexAll`            the lexer (`lexer.go`, MF/Model/Lexer.lean)
    `parseExprTop`          `ParseExpr` restricted to the fragment M1 (MF/Model/Expr.lean: atoms, parentheses, unary
                            `+ - ~ NOT`, the binary ladder, IS / BETWEEN / IN / IN UNNEST / LIKE, `.f`, `[…]`, `[KW(…)]`)
    `sqlE`                  the `SQL()` methods of the fragment's nodes (bytes)
    `sqlToks`, `yield`      the printer's tokens / the tokens of a tree, as `Tok'` = (class, value) (MF/Spec)
    `canonKw`               the tree with its position keywords (OFFSET, …) in canonical spelling — the Go AST does not
                            store the spelling at all, so `canonKw e` and `e` are the same Go value

  Theorems:
   (1) `printed_lexes`      `LexWF e → rtOK e = true`: for EVERY tree whose leaves carry lexer-producible values (no
                            other restriction: any grouping, floats, identifiers that need quoting, arbitrary string /
                            bytes values) the lexer reads the printed text as exactly the printer's tokens.  This closes
                            the gap left open by `C07.print_minimal_partial` (the run-time flag `rt`).
       `printed_lexes_tokens` the same with the token list exhibited.
   (2) `parse_lexwf`        trees built by the parser from lexer tokens satisfy `LexWF`.
   (3) `roundtrip_expr_partial`  C01 for the fragment: accepted input ⇒ `SQL()` text is accepted and parses to the same
                            tree — under the ADDED hypothesis `NoCastIdent ts` (no identifier token, quoted or not, reads
                            SAFE_CAST / REPLACE_FIELDS).  Without any such hypothesis the statement is FALSE
                            (`roundtrip_fails_quoted_cast_word`); the hypothesis is necessary for identifiers in operand
                            position and stronger than necessary for names after a `.` (``a.`SAFE_CAST` `` does round-trip;
                            the over-approximation is inherited from the hypothesis `isCastLike t = false` on every consumed
                            token of `C07.parse_complete`).  Hence the name `_partial`.
   (4) `fixed_point_expr`   `SQL()` of the re-parsed tree is the same text.
   (5) `lossless_expr`      C02 for the fragment: the projected tokens of the printed text are those of the input up
                            to the canonical spelling of position keywords (exact statement below).
   (6) `roundtrip_fails_quoted_cast_word`  a FINDING: on the input `` `SAFE_CAST` `` (a quoted identifier) the parser
                            succeeds, `SQL()` prints `SAFE_CAST` without quotes (`needQuoteSQLIdent` only knows the
                            reserved words), and that text does not parse to the tree again, with any fuel (in Go:
                            `syntax error: expected token: (, but: <eof>`).  Same for `REPLACE_FIELDS`.
   (7) `numOK_lexes`        what `LexWF` says about numeric leaves, in terms of the lexer itself.
   (8) `concat_lexes`, `concat_steps`, `steps_prefix`, `next_append`: the general concatenation theorem for the
       model lexer and its two halves (prefix invariance; forward extension of a step).
-/
import MF.Proofs.ExprRoundTrip
import MF.Proofs.LexConcatGen
namespace MF.Props.C01
open MF MF.Lex MF.Expr MF.Concat

/-- (1) the printed text of a well-formed tree lexes to the printer's tokens: the run-time flag `rt` is always 1 -/
theorem printed_lexes {e : Expr} (h : LexWF e) : rtOK e = true := Expr.printed_lexes h

theorem printed_lexes_tokens {e : Expr} (h : LexWF e) :
    ∃ ts, lexAll (sqlE e) = .ok ts ∧ ts.map proj = sqlToks e ++ [T .eof] := Expr.printed_lexes_tokens h

/-- (2) -/
theorem parse_lexwf {buf : Bytes} {ts : List Token} {fuel : Nat} {e : Expr} (h1 : lexAll buf = .ok ts)
    (h2 : parseExprTop fuel ts = .ok e) : LexWF e := Expr.parse_lexwf h1 h2

/-- (3) C01, expression fragment.  PARTIAL only in the sense explained in the header: the hypothesis `NoCastIdent ts`
is added (the statement without it is false) and is slightly stronger than necessary. -/
theorem roundtrip_expr_partial {buf : Bytes} {ts : List Token} {fuel : Nat} {e : Expr} (h1 : lexAll buf = .ok ts)
    (h2 : parseExprTop fuel ts = .ok e) (hc : NoCastIdent ts) :
    ∃ ts', lexAll (sqlE e) = .ok ts' ∧ ∃ n, ∀ fuel', n ≤ fuel' → parseExprTop fuel' ts' = .ok (canonKw e) :=
  Expr.roundtrip_expr h1 h2 hc

/-- (4) -/
theorem fixed_point_expr (e : Expr) : sqlE (canonKw e) = sqlE e := Expr.fixed_point_expr e

/-- (5) C02, expression fragment -/
theorem lossless_expr {buf : Bytes} {ts : List Token} {fuel : Nat} {e : Expr} (h1 : lexAll buf = .ok ts)
    (h2 : parseExprTop fuel ts = .ok e) :
    ∃ ts', lexAll (sqlE e) = .ok ts' ∧
      ts.map proj = yield e ++ [T .eof] ∧ ts'.map proj = yield (canonKw e) ++ [T .eof] ∧
      CanonL (ts'.map proj) (ts.map proj) ∧ (ts'.map proj).map canonTok = (ts.map proj).map canonTok :=
  Expr.lossless_expr h1 h2

/-- (7) a numeric spelling accepted by `LexWF` lexes, alone, to exactly one token of that kind with that text -/
theorem numOK_lexes {isInt : Bool} {raw : Bytes} (h : numOK isInt raw = true) :
    ∃ t1 t2, lexAll raw = .ok [t1, t2] ∧ t1.kind = (if isInt then .int else .float) ∧ t1.raw = raw ∧ t2.kind = .eof :=
  Expr.numOK_lexes h

/-! ## the general concatenation theorem for the model lexer (MF/Proofs/LexConcatGen.lean) -/

/-- **Concatenation.**  If `u` lexes to `tu ++ [<eof>]` and `v` lexes to `tv ++ [<eof>]`, then `u ++ blanks ++ v` lexes
to `tu ++ shift tv ++ [shift <eof>]` (same kind, `Raw`, `AsString`, `Base`; `Pos`/`End` of the tokens of `v` shifted by
`|u| + k`) under the junction conditions `Junction` (fields `noTrail`, `last`, `dot`, `ctx`, documented there). -/
theorem concat_lexes {u v : Bytes} {tu tv : List Token} {eu ev : Token} (k : Nat)
    (hu : lexAll u = .ok (tu ++ [eu])) (hv : lexAll v = .ok (tv ++ [ev])) (hj : Junction u tu k v Lex.init tv ev) :
    ∃ ts, lexAll (u ++ List.replicate k 32 ++ v) = .ok ts ∧
      ts.map tokRec = tu.map tokRec ++ tv.map (fun t => shiftRec (u.length + k) (tokRec t)) ++
        [shiftRec (u.length + k) (tokRec ev)] :=
  Concat.concat_lexes k hu hv hj

/-- the same on lexer states: `v` lexed from any state `sv` at offset 0 whose dot-identifier flag is the one the lexer
has after `u` (so `x.` ++ `select` is covered: `select` is then an identifier) -/
theorem concat_steps {u v : Bytes} {tu tv : List Token} {eu ev : Token} {sv : State} (k : Nat)
    (hu : lexAll u = .ok (tu ++ [eu])) (hv : Steps v sv (tv ++ [ev])) (hsv : sv.pos = 0)
    (hj : Junction u tu k v sv tv ev) :
    ∃ ts, lexAll (u ++ List.replicate k 32 ++ v) = .ok ts ∧
      ts.map tokRec = tu.map tokRec ++ (tv ++ [ev]).map (fun t => shiftRec (u.length + k) (tokRec t)) :=
  Concat.concat_steps k hu hv hsv hj

/-- prefix invariance: a run on `v` is a run at offset `|p|` of `p ++ v`, positions shifted (no side condition) -/
theorem steps_prefix (p : Bytes) {v : Bytes} {s : State} {l : List Token} (h : Steps v s l) (hp : s.pos ≤ v.length)
    (s2 : State) (h1 : s2.pos = s.pos + p.length) (h2 : s2.tok.kind = s.tok.kind) (h3 : s2.dotIdent = s.dotIdent) :
    ∃ l2, Steps (p ++ v) s2 l2 ∧ l2.map tokRec = l.map (fun t => shiftRec p.length (tokRec t)) :=
  Concat.steps_prefix p h hp s2 h1 h2 h3

/-- forward extension: a step of the reference lexer (= of the model, C14) that ends strictly inside `R` is the same
step on `R ++ W` -/
theorem next_append {R : Bytes} {lk : TokKind} {d : Bool} {w : Nat} {t : Spec.Lexical.STok}
    (h : Spec.Lexical.next R lk d = .tok w t) (h1 : 1 ≤ t.len) (hlt : w + t.len < R.length) (W : Bytes) :
    Spec.Lexical.next (R ++ W) lk d = .tok w t := Concat.next_append h h1 hlt W

/-- non-vacuity of `concat_lexes`: `x<` ++ ` ` ++ `=1` — the junction conditions hold with one blank (`<` then `=`
stay two tokens); the conclusion gives the five tokens with their positions -/
example : ∃ tu eu tv ev, lexAll (B "x<") = .ok (tu ++ [eu]) ∧ lexAll (B "=1") = .ok (tv ++ [ev]) ∧
    Junction (B "x<") tu 1 (B "=1") Lex.init tv ev :=
  ⟨[_, _], _, [_, _], _, rfl, rfl, junction_of (by decide +kernel)
    (fun _ b rest h => by
      have hb : b = 32 := by
        have := congrArg List.head? h
        simpa using this.symm
      subst hb
      decide +kernel)
    (by decide +kernel) (Or.inl (by decide +kernel))⟩

/-- … and without the blank the `last` condition is false: `<` followed by `=` is continued (`<=`) -/
example : Spec.Lexical.next (B "<" ++ [61]) (.ident) false ≠ Spec.Lexical.next (B "<") (.ident) false := by
  decide +kernel

/-! ## (6) the finding: a quoted identifier that reads SAFE_CAST / REPLACE_FIELDS does not survive `SQL()` -/

/-- the input `` `SAFE_CAST` `` lexes and parses (to the identifier `SAFE_CAST`); `SQL()` prints `SAFE_CAST`; that
text lexes, but `ParseExpr` does not return the tree on it, whatever the fuel (the model answers `outside`: the Go
parser enters `parseCastExpr` and fails with `expected token: (`). -/
theorem roundtrip_fails_quoted_cast_word :
    ∃ (ts : List Token) (e : Expr), lexAll (B "`SAFE_CAST`") = .ok ts ∧ parseExprTop (topFuel ts) ts = .ok e ∧
      sqlE e = B "SAFE_CAST" ∧
      ∃ ts', lexAll (sqlE e) = .ok ts' ∧ ∀ fuel, parseExprTop fuel ts' ≠ .ok (canonKw e) :=
  Expr.roundtrip_fails_quoted_cast_word

/-! ## non-vacuity: concrete inputs through lexer + parser + printer + lexer (kernel evaluation) -/

/-- lex `buf`, parse, print: the text is `out`, the tree has lexer-producible leaves and is grouped / shaped as the
parser builds trees, the printed text lexes to the printer's tokens (`rtOK`, evaluated here, proved in general by
`printed_lexes`) and re-parses, with the driver's fuel, to a tree that prints the same text again -/
def rtCheck (buf out : Bytes) : Bool :=
  match lexAll buf with
  | .ok ts =>
    (match parseExprTop (topFuel ts) ts with
     | .ok e =>
       sqlE e == out && rtOK e && lexWF e && precOK e && nf e &&
         (match lexAll (sqlE e) with
          | .ok ts' =>
            (match parseExprTop (topFuel ts') ts' with
             | .ok e' => sqlE e' == out
             | _ => false)
          | _ => false)
     | _ => false)
  | _ => false

/-- the example of the task text (with `\'` for the quote inside the string: `'it''s'` is two adjacent literals in
GoogleSQL, which is not an expression of the fragment): position keyword in lower case, sign folding, IS NOT NULL,
IN list, a string that needs the other quote -/
example : rtCheck (B "a.b[offset(1)] - - 1 IS NOT NULL AND x IN (1, 'it\\'s')")
    (B "a.b[OFFSET(1)] - -1 IS NOT NULL AND x IN (1, \"it's\")") = true := by decide +kernel

/-- a float starting with `.`, a field of an integer literal (`1 .f` keeps its blank), a keyword used as a field name
(back-quoted by the printer), a hexadecimal literal, `<>` printed `!=` -/
example : rtCheck (B "- 1 + .5e3 * 1 .f - x.`select` | 0x1F <> y") (B "-1 + .5e3 * 1 .f - x.`select` | 0x1F != y") = true := by
  decide +kernel

example : rtCheck (B "NOT a BETWEEN @p AND b'\\x00' OR c NOT IN UNNEST((d)) AND e IS NOT TRUE")
    (B "NOT a BETWEEN @p AND b\"\\x00\" OR c NOT IN UNNEST((d)) AND e IS NOT TRUE") = true := by decide +kernel

example : rtCheck (B "- -x + (~+y).`a b`[SAFE_ORDINAL(r'\\n')] LIKE 'q'") (B "- -x + (~+y).`a b`[SAFE_ORDINAL(\"\\\\n\")] LIKE \"q\"") = true := by
  decide +kernel

/-- the repaired subscript (Task R1): a column named like a position keyword round-trips as a plain subscript — the
word stays as written, nothing is canonicalised — and the keyword form still prints its canonical spelling -/
example : rtCheck (B "a[offset]") (B "a[offset]") = true := by decide +kernel
example : rtCheck (B "a[ORDINAL * 2]") (B "a[ORDINAL * 2]") = true := by decide +kernel
example : rtCheck (B "a[offset.f]") (B "a[offset.f]") = true := by decide +kernel
example : rtCheck (B "a[safe_offset]") (B "a[safe_offset]") = true := by decide +kernel
example : rtCheck (B "a[OFFSET(1)]") (B "a[OFFSET(1)]") = true := by decide +kernel
example : rtCheck (B "a[offset (1)]") (B "a[OFFSET(1)]") = true := by decide +kernel

/-- the input of the task text as written, `… IN (1, 'it''s')`, is NOT an expression of the language: `'it''s'` is two
adjacent string literals (model and Go agree: `expected token: ), but: <string>`) -/
example : (match lexAll (B "a.b[OFFSET(1)] - -1 IS NOT NULL AND x IN (1, 'it''s')") with
    | .ok ts => (match parseExprTop (topFuel ts) ts with | .raise => true | _ => false)
    | _ => false) = true := by decide +kernel

/-- the hypothesis `NoCastIdent` of `roundtrip_expr_partial` holds on a concrete input (and fails on the finding's input) -/
example : (match lexAll (B "a[safe_offset(1)] <> -x") with
    | .ok ts => decide (NoCastIdent ts)
    | _ => false) = true := by decide +kernel

example : (match lexAll (B "`SAFE_CAST`") with
    | .ok ts => decide (NoCastIdent ts)
    | _ => true) = false := by decide +kernel

/-- Task E, stage 1: CASE (operand, two clauses, ELSE; keywords in lower case are printed in upper case) and IF -/
example : rtCheck (B "case a when 1 then - 1 when b.c then x[0] else IF ( p , q OR r , NULL ) end IS NOT NULL")
    (B "CASE a WHEN 1 THEN -1 WHEN b.c THEN x[0] ELSE IF(p, q OR r, NULL) END IS NOT NULL") = true := by decide +kernel
example : rtCheck (B "- CASE WHEN a THEN 'x' END . f") (B "-CASE WHEN a THEN \"x\" END.f") = true := by decide +kernel

/-- Task E, stage 2: array literals (nested, empty) under a keyword subscript -/
example : rtCheck (B "[ 1,a+2 ,[ ] ] [offset(0)]") (B "[1, a + 2, []][OFFSET(0)]") = true := by decide +kernel

/-- Task E, stage 3: CAST to a named type -/
example : rtCheck (B "cast( x+1 as `a b` . c ) [0]") (B "CAST(x + 1 AS `a b`.c)[0]") = true := by decide +kernel

end MF.Props.C01
