/-
  C01 / C02, the table-level observations — over the tables regenerated from ast/ast.go and ast/sql.go on every run.

  O1 "nothing the user wrote is unprinted".  `fieldsRead` (MF/Proofs/TreeSql.lean) collects every field of the
  receiver that a `SQL()` body mentions (operands of `sqlOpt`/`sqlJoin`/`paren`/…, and the fields tested in
  conditions); for the four hand-written bodies the set is HAND-LISTED next to their hand-written semantics
  (`customFields`: `Tokens`; `Name`,`Value`; `Name`,`Value`; `Tables`) — not parsed out of the Go text.  `unread` lists
  the non-position fields of the catalogue that the struct's body never mentions.

   (1) `gen_unread`                    the list is exactly four pairs:
         ("Join","Method")                   a RECORDED KNOWN FINDING (C01/C02 key=site:Join.Method): `a HASH JOIN b`
                                             prints `a INNER JOIN b`; a golden file pins the lossy text;
         ("BadQueryExpr","Hint")             harmless: the parser never sets it (the hint of a bad query ends up in the
                                             token list of the `BadNode`, which IS printed);
         ("IntLiteral","Base")               harmless: the base is implied by the spelling kept in `Value` (`0x…`),
                                             which is printed verbatim;
         ("SetNoSkipRange","NoSkipRange")    harmless: a marker node without content; `SET NO SKIP RANGE` is printed
                                             as a literal.
   (2) `gen_unread_matches_extractor`  the Go extractor computes the same list (`Gen.sqlUnread`).

  Precedence (the part of C01/C02 that makes `paren` insert exactly the needed parentheses):
   (3) `gen_prec_eq_spec`              the `exprPrec` switch of sql.go, as a finite map (kind, Op) ↦ level, IS the
                                       GoogleSQL table of MF/Spec/PrecTable.lean (written from the language text);
   (4) `gen_precConsts`, `gen_parenCmp`  the `prec…` constants are the thirteen levels in order, and `paren(p, e)` keeps
                                       `e` bare iff `exprPrec(e) <= p`;
   (5) `exprPrec_covers`               every struct that implements `Expr`, except `BadExpr`, has a row; every value of
                                       the `BinaryOp` / `UnaryOp` enums has a row (`exprPrec_covers_ops`).
       `BadExpr` is deliberately exempt: it is produced by the recovery handler of the TOP-LEVEL `parseExpr` only
       (`handleParseExprError`), so it occurs as a whole expression (statement level, inside `( … )`, as an argument
       …), positions that are printed with `x.F.SQL()`; the operand positions that go through `paren` (`Left`, `Right`,
       `Expr` of unary / selector / index, `RightStart`, `RightEnd`) are filled by the precedence-climbing functions
       below `parseExpr`, which do not recover.  (A parser fact, not proved here.)
-/
import MF.Proofs.TreeSql
import MF.Proofs.PrecTable
import MF.Gen.Catalog
import MF.Gen.SqlGo
namespace MF.Props.C01
open MF MF.Ast

/-! ### O1 -/

/-- the struct names of the catalogue are pairwise distinct (numbered once, then compared as numbers) -/
theorem gen_kind_names_distinct : namesDistinct (Gen.kinds.map (·.name)) = true := by decide +kernel

theorem gen_kind_names_nodup : (Gen.kinds.map (·.name)).Nodup := namesDistinct_nodup gen_kind_names_distinct

/-- the lock-step pass over catalogue and sql.go table (kernel-evaluated) -/
theorem gen_unread_zip :
    unreadZip Gen.kinds Gen.sqlGo =
      some [("BadQueryExpr", "Hint"), ("Join", "Method"), ("IntLiteral", "Base"), ("SetNoSkipRange", "NoSkipRange")] := by
  decide +kernel

/-- O1: the only non-position fields no `SQL()` body reads -/
theorem gen_unread :
    unread Gen.sqlTables =
      [("BadQueryExpr", "Hint"), ("Join", "Method"), ("IntLiteral", "Base"), ("SetNoSkipRange", "NoSkipRange")] :=
  unread_of_zip Gen.sqlTables _ gen_kind_names_distinct gen_unread_zip

theorem gen_unread_matches_extractor : unread Gen.sqlTables = Gen.sqlUnread := gen_unread

/-! ### the precedence table -/

open MF.Spec.PrecTable in
theorem gen_prec_sameMap : sameMap Gen.exprPrec (table Gen.kinds) = true := by decide +kernel

open MF.Spec.PrecTable in
/-- `exprPrec` of sql.go and the GoogleSQL table are the same finite map: both assign at most one level to a
    (kind, Op), they have the same rows, and so the same level (or none) everywhere -/
theorem gen_prec_eq_spec :
    functional Gen.exprPrec = true ∧ functional (table Gen.kinds) = true ∧
    (∀ r, r ∈ Gen.exprPrec ↔ r ∈ table Gen.kinds) ∧
    (∀ kind op, level? Gen.exprPrec kind op = level? (table Gen.kinds) kind op) := by
  have h := gen_prec_sameMap
  refine ⟨?_, ?_, sameMap_mem h, sameMap_level? h⟩
  · simp only [sameMap, Bool.and_eq_true] at h; exact h.1.1.1
  · simp only [sameMap, Bool.and_eq_true] at h; exact h.1.1.2

theorem gen_parenCmp : Gen.parenCmp = .le ∧ Gen.parenOpen = "(" ∧ Gen.parenClose = ")" := ⟨rfl, rfl, rfl⟩

/-- the `prec` constants are the levels 0 … 12 in order: `precConst name` is the level's number -/
theorem gen_precConsts : Gen.precConsts = MF.Spec.PrecTable.levelNames := by decide +kernel

theorem gen_precConst_level :
    MF.Spec.PrecTable.levelNames.map Gen.sqlTables.precConst = (List.range 13).map some := by decide +kernel

theorem exprPrec_covers_bool :
    (Gen.kinds.filter (·.ifaces.contains "Expr")).all
      (fun k => k.name == "BadExpr" || Gen.exprPrec.any (·.1 == k.name)) = true := by decide +kernel

/-- every struct implementing `Expr`, except `BadExpr`, has a row in `exprPrec` -/
theorem exprPrec_covers (k : KindDecl) (hk : k ∈ Gen.kinds) (he : k.ifaces.contains "Expr" = true)
    (hb : k.name ≠ "BadExpr") : ∃ row ∈ Gen.exprPrec, row.1 = k.name := by
  have h := List.all_eq_true.mp exprPrec_covers_bool k (List.mem_filter.mpr ⟨hk, he⟩)
  simp only [Bool.or_eq_true, beq_iff_eq, List.any_eq_true] at h
  rcases h with h | h
  · exact absurd h hb
  · exact h

/-- the kinds with an inner `switch e.Op`: every declared value of the field's enum has its own row -/
theorem exprPrec_covers_ops :
    Gen.exprPrecSwitch.all (fun kf =>
      match (Gen.sqlTables.fieldsOf kf.1).find? (·.name == kf.2) with
      | some fd =>
        (Gen.enumConsts.filter (·.2.1 == fd.goType)).all (fun e =>
          Gen.exprPrec.any (fun r => r.1 == kf.1 && r.2.1 == some e.2.2))
      | none => false) = true := by decide +kernel

/-! ### non-vacuity -/

def ident (name : String) : Node := .mk "Ident" [("NamePos", .pos 0), ("NameEnd", .pos 1), ("Name", .str (B name))] .nil
def tableName (name : String) : Node := .mk "TableName" [] (.cons "Table" none (ident name) .nil)
def intLit (v : String) : Node :=
  .mk "IntLiteral" [("ValuePos", .pos 0), ("ValueEnd", .pos 1), ("Base", .int 10), ("Value", .str (B v))] .nil
def bin (op : String) (l r : Node) : Node :=
  .mk "BinaryExpr" [("Op", .str (B op))] (.cons "Left" none l (.cons "Right" none r .nil))

/-- `a <method> JOIN b`: `Hint` and `Cond` absent, `Left` and `Right` present -/
def join (method : String) : Node :=
  .mk "Join" [("Op", .str (B "INNER JOIN")), ("Method", .str (B method))]
    (.cons "Left" none (tableName "a") (.cons "Right" none (tableName "b") .nil))

example : SqlShaped Gen.sqlTables (join "HASH") := by decide +kernel
/-- the known finding, on the model: the join method does not reach the text -/
example : sqlOf Gen.sqlTables (fun _ => true) (join "HASH") = some (B "a INNER JOIN b") := by decide +kernel
example : sqlOf Gen.sqlTables (fun _ => true) (join "") = some (B "a INNER JOIN b") := by decide +kernel

/-- the table at work: parentheses exactly where the level of the operand is looser than the operator's -/
example : sqlOf Gen.sqlTables (fun _ => true) (bin "*" (bin "+" (intLit "1") (intLit "2")) (intLit "3")) =
    some (B "(1 + 2) * 3") := by decide +kernel
example : sqlOf Gen.sqlTables (fun _ => true) (bin "+" (intLit "1") (bin "*" (intLit "2") (intLit "3"))) =
    some (B "1 + 2 * 3") := by decide +kernel
example : MF.Spec.PrecTable.level? Gen.exprPrec "BinaryExpr" (some "OR") = some 12 := by decide +kernel
example : MF.Spec.PrecTable.level? Gen.exprPrec "BadExpr" none = none := by decide +kernel

end MF.Props.C01
