/-
  C01 / C02 — round trip, fixed point and losslessness for the DML fragment M2, TOKEN level.

  `PrintStmt rd s p` (MF/Spec/DMLPrint.lean): the token list `p` reads as the printed statement `s` — the token level of
  `Insert.SQL()` / `Delete.SQL()` / `Update.SQL()` and of the nodes below them (INTO and FROM always printed, AS iff
  `AsAlias.As` is valid, names by value, keywords in any case, a slot `e` by `rd e`; `rd = sqlToks`: what `SQL()` prints,
  `rd = yield`: what the parser consumed; `sqlToks e = yield (canonKw e)` is `MF.Expr.sqlToks_eq_yield`, C07).

   (1) `dml_roundtrip_tokens`  ANY token list that reads as `SQL()` of `s` is a sentence of G_DML, the model parses it,
                               to the one tree `s'` it can have, and `s'` is `s` up to the position fields (and the
                               canonical spelling of position keywords in the slots, which the Go AST does not keep);
                               its `SQL()` is the same text
   (2) `dml_fixed_point`       trees equal up to positions / position-keyword spelling print the same TEXT (byte level)
   (3) `dml_lossless`          the tokens a statement was parsed from read as its print once the INTO of an INSERT / the
                               FROM of a DELETE is put in when it was left out: nothing else is added, nothing is lost;
                               AS stays exactly where it was written
   (4) `dml_lossless_parsed`   (3) for a run of the model

  The step from the BYTES of `SQL()` to a token list that reads as the print (the lexer side) is not proved here; the DML
  channel compares the `SQL()` text of every accepted request with Go byte for byte.
  Hypotheses: `NoCast p` (no token reads as unquoted SAFE_CAST / REPLACE_FIELDS: C07's fragment boundary), `StmtFollow rest`.
-/
import MF.Proofs.DMLPrint
import MF.Props.C08DML
namespace MF.Props.C01
open MF MF.Expr MF.DML

/-- (1) -/
theorem dml_roundtrip_tokens {s : Stmt Expr} {p : List Token} (h : PrintStmt sqlToks s p) (hc : NoCast p)
    {rest : List Token} (hf : StmtFollow rest) :
    ∃ s', StmtD s' p ∧ eraseS s' = eraseS (canonS s) ∧
      (∃ n, ∀ fuel, n ≤ fuel → parseDML parseExpr fuel (p ++ rest) = .ok (s', rest)) ∧
      (∀ s'', StmtD s'' p → s'' = s') ∧ sqlD sqlE s' = sqlD sqlE s := by
  obtain ⟨s', hd, he⟩ := printStmt_derivable (c := canonKw) printExpr_sqlToks h
  exact ⟨s', hd, he, MF.Props.C08.dml_complete hd hc hf, fun s'' hd' => MF.Props.C08.dml_unique hd' hd hc, sqlD_fixed he⟩

/-- (1) the printed tokens are a sentence of the documented grammar -/
theorem dml_print_derivable {s : Stmt Expr} {p : List Token} (h : PrintStmt sqlToks s p) : G_DML p := by
  obtain ⟨s', hd, _⟩ := printStmt_derivable (c := canonKw) printExpr_sqlToks h
  exact ⟨s', hd⟩

/-- (2) -/
theorem dml_fixed_point {s s' : Stmt Expr} (h : eraseS s' = eraseS (canonS s)) : sqlD sqlE s' = sqlD sqlE s :=
  sqlD_fixed h

/-- (3) -/
theorem dml_lossless {s : Stmt Expr} {pre : List Token} (h : StmtD s pre) :
    ∃ pre', AddNoise pre pre' ∧ PrintStmt yield s pre' :=
  parsed_prints h

/-- (4) -/
theorem dml_lossless_parsed {fuel : Nat} {ts rest : List Token} {s : Stmt Expr}
    (h : parseDML parseExpr fuel ts = .ok (s, rest)) :
    ∃ pre pre', ts = pre ++ rest ∧ AddNoise pre pre' ∧ PrintStmt yield s pre' := by
  obtain ⟨pre, hts, hd⟩ := MF.Props.C08.dml_sound h
  obtain ⟨pre', h1, h2⟩ := parsed_prints hd
  exact ⟨pre, pre', hts, h1, h2⟩

/-- the token list consumed by a parse reads, with the yield reading, as a derivation of the same tree: (3) followed by
(1)'s construction gives back the tree up to positions -/
theorem dml_lossless_tree {s : Stmt Expr} {pre : List Token} (h : StmtD s pre) :
    ∃ pre' s', AddNoise pre pre' ∧ StmtD s' pre' ∧ eraseS s' = eraseS s := by
  obtain ⟨pre', h1, h2⟩ := parsed_prints h
  obtain ⟨s', hd, he⟩ := printStmt_derivable (c := id) printExpr_yield h2
  refine ⟨pre', s', h1, hd, ?_⟩
  rw [he, stmtMap_id]

/-! ## non-vacuity -/

/-- the tokens of the text `SQL()` prints for the statement parsed from `delete t where a` -/
def dmlPrinted : List Token :=
  match Lex.lexAll (B "DELETE FROM t WHERE a") with
  | .ok ts => ts.dropLast
  | _ => []

def dmlTree : Stmt Expr := .delete 0 [⟨7, 8, B "t"⟩] none ⟨9, .ident (B "a")⟩

example : dmlRun "D" (B "delete t where a") =
    "OK (delete 0 (path (id 7 8 74))@7:8 - (where 9 [(ident 61) 0:Ident:15:16:NamePos=15,NameEnd=16])@9:16)@0:16 44454c4554452046524f4d20742057484552452061 0 16" := by
  decide +kernel
example : sqlD sqlE dmlTree = B "DELETE FROM t WHERE a" := by decide +kernel

/-- the lexed `SQL()` text reads as the print of the tree (built by hand from the rules of `PrintStmt`) -/
theorem dmlPrinted_reads : PrintStmt sqlToks dmlTree dmlPrinted := by
  have h : dmlPrinted = [dmlPrinted[0]!, dmlPrinted[1]!, dmlPrinted[2]!, dmlPrinted[3]!, dmlPrinted[4]!] := by decide +kernel
  rw [h]
  exact PrintStmt.delete (k := dmlPrinted[0]!) (f := dmlPrinted[1]!) (p := [dmlPrinted[2]!]) (a := [])
    (w := [dmlPrinted[3]!, dmlPrinted[4]!]) (by decide +kernel) (by decide +kernel)
    (.one ⟨by decide +kernel, by decide +kernel⟩) .none
    (.mk (by decide +kernel) ⟨by decide +kernel, by decide +kernel, by decide +kernel⟩)

/-- (1) on it: the printed text re-parses to the tree up to positions (here FROM was added: positions differ) -/
theorem dml_example_roundtrip :
    ∃ s', StmtD s' dmlPrinted ∧ eraseS s' = eraseS (canonS dmlTree) ∧
      (∃ n, ∀ fuel, n ≤ fuel → parseDML parseExpr fuel (dmlPrinted ++ []) = .ok (s', [])) ∧
      (∀ s'', StmtD s'' dmlPrinted → s'' = s') ∧ sqlD sqlE s' = sqlD sqlE dmlTree :=
  dml_roundtrip_tokens dmlPrinted_reads (show ∀ t ∈ dmlPrinted, isCastLike t = false by decide +kernel)
    (MF.Props.C08.dml_stmtFollow_of_eof rfl)

end MF.Props.C01
