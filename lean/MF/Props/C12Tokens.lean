/-
  C12 (c), at token level — SplitRawStatements partitions the token stream of the lexer at the `;` tokens.

  For every byte string `buf` that lexes (`lexAll buf = .ok ts`; by `C12.fails_iff_lexical_error` this is exactly
  when `split` does not fail) and `split buf = .ok ps`:

    `pieces_from_tokens`     the pieces are a function of the token list alone: `specPieces buf ts 0`
                             (cut at every `;` token; the next piece starts at the first leading comment of the
                             next token, else at that token; the last piece ends at `<eof>`'s Pos and is dropped
                             when empty; the empty result becomes the single empty piece)
    `no_semicolon_inside`    no piece overlaps a `;` token
    `tokens_in_one_piece`    every other token (except `<eof>`) lies inside exactly one piece
    `comments_in_one_piece`  every comment — of any token, `;` and `<eof>` included — lies inside exactly one piece
    `between_pieces`         between consecutive pieces `x`, `y` there is exactly one token, a `;`, at `x.end`, and
                             `buf[;.end, y.pos)` is whitespace runes only
    `after_last_piece`       after the last piece: nothing, or exactly one `;` at its end followed by whitespace only
    `semicolon_ends_piece`   every `;` token ends a piece
    `first_piece_at_zero`    the first piece starts at 0
    `succeeds_only_if_lexes` `split buf = .ok ps` implies that `buf` lexes

  All statements are about the model `MF.Split.split` of split.go over the model of the lexer.
-/
import MF.Props.C12
import MF.Proofs.SplitTokens
namespace MF.Props.C12
open MF MF.Lex MF.Split

theorem succeeds_only_if_lexes {buf : Bytes} {ps : List Piece} (h : split buf = .ok ps) :
    ∃ ts, lexAll buf = .ok ts := split_ok_lexes h

theorem pieces_from_tokens {buf : Bytes} {ts : List Token} (h : lexAll buf = .ok ts) :
    split buf = finish (specPieces buf ts 0) := split_eq_spec h

theorem no_semicolon_inside {buf : Bytes} {ts : List Token} {ps : List Piece} (hl : lexAll buf = .ok ts)
    (hs : split buf = .ok ps) :
    ∀ x ∈ ps, ∀ t ∈ ts, t.kind = K ";" → t.end ≤ x.pos ∨ x.end ≤ t.pos :=
  MF.Split.no_semicolon_inside hl hs

theorem tokens_in_one_piece {buf : Bytes} {ts : List Token} {ps : List Piece} (hl : lexAll buf = .ok ts)
    (hs : split buf = .ok ps) :
    ∀ t ∈ ts, t.kind ≠ K ";" → t.kind ≠ .eof →
      ∃ x ∈ ps, (x.pos ≤ t.pos ∧ t.end ≤ x.end) ∧ ∀ y ∈ ps, y.pos ≤ t.pos → t.end ≤ y.end → y = x :=
  MF.Split.tokens_in_one_piece hl hs

theorem comments_in_one_piece {buf : Bytes} {ts : List Token} {ps : List Piece} (hl : lexAll buf = .ok ts)
    (hs : split buf = .ok ps) :
    ∀ t ∈ ts, ∀ c ∈ t.comments,
      ∃ x ∈ ps, (x.pos ≤ c.pos ∧ c.end ≤ x.end) ∧ ∀ y ∈ ps, y.pos ≤ c.pos → c.end ≤ y.end → y = x :=
  MF.Split.comments_in_one_piece hl hs

theorem between_pieces {buf : Bytes} {ts : List Token} {ps : List Piece} (hl : lexAll buf = .ok ts)
    (hs : split buf = .ok ps) :
    ∀ l1 x y l2, ps = l1 ++ x :: y :: l2 →
      ∃ t ∈ ts, t.kind = K ";" ∧ t.pos = x.end ∧ t.end ≤ y.pos ∧ AllSpaceIn buf t.end y.pos ∧
        ∀ t' ∈ ts, x.end ≤ t'.pos → t'.end ≤ y.pos → t' = t :=
  MF.Split.between_pieces hl hs

theorem after_last_piece {buf : Bytes} {ts : List Token} {ps : List Piece} (hl : lexAll buf = .ok ts)
    (hs : split buf = .ok ps) :
    ∀ l z, ps = l ++ [z] →
      (z.end = buf.length ∧ ∀ t' ∈ ts, z.end ≤ t'.pos → t'.kind = .eof) ∨
      ∃ t ∈ ts, t.kind = K ";" ∧ t.pos = z.end ∧ AllSpaceIn buf t.end buf.length ∧
        ∀ t' ∈ ts, z.end ≤ t'.pos → t' = t ∨ t'.kind = .eof :=
  MF.Split.after_last_piece hl hs

theorem semicolon_ends_piece {buf : Bytes} {ts : List Token} {ps : List Piece} (hl : lexAll buf = .ok ts)
    (hs : split buf = .ok ps) : ∀ t ∈ ts, t.kind = K ";" → ∃ x ∈ ps, x.end = t.pos :=
  MF.Split.semicolon_ends_piece hl hs

theorem first_piece_at_zero {buf : Bytes} {ts : List Token} {x : Piece} {l : List Piece}
    (hl : lexAll buf = .ok ts) (hs : split buf = .ok (x :: l)) : x.pos = 0 :=
  MF.Split.first_piece_at_zero hl hs

/-- the specification evaluated on the tokens of `buf` (`none` when `buf` does not lex) -/
def specOf (buf : Bytes) : Option (List Piece) :=
  match lexAll buf with
  | .ok ts => some (specPieces buf ts 0)
  | _ => none

/-- non-vacuity: literal with ';', comment with ';', comment after the separator: the input lexes and the
specification on its tokens gives the two expected pieces (the same as `split`, see `MF.Props.C12`) -/
example : specOf (B "SELECT ';' /*;*/; /*c*/ SELECT 2;") =
    some [⟨0, 16, B "SELECT ';' /*;*/"⟩, ⟨18, 32, B "/*c*/ SELECT 2"⟩] := by rfl

example : ∃ ts, lexAll (B "SELECT ';' /*;*/; /*c*/ SELECT 2;") = .ok ts ∧
    specPieces (B "SELECT ';' /*;*/; /*c*/ SELECT 2;") ts 0 =
      [⟨0, 16, B "SELECT ';' /*;*/"⟩, ⟨18, 32, B "/*c*/ SELECT 2"⟩] ∧
    (ts.filter (fun t => t.kind == K ";")).length = 2 := ⟨_, rfl, by rfl, by rfl⟩

/-- the degenerate case: nothing collected -/
example : specOf (B "") = some [] := by rfl

/-- no trailing `;`: the last piece ends with the input -/
example : specOf (B "a;b ") = some [⟨0, 1, B "a"⟩, ⟨2, 4, B "b "⟩] := by rfl

end MF.Props.C12
