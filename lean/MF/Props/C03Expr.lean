/-
  C03 for the `ParseExpr` entry point — the model of `ParseExpr` TERMINATES and RETURNS on every byte string: no fuel
  exhaustion, no crash, on accepted, on rejected AND on garbage inputs.

  What is proved (about the Lean model MF/Model/Expr.lean: the ~35 mutually recursive functions `parseExpr … parseLit`,
  the entry point `parseExprTop`, the requests `exprRun` / `exprRunRT`; the model is tied to `memefish.ParseExpr` function
  for function and validated against it by the EXPR channel — AST shape and `SQL()` text — on every run; lexer model
  MF/Model/Lexer.lean), with the CONCRETE LINEAR fuel bound

        exprFuel ts = 15 * |ts| + 15          (|ts| = number of tokens, `<eof>` included)

   * `parseExpr_terminates`         `parseExpr (exprFuel ts) ts ≠ outOfFuel` on EVERY token list (no hypothesis at all:
                                    accepted, rejected, garbage, not even lexer output); `parseExpr_terminates_bound`: the
                                    same for every fuel ≥ `exprFuel ts`; `parseExprTop_terminates` / `…_bound`: the same
                                    for the entry point `parseExprTop` (whole input = one expression);
   * `exprFuel_linear`              the bound is `15 * |ts| + 15` and lies below the driver's `topFuel ts = 32 * (|ts| + 2)`,
                                    hence `parseExpr_terminates_driver`: the fuel the EXPR channel really passes suffices;
   * `parseExpr_fuel_stable`        every fuel ≥ `exprFuel ts` gives the answer of `exprFuel ts` (`parseExprTop_fuel_stable`;
                                    `parseExprTop_fuel_stable_driver`: … the answer of the driver's fuel);
   * `parseExpr_decides`            hence the model DECIDES every token list whose numeric tokens are non-empty (`NumOK`,
                                    true of all lexer output: `parseExpr_decides_lexed`): `ok (e, rest)`, `raise` or `outside`
                                    with `exprFuel ts`; without `NumOK` the fourth answer `crash` (the modelled index panic
                                    `e.Value[0]` of `parseUnary`) is possible — `parseExpr_decides_any`, and `crash_possible`
                                    exhibits such a (non-lexer) token list, so the three-way statement is FALSE without the
                                    hypothesis; `parseExprTop_decides`: the entry point, for ALL sufficient fuels;
   * `expr_answer_fuel_irrelevant`  an answer other than `outOfFuel` obtained with SOME fuel is the answer with `exprFuel ts`
                                    and with the driver's fuel (in particular rejections: `expr_reject_fuel_irrelevant`);
   * `exprRun_total`, `exprRunRT_total`   lexer totality (`C03.lexer_terminates`) + the above + `C07.no_crash`: the EXPR request
                                    (`exprRunRT` is what lean/Driver.lean calls, `exprRun` the same without the `rt` field)
                                    never answers `FUEL` and never `CRASH`, on every byte string;
   * `exprRun_answers`              it answers `ERR`, `OUTSIDE`, `OUTSIDE-MODEL`, or `OK …` for THE tree of the input (the
                                    one every sufficient fuel returns);
   * `ok_rest_suffix`               after `ok` the remaining tokens are a suffix of the input;
   * the POSITIONED twin `parsePExpr … parsePLit` / `parsePTop` (MF/Model/ExprPos.lean, the parser of the EXPRPOS request,
     which erases to the model above: `parseExpr_eq_erase`): `parsePExpr_terminates`, `parsePTop_terminates`,
     `parsePTop_terminates_driver`, `parsePTop_fuel_stable` (the positioned TREE does not depend on the fuel; this needed
     a fuel-monotonicity record for the twin, `PMonoAt` in MF/Proofs/ExprPosTerminates.lean), `parsePTop_decides`,
     `exprPosRun_total`, `exprPosRunC_total` (the EXPRPOS request of the driver never answers `FUEL` or `CRASH`).

  Why the bound holds: fuel is call depth; the look-aheads are structurally recursive or not recursive and take no fuel;
  the longest call chain that consumes no token is the ladder `parseExpr → parseOr → … → parseLit → parseParenExpr` —
  fifteen calls for the one token `(` — and every other cycle of the call graph spends fewer calls per consumed token.
  See MF/Proofs/ExprTerminates.lean (`TermAt`: `15 * |ts| + d` per function, `d` = height in the ladder; induction on the
  fuel; the soundness record gives "the rest is not longer than the input" where the state after a callee matters).
  `paren4_tight`: on the four tokens `( ( ( (` (no `<eof>`) fuel 73 runs out, 74 answers, the bound is 75.

  What is NOT proved: termination of the other productions of parser.go (statements, queries, DDL/DML, and the expression
  forms OUTSIDE the fragment M1: calls, sub-queries, typed / struct / ARRAY<…> literals, EXISTS, EXTRACT, WITH, NEW, braced
  constructors, INTERVAL, …) — where the Go parser dispatches into such a production the model answers `outside` and says
  nothing further (the request prints `OUTSIDE` / `OUTSIDE-MODEL` and the channel does not compare); for them C03 keeps
  the structural theorem `no_escape` and the wall-clock deadline of the predicate.  Nothing here is about Go run-time
  panics other than the one modelled index expression (`crash`).  `raise` carries no state: no statement is made about
  the parser state after a rejected input.  For the EXPRPOS request only the outer parse is covered: its `c06` field
  re-parses the text of every sub-expression with `topFuel` of THAT text, which terminates by the same theorem, but no
  statement about the value of the field is made here.
-/
import MF.Proofs.ExprTerminates
import MF.Proofs.ExprPosTerminates
import MF.Proofs.ExprNoCrash
import MF.Proofs.LexErr
import MF.Spec.PrintToks
import MF.Props.C03Types
namespace MF.Props.C03
open MF MF.Expr

/-! ## termination -/

/-- TERMINATION.  On every token list — accepted, rejected, garbage — the ladder answers with fuel `15 * |ts| + 15`. -/
theorem parseExpr_terminates (ts : List Token) : parseExpr (exprFuel ts) ts ≠ .outOfFuel :=
  parseExpr_ne_oof (Nat.le_refl _)

/-- the same with the bound written out, for every fuel above it -/
theorem parseExpr_terminates_bound (ts : List Token) (fuel : Nat) (h : 15 * ts.length + 15 ≤ fuel) :
    parseExpr fuel ts ≠ .outOfFuel :=
  parseExpr_ne_oof h

/-- TERMINATION of the entry point (the whole input must be one expression) -/
theorem parseExprTop_terminates (ts : List Token) : parseExprTop (exprFuel ts) ts ≠ .outOfFuel :=
  parseExprTop_ne_oof (Nat.le_refl _)

theorem parseExprTop_terminates_bound (ts : List Token) (fuel : Nat) (h : 15 * ts.length + 15 ≤ fuel) :
    parseExprTop fuel ts ≠ .outOfFuel :=
  parseExprTop_ne_oof h

/-- the bound is a concrete linear function of the number of tokens and lies below the driver's fuel -/
theorem exprFuel_linear (ts : List Token) :
    exprFuel ts = 15 * ts.length + 15 ∧ topFuel ts = 32 * (ts.length + 2) ∧ exprFuel ts ≤ topFuel ts :=
  ⟨rfl, rfl, exprFuel_le_topFuel ts⟩

/-- TERMINATION with the fuel the driver passes for EXPR requests: the channel never sees `FUEL` -/
theorem parseExpr_terminates_driver (ts : List Token) : parseExprTop (topFuel ts) ts ≠ .outOfFuel :=
  parseExprTop_ne_oof (exprFuel_le_topFuel ts)

/-! ## fuel stability -/

/-- FUEL STABILITY.  Every fuel above the bound gives the answer of the bound. -/
theorem parseExpr_fuel_stable (ts : List Token) (fuel : Nat) (h : exprFuel ts ≤ fuel) :
    parseExpr fuel ts = parseExpr (exprFuel ts) ts :=
  parseExpr_stable h (Nat.le_refl _)

theorem parseExprTop_fuel_stable (ts : List Token) (fuel : Nat) (h : exprFuel ts ≤ fuel) :
    parseExprTop fuel ts = parseExprTop (exprFuel ts) ts :=
  parseExprTop_stable h (Nat.le_refl _)

/-- … which is also the answer of the driver's fuel -/
theorem parseExprTop_fuel_stable_driver (ts : List Token) (fuel : Nat) (h : exprFuel ts ≤ fuel) :
    parseExprTop fuel ts = parseExprTop (topFuel ts) ts :=
  parseExprTop_stable h (exprFuel_le_topFuel ts)

/-- a non-`outOfFuel` answer survives more fuel (no bound needed) -/
theorem parseExprTop_fuel_mono {n m : Nat} {ts : List Token} (hnm : n ≤ m) (h : parseExprTop n ts ≠ .outOfFuel) :
    parseExprTop m ts = parseExprTop n ts :=
  Expr.parseExprTop_mono hnm h

/-- an answer obtained with SOME fuel is the answer with the bound and with the driver's fuel -/
theorem expr_answer_fuel_irrelevant {fuel : Nat} {ts : List Token} {r : Res Expr} (h : parseExprTop fuel ts = r)
    (hr : r ≠ .outOfFuel) : parseExprTop (exprFuel ts) ts = r ∧ parseExprTop (topFuel ts) ts = r := by
  have hne : parseExprTop fuel ts ≠ .outOfFuel := by rw [h]; exact hr
  have h1 := Expr.parseExprTop_mono (Nat.le_max_left fuel (exprFuel ts)) hne
  have h2 := parseExprTop_fuel_stable ts _ (Nat.le_max_right fuel (exprFuel ts))
  have h3 : parseExprTop (exprFuel ts) ts = r := by rw [← h2, h1, h]
  exact ⟨h3, by rw [← parseExprTop_fuel_stable_driver ts _ (Nat.le_refl _), h3]⟩

/-- a rejection obtained with SOME fuel is the driver's answer -/
theorem expr_reject_fuel_irrelevant {fuel : Nat} {ts : List Token} (h : parseExprTop fuel ts = .raise) :
    parseExprTop (topFuel ts) ts = .raise :=
  (expr_answer_fuel_irrelevant h (fun e => by cases e)).2

/-! ## the model decides -/

/-- on ANY token list the ladder answers one of four things with the bound (never `outOfFuel`) -/
theorem parseExpr_decides_any (ts : List Token) :
    (∃ e rest, parseExpr (exprFuel ts) ts = .ok (e, rest)) ∨ parseExpr (exprFuel ts) ts = .raise ∨
      parseExpr (exprFuel ts) ts = .outside ∨ parseExpr (exprFuel ts) ts = .crash := by
  cases h : parseExpr (exprFuel ts) ts with
  | ok a => exact Or.inl ⟨a.1, a.2, rfl⟩
  | raise => exact Or.inr (Or.inl rfl)
  | outside => exact Or.inr (Or.inr (Or.inl rfl))
  | crash => exact Or.inr (Or.inr (Or.inr rfl))
  | outOfFuel => exact absurd h (parseExpr_terminates ts)

/-- the model DECIDES every token list whose numeric tokens are spelled with at least one byte (`NumOK`; all lexer
output is): a tree and the rest, a syntax error, or "outside the fragment".  Without `NumOK` the statement is false:
`crash_possible`. -/
theorem parseExpr_decides (ts : List Token) (hn : NumOK ts) :
    (∃ e rest, parseExpr (exprFuel ts) ts = .ok (e, rest)) ∨ parseExpr (exprFuel ts) ts = .raise ∨
      parseExpr (exprFuel ts) ts = .outside := by
  rcases parseExpr_decides_any ts with h | h | h | h
  · exact Or.inl h
  · exact Or.inr (Or.inl h)
  · exact Or.inr (Or.inr h)
  · exact absurd h (parseExpr_no_crash hn)

theorem parseExpr_decides_lexed {buf : Bytes} {ts : List Token} (hl : Lex.lexAll buf = .ok ts) :
    (∃ e rest, parseExpr (exprFuel ts) ts = .ok (e, rest)) ∨ parseExpr (exprFuel ts) ts = .raise ∨
      parseExpr (exprFuel ts) ts = .outside :=
  parseExpr_decides ts (lexAll_numOK hl)

theorem parseExprTop_ne_crash {fuel : Nat} {ts : List Token} (hn : NumOK ts) : parseExprTop fuel ts ≠ .crash := by
  unfold parseExprTop
  cases h : parseExpr fuel ts with
  | ok a => simp only [Res.bind_ok]; split <;> (intro h'; cases h')
  | crash => exact absurd h (parseExpr_no_crash hn)
  | _ => intro h'; cases h'

/-- the entry point decides, and with EVERY sufficient fuel the same way -/
theorem parseExprTop_decides (ts : List Token) (hn : NumOK ts) :
    (∃ e, ∀ fuel, 15 * ts.length + 15 ≤ fuel → parseExprTop fuel ts = .ok e) ∨
    (∀ fuel, 15 * ts.length + 15 ≤ fuel → parseExprTop fuel ts = .raise) ∨
    (∀ fuel, 15 * ts.length + 15 ≤ fuel → parseExprTop fuel ts = .outside) := by
  cases h : parseExprTop (exprFuel ts) ts with
  | ok e => exact Or.inl ⟨e, fun fuel hf => (parseExprTop_fuel_stable ts fuel hf).trans h⟩
  | raise => exact Or.inr (Or.inl fun fuel hf => (parseExprTop_fuel_stable ts fuel hf).trans h)
  | outside => exact Or.inr (Or.inr fun fuel hf => (parseExprTop_fuel_stable ts fuel hf).trans h)
  | crash => exact absurd h (parseExprTop_ne_crash hn)
  | outOfFuel => exact absurd h (parseExprTop_terminates ts)

/-- frame after a success: the remaining tokens are a suffix of the input -/
theorem ok_rest_suffix {fuel : Nat} {ts rest : List Token} {e : Expr} (h : parseExpr fuel ts = .ok (e, rest)) :
    rest <:+ ts ∧ rest.length ≤ ts.length := by
  obtain ⟨⟨pre, he, _⟩, _⟩ := parseExpr_sound h
  exact ⟨⟨pre, he.symm⟩, l_expr h⟩

/-! ## the EXPR request on byte strings -/

/-- TOTALITY of the EXPR request (`exprRun`): on every byte string the lexer model terminates without crash and the
parser model answers, so the request is never answered `FUEL` or `CRASH` -/
theorem exprRun_total (buf : Bytes) : exprRun buf ≠ "FUEL" ∧ exprRun buf ≠ "CRASH" := by
  unfold exprRun
  cases hl : Lex.lexAll buf with
  | ok ts =>
    simp only
    split
    · exact ⟨by decide, by decide⟩
    · cases hp : parseExprTop (topFuel ts) ts with
      | ok e => simp only [String.append_assoc]; exact ok_ne_fuel _
      | raise => exact ⟨by decide, by decide⟩
      | outside => exact ⟨by decide, by decide⟩
      | crash => exact absurd hp (parseExprTop_ne_crash (lexAll_numOK hl))
      | outOfFuel => exact absurd hp (parseExpr_terminates_driver ts)
  | err ts e => simp only; exact ⟨by decide, by decide⟩
  | crash ts => exact absurd hl (Lex.lexAll_ne_crash buf ts)

/-- the same for the function the driver really calls (lean/Driver.lean, request `EXPR`): `exprRun` with the `rt` field -/
theorem exprRunRT_total (buf : Bytes) : exprRunRT buf ≠ "FUEL" ∧ exprRunRT buf ≠ "CRASH" := by
  unfold exprRunRT
  cases hl : Lex.lexAll buf with
  | ok ts =>
    simp only
    split
    · exact ⟨by decide, by decide⟩
    · cases hp : parseExprTop (topFuel ts) ts with
      | ok e => simp only [String.append_assoc]; exact ok_ne_fuel _
      | raise => exact ⟨by decide, by decide⟩
      | outside => exact ⟨by decide, by decide⟩
      | crash => exact absurd hp (parseExprTop_ne_crash (lexAll_numOK hl))
      | outOfFuel => exact absurd hp (parseExpr_terminates_driver ts)
  | err ts e => simp only; exact ⟨by decide, by decide⟩
  | crash ts => exact absurd hl (Lex.lexAll_ne_crash buf ts)

/-- what the request answers: `ERR`, `OUTSIDE`, `OUTSIDE-MODEL`, or `OK …` for THE tree of the input (the one every
sufficient fuel returns) -/
theorem exprRun_answers (buf : Bytes) :
    exprRun buf = "ERR" ∨ exprRun buf = "OUTSIDE" ∨ exprRun buf = "OUTSIDE-MODEL" ∨
    ∃ ts e, Lex.lexAll buf = .ok ts ∧ (∀ fuel, 15 * ts.length + 15 ≤ fuel → parseExprTop fuel ts = .ok e) ∧
      exprRun buf = "OK " ++ sexp e ++ " " ++ hxs (sqlE e) := by
  unfold exprRun
  cases hl : Lex.lexAll buf with
  | ok ts =>
    simp only
    split
    · exact Or.inr (Or.inl rfl)
    · cases hp : parseExprTop (topFuel ts) ts with
      | ok e =>
        exact Or.inr (Or.inr (Or.inr ⟨ts, e, rfl,
          fun fuel hf => (parseExprTop_fuel_stable_driver ts fuel hf).trans hp, rfl⟩))
      | raise => exact Or.inl rfl
      | outside => exact Or.inr (Or.inr (Or.inl rfl))
      | crash => exact absurd hp (parseExprTop_ne_crash (lexAll_numOK hl))
      | outOfFuel => exact absurd hp (parseExpr_terminates_driver ts)
  | err ts e => exact Or.inl rfl
  | crash ts => exact absurd hl (Lex.lexAll_ne_crash buf ts)

/-! ## the positioned twin (the parser of the EXPRPOS request) -/

/-- TERMINATION of the positioned ladder on every token list -/
theorem parsePExpr_terminates (ts : List Token) : parsePExpr (exprFuel ts) ts ≠ .outOfFuel :=
  parsePExpr_ne_oof (Nat.le_refl _)

theorem parsePTop_terminates (ts : List Token) : parsePTop (exprFuel ts) ts ≠ .outOfFuel :=
  parsePTop_ne_oof (Nat.le_refl _)

theorem parsePTop_terminates_bound (ts : List Token) (fuel : Nat) (h : 15 * ts.length + 15 ≤ fuel) :
    parsePTop fuel ts ≠ .outOfFuel :=
  parsePTop_ne_oof h

/-- … with the fuel the driver passes for EXPRPOS requests -/
theorem parsePTop_terminates_driver (ts : List Token) : parsePTop (topFuel ts) ts ≠ .outOfFuel :=
  parsePTop_ne_oof (exprFuel_le_topFuel ts)

/-- FUEL STABILITY of the positioned parser: the same answer, positions included, for every fuel above the bound -/
theorem parsePExpr_fuel_stable (ts : List Token) (fuel : Nat) (h : exprFuel ts ≤ fuel) :
    parsePExpr fuel ts = parsePExpr (exprFuel ts) ts :=
  parsePExpr_stable h (Nat.le_refl _)

theorem parsePTop_fuel_stable (ts : List Token) (fuel : Nat) (h : exprFuel ts ≤ fuel) :
    parsePTop fuel ts = parsePTop (exprFuel ts) ts :=
  parsePTop_stable h (Nat.le_refl _)

theorem parsePTop_fuel_stable_driver (ts : List Token) (fuel : Nat) (h : exprFuel ts ≤ fuel) :
    parsePTop fuel ts = parsePTop (topFuel ts) ts :=
  parsePTop_stable h (exprFuel_le_topFuel ts)

theorem parsePTop_ne_crash {fuel : Nat} {ts : List Token} (hn : NumOK ts) : parsePTop fuel ts ≠ .crash :=
  fun e => parseExprTop_ne_crash hn ((parsePTop_crash_iff fuel ts).1 e)

/-- the positioned entry point decides, and with EVERY sufficient fuel the same way -/
theorem parsePTop_decides (ts : List Token) (hn : NumOK ts) :
    (∃ e, ∀ fuel, 15 * ts.length + 15 ≤ fuel → parsePTop fuel ts = .ok e) ∨
    (∀ fuel, 15 * ts.length + 15 ≤ fuel → parsePTop fuel ts = .raise) ∨
    (∀ fuel, 15 * ts.length + 15 ≤ fuel → parsePTop fuel ts = .outside) := by
  cases h : parsePTop (exprFuel ts) ts with
  | ok e => exact Or.inl ⟨e, fun fuel hf => (parsePTop_fuel_stable ts fuel hf).trans h⟩
  | raise => exact Or.inr (Or.inl fun fuel hf => (parsePTop_fuel_stable ts fuel hf).trans h)
  | outside => exact Or.inr (Or.inr fun fuel hf => (parsePTop_fuel_stable ts fuel hf).trans h)
  | crash => exact absurd h (parsePTop_ne_crash hn)
  | outOfFuel => exact absurd h (parsePTop_terminates ts)

/-- TOTALITY of the EXPRPOS request -/
theorem exprPosRun_total (buf : Bytes) : exprPosRun buf ≠ "FUEL" ∧ exprPosRun buf ≠ "CRASH" := by
  unfold exprPosRun
  cases hl : Lex.lexAll buf with
  | ok ts =>
    simp only
    split
    · exact ⟨by decide, by decide⟩
    · cases hp : parsePTop (topFuel ts) ts with
      | ok e => simp only [String.append_assoc]; exact ok_ne_fuel _
      | raise => exact ⟨by decide, by decide⟩
      | outside => exact ⟨by decide, by decide⟩
      | crash => exact absurd hp (parsePTop_ne_crash (lexAll_numOK hl))
      | outOfFuel => exact absurd hp (parsePTop_terminates_driver ts)
  | err ts e => simp only; exact ⟨by decide, by decide⟩
  | crash ts => exact absurd hl (Lex.lexAll_ne_crash buf ts)

/-- the same for the function the driver really calls (request `EXPRPOS`): `exprPosRun` with the `c06` field -/
theorem exprPosRunC_total (buf : Bytes) : exprPosRunC buf ≠ "FUEL" ∧ exprPosRunC buf ≠ "CRASH" := by
  unfold exprPosRunC
  cases hl : Lex.lexAll buf with
  | ok ts =>
    simp only
    split
    · exact ⟨by decide, by decide⟩
    · cases hp : parsePTop (topFuel ts) ts with
      | ok e => simp only [String.append_assoc]; exact ok_ne_fuel _
      | raise => simp only; exact ⟨by decide, by decide⟩
      | outside => simp only; exact ⟨by decide, by decide⟩
      | crash => exact absurd hp (parsePTop_ne_crash (lexAll_numOK hl))
      | outOfFuel => exact absurd hp (parsePTop_terminates_driver ts)
  | err ts e => simp only; exact ⟨by decide, by decide⟩
  | crash ts => exact absurd hl (Lex.lexAll_ne_crash buf ts)

/-! ## non-vacuity on REJECTED and garbage inputs (through lexer and parser, evaluated by the kernel) -/

example : exprRun (B "1 + + *") = "ERR" := by decide +kernel
example : exprRun (B "((((") = "ERR" := by decide +kernel
example : exprRun (B "CASE WHEN") = "ERR" := by decide +kernel
example : exprRun (B "a IN (1,") = "ERR" := by decide +kernel
example : exprRun (B ")") = "ERR" := by decide +kernel
example : exprRun (B "") = "ERR" := by decide +kernel
example : exprRun (B "NOT NOT NOT") = "ERR" := by decide +kernel
example : exprRun (B "a[[[[") = "ERR" := by decide +kernel
example : exprRun (B "IF(IF(IF(") = "ERR" := by decide +kernel
example : exprRun (B "CAST(a AS b.c.d.e") = "ERR" := by decide +kernel
example : exprRun (B "- - - -") = "ERR" := by decide +kernel
example : exprRun (B "a BETWEEN 1 AND") = "ERR" := by decide +kernel
/-- rejected by the lexer (unterminated string) -/
example : exprRun (B "\"abc") = "ERR" := by decide +kernel
/-- the request of the driver (with the `rt` field) -/
example : exprRunRT (B "((((") = "ERR" := by decide +kernel
example : exprRunRT (B "((((1))))") = "OK (paren (paren (paren (paren (int 31))))) 282828283129292929 rt=1" := by
  decide +kernel

def isOofE {α : Type} : Res α → Bool | .outOfFuel => true | _ => false
def isRaiseE {α : Type} : Res α → Bool | .raise => true | _ => false
def isCrashE {α : Type} : Res α → Bool | .crash => true | _ => false

def lexed (s : String) : List Token := match Lex.lexAll (B s) with | .ok ts => ts | _ => []

/-- `((((` -/
def rejP : List Token := lexed "(((("
/-- `1 + + *` -/
def rejO : List Token := lexed "1 + + *"
/-- `CASE WHEN` -/
def rejC : List Token := lexed "CASE WHEN"
/-- `a IN (1,` -/
def rejI : List Token := lexed "a IN (1,"
/-- `)` -/
def rejR : List Token := lexed ")"
/-- the four tokens `( ( ( (` without the `<eof>` -/
def paren4 : List Token := rejP.take 4

/-- `((((`: 5 tokens (with `<eof>`); the call chain is 15 per `(` plus the descent to `parseLit` on `<eof>`: fuel 73 runs
out, fuel 74 rejects, and so do the bound `15 * 5 + 15 = 90` and the driver's fuel `224` -/
theorem rejP_facts : rejP.length = 5 ∧ exprFuel rejP = 90 ∧ topFuel rejP = 224 ∧
    isOofE (parseExprTop 73 rejP) = true ∧ isRaiseE (parseExprTop 74 rejP) = true ∧
    isRaiseE (parseExprTop (exprFuel rejP) rejP) = true ∧ isRaiseE (parseExprTop (topFuel rejP) rejP) = true := by
  decide +kernel

/-- the bound is tight up to its additive constant: on `( ( ( (` WITHOUT `<eof>` (4 tokens) the bound is 75 and 74
units of fuel are needed -/
theorem paren4_tight : paren4.length = 4 ∧ exprFuel paren4 = 75 ∧
    isOofE (parseExpr 73 paren4) = true ∧ isRaiseE (parseExpr 74 paren4) = true := by
  decide +kernel

/-- the other garbage inputs of the task: fuel needed, the bound, the answer with the bound -/
theorem rej_facts :
    (rejO.length = 5 ∧ isOofE (parseExprTop 15 rejO) = true ∧ isRaiseE (parseExprTop 16 rejO) = true ∧
      isRaiseE (parseExprTop (exprFuel rejO) rejO) = true) ∧
    (rejC.length = 3 ∧ isOofE (parseExprTop 29 rejC) = true ∧ isRaiseE (parseExprTop 30 rejC) = true ∧
      isRaiseE (parseExprTop (exprFuel rejC) rejC) = true) ∧
    (rejI.length = 6 ∧ isOofE (parseExprTop 20 rejI) = true ∧ isRaiseE (parseExprTop 21 rejI) = true ∧
      isRaiseE (parseExprTop (exprFuel rejI) rejI) = true) ∧
    (rejR.length = 2 ∧ isOofE (parseExprTop 13 rejR) = true ∧ isRaiseE (parseExprTop 14 rejR) = true ∧
      isRaiseE (parseExprTop (exprFuel rejR) rejR) = true) := by
  decide +kernel

/-- a token list that is NOT lexer output — `-` followed by an integer token with an empty spelling — on which the ladder
answers `crash` (the modelled `e.Value[0]`): `parseExpr_decides` needs `NumOK` -/
def crashTs : List Token := [{ kind := .sym (B "-") }, { kind := .int }]

theorem crash_possible : isCrashE (parseExpr (exprFuel crashTs) crashTs) = true := by decide +kernel

/-- the theorems instantiated on a rejected input: the answer is `raise` for every fuel from the bound on -/
example : ∀ fuel, 90 ≤ fuel → parseExprTop fuel rejP = .raise := by
  intro fuel hf
  have hb : exprFuel rejP = 90 := by decide +kernel
  have h74 : parseExprTop 74 rejP = .raise := by
    have : isRaiseE (parseExprTop 74 rejP) = true := by decide +kernel
    cases h : parseExprTop 74 rejP <;> simp [h, isRaiseE] at this
    rfl
  rw [parseExprTop_fuel_stable_driver rejP fuel (by omega), expr_reject_fuel_irrelevant h74]

example : parseExprTop (topFuel rejC) rejC ≠ .outOfFuel := parseExpr_terminates_driver rejC

/-- the positioned twin on the same garbage -/
example : exprPosRun (B "((((") = "ERR" := by decide +kernel
example : exprPosRun (B "a IN (1,") = "ERR" := by decide +kernel
theorem rejP_pos_facts : isOofE (parsePTop 73 rejP) = true ∧ isRaiseE (parsePTop 74 rejP) = true ∧
    isRaiseE (parsePTop (exprFuel rejP) rejP) = true := by
  decide +kernel

end MF.Props.C03
