/-
  C06 for the `ParseType` entry point — node positions are exact.

  `type_exact` (FULL, lexer + parser): for an accepted input and every TYPE node `n` of its tree (SimpleType, NamedType,
  ArrayType, StructType — at any depth), the slice `input[n.Pos():n.End()]`, lexed by the model lexer and parsed on its
  own by `parseTypeTop`, gives `n` with every position decreased by `n.Pos()` (`shiftT`).
  `StructField` and `Ident` nodes are EXCLUDED: a field is not a type (its stand-alone entry would be `STRUCT<slice>`),
  an identifier's stand-alone entry is not ParseType.
  Hypothesis `hq`: no `SimpleType` node below `n` sits on a token that starts with a back quote — the KNOWN DEFECT of
  C05Types (`End()` two bytes short, the slice ``"`INT6"`` does not even lex: `type_positions_fails_backquoted`).

  The proof has a parser side (`type_exact_tokens`: the node owns a contiguous run `m` of the expanded tokens, and any
  token list whose expansion reads like `m` moved down by `n.Pos()`, followed by `<eof>`, parses to `shiftT n.Pos() n`)
  and a lexer side (`slice_lex`: the slice lexes to exactly such a list).  The lexer side is a new locality theorem for
  the lexer model (MF/Proofs/LexWindow.lean): lexing the WINDOW `buf[P:Q]` — `P` the start of a token that is not `.`,
  `Q` the end of a token or the middle of a `>>` — gives the tokens of the window moved down by `P`; no sentinel at the
  cut, positions really shifted, a `>>` cut in the middle becomes `>`.
  The TYPE channel evaluates the same statement on the implementation for every type node of every OK request (flag `ex`:
  Go re-parses the slice with memefish.ParseType and compares with the node moved down).
-/
import MF.Proofs.TypeExact
import MF.Proofs.TypeSlice
import MF.Props.C05Types
namespace MF.Props.C06
open MF MF.TypeP MF.TypeG

/-- the lexer side of C06 for the node `n` with tokens `m`: the slice lexes, and its expanded tokens are `m` moved down
by `pos n`, followed by `<eof>` -/
def SliceLex (buf : Bytes) (n : Ty) (m : List Token) : Prop :=
  ∃ ts2 vs e, Lex.lexAll (slice buf (posT n) (endT n)) = .ok ts2 ∧ expand ts2 = vs ++ [e] ∧ tk e.kind = .eof ∧
    Shifted (posT n) m vs

/-- C06 for types, parser side -/
theorem type_exact_tokens {buf : Bytes} {ts : List Token} {fuel : Nat} {t : Ty}
    (_hl : Lex.lexAll buf = .ok ts) (hp : parseTypeTop fuel ts = .ok t) {n : Ty} (hn : Node.ty n ∈ nodesT t) :
    ∃ l m r, expand ts = l ++ m ++ r ∧ Match (yieldT n) m ∧ wf n = true ∧
      ∀ (ts2 : PState) (vs rest2 : List Token), Shifted (posT n) m vs → expand ts2 = vs ++ rest2 → curX rest2 = .eof →
        parseTypeTop (topFuel ts2) ts2 = .ok (shiftT (posT n) n) := by
  obtain ⟨pre, rest, he, _, hm, hw⟩ := parseTypeTop_sound hp
  obtain ⟨l, m, r, e, hmn, hwn, _, hall⟩ := exact_tokens hw hm hn
  refine ⟨l, m, r ++ rest, by rw [he, e]; simp, hmn, hwn, ?_⟩
  intro ts2 vs rest2 hs he2 hr2
  apply hall ts2 vs rest2 hs he2 hr2
  rw [← needT_shift (posT n)]
  exact need_le_topFuel (by rw [wf_shift]; exact hwn) (by rw [yieldT_shift]; exact match_shift hmn hs) he2

/-- C06 for types, lexer side: the slice lexes to the node's tokens moved down by `pos n`, followed by `<eof>` -/
theorem slice_lex {buf : Bytes} {ts : List Token} {fuel : Nat} {t : Ty}
    (hl : Lex.lexAll buf = .ok ts) (hp : parseTypeTop fuel ts = .ok t) {n : Ty} (hn : Node.ty n ∈ nodesT t)
    (hq : ∀ a nm, Node.ty (.simple a nm) ∈ nodesT n → ∀ tok ∈ ts, tok.pos = a → tok.raw.head? ≠ some 96) :
    ∃ l m r, expand ts = l ++ m ++ r ∧ Match (yieldT n) m ∧ SliceLex buf n m := by
  obtain ⟨l, m, r, e, hm, _, ts2, vs, ee, h1, h2, h3, h4⟩ := MF.TypeP.slice_lex hl hp hn hq
  exact ⟨l, m, r, e, hm, ts2, vs, ee, h1, h2, h3, h4⟩

/-- C06 for types (FULL): for an accepted input and every type node `n` whose subtree has no `SimpleType` on a back-quoted
token, `input[pos n : end n]` lexes and `parseTypeTop` on it gives `n` with all positions decreased by `pos n` -/
theorem type_exact {buf : Bytes} {ts : List Token} {fuel : Nat} {t : Ty}
    (hl : Lex.lexAll buf = .ok ts) (hp : parseTypeTop fuel ts = .ok t) {n : Ty} (hn : Node.ty n ∈ nodesT t)
    (hq : ∀ a nm, Node.ty (.simple a nm) ∈ nodesT n → ∀ tok ∈ ts, tok.pos = a → tok.raw.head? ≠ some 96) :
    ∃ ts2, Lex.lexAll (slice buf (posT n) (endT n)) = .ok ts2 ∧
      parseTypeTop (topFuel ts2) ts2 = .ok (shiftT (posT n) n) :=
  MF.TypeP.type_exact hl hp hn hq

/-- the same with the lexer side as a hypothesis (also holds where `hq` fails but the slice happens to lex right) -/
theorem type_exact_partial {buf : Bytes} {ts : List Token} {fuel : Nat} {t : Ty}
    (hl : Lex.lexAll buf = .ok ts) (hp : parseTypeTop fuel ts = .ok t) {n : Ty} (hn : Node.ty n ∈ nodesT t) :
    ∃ l m r, expand ts = l ++ m ++ r ∧ Match (yieldT n) m ∧
      (SliceLex buf n m →
        ∃ ts2, Lex.lexAll (slice buf (posT n) (endT n)) = .ok ts2 ∧
          parseTypeTop (topFuel ts2) ts2 = .ok (shiftT (posT n) n)) := by
  obtain ⟨l, m, r, e, hmn, _, hall⟩ := type_exact_tokens hl hp hn
  refine ⟨l, m, r, e, hmn, ?_⟩
  rintro ⟨ts2, vs, e2, hl2, he2, hk2, hs⟩
  exact ⟨ts2, hl2, hall ts2 vs [e2] hs he2 (by simp [curX, hk2])⟩

/-! ## non-vacuity: the four type nodes of `ARRAY<STRUCT<a INT64, b ARRAY<STRING>>>`

The inner `ARRAY<STRING>` (24..37) ends in the middle of the `>>` token; the STRUCT (6..38) ends at the end of it. -/

open MF.Props.C05 (exBuf exToks exTree ex_lex ex_parse)

def sliceToks (a b : Nat) : List Token := match Lex.lexAll (slice exBuf a b) with | .ok ts => ts | _ => []

/-- every type node of the example: the slice lexes and parses to the node moved down by its position -/
theorem ex_exact :
    (Lex.lexAll (slice exBuf 6 38) = .ok (sliceToks 6 38) ∧
      parseTypeTop (topFuel (sliceToks 6 38)) (sliceToks 6 38) =
        .ok (shiftT 6 (.struct 6 37 (.cons (some ⟨13, 14, B "a"⟩) (.simple 15 (B "INT64"))
          (.cons (some ⟨22, 23, B "b"⟩) (.array 24 36 (.simple 30 (B "STRING"))) .nil))))) ∧
    (Lex.lexAll (slice exBuf 24 37) = .ok (sliceToks 24 37) ∧
      parseTypeTop (topFuel (sliceToks 24 37)) (sliceToks 24 37) = .ok (shiftT 24 (.array 24 36 (.simple 30 (B "STRING"))))) ∧
    (Lex.lexAll (slice exBuf 15 20) = .ok (sliceToks 15 20) ∧
      parseTypeTop (topFuel (sliceToks 15 20)) (sliceToks 15 20) = .ok (shiftT 15 (.simple 15 (B "INT64")))) ∧
    (Lex.lexAll (slice exBuf 30 36) = .ok (sliceToks 30 36) ∧
      parseTypeTop (topFuel (sliceToks 30 36)) (sliceToks 30 36) = .ok (shiftT 30 (.simple 30 (B "STRING")))) :=
  ⟨⟨by rfl, by rfl⟩, ⟨by rfl, by rfl⟩, ⟨by rfl, by rfl⟩, ⟨by rfl, by rfl⟩⟩

/-- the slices: `STRUCT<a INT64, b ARRAY<STRING>>` ends with the whole `>>` token, `ARRAY<STRING>` with its first byte -/
example : slice exBuf 6 38 = B "STRUCT<a INT64, b ARRAY<STRING>>" ∧ slice exBuf 24 37 = B "ARRAY<STRING>" := by decide

/-- `type_exact` instantiated on the inner array of the example (the slice ends in the middle of the `>>` token) -/
example : ∃ ts2, Lex.lexAll (slice exBuf 24 37) = .ok ts2 ∧
    parseTypeTop (topFuel ts2) ts2 = .ok (shiftT 24 (.array 24 36 (.simple 30 (B "STRING")))) :=
  type_exact ex_lex ex_parse (n := .array 24 36 (.simple 30 (B "STRING")))
    (by simp [exTree, nodesT, nodesFs, optIdent])
    (fun _ _ _ tok htok _ => MF.Props.C05.ex_unquoted tok htok)

/-- `type_exact_tokens` instantiated on the inner array -/
example : ∃ l m r, expand exToks = l ++ m ++ r ∧ Match (yieldT (.array 24 36 (.simple 30 (B "STRING")))) m ∧
    wf (.array 24 36 (.simple 30 (B "STRING"))) = true ∧
    ∀ (ts2 : PState) (vs rest2 : List Token), Shifted 24 m vs → expand ts2 = vs ++ rest2 → curX rest2 = .eof →
      parseTypeTop (topFuel ts2) ts2 = .ok (shiftT 24 (.array 24 36 (.simple 30 (B "STRING")))) :=
  type_exact_tokens ex_lex ex_parse (n := .array 24 36 (.simple 30 (B "STRING")))
    (by simp [exTree, nodesT, nodesFs, optIdent])

/-! ## the repaired inputs: every type node of `STRUCT<a date.t, b INT64.u>` and of `` `date`.x `` re-parses from its
slice (`date.t` = bytes 9..15, `INT64.u` = bytes 19..26; before the repair of `lookaheadSimpleType` neither the input
nor the slices were accepted) -/

open MF.Props.C05 (ex3Buf ex3Toks ex3Tree ex3_lex ex3_parse bqnBuf bqnToks bqnTree bqn_lex bqn_parse)

example : slice ex3Buf 9 15 = B "date.t" ∧ slice ex3Buf 19 26 = B "INT64.u" := by decide

/-- `type_exact` instantiated on the two named types (no SimpleType below them: `hq` is vacuous) -/
example : ∃ ts2, Lex.lexAll (slice ex3Buf 9 15) = .ok ts2 ∧
    parseTypeTop (topFuel ts2) ts2 = .ok (.named [⟨0, 4, B "date"⟩, ⟨5, 6, B "t"⟩]) :=
  type_exact ex3_lex ex3_parse (n := .named [⟨9, 13, B "date"⟩, ⟨14, 15, B "t"⟩])
    (by simp [ex3Tree, nodesT, nodesFs, optIdent]) (fun a nm hn => by simp [nodesT] at hn)

example : ∃ ts2, Lex.lexAll (slice ex3Buf 19 26) = .ok ts2 ∧
    parseTypeTop (topFuel ts2) ts2 = .ok (.named [⟨0, 5, B "INT64"⟩, ⟨6, 7, B "u"⟩]) :=
  type_exact ex3_lex ex3_parse (n := .named [⟨19, 24, B "INT64"⟩, ⟨25, 26, B "u"⟩])
    (by simp [ex3Tree, nodesT, nodesFs, optIdent]) (fun a nm hn => by simp [nodesT] at hn)

/-- the back-quoted first component: the whole input is the only type node -/
example : ∃ ts2, Lex.lexAll (slice bqnBuf 0 8) = .ok ts2 ∧ parseTypeTop (topFuel ts2) ts2 = .ok bqnTree :=
  type_exact bqn_lex bqn_parse (n := bqnTree) (by simp [bqnTree, nodesT]) (fun a nm hn => by simp [bqnTree, nodesT] at hn)

end MF.Props.C06
