/-
  C05 — positions, DML fragment M2, statement level, PARTIAL (`dml_fields_aligned_partial`).

  Proved: every position FIELD stored in the statement-level nodes of a parsed DML statement (Insert.Insert,
  ValuesInput.Values, ValuesRow.Lparen / Rparen, DefaultExpr.DefaultPos, Delete.Delete, Update.Update, Where.Where,
  AsAlias.As, and NamePos of every Ident of the table path, the column list, the alias and the SET paths) is the `Pos` of
  a token of the statement, and the fields, listed in source order (`dmlFieldsS`), are the positions of a SUBLIST of the
  consumed tokens — so they are token-aligned and ordered as the tokens are (strictly increasing and in range for lexer
  output, `MF.Lex.TokensOK`); every Ident's `NameEnd` is the `End` of the same token (`identOf`).  `Pos()` of every
  statement-level node is one of these fields (ast/pos.go, `MF.DML.posD` …).

  NOT proved here (hence `_partial`): `End()` of the statement-level nodes — `ValuesRow.End = Rparen + 1`,
  `DefaultExpr.End = DefaultPos + 7` need the byte length of the `)` / DEFAULT token (a lexer fact), `Where.End`,
  `UpdateItem.End`, `Delete.End`, `Update.End` are `End()` of an expression (`MF.Props.C05.expr_positions` for the
  positioned twin of the slot) — and the nesting of the expression nodes inside them.  The DML channel compares
  `Pos()` / `End()` of every node with Go on every accepted request.
-/
import MF.Proofs.DMLSound
import MF.Proofs.DMLPos
import MF.Props.C05Query
namespace MF.Props.C05
open MF MF.Expr MF.DML

def dmlFieldsPath (ids : List PIdent) : List Nat := ids.map (·.namePos)
def dmlFieldsDefault : DefaultExpr Expr → List Nat
  | .dflt p => [p]
  | .expr _ => []
def dmlFieldsEntries : List (DefaultExpr Expr) → List Nat
  | [] => []
  | d :: ds => dmlFieldsDefault d ++ dmlFieldsEntries ds
def dmlFieldsRow (r : ValuesRow Expr) : List Nat := r.lparen :: (dmlFieldsEntries r.exprs ++ [r.rparen])
def dmlFieldsRows : List (ValuesRow Expr) → List Nat
  | [] => []
  | r :: rs => dmlFieldsRow r ++ dmlFieldsRows rs
def dmlFieldsItem (u : UpdateItem Expr) : List Nat := dmlFieldsPath u.path ++ dmlFieldsDefault u.dflt
def dmlFieldsItems : List (UpdateItem Expr) → List Nat
  | [] => []
  | u :: us => dmlFieldsItem u ++ dmlFieldsItems us
def dmlFieldsAlias : Option AsAlias → List Nat
  | none => []
  | some ⟨some p, i⟩ => [p, i.namePos]
  | some ⟨none, i⟩ => [i.namePos]
/-- the position fields of the statement-level nodes, in source order -/
def dmlFieldsS : Stmt Expr → List Nat
  | .insert p _ t cs v => p :: (dmlFieldsPath t ++ (dmlFieldsPath cs ++ (v.values :: dmlFieldsRows v.rows)))
  | .delete p t a w => p :: (dmlFieldsPath t ++ (dmlFieldsAlias a ++ [w.wherePos]))
  | .update p t a us w => p :: (dmlFieldsPath t ++ (dmlFieldsAlias a ++ (dmlFieldsItems us ++ [w.wherePos])))

/-- `fs` are the positions of a sublist of the tokens `p` -/
def DmlSel (fs : List Nat) (p : List Token) : Prop := ∃ sel, List.Sublist sel p ∧ sel.map (·.pos) = fs

theorem DmlSel.nil (p : List Token) : DmlSel [] p := ⟨[], List.nil_sublist p, rfl⟩
theorem DmlSel.take {fs : List Nat} {p : List Token} (t : Token) (h : DmlSel fs p) : DmlSel (t.pos :: fs) (t :: p) := by
  obtain ⟨sel, h1, h2⟩ := h
  exact ⟨t :: sel, h1.cons_cons t, by simp [h2]⟩
theorem DmlSel.skip {fs : List Nat} {p : List Token} (t : Token) (h : DmlSel fs p) : DmlSel fs (t :: p) := by
  obtain ⟨sel, h1, h2⟩ := h
  exact ⟨sel, h1.cons t, h2⟩
theorem DmlSel.append {f1 f2 : List Nat} {p1 p2 : List Token} (h1 : DmlSel f1 p1) (h2 : DmlSel f2 p2) : DmlSel (f1 ++ f2) (p1 ++ p2) := by
  obtain ⟨s1, a1, b1⟩ := h1
  obtain ⟨s2, a2, b2⟩ := h2
  exact ⟨s1 ++ s2, a1.append a2, by simp [b1, b2]⟩

theorem dmlPathTail_sel {ids : List PIdent} {p : List Token} (h : PathTailD ids p) : DmlSel (dmlFieldsPath ids) p := by
  induction h with
  | nil => exact DmlSel.nil _
  | cons _ _ _ ih => exact (DmlSel.take _ ih).skip _
theorem dmlPath_sel {ids : List PIdent} {p : List Token} (h : PathD ids p) : DmlSel (dmlFieldsPath ids) p := by
  cases h with
  | mk _ htl => exact DmlSel.take _ (dmlPathTail_sel htl)
theorem dmlIdList_sel {ids : List PIdent} {p : List Token} (h : IdListD ids p) : DmlSel (dmlFieldsPath ids) p := by
  induction h with
  | one _ => exact DmlSel.take _ (DmlSel.nil _)
  | cons _ _ _ ih => exact DmlSel.take _ (ih.skip _)
theorem dmlCols_sel {ids : List PIdent} {p : List Token} (h : ColsD ids p) : DmlSel (dmlFieldsPath ids) p := by
  cases h with
  | empty _ _ => exact DmlSel.nil _
  | @list l r ids ts _ hd _ =>
    have := (dmlIdList_sel hd).append (DmlSel.nil [r])
    simp only [List.append_nil] at this
    exact this.skip _
theorem dmlDefault_sel {d : DefaultExpr Expr} {p : List Token} (h : DefaultD d p) : DmlSel (dmlFieldsDefault d) p := by
  cases h with
  | dflt _ => exact DmlSel.take _ (DmlSel.nil _)
  | expr _ => exact DmlSel.nil _
theorem dmlEntries_sel {ds : List (DefaultExpr Expr)} {p : List Token} (h : EntriesD ds p) : DmlSel (dmlFieldsEntries ds) p := by
  induction h with
  | one hd => simpa [dmlFieldsEntries] using dmlDefault_sel hd
  | cons hd _ _ ih => exact (dmlDefault_sel hd).append (ih.skip _)
theorem dmlRow_sel {r : ValuesRow Expr} {p : List Token} (h : RowD r p) : DmlSel (dmlFieldsRow r) p := by
  cases h with
  | empty _ _ => exact DmlSel.take _ (DmlSel.take _ (DmlSel.nil _))
  | list _ hd _ => exact DmlSel.take _ ((dmlEntries_sel hd).append (DmlSel.take _ (DmlSel.nil _)))
theorem dmlRows_sel {rs : List (ValuesRow Expr)} {p : List Token} (h : RowsD rs p) : DmlSel (dmlFieldsRows rs) p := by
  induction h with
  | one hd => simpa [dmlFieldsRows] using dmlRow_sel hd
  | cons hd _ _ ih => exact (dmlRow_sel hd).append (ih.skip _)
theorem dmlItem_sel {u : UpdateItem Expr} {p : List Token} (h : ItemD u p) : DmlSel (dmlFieldsItem u) p := by
  cases h with
  | mk hp _ hd => exact (dmlPath_sel hp).append ((dmlDefault_sel hd).skip _)
theorem dmlItems_sel {us : List (UpdateItem Expr)} {p : List Token} (h : ItemsD us p) : DmlSel (dmlFieldsItems us) p := by
  induction h with
  | one hd => simpa [dmlFieldsItems] using dmlItem_sel hd
  | cons hd _ _ ih => exact (dmlItem_sel hd).append (ih.skip _)
theorem dmlWhere_sel {w : Where Expr} {p : List Token} (h : WhereD w p) : DmlSel [w.wherePos] p := by
  cases h with
  | mk _ _ => exact DmlSel.take _ (DmlSel.nil _)
theorem dmlAlias_sel {a : Option AsAlias} {p : List Token} (h : AliasD a p) : DmlSel (dmlFieldsAlias a) p := by
  cases h with
  | none => exact DmlSel.nil _
  | as_ _ _ => exact DmlSel.take _ (DmlSel.take _ (DmlSel.nil _))
  | bare _ => exact DmlSel.take _ (DmlSel.nil _)

/-- every statement-level position field is the `Pos` of a token of the statement, in token order -/
theorem dml_fields_aligned_partial {s : Stmt Expr} {pre : List Token} (h : StmtD s pre) :
    ∃ sel, List.Sublist sel pre ∧ sel.map (·.pos) = dmlFieldsS s := by
  cases h with
  | insert _ _ _ hp hc _ hr =>
    exact DmlSel.take _ ((DmlSel.nil _).append ((DmlSel.nil _).append ((dmlPath_sel hp).append ((dmlCols_sel hc).append (DmlSel.take _ (dmlRows_sel hr))))))
  | delete _ _ hp ha hw =>
    exact DmlSel.take _ ((DmlSel.nil _).append ((dmlPath_sel hp).append ((dmlAlias_sel ha).append (dmlWhere_sel hw))))
  | update _ hp ha _ hu hw =>
    exact DmlSel.take _ ((dmlPath_sel hp).append ((dmlAlias_sel ha).append (((dmlItems_sel hu).append (dmlWhere_sel hw)).skip _)))

/-- the same for a run of the model -/
theorem dml_fields_aligned_parsed_partial {fuel : Nat} {ts rest : List Token} {s : Stmt Expr}
    (h : parseDML parseExpr fuel ts = .ok (s, rest)) :
    ∃ pre sel, ts = pre ++ rest ∧ List.Sublist sel pre ∧ sel.map (·.pos) = dmlFieldsS s ∧
      (∀ p ∈ dmlFieldsS s, ∃ t ∈ ts, t.pos = p) := by
  obtain ⟨pre, hts, hd⟩ := parseDML_sound h
  obtain ⟨sel, h1, h2⟩ := dml_fields_aligned_partial hd
  refine ⟨pre, sel, hts, h1, h2, ?_⟩
  intro p hp
  rw [← h2] at hp
  obtain ⟨t, ht, rfl⟩ := List.mem_map.1 hp
  exact ⟨t, by rw [hts]; exact List.mem_append_left _ (h1.subset ht), rfl⟩

/-- every Ident node built by the statement level carries the `Pos` and the `End` of one token -/
theorem dml_ident_span (t : Token) : (identOf t).namePos = t.pos ∧ (identOf t).nameEnd = t.end := ⟨rfl, rfl⟩

/-! ## `Pos()` / `End()` of the statement-level nodes (session 3) — FULL per node-building call

For the positioned DML model (`parsePExpr` in the slots; what the DML channel runs), on any suffix `ts` of a token list
with the lexer's token facts (`TokensOK`, true of every `lexAll` result: `lexed_tokensOK`): the node returned by the call
has `Pos()` = `pos` of the FIRST and `End()` = `end` of the LAST token of the run the call consumed (`Over`).
`Rparen + 1` is the end of the one-byte `)` token and `DefaultPos + 7` the end of the DEFAULT token (`MF.Lex.TokLen`);
`End()` of Where / UpdateItem / DefaultExpr-with-expression / Delete / Update is `End()` of the last slot
(`MF.Query.parsePExpr_over`, i.e. C05 for expressions), `End()` of ValuesInput / Insert the end of the last row.
With `span_facts` / `span_nested` / `span_ordered` (MF/Props/C05Query.lean, about runs of tokens) an `Over` run of lexer
output is token-aligned, `Pos() < End() ≤ len(input)`, nested in an enclosing run and ordered against a later run.
NOT proved: one theorem over ALL nodes of the tree at once (the statements are per call), C06 for DML. -/

open MF.Query (Over TokensOK)

theorem dml_default_span {len f : Nat} {ts rest : List Token} {d : DefaultExpr PExpr} (hT : TokensOK len ts)
    (h : parseDefaultExpr parsePExpr f ts = .ok (d, rest)) :
    ∃ pre, ts = pre ++ rest ∧ Over (posDefault d) (endDefault d) pre := defaultP_over hT h

theorem dml_row_span {len f : Nat} {ts rest : List Token} {r : ValuesRow PExpr} (hT : TokensOK len ts)
    (h : parseValuesRow parsePExpr f ts = .ok (r, rest)) :
    ∃ pre, ts = pre ++ rest ∧ Over (posRow r) (endRow r) pre := rowP_over hT h

theorem dml_input_span {len f : Nat} {ts rest : List Token} {v : ValuesInput PExpr} (hT : TokensOK len ts)
    (h : parseValuesInput parsePExpr f ts = .ok (v, rest)) :
    ∃ pre, ts = pre ++ rest ∧ Over (posInput v) (endInput v) pre := inputP_over hT h

theorem dml_item_span {len f : Nat} {ts rest : List Token} {u : UpdateItem PExpr} (hT : TokensOK len ts)
    (h : parseUpdateItem parsePExpr f ts = .ok (u, rest)) :
    ∃ pre, ts = pre ++ rest ∧ Over (posItem u) (endItem u) pre := itemP_over hT h

theorem dml_where_span {len f : Nat} {ts rest : List Token} {w : DML.Where PExpr} (hT : TokensOK len ts)
    (h : DML.parseWhere parsePExpr f ts = .ok (w, rest)) :
    ∃ pre, ts = pre ++ rest ∧ Over (posWhere w) (endWhere w) pre := whereP_over hT h

theorem dml_alias_span {ts rest : List Token} {a : DML.AsAlias} (h : DML.tryParseAsAlias ts = .ok (some a, rest)) :
    ∃ pre, ts = pre ++ rest ∧ Over (posAlias a) (endAlias a) pre := aliasP_over h

/-- Insert, Delete, Update -/
theorem dml_statement_span {len f : Nat} {ts rest : List Token} {s : PStmt} (hT : TokensOK len ts)
    (h : parseDML parsePExpr f ts = .ok (s, rest)) :
    ∃ pre, ts = pre ++ rest ∧ Over (posD s) (endD s) pre := by
  unfold parseDML at h
  split at h
  · cases h
  · exact stmtP_over hT h

/-- on lexer output: `Pos()` and `End()` of a parsed statement are token boundaries, `Pos() < End() ≤ len(input)` -/
theorem dml_statement_positions {buf : Bytes} {ts rest : List Token} {f : Nat} {s : PStmt}
    (hl : Lex.lexAll buf = .ok ts) (h : parseDML parsePExpr f ts = .ok (s, rest)) (hr : rest ≠ []) :
    (∃ t ∈ ts, t.pos = posD s) ∧ (∃ t ∈ ts, t.end = endD s) ∧ posD s < endD s ∧ endD s ≤ buf.length := by
  obtain ⟨pre, hts, ho⟩ := dml_statement_span (lexed_tokensOK hl) h
  exact span_facts (l := []) hl (by simpa using hts) hr ho

/-! non-vacuity: a concrete statement through the model lexer and the positioned model parser -/

def dmlPosToks : List Token :=
  match Lex.lexAll (B "UPDATE t AS u SET u.a = DEFAULT, b = b + 1 WHERE c IS NULL") with
  | .ok ts => ts
  | _ => []

theorem dmlPosToks_lex : Lex.lexAll (B "UPDATE t AS u SET u.a = DEFAULT, b = b + 1 WHERE c IS NULL") = .ok dmlPosToks := by rfl

def dmlIsOk {α : Type} : Res α → Bool
  | .ok _ => true
  | _ => false

theorem dmlPos_parse : dmlIsOk (parseDML parsePExpr (dmlFuel dmlPosToks) dmlPosToks) = true := by decide +kernel

/-- `dml_statement_span` on it -/
theorem dml_example_span : ∃ (s : PStmt) (pre rest : List Token), dmlPosToks = pre ++ rest ∧ Over (posD s) (endD s) pre := by
  cases h : parseDML parsePExpr (dmlFuel dmlPosToks) dmlPosToks with
  | ok p =>
    obtain ⟨pre, hts, ho⟩ := dml_statement_span (s := p.1) (rest := p.2) (lexed_tokensOK dmlPosToks_lex) h
    exact ⟨p.1, pre, p.2, hts, ho⟩
  | _ => have := dmlPos_parse; rw [h] at this; cases this

/-! ## nesting and order inside ONE statement, on lexer output (session 4): DELETE

`all` = the tokens of the input, `k` the DELETE token, `ts` the tokens behind it.  The statement's range is
`[Pos(), End()) = [k.pos, End(Where))`; inside it, in source order and without overlap: the keyword, the table path, the
alias (if any), the Where node; every part is non-empty and the statement ends inside the input. -/
theorem dml_delete_positions {buf : Bytes} {all l ts rest : List Token} {f : Nat} {k : Token} {s : PStmt}
    (hl : Lex.lexAll buf = .ok all) (hall : all = l ++ k :: ts)
    (h : parseDelete parsePExpr f k.pos ts = .ok (s, rest)) (hr : rest ≠ []) :
    ∃ tbl al wh, s = .delete k.pos tbl al wh ∧
      posD s < posPath tbl ∧ posPath tbl < endPath tbl ∧ endPath tbl ≤ posWhere wh ∧ posWhere wh < endWhere wh ∧
      endWhere wh = endD s ∧ endD s ≤ buf.length ∧
      (∀ a, al = some a → endPath tbl ≤ posAlias a ∧ posAlias a < endAlias a ∧ endAlias a ≤ posWhere wh) := by
  have hTall := lexed_tokensOK hl
  have hT : TokensOK buf.length ts := by
    have e : all = (l ++ [k]) ++ ts := by rw [hall]; simp
    rw [e] at hTall; exact hTall.suffix
  obtain ⟨preF, preP, preA, preW, tbl, al, wh, hs, hts, hoP, hoA, hoW⟩ := deleteP_struct hT h
  have hneW := hoW.1
  refine ⟨tbl, al, wh, hs, ?_, ?_, ?_, ?_, ?_, ?_, ?_⟩
  · -- keyword before the path
    have h1 := Query.over_facts (l := l) (run := [k]) (r := ts) hl (by rw [hall]; simp)
      (by rw [hts]; simp [hneW]) (Query.Over.one k)
    have h2 := Query.over_ordered (l := l) (c1 := [k]) (m := preF) (c2 := preP) (r := preA ++ (preW ++ rest)) hl
      (by rw [hall, hts]; simp) (Query.Over.one k) hoP
    rw [hs]; simp only [posD]; omega
  · exact (Query.over_facts (l := l ++ k :: preF) (run := preP) (r := preA ++ (preW ++ rest)) hl (by rw [hall, hts]; simp)
      (by simp [hneW]) hoP).2.2.1
  · exact Query.over_ordered (l := l ++ k :: preF) (c1 := preP) (m := preA) (c2 := preW) (r := rest) hl
      (by rw [hall, hts]; simp) hoP hoW
  · exact (Query.over_facts (l := l ++ k :: (preF ++ (preP ++ preA))) (run := preW) (r := rest) hl (by rw [hall, hts]; simp)
      hr hoW).2.2.1
  · rw [hs]; rfl
  · rw [hs]; simp only [endD]
    exact (Query.over_facts (l := l ++ k :: (preF ++ (preP ++ preA))) (run := preW) (r := rest) hl (by rw [hall, hts]; simp)
      hr hoW).2.2.2
  · intro a ha
    rcases hoA with ⟨hn, _⟩ | ⟨a', ha', hoA'⟩
    · rw [hn] at ha; cases ha
    · rw [ha'] at ha; cases ha
      refine ⟨?_, ?_, ?_⟩
      · exact Query.over_ordered (l := l ++ k :: preF) (c1 := preP) (m := []) (c2 := preA) (r := preW ++ rest) hl
          (by rw [hall, hts]; simp) hoP hoA'
      · exact (Query.over_facts (l := l ++ k :: (preF ++ preP)) (run := preA) (r := preW ++ rest) hl (by rw [hall, hts]; simp)
          (by simp [hneW]) hoA').2.2.1
      · exact Query.over_ordered (l := l ++ k :: (preF ++ preP)) (c1 := preA) (m := []) (c2 := preW) (r := rest) hl
          (by rw [hall, hts]; simp) hoA' hoW

/-! ## UPDATE: keyword, table path, alias, the UpdateItems as a chain, the Where node -/

open MF.Query (firstPos lastEnd) in
theorem dml_update_positions {buf : Bytes} {all l ts rest : List Token} {f : Nat} {k : Token} {s : PStmt}
    (hl : Lex.lexAll buf = .ok all) (hall : all = l ++ k :: ts)
    (h : parseUpdate parsePExpr f k.pos ts = .ok (s, rest)) (hr : rest ≠ []) :
    ∃ tbl al us wh, s = .update k.pos tbl al us wh ∧
      posD s < posPath tbl ∧ posPath tbl < endPath tbl ∧
      (∃ lo hi, endPath tbl ≤ lo ∧
        (∀ a, al = some a → endPath tbl ≤ posAlias a ∧ posAlias a < endAlias a ∧ endAlias a ≤ lo) ∧
        chainOK posItem endItem lo us hi ∧ hi ≤ posWhere wh) ∧
      posWhere wh < endWhere wh ∧ endWhere wh = endD s ∧ endD s ≤ buf.length := by
  have hTall := lexed_tokensOK hl
  have hT : TokensOK buf.length ts := by
    have e : all = (l ++ [k]) ++ ts := by rw [hall]; simp
    rw [e] at hTall; exact hTall.suffix
  obtain ⟨preP, preA, preU, preW, st, tbl, al, us, wh, hs, hts, hoP, hoA, hoU, hoW⟩ := updateP_struct hT h
  have hneW := hoW.1
  have hneU := hoU.ne
  have hoU' : Over (firstPos preU) (lastEnd preU) preU := ⟨hneU, rfl, rfl⟩
  refine ⟨tbl, al, us, wh, hs, ?_, ?_, ⟨firstPos preU, lastEnd preU, ?_, ?_, ?_, ?_⟩, ?_, ?_, ?_⟩
  · have h1 := Query.over_facts (l := l) (run := [k]) (r := ts) hl (by rw [hall]; simp)
      (by rw [hts]; simp) (Query.Over.one k)
    have h2 := Query.over_ordered (l := l) (c1 := [k]) (m := []) (c2 := preP) (r := preA ++ (st :: (preU ++ (preW ++ rest)))) hl
      (by rw [hall, hts]; simp) (Query.Over.one k) hoP
    rw [hs]; simp only [posD]; omega
  · exact (Query.over_facts (l := l ++ [k]) (run := preP) (r := preA ++ (st :: (preU ++ (preW ++ rest)))) hl
      (by rw [hall, hts]; simp) (by simp) hoP).2.2.1
  · exact Query.over_ordered (l := l ++ [k]) (c1 := preP) (m := preA ++ [st]) (c2 := preU) (r := preW ++ rest) hl
      (by rw [hall, hts]; simp) hoP hoU'
  · intro a ha
    rcases hoA with ⟨hn, _⟩ | ⟨a', ha', hoA'⟩
    · rw [hn] at ha; cases ha
    · rw [ha'] at ha; cases ha
      refine ⟨?_, ?_, ?_⟩
      · exact Query.over_ordered (l := l ++ [k]) (c1 := preP) (m := []) (c2 := preA) (r := st :: (preU ++ (preW ++ rest))) hl
          (by rw [hall, hts]; simp) hoP hoA'
      · exact (Query.over_facts (l := l ++ k :: preP) (run := preA) (r := st :: (preU ++ (preW ++ rest))) hl
          (by rw [hall, hts]; simp) (by simp) hoA').2.2.1
      · exact Query.over_ordered (l := l ++ k :: preP) (c1 := preA) (m := [st]) (c2 := preU) (r := preW ++ rest) hl
          (by rw [hall, hts]; simp) hoA' hoU'
  · exact runs_chain hl hoU (l := l ++ k :: (preP ++ (preA ++ [st]))) (r := preW ++ rest) (by rw [hall, hts]; simp)
      (by simp [hneW])
  · exact Query.over_ordered (l := l ++ k :: (preP ++ (preA ++ [st]))) (c1 := preU) (m := []) (c2 := preW) (r := rest) hl
      (by rw [hall, hts]; simp) hoU' hoW
  · exact (Query.over_facts (l := l ++ k :: (preP ++ (preA ++ (st :: preU)))) (run := preW) (r := rest) hl
      (by rw [hall, hts]; simp) hr hoW).2.2.1
  · rw [hs]; rfl
  · rw [hs]; simp only [endD]
    exact (Query.over_facts (l := l ++ k :: (preP ++ (preA ++ (st :: preU)))) (run := preW) (r := rest) hl
      (by rw [hall, hts]; simp) hr hoW).2.2.2

/-! ## INSERT: keyword, table path, the VALUES keyword (= `Pos()` of the ValuesInput), the ValuesRows as a chain;
`End()` of the statement = `End()` of the input = `End()` of the last row -/

open MF.Query (firstPos lastEnd) in
theorem dml_insert_positions {buf : Bytes} {all l ts rest : List Token} {f : Nat} {k : Token} {s : PStmt}
    (hl : Lex.lexAll buf = .ok all) (hall : all = l ++ k :: ts)
    (h : parseInsert parsePExpr f k.pos ts = .ok (s, rest)) (hr : rest ≠ []) :
    ∃ ot tbl cs vi, s = .insert k.pos ot tbl cs vi ∧
      posD s < posPath tbl ∧ posPath tbl < endPath tbl ∧ endPath tbl ≤ posInput vi ∧
      (∃ lo, posInput vi < lo ∧ chainOK posRow endRow lo vi.rows (endInput vi)) ∧
      endInput vi = endD s ∧ endD s ≤ buf.length := by
  have hTall := lexed_tokensOK hl
  have hT : TokensOK buf.length ts := by
    have e : all = (l ++ [k]) ++ ts := by rw [hall]; simp
    rw [e] at hTall; exact hTall.suffix
  obtain ⟨vi0, rest0, hp0⟩ : ∃ vi0 rest0, parseInsert parsePExpr f k.pos ts = .ok (vi0, rest0) := ⟨_, _, h⟩
  obtain ⟨pre0, preP, preC, preR, v, ot, tbl, cs, rs, hs, hts, hoP, hneC, hoR⟩ := insertP_struct hT h
  have hneR := hoR.ne
  have hoR' : Over (firstPos preR) (lastEnd preR) preR := ⟨hneR, rfl, rfl⟩
  -- End() of the input is the end of the last row's run
  obtain ⟨_, preS, htsS, _, hendS⟩ := insertP_over hT h
  have hend : endD s = lastEnd preR := by
    have e1 : preS = pre0 ++ (preP ++ (preC ++ (v :: preR))) := by
      apply List.append_cancel_right (bs := rest)
      rw [← htsS, hts]; simp
    rw [hendS, e1]
    have e2 : pre0 ++ (preP ++ (preC ++ (v :: preR))) = (pre0 ++ (preP ++ (preC ++ [v]))) ++ preR := by simp
    rw [e2, Query.lastEnd_append hneR]
  have hvi : endInput ⟨v.pos, rs⟩ = endD s := by rw [hs]; rfl
  refine ⟨ot, tbl, cs, ⟨v.pos, rs⟩, hs, ?_, ?_, ?_, ⟨firstPos preR, ?_, ?_⟩, hvi, ?_⟩
  · have h1 := Query.over_facts (l := l) (run := [k]) (r := ts) hl (by rw [hall]; simp)
      (by rw [hts]; simp) (Query.Over.one k)
    have h2 := Query.over_ordered (l := l) (c1 := [k]) (m := pre0) (c2 := preP) (r := preC ++ (v :: (preR ++ rest))) hl
      (by rw [hall, hts]; simp) (Query.Over.one k) hoP
    rw [hs]; simp only [posD]; omega
  · exact (Query.over_facts (l := l ++ k :: pre0) (run := preP) (r := preC ++ (v :: (preR ++ rest))) hl
      (by rw [hall, hts]; simp) (by simp) hoP).2.2.1
  · exact Query.over_ordered (l := l ++ k :: pre0) (c1 := preP) (m := preC) (c2 := [v]) (r := preR ++ rest) hl
      (by rw [hall, hts]; simp) hoP (Query.Over.one v)
  · have h1 := Query.over_facts (l := l ++ k :: (pre0 ++ (preP ++ preC))) (run := [v]) (r := preR ++ rest) hl
      (by rw [hall, hts]; simp) (by simp [hr]) (Query.Over.one v)
    have h2 := Query.over_ordered (l := l ++ k :: (pre0 ++ (preP ++ preC))) (c1 := [v]) (m := []) (c2 := preR) (r := rest) hl
      (by rw [hall, hts]; simp) (Query.Over.one v) hoR'
    show v.pos < firstPos preR
    omega
  · rw [hvi, hend]
    exact runs_chain hl hoR (l := l ++ k :: (pre0 ++ (preP ++ (preC ++ [v])))) (r := rest) (by rw [hall, hts]; simp) hr
  · rw [hend]
    exact (Query.over_facts (l := l ++ k :: (pre0 ++ (preP ++ (preC ++ [v])))) (run := preR) (r := rest) hl
      (by rw [hall, hts]; simp) hr hoR').2.2.2

end MF.Props.C05
