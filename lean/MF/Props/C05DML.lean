/-
  C05 — positions, DML fragment M2, statement level, PARTIAL (`dml_fields_aligned_partial`).

  Proved: every position FIELD stored in the statement-level nodes of a parsed DML statement (Insert.Insert,
  ValuesInput.Values, ValuesRow.Lparen / Rparen, DefaultExpr.DefaultPos, Delete.Delete, Update.Update, Where.Where,
  AsAlias.As, and NamePos of every Ident of the table path, the column list, the alias and the SET paths) is the `Pos` of
  a token of the statement, and the fields, listed in source order (`dmlFieldsS`), are the positions of a SUBLIST of the
  consumed tokens — so they are token-aligned and ordered as the tokens are (strictly increasing and in range for lexer
  output, `MF.Lex.TokensOK`); every Ident's `NameEnd` is the `End` of the same token (`identOf`).  `Pos()` of every
  statement-level node is one of these fields (ast/pos.go, `MF.DML.posD` …).

  NOT proved here (hence `_partial`): `End()` of the statement-level nodes — `ValuesRow.End = Rparen + 1`,
  `DefaultExpr.End = DefaultPos + 7` need the byte length of the `)` / DEFAULT token (a lexer fact), `Where.End`,
  `UpdateItem.End`, `Delete.End`, `Update.End` are `End()` of an expression (`MF.Props.C05.expr_positions` for the
  positioned twin of the slot) — and the nesting of the expression nodes inside them.  The DML channel compares
  `Pos()` / `End()` of every node with Go on every accepted request.
-/
import MF.Proofs.DMLSound
namespace MF.Props.C05
open MF MF.Expr MF.DML

def dmlFieldsPath (ids : List PIdent) : List Nat := ids.map (·.namePos)
def dmlFieldsDefault : DefaultExpr Expr → List Nat
  | .dflt p => [p]
  | .expr _ => []
def dmlFieldsEntries : List (DefaultExpr Expr) → List Nat
  | [] => []
  | d :: ds => dmlFieldsDefault d ++ dmlFieldsEntries ds
def dmlFieldsRow (r : ValuesRow Expr) : List Nat := r.lparen :: (dmlFieldsEntries r.exprs ++ [r.rparen])
def dmlFieldsRows : List (ValuesRow Expr) → List Nat
  | [] => []
  | r :: rs => dmlFieldsRow r ++ dmlFieldsRows rs
def dmlFieldsItem (u : UpdateItem Expr) : List Nat := dmlFieldsPath u.path ++ dmlFieldsDefault u.dflt
def dmlFieldsItems : List (UpdateItem Expr) → List Nat
  | [] => []
  | u :: us => dmlFieldsItem u ++ dmlFieldsItems us
def dmlFieldsAlias : Option AsAlias → List Nat
  | none => []
  | some ⟨some p, i⟩ => [p, i.namePos]
  | some ⟨none, i⟩ => [i.namePos]
/-- the position fields of the statement-level nodes, in source order -/
def dmlFieldsS : Stmt Expr → List Nat
  | .insert p _ t cs v => p :: (dmlFieldsPath t ++ (dmlFieldsPath cs ++ (v.values :: dmlFieldsRows v.rows)))
  | .delete p t a w => p :: (dmlFieldsPath t ++ (dmlFieldsAlias a ++ [w.wherePos]))
  | .update p t a us w => p :: (dmlFieldsPath t ++ (dmlFieldsAlias a ++ (dmlFieldsItems us ++ [w.wherePos])))

/-- `fs` are the positions of a sublist of the tokens `p` -/
def DmlSel (fs : List Nat) (p : List Token) : Prop := ∃ sel, List.Sublist sel p ∧ sel.map (·.pos) = fs

theorem DmlSel.nil (p : List Token) : DmlSel [] p := ⟨[], List.nil_sublist p, rfl⟩
theorem DmlSel.take {fs : List Nat} {p : List Token} (t : Token) (h : DmlSel fs p) : DmlSel (t.pos :: fs) (t :: p) := by
  obtain ⟨sel, h1, h2⟩ := h
  exact ⟨t :: sel, h1.cons_cons t, by simp [h2]⟩
theorem DmlSel.skip {fs : List Nat} {p : List Token} (t : Token) (h : DmlSel fs p) : DmlSel fs (t :: p) := by
  obtain ⟨sel, h1, h2⟩ := h
  exact ⟨sel, h1.cons t, h2⟩
theorem DmlSel.append {f1 f2 : List Nat} {p1 p2 : List Token} (h1 : DmlSel f1 p1) (h2 : DmlSel f2 p2) : DmlSel (f1 ++ f2) (p1 ++ p2) := by
  obtain ⟨s1, a1, b1⟩ := h1
  obtain ⟨s2, a2, b2⟩ := h2
  exact ⟨s1 ++ s2, a1.append a2, by simp [b1, b2]⟩

theorem dmlPathTail_sel {ids : List PIdent} {p : List Token} (h : PathTailD ids p) : DmlSel (dmlFieldsPath ids) p := by
  induction h with
  | nil => exact DmlSel.nil _
  | cons _ _ _ ih => exact (DmlSel.take _ ih).skip _
theorem dmlPath_sel {ids : List PIdent} {p : List Token} (h : PathD ids p) : DmlSel (dmlFieldsPath ids) p := by
  cases h with
  | mk _ htl => exact DmlSel.take _ (dmlPathTail_sel htl)
theorem dmlIdList_sel {ids : List PIdent} {p : List Token} (h : IdListD ids p) : DmlSel (dmlFieldsPath ids) p := by
  induction h with
  | one _ => exact DmlSel.take _ (DmlSel.nil _)
  | cons _ _ _ ih => exact DmlSel.take _ (ih.skip _)
theorem dmlCols_sel {ids : List PIdent} {p : List Token} (h : ColsD ids p) : DmlSel (dmlFieldsPath ids) p := by
  cases h with
  | empty _ _ => exact DmlSel.nil _
  | @list l r ids ts _ hd _ =>
    have := (dmlIdList_sel hd).append (DmlSel.nil [r])
    simp only [List.append_nil] at this
    exact this.skip _
theorem dmlDefault_sel {d : DefaultExpr Expr} {p : List Token} (h : DefaultD d p) : DmlSel (dmlFieldsDefault d) p := by
  cases h with
  | dflt _ => exact DmlSel.take _ (DmlSel.nil _)
  | expr _ => exact DmlSel.nil _
theorem dmlEntries_sel {ds : List (DefaultExpr Expr)} {p : List Token} (h : EntriesD ds p) : DmlSel (dmlFieldsEntries ds) p := by
  induction h with
  | one hd => simpa [dmlFieldsEntries] using dmlDefault_sel hd
  | cons hd _ _ ih => exact (dmlDefault_sel hd).append (ih.skip _)
theorem dmlRow_sel {r : ValuesRow Expr} {p : List Token} (h : RowD r p) : DmlSel (dmlFieldsRow r) p := by
  cases h with
  | empty _ _ => exact DmlSel.take _ (DmlSel.take _ (DmlSel.nil _))
  | list _ hd _ => exact DmlSel.take _ ((dmlEntries_sel hd).append (DmlSel.take _ (DmlSel.nil _)))
theorem dmlRows_sel {rs : List (ValuesRow Expr)} {p : List Token} (h : RowsD rs p) : DmlSel (dmlFieldsRows rs) p := by
  induction h with
  | one hd => simpa [dmlFieldsRows] using dmlRow_sel hd
  | cons hd _ _ ih => exact (dmlRow_sel hd).append (ih.skip _)
theorem dmlItem_sel {u : UpdateItem Expr} {p : List Token} (h : ItemD u p) : DmlSel (dmlFieldsItem u) p := by
  cases h with
  | mk hp _ hd => exact (dmlPath_sel hp).append ((dmlDefault_sel hd).skip _)
theorem dmlItems_sel {us : List (UpdateItem Expr)} {p : List Token} (h : ItemsD us p) : DmlSel (dmlFieldsItems us) p := by
  induction h with
  | one hd => simpa [dmlFieldsItems] using dmlItem_sel hd
  | cons hd _ _ ih => exact (dmlItem_sel hd).append (ih.skip _)
theorem dmlWhere_sel {w : Where Expr} {p : List Token} (h : WhereD w p) : DmlSel [w.wherePos] p := by
  cases h with
  | mk _ _ => exact DmlSel.take _ (DmlSel.nil _)
theorem dmlAlias_sel {a : Option AsAlias} {p : List Token} (h : AliasD a p) : DmlSel (dmlFieldsAlias a) p := by
  cases h with
  | none => exact DmlSel.nil _
  | as_ _ _ => exact DmlSel.take _ (DmlSel.take _ (DmlSel.nil _))
  | bare _ => exact DmlSel.take _ (DmlSel.nil _)

/-- every statement-level position field is the `Pos` of a token of the statement, in token order -/
theorem dml_fields_aligned_partial {s : Stmt Expr} {pre : List Token} (h : StmtD s pre) :
    ∃ sel, List.Sublist sel pre ∧ sel.map (·.pos) = dmlFieldsS s := by
  cases h with
  | insert _ _ _ hp hc _ hr =>
    exact DmlSel.take _ ((DmlSel.nil _).append ((DmlSel.nil _).append ((dmlPath_sel hp).append ((dmlCols_sel hc).append (DmlSel.take _ (dmlRows_sel hr))))))
  | delete _ _ hp ha hw =>
    exact DmlSel.take _ ((DmlSel.nil _).append ((dmlPath_sel hp).append ((dmlAlias_sel ha).append (dmlWhere_sel hw))))
  | update _ hp ha _ hu hw =>
    exact DmlSel.take _ ((dmlPath_sel hp).append ((dmlAlias_sel ha).append (((dmlItems_sel hu).append (dmlWhere_sel hw)).skip _)))

/-- the same for a run of the model -/
theorem dml_fields_aligned_parsed_partial {fuel : Nat} {ts rest : List Token} {s : Stmt Expr}
    (h : parseDML parseExpr fuel ts = .ok (s, rest)) :
    ∃ pre sel, ts = pre ++ rest ∧ List.Sublist sel pre ∧ sel.map (·.pos) = dmlFieldsS s ∧
      (∀ p ∈ dmlFieldsS s, ∃ t ∈ ts, t.pos = p) := by
  obtain ⟨pre, hts, hd⟩ := parseDML_sound h
  obtain ⟨sel, h1, h2⟩ := dml_fields_aligned_partial hd
  refine ⟨pre, sel, hts, h1, h2, ?_⟩
  intro p hp
  rw [← h2] at hp
  obtain ⟨t, ht, rfl⟩ := List.mem_map.1 hp
  exact ⟨t, by rw [hts]; exact List.mem_append_left _ (h1.subset ht), rfl⟩

/-- every Ident node built by the statement level carries the `Pos` and the `End` of one token -/
theorem dml_ident_span (t : Token) : (identOf t).namePos = t.pos ∧ (identOf t).nameEnd = t.end := ⟨rfl, rfl⟩

end MF.Props.C05
