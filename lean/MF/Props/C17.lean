/-
  C17 — `ast.Walk` visits in preorder: the explicit-stack traversal of ast/walk.go equals a declarative specification.

  Model: `MF.Model.Walk` (`walkMain`, `walkInternal` as a table, `walk`; every visitor call logged as an `Event`).
  Specification: `MF.Spec.Preorder.events` (recursive over the tree, no stack; read `events_eq`), and
  `MF.Spec.Preorder.nodes` (the plain preorder listing).  Proofs: `MF.Proofs.Walk`.

   (1) `walk_eq_spec`         for every visitor, every tree and start visitor, and every table that pushes no field twice
                              and at most 22 fields per kind (`WalkTableOK`, decidable): `walk` returns exactly the
                              specified event list — in particular the fuel inside `walk` suffices;
       `walk_gen_eq_spec`     … instantiated with the table read back from ast/walk_internal.go (`gen_walk_table_ok`);
       `walk_sound`           for EVERY table: if `walk` returns, it returns the specification;
       `walkMain_eq_spec`     for EVERY table: `walkMain` returns the specification with any fuel ≥ (number of
                              `Field`/`Index` events of the specification) + 2;
       `walk_needs_table_hypothesis`   the hypothesis of (1) cannot be dropped: the fuel of `walk` depends on the tree
                              only, and a table with 30 pushes for a leaf exhausts it.
   (2) `walk_table_is_fields` the real table pushes exactly the node-typed struct fields, reverse declaration order
                              (re-export of C19) — so "reverse push order" in the specification IS declaration order.
   (3) corollaries on the specification:
       (a) `visit_order`      with a visitor that never returns nil, the visited nodes are the preorder listing `nodes`:
                              every reachable node once, parent before children, siblings in declaration order;
       (b) `pruned_node`      a node whose `Visit` returns nil contributes exactly one event;
       (c) `preorder_calls`, `preorder_stops`, `preorder_calls_prefix`
                              `ast.Preorder` (the inspector around the closure `ok = ok && yield(n); return ok`, whose
                              variable `ok` is shared by all visitor values — modelled by `walkMainG`, the stack machine
                              with a global state threaded through the `Visit` calls, a conservative extension of
                              `walkMain`: `stateful_machine_conservative`): the traversal terminates; the calls of
                              `yield` are those of offering the preorder listing to the loop body, in order, up to and
                              including the first `false`; after a `false` no further call of `yield` happens.
   (4) non-vacuity: two concrete runs on the real table (one slice field, one pruned subtree; one early `break`).
-/
import MF.Proofs.Walk
import MF.Props.C19
import MF.Gen.WalkGo
import MF.Gen.Catalog
namespace MF.Props.C17
open MF MF.Ast MF.Ast.Spec.Preorder
open MF.Props.C19 (expectedPushes)

/-! ### (2) the table -/

theorem walk_table_is_fields : Gen.walkGo = Gen.kinds.map (fun k => (k.name, expectedPushes k)) :=
  MF.Props.C19.walk_go_eq_fields

theorem gen_walk_table_ok : WalkTableOK Gen.walkGo = true := by decide +kernel

/-! ### (1) traversal = specification -/

theorem walk_eq_spec {σ : Type} (V : Vis σ) (table : List (String × List WalkPush)) (hT : WalkTableOK table = true)
    (n : Node) (v : σ) : walk V table n v = some (events V table n v) :=
  MF.Ast.walk_eq_spec V table hT n v

theorem walk_gen_eq_spec {σ : Type} (V : Vis σ) (n : Node) (v : σ) :
    walk V Gen.walkGo n v = some (events V Gen.walkGo n v) :=
  MF.Ast.walk_eq_spec V Gen.walkGo gen_walk_table_ok n v

theorem walk_sound {σ : Type} (V : Vis σ) (table : List (String × List WalkPush)) (n : Node) (v : σ)
    (r : List (Event σ)) (h : walk V table n v = some r) : r = events V table n v :=
  MF.Ast.walk_sound V table n v r h

theorem walkMain_eq_spec {σ : Type} (V : Vis σ) (table : List (String × List WalkPush)) (n : Node) (v : σ)
    (fuel : Nat) (h : pushed (events V table n v) + 2 ≤ fuel) :
    walkMain V table fuel [.node (some n) v] [] = some (events V table n v) :=
  MF.Ast.walkMain_eq_spec V table n v fuel h

theorem walk_needs_table_hypothesis :
    walk (σ := Unit) ⟨fun _ _ => some (), fun _ _ => (), fun _ _ => (), fun _ _ => ()⟩
      [("K", List.replicate 30 ⟨"F", false, "F"⟩)] (.mk "K" [] .nil) () = none :=
  MF.Ast.walk_fuel_counterexample

/-! ### (3) corollaries, on the specification -/

theorem visit_order {σ : Type} (V : Vis σ) (table : List (String × List WalkPush))
    (hV : ∀ v n, (V.visit v n).isSome = true) (n : Node) (v : σ) :
    visited (events V table n v) = nodes table n :=
  visited_events V table hV n v

theorem pruned_node {σ : Type} (V : Vis σ) (table : List (String × List WalkPush)) (n : Node) (v : σ)
    (h : V.visit v n = none) : events V table n v = [Event.visit v n] :=
  events_pruned V table n v h

theorem stateful_machine_conservative {σ γ : Type} (V : Vis σ) (table : List (String × List WalkPush))
    (fuel : Nat) (stack : List (Item σ)) (g : γ) (acc : List (Event σ)) :
    walkMainG (V.lift γ) table fuel stack g acc = (walkMain V table fuel stack acc).map (fun r => (r, g)) :=
  walkMainG_lift V table fuel stack g acc

theorem preorder_calls {s : Type} (Y : Yield s) (table : List (String × List WalkPush)) (n : Node) (s0 : s) :
    (∃ fuel evs, walkMainG (preorderVis Y) table fuel [.node (some n) ()] (PState.init s0) [] =
        some (evs, feed Y (PState.init s0) (nodes table n))) ∧
    (∀ fuel evs g', walkMainG (preorderVis Y) table fuel [.node (some n) ()] (PState.init s0) [] = some (evs, g') →
        g' = feed Y (PState.init s0) (nodes table n)) :=
  MF.Ast.preorder_calls Y table n s0

theorem preorder_stops {s : Type} (Y : Yield s) (table : List (String × List WalkPush)) (n : Node) (s0 : s)
    (fuel : Nat) (evs : List (Event Unit)) (g' : PState s)
    (h : walkMainG (preorderVis Y) table fuel [.node (some n) ()] (PState.init s0) [] = some (evs, g'))
    (pre post : List (Node × Bool)) (m : Node) (hc : g'.calls = pre ++ (m, false) :: post) : post = [] :=
  MF.Ast.preorder_stops Y table n s0 fuel evs g' h pre post m hc

theorem preorder_calls_prefix {s : Type} (Y : Yield s) (table : List (String × List WalkPush)) (n : Node) (s0 : s)
    (fuel : Nat) (evs : List (Event Unit)) (g' : PState s)
    (h : walkMainG (preorderVis Y) table fuel [.node (some n) ()] (PState.init s0) [] = some (evs, g')) :
    ∃ k, g'.calls.map (·.1) = (nodes table n).take k :=
  MF.Ast.preorder_calls_prefix Y table n s0 fuel evs g' h

/-! ### (4) non-vacuity on the real table

`QueryStatement{Hint: Hint{Records: [rec0, rec1]}, Query: nil}` with `rec0 = HintRecord{Key: a}`,
`rec1 = HintRecord{Value: b}`: 6 nodes, one slice field, one absent child. -/

/-- visitor state = the path of labels / indices from the root (innermost first); it prunes a `HintRecord` reached
at index 0 -/
def pathVis : Vis (List String) where
  visit := fun path n => if n.kind == "HintRecord" && path.head? == some "0" then none else some path
  visitMany := fun path _ => path
  field := fun path name => name :: path
  index := fun path i => toString i :: path

def ident (s : String) : Node := .mk "Ident" [("Name", .str s.toUTF8.toList)] .nil
def rec0 : Node := .mk "HintRecord" [] (.cons "Key" none (ident "a") .nil)
def rec1 : Node := .mk "HintRecord" [] (.cons "Value" none (ident "b") .nil)
def hint : Node := .mk "Hint" [] (.cons "Records" (some 0) rec0 (.cons "Records" (some 1) rec1 .nil))
def root : Node := .mk "QueryStatement" [] (.cons "Hint" none hint .nil)

/-- `Field` calls in push order before any child; absent `Query` pushed but never visited; `VisitMany`, then the
`Index` calls 1, 0, then the elements 0, 1; the subtree under `rec0` is pruned (its `Key` is never visited) -/
theorem sample_walk : walk pathVis Gen.walkGo root [] = some [
    .visit [] root,
    .field [] "Query", .field [] "Hint",
    .visit ["Hint"] hint,
    .field ["Hint"] "Records",
    .visitMany ["Records", "Hint"] [rec0, rec1],
    .index ["Records", "Hint"] 1, .index ["Records", "Hint"] 0,
    .visit ["0", "Records", "Hint"] rec0,
    .visit ["1", "Records", "Hint"] rec1,
    .field ["1", "Records", "Hint"] "Value", .field ["1", "Records", "Hint"] "Key",
    .visit ["Value", "1", "Records", "Hint"] (ident "b")] := by rfl

/-- hence (by `walk_gen_eq_spec`) this is also the value of the specification -/
theorem sample_spec : events pathVis Gen.walkGo root [] = [
    .visit [] root,
    .field [] "Query", .field [] "Hint",
    .visit ["Hint"] hint,
    .field ["Hint"] "Records",
    .visitMany ["Records", "Hint"] [rec0, rec1],
    .index ["Records", "Hint"] 1, .index ["Records", "Hint"] 0,
    .visit ["0", "Records", "Hint"] rec0,
    .visit ["1", "Records", "Hint"] rec1,
    .field ["1", "Records", "Hint"] "Value", .field ["1", "Records", "Hint"] "Key",
    .visit ["Value", "1", "Records", "Hint"] (ident "b")] :=
  Option.some.inj ((walk_gen_eq_spec pathVis root []).symm.trans sample_walk)

/-- a loop body that `break`s at its third node: state = number of calls so far -/
def breakAtThird : Yield Nat := ⟨fun k _ => (decide (k < 2), k + 1)⟩

/-- `for n := range ast.Preorder(root) { … break at the third }`: `yield` is called on root, hint, rec0 and never again,
although rec1 and its child are still to be popped -/
theorem sample_preorder :
    (walkMainG (preorderVis breakAtThird) Gen.walkGo 100 [.node (some root) ()] (PState.init 0) []).map
        (fun r => (r.2.ok, r.2.st, r.2.calls))
      = some (false, 3, [(root, true), (hint, true), (rec0, false)]) := by rfl

end MF.Props.C17
