/-
  C07 — Operator precedence and associativity follow the GoogleSQL table.

  Property theorems only (helper lemmas live in MF/Proofs/Expr*.lean).  All statements are about the model
  `MF.Expr` (MF/Model/Expr.lean) of parseExpr … parseLit in `parser.go` and of `exprPrec` / `paren` / the `SQL()`
  methods of the expression nodes in `ast/sql.go`, for the fragment M1 (atoms, parentheses, the prefix, binary,
  comparison-family and postfix operators).  The EXPR channel ties the model to the Go code on every run (AST shape
  and `SQL()` text of `memefish.ParseExpr`).  The specification — the table as data, `level`, `PrecOK`, `yield`,
  `NF`, `Follow` — is MF/Spec/Precedence.lean, written from the property text.

  Clause by clause:
   (1) the grouping of every tree the parser returns is the one the table defines, and the tokens it consumed are
       exactly the yield of the tree, in which every ParenExpr is a `(` … `)` pair around exactly its operand
                                                                                     — `parse_sound`
   (2) conversely every tree grouped as the table says (in the parser's normal form: folded signs, merged paths,
       position keywords) is what the parser builds from its yield                  — `parse_complete`
   (3) so the table's grammar is unambiguous on normal forms                        — `grouping_unique`
   (4) binary arithmetic / bitwise / logical operators are left-associative: this is the `level l ≤ L`, `level r < L`
       clause of `PrecOK` in (1)/(2); the comparison family does not associate: `a = b = c` is not consumed as one
       comparison and `ParseExpr` rejects it                                        — `comparison_once`, `comparison_nonassoc`
   (5) SQL() of a parser-built tree adds no parenthesis and needs none (TOKEN level; the bytes → tokens step is
       checked by the channel, not proved)                                           — `print_minimal_partial`
   (6) answers do not depend on the fuel of the model                               — `parse_mono`
   (7) the pattern-matching `level` functions are the table                         — `level_is_table`
   (8) the same for the entry point ParseExpr (whole input = one expression)         — `top_sound`, `top_complete`
   (9) on lexer output the ladder never reaches its one possible Go runtime panic (`e.Value[0]`) — `no_crash`
  (10) the words OFFSET / ORDINAL / SAFE_OFFSET / SAFE_ORDINAL are not reserved: inside `[…]` the parser takes one for
       the position keyword only when `(` follows it directly, and the yield of an expression never starts with an
       identifier directly followed by `(` (calls are outside the fragment) — so `NF` has NO side condition on the
       expression of a plain subscript, and (1)/(2)/(3) cover `a[offset]`, `a[ORDINAL * 2]`, `a[offset.f]`
                                                                                     — `subscript_word_not_call`, `subscript_word_plain`
-/
import MF.Proofs.ExprSound
import MF.Proofs.ExprMono
import MF.Proofs.ExprComplete
import MF.Proofs.ExprUnique
import MF.Proofs.ExprPrint
import MF.Proofs.ExprNoCrash
namespace MF.Props.C07
open MF MF.Expr

/-- (1) soundness -/
theorem parse_sound {fuel : Nat} {ts rest : List Token} {e : Expr} (h : parseExpr fuel ts = .ok (e, rest)) :
    (∃ pre, ts = pre ++ rest ∧ pre.map proj = yield e) ∧ PrecOK e ∧ NF e :=
  parseExpr_sound h

/-- (2) completeness; `isCastLike` excludes the unquoted identifiers SAFE_CAST / REPLACE_FIELDS, on which `parseLit`
leaves the fragment; `Follow rest`: the next token does not continue an expression -/
theorem parse_complete {e : Expr} (hp : PrecOK e) (hn : NF e) {pre rest : List Token}
    (hr : pre.map proj = yield e) (hc : ∀ t ∈ pre, isCastLike t = false) (hf : Follow rest) :
    ∃ n, ∀ fuel, n ≤ fuel → parseExpr fuel (pre ++ rest) = .ok (e, rest) :=
  parseExpr_complete hp hn hr hc hf

/-- (3) -/
theorem grouping_unique {e1 e2 : Expr} (p1 : PrecOK e1) (n1 : NF e1) (p2 : PrecOK e2) (n2 : NF e2)
    (hy : yield e1 = yield e2) : e1 = e2 :=
  Expr.grouping_unique p1 n1 p2 n2 hy

/-- (4a) after one comparison the parser stops: the second comparison-family token stays in the rest -/
theorem comparison_once {op : BOp} {a b : Expr} (hop : op.nonAssoc = true)
    (pa : PrecOK a) (na : NF a) (la : level a ≤ 8) (pb : PrecOK b) (nb : NF b) (lb : level b ≤ 8)
    {pre : List Token} {u : Token} {rest : List Token}
    (hr : pre.map proj = yield (.bin op a b)) (hc : ∀ t ∈ pre, isCastLike t = false) (hu : isCmpTok u) :
    ∃ n, ∀ fuel, n ≤ fuel → parseExpr fuel (pre ++ u :: rest) = .ok (.bin op a b, u :: rest) :=
  Expr.comparison_once hop pa na la pb nb lb hr hc hu

/-- (4b) hence `ParseExpr` raises on `a op b u …` -/
theorem comparison_nonassoc {op : BOp} {a b : Expr} (hop : op.nonAssoc = true)
    (pa : PrecOK a) (na : NF a) (la : level a ≤ 8) (pb : PrecOK b) (nb : NF b) (lb : level b ≤ 8)
    {pre : List Token} {u : Token} {rest : List Token}
    (hr : pre.map proj = yield (.bin op a b)) (hc : ∀ t ∈ pre, isCastLike t = false) (hu : isCmpTok u) :
    ∃ n, ∀ fuel, n ≤ fuel → parseExprTop fuel (pre ++ u :: rest) = .raise :=
  Expr.comparison_nonassoc hop pa na la pb nb lb hr hc hu

/-- (5) token level -/
theorem print_minimal_partial {e : Expr} (hp : PrecOK e) (hn : NF e) :
    sqlToks e = yield (canonKw e) ∧
    ∀ pre rest, pre.map proj = sqlToks e → (∀ t ∈ pre, isCastLike t = false) → Follow rest →
      ∃ n, ∀ fuel, n ≤ fuel → parseExpr fuel (pre ++ rest) = .ok (canonKw e, rest) :=
  Expr.print_minimal_partial hp hn

/-- (6) -/
theorem parse_mono {n m : Nat} {ts : List Token} {r : PR} (hnm : n ≤ m) (h : parseExpr n ts = r)
    (hr : r ≠ .outOfFuel) : parseExpr m ts = r :=
  parseExpr_mono hnm h hr

/-- (7) -/
theorem level_is_table :
    (∀ op : BOp, tableRow (.bin op) = some (op.level, if op.nonAssoc then .none else .left)) ∧
    tableRow .access = some (1, .postfix) ∧ tableRow .sign = some (2, .prefix_) ∧ tableRow .not_ = some (10, .prefix_) ∧
    tableRow .in_ = some (9, .none) ∧ tableRow .between = some (9, .none) ∧ tableRow .is_ = some (9, .none) :=
  Expr.level_is_table

/-- (8a) -/
theorem top_sound {fuel : Nat} {ts : List Token} {e : Expr} (h : parseExprTop fuel ts = .ok e) :
    ∃ pre rest, ts = pre ++ rest ∧ cur rest = .eof ∧ pre.map proj = yield e ∧ PrecOK e ∧ NF e :=
  parseExprTop_sound h

/-- (8b) -/
theorem top_complete {e : Expr} (hp : PrecOK e) (hn : NF e) {pre rest : List Token}
    (hr : pre.map proj = yield e) (hc : ∀ t ∈ pre, isCastLike t = false) (he : cur rest = .eof) :
    ∃ n, ∀ fuel, n ≤ fuel → parseExprTop fuel (pre ++ rest) = .ok e :=
  parseExprTop_complete hp hn hr hc he

/-- (9) -/
theorem no_crash {buf : Bytes} {ts : List Token} (h : Lex.lexAll buf = .ok ts) (fuel : Nat) :
    parseExpr fuel ts ≠ .crash :=
  parseExpr_no_crash_lexed h fuel

/-- (10) no yield of the fragment starts like a call: an identifier directly followed by `(` -/
theorem subscript_word_not_call (e : Expr) : startsCall (yield e) = false :=
  yield_not_call e

/-- (10) a plain subscript whose expression is ANY table-grouped normal form — in particular one that starts with a
column named offset / ordinal / safe_offset / safe_ordinal — is what the parser builds from its yield (an instance of
(2): `NF (.index a none i)` is just `NF a ∧ NF i`) -/
theorem subscript_word_plain {a i : Expr} (hpa : PrecOK a) (hna : NF a) (hla : level a ≤ 1) (hpi : PrecOK i) (hni : NF i)
    {pre rest : List Token} (hr : pre.map proj = yield (.index a none i))
    (hc : ∀ t ∈ pre, isCastLike t = false) (hf : Follow rest) :
    ∃ n, ∀ fuel, n ≤ fuel → parseExpr fuel (pre ++ rest) = .ok (.index a none i, rest) :=
  parseExpr_complete (by simp only [PrecOK, precOK] at hpa hpi ⊢; simp [hpa, hpi, hla])
    (by simp only [NF, nf] at hna hni ⊢; simp [hna, hni]) hr hc hf

/-! non-vacuity: concrete inputs through the model lexer and the model parser -/

example : exprRun (B "a = b = c") = "ERR" := by decide +kernel
example : exprRun (B "a - b - c") = "OK (bin - (bin - (ident 61) (ident 62)) (ident 63)) 61202d2062202d2063" := by
  decide +kernel
example : exprRun (B "a || b * c") = "OK (bin * (bin || (ident 61) (ident 62)) (ident 63)) 61207c7c2062202a2063" := by
  decide +kernel

/-! the repaired subscript: a column named like a position keyword, and the keyword itself -/

example : exprRun (B "a[offset]") = "OK (index (ident 61) (expr (ident 6f6666736574))) 615b6f66667365745d" := by
  decide +kernel
example : exprRun (B "a[ORDINAL * 2]") =
    "OK (index (ident 61) (expr (bin * (ident 4f5244494e414c) (int 32)))) 615b4f5244494e414c202a20325d" := by
  decide +kernel
example : exprRun (B "a[offset.f]") = "OK (index (ident 61) (expr (path 6f6666736574 66))) 615b6f66667365742e665d" := by
  decide +kernel
example : exprRun (B "a[safe_offset]") =
    "OK (index (ident 61) (expr (ident 736166655f6f6666736574))) 615b736166655f6f66667365745d" := by
  decide +kernel
example : exprRun (B "a[OFFSET(1)]") = "OK (index (ident 61) (OFFSET (int 31))) 615b4f46465345542831295d" := by
  decide +kernel
example : exprRun (B "a[offset (1)]") = "OK (index (ident 61) (OFFSET (int 31))) 615b4f46465345542831295d" := by
  decide +kernel
/-- a FUNCTION named offset called inside a subscript stays unexpressible (as in GoogleSQL) -/
example : exprRun (B "a[offset(1) + 1]") = "ERR" := by decide +kernel
/-- the tree of `a[offset]` is a table-grouped normal form: (2) and (3) apply to it -/
example : PrecOK (.index (.ident (B "a")) none (.ident (B "offset"))) ∧
    NF (.index (.ident (B "a")) none (.ident (B "offset"))) ∧
    startsPosKw (yield (.ident (B "offset"))) = true := by decide

/-! Task E, stage 1: `CASE … END` and `IF(…)` are compound atoms of the fragment -/

example : exprRun (B "CASE a WHEN 1 THEN -x ELSE b END + 1") =
    "OK (bin + (case (ident 61) (when (int 31) (unary - (ident 78))) (ident 62)) (int 31)) 434153452061205748454e2031205448454e202d7820454c5345206220454e44202b2031" := by
  decide +kernel
example : exprRun (B "CASE WHEN a THEN b WHEN c THEN d END[1].f") =
    "OK (sel (index (case - (when (ident 61) (ident 62)) (when (ident 63) (ident 64)) -) (expr (int 31))) 66) 43415345205748454e2061205448454e2062205748454e2063205448454e206420454e445b315d2e66" := by
  decide +kernel
example : exprRun (B "IF(a, b OR c, CASE WHEN 1 THEN 2 END) IS NULL") =
    "OK (isnull false (if (ident 61) (bin OR (ident 62) (ident 63)) (case - (when (int 31) (int 32)) -))) 494628612c2062204f5220632c2043415345205748454e2031205448454e203220454e4429204953204e554c4c" := by
  decide +kernel
example : exprRun (B "IF(a, b)") = "ERR" := by decide +kernel
example : exprRun (B "CASE a THEN 1 END") = "ERR" := by decide +kernel
example : exprRun (B "CASE WHEN a THEN b") = "ERR" := by decide +kernel
/-- the trees are table-grouped normal forms at level 0 (atoms): (2), (3) and (5) apply to them; an OR inside the
delimited parts needs no parentheses -/
example : PrecOK (.caseE (.some (.ident (B "a"))) (.int none (B "1")) (.bin .or (.ident (B "x")) (.ident (B "y"))) .nil .none) ∧
    NF (.caseE (.some (.ident (B "a"))) (.int none (B "1")) (.bin .or (.ident (B "x")) (.ident (B "y"))) .nil .none) ∧
    level (.caseE (.some (.ident (B "a"))) (.int none (B "1")) (.bin .or (.ident (B "x")) (.ident (B "y"))) .nil .none) = 0 ∧
    level (.ifE (.ident (B "a")) (.ident (B "b")) (.ident (B "c"))) = 0 := by decide

/-! Task E, stage 2: the array literal `[e, …]` (without ARRAY / element type) is a compound atom; `[` behind the end
of an operand stays a subscript -/

example : exprRun (B "[1, a + 2, [x]][OFFSET(0)] IS NOT NULL") =
    "OK (isnull true (index (array (int 31) (bin + (ident 61) (int 32)) (array (ident 78))) (OFFSET (int 30)))) 5b312c2061202b20322c205b785d5d5b4f46465345542830295d204953204e4f54204e554c4c" := by
  decide +kernel
example : exprRun (B "[] || [NOT a, b OR c]") =
    "OK (bin || (array) (array (unary NOT (ident 61)) (bin OR (ident 62) (ident 63)))) 5b5d207c7c205b4e4f5420612c2062204f5220635d" := by
  decide +kernel
example : exprRun (B "[1,]") = "ERR" := by decide +kernel
/-- a position word followed by `(` at the head of an ARRAY LITERAL is a call: outside the fragment -/
example : exprRun (B "[OFFSET(1)]") = "OUTSIDE" := by decide +kernel
example : exprRun (B "ARRAY[1]") = "OUTSIDE" := by decide +kernel

/-! Task E, stage 3: `CAST(e AS path)` with a NAMED type; a scalar type name (`SimpleType`), `ARRAY<…>` / `STRUCT<…>` and
`SAFE_CAST` stay outside -/

example : exprRun (B "CAST(a + 1 AS my.Proto).f IS NULL") =
    "OK (isnull false (sel (cast (bin + (ident 61) (int 31)) (named 6d79 50726f746f)) 66)) 434153542861202b2031204153206d792e6050726f746f60292e66204953204e554c4c" := by
  decide +kernel
example : exprRun (B "cast(CAST(x AS `p q`.Date.T) as Money) * 2") =
    "OK (bin * (cast (cast (ident 78) (named 702071 44617465 54)) (named 4d6f6e6579)) (int 32)) 43415354284341535428782041532060702071602e446174652e5429204153204d6f6e657929202a2032" := by
  decide +kernel
/-- `int64.x` is a named type (a scalar type name followed by `.`), `INT64` alone is a `SimpleType`: outside -/
example : exprRun (B "CAST(a AS int64.x)") = "OK (cast (ident 61) (named 696e743634 78)) 43415354286120415320696e7436342e7829" := by
  decide +kernel
example : exprRun (B "CAST(a AS INT64)") = "OUTSIDE" := by decide +kernel
example : exprRun (B "CAST(a AS b.)") = "ERR" := by decide +kernel
example : exprRun (B "SAFE_CAST(a AS T)") = "OUTSIDE" := by decide +kernel

end MF.Props.C07
