/-
  C09 — the error contract, structural part (R + facts).

  Generic theorems (`MF/Proofs/Recovery.lean`, about every execution of the abstract machine over any call graph):
    `bad_implies_error`   if the error list is written only by appending and every function meets its credit bound
                          (⇒ `Bad*` literals occur only behind an appended error, i.e. in handlers after `handleError`),
                          then `#Bad ≤ #errors`, `#handler runs ≤ #errors`, and `errors = []` ⇒ no Bad, no handler ran
    `entry_contract`      entry shape ⇒ nil error iff `errors = [] ∧ token = <eof>`
  Instantiated here on the regenerated `Gen/ParserFacts` by kernel evaluation.

  What a failing table looks like:
   * `errors_monotone_static` — a row of `errWrites` with shape `.other`: some assignment to `p.errors` that is not
     `p.errors = append(p.errors, e)`, e.g. `handleError` doing `p.errors = append(p.errors[:n], e)` (drops earlier
     errors), `p.errors = nil`, `p.errors[i] = e`, `&p.errors`.  The same assignment becomes `.clobberErrs` in the
     function's code, which `creditOK` rejects (`noClobber`, and `analyze` has no bound for it), so `credit_static`
     fails too.
   * `bad_sites` — a `Bad*` literal in a production (`part = .body` of a non-handler function).
   * `credit_static` — a handler that builds its `Bad*` node before (or without) calling `handleError`, a second
     wrapper literal per handler run, a protected function whose handler does not call a `handle…Error` at all
     (then a handler run is not paid for by an error), a `Bad*` literal inside a loop.
   * `entry_shapes_ok` — an entry point whose body is not
     `p.nextTokenOrBad(); x := p.parseX(); if p.Token.Kind != token.TokenEOF { p.errors = append(…) };
      if len(p.errors) > 0 { return x, MultiError(p.errors) }; return x, nil` — the offending statement appears as
     `.unrecognised "<source>"`.
-/
import MF.Props.C03Parser
namespace MF.Props.C09
open MF MF.Recovery MF.Facts MF.Gen MF.Props.C03

def isBadNode (k : String) : Bool := k == "BadNode"
def isWrapper (k : String) : Bool := !(k == "BadNode")

/-- count the typed wrappers `BadStatement`, `BadQueryExpr`, `BadExpr`, `BadType`, `BadDDL`, `BadDML` -/
def wWrapper : Weights := ⟨isWrapper, fun _ => false⟩
/-- count the payload nodes `BadNode` -/
def wBadNode : Weights := ⟨isBadNode, fun _ => false⟩
/-- count handler runs -/
def wHandler : Weights := ⟨fun _ => false, fun _ => true⟩

/-- (g) every assignment to `<x>.errors` in the four files is `x.errors = append(x.errors, e)`:
    the error list is never truncated or replaced -/
theorem errors_monotone_static :
    ParserFacts.errWrites.all (fun w => w.shape == .appendOne) = true ∧
    ParserFacts.funcs.all (fun f => f.pre.errOther == 0 && f.body.errOther == 0 &&
      ((f.handler.map fun h => h.errOther == 0).getD true)) = true := by decide +kernel

/-- (b) every `Bad*` literal is in the deferred handler of a protected function or in one of the `handle…Error`
    functions, and none is inside a loop -/
theorem bad_sites :
    ParserFacts.badLits.all (fun b => !b.inLoop &&
      (b.part == .handler || (ParserFacts.funcs[b.func]?.map (·.role == .handler)).getD false)) = true := by
  decide +kernel

set_option maxRecDepth 1000000 in
/-- the static premise of `bad_implies_error`, for the three ways of counting -/
theorem credit_static :
    creditOK prog wWrapper roots = true ∧ creditOK prog wBadNode roots = true ∧ creditOK prog wHandler roots = true := by
  decide +kernel

theorem count_bads (l : List String) : l.countP isWrapper + l.countP isBadNode = l.length := by
  induction l with
  | nil => rfl
  | cons a l ih =>
    simp only [List.countP_cons, List.length_cons]
    have : isWrapper a = !isBadNode a := rfl
    rw [this]
    cases isBadNode a <;> simp <;> omega

/-- **C09 (structural), `bad_implies_error`.**  In every execution started at an entry point on a fresh parser:
    the error list only grows; at most one wrapper node, one `BadNode` and one handler run per appended error;
    and if the error list is empty at the end, no `Bad*` node was created and no handler ran. -/
theorem bad_implies_error {e : Nat} (he : e ∈ roots) {b : Bool} {o : Out} {s' : State}
    (h : Exec prog (.call e) (State.init b) o s') :
    s'.bads.countP isWrapper ≤ s'.errs.length ∧ s'.bads.countP isBadNode ≤ s'.errs.length ∧
    s'.caught.length ≤ s'.errs.length ∧ (s'.errs = [] → s'.bads = [] ∧ s'.caught = []) := by
  have h1 := (Recovery.bad_implies_error credit_static.1 he h).2.1
  have h2 := (Recovery.bad_implies_error credit_static.2.1 he h).2.1
  have h3 := (Recovery.bad_implies_error credit_static.2.2 he h).2.1
  simp only [cost, wWrapper, wBadNode, wHandler, State.init, List.countP_nil, List.length_nil, List.countP_false,
    List.countP_true] at h1 h2 h3
  have hb := count_bads s'.bads
  refine ⟨by omega, by omega, by omega, fun hn => ?_⟩
  rw [hn] at h1 h2 h3
  simp only [List.length_nil] at h1 h2 h3
  constructor
  · apply List.eq_nil_of_length_eq_zero; omega
  · apply List.eq_nil_of_length_eq_zero; omega

/-- the error list only grows, in every execution from every state (monotonicity, stated on its own) -/
theorem errors_only_grow {e : Nat} (he : e ∈ roots) {s : State} {o : Out} {s' : State}
    (h : Exec prog (.call e) s o s') : ∃ t, s'.errs = s.errs ++ t :=
  (Recovery.bad_implies_error credit_static.1 he h).1

/-- (c) all nine entry points have the shape -/
theorem entry_shapes_ok :
    ParserFacts.entryShapes.all (fun e => wellShaped e.shape && namesOK e.shape) = true ∧
    ParserFacts.entryShapes.map (·.id) = ParserFacts.entryIds := by decide +kernel

/-- **C09 (structural), `entry_contract`.**  Every execution of an entry point returns (no panic escapes), returns the
    nil error iff at the end `errors = []` and the current token is `<eof>`; the returned tree then contains no `Bad*`
    node created by this call, and no handler ran. -/
theorem entry_contract {e : EntryShape} (he : e ∈ ParserFacts.entryShapes) {b : Bool} {r : EntryRes} {s' : State}
    (h : EntryExec prog e.shape (State.init b) r s') :
    r ≠ .escaped ∧ (r = .nilErr ↔ s'.errs = [] ∧ s'.eof = true) ∧
    s'.bads.countP isWrapper ≤ s'.errs.length ∧ s'.bads.countP isBadNode ≤ s'.errs.length ∧
    s'.caught.length ≤ s'.errs.length ∧ (r = .nilErr → s'.bads = [] ∧ s'.caught = []) := by
  have h0 := List.all_eq_true.mp entry_shapes_ok.1 e he
  simp only [Bool.and_eq_true] at h0
  have hw := h0.1
  have hsub := C03.shape_calls_in_roots he
  have t1 := Recovery.entry_sound hw hsub C03.no_escape_static credit_static.1 h
  have t2 := Recovery.entry_sound hw hsub C03.no_escape_static credit_static.2.1 h
  have t3 := Recovery.entry_sound hw hsub C03.no_escape_static credit_static.2.2 h
  have h1 := t1.2.2.1
  have h2 := t2.2.2.1
  have h3 := t3.2.2.1
  simp only [cost, wWrapper, wBadNode, wHandler, List.countP_false, List.countP_true] at h1 h2 h3
  have hb := count_bads s'.bads
  refine ⟨t1.1, t1.2.1, by omega, by omega, by omega, fun hn => ?_⟩
  have hnil := (t1.2.1.mp hn).1
  rw [hnil] at h1 h2 h3
  simp only [List.length_nil] at h1 h2 h3
  constructor
  · apply List.eq_nil_of_length_eq_zero; omega
  · apply List.eq_nil_of_length_eq_zero; omega

end MF.Props.C09
