/-
  C19 — Generated Pos/End/Walk code equals what the node documentation specifies.

  Tables regenerated from /repo on every run (tools/extract): `Gen.kinds` (ast.go structs), `Gen.posDoc` (the
  `// pos = …`, `// end = …` lines parsed by the translator's own POS parser), `Gen.posGo` (the bodies of ast/pos.go
  read back as terms over the helpers of pos_util.go), `Gen.walkGo` (the pushes of ast/walk_internal.go).

   (1) `pos_go_eq_doc`      for every node type, the body of Pos()/End() in pos.go IS the emission of its documented
                            expression (528 method bodies, kernel-decided table equality)
   (2) `emit_correct`       semantic theorem, for every expression and every context: if the emitted Go (strict
                            argument evaluation, helpers of pos_util.go) returns a value, the documented expression
                            (lazy interpreter semantics of tools/util/poslang) returns the same value
   (3) `walk_go_eq_fields`  for every node type, walk_internal.go pushes exactly the node-typed fields of the struct,
                            in reverse declaration order, `nodes:` for slices and `node:` for single children, with the
                            field's own name as label
   (4) `all_kinds_covered`  posDoc, posGo and walkGo have one row per struct of ast.go, in the same order
   (5) the byte-for-byte clause (committed generated files = output of the repository's generators) and the
       interpreter clause (poslang.EvalPos = compiled methods on every parsed node) are finite computations carried
       out by the harness (`mfh prop C19`, TREE channel); they are reported as such in the evidence.
-/
import MF.Model.PosLang
import MF.Proofs.PosLang
import MF.Gen.Catalog
import MF.Gen.PosDoc
import MF.Gen.PosGo
import MF.Gen.WalkGo
namespace MF.Props.C19
open MF MF.Ast

theorem doc_readable : Gen.posDocUnrecognised = [] := by decide

theorem pos_go_eq_doc :
    Gen.posGo = Gen.posDoc.map (fun r => (r.1, r.2.1.emit, r.2.2.emit)) := by decide +kernel

/-- the pushes expected for a struct: its node-typed fields in reverse declaration order -/
def expectedPushes (k : KindDecl) : List WalkPush :=
  (k.fields.filter (fun f => f.cls == .node || f.cls == .nodes)).reverse.map
    (fun f => ⟨f.name, f.cls == .nodes, f.name⟩)

theorem walk_go_eq_fields :
    Gen.walkGo = Gen.kinds.map (fun k => (k.name, expectedPushes k)) := by decide +kernel

theorem all_kinds_covered :
    Gen.posDoc.map (·.1) = Gen.kinds.map (·.name) ∧ Gen.posGo.map (·.1) = Gen.kinds.map (·.name) ∧
    Gen.walkGo.map (·.1) = Gen.kinds.map (·.name) ∧ Gen.walkGoNotes = [] := by decide +kernel

theorem emit_correct (c : Ctx) (e : PosE) (v : Int) (h : (e.emit).eval c = some v) : e.eval c = some v :=
  PosE.emit_correct c e v h

/-- conversely, when no sub-term of the documented expression crashes, the emitted Go returns the same value -/
theorem emit_complete (c : Ctx) (e : PosE) (v : Int) (h : e.eval c = some v) (hs : e.strict c = true) :
    (e.emit).eval c = some v := PosE.emit_complete c e v h hs

end MF.Props.C19
