/-
  C11 — statement lists compose: the extracted fact `eof_sites`.

  A production that asks "is the current token `<eof>`?" can behave differently for `stmt` alone and for `stmt;` inside
  a list (where the token after the statement is `;`, not `<eof>`) — exactly the defect `SELECT 1,` / `SELECT 1,; SELECT 2`
  found on the pinned tree.  `Gen.ParserFacts.eofSites` (fact (d)) lists EVERY comparison with `token.TokenEOF` in
  parser.go with its enclosing function, operator and syntactic context, regenerated on every run.

  `eof_sites`: every such comparison inside a production — i.e. not in the nine entry points (their `!= <eof>` is the
  trailing-garbage check of C09), not in `parseStatements` (the list loop itself), not in the four `handleParse…Error`
  skip loops (which stop at `;` explicitly, C10), not in a `lookahead…` helper (restores the lexer, result is a
  Bool) — is a `!=` guard of a `for` loop (alone or as a conjunct), EXCEPT the sites listed below.  A `!= <eof>` loop
  guard only prevents running off the end of input: each of those loops also leaves on the first token that cannot
  continue the list (`break` unless `,` / `WHEN` / …), so with `;` in place of `<eof>` it leaves at the same token.

  Exceptions today (one):
   * `Parser.parseSelectResults`, `==` inside an `if`:
       `if p.Token.Kind == token.TokenEOF || p.Token.Kind == "FROM" || p.Token.Kind == ";" || p.Token.Kind == ")" { break }`
     after a `,` in a select list: a trailing comma ends the list wherever the query itself can end.  `<eof>` is
     treated together with `;` (and `FROM`, `)`) — this is the form the fix 018fe77 gave the test, precisely so that
     `SELECT 1,` and `SELECT 1,;` agree.  Benign for C11 BECAUSE `;` is in the same disjunction; an `== <eof>` without
     `;` next to it would be the pinned defect again, and would have to be listed here by name to pass.

  A failing table: a new row of `eofSites` whose function has role `production` and whose operator is `==`, or whose
  context is not a `for` condition (e.g. `if p.Token.Kind == token.TokenEOF { return … }` in `parseWhere`), makes the
  left-hand list longer than the listed exceptions; a comparison removed from `parseSelectResults` makes it shorter.
-/
import MF.Gen.ParserFacts
namespace MF.Props.C11
open MF MF.Facts MF.Gen

def roleOfFunc (i : Nat) : Role := (ParserFacts.funcs[i]?.map (·.role)).getD .production

def isLoopGuard (e : EofSite) : Bool := e.op == .ne && (e.ctx == .forCond || e.ctx == .forConjunct)

/-- the comparisons with `<eof>` that are inside productions and are not `!=` loop guards -/
def exceptions : List EofSite :=
  ParserFacts.eofSites.filter fun e => roleOfFunc e.func == .production && !isLoopGuard e

theorem eof_sites :
    exceptions.map (fun e => (e.funcName, e.op, e.ctx)) = [("Parser.parseSelectResults", .eq, .ifCond)] := by
  decide +kernel

/-- the rest of the table, for the record: the comparisons outside productions are the entry points' trailing-token
    check and the guards of the list loop, the four skip loops and one look-ahead loop; and the function names in the
    table are those of the call-graph table (today 11 further rows are `!=` loop guards inside productions:
    `tryParseHint`, `parseSelectResults`, `parseInCondition`, `parseCallLike`, `parseCaseExpr`, `parseArrayLiteralBody`,
    `parseCreateTable` ×2, `parseCreateIndex`, `parseInsert`, `parseValuesRow` — not pinned, a new loop of that kind is fine) -/
theorem eof_sites_elsewhere :
    (ParserFacts.eofSites.filter fun e => roleOfFunc e.func != .production).all (fun e =>
      e.op == .ne &&
      match roleOfFunc e.func with
      | .entry => e.ctx == .ifCond          -- `if p.Token.Kind != token.TokenEOF { append error }`
      | .stmtList | .handler | .lookahead => e.ctx == .forCond
      | _ => false) = true ∧
    ParserFacts.eofSites.all (fun e => (ParserFacts.funcs[e.func]?.map (·.name == e.funcName)).getD false) = true := by
  decide +kernel

end MF.Props.C11
