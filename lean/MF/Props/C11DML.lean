/-
  C11 — statement lists compose, for the DML fragment M2: the modelled statement parser is `Local`, hence
  `MF.Props.C11.lists_compose` / `parseStatements_eq` apply to it.

  `MF.Stmt.StmtParser` is a TOTAL function with an error flag (what `doParse` of `parseStatements` is in Go: it never
  panics, an error is recorded and the recovery skips to the next `;` / `<eof>`).  The DML model answers
  ok / raise / outside and needs fuel, so the statement parser handed to the C11 theory is its eventual, fragment-level
  reading `parseDMLStmt`:

    * it ACCEPTS `ts` with the tree `s`, leaving `rest`, when the model `parseDML parseExpr` answers `ok (s, rest)` with
      some fuel, `rest` starts with a statement terminator (`;` / `<eof>`), and the consumed tokens contain no token
      reading as the unquoted identifiers SAFE_CAST / REPLACE_FIELDS (`NoCast`: the fragment boundary of M1, where
      C07's completeness stops; the DML channel's OUTSIDE rule excludes them as well);
    * otherwise it reports an ERROR and leaves the tokens from the next `;` / `<eof>` on (`handleParseStatementError`
      skips exactly so).  A statement followed by anything but a terminator counts as an error here; in Go the error is
      recorded one step later (the list loop breaks and the entry point reports `expected token: <eof>`), with the same
      outcome for ParseDML and ParseDMLs.  `raise`, `outside` and "never enough fuel" are all "error".

  `dml_local`          : `Local parseDMLStmt`
  `dml_lists_compose`  : ParseDMLs succeeds iff ParseDML succeeds on every non-empty `;`-free segment, with equal trees
  `dml_parseStatements_eq` : the same as one equation
  `parseDMLStmt_accepts`   : what acceptance means in terms of G_DML (soundness + completeness of C08)

  `dml_compose_model`  : the SAME statement for the DML model's own list loop `MF.DML.stmtsLoop` (the transcription of
                         `parseStatements` that the DML channel compares with ParseDMLs / ParseStatements): the model of
                         ParseDMLs returns the trees `l` iff the model of ParseDML returns `l[i]` on the i-th non-empty
                         `;`-free segment followed by `<eof>` (proved directly, MF/Proofs/DMLLists.lean; needs
                         `StmtD.free`: a sentence of G_DML contains no `;` / `<eof>`, MF/Proofs/DMLVoc.lean)
  `dml_lists_agree`    : hence the abstract loop `MF.Stmt.stmtLoop` instantiated with `parseDMLStmt` and the model's
                         loop accept the same token lists with the same trees

  Difference between the two transcriptions of the Go loop, for the record: `stmtLoop` works on an abstract TOTAL `P`
  with error flags, goes on after a failed statement (as Go does after a `BadDML`) and returns `none` on a token list
  without `<eof>`; `stmtsLoop` propagates `raise` / `outside` at once.  They agree on success (`dml_lists_agree`).

  `dml_coreInv`        : `CoreInv parseDMLStmt` (the derivations of G_DML see a token only through `tokCore`,
                         MF/Proofs/DMLCore.lean), hence
  `dml_compose`        : the end-to-end statement with the lexer and the splitter: ParseDMLs on the tokens of `buf`
                         = all-or-nothing of ParseDML (lexer included) on every token-containing raw statement of
                         SplitRawStatements, shifted back to its offset.
-/
import MF.Props.C08DML
import MF.Props.C11Lists
import MF.Proofs.DMLLists
import MF.Proofs.DMLCore
namespace MF.Props.C11
open MF MF.Lex MF.Split MF.Stmt MF.Expr MF.DML

/-- `rest` starts with a statement terminator (past the end of the list the lexer keeps answering `<eof>`) -/
def DmlAtTerm (rest : List Token) : Prop := kd rest = K ";" ∨ kd rest = .eof

/-- the fragment-level acceptance of one statement -/
def DmlAcc (ts : List Token) (r : Stmt Expr × List Token) : Prop :=
  ∃ pre, ts = pre ++ r.2 ∧ (∃ fuel, parseDML parseExpr fuel ts = .ok r) ∧ NoCast pre ∧ DmlAtTerm r.2

open Classical in
/-- the DML statement parser of the fragment as a `StmtParser` -/
noncomputable def parseDMLStmt : StmtParser (Option (Stmt Expr)) := fun ts =>
  if h : ∃ r, DmlAcc ts r then (⟨some (Classical.choose h).1, false⟩, (Classical.choose h).2)
  else (⟨none, true⟩, ts.dropWhile isBody)

theorem dml_stmtFollow_of_atTerm {rest : List Token} (h : DmlAtTerm rest) : StmtFollow rest := by
  cases rest with
  | nil => exact MF.Props.C08.dml_stmtFollow_of_eof rfl
  | cons t tl =>
    rcases h with h | h
    · have hk : t.kind = K ";" := h
      have : tk t.kind = .other := by rw [hk]; decide
      exact ⟨follow_of_none (by rw [this]; rfl), by simp [this], by simp [this]⟩
    · have hk : t.kind = .eof := h
      exact MF.Props.C08.dml_stmtFollow_of_eof (by simp [hk, tk])

/-- what `DmlAcc` means: the consumed tokens are a sentence of G_DML with derivation tree `s` -/
theorem dmlAcc_iff {ts : List Token} {r : Stmt Expr × List Token} :
    DmlAcc ts r ↔ ∃ pre, ts = pre ++ r.2 ∧ StmtD r.1 pre ∧ NoCast pre ∧ DmlAtTerm r.2 := by
  constructor
  · rintro ⟨pre, hts, ⟨fuel, hf⟩, hc, ht⟩
    obtain ⟨pre', hts', hd⟩ := MF.Props.C08.dml_sound (s := r.1) (rest := r.2) hf
    have : pre' = pre := List.append_cancel_right (hts'.symm.trans hts)
    subst this
    exact ⟨pre', hts, hd, hc, ht⟩
  · rintro ⟨pre, hts, hd, hc, ht⟩
    obtain ⟨n, hn⟩ := MF.Props.C08.dml_complete hd hc (dml_stmtFollow_of_atTerm ht)
    exact ⟨pre, hts, ⟨n, by rw [hts]; exact hn n (Nat.le_refl _)⟩, hc, ht⟩

theorem dmlAcc_unique {ts : List Token} {r r' : Stmt Expr × List Token} (h : DmlAcc ts r) (h' : DmlAcc ts r') : r = r' := by
  obtain ⟨pre, hts, hd, hc, ht⟩ := dmlAcc_iff.1 h
  obtain ⟨pre', hts', hd', hc', ht'⟩ := dmlAcc_iff.1 h'
  have e1 := parseDML_complete hd hc (dml_stmtFollow_of_atTerm ht)
  have e2 := parseDML_complete hd' hc' (dml_stmtFollow_of_atTerm ht')
  rw [← hts] at e1
  rw [← hts'] at e2
  have h := Res.ok.inj (Ev.unique e1 e2)
  exact Prod.ext (congrArg Prod.fst h) (congrArg Prod.snd h)

theorem parseDMLStmt_of_acc {ts : List Token} {r : Stmt Expr × List Token} (h : DmlAcc ts r) :
    parseDMLStmt ts = (⟨some r.1, false⟩, r.2) := by
  have hex : ∃ r, DmlAcc ts r := ⟨r, h⟩
  unfold parseDMLStmt
  rw [dif_pos hex]
  have := dmlAcc_unique (Classical.choose_spec hex) h
  rw [this]

theorem parseDMLStmt_of_not {ts : List Token} (h : ¬ ∃ r, DmlAcc ts r) :
    parseDMLStmt ts = (⟨none, true⟩, ts.dropWhile isBody) := by
  unfold parseDMLStmt
  rw [dif_neg h]

/-- acceptance in terms of the grammar -/
theorem parseDMLStmt_accepts {ts : List Token} {s : Stmt Expr} {rest : List Token} :
    parseDMLStmt ts = (⟨some s, false⟩, rest) ↔
      ∃ pre, ts = pre ++ rest ∧ StmtD s pre ∧ NoCast pre ∧ DmlAtTerm rest := by
  constructor
  · intro h
    by_cases hex : ∃ r, DmlAcc ts r
    · obtain ⟨r, hr⟩ := hex
      rw [parseDMLStmt_of_acc hr] at h
      have h1 : r.1 = s := by
        have := congrArg (fun x => x.1.val) h
        simpa using this
      have h2 : r.2 = rest := congrArg (fun x => x.2) h
      have := dmlAcc_iff.1 hr
      rw [h1, h2] at this
      exact this
    · rw [parseDMLStmt_of_not hex] at h
      have := congrArg (fun x => x.1.err) h
      simp at this
  · intro h
    exact parseDMLStmt_of_acc (r := (s, rest)) (dmlAcc_iff.2 h)

theorem dml_term_kind {t : Token} {rest : List Token} (h : Term t rest) : t.kind = K ";" ∨ t.kind = .eof := by
  rcases h with h | ⟨h, _⟩
  · exact .inl h
  · exact .inr h

/-- on a `;`-free run followed by a terminator, acceptance means: the run is a statement -/
theorem dmlAcc_segment {a : List Token} (ha : Free a) {t : Token} {rest : List Token} (ht : Term t rest)
    {r : Stmt Expr × List Token} (h : DmlAcc (a ++ t :: rest) r) : r.2 = t :: rest ∧ StmtD r.1 a ∧ NoCast a := by
  obtain ⟨pre, hts, hd, hc, hterm⟩ := dmlAcc_iff.1 h
  have hfr : Free pre := hd.free
  have htk := dml_term_kind ht
  have hpre : pre = a := by
    rcases List.append_eq_append_iff.1 hts with ⟨x, hx1, hx2⟩ | ⟨x, hx1, hx2⟩
    · -- pre = a ++ x, t :: rest = x ++ r.2
      cases x with
      | nil => simpa using hx1
      | cons y x' =>
        simp only [List.cons_append, List.cons.injEq] at hx2
        have hy : y ∈ pre := by rw [hx1]; simp
        have := hfr y hy
        rw [← hx2.1] at this
        rcases htk with h1 | h1
        · exact absurd h1 this.1
        · exact absurd h1 this.2
    · -- a = pre ++ x, r.2 = x ++ t :: rest
      cases x with
      | nil => simpa using hx1.symm
      | cons y x' =>
        have hy : y ∈ a := by rw [hx1]; simp
        have hfy := ha y hy
        rw [hx2] at hterm
        rcases hterm with h1 | h1
        · exact absurd h1 hfy.1
        · exact absurd h1 hfy.2
  subst hpre
  exact ⟨List.append_cancel_left hts.symm, hd, hc⟩

/-- **the modelled DML statement parser is `Local`** -/
theorem dml_local : Local parseDMLStmt := by
  intro a _ ha
  by_cases hq : ∃ s, StmtD s a ∧ NoCast a
  · obtain ⟨s, hd, hc⟩ := hq
    refine ⟨false, some s, [], ⟨a, by simp⟩, fun t rest ht => ?_⟩
    have hterm : DmlAtTerm (t :: rest) := by
      rcases dml_term_kind ht with h | h
      · exact .inl h
      · exact .inr h
    have hacc : DmlAcc (a ++ t :: rest) (s, t :: rest) := dmlAcc_iff.2 ⟨a, rfl, hd, hc, hterm⟩
    exact ⟨⟨some s, false⟩, by rw [parseDMLStmt_of_acc hacc]; rfl, rfl, fun _ => rfl⟩
  · refine ⟨true, none, [], ⟨a, by simp⟩, fun t rest ht => ?_⟩
    have hno : ¬ ∃ r, DmlAcc (a ++ t :: rest) r := by
      rintro ⟨r, hr⟩
      obtain ⟨_, hd, hc⟩ := dmlAcc_segment ha ht hr
      exact hq ⟨r.1, hd, hc⟩
    refine ⟨⟨none, true⟩, ?_, rfl, fun h => by cases h⟩
    rw [parseDMLStmt_of_not hno, (takeWhile_free ha ht).2]
    rfl

/-- ParseDMLs (fragment reading) succeeds iff ParseDML succeeds on every non-empty `;`-free segment of the token list,
and then the i-th tree is the tree of the i-th segment -/
theorem dml_lists_compose {ts : List Token} (hts : WF ts) {e : Token} (he : e.kind = .eof) :
    ((Stmt.parseStatements parseDMLStmt ts).isSome = true ↔
        ∀ s ∈ stmtSegments ts, (Stmt.parseStatement parseDMLStmt (s ++ [e])).isSome = true) ∧
    (∀ vs, Stmt.parseStatements parseDMLStmt ts = some vs →
        vs.length = (stmtSegments ts).length ∧
        ∀ (i : Nat) s, (stmtSegments ts)[i]? = some s → (Stmt.parseStatement parseDMLStmt (s ++ [e])) = vs[i]?) :=
  lists_compose dml_local hts he

theorem dml_parseStatements_eq {ts : List Token} (hts : WF ts) {e : Token} (he : e.kind = .eof) :
    Stmt.parseStatements parseDMLStmt ts = optAll ((stmtSegments ts).map (fun s => Stmt.parseStatement parseDMLStmt (s ++ [e]))) :=
  parseStatements_eq dml_local hts he

/-- ParseDML on one segment, in terms of the grammar: it succeeds with `s` iff the segment is a sentence of G_DML with
derivation tree `s` (and is inside the fragment boundary `NoCast`) -/
theorem dml_segment {a : List Token} (ha : Free a) {e : Token} (he : e.kind = .eof) (v : Option (Stmt Expr)) :
    Stmt.parseStatement parseDMLStmt (a ++ [e]) = some v ↔ ∃ s, v = some s ∧ StmtD s a ∧ NoCast a := by
  have hterm : Term e [] := .inr ⟨he, rfl⟩
  unfold Stmt.parseStatement
  by_cases hq : ∃ s, StmtD s a ∧ NoCast a
  · obtain ⟨s, hd, hc⟩ := hq
    have hacc : DmlAcc (a ++ e :: []) (s, e :: []) := dmlAcc_iff.2 ⟨a, rfl, hd, hc, .inr he⟩
    have hP := parseDMLStmt_of_acc hacc
    simp only at hP
    rw [hP]
    simp only [headIsEof, he, beq_self_eq_true, Bool.not_false, Bool.and_self, if_true, Option.some.injEq]
    constructor
    · intro h; exact ⟨s, h.symm, hd, hc⟩
    · rintro ⟨s', rfl, hd', hc'⟩
      rw [MF.Props.C08.dml_unique hd hd' hc]
  · have hno : ¬ ∃ r, DmlAcc (a ++ e :: []) r := by
      rintro ⟨r, hr⟩
      obtain ⟨_, hd, hc⟩ := dmlAcc_segment ha hterm hr
      exact hq ⟨r.1, hd, hc⟩
    rw [parseDMLStmt_of_not hno]
    simp only [Bool.not_true, Bool.false_and, Bool.false_eq_true, if_false]
    constructor
    · intro h; cases h
    · rintro ⟨s, _, hd, hc⟩; exact absurd ⟨s, hd, hc⟩ hq

/-! ## non-vacuity -/

/-- the tokens of a list of two statements with an empty statement between them and a trailing `;` -/
def dmlListToks : List Token :=
  match lexAll (B "DELETE t WHERE a;; UPDATE t SET a = 1 WHERE b;") with
  | .ok ts => ts
  | _ => []

theorem dmlListToks_lex : lexAll (B "DELETE t WHERE a;; UPDATE t SET a = 1 WHERE b;") = .ok dmlListToks := by rfl

example : (stmtSegments dmlListToks).map (·.map (·.raw)) =
    [[B "DELETE", B "t", B "WHERE", B "a"], [B "UPDATE", B "t", B "SET", B "a", B "=", B "1", B "WHERE", B "b"]] := by
  decide +kernel

/-- `dml_parseStatements_eq` on it -/
theorem dml_example_lists (e : Token) (he : e.kind = .eof) :
    Stmt.parseStatements parseDMLStmt dmlListToks =
      optAll ((stmtSegments dmlListToks).map (fun s => Stmt.parseStatement parseDMLStmt (s ++ [e]))) :=
  dml_parseStatements_eq (lexAll_WF dmlListToks_lex) he

/-- the first segment -/
def dmlSeg : List Token := (stmtSegments dmlListToks).headD []

/-- it is a sentence of G_DML (the derivation is built by hand from the grammar rules), so by `dml_segment` ParseDML
accepts it, with the derivation tree -/
theorem dmlSeg_stmt : StmtD (.delete 0 [⟨7, 8, B "t"⟩] none ⟨9, .ident (B "a")⟩) dmlSeg := by
  have h : dmlSeg = [dmlSeg[0]!, dmlSeg[1]!, dmlSeg[2]!, dmlSeg[3]!] := by decide +kernel
  rw [h]
  exact StmtD.delete (k := dmlSeg[0]!) (f := []) (p := [dmlSeg[1]!]) (a := []) (w := [dmlSeg[2]!, dmlSeg[3]!])
    (tbl := [identOf dmlSeg[1]!]) (al := none) (wh := ⟨(dmlSeg[2]!).pos, .ident (B "a")⟩)
    (by decide +kernel) .none (.mk (by decide +kernel) .nil) .none
    (.mk (e := .ident (B "a")) (by decide +kernel) ⟨by decide +kernel, by decide +kernel, by decide +kernel⟩)

theorem dmlSeg_accepted (e : Token) (he : e.kind = .eof) :
    Stmt.parseStatement parseDMLStmt (dmlSeg ++ [e]) = some (some (.delete 0 [⟨7, 8, B "t"⟩] none ⟨9, .ident (B "a")⟩)) :=
  (dml_segment (show ∀ t ∈ dmlSeg, t.kind ≠ K ";" ∧ t.kind ≠ .eof by decide +kernel) he _).2
    ⟨_, rfl, dmlSeg_stmt, show ∀ t ∈ dmlSeg, isCastLike t = false by decide +kernel⟩

/-! ## the model's own list loop -/

/-- **ParseDMLs = ParseDML on every token-containing segment, for the DML model itself**: on the tokens of an input
(well-formed list, no token reading as unquoted SAFE_CAST / REPLACE_FIELDS) the model of ParseDMLs returns `l` iff the
model of ParseDML returns `l[i]` on the i-th non-empty `;`-free segment followed by `<eof>`, for all i, and there are as
many trees as segments -/
theorem dml_compose_model {ts : List Token} (hts : WF ts) (hc : NoCast ts) {e : Token} (he : e.kind = .eof)
    (l : List (Stmt Expr)) :
    (∃ fuel, parseDMLsTop parseExpr fuel ts = .ok l) ↔
      AllSegs (fun seg s => ∃ fuel, parseDMLTop parseExpr fuel (seg ++ [e]) = .ok s) (stmtSegments ts) l := by
  rw [parseDMLsTop_segments hts hc]
  have hseg : ∀ a ∈ stmtSegments ts, Free a ∧ NoCast a :=
    fun a ha => ⟨stmtSegments_free a ha, fun t ht => hc t (stmtSegments_mem a ha t ht)⟩
  constructor
  · exact AllSegs.congr (fun a ha s hd => (parseDMLTop_segment (hseg a ha).1 (hseg a ha).2 he s).2 hd)
  · exact AllSegs.congr (fun a ha s hd => (parseDMLTop_segment (hseg a ha).1 (hseg a ha).2 he s).1 hd)

theorem dml_allSegs_optAll {R : List Token → Stmt Expr → Prop} {F : List Token → Option (Option (Stmt Expr))}
    {as : List (List Token)} (h : ∀ a ∈ as, ∀ v, F a = some v ↔ ∃ s, v = some s ∧ R a s) (l : List (Stmt Expr)) :
    optAll (as.map F) = some (l.map some) ↔ AllSegs R as l := by
  induction as generalizing l with
  | nil =>
    constructor
    · intro h1
      cases l with
      | nil => exact .nil
      | cons s l => simp [optAll] at h1
    · intro h1; cases h1; rfl
  | cons a as ih =>
    have iha := ih (fun b hb => h b (List.mem_cons_of_mem _ hb))
    have ha := h a List.mem_cons_self
    constructor
    · intro h1
      simp only [List.map_cons] at h1
      cases hF : F a with
      | none => rw [hF] at h1; simp [optAll] at h1
      | some v =>
        rw [hF] at h1
        simp only [optAll, Option.map_eq_some_iff] at h1
        obtain ⟨vs, hvs, hcons⟩ := h1
        obtain ⟨s, rfl, hr⟩ := (ha v).1 hF
        cases l with
        | nil => simp at hcons
        | cons s' l' =>
          simp only [List.map_cons, List.cons.injEq, Option.some.injEq] at hcons
          obtain ⟨rfl, rfl⟩ := hcons
          exact .cons hr ((iha l').1 hvs)
    · intro h1
      cases h1 with
      | cons hr hl =>
        rename_i s l'
        have hF : F a = some (some s) := (ha _).2 ⟨s, rfl, hr⟩
        simp only [List.map_cons, hF, optAll, (iha l').2 hl, Option.map_some]

/-- the abstract loop of the C11 theory instantiated with `parseDMLStmt` and the DML model's own loop accept the same
token lists, with the same trees -/
theorem dml_lists_agree {ts : List Token} (hts : WF ts) (hc : NoCast ts) (l : List (Stmt Expr)) :
    Stmt.parseStatements parseDMLStmt ts = some (l.map some) ↔ ∃ fuel, parseDMLsTop parseExpr fuel ts = .ok l := by
  rw [dml_parseStatements_eq hts (e := {kind := .eof}) rfl, parseDMLsTop_segments hts hc]
  refine dml_allSegs_optAll (R := fun a s => StmtD s a) (fun a ha v => ?_) l
  have hfree := stmtSegments_free a ha
  have hca : NoCast a := fun t ht => hc t (stmtSegments_mem a ha t ht)
  rw [dml_segment hfree rfl v]
  constructor
  · rintro ⟨s, rfl, hd, _⟩; exact ⟨s, rfl, hd⟩
  · rintro ⟨s, rfl, hd⟩; exact ⟨s, rfl, hd, hca⟩

/-- `dml_compose_model` on the example list -/
theorem dml_example_model (e : Token) (he : e.kind = .eof) (l : List (Stmt Expr)) :
    (∃ fuel, parseDMLsTop parseExpr fuel dmlListToks = .ok l) ↔
      AllSegs (fun seg s => ∃ fuel, parseDMLTop parseExpr fuel (seg ++ [e]) = .ok s) (stmtSegments dmlListToks) l :=
  dml_compose_model (lexAll_WF dmlListToks_lex) (show ∀ t ∈ dmlListToks, isCastLike t = false by decide +kernel) he l

/-! ## `CoreInv`, and the end-to-end composition with the lexer and the splitter -/

theorem dml_kd_core : ∀ {l1 l2 : List Token}, l1.map tokCore = l2.map tokCore → kd l1 = kd l2
  | [], [], _ => rfl
  | [], _ :: _, h => by simp at h
  | _ :: _, [], h => by simp at h
  | a :: _, b :: _, h => by
    simp only [List.map_cons, List.cons.injEq] at h
    exact (sameCore_of h.1).kind

theorem dmlAcc_core {l1 l2 : List Token} (h : l1.map tokCore = l2.map tokCore) {r : Stmt Expr × List Token}
    (hr : DmlAcc l1 r) : ∃ r2, DmlAcc l2 (r.1, r2) ∧ r.2.map tokCore = r2.map tokCore := by
  obtain ⟨pre, hts, hd, hc, hterm⟩ := dmlAcc_iff.1 hr
  rw [hts] at h
  obtain ⟨a', b', rfl, ha', hb'⟩ := core_append h.symm
  refine ⟨b', dmlAcc_iff.2 ⟨a', rfl, hd.core ha', noCast_core ha' hc, ?_⟩, hb'.symm⟩
  unfold DmlAtTerm at hterm ⊢
  rw [dml_kd_core hb']; exact hterm

theorem dml_dropWhile_core : ∀ {l1 l2 : List Token}, l1.map tokCore = l2.map tokCore →
    (l1.dropWhile isBody).map tokCore = (l2.dropWhile isBody).map tokCore
  | [], [], _ => rfl
  | [], _ :: _, h => by simp at h
  | _ :: _, [], h => by simp at h
  | a :: l1, b :: l2, h => by
    have h' := h
    simp only [List.map_cons, List.cons.injEq] at h'
    have hb := isBody_core h'.1
    cases hba : isBody a with
    | true =>
      rw [hba] at hb
      simp only [List.dropWhile, hba, ← hb]
      exact dml_dropWhile_core h'.2
    | false =>
      rw [hba] at hb
      simp only [List.dropWhile, hba, ← hb]
      exact h

/-- the modelled DML statement parser looks at tokens only through `tokCore` -/
theorem dml_coreInv : CoreInv parseDMLStmt := by
  intro l1 l2 h
  by_cases h1 : ∃ r, DmlAcc l1 r
  · obtain ⟨r, hr⟩ := h1
    obtain ⟨r2, hr2, hrest⟩ := dmlAcc_core h hr
    rw [parseDMLStmt_of_acc hr, parseDMLStmt_of_acc hr2]
    exact ⟨rfl, hrest⟩
  · have h2 : ¬ ∃ r, DmlAcc l2 r := by
      rintro ⟨r, hr⟩
      obtain ⟨r1, hr1, _⟩ := dmlAcc_core h.symm hr
      exact h1 ⟨_, hr1⟩
    rw [parseDMLStmt_of_not h1, parseDMLStmt_of_not h2]
    exact ⟨rfl, dml_dropWhile_core h⟩

/-- **end to end**: ParseDMLs (fragment reading) on the tokens of `buf` = all-or-nothing of ParseDML, lexer included,
on every token-containing raw statement of SplitRawStatements, shifted back to its offset -/
theorem dml_compose {buf : Bytes} {ts : List Token} (h : lexAll buf = .ok ts) :
    Stmt.parseStatements parseDMLStmt ts =
      optAll (((specPieces buf ts 0).filter (fun x => !(tokensIn ts x).isEmpty)).map (parsePiece parseDMLStmt)) :=
  compose dml_local dml_coreInv h

/-- `dml_compose` on the example -/
theorem dml_example_compose :
    Stmt.parseStatements parseDMLStmt dmlListToks =
      optAll (((specPieces (B "DELETE t WHERE a;; UPDATE t SET a = 1 WHERE b;") dmlListToks 0).filter
        (fun x => !(tokensIn dmlListToks x).isEmpty)).map (parsePiece parseDMLStmt)) :=
  dml_compose dmlListToks_lex

end MF.Props.C11
