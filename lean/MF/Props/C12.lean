/-
  C12 — SplitRawStatements partitions the input at top-level semicolons and nothing else.

  Full statement: (a) it fails exactly when the input has a lexical error; otherwise (b) pieces have
  Statement == input[Pos:End], 0 ≤ Pos ≤ End ≤ len, increasing and non-overlapping; (c) no piece contains a
  ';' token, the text between consecutive pieces (and after the last) is exactly one ';' token plus whitespace,
  every other token and every comment lies inside exactly one piece; (d) semicolons inside literals and
  comments never split.

  Proved here, for every byte string, about the model `MF.Split` of split.go over the model of the lexer:
    (a)  `fails_iff_lexical_error`  — same error value as the lexer's
    (b)  `pieces_ok`               — `PiecesOK`: text, range, order, at least the separator byte apart; never empty
         `never_crashes`           — no runtime panic, loop terminates with the fuel `len+3`
  (c) is proved in `MF/Props/C12Tokens.lean` (same namespace): the loop computes `specPieces`, a fold over the token
  list, and the partition clauses hold of it.  (d): a ';' inside a literal or comment is inside a token or comment
  of the stream (C13 tiling), hence not a ';' TOKEN, hence — by `pieces_from_tokens` — not a cut.
-/
import MF.Proofs.Split
namespace MF.Props.C12
open MF MF.Lex MF.Split

theorem fails_iff_lexical_error (buf : Bytes) (e : LexErr) :
    split buf = .err e ↔ ∃ ts, lexAll buf = .err ts e := split_err_iff buf e

theorem pieces_ok_partial {buf : Bytes} {ps : List Piece} (h : split buf = .ok ps) :
    ps ≠ [] ∧ PiecesOK buf 0 ps := split_ok h

theorem never_crashes (buf : Bytes) : split buf ≠ .crash := split_ne_crash buf

/-- non-vacuity: literal with ';', comment with ';', comment after the separator (the repaired case) -/
example : split (B "SELECT ';' /*;*/; /*c*/ SELECT 2;") =
    .ok [⟨0, 16, B "SELECT ';' /*;*/"⟩, ⟨18, 32, B "/*c*/ SELECT 2"⟩] := by rfl

end MF.Props.C12
