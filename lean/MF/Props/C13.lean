/-
  C13 — Lexing is lossless: tokens tile the input and Raw/Pos/End are consistent.

  Property theorems only (helper lemmas live in MF/Proofs).  All statements are about the
  model `MF.Lex` of `lexer.go`; the LEX channel ties the model to the Go code on every run.

  Full statement, clause by clause:
   (1) the accepted token stream ends with exactly one <eof>            — `C13.tokens_ok` (field 7 of `TokensOK`)
   (2) comments(Space+Raw) ++ Space ++ Raw over all tokens = input      — `C13.tiles`
   (3) Raw = input[Pos:End] for every token and comment                 — `C13.tokens_ok` (`TokensOK`, `CommentsOK`)
   (4) ranges increasing and non-overlapping                            — `C13.tokens_ok` (each range starts at or after the previous end)
   (5) no token other than <eof> is empty                               — `C13.tokens_ok` (field 8)
   (6) NextToken at end of input keeps returning <eof>                  — `C13.eof_stable`
   (7) per step, in both lexer modes, the new token's text is exactly
       the bytes between the old and the new cursor                     — `C13.step_frame`
   (8) Space contains only whitespace                                   — `C13.trivia_ok`
   (9) every comment is a complete comment                              — `C13.trivia_ok`
-/
import MF.Proofs.LexAll
import MF.Proofs.LexTrivia
namespace MF.Props.C13
open MF MF.Lex

theorem tiles {buf : Bytes} {ts : List Token} (h : lexAll buf = .ok ts) :
    ts.flatMap Token.text = buf := lexAll_tiles h

theorem tokens_ok {buf : Bytes} {ts : List Token} (h : lexAll buf = .ok ts) :
    ts ≠ [] ∧ TokensOK buf 0 ts := lexAll_ok h

theorem step_frame {buf : Bytes} {np : Bool} {s s' : State} (h : nextToken buf np s = .ok s') :
    Frame buf s s' := nextToken_frame h

theorem eof_stable {buf : Bytes} {np : Bool} {s : State} (hp : s.pos = buf.length) :
    ∃ s', nextToken buf np s = .ok s' ∧ s'.tok.kind = .eof ∧ s'.pos = buf.length ∧
      s'.tok.raw = [] ∧ s'.tok.pos = buf.length := Lex.eof_stable hp

/-- (8) and (9): `TriviaOK` says, for each comment in order, that the bytes between the previous
end and the comment are whitespace runes (`AllSpaceIn`) and that the comment is a
`CompleteComment`; the second conjunct is the token's own `Space`. -/
theorem trivia_ok {buf : Bytes} {s s' : State} (h : nextToken buf false s = .ok s') :
    TriviaOK buf s.pos s'.tok.comments ∧ AllSpaceIn buf (lastEnd s.pos s'.tok.comments) s'.tok.pos :=
  nextToken_trivia h

/-- non-vacuity: a concrete accepted input with a comment, a string containing `;` and `--`, and
a dot-identifier -/
example : ∃ ts, lexAll (B "SELECT a.1 /*c*/ , ';--' -- x\n") = .ok ts ∧ ts.length = 7 := by
  refine ⟨_, rfl, ?_⟩
  decide

end MF.Props.C13
