/-
  C19 (bridge) — the hand-written fragment models are the interpretation of the REGENERATED tables.
  (Documentation = generated code; here: hand model = generated tables.  Also serves C01 / C04 / C05: what those
  properties prove about `sqlE`, `sqlT`, `posP`, `endP`, `posT`, `endT` is proved about the `SQL()` / `Pos()` / `End()`
  that tools/extract reads out of ast/sql.go, ast/pos.go, ast/ast.go on every run.)

  Two modelling layers:
    A   the generic tree `MF.Ast.Node` with the interpreters `sqlOf` (MF/Model/Print.lean) and `goPosEnd` / `docPosEnd`
        (MF/Model/Tree.lean) over tables regenerated on every run (MF/Gen/SqlGo.lean, PosGo.lean, PosDoc.lean, Catalog.lean);
    M1  the typed fragments `PExpr` (MF/Model/ExprPos.lean; `erase` forgets the positions, MF/Model/Expr.lean) and `Ty`
        (MF/Model/TypeParse.lean) with printers and position formulas transliterated BY HAND from ast/sql.go, ast/pos.go.
  `toNodeP` / `toNodeT` (MF/Model/Bridge.lean) build the generic tree a fragment tree stands for — exactly the reflective
  dump of the Go value (BRIDGE channel: every accepted input of the EXPRPOS and TYPE generators, node for node, scalar for
  scalar, with Go's own Pos() End() SQL()).

   (1) `sql_bridge_expr`    for every positioned expression tree with non-empty identifiers, the generic printer on the
                            regenerated table returns, and returns `sqlE (erase e)`;
   (2) `pos_bridge_expr`    … the compiled `Pos()` / `End()` of the regenerated table return `(posP e, endP e)`;
       `pos_doc_bridge_expr` … and so do the documented `// pos =`, `// end =` expressions;
   (3) `sql_bridge_type`, `pos_bridge_type`, `pos_doc_bridge_type`   the same for `Ty`;
       `sql_bridge_field`, `pos_bridge_field`                         and for a `StructField` (`sqlF`, `posF`, `endF`);
   (4) `prec_bridge`        the hand-written `exprPrec` is the `exprPrec` switch of the regenerated table;
   (5) non-vacuity: both sides computed on ` a.b [ OFFSET ( 1 ) ] - -1 IS NOT NULL` and
       `ARRAY<STRUCT<a INT64, b ARRAY<STRING>>>`; the preconditions are necessary (`…_needs_wf`).

  The proofs go through one lemma per node kind (MF/Proofs/BridgeSqlKinds.lean `row_K`, `sql_K`; BridgePosKinds.lean
  `prow_K`, `pos_K`): `row_K` / `prow_K` state the row of the regenerated table for the kind and are decided by the
  kernel against the tables of THIS run — a change of a `SQL()` body, of a `Pos()` / `End()` method, of `exprPrec`, of
  `paren`, of the struct of one of these kinds breaks such an obligation, whatever input would be needed to observe it.
  Nothing is partial: every constructor of `PExpr` and `Ty` is covered.
-/
import MF.Proofs.BridgeExpr
import MF.Proofs.BridgeType
import MF.Props.C04Pos
namespace MF.Props.C19
open MF MF.Ast MF.Bridge

/-- the regenerated position tables are those of C04 / of the driver -/
theorem posTables_eq : Bridge.posTables = MF.Props.C04.genTables := rfl

/-! ## expressions -/

/-- (1) -/
theorem sql_bridge_expr (e : Expr.PExpr) (h : WFBridge e) :
    sqlOf Gen.sqlTables Expr.asciiPrint (toNodeP e) = some (Expr.sqlE (Expr.erase e)) :=
  Bridge.sql_bridge_expr e h

/-- (2) -/
theorem pos_bridge_expr (e : Expr.PExpr) (h : WFBridge e) :
    goPosEnd Bridge.posTables (toNodeP e) = some ((Expr.posP e : Int), (Expr.endP e : Int)) :=
  Bridge.pos_bridge_expr e h

theorem pos_doc_bridge_expr (e : Expr.PExpr) (h : WFBridge e) :
    docPosEnd Bridge.posTables (toNodeP e) = some ((Expr.posP e : Int), (Expr.endP e : Int)) :=
  MF.Props.C04.pos_end_doc _ _ (Bridge.pos_bridge_expr e h)

/-- (4) -/
theorem prec_bridge (e : Expr.PExpr) :
    Gen.sqlTables.exprPrecOf (toNodeP e).kind (toNodeP e).scalars = some (Expr.exprPrec (Expr.erase e)) :=
  Bridge.prec_bridge e

/-! ## types -/

/-- (3) -/
theorem sql_bridge_type (t : TypeP.Ty) (h : WFBridgeT t) :
    sqlOf Gen.sqlTables TypeP.asciiPrint (toNodeT t) = some (TypeP.sqlT t) :=
  Bridge.sql_bridge_type t h

theorem pos_bridge_type (t : TypeP.Ty) (h : WFBridgeT t) :
    goPosEnd Bridge.posTables (toNodeT t) = some ((TypeP.posT t : Int), (TypeP.endT t : Int)) :=
  Bridge.pos_bridge_type t h

theorem pos_doc_bridge_type (t : TypeP.Ty) (h : WFBridgeT t) :
    docPosEnd Bridge.posTables (toNodeT t) = some ((TypeP.posT t : Int), (TypeP.endT t : Int)) :=
  MF.Props.C04.pos_end_doc _ _ (Bridge.pos_bridge_type t h)

theorem sql_bridge_field (i : Option TypeP.Ident) (t : TypeP.Ty) (hi : wfIdentT i = true) (ht : WFBridgeT t) :
    sqlOf Gen.sqlTables TypeP.asciiPrint (nStructField (i.map identT) (toNodeT t)) = some (TypeP.sqlF i t) :=
  Bridge.sql_bridge_field i t hi ht

theorem pos_bridge_field (i : Option TypeP.Ident) (t : TypeP.Ty) (ht : WFBridgeT t) :
    goPosEnd Bridge.posTables (nStructField (i.map identT) (toNodeT t)) =
      some ((TypeP.posF i t : Int), (TypeP.endF i t : Int)) :=
  Bridge.pos_bridge_field i t ht

/-! ## non-vacuity -/

deriving instance DecidableEq for Expr.PExpr, Expr.PExprs, Expr.PWhens, Expr.POExpr
deriving instance DecidableEq for Expr.Res
deriving instance DecidableEq for TypeP.Ty, TypeP.Fields
deriving instance DecidableEq for TypeP.Res

/-- the model's `ParseExpr` with positions -/
def exprOf (s : String) : Expr.Res Expr.PExpr :=
  match Lex.lexAll (B s) with
  | .ok ts => Expr.parsePTop (Expr.topFuel ts) ts
  | .err _ _ => .raise
  | .crash _ => .crash

/-- the model's `ParseType` -/
def typeOf (s : String) : TypeP.Res TypeP.Ty :=
  match Lex.lexAll (B s) with
  | .ok ts => TypeP.parseTypeTop (TypeP.topFuel ts) ts
  | _ => .raise

/-- the tree of ` a.b [ OFFSET ( 1 ) ] - -1 IS NOT NULL` -/
def exTree : Expr.PExpr :=
  .isNull 34
    (.bin .sub
      (.index 20 (.path [⟨1, 2, B "a"⟩, ⟨3, 4, B "b"⟩]) (some ⟨.offset, B "OFFSET", 7, 18⟩) (.int 16 17 none (B "1")))
      (.int 24 26 (some .minus) (B "1")))
    true

example : exprOf " a.b [ OFFSET ( 1 ) ] - -1 IS NOT NULL" = .ok exTree := by decide +kernel
example : WFBridge exTree := by decide
example : Expr.sqlE (Expr.erase exTree) = B "a.b[OFFSET(1)] - -1 IS NOT NULL" := by decide +kernel
example : sqlOf Gen.sqlTables Expr.asciiPrint (toNodeP exTree) = some (B "a.b[OFFSET(1)] - -1 IS NOT NULL") := by
  decide +kernel
example : (Expr.posP exTree, Expr.endP exTree) = (1, 38) := by decide
example : goPosEnd Bridge.posTables (toNodeP exTree) = some (1, 38) := by decide +kernel
example : docPosEnd Bridge.posTables (toNodeP exTree) = some (1, 38) := by decide +kernel
/-- an inner node: the `IndexExpr` -/
example : goPosEnd Bridge.posTables
    (toNodeP (.index 20 (.path [⟨1, 2, B "a"⟩, ⟨3, 4, B "b"⟩]) (some ⟨.offset, B "OFFSET", 7, 18⟩) (.int 16 17 none (B "1")))) =
    some (1, 21) := by decide +kernel

/-- Task E, stage 1: the tree of `CASE a WHEN 1 THEN b ELSE IF(c, 2, 3) END` (`CaseExpr`, `CaseWhen`, `CaseElse`, `IfExpr`) -/
def exCase : Expr.PExpr :=
  .caseE 0 38 (.some 0 (.ident ⟨5, 6, B "a"⟩)) 7 (.int 12 13 none (B "1")) (.ident ⟨19, 20, B "b"⟩) .nil
    (.some 21 (.ifE 26 36 (.ident ⟨29, 30, B "c"⟩) (.int 32 33 none (B "2")) (.int 35 36 none (B "3"))))

example : exprOf "CASE a WHEN 1 THEN b ELSE IF(c, 2, 3) END" = .ok exCase := by decide +kernel
example : WFBridge exCase := by decide
example : sqlOf Gen.sqlTables Expr.asciiPrint (toNodeP exCase) = some (B "CASE a WHEN 1 THEN b ELSE IF(c, 2, 3) END") := by
  decide +kernel
example : Expr.sqlE (Expr.erase exCase) = B "CASE a WHEN 1 THEN b ELSE IF(c, 2, 3) END" := by decide +kernel
example : goPosEnd Bridge.posTables (toNodeP exCase) = some (0, 41) := by decide +kernel
example : docPosEnd Bridge.posTables (toNodeP exCase) = some (0, 41) := by decide +kernel

/-- the tree of `ARRAY<STRUCT<a INT64, b ARRAY<STRING>>>` -/
def exType : TypeP.Ty :=
  .array 0 38
    (.struct 6 37
      (.cons (some ⟨13, 14, B "a"⟩) (.simple 15 (B "INT64"))
        (.cons (some ⟨22, 23, B "b"⟩) (.array 24 36 (.simple 30 (B "STRING"))) .nil)))

example : typeOf "ARRAY<STRUCT<a INT64, b ARRAY<STRING>>>" = .ok exType := by decide +kernel
example : WFBridgeT exType := by decide
example : TypeP.sqlT exType = B "ARRAY<STRUCT<a INT64, b ARRAY<STRING>>>" := by decide +kernel
example : sqlOf Gen.sqlTables TypeP.asciiPrint (toNodeT exType) = some (B "ARRAY<STRUCT<a INT64, b ARRAY<STRING>>>") := by
  decide +kernel
example : (TypeP.posT exType, TypeP.endT exType) = (0, 39) := by decide
example : goPosEnd Bridge.posTables (toNodeT exType) = some (0, 39) := by decide +kernel
example : docPosEnd Bridge.posTables (toNodeT exType) = some (0, 39) := by decide +kernel

/-! the preconditions are necessary: on an empty identifier Go's `QuoteSQLIdent` panics (the generic printer answers
`none`) while `sqlE` answers the empty text; on an empty path Go answers `InvalidPos`, `posP` 0 -/

theorem sql_bridge_needs_wf :
    sqlOf Gen.sqlTables Expr.asciiPrint (toNodeP (.ident ⟨0, 0, []⟩)) = none ∧
    Expr.sqlE (Expr.erase (.ident ⟨0, 0, []⟩)) = [] := by decide +kernel

theorem pos_bridge_needs_wf :
    goPosEnd Bridge.posTables (toNodeP (.path [])) = some (-1, -1) ∧ (Expr.posP (.path []), Expr.endP (.path [])) = (0, 0) := by
  decide +kernel

end MF.Props.C19
