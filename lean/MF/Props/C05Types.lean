/-
  C05 for the `ParseType` entry point — every node of an accepted type lies on token boundaries, inside the input,
  is non-empty, and contains its children in order without overlap.

  Nodes (MF/Spec/TypeNodes.lean): the type nodes, the `StructField` nodes and the `Ident` nodes (path components and
  field names), with `Pos()`/`End()` exactly as ast/pos.go computes them (`SimpleType.End = NamePos + len(Name)`,
  `ArrayType.End = Gt + 1`, …).  Tokens: those of the model lexer, with every `>>` / `<>` token counted as two one-byte
  tokens (`expand`), since the parser splits `>>` in place.

  KNOWN DEFECT, reproduced here and not hidden: `SimpleType.End()` is `NamePos + len(Name)` where `Name` is the
  canonical name, so for a BACK-QUOTED simple type name (``ParseType("`INT64`")``) `End()` is two bytes short (5 instead
  of 7) and is not a token boundary.  The theorem therefore assumes that no `SimpleType` node sits on a token that
  starts with a back quote (`hq`); `type_positions_fails_backquoted` shows the hypothesis is necessary.
-/
import MF.Proofs.TypePos
namespace MF.Props.C05
open MF MF.TypeP MF.TypeG

/-- C05 for types.  `InOrder lo hi cs`: the nodes `cs` lie in `[lo, hi]`, in this order, each non-empty, without
overlap (`c₁.pos ≥ lo`, `cᵢ.end ≤ cᵢ₊₁.pos`, `cₙ.end ≤ hi`). -/
theorem type_positions {buf : Bytes} {ts : List Token} {fuel : Nat} {t : Ty}
    (hl : Lex.lexAll buf = .ok ts) (hp : parseTypeTop fuel ts = .ok t)
    (hq : ∀ a n, Node.ty (.simple a n) ∈ nodesT t → ∀ tok ∈ ts, tok.pos = a → tok.raw.head? ≠ some 96) :
    ∀ n ∈ nodesT t,
      (∃ tok ∈ expand ts, tok.pos = n.pos) ∧ (∃ tok ∈ expand ts, tok.end = n.end) ∧
      0 ≤ n.pos ∧ n.pos < n.end ∧ n.end ≤ buf.length ∧ InOrder n.pos n.end (children n) := by
  intro n hn
  obtain ⟨h1, h2, h3, h4, h5⟩ := MF.TypeP.type_positions hl hp hq n hn
  exact ⟨h1, h2, Nat.zero_le _, h3, h4, h5⟩

/-! ## the hypothesis is necessary: ``ParseType("`INT64`")`` -/

def bqBuf : Bytes := B "`INT64`"
def bqToks : List Token := match Lex.lexAll bqBuf with | .ok ts => ts | _ => []

theorem bq_lex : Lex.lexAll bqBuf = .ok bqToks := by rfl
theorem bq_parse : parseTypeTop (topFuel bqToks) bqToks = .ok (.simple 0 (B "INT64")) := by rfl

/-- the input is accepted, its only node is `SimpleType{NamePos: 0, Name: "INT64"}` with `End() = 5`, but the only
token ends at 7 = `len(input)`: no token ends at `End()` (and the slice `input[0:5]` is ``"`INT6"``, which does not lex) -/
theorem type_positions_fails_backquoted :
    Lex.lexAll bqBuf = .ok bqToks ∧ parseTypeTop (topFuel bqToks) bqToks = .ok (.simple 0 (B "INT64")) ∧
    endT (.simple 0 (B "INT64")) = 5 ∧ bqBuf.length = 7 ∧
    ¬ (∃ tok ∈ expand bqToks, tok.end = endT (.simple 0 (B "INT64"))) ∧
    (∃ tok ∈ bqToks, tok.pos = 0 ∧ tok.raw.head? = some 96) ∧
    typeRun (slice bqBuf 0 5) = "ERR" := by
  refine ⟨bq_lex, bq_parse, by decide, by decide, by decide +kernel, by decide +kernel, by decide +kernel⟩

/-! ## non-vacuity: `ARRAY<STRUCT<a INT64, b ARRAY<STRING>>>` -/

def exBuf : Bytes := B "ARRAY<STRUCT<a INT64, b ARRAY<STRING>>>"
def exToks : List Token := match Lex.lexAll exBuf with | .ok ts => ts | _ => []
def exTree : Ty :=
  .array 0 38 (.struct 6 37 (.cons (some ⟨13, 14, B "a"⟩) (.simple 15 (B "INT64"))
    (.cons (some ⟨22, 23, B "b"⟩) (.array 24 36 (.simple 30 (B "STRING"))) .nil)))

theorem ex_lex : Lex.lexAll exBuf = .ok exToks := by rfl
theorem ex_parse : parseTypeTop (topFuel exToks) exToks = .ok exTree := by rfl

/-- no token of the example starts with a back quote: the hypothesis `hq` holds -/
theorem ex_unquoted : ∀ tok ∈ exToks, tok.raw.head? ≠ some 96 := by decide +kernel

/-- the theorem instantiated on the example (11 nodes: 4 types … ) -/
theorem ex_positions : ∀ n ∈ nodesT exTree,
    (∃ tok ∈ expand exToks, tok.pos = n.pos) ∧ (∃ tok ∈ expand exToks, tok.end = n.end) ∧
    0 ≤ n.pos ∧ n.pos < n.end ∧ n.end ≤ exBuf.length ∧ InOrder n.pos n.end (children n) :=
  type_positions ex_lex ex_parse (fun _ _ _ tok htok _ => ex_unquoted tok htok)

/-- the three closers: the inner ARRAY ends at the FIRST byte of the `>>` token (36..37), the STRUCT at its second
byte (37..38), the outer ARRAY at the `>` token (38..39) -/
example : (nodesT exTree).map (fun n => (n.pos, n.end)) =
    [(0, 39), (6, 38), (13, 20), (13, 14), (15, 20), (22, 37), (22, 23), (24, 37), (30, 36)] := by decide

/-! ## the repaired inputs: a named type whose first path component spells a scalar type (`STRUCT<a date.t, b INT64.u>`,
`` `date`.x ``) — all node positions are token boundaries; a back-quoted FIRST COMPONENT is an `Ident` node (its
`NameEnd` is the token's end), not a `SimpleType`, so `hq` holds vacuously -/

def ex3Buf : Bytes := B "STRUCT<a date.t, b INT64.u>"
def ex3Toks : List Token := match Lex.lexAll ex3Buf with | .ok ts => ts | _ => []
def ex3Tree : Ty :=
  .struct 0 26 (.cons (some ⟨7, 8, B "a"⟩) (.named [⟨9, 13, B "date"⟩, ⟨14, 15, B "t"⟩])
    (.cons (some ⟨17, 18, B "b"⟩) (.named [⟨19, 24, B "INT64"⟩, ⟨25, 26, B "u"⟩]) .nil))
theorem ex3_lex : Lex.lexAll ex3Buf = .ok ex3Toks := by rfl
theorem ex3_parse : parseTypeTop (topFuel ex3Toks) ex3Toks = .ok ex3Tree := by rfl

theorem ex3_positions : ∀ n ∈ nodesT ex3Tree,
    (∃ tok ∈ expand ex3Toks, tok.pos = n.pos) ∧ (∃ tok ∈ expand ex3Toks, tok.end = n.end) ∧
    0 ≤ n.pos ∧ n.pos < n.end ∧ n.end ≤ ex3Buf.length ∧ InOrder n.pos n.end (children n) :=
  type_positions ex3_lex ex3_parse (fun a n hn => by simp [ex3Tree, nodesT, nodesFs, optIdent] at hn)

example : (nodesT ex3Tree).map (fun n => (n.pos, n.end)) =
    [(0, 27), (7, 15), (7, 8), (9, 15), (9, 13), (14, 15), (17, 26), (17, 18), (19, 26), (19, 24), (25, 26)] := by decide

def bqnBuf : Bytes := B "`date`.x"
def bqnToks : List Token := match Lex.lexAll bqnBuf with | .ok ts => ts | _ => []
def bqnTree : Ty := .named [⟨0, 6, B "date"⟩, ⟨7, 8, B "x"⟩]
theorem bqn_lex : Lex.lexAll bqnBuf = .ok bqnToks := by rfl
theorem bqn_parse : parseTypeTop (topFuel bqnToks) bqnToks = .ok bqnTree := by rfl

theorem bqn_positions : ∀ n ∈ nodesT bqnTree,
    (∃ tok ∈ expand bqnToks, tok.pos = n.pos) ∧ (∃ tok ∈ expand bqnToks, tok.end = n.end) ∧
    0 ≤ n.pos ∧ n.pos < n.end ∧ n.end ≤ bqnBuf.length ∧ InOrder n.pos n.end (children n) :=
  type_positions bqn_lex bqn_parse (fun a n hn => by simp [bqnTree, nodesT] at hn)

end MF.Props.C05
