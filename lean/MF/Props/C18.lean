/-
  C18 — purity, determinism, re-entrancy: the ownership facts and the abstract theorem `schedule_independent`.

  `schedule_independent` (abstract, proved here once): a system of calls, each a finite sequence of steps; a step reads
  an immutable global component `γ` and reads/writes only its own call's component of a product state.  Then for EVERY
  interleaving (a schedule is a list of call indices; scheduling a call that has finished is a no-op) the component of
  each call is what that call computes when it runs alone, and once every call has been scheduled often enough the
  results are those of the calls run one after the other, in any order.

  `ownership` (facts (f), regenerated on every run from ALL non-test files of the packages memefish, token, ast, char
  — the build-tagged export_verif.go excluded): the premises that make a memefish call such a "call":
   * the package-level variables (the immutable `γ`: keyword tables, type-name lists, the printer's indent string, two
     error values) are assigned only at their declaration or in `init` — no write, increment, or address-of anywhere else;
   * there is no `go` statement;
   * none of `sync`, `sync/atomic`, `unsafe`, `os`, `time`, `math/rand`, `runtime` is imported;
   * `Parser`, `Lexer`, `File` values are built per call (`newParser`, `SplitRawStatements`: composite literals, fact (a)
     shows `newParser` calls nothing) — the call's own component.
  What the model cannot exhibit: the Go memory model itself (data races are a run-time notion); the harness's `-race`
  runs are support, not proof.

  A failing table: a "cache" `var seen = map[string]token.TokenKind{}` written in `consumeToken` gives a `pkgVars` row
  that is not in the expected list AND a `varWrites` row `⟨"memefish", "seen", "Lexer.consumeToken", …, "assign"⟩`;
  `go func(){…}()` gives a `goStmts` row; `import "sync"` a `watchedImports` row.
-/
import MF.Gen.ParserFacts
namespace MF.Props.C18
open MF MF.Facts MF.Gen

theorem ownership :
    ParserFacts.varWrites.map (fun w => (w.pkg, w.var, w.funcName, w.how)) = [] ∧
    ParserFacts.goStmts.map (fun g => (g.pkg, g.funcName)) = [] ∧
    ParserFacts.watchedImports.map (fun i => (i.file, i.path)) = [] := by decide +kernel

/-! ## the abstract theorem -/

section Sched
variable {γ σ : Type}

/-- a step of a call: reads the global component, transforms the call's own component -/
abbrev Step (γ σ : Type) := γ → σ → σ

/-- what a call computes on its own -/
def runAlone (g : γ) (steps : List (Step γ σ)) (x : σ) : σ := steps.foldl (fun x f => f g x) x

/-- configuration of the whole system: per call, the steps still to do and its component of the product state -/
structure Cfg (γ σ : Type) where
  rest : Nat → List (Step γ σ)
  comp : Nat → σ

def upd {α : Type} (f : Nat → α) (i : Nat) (a : α) : Nat → α := fun j => if j = i then a else f j

/-- schedule call `i` for one step -/
def stepCall (g : γ) (c : Cfg γ σ) (i : Nat) : Cfg γ σ :=
  match c.rest i with
  | [] => c
  | f :: fs => { rest := upd c.rest i fs, comp := upd c.comp i (f g (c.comp i)) }

/-- run an interleaving -/
def runSched (g : γ) (c : Cfg γ σ) (sch : List Nat) : Cfg γ σ := sch.foldl (stepCall g) c

theorem runAlone_cons (g : γ) (f : Step γ σ) (l : List (Step γ σ)) (x : σ) :
    runAlone g (f :: l) x = runAlone g l (f g x) := rfl

theorem stepCall_other (g : γ) (c : Cfg γ σ) {i j : Nat} (h : i ≠ j) :
    (stepCall g c j).rest i = c.rest i ∧ (stepCall g c j).comp i = c.comp i := by
  unfold stepCall
  split
  · exact ⟨rfl, rfl⟩
  · simp [upd, h]

/-- the invariant: after any schedule, call `i` has done exactly its first `count i` steps, on its own component,
    exactly as if it had run alone -/
theorem schedule_prefix (g : γ) (sch : List Nat) : ∀ (c : Cfg γ σ) (i : Nat),
    (runSched g c sch).comp i = runAlone g ((c.rest i).take (sch.count i)) (c.comp i) ∧
    (runSched g c sch).rest i = (c.rest i).drop (sch.count i) := by
  induction sch with
  | nil => intro c i; simp [runSched, runAlone]
  | cons j t ih =>
    intro c i
    have h := ih (stepCall g c j) i
    have hr : runSched g c (j :: t) = runSched g (stepCall g c j) t := rfl
    rw [hr, h.1, h.2]
    by_cases hij : j = i
    · subst hij
      rw [List.count_cons_self]
      unfold stepCall
      cases hc : c.rest j with
      | nil => simp [hc, runAlone]
      | cons f fs => simp [upd, runAlone_cons]
    · have ho := stepCall_other g c (i := i) (j := j) (fun h => hij h.symm)
      rw [List.count_cons_of_ne hij, ho.1, ho.2]
      exact ⟨rfl, rfl⟩

/-- a schedule is complete when every call gets at least as many turns as it has steps -/
def Complete (c : Cfg γ σ) (sch : List Nat) : Prop := ∀ i, (c.rest i).length ≤ sch.count i

/-- **schedule_independent.**  Under every complete interleaving every call ends with exactly the result it computes when
    run alone on its initial component, and has nothing left to do. -/
theorem schedule_independent (g : γ) (c : Cfg γ σ) (sch : List Nat) (hc : Complete c sch) (i : Nat) :
    (runSched g c sch).comp i = runAlone g (c.rest i) (c.comp i) ∧ (runSched g c sch).rest i = [] := by
  have h := schedule_prefix g sch c i
  rw [h.1, h.2, List.take_of_length_le (hc i), List.drop_of_length_le (hc i)]
  exact ⟨rfl, rfl⟩

/-- any two complete interleavings — in particular an arbitrary one and the sequential run of the calls in any order —
    give every call the same result -/
theorem schedules_agree (g : γ) (c : Cfg γ σ) (sch sch' : List Nat) (h : Complete c sch) (h' : Complete c sch') (i : Nat) :
    (runSched g c sch).comp i = (runSched g c sch').comp i := by
  rw [(schedule_independent g c sch h i).1, (schedule_independent g c sch' h' i).1]

/-- the sequential run: the calls of `order`, each to completion, one after the other -/
def sequential (c : Cfg γ σ) (order : List Nat) : List Nat :=
  order.flatMap fun i => List.replicate (c.rest i).length i

theorem count_sequential (c : Cfg γ σ) (order : List Nat) (i : Nat) (hi : i ∈ order) :
    (c.rest i).length ≤ (sequential c order).count i := by
  induction order with
  | nil => cases hi
  | cons j t ih =>
    simp only [sequential, List.flatMap_cons, List.count_append]
    by_cases hji : j = i
    · subst hji
      simp [List.count_replicate_self]
    · have : i ∈ t := by
        cases hi with
        | head => exact absurd rfl hji
        | tail _ h => exact h
      have := ih this
      simp only [sequential] at this
      omega

/-- sequential composition in any order that mentions every unfinished call is a complete schedule -/
theorem sequential_complete (c : Cfg γ σ) (order : List Nat) (h : ∀ i, c.rest i ≠ [] → i ∈ order) :
    Complete c (sequential c order) := by
  intro i
  by_cases hr : c.rest i = []
  · simp [hr]
  · exact count_sequential c order i (h i hr)

end Sched

end MF.Props.C18
