/-
  C11 — ParseStatements == ParseStatement on every raw statement of SplitRawStatements.

  The statement parser itself is NOT modelled.  What is proved is the composition argument around it, in two halves
  plus the bridge, for an abstract statement parser `P : List Token → PRes α × List Token`:

  PARSER HALF (`MF/Proofs/StmtList.lean`) — about the loop `parseStatements` of parser.go, transcribed as `stmtLoop`:
    `lists_compose`      for `Local P` (`;` and `<eof>` are interchangeable as statement terminator and nothing after
                         the terminator is looked at) and a token list ending in its only `<eof>`:
                         ParseStatements returns without error  iff  ParseStatement returns without error on every
                         non-empty `;`-free segment terminated by `<eof>`; then there is one statement per non-empty
                         segment and the i-th statement is that of the i-th segment.  Empty segments are skipped.
    `parseStatements_eq` the same as one equation between `Option (List α)` values.
    `segments_semi`, `segments_eof`, `segments_free`: what the segments of a list are.

  BRIDGE (`MF/Proofs/StmtList.lean`):
    `segments_pieces`    the non-empty segments of the token list of `buf` are, in order, the token contents of the
                         pieces of SplitRawStatements (`specPieces buf ts 0`, `C12.pieces_from_tokens`) that contain a
                         token.

  LEXER HALF (`MF/Proofs/LexLocal*.lean`, `MF/Proofs/LexPieces.lean`) — LOCALITY OF LEXING:
    `pieces_lex`         every piece `x`, shifted back to its offset by `x.pos` blanks, lexes from the initial state to
                         exactly the tokens of the whole input inside `[x.pos, x.end)` — same kind, raw, AsString,
                         base, Pos, End and comments (`tokCore`; only the white space in front of the first token
                         differs: it is the blanks) — followed by `<eof>` at `x.end`.
    `split_pieces_lex`   the same for the result of `split` (including the single empty piece of the empty input).
    `lex_prefix`         cutting the input at a `;` token leaves the tokens before it unchanged, token for token
                         (`Space` and comments included); the `;` becomes `<eof>`.

  END TO END:
    `compose`            for `Local P` that does not look at white space (`CoreInv P`):
                         `parseStatements P (tokens of buf)` = all-or-nothing of `ParseStatement` (lexer included) on
                         every token-containing raw statement, shifted back to its offset.

  Non-vacuity: `runParser` (a statement is the maximal run of tokens other than `;` and `<eof>`) is `Local` and
  `CoreInv`; the theorems are instantiated on `"a b; ; c;"`.
-/
import MF.Proofs.LexPieces
namespace MF.Props.C11
open MF MF.Lex MF.Split MF.Stmt

/-! ### parser half -/

theorem lists_compose {α : Type} {P : StmtParser α} (hP : Local P) {ts : List Token} (hts : WF ts)
    {e : Token} (he : e.kind = .eof) :
    ((parseStatements P ts).isSome = true ↔
        ∀ s ∈ stmtSegments ts, (parseStatement P (s ++ [e])).isSome = true) ∧
    (∀ vs, parseStatements P ts = some vs →
        vs.length = (stmtSegments ts).length ∧
        ∀ (i : Nat) s, (stmtSegments ts)[i]? = some s → (parseStatement P (s ++ [e])) = vs[i]?) :=
  Stmt.lists_compose hP hts he

theorem parseStatements_eq {α : Type} {P : StmtParser α} (hP : Local P) {ts : List Token} (hts : WF ts)
    {e : Token} (he : e.kind = .eof) :
    parseStatements P ts = optAll ((stmtSegments ts).map (fun s => parseStatement P (s ++ [e]))) :=
  Stmt.parseStatements_eq hP hts he

theorem segments_semi {a : List Token} (ha : Free a) {t : Token} (ht : t.kind = K ";") (rest : List Token) :
    segments (a ++ t :: rest) = a :: segments rest := Stmt.segments_semi ha ht rest

theorem segments_eof {a : List Token} (ha : Free a) {t : Token} (ht : t.kind = .eof) (rest : List Token) :
    segments (a ++ t :: rest) = [a] := Stmt.segments_eof ha ht rest

theorem segments_free (ts : List Token) : ∀ s ∈ segments ts, Free s := Stmt.segments_free ts

/-- the token list of an accepted input is well-formed -/
theorem lexAll_WF {buf : Bytes} {ts : List Token} (h : lexAll buf = .ok ts) : WF ts := Stmt.lexAll_WF h

/-! ### bridge -/

theorem segments_pieces {buf : Bytes} {ts : List Token} (h : lexAll buf = .ok ts) :
    stmtSegments ts = ((specPieces buf ts 0).map (tokensIn ts)).filter (fun s => !s.isEmpty) :=
  Stmt.segments_pieces h

/-! ### lexer half -/

theorem pieces_lex {buf : Bytes} {ts : List Token} (h : lexAll buf = .ok ts) :
    ∀ x ∈ specPieces buf ts 0,
      ∃ ts' t, lexAll (List.replicate x.pos 32 ++ x.statement) = .ok ts' ∧
        t ∈ ts ∧ t.pos = x.end ∧ (t.kind = K ";" ∨ t.kind = .eof) ∧
        ts'.map tokCore = (tokensIn ts x).map tokCore ++ [tokCore (eofOf t x.end)] :=
  Stmt.pieces_lex h

theorem split_pieces_lex {buf : Bytes} {ts : List Token} {ps : List Piece} (h : lexAll buf = .ok ts)
    (hs : split buf = .ok ps) : ∀ x ∈ ps, PieceLex ts x := Stmt.split_pieces_lex h hs

theorem lex_prefix {buf : Bytes} {seg : List Token} {t : Token} {more : List Token}
    (h : lexAll buf = .ok (seg ++ t :: more)) (hk : t.kind = K ";") :
    lexAll (buf.take t.pos) = .ok (seg ++ [eofOf t t.pos]) := lexAll_take_semi h hk

/-! ### end to end -/

theorem compose {α : Type} {P : StmtParser α} (hP : Local P) (hI : CoreInv P) {buf : Bytes} {ts : List Token}
    (h : lexAll buf = .ok ts) :
    parseStatements P ts =
      optAll (((specPieces buf ts 0).filter (fun x => !(tokensIn ts x).isEmpty)).map (parsePiece P)) :=
  c11_compose hP hI h

/-! ### non-vacuity: a concrete statement parser -/

def isBody (t : Token) : Bool := !(t.kind == K ";") && !(t.kind == .eof)

/-- "a statement is the maximal run of tokens other than `;` and `<eof>`"; its value is the list of raw texts -/
def runParser : StmtParser (List Bytes) := fun ts =>
  ({ val := (ts.takeWhile isBody).map (·.raw), err := false }, ts.dropWhile isBody)

theorem isBody_free {a : List Token} (ha : Free a) : ∀ t ∈ a, isBody t = true := by
  intro t ht
  have := ha t ht
  simp [isBody, this.1, this.2]

theorem isBody_term {t : Token} {rest : List Token} (h : Term t rest) : isBody t = false := by
  rcases h with h | ⟨h, _⟩ <;> simp [isBody, h]

theorem takeWhile_free {a : List Token} (ha : Free a) {t : Token} {rest : List Token} (ht : Term t rest) :
    (a ++ t :: rest).takeWhile isBody = a ∧ (a ++ t :: rest).dropWhile isBody = t :: rest := by
  induction a with
  | nil => simp [isBody_term ht]
  | cons x a ih =>
    have hx := isBody_free ha x List.mem_cons_self
    have := ih (fun t ht => ha t (List.mem_cons_of_mem _ ht))
    simp [hx, this.1, this.2]

theorem runParser_local : Local runParser := by
  apply LocalStrict.local
  intro a _ ha
  refine ⟨{ val := a.map (·.raw), err := false }, [], ⟨a, by simp⟩, ?_⟩
  intro t rest ht
  obtain ⟨h1, h2⟩ := takeWhile_free ha ht
  simp [runParser, h1, h2]

theorem isBody_core {a b : Token} (h : tokCore a = tokCore b) : isBody a = isBody b := by
  have : a.kind = b.kind := congrArg (·.1) h
  simp [isBody, this]

theorem runParser_coreInv : CoreInv runParser := by
  intro l1
  induction l1 with
  | nil =>
    intro l2 h
    cases l2 with
    | nil => exact ⟨rfl, rfl⟩
    | cons b l2 => simp at h
  | cons a l1 ih =>
    intro l2 h
    cases l2 with
    | nil => simp at h
    | cons b l2 =>
      simp only [List.map_cons, List.cons.injEq] at h
      obtain ⟨hab, hl⟩ := h
      have hb := isBody_core hab
      have hraw : a.raw = b.raw := congrArg (·.2.1) hab
      obtain ⟨i1, i2⟩ := ih l2 hl
      simp only [runParser, PRes.mk.injEq, and_true] at i1 i2 ⊢
      cases hba : isBody a with
      | true =>
        rw [hba] at hb
        simp only [List.takeWhile, List.dropWhile, hba, ← hb, List.map_cons, hraw, i1, i2, and_self]
      | false =>
        rw [hba] at hb
        simp only [List.takeWhile, List.dropWhile, hba, ← hb, List.map_nil, List.map_cons, hab, hl, and_self]

/-- the tokens of `"a b; ; c;"` -/
def exTokens : List Token :=
  match lexAll (B "a b; ; c;") with
  | .ok ts => ts
  | _ => []

theorem exTokens_lex : lexAll (B "a b; ; c;") = .ok exTokens := by rfl

/-- two statements: the empty one between the two `;` and the empty tail after the last `;` are skipped -/
example : (stmtSegments exTokens).map (·.map (·.raw)) = [[B "a", B "b"], [B "c"]] := by decide

example : parseStatements runParser exTokens = some [[B "a", B "b"], [B "c"]] := by decide

/-- four raw statements, two of them contain a token -/
example : (specPieces (B "a b; ; c;") exTokens 0).map (fun x => (x.pos, x.end)) = [(0, 3), (5, 5), (7, 8)] := by
  decide

example : ((specPieces (B "a b; ; c;") exTokens 0).filter (fun x => !(tokensIn exTokens x).isEmpty)).map
    (parsePiece runParser) = [some [B "a", B "b"], some [B "c"]] := by decide

/-- `lists_compose` and `compose` on this input -/
theorem example_lists_compose (e : Token) (he : e.kind = .eof) :
    parseStatements runParser exTokens =
      optAll ((stmtSegments exTokens).map (fun s => parseStatement runParser (s ++ [e]))) :=
  parseStatements_eq runParser_local (lexAll_WF exTokens_lex) he

theorem example_compose :
    parseStatements runParser exTokens =
      optAll (((specPieces (B "a b; ; c;") exTokens 0).filter (fun x => !(tokensIn exTokens x).isEmpty)).map
        (parsePiece runParser)) :=
  compose runParser_local runParser_coreInv exTokens_lex

/-- a parser that looks past the terminator is not `Local`: "one statement is everything up to `<eof>`" -/
def greedy : StmtParser Nat := fun ts =>
  ({ val := (ts.takeWhile (fun t => !(t.kind == .eof))).length, err := false },
   ts.dropWhile (fun t => !(t.kind == .eof)))

example : parseStatements greedy exTokens ≠ some [2, 1] := by decide

end MF.Props.C11
