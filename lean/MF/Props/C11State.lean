/-
  C11 / C18 — the state a Parser carries from one statement of a list to the next.

  `MF.Gen.ParserState` is regenerated from the non-test files of package memefish on every run
  (tools/extract/parserstate.go): the fields declared in `type Parser struct` and every place where one of them is
  assigned, incremented, has its address taken or receives a method call.

  `parser_state`: besides the embedded lexer (whose position is the one piece of state a list entry point is meant to
  carry forward, and which the lookahead functions and `handleError` only ever RESTORE to an earlier clone) the only
  own field of a Parser that is ever written is `errors` — and the C09 facts pin every such write to
  `x.errors = append(x.errors, e)`.  So a statement of a list cannot leave anything behind for the next one except
  the lexer position and recorded errors: the structural half of "ParseStatements = ParseStatement per raw statement"
  (the other half, that each production reads nothing behind the terminator, is `MF.Props.C11.eof_sites` and the
  abstract `lists_compose`).  A counter, flag or cache added to the Parser and updated while parsing makes this
  obligation fail, whatever input would be needed to make it misbehave.
-/
import MF.Gen.ParserState
namespace MF.Props.C11
open MF.Gen.ParserState

/-- the own fields of `Parser` that the code ever writes (with the kind of write), duplicates removed -/
def writtenFields : List (String × UseKind) := (parserFieldUses.map (fun u => (u.field, u.kind))).eraseDups

theorem parser_state :
    parserFieldUses.all (fun u => (u.field == "errors" || u.field == "Lexer") && u.kind == .assign) = true := by
  decide +kernel

/-- non-vacuity: the table is not empty and does contain writes of both fields -/
theorem parser_state_nonvacuous :
    parserFieldUses.any (fun u => u.field == "errors") = true ∧ parserFieldUses.any (fun u => u.field == "Lexer") = true ∧
    parserFields.any (fun f => f.name == "errors") = true := by
  decide +kernel

end MF.Props.C11
