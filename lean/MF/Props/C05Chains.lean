/-
  C05 / C06, obligation O3 `chains_complete` — whole grammar, static, decided by the kernel on tables REGENERATED from the
  Go sources on every run.  A consistency condition between two documents, nothing deeper:

  `Gen.SqlGo`   (tools/extract/sqlgo.go)  the body of every `SQL()` method of ast/sql.go in the DSL of MF/Model/Print.lean;
                a body that is one concatenation lists the items of the node in SOURCE ORDER (it is the layout)
  `Gen.PosDoc`  (tools/extract/pos.go)    the documented `// pos =` / `// end =` expressions

  The relation (`MF.PosChain.verdict`, MF/Model/PosChain.lean — read its header for the exact rules): `end` names, in this
  order, every TRAILING item of the template that may be absent (`sqlOpt` child ↦ `F.end` in the `??` chain, `sqlJoin` list
  ↦ `Fs[$].end`, `strOpt` text ↦ `G + n` with n the byte length of the LAST TOKEN of the text as the lexer model reads it,
  and G the very field the condition `!x.G.Invalid()` tests), from the right, and stops with the last item that is always
  there (a child ↦ `F.end`, a literal ↦ `G + n` again with the lexed length of its last token: `")"` ↦ 1, `"FOR UPDATE"`
  ↦ 6, `".*"` ↦ 1).  `pos` is the mirror image from the left.

   * `chains_complete`  every kind either fits or is one of `chainsExempt` (each with its reason).
   * `chains_static`    the kernel-decided form: the list of (kind, verdict) that do not fit IS the table — a row of the
                        table that fits now fails the check too (no rot), and so does a row whose verdict changed.
  A failing build is preceded by an `#eval` that names the kinds and verdicts in the log.

  Catches (scratch-repo experiments, doc/reports/TASK_V_REPORT.md): two alternatives of `Query`'s end chain swapped;
  `PathTableExpr` preferring `Hint` to `As`; a chain that lost its last alternative; an optional clause added to a `SQL()`
  body without the `end` chain; `Rparen + 2`.  Does not catch: a wrong FIELD of the right shape where the template does not
  name the field (a literal ↦ any `G + n` with the right n) — that is O2's side (`offsets_match` ties G to its token).
-/
import MF.Proofs.PosChain
import MF.Gen.SqlGo
import MF.Gen.PosDoc
namespace MF.Props.C05
open MF MF.Ast MF.PosChain MF.Gen

/-- the kinds outside the simple shape, with what the pass says about them and why that is accepted -/
def chainsExempt : List (String × Verdict × String) := [
  ("BadNode", .noTemplate, "SQL() is a loop over the skipped tokens (hand-written semantics in MF/Model/Print.lean); pos/end are the stored NodePos/NodeEnd, PROVED for the four handlers (C10.bad_tokens_exact)"),
  ("Unnest", .endMismatch, "end = (Sample ?? WithOffset ?? As ?? Hint).end || Rparen + 1 || Expr.end: complete and in order up to the always-present `)`; the further alternative `Expr.end` is dead (Rparen is set by `p.expect(\")\")` at the only site: offsets_match), harmless"),
  ("UnaryExpr", .noTemplate, "SQL() binds a local (`e := paren(p, x.Expr)`, a blank inserted after NOT / before a negative operand); covered by the PROVED expression fragment (C05.expr_positions, bridge C19.pos_bridge_expr)"),
  ("SelectorExpr", .noTemplate, "SQL() binds locals (blank after an integer literal); covered by the PROVED expression fragment"),
  ("ArrayLiteral", .posMismatch, "pos = Array || Lbrack.  The template has the optional `<Type>` between ARRAY and `[`; that Type is present only when ARRAY is cannot be read off the two documents (parser fact: parseArrayLiteralOrSubQuery)"),
  ("TypelessStructLiteral", .posMismatch, "pos = Struct.  SQL() prints STRUCT under `!x.Struct.Invalid()` (defensively); the only site passes the position of the STRUCT keyword (`.tok [sym STRUCT]`, Gen.PosProv), so the keyword is always there"),
  ("BracedConstructorField", .noTemplate, "SQL() is an if over the dynamic type of Value (hand-written semantics); pos/end are Name.pos / Value.end"),
  ("OptionsDef", .noTemplate, "SQL() is a type switch over Value (hand-written semantics); pos/end are Name.pos / Value.end"),
  ("AlterSequence", .endMismatch, "end = (NoSkipRange ?? SkipRange ?? RestartCounterWith ?? Options).end: complete and in order, but no always-present item closes it — the parser rejects ALTER SEQUENCE without a clause (fix 196691b, known-findings.txt), which the two documents cannot know"),
  ("SetNoSkipRange", .endMismatch, "SQL() is the literal `SET NO SKIP RANGE`; end is delegated to the marker child NoSkipRange, which SQL() never reads (C01.gen_unread lists it)"),
  ("ChangeStreamForTables", .noTemplate, "SQL() is a loop over Tables (hand-written semantics); pos = For, end = Tables[$].end"),
  ("DefaultExpr", .noTemplate, "SQL() returns early on x.Default (`if x.Default { return \"DEFAULT\" }`); pos/end choose between DefaultPos (+7) and Expr accordingly")]

def misfits : Option (List (String × Verdict)) := misfitsZip Gen.sqlGo Gen.posDoc

/-! ### diagnostics (interpreter, to name the rows in the build log) -/

#eval show IO Unit from do
  match misfits with
  | none => throw (IO.userError "O3 chains_complete: Gen.SqlGo and Gen.PosDoc do not list the same kinds in the same order")
  | some M =>
    let listed := chainsExempt.map fun e => (e.1, e.2.1)
    let bad := M.filter (fun m => !listed.contains m)
    unless bad.isEmpty do
      throw (IO.userError ("O3 chains_complete FAILS: the documented pos/end chain does not match the SQL() template for: " ++
        "; ".intercalate (bad.map fun m => m.1 ++ " (" ++ (toString (repr m.2)).replace "MF.PosChain.Verdict." "" ++ ")")))
    let stale := listed.filter (fun e => !M.contains e)
    unless stale.isEmpty do
      throw (IO.userError ("O3 chains_complete: exempt rows that fit now or changed verdict (update chainsExempt): " ++
        "; ".intercalate (stale.map fun m => m.1 ++ " (" ++ (toString (repr m.2)).replace "MF.PosChain.Verdict." "" ++ ")")))

/-! ### the obligation -/

set_option maxRecDepth 100000 in
/-- the kinds that do not fit are exactly the exempt ones, with the recorded verdicts, in catalogue order -/
theorem chains_static : misfits = some (chainsExempt.map fun e => (e.1, e.2.1)) := by decide +kernel

/-- **O3 `chains_complete`.**  Row by row: the `SQL()` template and the documented `pos` / `end` of every kind agree
    (`verdict = .ok`: pos names the leading optional items in order up to the first always-present one, end the trailing
    optional items in reverse order down to the last always-present one), except for the exempt kinds. -/
theorem chains_complete {b : String × SqlBody} {d : String × PosE × PosE} (hbd : (b, d) ∈ Gen.sqlGo.zip Gen.posDoc) :
    b.1 = d.1 ∧ (verdict b.2 d.2.1 d.2.2 = .ok ∨ d.1 ∈ chainsExempt.map (·.1)) := by
  obtain ⟨h1, h2⟩ := misfitsZip_sound (by simpa [misfits] using chains_static) hbd
  refine ⟨h1, ?_⟩
  rcases h2 with h2 | h2
  · exact .inl h2
  · refine .inr ?_
    obtain ⟨e, he, heq⟩ := List.mem_map.mp h2
    exact List.mem_map.mpr ⟨e, he, congrArg Prod.fst heq⟩

/-! ### non-vacuity: the relation on `Query`, as documented and with two classic slips -/

def queryBody : SqlBody :=
  .ret (.cat (.cat (.cat (.cat (.cat (.cat (.sqlOpt (.lit "") "With" (.lit " ")) (.child "Query")) (.sqlOpt (.lit " ") "OrderBy" (.lit "")))
    (.sqlOpt (.lit " ") "Limit" (.lit ""))) (.sqlOpt (.lit " ") "ForUpdate" (.lit ""))) (.strOpt (.lenPos "PipeOperators") (.lit " ")))
    (.sqlJoin "PipeOperators" (.lit " ")))
def queryPos : PosE := ⟨[⟨.nodePos ⟨[.var "With", .var "Query"], true⟩, []⟩]⟩
def queryEnd (chain : List NodeE) : PosE := ⟨[⟨.nodeEnd ⟨chain, true⟩, []⟩]⟩

example : verdict queryBody queryPos (queryEnd [.last "PipeOperators", .var "ForUpdate", .var "Limit", .var "OrderBy", .var "Query"]) = .ok := by
  decide +kernel
/-- Limit before ForUpdate -/
example : verdict queryBody queryPos (queryEnd [.last "PipeOperators", .var "Limit", .var "ForUpdate", .var "OrderBy", .var "Query"]) = .endMismatch := by
  decide +kernel
/-- the last alternative dropped -/
example : verdict queryBody queryPos (queryEnd [.last "PipeOperators", .var "ForUpdate", .var "Limit", .var "OrderBy"]) = .endMismatch := by
  decide +kernel
/-- a trailing optional clause forgotten -/
example : verdict queryBody queryPos (queryEnd [.last "PipeOperators", .var "Limit", .var "OrderBy", .var "Query"]) = .endMismatch := by
  decide +kernel
/-- `ForUpdate`: the literal's last token is 6 bytes -/
example : verdict (.ret (.lit "FOR UPDATE")) ⟨[⟨.var "For", []⟩]⟩ ⟨[⟨.var "Update", [.lit 6]⟩]⟩ = .ok := by decide +kernel
example : verdict (.ret (.lit "FOR UPDATE")) ⟨[⟨.var "For", []⟩]⟩ ⟨[⟨.var "Update", [.lit 5]⟩]⟩ = .endMismatch := by decide +kernel

end MF.Props.C05
