/-
  MF.Props.C07Ladder — C07 (operator precedence and associativity), the REGENERATED half of the tie between parser.go
  and the GoogleSQL table.

  `MF/Props/C07.lean` proves soundness, completeness and uniqueness of the hand-written model of `parseExpr … parseLit`
  against the table, and the EXPR channel compares that model with the code on generated inputs.  This file adds a tie
  that does not depend on a generator: `tools/extract/ladder.go` reads the ten ladder functions `parseOr … parseUnary`
  of parser.go on EVERY run into data (`MF.Gen.ladder`: shape, operand callee, right-operand callee, token cases with
  the `ast.Op…` constant each assigns, special cases with the node kinds they build and the functions they call), and
  the kernel re-decides on that data that

    * `ladder_recognised`, `ladder_chain`   every function has one of the three rigid shapes and the descent is
                                            parseExpr → parseOr → parseAnd → … → parseUnary → parseSelector;
    * `ladder_eq_spec`                      the finite map (node kind, Op value) ↦ level that the ladder implements
                                            (level = position in the descent) IS the GoogleSQL table
                                            `MF.Spec.PrecTable.operators` for levels 2 … 12: same rows, functional;
    * `ladder_assoc`                        per level the shape implements the table's associativity: loops whose right
                                            operand is parsed one level down (left-associative), a single optional
                                            application with both operands one level down for the comparison family
                                            (non-associative), self-recursion for the prefix operators;
    * `ladder_tokens`, `ladder_disjoint`    each case dispatches on the spelling of the operator it assigns (`<>` for
                                            `!=`, `NOT` + `LIKE` for `NOT LIKE`) and no token is dispatched twice.

  Consequences stated for the model's operator type: `ladder_level_of_bop` / `ladder_level_of_uop` — the function of
  parser.go that consumes an operator sits at exactly the level `BOp.level` / `UOp.level` the proofs of C07 use.

  What is a theorem: the conditions hold of the regenerated data (kernel evaluation, re-run whenever parser.go changes).
  What is an extracted fact: that the data describe parser.go (a syntactic reader of ten functions of rigid shape; a
  function that does not fit is emitted as `unrecognised…` and `ladder_recognised` fails).  Not covered here: the sign
  folding of `parseUnary`, `parseSelector`, `parseLit` (model + EXPR channel).
-/
import MF.Model.Ladder
import MF.Gen.Ladder
import MF.Gen.SqlGo
import MF.Proofs.PrecTable
namespace MF.Props.C07
open MF.Ladder MF.Spec.PrecTable MF.Expr

theorem ladder_recognised : recognised Gen.ladder = true := by decide +kernel

theorem ladder_chain : chainOK Gen.ladderEntry Gen.ladder = true := by decide +kernel

theorem ladder_sameMap : sameMap (ladderRows Gen.enumConsts Gen.ladder) specRows = true := by decide +kernel

/-- the ladder of parser.go and the GoogleSQL table (levels 2 … 12) are the same finite map (kind, Op) ↦ level -/
theorem ladder_eq_spec :
    (∀ r, r ∈ ladderRows Gen.enumConsts Gen.ladder ↔ r ∈ specRows) ∧
    (∀ kind op, level? (ladderRows Gen.enumConsts Gen.ladder) kind op = level? specRows kind op) :=
  ⟨sameMap_mem ladder_sameMap, sameMap_level? ladder_sameMap⟩

theorem ladder_assoc : ladderAssoc Gen.ladder = specAssoc := by decide +kernel

theorem ladder_tokens : tokensOK Gen.enumConsts Gen.ladder = true := by decide +kernel

theorem ladder_disjoint : casesDisjoint Gen.ladder = true := by decide +kernel

theorem ladder_static : ladderOK Gen.enumConsts Gen.ladderEntry Gen.ladder = true := by
  simp only [ladderOK, ladder_recognised, ladder_chain, ladder_sameMap, ladder_tokens, ladder_disjoint, ladder_assoc,
    Bool.and_self, beq_self_eq_true]

/-- the spelling of a model operator -/
def bopVal : BOp → String
  | .mul => "*" | .div => "/" | .concat => "||" | .add => "+" | .sub => "-"
  | .shl => "<<" | .shr => ">>" | .bitAnd => "&" | .bitXor => "^" | .bitOr => "|"
  | .eq => "=" | .ne => "!=" | .lt => "<" | .le => "<=" | .gt => ">" | .ge => ">="
  | .like => "LIKE" | .notLike => "NOT LIKE" | .and => "AND" | .or => "OR"

def uopVal : UOp → String
  | .plus => "+" | .minus => "-" | .bitNot => "~" | .not => "NOT"

theorem bopVal_str (op : BOp) : B (bopVal op) = op.str := by cases op <;> decide

theorem uopVal_str (op : UOp) : B (uopVal op) = op.str := by cases op <;> decide

/-- the function of parser.go that consumes a binary operator sits at the level the proofs of C07 use -/
theorem ladder_level_of_bop (op : BOp) :
    level? (ladderRows Gen.enumConsts Gen.ladder) "BinaryExpr" (some (bopVal op)) = some op.level := by
  rw [ladder_eq_spec.2]; cases op <;> decide +kernel

theorem ladder_level_of_uop (op : UOp) :
    level? (ladderRows Gen.enumConsts Gen.ladder) "UnaryExpr" (some (uopVal op)) = some op.level := by
  rw [ladder_eq_spec.2]; cases op <;> decide +kernel

/-- the comparison family's special forms are built at level 9 -/
theorem ladder_level_of_special :
    ["InExpr", "BetweenExpr", "IsNullExpr", "IsBoolExpr"].map (fun k => level? (ladderRows Gen.enumConsts Gen.ladder) k none) =
      [some 9, some 9, some 9, some 9] := by
  simp only [List.map, ladder_eq_spec.2]; decide +kernel

/-! ### non-vacuity: the regenerated ladder is the eleven functions, and a moved operator is noticed -/

example : Gen.ladder.map (·.name) =
    ["parseOr", "parseAnd", "parseNot", "parseComparison", "parseBitOr", "parseBitXor", "parseBitAnd", "parseBitShift",
     "parseAddSub", "parseMulDiv", "parseUnary"] := by decide +kernel

/-- `||` handled by parseAddSub instead of parseMulDiv (as in zetasql.y) is not the table -/
example :
    let moved : List LFn := Gen.ladder.map (fun f =>
      if f.name == "parseMulDiv" then { f with cases := f.cases.filter (fun c => c.op != "OpConcat") }
      else if f.name == "parseAddSub" then { f with cases := f.cases ++ [⟨["||"], "OpConcat", [], [], []⟩] }
      else f)
    sameMap (ladderRows Gen.enumConsts moved) specRows = false := by decide +kernel

end MF.Props.C07
