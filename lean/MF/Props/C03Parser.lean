/-
  C03, obligation 2 — no `*Error` panic escapes a parsing entry point (structural, whole grammar).

  `Gen/ParserFacts.lean` is regenerated from parser.go, parse_helpers.go, lexer.go, split.go on every run
  (tools/extract/parserfacts.go, purely syntactic).  `prog` is its reading as a program of the recovery calculus
  (`MF/Model/Recovery.lean`): every function body becomes "any sequence of the calls / raises / lexer steps / error
  appends / Bad literals it mentions", protected functions (top-level `defer func(){ if r := recover(); r != nil {…} }()`)
  keep the code in front of the `defer`, the body and the handler apart, handler code keeps its statement structure.
  `Lexer.nextToken` is a primitive of the machine: in panic mode it may raise, in recovery mode it never does
  (`MF.Props.C03.recovery_lexer_total`, proved on the byte-level model).

  What is checked by the kernel on the regenerated table (and what a failing table looks like):
   * `facts_clean`        the extractor understood everything it must: no call with an unknown receiver that could be an
                          in-package method, no unresolved in-package call, no `recover()` outside the recognised shape,
                          the remaining `defer`s do nothing but restore the lexer, function values occur only as direct
                          arguments of `parseStatements`/`parseCommaSeparatedList`, whose parameter is only called.
                          FAILS e.g. when a function stores `p.parseExpr` in a variable, or recovers in a nested closure.
   * `entry_points`       the entry points by role; every helper of parse_helpers.go delegates to one of the methods.
   * `protected_functions` every protected function passes the recovered value to one `handle…Error`.
   * (today's entry points and protected functions by name: `MF/Props/ParserFactsToday.lean`, a record, not an obligation)
   * `no_escape_static`   `unprotectedReach prog (entries ++ helpers) = []`.  FAILS when some function that panics in
                          unprotected code becomes reachable from an entry point without a protected function in
                          between: `defer/recover` removed from `parseType` (then `Parser.ParseType → Parser.parseType` is
                          unprotected and the list contains `parseType`, `expect`, `nextToken`, …), an entry point calling
                          `p.nextToken()` directly (the list contains `Parser.nextToken`), a handler calling `p.expect`.
   * `no_escape`          the theorem about all executions, instantiated.
-/
import MF.Proofs.Recovery
import MF.Gen.ParserFacts
namespace MF.Props.C03
open MF MF.Recovery MF.Facts MF.Gen

/-- the regenerated call graph as a program of the calculus -/
def prog : Prog := toProg ParserFacts.funcs

/-- entry points: the nine `Parser.Parse…` methods and the nine package-level helpers of parse_helpers.go, and the
    functions the entry points' bodies call statement by statement (`entryShapes`) -/
def roots : List Nat :=
  ParserFacts.entryIds ++ ParserFacts.helperIds ++ ParserFacts.entryShapes.flatMap (fun e => e.shape.flatMap EntryStmt.calls)

set_option maxRecDepth 100000 in
theorem facts_clean :
    ParserFacts.ambiguous = [] ∧ ParserFacts.unresolved = [] ∧ hygiene ParserFacts.funcs = true ∧
    ParserFacts.funcValueUses.all (fun u => u.paramOnlyCalled && u.argOf != "") = true := by decide +kernel

/-- the entry points are the exported `Parser.Parse…` methods and the exported `Parse…` functions of parse_helpers.go
    (by role, not by a pinned list); each helper is `return newParser(filepath, s).ParseX()` for one of the methods -/
theorem entry_points :
    (ParserFacts.funcs.filter (·.role == .entry)).map (·.id) = ParserFacts.entryIds ∧
    (ParserFacts.funcs.filter (·.role == .helperEntry)).map (·.id) = ParserFacts.helperIds ∧
    ParserFacts.helperShapes.map (·.id) = ParserFacts.helperIds ∧
    ParserFacts.helperShapes.all (fun h => match h.delegate with | some m => ParserFacts.entryIds.contains m | none => false) = true ∧
    ParserFacts.entryIds ≠ [] := by decide +kernel

/-- every protected function of parser.go hands the recovered value to exactly one of the error handlers -/
theorem protected_functions :
    (ParserFacts.funcs.filter (fun f => f.protected && f.file == "parser.go")).all (fun f => f.handlerFn != "") = true := by
  decide +kernel

/-- the handlers and the code in front of a `defer` never raise themselves and never run the lexer in panic mode -/
theorem handlers_quiet :
    ParserFacts.funcs.all (fun f =>
      (f.role != .handler || (!f.body.raises && !f.body.lexPanic)) &&
      (!f.protected || (!f.pre.raises && !f.pre.lexPanic &&
        ((f.handler.map fun h => !h.raises && !h.lexPanic).getD true)))) = true := by decide +kernel

set_option maxRecDepth 1000000 in
/-- the static condition, decided on the regenerated graph -/
theorem no_escape_static : unprotectedReach prog roots = [] := by decide +kernel

/-- **C03 (parser, structural).**  No execution of the abstract machine started by calling an entry point ends in an
    escaping raise. -/
theorem no_escape {e : Nat} (he : e ∈ roots) {s : State} {o : Out} {s' : State} (h : Exec prog (.call e) s o s') :
    o = .norm :=
  Recovery.no_escape no_escape_static he h

/-- (c) every entry point has the recognised shape -/
theorem entry_shapes_static :
    ParserFacts.entryShapes.all (fun e => wellShaped e.shape && namesOK e.shape) = true ∧
    ParserFacts.entryShapes.map (·.id) = ParserFacts.entryIds := by decide +kernel

theorem shape_calls_in_roots {e : EntryShape} (he : e ∈ ParserFacts.entryShapes) :
    ∀ f ∈ e.shape.flatMap EntryStmt.calls, f ∈ roots := by
  intro f hf
  unfold roots
  exact List.mem_append_right _ (List.mem_flatMap.mpr ⟨e, he, hf⟩)

/-- the same for the statement-level reading of the entry points (`entryShapes`, fact (c)) -/
theorem entry_no_escape {e : EntryShape} (he : e ∈ ParserFacts.entryShapes) {s : State} {r : EntryRes} {s' : State}
    (h : EntryExec prog e.shape s r s') : r ≠ .escaped :=
  Recovery.entry_no_escape no_escape_static (shape_calls_in_roots he) h

end MF.Props.C03
