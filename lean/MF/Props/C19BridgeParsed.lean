/-
  C19 (bridge, for accepted inputs) — the precondition `WFBridge` / `WFBridgeT` of MF/Props/C19Bridge.lean holds for every
  tree the model parsers build from the model lexer's tokens; hence, for every input the models accept, the generic
  interpreters on the REGENERATED tables, applied to the generic tree of the parsed value, return exactly what the
  hand-written printers and position formulas return:

   `sql_bridge_parsed`, `pos_bridge_parsed`             `ParseExpr` (positioned fragment model `parsePTop`)
   `sql_bridge_parsed_type`, `pos_bridge_parsed_type`   `ParseType` (`parseTypeTop`)

  (This file depends on the parser models and their soundness theorems; the bridge proper does not.)
-/
import MF.Props.C19Bridge
import MF.Proofs.BridgeParsed
namespace MF.Props.C19
open MF MF.Ast MF.Bridge

theorem parsed_wfBridge {buf : Bytes} {ts : List Token} {fuel : Nat} {e : Expr.PExpr} (h1 : Lex.lexAll buf = .ok ts)
    (h2 : Expr.parsePTop fuel ts = .ok e) : WFBridge e := Bridge.parsed_wfBridge h1 h2

theorem parsed_wfBridgeT {buf : Bytes} {ts : List Token} {fuel : Nat} {t : TypeP.Ty} (h1 : Lex.lexAll buf = .ok ts)
    (h2 : TypeP.parseTypeTop fuel ts = .ok t) : WFBridgeT t := Bridge.parsed_wfBridgeT h1 h2

theorem sql_bridge_parsed {buf : Bytes} {ts : List Token} {fuel : Nat} {e : Expr.PExpr} (h1 : Lex.lexAll buf = .ok ts)
    (h2 : Expr.parsePTop fuel ts = .ok e) :
    sqlOf Gen.sqlTables Expr.asciiPrint (toNodeP e) = some (Expr.sqlE (Expr.erase e)) :=
  sql_bridge_expr e (Bridge.parsed_wfBridge h1 h2)

theorem pos_bridge_parsed {buf : Bytes} {ts : List Token} {fuel : Nat} {e : Expr.PExpr} (h1 : Lex.lexAll buf = .ok ts)
    (h2 : Expr.parsePTop fuel ts = .ok e) :
    goPosEnd Bridge.posTables (toNodeP e) = some ((Expr.posP e : Int), (Expr.endP e : Int)) ∧
    docPosEnd Bridge.posTables (toNodeP e) = some ((Expr.posP e : Int), (Expr.endP e : Int)) :=
  ⟨pos_bridge_expr e (Bridge.parsed_wfBridge h1 h2), pos_doc_bridge_expr e (Bridge.parsed_wfBridge h1 h2)⟩

theorem sql_bridge_parsed_type {buf : Bytes} {ts : List Token} {fuel : Nat} {t : TypeP.Ty}
    (h1 : Lex.lexAll buf = .ok ts) (h2 : TypeP.parseTypeTop fuel ts = .ok t) :
    sqlOf Gen.sqlTables TypeP.asciiPrint (toNodeT t) = some (TypeP.sqlT t) :=
  sql_bridge_type t (Bridge.parsed_wfBridgeT h1 h2)

theorem pos_bridge_parsed_type {buf : Bytes} {ts : List Token} {fuel : Nat} {t : TypeP.Ty}
    (h1 : Lex.lexAll buf = .ok ts) (h2 : TypeP.parseTypeTop fuel ts = .ok t) :
    goPosEnd Bridge.posTables (toNodeT t) = some ((TypeP.posT t : Int), (TypeP.endT t : Int)) ∧
    docPosEnd Bridge.posTables (toNodeT t) = some ((TypeP.posT t : Int), (TypeP.endT t : Int)) :=
  ⟨pos_bridge_type t (Bridge.parsed_wfBridgeT h1 h2), pos_doc_bridge_type t (Bridge.parsed_wfBridgeT h1 h2)⟩

end MF.Props.C19
