/-
  C01 (round trip) and C02 (lossless unparse) for the `ParseType` entry point — FULL (lexer + parser model).

  `sqlT` is the model of the `SQL()` methods of the type nodes (ast/sql.go); `eraseT t` is `t` without its position
  values ("equal up to positions").  `Reads ys toks` (MF/Spec/TypeReads.lean): the tokens are, one by one, what the
  descriptions `ys` say, positions aside — same token class, identifier NAMES exactly (unquoted: the quoting style is
  invisible), simple type names up to letter case; trivia is not part of a token; `>>` / `<>` are expanded, so `>>` vs
  `> >` and `<>` vs `< >` are invisible.  These are exactly the documented canonicalisations that apply to types
  (there is no trailing comma in a type, memefish rejects it).

  `type_roundtrip`: for every accepted input, `parseTypeTop (lexAll (sqlT t))` succeeds with the same tree up to
  positions, and `sqlT` of it is the same text (so `SQL()` is a fixed point of parse-print).
  `type_lossless`: the tokens the parser consumed and the tokens of `sqlT t` read as the SAME description list `yieldT t`.
  `type_roundtrip_tree`: the same for ANY tree that is `wf` and has printable names (`namesOK`: identifier names
  non-empty, simple type names from the table) — hand-built trees included.

  Parser side: `type_roundtrip_tokens` (a token list that reads as the yield of `t` parses back to `t` up to positions).
  Lexer side: `rtOK_of_namesOK` (MF/Proofs/TypePrint.lean): the printed text is cut into pieces — keyword, simple type
  name, dotted path of `Ident.SQL()` names (unquoted or back-quoted, C15), `<`, `>`, `,`, blank — and a text made of
  pieces satisfying adjacency conditions is lexed piece by piece, the only tokens spanning two pieces being `<>` and
  `>>`, which the expansion undoes; `parse_namesOK`: the names of a parser-built tree are printable (an identifier
  token never has an empty name).  The flag `rt` of the TYPE channel evaluates the same statement with Go's lexer on
  Go's `SQL()` for every OK request.
-/
import MF.Proofs.TypeRound
import MF.Proofs.TypeNames
import MF.Props.C05Types
namespace MF.Props.C01
open MF MF.TypeP MF.TypeG

/-- C01, token level -/
theorem type_roundtrip_tokens {t : Ty} (hw : wf t = true) {ts2 : PState} (h : printLexB t ts2 = true) :
    ∃ t', parseTypeTop (topFuel ts2) ts2 = .ok t' ∧ eraseT t' = eraseT t ∧ sqlT t' = sqlT t :=
  roundtrip_tokens hw h

/-- the lexer side: the printed text of a tree with printable names lexes and reads as the yield of the tree -/
theorem print_lexes {t : Ty} (h : namesOK t = true) : rtOK t = true := rtOK_of_namesOK h

/-- the tree of an accepted input has printable names -/
theorem parsed_namesOK {buf : Bytes} {ts : List Token} {fuel : Nat} {t : Ty}
    (hl : Lex.lexAll buf = .ok ts) (hp : parseTypeTop fuel ts = .ok t) : namesOK t = true := parse_namesOK hl hp

/-- C01 for types with the lexer side as a hypothesis (kept: it is what the TYPE channel's flag `rt` evaluates) -/
theorem type_roundtrip_partial {buf : Bytes} {ts : List Token} {fuel : Nat} {t : Ty}
    (_hl : Lex.lexAll buf = .ok ts) (hp : parseTypeTop fuel ts = .ok t) (hrt : rtOK t = true) :
    ∃ ts2 t', Lex.lexAll (sqlT t) = .ok ts2 ∧ parseTypeTop (topFuel ts2) ts2 = .ok t' ∧
      eraseT t' = eraseT t ∧ sqlT t' = sqlT t := by
  obtain ⟨pre, rest, _, _, _, hw⟩ := parseTypeTop_sound hp
  unfold rtOK at hrt
  split at hrt
  · rename_i ts2 hl2
    obtain ⟨t', h1, h2, h3⟩ := roundtrip_tokens hw hrt
    exact ⟨ts2, t', hl2, h1, h2, h3⟩
  · cases hrt

/-- C01 for types (FULL): for every accepted input, `parseTypeTop (lexAll (sqlT t))` succeeds with the same tree up to
positions, and `sqlT` of it is the same text -/
theorem type_roundtrip {buf : Bytes} {ts : List Token} {fuel : Nat} {t : Ty}
    (hl : Lex.lexAll buf = .ok ts) (hp : parseTypeTop fuel ts = .ok t) :
    ∃ ts2 t', Lex.lexAll (sqlT t) = .ok ts2 ∧ parseTypeTop (topFuel ts2) ts2 = .ok t' ∧
      eraseT t' = eraseT t ∧ sqlT t' = sqlT t :=
  type_roundtrip_partial hl hp (parse_rtOK hl hp)

/-- C01 for ANY well-formed tree with printable names (not only parser-built ones) -/
theorem type_roundtrip_tree {t : Ty} (hw : wf t = true) (hn : namesOK t = true) :
    ∃ ts2 t', Lex.lexAll (sqlT t) = .ok ts2 ∧ parseTypeTop (topFuel ts2) ts2 = .ok t' ∧
      eraseT t' = eraseT t ∧ sqlT t' = sqlT t := by
  have hrt := rtOK_of_namesOK hn
  unfold rtOK at hrt
  split at hrt
  · rename_i ts2 hl2
    obtain ⟨t', h1, h2, h3⟩ := roundtrip_tokens hw hrt
    exact ⟨ts2, t', hl2, h1, h2, h3⟩
  · cases hrt

/-- `SQL()` is a fixed point after one round trip (idempotence), lexer side as a hypothesis -/
theorem type_print_stable_partial {t : Ty} (hw : wf t = true) (hrt : rtOK t = true) :
    ∃ ts2 t', Lex.lexAll (sqlT t) = .ok ts2 ∧ parseTypeTop (topFuel ts2) ts2 = .ok t' ∧ sqlT t' = sqlT t := by
  unfold rtOK at hrt
  split at hrt
  · rename_i ts2 hl2
    obtain ⟨t', h1, _, h3⟩ := roundtrip_tokens hw hrt
    exact ⟨ts2, t', hl2, h1, h3⟩
  · cases hrt

/-- C02, token level: the tokens an accepted parse consumed read as the yield of its tree (nothing dropped, added or
moved: the yield lists every token, in order) -/
theorem type_lossless_tokens {fuel : Nat} {ts : PState} {t : Ty} (hp : parseTypeTop fuel ts = .ok t) :
    ∃ pre rest, expand ts = pre ++ rest ∧ cur rest = .eof ∧ Reads (yieldT t) pre := by
  obtain ⟨pre, rest, he, hr, hm, _⟩ := parseTypeTop_sound hp
  exact ⟨pre, rest, he, hr, match_reads hm⟩

/-- C02 for types: the significant tokens of `sqlT t` are those of the input, up to the canonicalisations built into
`Reads` — both token sequences read as the SAME description list `yieldT t` -/
theorem type_lossless_partial {buf : Bytes} {ts : List Token} {fuel : Nat} {t : Ty}
    (_hl : Lex.lexAll buf = .ok ts) (hp : parseTypeTop fuel ts = .ok t) (hrt : rtOK t = true) :
    ∃ pre rest ts2 pre2 e2, expand ts = pre ++ rest ∧ cur rest = .eof ∧
      Lex.lexAll (sqlT t) = .ok ts2 ∧ expand ts2 = pre2 ++ [e2] ∧ tk e2.kind = .eof ∧
      Reads (yieldT t) pre ∧ Reads (yieldT t) pre2 := by
  obtain ⟨pre, rest, he, hr, hread⟩ := type_lossless_tokens hp
  unfold rtOK at hrt
  split at hrt
  · rename_i ts2 hl2
    obtain ⟨pre2, e2, he2, hk2, hr2⟩ := printLexB_spec hrt
    exact ⟨pre, rest, ts2, pre2, e2, he, hr, hl2, he2, hk2, hread, hr2⟩
  · cases hrt

/-- C02 for types (FULL): for every accepted input, the significant tokens of `sqlT t` are those of the input, up to the
canonicalisations built into `Reads` — both token sequences read as the SAME description list `yieldT t` -/
theorem type_lossless {buf : Bytes} {ts : List Token} {fuel : Nat} {t : Ty}
    (hl : Lex.lexAll buf = .ok ts) (hp : parseTypeTop fuel ts = .ok t) :
    ∃ pre rest ts2 pre2 e2, expand ts = pre ++ rest ∧ cur rest = .eof ∧
      Lex.lexAll (sqlT t) = .ok ts2 ∧ expand ts2 = pre2 ++ [e2] ∧ tk e2.kind = .eof ∧
      Reads (yieldT t) pre ∧ Reads (yieldT t) pre2 :=
  type_lossless_partial hl hp (parse_rtOK hl hp)

/-! ## non-vacuity: `ARRAY<STRUCT<a INT64, b ARRAY<STRING>>>` and a spelling with every canonicalisation -/

open MF.Props.C05 (exBuf exToks exTree ex_lex ex_parse)

/-- the printed text of the example re-lexes as its yield (kernel evaluation of the hypothesis `rtOK`) -/
theorem ex_rt : rtOK exTree = true := by rfl

/-- the printed text is the input itself (it is already canonical) -/
example : sqlT exTree = exBuf := by decide

/-- the round trip on the example -/
example : ∃ ts2 t', Lex.lexAll (sqlT exTree) = .ok ts2 ∧ parseTypeTop (topFuel ts2) ts2 = .ok t' ∧
    eraseT t' = eraseT exTree ∧ sqlT t' = sqlT exTree := type_roundtrip ex_lex ex_parse

/-- a non-canonical spelling of the same type: lower-case keywords and simple type names, a quoted field name,
comments, `> > >` for the closers -/
def ex2Buf : Bytes := B "array < struct<`a` int64 , b /*c*/ Array<String> > >"
def ex2Toks : List Token := match Lex.lexAll ex2Buf with | .ok ts => ts | _ => []
def ex2Tree : Ty :=
  .array 0 51 (.struct 8 49 (.cons (some ⟨15, 18, B "a"⟩) (.simple 19 (B "INT64"))
    (.cons (some ⟨27, 28, B "b"⟩) (.array 35 47 (.simple 41 (B "STRING"))) .nil)))
theorem ex2_lex : Lex.lexAll ex2Buf = .ok ex2Toks := by rfl
theorem ex2_parse : parseTypeTop (topFuel ex2Toks) ex2Toks = .ok ex2Tree := by rfl

/-- it is the same tree up to positions, and prints as the canonical text -/
example : eraseT ex2Tree = eraseT exTree ∧ sqlT ex2Tree = exBuf := ⟨by rfl, by decide⟩
theorem ex2_rt : rtOK ex2Tree = true := by rfl

/-- C02 on it: input tokens and printed tokens read as the same description list -/
example : ∃ pre rest ts2 pre2 e2, expand ex2Toks = pre ++ rest ∧ cur rest = .eof ∧
    Lex.lexAll (sqlT ex2Tree) = .ok ts2 ∧ expand ts2 = pre2 ++ [e2] ∧ tk e2.kind = .eof ∧
    Reads (yieldT ex2Tree) pre ∧ Reads (yieldT ex2Tree) pre2 := type_lossless ex2_lex ex2_parse

/-! ## the repaired inputs: named types whose first path component spells a scalar type print as they were written
and the printed text re-parses to the same tree (before the repair of `lookaheadSimpleType` the tree could not even be
obtained; a hand-built one printed `date.t`, which was rejected) -/

open MF.Props.C05 (ex3Buf ex3Toks ex3Tree ex3_lex ex3_parse bqnBuf bqnToks bqnTree bqn_lex bqn_parse)

example : sqlT ex3Tree = ex3Buf := by decide
theorem ex3_rt : rtOK ex3Tree = true := by rfl

example : ∃ ts2 t', Lex.lexAll (sqlT ex3Tree) = .ok ts2 ∧ parseTypeTop (topFuel ts2) ts2 = .ok t' ∧
    eraseT t' = eraseT ex3Tree ∧ sqlT t' = sqlT ex3Tree := type_roundtrip ex3_lex ex3_parse

/-- `` `date`.x `` prints WITHOUT the back quotes (`date` is not a keyword) as `date.x`, which re-parses to the same
named type: with the repaired look-ahead the quoting of the first component is invisible, as everywhere else -/
example : sqlT bqnTree = B "date.x" := by decide
example : ∃ ts2 t', Lex.lexAll (sqlT bqnTree) = .ok ts2 ∧ parseTypeTop (topFuel ts2) ts2 = .ok t' ∧
    eraseT t' = eraseT bqnTree ∧ sqlT t' = sqlT bqnTree := type_roundtrip bqn_lex bqn_parse

/-- hand-built trees too: `ARRAY<string.x>` and `string.x.y` (positions arbitrary) -/
example : ∃ ts2 t', Lex.lexAll (sqlT (.array 0 0 (.named [⟨0, 0, B "string"⟩, ⟨0, 0, B "x"⟩]))) = .ok ts2 ∧
    parseTypeTop (topFuel ts2) ts2 = .ok t' ∧
    eraseT t' = eraseT (.array 0 0 (.named [⟨0, 0, B "string"⟩, ⟨0, 0, B "x"⟩])) ∧
    sqlT t' = sqlT (.array 0 0 (.named [⟨0, 0, B "string"⟩, ⟨0, 0, B "x"⟩])) :=
  type_roundtrip_tree (by decide) (by decide +kernel)

example : ∃ ts2 t', Lex.lexAll (sqlT (.named [⟨0, 0, B "string"⟩, ⟨0, 0, B "x"⟩, ⟨0, 0, B "y"⟩])) = .ok ts2 ∧
    parseTypeTop (topFuel ts2) ts2 = .ok t' ∧
    eraseT t' = eraseT (.named [⟨0, 0, B "string"⟩, ⟨0, 0, B "x"⟩, ⟨0, 0, B "y"⟩]) ∧
    sqlT t' = sqlT (.named [⟨0, 0, B "string"⟩, ⟨0, 0, B "x"⟩, ⟨0, 0, B "y"⟩]) :=
  type_roundtrip_tree (by decide) (by decide +kernel)

end MF.Props.C01
