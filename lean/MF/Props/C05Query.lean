/-
  C05 for the SELECT core (Task X, stage 4) — PARTIAL.

  Proved (function level: for the call that builds the node, on ANY suffix `ts` of a token list with the lexer's token
  facts `TokensOK`): the node's `(Pos(), End())` lies exactly over a run of the tokens the call consumed — `Pos()` is the
  `pos` of the first, `End()` the `end` of the last (`Over`):
    select items (Star: `Star + 1` is the end of the one-byte `*`; DotStar; Alias; ExprSelectItem)   — `item_span`
    AsAlias (with and without AS)                                                                   — `alias_span`
    TableName / PathTableExpr with optional alias, From                                             — `table_span`, `from_span`
    Where, Having                                                                                   — `where_span`, `having_span`
    Limit with its Offset child (a sub-run at the end of the Limit's run), IntLiteral / Param        — `limit_span`
    the root of every expression slot (through `MF.Expr.place_ok`, C05 for expressions)              — `expr_slot_span`
  and, for lexer output, what `Over` means in bytes: token-aligned, `Pos() < End() ≤ len(input)` (`span_facts`), a child
  run inside a parent run is nested (`span_nested`), two runs in source order do not overlap (`span_ordered`).
  `query_pos_first_token`: `Pos()` of QueryStatement / QueryExpr / Select is the `pos` of the first token.
  NOT proved: GroupBy, OrderBy and its items, the further select items as a list, `End()` of Select / Query /
  QueryStatement, and the assembly "every node of the tree returned by ParseQuery" (the per-function statements are not yet
  threaded through parseSelect); the inner nodes of expression slots are covered by `MF.Props.C05.expr_positions` only
  when the slot is the whole input.  The QUERY channel compares `Pos()` / `End()` of EVERY node with Go on every OK request.
-/
import MF.Proofs.QuerySound
import MF.Proofs.QueryPos
import MF.Spec.QueryPrintToks
namespace MF.Props.C05
open MF MF.Expr MF.Query

theorem parseSelect_pos {f : Nat} {ts rest : List Token} {s : Select} (h : parseSelect f ts = .ok (s, rest)) :
    s.select = (hd ts).pos := by
  unfold parseSelect at h
  split at h
  · simp only at h
    split at h
    · cases h
    · obtain ⟨i, _, h⟩ := Res.bind_eq_ok.1 h
      obtain ⟨l, _, h⟩ := Res.bind_eq_ok.1 h
      obtain ⟨fr, _, h⟩ := Res.bind_eq_ok.1 h
      obtain ⟨w, _, h⟩ := Res.bind_eq_ok.1 h
      obtain ⟨g, _, h⟩ := Res.bind_eq_ok.1 h
      obtain ⟨hv, _, h⟩ := Res.bind_eq_ok.1 h
      cases h
      rfl
  · cases h

theorem query_pos_first_token {fuel : Nat} {ts : List Token} {q : QueryStatement} (h : parseQueryTop fuel ts = .ok q) :
    posQ q = (hd ts).pos ∧ (selectOf q.query).select = (hd ts).pos := by
  unfold parseQueryTop at h
  obtain ⟨⟨q1, r1⟩, hp, hk⟩ := Res.bind_eq_ok.1 h
  simp only at hk
  split at hk
  · cases hk
    unfold parseQueryStatement at hp
    split at hp
    · cases hp
    · obtain ⟨⟨qe, r2⟩, hqe, hk2⟩ := Res.bind_eq_ok.1 hp
      cases hk2
      unfold parseQueryExpr at hqe
      split at hqe
      · cases hqe
      · obtain ⟨⟨s, r3⟩, hs, hsuf⟩ := Res.bind_eq_ok.1 hqe
        have hs' : parseSelect fuel ts = .ok (s, r3) := by
          unfold parseSimpleQueryExpr at hs
          split at hs
          · cases hs
          · cases hs
          · exact hs
          · cases hs
        have hpos := parseSelect_pos hs'
        obtain ⟨_, oks, tr⟩ := parseSelect_sound hs'
        simp only at hsuf
        split at hsuf
        · cases hsuf
        · cases hsuf
        · obtain ⟨_, heq, _⟩ := parseQueryExprSuffix_sound oks tr hsuf
          cases qe with
          | select s' =>
            simp only at heq; subst heq
            exact ⟨hpos, hpos⟩
          | query s' o l =>
            simp only at heq; subst heq
            exact ⟨hpos, hpos⟩
  · cases hk

theorem item_span {len f : Nat} {ts rest : List Token} {i : SelectItem} (hT : TokensOK len ts)
    (h : parseSelectItem f ts = .ok (i, rest)) : ∃ pre, ts = pre ++ rest ∧ Over (posItem i) (endItem i) pre :=
  parseSelectItem_over hT h

theorem alias_span {ts rest : List Token} {a : AsAlias} (h : tryParseAsAlias ts = .ok (some a, rest)) :
    ∃ pre, ts = pre ++ rest ∧ Over (posAs a) (endAs a) pre := tryParseAsAlias_over h

theorem table_span {f : Nat} {ts rest : List Token} {t : TableExpr} (h : parseTableExpr f ts = .ok (t, rest)) :
    ∃ pre, ts = pre ++ rest ∧ Over (posTable t) (endTable t) pre := parseTableExpr_over h

theorem from_span {f : Nat} {ts rest : List Token} {fr : From} (h : tryParseFrom f ts = .ok (some fr, rest)) :
    ∃ pre, ts = pre ++ rest ∧ Over fr.from_ (endFrom fr) pre := tryParseFrom_over h

theorem where_span {len f : Nat} {ts rest : List Token} {w : Where} (hT : TokensOK len ts)
    (h : tryParseWhere f ts = .ok (some w, rest)) : ∃ pre, ts = pre ++ rest ∧ Over w.where_ (endWhere w) pre :=
  tryParseWhere_over hT h

theorem having_span {len f : Nat} {ts rest : List Token} {w : Having} (hT : TokensOK len ts)
    (h : tryParseHaving f ts = .ok (some w, rest)) : ∃ pre, ts = pre ++ rest ∧ Over w.having (endHaving w) pre :=
  tryParseHaving_over hT h

theorem limit_span {len : Nat} {ts rest : List Token} {l : Limit} (hT : TokensOK len ts)
    (h : tryParseLimit ts = .ok (some l, rest)) :
    ∃ pre, ts = pre ++ rest ∧ Over l.limit (endLimit l) pre ∧
      ∀ o, l.offset = some o → ∃ a b, pre = a ++ b ∧ a ≠ [] ∧ Over o.offset (endOffset o) b := tryParseLimit_over hT h

theorem expr_slot_span {len f : Nat} {ts rest : List Token} {e : PExpr} (hT : TokensOK len ts)
    (h : parsePExpr f ts = .ok (e, rest)) : ∃ pre, ts = pre ++ rest ∧ Over (posP e) (endP e) pre := parsePExpr_over hT h

/-- lexer output satisfies the token facts -/
theorem lexed_tokensOK {buf : Bytes} {ts : List Token} (hl : Lex.lexAll buf = .ok ts) : TokensOK buf.length ts :=
  ⟨(lexAll_lexed hl).tok, Lex.lexAll_len hl⟩

theorem span_facts {buf : Bytes} {ts l run r : List Token} (hl : Lex.lexAll buf = .ok ts) (hts : ts = l ++ run ++ r)
    (hr : r ≠ []) {p e : Nat} (h : Over p e run) :
    (∃ t ∈ ts, t.pos = p) ∧ (∃ t ∈ ts, t.end = e) ∧ p < e ∧ e ≤ buf.length := over_facts hl hts hr h

theorem span_nested {buf : Bytes} {ts l a c b r : List Token} (hl : Lex.lexAll buf = .ok ts)
    (hts : ts = l ++ (a ++ c ++ b) ++ r) (hr : r ≠ []) {p e p' e' : Nat} (hp : Over p e (a ++ c ++ b)) (hc : Over p' e' c) :
    p ≤ p' ∧ e' ≤ e := over_nested hl hts hr hp hc

theorem span_ordered {buf : Bytes} {ts l c1 m c2 r : List Token} (hl : Lex.lexAll buf = .ok ts)
    (hts : ts = l ++ c1 ++ m ++ c2 ++ r) {p1 e1 p2 e2 : Nat} (h1 : Over p1 e1 c1) (h2 : Over p2 e2 c2) : e1 ≤ p2 :=
  over_ordered hl hts h1 h2

/-- non-vacuity: leading blanks and a comment before SELECT -/
example : (match Lex.lexAll (B "  /*c*/ select a FROM t LIMIT 1") with
    | .ok ts => (match parseQueryTop (Query.topFuel ts) ts with
      | .ok q => posQ q == 8 && (hd ts).pos == 8 && endQ q == 31
      | _ => false)
    | _ => false) = true := by decide +kernel

end MF.Props.C05
