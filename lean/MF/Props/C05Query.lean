/-
  C05 for the SELECT core (Task X, stage 4) — PARTIAL.

  Proved (function level: for the call that builds the node, on ANY suffix `ts` of a token list with the lexer's token
  facts `TokensOK`): the node's `(Pos(), End())` lies exactly over a run of the tokens the call consumed — `Pos()` is the
  `pos` of the first, `End()` the `end` of the last (`Over`):
    select items (Star: `Star + 1` is the end of the one-byte `*`; DotStar; Alias; ExprSelectItem)   — `item_span`
    AsAlias (with and without AS)                                                                   — `alias_span`
    TableName / PathTableExpr with optional alias, From                                             — `table_span`, `from_span`
    Where, Having                                                                                   — `where_span`, `having_span`
    Limit with its Offset child (a sub-run at the end of the Limit's run), IntLiteral / Param        — `limit_span`
    the root of every expression slot (through `MF.Expr.place_ok`, C05 for expressions)              — `expr_slot_span`
  and, for lexer output, what `Over` means in bytes: token-aligned, `Pos() < End() ≤ len(input)` (`span_facts`), a child
  run inside a parent run is nested (`span_nested`), two runs in source order do not overlap (`span_ordered`).
  `query_pos_first_token`: `Pos()` of QueryStatement / QueryExpr / Select is the `pos` of the first token.
  Session 4: GroupBy (`group_span`, with every expression over a sub-run of the body), OrderByItem (`order_item_span`:
  `DirPos + len(Dir)` is the end of the ASC / DESC token), OrderBy (`order_span`), the further select items as a list
  (`items_loop_span`), `End()` of Select (`select_span`, with the trailing-comma observation), of Query / QueryStatement
  (`statement_span`), and a first assembly for the statement node on lexer output (`query_positions_partial`).
  NOT proved: ONE theorem over every node of the returned tree (the per-call statements are threaded through parseSelect
  only for the Select's own range); `rest ≠ []` in `query_positions_partial`; the inner nodes of expression slots at an
  offset (`MF.Props.C05.expr_positions` covers them when the slot is the whole input).  The QUERY channel compares `Pos()` / `End()` of EVERY node with Go on every OK request.
-/
import MF.Proofs.QuerySound
import MF.Proofs.QueryPos
import MF.Spec.QueryPrintToks
namespace MF.Props.C05
open MF MF.Expr MF.Query

theorem parseSelect_pos {f : Nat} {ts rest : List Token} {s : Select} (h : parseSelect f ts = .ok (s, rest)) :
    s.select = (hd ts).pos := by
  unfold parseSelect at h
  split at h
  · simp only at h
    split at h
    · cases h
    · obtain ⟨i, _, h⟩ := Res.bind_eq_ok.1 h
      obtain ⟨l, _, h⟩ := Res.bind_eq_ok.1 h
      obtain ⟨fr, _, h⟩ := Res.bind_eq_ok.1 h
      obtain ⟨w, _, h⟩ := Res.bind_eq_ok.1 h
      obtain ⟨g, _, h⟩ := Res.bind_eq_ok.1 h
      obtain ⟨hv, _, h⟩ := Res.bind_eq_ok.1 h
      cases h
      rfl
  · cases h

theorem query_pos_first_token {fuel : Nat} {ts : List Token} {q : QueryStatement} (h : parseQueryTop fuel ts = .ok q) :
    posQ q = (hd ts).pos ∧ (selectOf q.query).select = (hd ts).pos := by
  unfold parseQueryTop at h
  obtain ⟨⟨q1, r1⟩, hp, hk⟩ := Res.bind_eq_ok.1 h
  simp only at hk
  split at hk
  · cases hk
    unfold parseQueryStatement at hp
    split at hp
    · cases hp
    · obtain ⟨⟨qe, r2⟩, hqe, hk2⟩ := Res.bind_eq_ok.1 hp
      cases hk2
      unfold parseQueryExpr at hqe
      split at hqe
      · cases hqe
      · obtain ⟨⟨s, r3⟩, hs, hsuf⟩ := Res.bind_eq_ok.1 hqe
        have hs' : parseSelect fuel ts = .ok (s, r3) := by
          unfold parseSimpleQueryExpr at hs
          split at hs
          · cases hs
          · cases hs
          · exact hs
          · cases hs
        have hpos := parseSelect_pos hs'
        obtain ⟨_, oks, tr⟩ := parseSelect_sound hs'
        simp only at hsuf
        split at hsuf
        · cases hsuf
        · cases hsuf
        · obtain ⟨_, heq, _⟩ := parseQueryExprSuffix_sound oks tr hsuf
          cases qe with
          | select s' =>
            simp only at heq; subst heq
            exact ⟨hpos, hpos⟩
          | query s' o l =>
            simp only at heq; subst heq
            exact ⟨hpos, hpos⟩
  · cases hk

theorem item_span {len f : Nat} {ts rest : List Token} {i : SelectItem} (hT : TokensOK len ts)
    (h : parseSelectItem f ts = .ok (i, rest)) : ∃ pre, ts = pre ++ rest ∧ Over (posItem i) (endItem i) pre :=
  parseSelectItem_over hT h

theorem alias_span {ts rest : List Token} {a : AsAlias} (h : tryParseAsAlias ts = .ok (some a, rest)) :
    ∃ pre, ts = pre ++ rest ∧ Over (posAs a) (endAs a) pre := tryParseAsAlias_over h

theorem table_span {f : Nat} {ts rest : List Token} {t : TableExpr} (h : parseTableExpr f ts = .ok (t, rest)) :
    ∃ pre, ts = pre ++ rest ∧ Over (posTable t) (endTable t) pre := parseTableExpr_over h

theorem from_span {f : Nat} {ts rest : List Token} {fr : From} (h : tryParseFrom f ts = .ok (some fr, rest)) :
    ∃ pre, ts = pre ++ rest ∧ Over fr.from_ (endFrom fr) pre := tryParseFrom_over h

theorem where_span {len f : Nat} {ts rest : List Token} {w : Where} (hT : TokensOK len ts)
    (h : tryParseWhere f ts = .ok (some w, rest)) : ∃ pre, ts = pre ++ rest ∧ Over w.where_ (endWhere w) pre :=
  tryParseWhere_over hT h

theorem having_span {len f : Nat} {ts rest : List Token} {w : Having} (hT : TokensOK len ts)
    (h : tryParseHaving f ts = .ok (some w, rest)) : ∃ pre, ts = pre ++ rest ∧ Over w.having (endHaving w) pre :=
  tryParseHaving_over hT h

theorem limit_span {len : Nat} {ts rest : List Token} {l : Limit} (hT : TokensOK len ts)
    (h : tryParseLimit ts = .ok (some l, rest)) :
    ∃ pre, ts = pre ++ rest ∧ Over l.limit (endLimit l) pre ∧
      ∀ o, l.offset = some o → ∃ a b, pre = a ++ b ∧ a ≠ [] ∧ Over o.offset (endOffset o) b := tryParseLimit_over hT h

theorem expr_slot_span {len f : Nat} {ts rest : List Token} {e : PExpr} (hT : TokensOK len ts)
    (h : parsePExpr f ts = .ok (e, rest)) : ∃ pre, ts = pre ++ rest ∧ Over (posP e) (endP e) pre := parsePExpr_over hT h

theorem group_span {len f : Nat} {ts rest : List Token} {g : GroupBy} (hT : TokensOK len ts)
    (h : tryParseGroupBy f ts = .ok (some g, rest)) :
    ∃ pre, ts = pre ++ rest ∧ Over g.group (endGroupBy g) pre ∧
      ∃ kw body, pre = kw ++ body ∧ kw ≠ [] ∧ EachOver (g.first :: g.more) posP endP body := tryParseGroupBy_over hT h

theorem order_item_span {len f : Nat} {ts rest : List Token} {i : OrderByItem} (hT : TokensOK len ts)
    (h : parseOrderByItem f ts = .ok (i, rest)) : ∃ pre, ts = pre ++ rest ∧ Over (posP i.e) (endOrderItem i) pre :=
  parseOrderByItem_over hT h

theorem order_span {len f : Nat} {ts rest : List Token} {o : OrderBy} (hT : TokensOK len ts)
    (h : tryParseOrderBy f ts = .ok (some o, rest)) :
    ∃ pre, ts = pre ++ rest ∧ Over o.order (endOrderBy o) pre ∧
      ∃ kw body, pre = kw ++ body ∧ kw ≠ [] ∧ EachOver (o.first :: o.more) (fun i => posP i.e) endOrderItem body :=
  tryParseOrderBy_over hT h

/-- the further select items: each lies over a sub-run of the loop's run, which ends with the last of them; a trailing
comma is a separate one-token run behind it -/
theorem items_loop_span {len f : Nat} {ts rest : List Token} {is : List SelectItem} {tr : Bool} (hT : TokensOK len ts)
    (h : resultsLoop f ts = .ok ((is, tr), rest)) :
    ∃ pre ptr, ts = pre ++ ptr ++ rest ∧ (tr = false → ptr = []) ∧ (tr = true → ∃ tc, ptr = [tc]) ∧
      LastIs is endItem pre ∧ EachOver is posItem endItem pre := resultsLoop_over f hT h

/-- `End()` of the Select: the end of its last clause, or of its last item.  The only consumed token that may lie
outside the Select's range is a trailing comma ending the whole SELECT (`SELECT a,`): `End()` = end of the last item,
as in the Go code (`nodeEnd(nodeChoice(Having, GroupBy, Where, From, Results[$]))`) -/
theorem select_span {len f : Nat} {ts rest : List Token} {s : Select} (hT : TokensOK len ts)
    (h : parseSelect f ts = .ok (s, rest)) :
    ∃ run tail, ts = run ++ tail ++ rest ∧ Over s.select (endSelect s) run ∧
      (tail = [] ∨ ∃ tc, tail = [tc] ∧ s.trailing = true ∧ s.from_ = none ∧ s.where_ = none ∧ s.groupBy = none ∧
        s.having = none) ∧
      ∃ base pf pw pg ph, run ++ tail = base ++ pf ++ pw ++ pg ++ ph ∧ base ≠ [] ∧ OptOver s.from_ (·.from_) endFrom pf ∧
        OptOver s.where_ (·.where_) endWhere pw ∧ OptOver s.groupBy (·.group) endGroupBy pg ∧
        OptOver s.having (·.having) endHaving ph := parseSelect_over hT h

/-- the clause nodes of a Select on lexer output: each present clause is token-aligned with `Pos() < End() ≤ len(input)`,
and FROM / WHERE / GROUP BY / HAVING stand in source order without overlap -/
theorem query_clause_positions {buf : Bytes} {ts rest : List Token} {f : Nat} {s : Select}
    (hl : Lex.lexAll buf = .ok ts) (h : parseSelect f ts = .ok (s, rest)) (hr : rest ≠ []) :
    (∀ x, s.from_ = some x → (∃ t ∈ ts, t.pos = x.from_) ∧ (∃ t ∈ ts, t.end = endFrom x) ∧ x.from_ < endFrom x ∧
      endFrom x ≤ buf.length) ∧
    (∀ x, s.where_ = some x → (∃ t ∈ ts, t.pos = x.where_) ∧ (∃ t ∈ ts, t.end = endWhere x) ∧ x.where_ < endWhere x ∧
      endWhere x ≤ buf.length) ∧
    (∀ x, s.groupBy = some x → (∃ t ∈ ts, t.pos = x.group) ∧ (∃ t ∈ ts, t.end = endGroupBy x) ∧ x.group < endGroupBy x ∧
      endGroupBy x ≤ buf.length) ∧
    (∀ x, s.having = some x → (∃ t ∈ ts, t.pos = x.having) ∧ (∃ t ∈ ts, t.end = endHaving x) ∧ x.having < endHaving x ∧
      endHaving x ≤ buf.length) ∧
    (∀ x y, s.from_ = some x → s.where_ = some y → endFrom x ≤ y.where_) ∧
    (∀ x y, s.from_ = some x → s.groupBy = some y → endFrom x ≤ y.group) ∧
    (∀ x y, s.from_ = some x → s.having = some y → endFrom x ≤ y.having) ∧
    (∀ x y, s.where_ = some x → s.groupBy = some y → endWhere x ≤ y.group) ∧
    (∀ x y, s.where_ = some x → s.having = some y → endWhere x ≤ y.having) ∧
    (∀ x y, s.groupBy = some x → s.having = some y → endGroupBy x ≤ y.having) := by
  have hT : TokensOK buf.length ts := ⟨(lexAll_lexed hl).tok, Lex.lexAll_len hl⟩
  obtain ⟨run, tail, hts, _, _, base, pf, pw, pg, ph, hdec, _, hof, how, hog, hoh⟩ := parseSelect_over hT h
  have hall : ts = base ++ pf ++ pw ++ pg ++ ph ++ rest := by rw [hts, hdec]
  refine ⟨?_, ?_, ?_, ?_, ?_, ?_, ?_, ?_, ?_, ?_⟩
  · intro x hx; rw [hx] at hof
    exact over_facts hl (l := base) (run := pf) (r := pw ++ pg ++ ph ++ rest) (by rw [hall]; simp) (by simp [hr]) hof
  · intro x hx; rw [hx] at how
    exact over_facts hl (l := base ++ pf) (run := pw) (r := pg ++ ph ++ rest) (by rw [hall]; simp) (by simp [hr]) how
  · intro x hx; rw [hx] at hog
    exact over_facts hl (l := base ++ pf ++ pw) (run := pg) (r := ph ++ rest) (by rw [hall]; simp) (by simp [hr]) hog
  · intro x hx; rw [hx] at hoh
    exact over_facts hl (l := base ++ pf ++ pw ++ pg) (run := ph) (r := rest) (by rw [hall]) hr hoh
  · intro x y hx hy; rw [hx] at hof; rw [hy] at how
    exact over_ordered hl (l := base) (c1 := pf) (m := []) (c2 := pw) (r := pg ++ ph ++ rest) (by rw [hall]; simp) hof how
  · intro x y hx hy; rw [hx] at hof; rw [hy] at hog
    exact over_ordered hl (l := base) (c1 := pf) (m := pw) (c2 := pg) (r := ph ++ rest) (by rw [hall]; simp) hof hog
  · intro x y hx hy; rw [hx] at hof; rw [hy] at hoh
    exact over_ordered hl (l := base) (c1 := pf) (m := pw ++ pg) (c2 := ph) (r := rest) (by rw [hall]; simp) hof hoh
  · intro x y hx hy; rw [hx] at how; rw [hy] at hog
    exact over_ordered hl (l := base ++ pf) (c1 := pw) (m := []) (c2 := pg) (r := ph ++ rest) (by rw [hall]; simp) how hog
  · intro x y hx hy; rw [hx] at how; rw [hy] at hoh
    exact over_ordered hl (l := base ++ pf) (c1 := pw) (m := pg) (c2 := ph) (r := rest) (by rw [hall]) how hoh
  · intro x y hx hy; rw [hx] at hog; rw [hy] at hoh
    exact over_ordered hl (l := base ++ pf ++ pw) (c1 := pg) (m := []) (c2 := ph) (r := rest) (by rw [hall]; simp) hog hoh

/-- QueryStatement = its QueryExpr (Select, or Query with ORDER BY / LIMIT): over `run`; the Select's run starts it -/
theorem statement_span {len f : Nat} {ts rest : List Token} {q : QueryStatement} (hT : TokensOK len ts)
    (h : parseQueryStatement f ts = .ok (q, rest)) :
    ∃ run tail, ts = run ++ tail ++ rest ∧ Over (posQ q) (endQ q) run ∧ (tail = [] ∨ ∃ tc, tail = [tc]) ∧
      ∃ srun stail, Over (selectOf q.query).select (endSelect (selectOf q.query)) srun ∧
        (∃ b, run ++ tail = srun ++ stail ++ b) ∧
        (endQ q = endSelect (selectOf q.query) ∨ ∃ b', run = srun ++ b') := parseQueryStatement_over hT h

/-- **assembly, PARTIAL**: for lexer output, the statement node (QueryStatement = Query / Select): token-aligned,
`Pos() < End() ≤ len(input)`, and `Pos()` is the first token.  PARTIAL: (i) the hypothesis `rest ≠ []` (the `<eof>` token
is never consumed — true of the model, not proved here); (ii) the clause children are covered by the per-call theorems
above (`from_span` … `order_span`, `items_loop_span`, `expr_slot_span`) together with `span_nested` / `span_ordered`, but
they are not yet threaded through this statement into one "for every node of the tree" theorem. -/
theorem query_positions_partial {buf : Bytes} {ts rest : List Token} {fuel : Nat} {q : QueryStatement}
    (hl : Lex.lexAll buf = .ok ts) (h : parseQueryStatement fuel ts = .ok (q, rest)) (hr : rest ≠ []) :
    (∃ t ∈ ts, t.pos = posQ q) ∧ (∃ t ∈ ts, t.end = endQ q) ∧ posQ q < endQ q ∧ endQ q ≤ buf.length ∧
      posQ q = (hd ts).pos := by
  have hT : TokensOK buf.length ts := ⟨(lexAll_lexed hl).tok, Lex.lexAll_len hl⟩
  obtain ⟨run, tail, hts, ho, _, _⟩ := parseQueryStatement_over hT h
  have hts' : ts = [] ++ run ++ (tail ++ rest) := by rw [hts]; simp
  obtain ⟨a, b, c, d⟩ := over_facts hl hts' (by simp [hr]) ho
  refine ⟨a, b, c, d, ?_⟩
  rw [ho.2.1, hts]
  cases run with
  | nil => exact absurd rfl ho.1
  | cons t r => rfl

/-- on lexer output the statement parser never consumes the `<eof>` token -/
theorem eof_not_consumed {buf : Bytes} {ts rest : List Token} {f : Nat} {q : QueryStatement}
    (hl : Lex.lexAll buf = .ok ts) (h : parseQueryStatement f ts = .ok (q, rest)) : rest ≠ [] := rest_ne_nil hl h

/-- **C05 for the statement node, no side hypothesis**: for lexer output and the tree returned by ParseQuery, the
QueryStatement (= its Query / Select) is token-aligned, `Pos() < End() ≤ len(input)`, starts at the first token, and its
Select node is token-aligned with the same `Pos()`, `Pos() < End()`, and lies inside the statement's range -/
theorem query_positions {buf : Bytes} {ts : List Token} {fuel : Nat} {q : QueryStatement}
    (hl : Lex.lexAll buf = .ok ts) (h : parseQueryTop fuel ts = .ok q) :
    (∃ t ∈ ts, t.pos = posQ q) ∧ (∃ t ∈ ts, t.end = endQ q) ∧ posQ q < endQ q ∧ endQ q ≤ buf.length ∧
      posQ q = (hd ts).pos ∧
      (∃ t ∈ ts, t.end = endSelect (selectOf q.query)) ∧ (selectOf q.query).select = posQ q ∧
      (selectOf q.query).select < endSelect (selectOf q.query) ∧ endSelect (selectOf q.query) ≤ endQ q := by
  unfold parseQueryTop at h
  obtain ⟨⟨q1, rest⟩, hp, hk⟩ := Res.bind_eq_ok.1 h
  have hq : q1 = q := by
    simp only at hk
    split at hk
    · cases hk; rfl
    · cases hk
  subst hq
  have hr := rest_ne_nil hl hp
  obtain ⟨a, b, c, d, e⟩ := query_positions_partial hl hp hr
  have hT : TokensOK buf.length ts := ⟨(lexAll_lexed hl).tok, Lex.lexAll_len hl⟩
  obtain ⟨run, tail, hts, ho, _, srun, stail, hos, ⟨bb, hb⟩, hnest⟩ := parseQueryStatement_over hT hp
  have hts2 : ts = [] ++ srun ++ (stail ++ bb ++ rest) := by rw [hts, hb]; simp
  obtain ⟨_, s2, s3, _⟩ := over_facts hl hts2 (by simp [hr]) hos
  have hsel : (selectOf q1.query).select = posQ q1 := by
    obtain ⟨q0⟩ := q1
    cases q0 <;> rfl
  refine ⟨a, b, c, d, e, s2, hsel, s3, ?_⟩
  rcases hnest with h1 | ⟨b', hb'⟩
  · rw [h1]; exact Nat.le_refl _
  · have hts3 : ts = [] ++ ([] ++ srun ++ b') ++ (tail ++ rest) := by rw [hts, hb']; simp
    have ho' : Over (posQ q1) (endQ q1) ([] ++ srun ++ b') := by simpa [← hb'] using ho
    exact (over_nested hl hts3 (by simp [hr]) ho' hos).2

/-- lexer output satisfies the token facts -/
theorem lexed_tokensOK {buf : Bytes} {ts : List Token} (hl : Lex.lexAll buf = .ok ts) : TokensOK buf.length ts :=
  ⟨(lexAll_lexed hl).tok, Lex.lexAll_len hl⟩

theorem span_facts {buf : Bytes} {ts l run r : List Token} (hl : Lex.lexAll buf = .ok ts) (hts : ts = l ++ run ++ r)
    (hr : r ≠ []) {p e : Nat} (h : Over p e run) :
    (∃ t ∈ ts, t.pos = p) ∧ (∃ t ∈ ts, t.end = e) ∧ p < e ∧ e ≤ buf.length := over_facts hl hts hr h

theorem span_nested {buf : Bytes} {ts l a c b r : List Token} (hl : Lex.lexAll buf = .ok ts)
    (hts : ts = l ++ (a ++ c ++ b) ++ r) (hr : r ≠ []) {p e p' e' : Nat} (hp : Over p e (a ++ c ++ b)) (hc : Over p' e' c) :
    p ≤ p' ∧ e' ≤ e := over_nested hl hts hr hp hc

theorem span_ordered {buf : Bytes} {ts l c1 m c2 r : List Token} (hl : Lex.lexAll buf = .ok ts)
    (hts : ts = l ++ c1 ++ m ++ c2 ++ r) {p1 e1 p2 e2 : Nat} (h1 : Over p1 e1 c1) (h2 : Over p2 e2 c2) : e1 ≤ p2 :=
  over_ordered hl hts h1 h2

/-- non-vacuity: leading blanks and a comment before SELECT -/
example : (match Lex.lexAll (B "  /*c*/ select a FROM t LIMIT 1") with
    | .ok ts => (match parseQueryTop (Query.topFuel ts) ts with
      | .ok q => posQ q == 8 && (hd ts).pos == 8 && endQ q == 31
      | _ => false)
    | _ => false) = true := by decide +kernel

end MF.Props.C05
