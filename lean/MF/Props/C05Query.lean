/-
  C05 for the SELECT core (Task X, stage 4) — ONLY A FIRST STEP: `Pos()` of the three root nodes.

  `query_pos_first_token`: for an accepted token list, `Pos()` of the QueryStatement, of its QueryExpr (`Query` or
  `Select`) and of the `Select` node is the `pos` of the FIRST token (the SELECT keyword).
  NOT proved (see doc/reports/TASK_X_REPORT.md §4): `End()` of these nodes, and alignment / range / nesting / order of the
  inner nodes (items, aliases, FROM … LIMIT, and the nodes of the expression slots, for which `MF.Expr.place_ok` /
  `NodeIn.facts` of C05 for expressions apply at the slot's token index).  On every OK request the QUERY channel compares
  `Pos()` / `End()` of EVERY node with Go.
-/
import MF.Proofs.QuerySound
import MF.Spec.QueryPrintToks
namespace MF.Props.C05
open MF MF.Expr MF.Query

theorem parseSelect_pos {f : Nat} {ts rest : List Token} {s : Select} (h : parseSelect f ts = .ok (s, rest)) :
    s.select = (hd ts).pos := by
  unfold parseSelect at h
  split at h
  · simp only at h
    split at h
    · cases h
    · obtain ⟨i, _, h⟩ := Res.bind_eq_ok.1 h
      obtain ⟨l, _, h⟩ := Res.bind_eq_ok.1 h
      obtain ⟨fr, _, h⟩ := Res.bind_eq_ok.1 h
      obtain ⟨w, _, h⟩ := Res.bind_eq_ok.1 h
      obtain ⟨g, _, h⟩ := Res.bind_eq_ok.1 h
      obtain ⟨hv, _, h⟩ := Res.bind_eq_ok.1 h
      cases h
      rfl
  · cases h

theorem query_pos_first_token {fuel : Nat} {ts : List Token} {q : QueryStatement} (h : parseQueryTop fuel ts = .ok q) :
    posQ q = (hd ts).pos ∧ (selectOf q.query).select = (hd ts).pos := by
  unfold parseQueryTop at h
  obtain ⟨⟨q1, r1⟩, hp, hk⟩ := Res.bind_eq_ok.1 h
  simp only at hk
  split at hk
  · cases hk
    unfold parseQueryStatement at hp
    split at hp
    · cases hp
    · obtain ⟨⟨qe, r2⟩, hqe, hk2⟩ := Res.bind_eq_ok.1 hp
      cases hk2
      unfold parseQueryExpr at hqe
      split at hqe
      · cases hqe
      · obtain ⟨⟨s, r3⟩, hs, hsuf⟩ := Res.bind_eq_ok.1 hqe
        have hs' : parseSelect fuel ts = .ok (s, r3) := by
          unfold parseSimpleQueryExpr at hs
          split at hs
          · cases hs
          · cases hs
          · exact hs
          · cases hs
        have hpos := parseSelect_pos hs'
        obtain ⟨_, oks, tr⟩ := parseSelect_sound hs'
        simp only at hsuf
        split at hsuf
        · cases hsuf
        · cases hsuf
        · obtain ⟨_, heq, _⟩ := parseQueryExprSuffix_sound oks tr hsuf
          cases qe with
          | select s' =>
            simp only at heq; subst heq
            exact ⟨hpos, hpos⟩
          | query s' o l =>
            simp only at heq; subst heq
            exact ⟨hpos, hpos⟩
  · cases hk

/-- non-vacuity: leading blanks and a comment before SELECT -/
example : (match Lex.lexAll (B "  /*c*/ select a FROM t LIMIT 1") with
    | .ok ts => (match parseQueryTop (Query.topFuel ts) ts with
      | .ok q => posQ q == 8 && (hd ts).pos == 8 && endQ q == 31
      | _ => false)
    | _ => false) = true := by decide +kernel

end MF.Props.C05
