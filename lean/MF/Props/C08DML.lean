/-
  C08 — the documented grammar is what the parser accepts: the DML entry points (ParseDML, ParseDMLs, and
  ParseStatement / ParseStatements on a DML text), fragment M2.

  Model: MF/Model/Stmt2.lean (one Lean function per Go function of the DML part of parser.go, tied to the code by the
  DML channel: every field, every position, Pos()/End() of every node, SQL(), four entry points).  Grammar:
  MF/Spec/DMLGrammar.lean (`StmtD`: the derivations of G_DML with their trees; `G_DML ts := ∃ s, StmtD s ts`), written
  from the doc comments of ast/ast.go; an expression slot is "a token list reading as the yield of a table-grouped tree
  in normal form" (`ExprD`), i.e. exactly what `MF.Props.C07.parse_sound` / `parse_complete` speak about — they are used
  as black boxes, no induction over `Expr` happens here.

   (1) `dml_sound`      what `parseDML` consumed is a sentence of G_DML and the tree returned is its derivation tree
       `dml_sound_top`  the same for the entry point ParseDML (whole input = one statement)
   (2) `dml_complete`   every derivation is accepted with its tree, for all sufficiently large fuel, provided the
                        statement is followed by a token that ends it (`StmtFollow`: `;`, `<eof>`, … — not a token that
                        continues its last expression, not `,`, not THEN) and no token reads as the unquoted identifiers
                        SAFE_CAST / REPLACE_FIELDS (`NoCast`: the side condition of C07's completeness, on which
                        `parseLit` leaves the fragment M1)
       `dml_complete_top`
   (3) `dml_unique`     G_DML is unambiguous: one tree per sentence
   (4) `dml_entry_points_agree`  on a token list that starts with INSERT / DELETE / UPDATE the statement entry point
                        answers exactly what the DML entry point answers (for ANY expression parser and fuel); and
                        ParseStatement / ParseStatements return a tree (list) iff ParseDML / ParseDMLs return the same
-/
import MF.Proofs.DMLComplete
import MF.Proofs.DMLTerminates
namespace MF.Props.C08
open MF MF.Expr MF.DML

/-- (1) soundness -/
theorem dml_sound {fuel : Nat} {ts rest : List Token} {s : Stmt Expr}
    (h : parseDML parseExpr fuel ts = .ok (s, rest)) : ∃ pre, ts = pre ++ rest ∧ StmtD s pre :=
  parseDML_sound h

/-- (1) soundness of ParseDML -/
theorem dml_sound_top {fuel : Nat} {ts : List Token} {s : Stmt Expr} (h : parseDMLTop parseExpr fuel ts = .ok s) :
    ∃ pre rest, ts = pre ++ rest ∧ cur rest = .eof ∧ StmtD s pre ∧ G_DML pre := by
  unfold parseDMLTop finish at h
  obtain ⟨p, hp, h⟩ := Res.bind_eq_ok.1 h
  by_cases he : cur p.2 = .eof
  · rw [if_pos he] at h
    cases h
    obtain ⟨pre, hpre, hd⟩ := parseDML_sound (s := p.1) (rest := p.2) hp
    exact ⟨pre, p.2, hpre, he, hd, ⟨_, hd⟩⟩
  · rw [if_neg he] at h; cases h

/-- (2) completeness (eventual-fuel form) -/
theorem dml_complete {s : Stmt Expr} {pre : List Token} (hd : StmtD s pre) (hc : NoCast pre) {rest : List Token}
    (hf : StmtFollow rest) : ∃ n, ∀ fuel, n ≤ fuel → parseDML parseExpr fuel (pre ++ rest) = .ok (s, rest) :=
  parseDML_complete hd hc hf

theorem dml_stmtFollow_of_eof {rest : List Token} (h : cur rest = .eof) : StmtFollow rest := by
  refine ⟨?_, by rw [h]; decide, by rw [h]; decide⟩
  simp [Follow, noCont, h, contLevel]

/-- (2) completeness of ParseDML -/
theorem dml_complete_top {s : Stmt Expr} {pre : List Token} (hd : StmtD s pre) (hc : NoCast pre) {rest : List Token}
    (he : cur rest = .eof) : ∃ n, ∀ fuel, n ≤ fuel → parseDMLTop parseExpr fuel (pre ++ rest) = .ok s := by
  obtain ⟨n, hn⟩ := parseDML_complete hd hc (dml_stmtFollow_of_eof he)
  refine ⟨n, fun fuel hf => ?_⟩
  have := hn fuel hf
  simp only at this
  simp [parseDMLTop, finish, this, he]

/-- (3) unambiguity -/
theorem dml_unique {s s' : Stmt Expr} {pre : List Token} (h : StmtD s pre) (h' : StmtD s' pre) (hc : NoCast pre) :
    s = s' := by
  have hf : StmtFollow [] := dml_stmtFollow_of_eof rfl
  have e := Ev.unique (parseDML_complete h hc hf) (parseDML_complete h' hc hf)
  cases e; rfl

/-! (4) the entry points -/

theorem dml_statement_ok_iff {ε : Type} (pe : Nat → List Token → Res (ε × List Token)) (f : Nat) (ts : List Token)
    (r : Stmt ε × List Token) : parseStatement pe f ts = .ok r ↔ parseDML pe f ts = .ok r := by
  unfold parseStatement parseDML
  by_cases hh : hintAhead ts = true
  · simp [hh]
  · simp only [hh, Bool.false_eq_true, if_false]
    by_cases hk : (kwLike "INSERT" ts || kwLike "DELETE" ts || kwLike "UPDATE" ts) = true
    · rw [if_pos hk]
    · rw [if_neg hk]
      simp only [Bool.or_eq_true, not_or, Bool.not_eq_true] at hk
      have : parseDMLInternal pe f ts = .raise := by
        unfold parseDMLInternal
        simp [hk.1.1, hk.1.2, hk.2]
      rw [this]
      by_cases ho : otherStatementAhead ts = true <;> simp [ho]

theorem dml_stmtsLoop_ok_iff {α : Type} {P Q : Nat → List Token → Res (α × List Token)}
    (h : ∀ f ts r, P f ts = .ok r ↔ Q f ts = .ok r) :
    ∀ (f : Nat) (ts : List Token) (r : List α × List Token), stmtsLoop P f ts = .ok r ↔ stmtsLoop Q f ts = .ok r
  | 0, _, _ => by simp [stmtsLoop]
  | f + 1, ts, r => by
    rw [stmtsLoop.eq_2, stmtsLoop.eq_2]
    by_cases h1 : cur ts = .eof
    · simp [h1]
    · rw [if_neg h1, if_neg h1]
      by_cases h2 : kd ts = K ";"
      · rw [if_pos h2, if_pos h2]; exact dml_stmtsLoop_ok_iff h f _ r
      · rw [if_neg h2, if_neg h2]
        simp only [Res.bind_eq_ok]
        constructor
        · rintro ⟨a, ha, hk⟩
          refine ⟨a, (h f ts a).1 ha, ?_⟩
          by_cases h3 : kd a.2 = K ";"
          · rw [if_pos h3] at hk ⊢
            obtain ⟨q, hq, hk⟩ := Res.bind_eq_ok.1 hk
            exact Res.bind_eq_ok.2 ⟨q, (dml_stmtsLoop_ok_iff h f _ q).1 hq, hk⟩
          · rw [if_neg h3] at hk ⊢; exact hk
        · rintro ⟨a, ha, hk⟩
          refine ⟨a, (h f ts a).2 ha, ?_⟩
          by_cases h3 : kd a.2 = K ";"
          · rw [if_pos h3] at hk ⊢
            obtain ⟨q, hq, hk⟩ := Res.bind_eq_ok.1 hk
            exact Res.bind_eq_ok.2 ⟨q, (dml_stmtsLoop_ok_iff h f _ q).2 hq, hk⟩
          · rw [if_neg h3] at hk ⊢; exact hk

theorem dml_finish_ok_iff {α : Type} {r r' : Res (α × List Token)} (h : ∀ p, r = .ok p ↔ r' = .ok p) (a : α) :
    finish r = .ok a ↔ finish r' = .ok a := by
  unfold finish
  simp only [Res.bind_eq_ok]
  constructor <;> (rintro ⟨p, hp, hk⟩; exact ⟨p, by first | exact (h p).1 hp | exact (h p).2 hp, hk⟩)

/-- (4) -/
theorem dml_entry_points_agree {ε : Type} (pe : Nat → List Token → Res (ε × List Token)) (fuel : Nat) (ts : List Token) :
    ((kwLike "INSERT" ts || kwLike "DELETE" ts || kwLike "UPDATE" ts) = true →
        parseStatement pe fuel ts = parseDML pe fuel ts ∧ parseStatementTop pe fuel ts = parseDMLTop pe fuel ts) ∧
    (∀ s, parseStatementTop pe fuel ts = .ok s ↔ parseDMLTop pe fuel ts = .ok s) ∧
    (∀ l, parseStatementsTop pe fuel ts = .ok l ↔ parseDMLsTop pe fuel ts = .ok l) := by
  refine ⟨fun hk => ?_, fun s => ?_, fun l => ?_⟩
  · have hkk := hk
    simp only [Bool.or_eq_true] at hkk
    have hh : hintAhead ts = false := by
      have : ∃ s, kwLike s ts = true := by
        rcases hkk with (h | h) | h <;> exact ⟨_, h⟩
      obtain ⟨s, hs⟩ := this
      obtain ⟨t, tl, rfl, ht⟩ := kwLike_split hs
      exact not_hint_of_tk (kwLike_ident ht) (by decide)
    have e : parseStatement pe fuel ts = parseDML pe fuel ts := by
      unfold parseStatement parseDML
      simp [hh, hk]
    exact ⟨e, by unfold parseStatementTop parseDMLTop; rw [e]⟩
  · exact dml_finish_ok_iff (dml_statement_ok_iff pe fuel ts) s
  · exact dml_finish_ok_iff (dml_stmtsLoop_ok_iff (dml_statement_ok_iff pe) fuel ts) l

/-! (5) concrete fuel, with the termination / fuel stability of the DML model (MF/Proofs/DMLTerminates.lean, registered
under C03 as `dml_terminates`, `dml_fuel_stable`) -/

/-- (2) for ParseDML with a concrete fuel: every fuel `≥ dmlBound = 15 * |tokens| + 18` -/
theorem dml_complete_top_fuel {s : Stmt Expr} {pre : List Token} (hd : StmtD s pre) (hc : NoCast pre) {rest : List Token}
    (he : cur rest = .eof) {fuel : Nat} (h : dmlBound (pre ++ rest) ≤ fuel) :
    parseDMLTop parseExpr fuel (pre ++ rest) = .ok s := by
  obtain ⟨n, hn⟩ := dml_complete_top hd hc he
  have e := (dmlTops_stable peFine_expr peMono_expr h
    (Nat.le_max_right n (dmlBound (pre ++ rest)))).1
  rw [e]; exact hn _ (Nat.le_max_left _ _)

/-- in particular with the fuel of the driver -/
theorem dml_complete_top_driver {s : Stmt Expr} {pre : List Token} (hd : StmtD s pre) (hc : NoCast pre) {rest : List Token}
    (he : cur rest = .eof) : parseDMLTop parseExpr (dmlFuel (pre ++ rest)) (pre ++ rest) = .ok s :=
  dml_complete_top_fuel hd hc he (dmlBound_le_dmlFuel _)

/-! ## non-vacuity: concrete statements through the model lexer and the model parser -/

def dmlOkOf {α : Type} : Res α → Bool
  | .ok _ => true
  | _ => false

theorem dmlOkOf_ex {α : Type} {r : Res α} (h : dmlOkOf r = true) : ∃ a, r = .ok a := by
  cases r <;> simp [dmlOkOf] at h ⊢

/-- the tokens of a three-row INSERT into a table named `values` -/
def dmlExToks : List Token :=
  match Lex.lexAll (B "INSERT INTO values (a, b) VALUES (1, DEFAULT), (x + 2, \"y\")") with
  | .ok ts => ts
  | _ => []

theorem dml_ex_lex : Lex.lexAll (B "INSERT INTO values (a, b) VALUES (1, DEFAULT), (x + 2, \"y\")") = .ok dmlExToks := by rfl
theorem dml_ex_parse : dmlOkOf (parseDMLTop parseExpr (dmlFuel dmlExToks) dmlExToks) = true := by decide +kernel
theorem dml_ex_nocast : ∀ t ∈ dmlExToks, isCastLike t = false := by decide +kernel

/-- `dml_sound_top` on it: the consumed tokens are a sentence of G_DML -/
theorem dml_ex_derivable : ∃ pre rest, dmlExToks = pre ++ rest ∧ cur rest = .eof ∧ G_DML pre := by
  obtain ⟨s, hs⟩ := dmlOkOf_ex dml_ex_parse
  obtain ⟨pre, rest, h1, h2, _, h3⟩ := dml_sound_top hs
  exact ⟨pre, rest, h1, h2, h3⟩

/-- `dml_entry_points_agree` on it -/
theorem dml_ex_agree : parseStatementTop parseExpr (dmlFuel dmlExToks) dmlExToks = parseDMLTop parseExpr (dmlFuel dmlExToks) dmlExToks :=
  ((dml_entry_points_agree parseExpr (dmlFuel dmlExToks) dmlExToks).1 (by decide +kernel)).2

example : dmlRun "D" (B "DELETE FROM t WHERE a = 1") =
    "OK (delete 0 (path (id 12 13 74))@12:13 - (where 14 [(bin = (ident 61) (int 31)) 0:BinaryExpr:20:25:- 1:Ident:20:21:NamePos=20,NameEnd=21 1:IntLiteral:24:25:ValuePos=24,ValueEnd=25])@14:25)@0:25 44454c4554452046524f4d20742057484552452061203d2031 0 25" := by
  decide +kernel
example : dmlRun "S" (B "DELETE FROM t WHERE a = 1") = dmlRun "D" (B "DELETE FROM t WHERE a = 1") := by decide +kernel
example : dmlRun "Ds" (B "DELETE t WHERE a;; UPDATE t SET a = 1 WHERE b;") =
    "OK 2 (delete 0 (path (id 7 8 74))@7:8 - (where 9 [(ident 61) 0:Ident:15:16:NamePos=15,NameEnd=16])@9:16)@0:16 44454c4554452046524f4d20742057484552452061 0 16 (update 19 (path (id 26 27 74))@26:27 - ((item ((id 32 33 61)) (default -1 false [(int 31) 0:IntLiteral:36:37:ValuePos=36,ValueEnd=37])@36:37)@32:37) (where 38 [(ident 62) 0:Ident:44:45:NamePos=44,NameEnd=45])@38:45)@19:45 5550444154452074205345542061203d20312057484552452062 19 45" := by
  decide +kernel
/-- outside the fragment: sub-query input, THEN RETURN; a syntax error: UPDATE without WHERE, a trailing comma -/
example : dmlRun "D" (B "INSERT INTO t (a) SELECT 1") = "OUTSIDE" := by decide +kernel
example : dmlRun "D" (B "DELETE FROM t WHERE a THEN RETURN a") = "OUTSIDE" := by decide +kernel
example : dmlRun "D" (B "UPDATE t SET a = 1") = "ERR" := by decide +kernel
example : dmlRun "D" (B "INSERT INTO t (a,) VALUES (1)") = "ERR" := by decide +kernel
example : dmlRun "D" (B "INSERT INTO t (a) VALUES (1),") = "ERR" := by decide +kernel

end MF.Props.C08
