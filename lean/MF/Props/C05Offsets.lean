/-
  C05 / C06, obligation O2 `offsets_match` — whole grammar, static, decided by the kernel on tables REGENERATED from the
  Go sources on every run.

  `Gen.PosDoc`   (tools/extract/pos.go)      the documented `// pos =` / `// end =` expressions of every struct of ast/ast.go
  `Gen.PosProv`  (tools/extract/posprov.go)  for every composite literal `ast.K{…}` of parser.go (305 on the pinned tree:
                 304 `&ast.K{…}` and one `ast.K{…}`) and every `token.Pos` field of K: the PROVENANCE of the value —
                 which token it is the start / end of, and what the dominating guards say that token is
                 (types and the reading rules: MF/Model/PosProv.lean, header of posprov.go).

  What is checked (each theorem is a `decide +kernel` on the regenerated tables; a failing one is preceded by an `#eval`
  that PRINTS the offending rows as an error, so the build log names them):

   * `offsets_match`     for every kind K, every summand `F + n` (n a literal) of K's `pos` / `end`, every literal site of K
                         and every provenance p the field F can have there: `provOK n p` — p is the START of a token whose
                         class is known and whose raw text is n bytes long in every alternative (`sym "X"` ↦ |X|,
                         `kwlike "W"` ↦ |W|), or p is `InvalidPos` — EXCEPT exactly the (function, kind, field) triples of
                         `knownOffsetFindings` (recorded defects, known-findings.txt) and of `offsetsAssumed` (sites the
                         syntactic reader cannot resolve, each justified below).  "Exactly": a triple of either table
                         that is no longer undischarged fails the check too, so the tables cannot rot.
                         `Update + 6` → `+ 5` in ast.go, `expect("UPDATE")` replaced by a 5-letter keyword, a position read
                         after `nextToken()`, `.End` stored where `.Pos` is documented: each breaks this theorem and the
                         log names function, kind and field.  `expect(")")` → `expect("]")` under `Rparen + 1` does NOT
                         break it (still one byte): the obligation is about lengths, not spellings.
   * `offsets_every_kind_has_site`  a kind with a literal summand has at least one literal site (nothing is vacuous).
   * `offsets_out_of_scope`         the summands of another shape (`NamePos + len(Name)`, `ValuePos + (Value ? 4 : 5)`,
                                    `Atmark + 1 + len(Name)`, `DirPos + len(Dir)`) — listed, not checked here (the first
                                    three are covered by the proved fragments: C05.type_positions, C05.expr_positions).
   * `reads_guarded`     EVERY position field of every site (in a summand or not) has a provenance the reader can name —
                         a token whose class is known, a node's Pos()/End(), `InvalidPos` — except exactly the triples of
                         `unguardedReads`.  This is the detector for the defect class "position of the wrong token": a
                         `p.nextToken()` moved in front of a `p.Token.Pos` read, a guard removed, a field forgotten in a
                         literal (`unset`: the zero value is a VALID position) each add a triple.
   * `reader_understood` the reader gave up on no function, and the four helpers whose meaning the reading rules rely on
                         (`expect`, `expectKeywordLike`, `expectIdent` return the CURRENT token — checked to be of the
                         requested kind / spelling — and advance; `nextToken` advances) have exactly the source text the
                         rules were written against.

  What this is NOT: a proof that the site really executes with the token its provenance names.  That link is the
  extracted fact (a syntactic abstract interpretation of parser.go by tools/extract/posprov.go — trusted translator); the
  generic theorem `MF.PosProv.offset_sound` (MF/Proofs/PosProv.lean, restated below as `offset_meaning`) says what the
  obligation gives once that link holds: `F + n` is exactly the end of that token, a token boundary ≤ |buf|.  The run-time
  tie is the C05 predicate on every parsed tree (exploration).
-/
import MF.Proofs.PosProv
import MF.Gen.PosDoc
import MF.Gen.PosProv
namespace MF.Props.C05
open MF MF.Ast MF.PosProv MF.Gen

/-! ### the tables -/

/-- recorded defects of the pinned tree (known-findings.txt, key `site:ChangeStreamForAll.All`, C05 and C06):
    `All: p.Token.Pos` is read AFTER `p.nextToken()` consumed ALL, so `All + 3` is three bytes behind the NEXT token -/
def knownOffsetFindings : List Key := [("Parser.parseChangeStreamFor", "ChangeStreamForAll", "All")]

/-- summand sites the syntactic reader cannot discharge, with the reason -/
def offsetsAssumed : List (Key × String) := [
  (("Parser.parseArrayType", "ArrayType", "Gt"),
    "`Gt + 1`: on the branch `p.Token.Kind == \">>\"` the production rewrites the current token in place (Kind and Raw := \">\", " ++
    "Pos += 1) and stores the old Pos: the first byte of `>>`, read as a one-byte `>`.  Not a shape of the reader; the " ++
    "in-place split is modelled function for function in MF/Model/TypeParse.lean and `Gt + 1` is PROVED a token boundary " ++
    "there (C05.type_positions counts `>>` as two one-byte tokens)."),
  (("Parser.parseStructType", "StructType", "Gt"),
    "`Gt + 1`: Gt is the second result of parseStructTypeFields: `p.Token.Pos + 1` of a `<>` token (the `>` half of an " ++
    "empty field list), the same in-place `>>` split, or `p.expect(\">\").Pos`.  Same model and theorem as ArrayType.Gt.")]

/-- position fields whose provenance the reader cannot name, with the reason -/
def unguardedReads : List (Key × String) := [
  (("Parser.handleParseStatementError", "BadNode", "NodePos"), "recovery handler: `p.Token.Pos` right after the lexer was reset to the clone taken at the entry of the failed production — the first skipped token, whatever it is.  NodePos/NodeEnd of the four handlers are PROVED (C10.bad_tokens_exact, model MF/Model/Handlers.lean, HANDLER channel)"),
  (("Parser.handleParseStatementError", "BadNode", "NodeEnd"), "recovery handler: assigned in the skip loop, `p.Token.End` of the last skipped token (C10.bad_tokens_exact)"),
  (("Parser.handleParseQueryExprError", "BadNode", "NodePos"), "as handleParseStatementError"),
  (("Parser.handleParseQueryExprError", "BadNode", "NodeEnd"), "as handleParseStatementError"),
  (("Parser.handleParseExprError", "BadNode", "NodePos"), "as handleParseStatementError"),
  (("Parser.handleParseExprError", "BadNode", "NodeEnd"), "as handleParseStatementError"),
  (("Parser.handleParseTypeError", "BadNode", "NodePos"), "as handleParseStatementError"),
  (("Parser.handleParseTypeError", "BadNode", "NodeEnd"), "as handleParseStatementError"),
  (("Parser.tryParseSequenceArg", "SequenceArg", "Sequence"), "guarded by `p.lookaheadKeywordLikeArg(\"SEQUENCE\")` having returned true: the knowledge comes out of a function RESULT, not out of a test of p.Token the reader sees.  The field is only the node's `pos` (no summand)"),
  (("Parser.parseTVFArg", "ModelArg", "Model"), "as SequenceArg.Sequence: `case p.lookaheadKeywordLikeArg(\"MODEL\")`"),
  (("Parser.parseTVFArg", "TableArg", "Table"), "as SequenceArg.Sequence: `case p.lookaheadKeywordLikeArg(\"TABLE\")`"),
  (("Parser.parseArrayType", "ArrayType", "Gt"), "the in-place `>>` split, see offsetsAssumed"),
  (("Parser.parseStructType", "StructType", "Gt"), "the in-place `>>` split and `p.Token.Pos + 1` of `<>`, see offsetsAssumed"),
  (("Parser.parseChangeStreamFor", "ChangeStreamForAll", "All"), "KNOWN FINDING site:ChangeStreamForAll.All: read after `p.nextToken()`")]

/-- the summands that are not `F + literal`: out of the scope of `offsets_match` -/
def summandsOutOfScope : List (String × String × List IntE) := [
  ("OrderByItem", "DirPos", [.len "Dir"]),
  ("IsBoolExpr", "RightPos", [.ite "Right" (.lit 4) (.lit 5)]),
  ("Param", "Atmark", [.lit 1, .len "Name"]),
  ("BoolLiteral", "ValuePos", [.ite "Value" (.lit 4) (.lit 5)]),
  ("SimpleType", "NamePos", [.len "Name"]),
  ("IndexKey", "DirPos", [.len "Dir"]),
  ("ScalarSchemaType", "NamePos", [.len "Name"])]

/-! ### the computations -/

def undischarged : Option (List Undischarged) := undischargedZip Gen.posDoc Gen.PosProv.sitesByKind

def undischargedKeys : List Key := dedupKeys ((undischarged.getD []).map (·.key))

def excusedKeys : List Key := knownOffsetFindings ++ offsetsAssumed.map (·.1)

def untracedKeys : List Key := dedupKeys ((untraced Gen.PosProv.sitesByKind).map (·.1))

/-! ### diagnostics: evaluated by the interpreter only to NAME the rows in the build log; the theorems below are what counts -/

#eval show IO Unit from do
  unless Gen.PosProv.analysisFailures.isEmpty do
    throw (IO.userError ("O2 reader_understood: tools/extract/posprov.go gave up on " ++ toString (Gen.PosProv.analysisFailures.map (·.1))))
  match undischarged with
  | none => throw (IO.userError "O2 offsets_match: Gen.PosDoc and Gen.PosProv.sitesByKind do not list the same kinds in the same order")
  | some us =>
    let bad := us.filter (fun u => !excusedKeys.contains u.key)
    unless bad.isEmpty do
      throw (IO.userError ("O2 offsets_match FAILS at (function kind.field + n <- provenance): " ++
        "; ".intercalate (bad.map fun u => fmtKey u.key ++ " + " ++ toString u.n ++ " <- " ++ (toString (repr u.prov)).replace "\n" " ")))
    let stale := excusedKeys.filter (fun k => !undischargedKeys.contains k)
    unless stale.isEmpty do
      throw (IO.userError ("O2 offsets_match: table entries that are no longer undischarged (remove them from offsetsAssumed / knownOffsetFindings): " ++ fmtKeys stale))

#eval show IO Unit from do
  let listed := unguardedReads.map (·.1)
  let bad := (untraced Gen.PosProv.sitesByKind).filter (fun u => !listed.contains u.1)
  unless bad.isEmpty do
    throw (IO.userError ("O2 reads_guarded FAILS: position fields read from a token nothing is known about / not set / not understood (function kind.field <- provenance): " ++
      "; ".intercalate (bad.map fun u => fmtKey u.1 ++ " <- " ++ (toString (repr u.2)).replace "\n" " ")))
  let stale := listed.filter (fun k => !untracedKeys.contains k)
  unless stale.isEmpty do
    throw (IO.userError ("O2 reads_guarded: table entries that are traced now (remove them from unguardedReads): " ++ fmtKeys stale))

/-! ### the obligations -/

/-- the reader understood every function, and the helpers it gives a meaning to are the ones it was written against -/
theorem reader_understood :
    Gen.PosProv.analysisFailures = [] ∧
    Gen.PosProv.helperSrc = [
      ("Parser.expect", "func (p *Parser) expect(kind token.TokenKind) *token.Token {\n\tif p.Token.Kind != kind {\n\t\tp.panicfAtToken(&p.Token, \"expected token: %s, but: %s\", kind, p.Token.Kind)\n\t}\n\tt := p.Token.Clone()\n\tp.nextToken()\n\treturn t\n}"),
      ("Parser.expectKeywordLike", "func (p *Parser) expectKeywordLike(s string) *token.Token {\n\tid := p.expect(token.TokenIdent)\n\tif !id.IsKeywordLike(s) {\n\t\tif char.EqualFold(id.AsString, s) {\n\t\t\tp.panicfAtToken(id, \"pseudo keyword %s cannot encloses with backquote\", s)\n\t\t} else {\n\t\t\tp.panicfAtToken(id, \"expected pseudo keyword: %s, but: %s\", s, token.QuoteSQLIdent(id.AsString))\n\t\t}\n\t}\n\treturn id\n}"),
      ("Parser.expectIdent", "func (p *Parser) expectIdent(s string) *token.Token {\n\tid := p.expect(token.TokenIdent)\n\tif !id.IsIdent(s) {\n\t\tp.panicfAtToken(id, \"expected identifier: %s, but: %s\", s, token.QuoteSQLIdent(id.AsString))\n\t}\n\treturn id\n}"),
      ("Parser.nextToken", "func (p *Parser) nextToken() {\n\tp.Lexer.nextToken(false)\n}")] := by
  decide +kernel

set_option maxRecDepth 100000 in
/-- the static condition: the lock-step pass succeeds and the undischarged triples are exactly the listed ones -/
theorem offsets_match_static :
    undischarged.isSome = true ∧ sameKeys undischargedKeys excusedKeys = true := by decide +kernel

/-- **O2 `offsets_match`.**  Row by row: for every kind (`d` its documented positions, `r` its literal sites), every
    summand `F + n` of `pos` / `end`, every site, every provenance `p` of `F` at the site: `p` is the start of an
    n-byte token (or `InvalidPos`) — except at the known findings and the assumed sites. -/
theorem offsets_match {d : String × PosE × PosE} {r : KindSites} (hdr : (d, r) ∈ Gen.posDoc.zip Gen.PosProv.sitesByKind)
    {F : String} {n : Nat} (hs : (F, n) ∈ litSummands d.2.1 ++ litSummands d.2.2)
    {st : PosSite} (hst : st ∈ r.sites) {fp : FieldProv} (hfp : st.fields.find? (·.field == F) = some fp)
    {p : Prov} (hp : p ∈ fp.provs) :
    d.1 = r.kind ∧
    (provOK n p = true ∨ (st.func, r.kind, F) ∈ knownOffsetFindings ∨ (st.func, r.kind, F) ∈ offsetsAssumed.map (·.1)) := by
  have hstat := offsets_match_static
  cases hu : undischarged with
  | none => simp [hu] at hstat
  | some us =>
    obtain ⟨hname, hall⟩ := undischargedZip_sound (by simpa [undischarged] using hu) hdr
    refine ⟨hname, ?_⟩
    rcases hall (F, n) hs st hst fp hfp p hp with h | h
    · exact .inl h
    · refine .inr ?_
      have hk : (st.func, r.kind, F) ∈ undischargedKeys := by
        have : (st.func, r.kind, F) ∈ (us.map (·.key)) := List.mem_map.mpr ⟨_, h, rfl⟩
        unfold undischargedKeys
        rw [hu]
        exact mem_dedupKeys.mpr this
      have hsub : subsetKeys undischargedKeys excusedKeys = true := by
        have := hstat.2
        simp only [sameKeys, Bool.and_eq_true] at this
        exact this.1
      have := List.all_eq_true.mp hsub _ hk
      have hmem : (st.func, r.kind, F) ∈ excusedKeys := by simpa using this
      unfold excusedKeys at hmem
      exact List.mem_append.mp hmem

/-- no table entry is stale: every listed triple is still undischarged on the current tree -/
theorem offsets_tables_live : ∀ k ∈ excusedKeys, k ∈ undischargedKeys := by
  have := offsets_match_static.2
  simp only [sameKeys, Bool.and_eq_true] at this
  intro k hk
  simpa using List.all_eq_true.mp this.2 k hk

/-- no kind with a literal summand is without a literal site -/
theorem offsets_every_kind_has_site : noSiteZip Gen.posDoc Gen.PosProv.sitesByKind = [] := by decide +kernel

/-- the summands outside the scope of `offsets_match` -/
theorem offsets_out_of_scope :
    Gen.posDoc.flatMap (fun d => (oddSummands d.2.1 ++ oddSummands d.2.2).map (fun o => (d.1, o.1, o.2))) = summandsOutOfScope := by
  decide +kernel

set_option maxRecDepth 100000 in
/-- **`reads_guarded`.**  Every position field of every literal site is read from a token whose class the dominating
    guards determine, or is a node's Pos()/End(), or `InvalidPos` — except exactly the listed triples. -/
theorem reads_guarded : sameKeys untracedKeys (unguardedReads.map (·.1)) = true := by decide +kernel

/-- **O2, meaning** (generic; `MF.PosProv.offset_sound`): for an accepted input, a provenance that passes the check and a
    field value that is what the provenance says, `F + n` is the end of that very token — a token boundary inside the buffer -/
theorem offset_meaning {buf : Bytes} {ts : List Token} (hl : Lex.lexAll buf = .ok ts) {p : Prov} {n : Nat} {F : Int}
    (hok : provOK n p = true) (hh : p.Holds ts F) :
    F < 0 ∨ ∃ t ∈ ts, F = (t.pos : Int) ∧ F + (n : Int) = (t.end : Int) ∧ t.end ≤ buf.length ∧
      slice buf t.pos t.end = t.raw ∧ t.raw.length = n :=
  offset_sound hl hok hh

/-! ### non-vacuity: the rule at work on a real input -/

/-- `ForUpdate.end = Update + 6`; its only site gives `Update` the provenance `p.expectKeywordLike("UPDATE").Pos` -/
example : provOK 6 (.tok [.kwlike "UPDATE"] .start) = true := by decide
example : provOK 5 (.tok [.kwlike "UPDATE"] .start) = false := by decide
example : provOK 6 (.cur [] .start) = false := by decide
example : provOK 1 (.tok [.sym ")"] .start) = true ∧ provOK 1 (.tok [.sym "]"] .start) = true := by decide
example : provOK 6 (.tok [.kwlike "UPDATE"] .end) = false := by decide

end MF.Props.C05
