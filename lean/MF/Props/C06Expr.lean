/-
  C06 (a) for the expression fragment — the text of a node is exactly that node.

  Property theorems only (helper lemmas live in MF/Proofs/ExprPos*.lean, MF/Proofs/LexSlice*.lean).  Statements are about
  the model lexer (MF/Model/Lexer.lean, LEX channel) and the positioned model of the expression parser
  (MF/Model/ExprPos.lean, EXPRPOS channel).

   (1) LEXER: a token-aligned slice of an accepted input lexes on its own: if the token before the first token `x` of
       the range (if any) is not `.` and `x` is not `.`, then `buf[x.pos : m]` (`m` = end of the last token of the range)
       lexes to the tokens of the range moved `x.pos` bytes to the left (the first one without the comments / blanks in
       front of it), followed by `<eof>`.  Unlike Task K's `pieces_lex` no `;` is needed behind the range and the
       positions are really shifted (no padding with blanks).                                  — `slice_lex`
   (2) PARSER: a token list that is the token range of a sub-expression `n` moved `d` bytes to the left and followed by
       `<eof>` parses (for all sufficiently large fuel) to `n` with every position field moved `d` bytes to the left.
                                                                                                 — `exact_parse`
   (3) C06 (a): for `lexAll buf = ok ts`, `parsePTop ts = ok e` and every sub-expression `n` of `e` (`subsP e`):
       `buf[Pos(n) : End(n)]` lexes and `parsePTop` of it is `shiftP (Pos n) n`.                — `expr_exact_partial`
       PARTIAL in one respect: the hypothesis that no token inside the range of `n` is an unquoted identifier spelled
       SAFE_CAST or REPLACE_FIELDS (`isCastLike`).  Such a token can only be a field name behind a `.` (anywhere else the
       parser leaves the fragment); the statement is true for it as well (see the evaluated example `a.safe_cast`), but
       the proof goes through Task F's completeness theorem, which carries that side condition.  For the inputs the
       EXPR / EXPRPOS channels compare (`tokenOutside ts = false`) the side condition always holds — `expr_exact_inside`.

  Which nodes are covered: `subsP e` = every Go node of the tree that is an `ast.Expr` EXCEPT the `Ident`s that are
  components of a `Path` or the field name of a `SelectorExpr` (in the model these are `PIdent` records, not `PExpr`s).
  The `InCondition` / `SubscriptSpecifier` nodes are not expressions.  A folded literal `- 1` is covered as one node.
  For the excluded identifiers C06 is in general FALSE in the Go code, because the lexer reads the token behind a `.`
  in a mode of its own: `a.1` has the field `Ident "1"` whose text `1` parses as an IntLiteral, `a.select` has the field
  `Ident "select"` whose text is a keyword (examples at the end; Go agrees on both through the EXPRPOS channel).
-/
import MF.Proofs.ExprPosC06
namespace MF.Props.C06
open MF MF.Expr

/-- (1) lexing a token-aligned slice -/
theorem slice_lex_expr {buf : Bytes} {pre seg : List Token} {x t : Token} {more : List Token} {m : Nat}
    (h : Lex.lexAll buf = .ok (pre ++ x :: (seg ++ t :: more)))
    (hprev : ∀ hne : pre ≠ [], (pre.getLast hne).kind ≠ K ".") (hfirst : x.kind ≠ K ".")
    (hend : ∀ y ∈ x :: seg, y.end ≤ m) (hlast : ((x :: seg).getLast (by simp)).end = m) (hm : m ≤ buf.length) :
    ∃ eofT, Lex.lexAll (slice buf x.pos m) =
        .ok (Lex.S.bareT (Lex.S.shiftT x.pos x) :: (seg.map (Lex.S.shiftT x.pos) ++ [eofT])) ∧
      eofT.kind = .eof ∧ eofT.pos = m - x.pos ∧ eofT.end = m - x.pos :=
  Lex.S.slice_lex h hprev hfirst hend hlast hm

/-- (2) parsing the shifted tokens of a sub-expression -/
theorem exact_parse {ts ts' : List Token} {i d : Nat} {n : PExpr}
    (hn : placeG (pe ts) (erase n) i = (n, i + ntok (erase n))) (hpre : Pre ts i (yield (erase n)))
    (hnf : nf (erase n) = true) (hprec : precOK (erase n) = true)
    (hs : SliceToks ts i (i + ntok (erase n)) d ts')
    (hc : ∀ k, k < ntok (erase n) → isCastLike (tokAt ts (i + k)) = false) :
    ∃ N, ∀ fuel, N ≤ fuel → parsePTop fuel ts' = .ok (shiftP d n) :=
  Expr.exact_parse hn hpre hnf hprec hs hc

/-- (3) C06 (a) for every sub-expression -/
theorem expr_exact_partial {buf : Bytes} {ts : List Token} {fuel : Nat} {e : PExpr} (hl : Lex.lexAll buf = .ok ts)
    (hp : parsePTop fuel ts = .ok e) :
    ∀ n ∈ subsP e, (∀ t ∈ ts, posP n ≤ t.pos → t.end ≤ endP n → isCastLike t = false) →
      ∃ ts' N, Lex.lexAll (slice buf (posP n) (endP n)) = .ok ts' ∧
        ∀ fuel', N ≤ fuel' → parsePTop fuel' ts' = .ok (shiftP (posP n) n) :=
  expr_exact_proof hl hp

/-- (3') for the inputs the channels compare -/
theorem expr_exact_inside {buf : Bytes} {ts : List Token} {fuel : Nat} {e : PExpr} (hl : Lex.lexAll buf = .ok ts)
    (ho : tokenOutside ts = false) (hp : parsePTop fuel ts = .ok e) :
    ∀ n ∈ subsP e, ∃ ts' N, Lex.lexAll (slice buf (posP n) (endP n)) = .ok ts' ∧
      ∀ fuel', N ≤ fuel' → parsePTop fuel' ts' = .ok (shiftP (posP n) n) :=
  fun n hn => expr_exact_proof hl hp n hn (fun t ht _ _ => tokenOutside_cast ho t ht)

/-! non-vacuity: ` a.b [ OFFSET ( 1 ) ] - -1 IS NOT NULL` (leading blank, irregular spacing) through lexer and parser.
Its tree has 6 sub-expressions: the whole (1..38), `a.b [ OFFSET ( 1 ) ] - -1` (1..26), `a.b [ OFFSET ( 1 ) ]` (1..21),
`a.b` (1..4), `1` (16..17), `-1` (24..26). -/

example : (parseOf (B " a.b [ OFFSET ( 1 ) ] - -1 IS NOT NULL")).isSome = true ∧
    ∀ ts e, parseOf (B " a.b [ OFFSET ( 1 ) ] - -1 IS NOT NULL") = some (ts, e) →
      (subsP e).map spanP = [(1, 38), (1, 26), (1, 21), (1, 4), (16, 17), (24, 26)] ∧
      ∀ n ∈ subsP e, ∃ ts' N, Lex.lexAll (slice (B " a.b [ OFFSET ( 1 ) ] - -1 IS NOT NULL") (posP n) (endP n)) = .ok ts' ∧
        ∀ fuel', N ≤ fuel' → parsePTop fuel' ts' = .ok (shiftP (posP n) n) := by
  refine ⟨by decide +kernel, fun ts e h => ?_⟩
  have hs : ∀ p ∈ parseOf (B " a.b [ OFFSET ( 1 ) ] - -1 IS NOT NULL"),
      (subsP p.2).map spanP = [(1, 38), (1, 26), (1, 21), (1, 4), (16, 17), (24, 26)] ∧ tokenOutside p.1 = false := by
    decide +kernel
  obtain ⟨h1, h2⟩ := parseOf_some h
  exact ⟨(hs _ h).1, expr_exact_inside h1 (hs _ h).2 h2⟩

/-- the slices themselves, evaluated: the IndexExpr 1..21 re-parses as the same tree starting at 0 -/
example : exprPosRun (slice (B " a.b [ OFFSET ( 1 ) ] - -1 IS NOT NULL") 1 21) =
    "OK (index (path 61 62) (OFFSET (int 31))) 0:IndexExpr:0:20:Rbrack=19 1:Path:0:3:- 2:Ident:0:1:NamePos=0,NameEnd=1 2:Ident:2:3:NamePos=2,NameEnd=3 1:SubscriptSpecifierKeyword:6:18:KeywordPos=6,Rparen=17 2:IntLiteral:15:16:ValuePos=15,ValueEnd=16" := by
  decide +kernel

/-- the folded literal `-1` at 24..26 -/
example : exprPosRun (slice (B " a.b [ OFFSET ( 1 ) ] - -1 IS NOT NULL") 24 26) =
    "OK (int 2d31) 0:IntLiteral:0:2:ValuePos=0,ValueEnd=2" := by decide +kernel

/-! the excluded identifiers: the field name of `a.1` is the Ident `1` at 2..3, whose text parses as an IntLiteral; the
field name of `a.select` is the Ident `select` at 2..8, whose text is a keyword (not even inside the fragment) -/

example : exprPosRun (B "a.1") =
    "OK (path 61 31) 0:Path:0:3:- 1:Ident:0:1:NamePos=0,NameEnd=1 1:Ident:2:3:NamePos=2,NameEnd=3" := by decide +kernel
example : exprPosRun (slice (B "a.1") 2 3) = "OK (int 31) 0:IntLiteral:0:1:ValuePos=0,ValueEnd=1" := by decide +kernel
example : exprPosRun (B "a.select") =
    "OK (path 61 73656c656374) 0:Path:0:8:- 1:Ident:0:1:NamePos=0,NameEnd=1 1:Ident:2:8:NamePos=2,NameEnd=8" := by
  decide +kernel
example : exprPosRun (slice (B "a.select") 2 8) = "OUTSIDE" := by decide +kernel

/-! the repaired subscript (Task R1): clause (a) evaluated on every sub-expression (`c06=1`): in particular the text of
the column `offset` inside `a[offset]` (2..8) re-parses as that `Ident`, and the text of `a[offset (1)]` re-parses with
the keyword subscript -/

example : exprPosRunC (B "a[offset]") =
    "OK (index (ident 61) (expr (ident 6f6666736574))) 0:IndexExpr:0:9:Rbrack=8 1:Ident:0:1:NamePos=0,NameEnd=1 1:ExprArg:2:8:- 2:Ident:2:8:NamePos=2,NameEnd=8 c06=1" := by
  decide +kernel
example : exprPosRunC (B "a[ORDINAL * 2]") =
    "OK (index (ident 61) (expr (bin * (ident 4f5244494e414c) (int 32)))) 0:IndexExpr:0:14:Rbrack=13 1:Ident:0:1:NamePos=0,NameEnd=1 1:ExprArg:2:13:- 2:BinaryExpr:2:13:- 3:Ident:2:9:NamePos=2,NameEnd=9 3:IntLiteral:12:13:ValuePos=12,ValueEnd=13 c06=1" := by
  decide +kernel
example : exprPosRunC (B "a[offset.f]") =
    "OK (index (ident 61) (expr (path 6f6666736574 66))) 0:IndexExpr:0:11:Rbrack=10 1:Ident:0:1:NamePos=0,NameEnd=1 1:ExprArg:2:10:- 2:Path:2:10:- 3:Ident:2:8:NamePos=2,NameEnd=8 3:Ident:9:10:NamePos=9,NameEnd=10 c06=1" := by
  decide +kernel
example : exprPosRunC (B "a[safe_offset]") =
    "OK (index (ident 61) (expr (ident 736166655f6f6666736574))) 0:IndexExpr:0:14:Rbrack=13 1:Ident:0:1:NamePos=0,NameEnd=1 1:ExprArg:2:13:- 2:Ident:2:13:NamePos=2,NameEnd=13 c06=1" := by
  decide +kernel
example : exprPosRunC (B "a[OFFSET(1)]") =
    "OK (index (ident 61) (OFFSET (int 31))) 0:IndexExpr:0:12:Rbrack=11 1:Ident:0:1:NamePos=0,NameEnd=1 1:SubscriptSpecifierKeyword:2:11:KeywordPos=2,Rparen=10 2:IntLiteral:9:10:ValuePos=9,ValueEnd=10 c06=1" := by
  decide +kernel
example : exprPosRunC (B "a[offset (1)]") =
    "OK (index (ident 61) (OFFSET (int 31))) 0:IndexExpr:0:13:Rbrack=12 1:Ident:0:1:NamePos=0,NameEnd=1 1:SubscriptSpecifierKeyword:2:12:KeywordPos=2,Rparen=11 2:IntLiteral:10:11:ValuePos=10,ValueEnd=11 c06=1" := by
  decide +kernel
example : exprPosRun (slice (B "a[offset]") 2 8) = "OK (ident 6f6666736574) 0:Ident:0:6:NamePos=0,NameEnd=6" := by decide +kernel

/-! Task E, stage 1: clause (a) evaluated on every sub-expression of a tree with CASE and IF (`c06=1`); the slice of
the `CaseExpr` itself (1..34) re-parses to the same tree moved to offset 0 -/

example : exprPosRunC (B " CASE a WHEN 1 THEN - 1 ELSE b END . f + IF ( x , y , z )") =
    "OK (bin + (sel (case (ident 61) (when (int 31) (int 2d31)) (ident 62)) 66) (if (ident 78) (ident 79) (ident 7a))) 0:BinaryExpr:1:57:- 1:SelectorExpr:1:38:- 2:CaseExpr:1:34:Case=1,EndPos=31 3:Ident:6:7:NamePos=6,NameEnd=7 3:CaseWhen:8:23:When=8 4:IntLiteral:13:14:ValuePos=13,ValueEnd=14 4:IntLiteral:20:23:ValuePos=20,ValueEnd=23 3:CaseElse:24:30:Else=24 4:Ident:29:30:NamePos=29,NameEnd=30 2:Ident:37:38:NamePos=37,NameEnd=38 1:IfExpr:41:57:If=41,Rparen=56 2:Ident:46:47:NamePos=46,NameEnd=47 2:Ident:50:51:NamePos=50,NameEnd=51 2:Ident:54:55:NamePos=54,NameEnd=55 c06=1" := by
  decide +kernel
example : exprPosRun (slice (B " CASE a WHEN 1 THEN - 1 ELSE b END . f + IF ( x , y , z )") 1 34) =
    "OK (case (ident 61) (when (int 31) (int 2d31)) (ident 62)) 0:CaseExpr:0:33:Case=0,EndPos=30 1:Ident:5:6:NamePos=5,NameEnd=6 1:CaseWhen:7:22:When=7 2:IntLiteral:12:13:ValuePos=12,ValueEnd=13 2:IntLiteral:19:22:ValuePos=19,ValueEnd=22 1:CaseElse:23:29:Else=23 2:Ident:28:29:NamePos=28,NameEnd=29" := by
  decide +kernel

/-- Task E, stage 2: the text of an inner array literal re-parses to it (`Array` stays `InvalidPos`) -/
example : exprPosRunC (B "[[a]]") =
    "OK (array (array (ident 61))) 0:ArrayLiteral:0:5:Array=-1,Lbrack=0,Rbrack=4 1:ArrayLiteral:1:4:Array=-1,Lbrack=1,Rbrack=3 2:Ident:2:3:NamePos=2,NameEnd=3 c06=1" := by
  decide +kernel

end MF.Props.C06
