/-
  C04 (SQL part) — `SQL()` never panics on a tree of the right shape.

  `SqlTableOK` (MF/Proofs/TreeSql.lean) is a decidable check of the tables regenerated from ast/ast.go and ast/sql.go:
  every struct has a `SQL()` body; the body is a term of the DSL of MF/Model/Print.lean or one of the four hand-written
  bodies, for exactly the source text it was written against; every field a body mentions is declared, with the class
  the helper it is passed to requires (`x.F.SQL()`, `sqlOpt`, `paren` on single node fields, `sqlJoin` on node slices,
  `string(x.F)` on enums, `QuoteSQLIdent`/`QuoteSQLString` on strings, `QuoteSQLBytes` on `[]byte`, conditions on
  the matching classes); every enum constant is declared with the type of the field it is compared to; every `prec…`
  constant is declared; `p` is only used after `p := exprPrec(x)`, a local string only after its definition; the
  `exprPrec` switch only mentions catalogued kinds / enum fields / declared levels.

  `SqlShaped` is the precise precondition on the tree (details in the header of TreeSql.lean): kinds catalogued, scalar
  fields present, the children that the body dereferences unconditionally present, `paren` operands (and `x` itself
  after `p := exprPrec(x)`) of a kind / Op that `exprPrec` knows, node slices without nil elements, identifiers non-empty,
  recursively.  Because Go evaluates all arguments of `strOpt` / `strIfElse` / `sqlOpt` before the call, a child
  dereferenced inside their arguments counts as unconditional; only `if c { return … }` (`DefaultExpr`) is lazy.

   (1) `gen_sql_table_ok`   the regenerated tables pass the check (kernel-decided, lock-step certificate);
   (2) `sql_total`          for every shaped tree and every `unicode.IsPrint`, the model's `SQL()` returns: no nil
                            dereference, no `exprPrec: unexpected`, no index panic of `QuoteSQLIdent("")`;
   (3) `exprPrec_covers`    `exprPrec` has a row for every struct implementing `Expr` except `BadExpr` (which never is a
                            `paren` operand, see MF/Props/C01Tables.lean), and for every `BinaryOp` / `UnaryOp` value:
                            the "row in `exprPrec`" clause of `SqlShaped` only excludes `BadExpr` operands and Op strings
                            that are not enum values;
   (4) the hypotheses are not vacuous: concrete trees on which the model does report the panic.
-/
import MF.Proofs.TreeSql
import MF.Props.C01Tables
import MF.Gen.Catalog
import MF.Gen.SqlGo
namespace MF.Props.C04
open MF MF.Ast

/-- the lock-step certificate (one pass over catalogue and table; kernel-decided) -/
theorem gen_sql_table_zip : sqlZipOK Gen.sqlTables Gen.kinds Gen.sqlGo = true := by decide +kernel

theorem gen_sql_prec_ok : Gen.sqlTables.precOK = true := by decide +kernel

theorem gen_sql_table_ok : SqlTableOK Gen.sqlTables = true :=
  SqlTableOK_of_zip Gen.sqlTables gen_sql_table_zip gen_sql_prec_ok

/-- C04, SQL part -/
theorem sql_total (isPrint : Nat → Bool) (n : Node) (hn : SqlShaped Gen.sqlTables n) :
    ∃ s, sqlOf Gen.sqlTables isPrint n = some s :=
  sqlOf_total Gen.sqlTables isPrint gen_sql_table_ok n hn

/-- the general statement, for any table that passes the check -/
theorem sql_total_general (T : SqlTables) (isPrint : Nat → Bool) (hT : SqlTableOK T = true) (n : Node)
    (hn : SqlShaped T n) : ∃ s, sqlOf T isPrint n = some s :=
  sqlOf_total T isPrint hT n hn

theorem exprPrec_covers (k : KindDecl) (hk : k ∈ Gen.kinds) (he : k.ifaces.contains "Expr" = true)
    (hb : k.name ≠ "BadExpr") : ∃ row ∈ Gen.exprPrec, row.1 = k.name :=
  MF.Props.C01.exprPrec_covers k hk he hb

/-! ### non-vacuity -/

def ident (name : String) : Node := .mk "Ident" [("NamePos", .pos 0), ("NameEnd", .pos 1), ("Name", .str (B name))] .nil
def intLit (v : String) : Node :=
  .mk "IntLiteral" [("ValuePos", .pos 0), ("ValueEnd", .pos 1), ("Base", .int 10), ("Value", .str (B v))] .nil
def bin (op : String) (l r : Node) : Node :=
  .mk "BinaryExpr" [("Op", .str (B op))] (.cons "Left" none l (.cons "Right" none r .nil))

/-- `SELECT (1 + 2) * 3 FROM t`: `Hint` of the statement, `As`, `Where`, `GroupBy`, `Having` of the SELECT and
    `Hint`, `As`, `Sample` of the table name are absent; `From` is present; `Results` is a one-element slice -/
def sqlSample : Node :=
  .mk "QueryStatement" [] (.cons "Query" none
    (.mk "Select" [("Select", .pos 0), ("AllOrDistinct", .str [])]
      (.cons "Results" (some 0)
        (.mk "ExprSelectItem" [] (.cons "Expr" none (bin "*" (bin "+" (intLit "1") (intLit "2")) (intLit "3")) .nil))
      (.cons "From" none
        (.mk "From" [("From", .pos 19)]
          (.cons "Source" none (.mk "TableName" [] (.cons "Table" none (ident "t") .nil)) .nil))
      .nil)))
    .nil)

example : SqlShaped Gen.sqlTables sqlSample := by decide +kernel
example : sqlOf Gen.sqlTables (fun _ => true) sqlSample = some (B "SELECT (1 + 2) * 3 FROM t") := by decide +kernel

/-- the lazy `if x.Default { return "DEFAULT" }`: `Expr` may be absent exactly when `Default` is set -/
def defaultExpr (dflt : Bool) : Node := .mk "DefaultExpr" [("DefaultPos", .pos 0), ("Default", .bool dflt)] .nil
example : SqlShaped Gen.sqlTables (defaultExpr true) := by decide +kernel
example : sqlOf Gen.sqlTables (fun _ => true) (defaultExpr true) = some (B "DEFAULT") := by decide +kernel
example : ¬ SqlShaped Gen.sqlTables (defaultExpr false) := by decide +kernel
example : sqlOf Gen.sqlTables (fun _ => true) (defaultExpr false) = none := by decide +kernel

/-- a hand-written body: `OPTIONS`-style `name = true` prints the Go spelling of the bool -/
def optionsDef : Node :=
  .mk "OptionsDef" [] (.cons "Name" none (ident "x")
    (.cons "Value" none (.mk "BoolLiteral" [("ValuePos", .pos 4), ("Value", .bool true)] .nil) .nil))
example : SqlShaped Gen.sqlTables optionsDef := by decide +kernel
example : sqlOf Gen.sqlTables (fun _ => true) optionsDef = some (B "x = true") := by decide +kernel

/-! the converse flavour: unshaped trees on which the model does report the Go panic -/

/-- a required child is missing (`x.Expr.SQL()` on nil) -/
def whereNoExpr : Node := .mk "Where" [("Where", .pos 0)] .nil
example : ¬ SqlShaped Gen.sqlTables whereNoExpr := by decide +kernel
example : sqlOf Gen.sqlTables (fun _ => true) whereNoExpr = none := by decide +kernel

/-- an operand whose kind has no row in `exprPrec` (`panic("exprPrec: unexpected")`); the same `BadExpr` prints fine
    where it is not an operand -/
def badExpr : Node :=
  .mk "BadExpr" [] (.cons "BadNode" none (.mk "BadNode" [("NodePos", .pos 0), ("NodeEnd", .pos 1), ("Tokens", .toks [])] .nil) .nil)
example : SqlShaped Gen.sqlTables badExpr := by decide +kernel
example : sqlOf Gen.sqlTables (fun _ => true) badExpr = some [] := by decide +kernel
example : ¬ SqlShaped Gen.sqlTables (bin "+" badExpr (intLit "1")) := by decide +kernel
example : sqlOf Gen.sqlTables (fun _ => true) (bin "+" badExpr (intLit "1")) = none := by decide +kernel

/-- an Op that is not a `BinaryOp` value: no row for the node itself (`p := exprPrec(x)` panics) -/
example : ¬ SqlShaped Gen.sqlTables (bin "<>" (intLit "1") (intLit "2")) := by decide +kernel
example : sqlOf Gen.sqlTables (fun _ => true) (bin "<>" (intLit "1") (intLit "2")) = none := by decide +kernel

/-- the empty identifier (`QuoteSQLIdent("")` indexes `s[0]`) -/
example : ¬ SqlShaped Gen.sqlTables (ident "") := by decide +kernel
example : sqlOf Gen.sqlTables (fun _ => true) (ident "") = none := by decide +kernel

/-- a nil element in a slice (index 1 is skipped by the dump): `sqlJoin` dereferences it -/
def pathGap : Node := .mk "Path" [] (.cons "Idents" (some 0) (ident "a") (.cons "Idents" (some 2) (ident "b") .nil))
example : ¬ SqlShaped Gen.sqlTables pathGap := by decide +kernel
example : sqlOf Gen.sqlTables (fun _ => true) pathGap = none := by decide +kernel

/-- and the table check is not vacuous either: a struct without `SQL()`, a field of the wrong class -/
example : SqlTableOK ⟨[⟨"K", [], []⟩], [("K", .missing)], [], [], [], [], .le, "(", ")"⟩ = false := by decide +kernel
example : SqlTableOK ⟨[⟨"K", [⟨"F", .nodes, "[]*K"⟩], []⟩], [("K", .ret (.child "F"))], [], [], [], [], .le, "(", ")"⟩ = false := by
  decide +kernel
example : SqlTableOK ⟨[⟨"K", [⟨"F", .node, "*K"⟩], []⟩], [("K", .ret (.sqlOpt (.lit "(") "F" (.lit ")")))], [], [], [], [], .le, "(", ")"⟩ = true := by
  decide +kernel

end MF.Props.C04
