/-
  C03 for the `ParseType` entry point — the model of `ParseType` TERMINATES and RETURNS on every byte string:
  no fuel exhaustion, no crash, on accepted AND on rejected inputs.

  What is proved (about the Lean model MF/Model/TypeParse.lean: `parseType`, `parseTypeTop`, `typeRun`, tied to
  `memefish.ParseType` function for function and validated against it by the TYPE channel; lexer model MF/Model/Lexer.lean):

   * `parseType_terminates`        with the driver's fuel `topFuel ts = 6 * (|ts| + 2)` the entry point answers `ok` or
                                   `raise` on EVERY token list — never `outOfFuel`;
   * `parseType_terminates_bound`  the same with the smaller concrete bound `3 * |expand ts| + 2` (`expand`: every `>>` / `<>`
                                   counted as two tokens), which is `≤ 6 * |ts| + 2 ≤ topFuel ts` (`fuel_bound_linear`);
                                   `production_terminates` is the statement for the inner `parseType` on any state;
   * `parseType_fuel_stable`       every fuel `≥ topFuel ts` gives the answer of `topFuel ts` (so does every fuel above the
                                   smaller bound: `parseType_fuel_stable_bound`);
   * `parseType_decides`           hence the model DECIDES every token list: one tree for all sufficient fuels, or `raise`
                                   for all sufficient fuels;
   * `reject_fuel_irrelevant`      the half that `C08.fuel_irrelevant` left open: a rejection obtained with SOME fuel is the
                                   rejection obtained with the driver's fuel;
   * `typeRun_total`               lexer totality (`C03.lexer_terminates`) + the above: the TYPE request never answers
                                   `FUEL` and never `CRASH`, on every byte string; `typeRun_answers`: it answers `ERR` or
                                   `OK …` for a tree that every sufficient fuel returns.

  Why the bound holds: fuel is call depth; the look-ahead functions (`lookaheadType`, `lookaheadSimpleType`,
  `lookaheadKind`) are not recursive; the longest call chain that consumes no token has five calls
  (`parseFieldList → parseFieldType → parseType → parseStructType → parseStructTypeFields → parseFieldList` for the two
  tokens `STRUCT` `<`); the in-place split of `>>` rewrites the head instead of consuming it, which the measure
  `|expand ts|` counts as progress.  See MF/Proofs/TypeTerminates.lean (`TermAt`, `MonoAt`).

  What is NOT proved: termination of the other productions of parser.go (statements, queries, expressions outside the
  modelled fragment, DDL/DML) — for them C03 keeps the structural theorem `no_escape` and the wall-clock deadline of the
  predicate; nothing here is about Go run-time panics (the type productions have no index / nil dereference: the model
  has no `crash` result, and model ~ code is the TYPE channel on the explored inputs).  `raise` is absorbing in the model:
  it carries no state, so no statement about the parser state after a rejected input is made (after `ok` the remaining
  state is a suffix of the input modulo the split: `ok_state_suffix`).
-/
import MF.Proofs.TypeTerminates
import MF.Proofs.LexErr
namespace MF.Props.C03
open MF MF.TypeP MF.TypeG

/-- TERMINATION, driver's fuel.  On every token list — accepted or rejected — the model of `ParseType` answers. -/
theorem parseType_terminates (ts : PState) : parseTypeTop (topFuel ts) ts ≠ .outOfFuel :=
  parseTypeTop_ne_oof (typeFuel_le_topFuel ts)

/-- TERMINATION, concrete bound: three units of fuel per token (a `>>` / `<>` counted twice) plus two. -/
theorem parseType_terminates_bound (ts : PState) (fuel : Nat) (h : 3 * (expand ts).length + 2 ≤ fuel) :
    parseTypeTop fuel ts ≠ .outOfFuel :=
  parseTypeTop_ne_oof h

/-- the bound is linear in the number of tokens and below the driver's fuel -/
theorem fuel_bound_linear (ts : PState) :
    3 * (expand ts).length + 2 ≤ 6 * ts.length + 2 ∧ 6 * ts.length + 2 ≤ topFuel ts :=
  ⟨typeFuel_le ts, by unfold topFuel; omega⟩

/-- termination of the production `parseType` itself, from ANY state (e.g. one whose head is a split `>>`) -/
theorem production_terminates (ts : PState) (fuel : Nat) (h : 3 * (expand ts).length + 2 ≤ fuel) :
    parseType fuel ts ≠ .outOfFuel :=
  parseType_ne_oof h

/-- FUEL STABILITY.  Every fuel above the driver's gives the driver's answer. -/
theorem parseType_fuel_stable (ts : PState) (fuel : Nat) (h : topFuel ts ≤ fuel) :
    parseTypeTop fuel ts = parseTypeTop (topFuel ts) ts :=
  parseTypeTop_stable (Nat.le_trans (typeFuel_le_topFuel ts) h) (typeFuel_le_topFuel ts)

/-- the same from the concrete bound on -/
theorem parseType_fuel_stable_bound (ts : PState) (fuel : Nat) (h : 3 * (expand ts).length + 2 ≤ fuel) :
    parseTypeTop fuel ts = parseTypeTop (topFuel ts) ts :=
  parseTypeTop_stable h (typeFuel_le_topFuel ts)

/-- a non-`outOfFuel` answer survives more fuel (no bound needed) -/
theorem parseType_fuel_mono {n m : Nat} {ts : PState} (hnm : n ≤ m) (h : parseTypeTop n ts ≠ .outOfFuel) :
    parseTypeTop m ts = parseTypeTop n ts :=
  parseTypeTop_mono hnm h

/-- the model DECIDES every token list: with every sufficient fuel the same tree, or with every sufficient fuel `raise` -/
theorem parseType_decides (ts : PState) :
    (∃ t, ∀ fuel, 3 * (expand ts).length + 2 ≤ fuel → parseTypeTop fuel ts = .ok t) ∨
    (∀ fuel, 3 * (expand ts).length + 2 ≤ fuel → parseTypeTop fuel ts = .raise) := by
  cases h : parseTypeTop (topFuel ts) ts with
  | ok t => exact Or.inl ⟨t, fun fuel hf => (parseType_fuel_stable_bound ts fuel hf).trans h⟩
  | raise => exact Or.inr (fun fuel hf => (parseType_fuel_stable_bound ts fuel hf).trans h)
  | outOfFuel => exact absurd h (parseType_terminates ts)

/-- the rejected half of `C08.fuel_irrelevant`: a rejection obtained with SOME fuel is the driver's answer -/
theorem reject_fuel_irrelevant {fuel : Nat} {ts : PState} (h : parseTypeTop fuel ts = .raise) :
    parseTypeTop (topFuel ts) ts = .raise := by
  have hne : parseTypeTop fuel ts ≠ .outOfFuel := by rw [h]; exact Res.raise_ne_oof
  have h1 := parseTypeTop_mono (Nat.le_max_left fuel (topFuel ts)) hne
  have h2 := parseType_fuel_stable ts _ (Nat.le_max_right fuel (topFuel ts))
  rw [← h2, h1, h]

/-- frame after a success: the (expanded) remaining state is a proper suffix of the (expanded) input state; the head of
the remaining state may be the second half of a split `>>` -/
theorem ok_state_suffix {fuel : Nat} {ts ts' : PState} {t : Ty} (h : parseType fuel ts = .ok (t, ts')) :
    expand ts' <:+ expand ts ∧ (expand ts').length < (expand ts).length :=
  parseType_ok_suffix h

/-! ## the TYPE request on byte strings -/

theorem ok_ne_fuel (s : String) : "OK " ++ s ≠ "FUEL" ∧ "OK " ++ s ≠ "CRASH" := by
  constructor <;> intro h <;> have := congrArg String.toList h <;> simp at this

/-- TOTALITY of the TYPE request: on every byte string the lexer model terminates without crash and the parser model
answers, so the request is never answered `FUEL` or `CRASH` -/
theorem typeRun_total (buf : Bytes) : typeRun buf ≠ "FUEL" ∧ typeRun buf ≠ "CRASH" := by
  unfold typeRun
  cases hl : Lex.lexAll buf with
  | ok ts =>
    simp only
    cases hp : parseTypeTop (topFuel ts) ts with
    | ok t =>
      simp only [String.append_assoc]
      exact ok_ne_fuel _
    | raise => simp only; exact ⟨by decide, by decide⟩
    | outOfFuel => exact absurd hp (parseType_terminates ts)
  | err ts e => simp only; exact ⟨by decide, by decide⟩
  | crash ts => exact absurd hl (Lex.lexAll_ne_crash buf ts)

/-- what the request answers: `ERR`, or `OK …` for THE tree of the input (the one every sufficient fuel returns) -/
theorem typeRun_answers (buf : Bytes) :
    typeRun buf = "ERR" ∨
    ∃ ts t, Lex.lexAll buf = .ok ts ∧ (∀ fuel, 3 * (expand ts).length + 2 ≤ fuel → parseTypeTop fuel ts = .ok t) ∧
      typeRun buf = "OK " ++ sexpT t ++ " " ++ hxs (sqlT t) ++ " " ++ toString (posT t) ++ " " ++ toString (endT t) := by
  unfold typeRun
  cases hl : Lex.lexAll buf with
  | ok ts =>
    simp only
    cases hp : parseTypeTop (topFuel ts) ts with
    | ok t => exact Or.inr ⟨ts, t, rfl, fun fuel hf => (parseType_fuel_stable_bound ts fuel hf).trans hp, rfl⟩
    | raise => exact Or.inl rfl
    | outOfFuel => exact absurd hp (parseType_terminates ts)
  | err ts e => exact Or.inl rfl
  | crash ts => exact absurd hl (Lex.lexAll_ne_crash buf ts)

/-! ## non-vacuity on REJECTED inputs -/

/-- rejected inputs, through lexer and parser, evaluated by the kernel -/
example : typeRun (B "ARRAY<") = "ERR" := by decide +kernel
example : typeRun (B "STRUCT<a INT64,>") = "ERR" := by decide +kernel
example : typeRun (B "ARRAY<ARRAY<ARRAY<") = "ERR" := by decide +kernel
example : typeRun (B "STRUCT<STRUCT<STRUCT<") = "ERR" := by decide +kernel
example : typeRun (B "ARRAY<INT64>>") = "ERR" := by decide +kernel
example : typeRun (B "a.b.c.") = "ERR" := by decide +kernel
example : typeRun (B "") = "ERR" := by decide +kernel

def isOof {α : Type} : Res α → Bool | .outOfFuel => true | _ => false
def isRaise {α : Type} : Res α → Bool | .raise => true | _ => false

def rejA : List Token := match Lex.lexAll (B "ARRAY<ARRAY<ARRAY<") with | .ok ts => ts | _ => []
def rejS : List Token := match Lex.lexAll (B "STRUCT<STRUCT<STRUCT<") with | .ok ts => ts | _ => []
def rejG : List Token := match Lex.lexAll (B "ARRAY<ARRAY<ARRAY<INT64>>,") with | .ok ts => ts | _ => []

/-- `ARRAY<ARRAY<ARRAY<`: 7 tokens (with `<eof>`); the call chain is 7 deep: fuel 6 runs out, fuel 7 rejects, and so do
the bound `3 * 7 + 2 = 23` and the driver's fuel `54` -/
theorem rejA_facts : rejA.length = 7 ∧ (expand rejA).length = 7 ∧ topFuel rejA = 54 ∧
    isOof (parseTypeTop 6 rejA) = true ∧ isRaise (parseTypeTop 7 rejA) = true ∧
    isRaise (parseTypeTop 23 rejA) = true ∧ isRaise (parseTypeTop (topFuel rejA) rejA) = true := by
  decide +kernel

/-- `STRUCT<STRUCT<STRUCT<`: the five-calls-per-two-tokens chain: 16 calls for 7 tokens -/
theorem rejS_facts : rejS.length = 7 ∧ isOof (parseTypeTop 15 rejS) = true ∧ isRaise (parseTypeTop 16 rejS) = true ∧
    isRaise (parseTypeTop (3 * (expand rejS).length + 2) rejS) = true := by
  decide +kernel

/-- `ARRAY<ARRAY<ARRAY<INT64>>,`: rejected AFTER a split (`>>` then `,` where `>` is expected): 10 tokens, 11 expanded -/
theorem rejG_facts : rejG.length = 10 ∧ (expand rejG).length = 11 ∧
    isRaise (parseTypeTop (topFuel rejG) rejG) = true := by
  decide +kernel

/-- the theorems instantiated on a rejected input: the answer is `raise` for every fuel from the bound on -/
example : ∀ fuel, 23 ≤ fuel → parseTypeTop fuel rejA = .raise := by
  intro fuel hf
  have hb : 3 * (expand rejA).length + 2 = 23 := by decide +kernel
  rw [parseType_fuel_stable_bound rejA fuel (by omega), reject_fuel_irrelevant (fuel := 7) (ts := rejA) (by rfl)]

example : parseTypeTop (topFuel rejS) rejS ≠ .outOfFuel := parseType_terminates rejS

end MF.Props.C03
