/-
  C04 (parser side, whole grammar) — every node literal of parser.go fills the fields that `SQL()` / `Pos()` / `End()`
  dereference.  Static, regenerated on every run.

  WHAT IS A THEOREM (kernel-checked, no assumption beyond the tables being what the extractor wrote):
   (T1) `sqlShaped_of_required` (MF/Proofs/Required.lean): a tree in which every node carries the fields of
        `requiredFields` (computed from the regenerated sql.go / pos.go tables by the very clauses of `SqlShaped`), has
        non-empty strings in `nonEmptyFields` (`Ident.Name`: `QuoteSQLIdent("")` indexes `s[0]`) and meets the remaining
        clauses (`needRest`: no nil slice element, `exprPrec` rows, conditions evaluate) is `SqlShaped` — the hypothesis of
        `sql_total`.  `posRequired_nil`: `Pos()`/`End()` dereference no single-node field without a nil test.
   (T2) `sites_fill_required`: the decidable static condition `sitesOK` HOLDS for the tables regenerated from parser.go:
        at every literal site `&ast.K{…}` every required field of K has a never-nil class (a literal, a call of a function
        whose every `return` is never nil, a never-nil parameter, a pointer variable under an `x != nil` test, or a
        variable whose every path assigns one of those), or the (function, kind, field) triple is in `assumedSites`;
        every required-non-empty string comes from `id.AsString` of an identifier token (`MF.Lex.lexAll_ident_ne`, MF/Proofs/TypeNames.lean: the
        lexer never produces an identifier token with an empty name); the claimed never-nil sets are a post-fixed point
        (`consistent`; the greatest fixed point itself is computed by the extractor in Go, Lean re-checks consistency, which
        is what soundness needs); no post-construction assignment `x.F = v` puts a possibly-nil `v` into a required field;
        every `assumedSites` entry still matches a site that needs it (no rot); the extractor reported no failure.
   (T3) `sites_spec`: (T2) restated by name over `requiredFields` / `nonEmptyFields` (uses that kind names are distinct).
   (T4) `bad_sites_filled`: the `Bad*` wrapper literals (built in the handlers / deferred recover closures, see
        `MF.Props.C09.bad_sites`) fill their required `BadNode` with NO assumption; `BadNode` itself has no node field.

  WHAT IS AN EXTRACTED FACT (tools/extract/nodelits.go, a purely syntactic reader of parser.go; trusted as a translator):
   * that `Gen.nodeLits.kindSites` lists ALL composite literals of catalogued `ast.K` types in parser.go (305 on the pinned
     tree: 304 `&ast.K{…}` and the value literal `ast.ChangeStreamForTable{…}` whose address is appended to a slice) with
     the classes computed by its structured flow analysis (if / switch without default is a path / loops to a fixed point /
     `panic` and panic-only helpers end a path; anything unfamiliar is `unknown`, which is never never-nil);
   * that nodes are built in no other way: there is no `new(ast.K)`, no reflection, no other file of the package builds
     nodes (parse_helpers.go only delegates; checked by hand, see the report);
   * the list `Gen.nodeLits.mutations` of all assignments `x.F = v` to node-typed fields of local node variables.  On the pinned
     tree: `j.Sample = sample` ×5 in `parseTableExprSuffix` (optional field), `cs.For`, `cs.Options` in
     `parseCreateChangeStream` (optional), `cs.ChangeStreamAlteration = &ast.…{…}` ×3 in `parseAlterChangeStream` (REQUIRED:
     the literal leaves it absent and every path on which `cs` is returned assigns a literal first — the flow analysis
     applies the assignments to the site, which is why it needs no assumption; removing the `else { panic }` of the earlier
     defect `ALTER CHANGE STREAM s SET x` makes the class `[…, absent]` and the check fails).  Assignments to scalar or slice
     fields (`e.ValuePos`, `e.Value`, `c.Queries = append(…)`, `e.Idents = append(…)`, `forTable.Columns`, `forTable.Rparen`,
     `cswt.Tables = append(…)`) do not concern single-node fields.
  NOT covered (stated residuals): nil ELEMENTS of node slices (the `contig` clause: every slice of the parser is built by
  `append`/`parseCommaSeparatedList` from `parse…` results; not analysed), the `exprPrec` clause for `paren` operands
  (C01/C07), typed-nil pointers stored in OPTIONAL interface-typed fields.

  When the obligation breaks, the `#eval` in front of the theorem reports the offending sites by function, kind, line and
  field in the build log (an `error:` line), then `decide` fails.
-/
import MF.Proofs.Required
import MF.Proofs.NodeLits
import MF.Gen.NodeLits
import MF.Props.C04Pos
import MF.Props.C04Sql
namespace MF.Props.C04
open MF MF.Ast MF.NodeLits

/-- Sites accepted on a reading of the Go code.  Each entry: (function, kind, field) — justification. -/
def assumedSites : List Assumed := [
  -- `q, ok := query.(*ast.Query); if ok { return &ast.Query{…, Query: q.Query, …} }`: a field READ of a node that was built
  -- by one of the other `ast.Query` literals (parseQuery:341, parseQueryExprSuffix:805), whose `Query` is never nil by this
  -- very check (invariant: every existing node has its required fields); `q.Query` panics if `q` is nil, it does not return nil.
  ⟨"parseQuery", "Query", "Query"⟩,
  -- `from := p.tryParseFrom()` three lines after `if p.Token.Kind != "FROM" { panic(…) }`; `tryParseFrom` returns nil only
  -- when `p.Token.Kind != "FROM"` (its first statement), otherwise a literal.
  ⟨"parseFromQuery", "FromQuery", "From"⟩,
  -- parameter `id`; the only call is `p.parseTableNameSuffix(ids[0])` (parseSimpleTableExpr) under `len(ids) == 1` with
  -- `ids := p.parseIdentOrPath()` = `[]*ast.Ident{p.parseIdent()}` extended by `append(ids, p.parseIdent())`: never-nil elements.
  ⟨"parseTableNameSuffix", "TableName", "Table"⟩,
  -- `if properties := p.tryParsePropertyGraphElementProperties(); properties != nil { …{Properties: properties} }`: the
  -- variable is INTERFACE-typed, so the test alone does not exclude a typed nil; but the callee returns either the
  -- untyped `nil` or `p.parsePropertyGraphElementProperties()`, whose three `return`s are literals.
  ⟨"tryParsePropertyGraphLabelsOrProperties", "PropertyGraphSingleProperties", "Properties"⟩,
  -- `&ast.DefaultExpr{DefaultPos: pos, Default: true}`: `Expr` is absent, and `DefaultExpr.SQL()` is
  -- `if x.Default { return "DEFAULT" }; return x.Expr.SQL()` — lazy; `requiredFields` takes the union of both branches
  -- (conservative), `SqlShaped` itself accepts this node (`example : SqlShaped Gen.sqlTables (defaultExpr true)` in C04Sql.lean).
  -- The other literal of `parseDefaultExpr` (`Expr: p.parseExpr()`) needs no assumption.
  ⟨"parseDefaultExpr", "DefaultExpr", "Expr"⟩]

/-- diagnostic only (the obligation is the theorem below): name the sites in the build log when the condition fails -/
def unfilled : List (String × String × Nat × List String) :=
  badSitesZip Gen.nodeLits assumedSites Gen.sqlTables.kinds Gen.sqlTables.bodies genTables.go Gen.nodeLits.kindSites

#eval show IO Unit from do
  let F := Gen.nodeLits
  let bad := unfilled
  let muts := F.mutations.filter (fun m => !mutationOK F assumedSites Gen.sqlTables.bodies m)
  let rot := assumedSites.filter (fun a => !assumedUsed F a)
  let msg := (bad.map fun (fn, k, line, fs) => s!"parser.go:{line} {fn}: &ast.{k} does not provably fill {fs}") ++
    (muts.map fun m => s!"parser.go:{m.line} {m.fnName}: {m.target}.{m.field} = (possibly nil) on a required field of {m.kind}") ++
    (rot.map fun a => s!"assumedSites entry ({a.fn}, {a.kind}, {a.field}) matches no site that needs it") ++
    (if consistent F then [] else ["the claimed never-nil sets are not consistent"]) ++
    (F.failures.map fun f => s!"extractor failure: {f}")
  unless msg.isEmpty do
    throw <| IO.userError ("C04 sites_fill_required FAILS: " ++ "; ".intercalate msg)

set_option maxRecDepth 1000000 in
/-- **C04, parser side (T2).** -/
theorem sites_fill_required : sitesOK Gen.nodeLits Gen.sqlTables genTables assumedSites = true := by decide +kernel

/-- (T3) the same by name -/
theorem sites_spec :
    Gen.nodeLits.failures = [] ∧ consistent Gen.nodeLits = true ∧
    (∀ g ∈ Gen.nodeLits.kindSites, ∀ s ∈ g.sites,
      (∀ f ∈ requiredFields Gen.sqlTables genTables g.kind, fieldOK Gen.nodeLits assumedSites g.kind s f = true) ∧
      (∀ f ∈ nonEmptyFields Gen.sqlTables g.kind, strOK assumedSites g.kind s f = true)) ∧
    (∀ m ∈ Gen.nodeLits.mutations, mutationOK Gen.nodeLits assumedSites Gen.sqlTables.bodies m = true) ∧
    (∀ a ∈ assumedSites, assumedUsed Gen.nodeLits a = true) :=
  sitesOK_spec _ _ _ _ sites_fill_required MF.Props.C01.gen_kind_names_nodup

/-- (T1) restated for the regenerated tables: required fields present (+ the remaining clauses) ⇒ `SQL()` returns -/
theorem required_sql_total (isPrint : Nat → Bool) (n : Node) (h : n.reqShaped Gen.sqlTables genTables = true) :
    ∃ s, sqlOf Gen.sqlTables isPrint n = some s :=
  sql_total isPrint n (sqlShaped_of_required _ _ n h)

/-- `Pos()` / `End()` need no child at all -/
theorem pos_requires_nothing (k : String) : posRequired genTables k = [] := posRequired_nil _ k

def isBadKind (k : String) : Bool := k.startsWith "Bad"

/-- (T4) error-recovered trees: every `Bad*` literal fills its required fields (`BadNode` of the six wrappers) with no
    assumption, and there is at least one literal per `Bad*` kind -/
theorem bad_sites_filled :
    ((Gen.nodeLits.kindSites.filter (fun g => isBadKind g.kind)).all fun g =>
      !g.sites.isEmpty && g.sites.all fun s =>
        (requiredFields Gen.sqlTables genTables g.kind).all (fieldOK Gen.nodeLits [] g.kind s)) = true ∧
    (Gen.nodeLits.kindSites.filter (fun g => isBadKind g.kind)).map (·.kind) =
      (Gen.kinds.filter (fun k => isBadKind k.name)).map (·.name) := by decide +kernel

/-! ### non-vacuity: the condition does reject -/

/-- a `Delete` whose `Where` comes from `tryParseWhere` -/
example : fieldOK Gen.nodeLits [] "Delete"
    ⟨0, "parseDelete", 1, [("Where", [.maybeNil "tryParseWhere"])], []⟩ "Where" = false := by decide +kernel
/-- a field left nil on one path -/
example : clsNonNil Gen.nodeLits [.lit "X", .absent] = false := by decide +kernel
/-- an identifier whose name is not an identifier token's -/
example : strOK [] "Ident" ⟨0, "f", 1, [], [("Name", [.unknown "p.Token.AsString"])]⟩ "Name" = false := by decide +kernel
/-- a stale assumption -/
example : assumedUsed ⟨[⟨"Delete", [⟨0, "parseDelete", 1, [("Where", [.lit "Where"])], []⟩]⟩], [], [], [], [], [], []⟩
    ⟨"parseDelete", "Delete", "Where"⟩ = false := by decide +kernel
/-- an inconsistent claim: result 0 claimed never nil although it returns `nil` -/
example : consistent ⟨[], [(0, "f", [.nilLit])], [], [0], [], [], []⟩ = false := by decide +kernel

end MF.Props.C04
