/-
  C05 for the expression fragment — every node's range is aligned with tokens, nested in its parent and ordered
  among its siblings.

  Property theorems only (helper lemmas live in MF/Proofs/ExprPos*.lean).  The statements are about the model
  `parsePExpr … parsePTop` (MF/Model/ExprPos.lean) of parseExpr … parseLit in `parser.go` WITH the position fields of
  the Go nodes, and about `posP` / `endP` / `nodesP`, the generated `Pos()` / `End()` of ast/pos.go and the preorder
  list of all Go nodes (with depth, stored position fields and the spans of the direct children).  The EXPRPOS channel
  compares `nodesP` of the model's tree with the Go tree of `memefish.ParseExpr` on every run (node kinds, depth,
  Pos(), End(), every stored `token.Pos` field).

   (0) the positioned parser is the proved parser of C07 plus positions                  — `erase_parse`, `erase_parse_top`
   (1) the position fields are a function of the shape of the tree and of the token positions: the tree is
       `placeG (pe ts) (erase e) 0`                                                        — `positions_placed`
   (2) for lexer output `ts` and `parsePTop ts = ok e`, for EVERY Go node `n` of `e` (expressions, the `InCondition` /
       `SubscriptSpecifier` nodes, the `Ident`s of a path or selector):
         token alignment: `n.pos` is the `pos` of a token `a` and `n.end` the `end` of a token `b-1`, `a < b`, all
         inside the tokens the parse consumed; the children of `n` occupy consecutive disjoint token ranges inside
         `[a, b)` in source order (`Chain`), each child's span being (pos of its first token, end of its last);
         hence `n.pos < n.end ≤ len(input)`, every child lies inside `n`, and the children are in source order
         without overlap                                                                   — `expr_positions`
       the root starts at the first token and ends at the last token before `<eof>`        — first conjunct
   (3) a folded sign: `- 1` is ONE IntLiteral spanning TWO tokens, `ValuePos` = `pos` of the sign token,
       `ValueEnd` = `end` of the digits (so alignment holds with `b = a + 2`, and the node has no child)
                                                                                           — `folded_sign_span`
  No node kind of the fragment had to be excluded: all `End()` formulas (`Null + 4`, `ValuePos + len(TRUE|FALSE)`,
  `Rparen + 1`, `Rbrack + 1`, `Atmark + 1 + len(Name)`) agree with the end of the token they are computed from
  (MF/Proofs/LexTokLen.lean).
-/
import MF.Proofs.ExprPosC05
namespace MF.Props.C05
open MF MF.Expr

/-- (0) whatever the positioned parser answers, the proved parser answers the same with the positions erased -/
theorem erase_parse {fuel : Nat} {ts : List Token} {r : PPR} (h : parsePExpr fuel ts = r) :
    parseExpr fuel ts = r.map er := Expr.erase_parse h

theorem erase_parse_top {fuel : Nat} {ts : List Token} {r : Res PExpr} (h : parsePTop fuel ts = r) :
    parseExprTop fuel ts = r.map erase := Expr.erase_parseTop h

/-- (1) the positions are those `placeG` reads off the tokens -/
theorem positions_placed {all : List Token} {fuel i : Nat} {e : PExpr} {rest : List Token}
    (h : parsePExpr fuel (all.drop i) = .ok (e, rest)) :
    ∃ j, placeG (pe all) (erase e) i = (e, j) ∧ rest = all.drop j := parsePExpr_placed h

/-- (2) -/
theorem expr_positions {buf : Bytes} {ts : List Token} {fuel : Nat} {e : PExpr} (hl : Lex.lexAll buf = .ok ts)
    (hp : parsePTop fuel ts = .ok e) :
    (posP e = (tokAt ts 0).pos ∧ endP e = (tokAt ts (ntok (erase e) - 1)).end ∧
      tk (tokAt ts (ntok (erase e))).kind = .eof) ∧
    ∀ n ∈ nodesP 0 e,
      (∃ a b, a < b ∧ b ≤ ntok (erase e) ∧ n.pos = (tokAt ts a).pos ∧ n.end = (tokAt ts (b - 1)).end ∧
        ∃ idx, n.kids = idx.map (spanOf ts) ∧ Chain a b idx) ∧
      n.pos < n.end ∧ n.end ≤ buf.length ∧
      (∀ k ∈ n.kids, n.pos ≤ k.1 ∧ k.1 < k.2 ∧ k.2 ≤ n.end) ∧
      n.kids.Pairwise (fun k1 k2 => k1.2 ≤ k2.1) :=
  expr_positions_proof hl hp

/-- (3) a numeric literal with a folded sign is laid over two tokens -/
theorem folded_sign_span (g : Nat → Nat × Nat) (s : Sign) (raw : Bytes) (i : Nat) :
    placeG g (.int (some s) raw) i = (.int (g i).1 (g (i + 1)).2 (some s) raw, i + 2) ∧
    placeG g (.float (some s) raw) i = (.float (g i).1 (g (i + 1)).2 (some s) raw, i + 2) := by
  simp [placeG]

/-! non-vacuity: through the lexer and the parser, leading blank and irregular spacing -/

example : exprPosRun (B " a.b [ OFFSET ( 1 ) ] - -1 IS NOT NULL") =
    "OK (isnull true (bin - (index (path 61 62) (OFFSET (int 31))) (int 2d31))) 0:IsNullExpr:1:38:Null=34 1:BinaryExpr:1:26:- 2:IndexExpr:1:21:Rbrack=20 3:Path:1:4:- 4:Ident:1:2:NamePos=1,NameEnd=2 4:Ident:3:4:NamePos=3,NameEnd=4 3:SubscriptSpecifierKeyword:7:19:KeywordPos=7,Rparen=18 4:IntLiteral:16:17:ValuePos=16,ValueEnd=17 2:IntLiteral:24:26:ValuePos=24,ValueEnd=26" := by
  decide +kernel

/-- the folded sign with a comment between sign and digits: one IntLiteral from 0 to 9 -/
example : exprPosRun (B "- /*c*/ 1") = "OK (int 2d31) 0:IntLiteral:0:9:ValuePos=0,ValueEnd=9" := by decide +kernel

/-- `expr_positions` instantiated on the first input (`parseOf` = `lexAll` then `parsePTop`) -/
example : (parseOf (B " a.b [ OFFSET ( 1 ) ] - -1 IS NOT NULL")).isSome = true ∧
    ∀ ts e, parseOf (B " a.b [ OFFSET ( 1 ) ] - -1 IS NOT NULL") = some (ts, e) →
      ∀ n ∈ nodesP 0 e, n.pos < n.end ∧ n.end ≤ 38 ∧ (∀ k ∈ n.kids, n.pos ≤ k.1 ∧ k.1 < k.2 ∧ k.2 ≤ n.end) ∧
        n.kids.Pairwise (fun k1 k2 => k1.2 ≤ k2.1) := by
  refine ⟨by decide +kernel, fun ts e h n hn => ?_⟩
  obtain ⟨h1, h2⟩ := parseOf_some h
  have := (expr_positions h1 h2).2 n hn
  exact ⟨this.2.1, this.2.2.1, this.2.2.2.1, this.2.2.2.2⟩

/-! the repaired subscript (Task R1): a column named like a position keyword is an `ExprArg` over an ordinary
expression (`Ident` / `BinaryExpr` / `Path`), the keyword form is a `SubscriptSpecifierKeyword` whose `KeywordPos` is the
word and whose `Rparen` is the `)` — also when blanks separate the word from its `(` -/

example : exprPosRun (B "a[offset]") =
    "OK (index (ident 61) (expr (ident 6f6666736574))) 0:IndexExpr:0:9:Rbrack=8 1:Ident:0:1:NamePos=0,NameEnd=1 1:ExprArg:2:8:- 2:Ident:2:8:NamePos=2,NameEnd=8" := by
  decide +kernel
example : exprPosRun (B "a[ORDINAL * 2]") =
    "OK (index (ident 61) (expr (bin * (ident 4f5244494e414c) (int 32)))) 0:IndexExpr:0:14:Rbrack=13 1:Ident:0:1:NamePos=0,NameEnd=1 1:ExprArg:2:13:- 2:BinaryExpr:2:13:- 3:Ident:2:9:NamePos=2,NameEnd=9 3:IntLiteral:12:13:ValuePos=12,ValueEnd=13" := by
  decide +kernel
example : exprPosRun (B "a[offset.f]") =
    "OK (index (ident 61) (expr (path 6f6666736574 66))) 0:IndexExpr:0:11:Rbrack=10 1:Ident:0:1:NamePos=0,NameEnd=1 1:ExprArg:2:10:- 2:Path:2:10:- 3:Ident:2:8:NamePos=2,NameEnd=8 3:Ident:9:10:NamePos=9,NameEnd=10" := by
  decide +kernel
example : exprPosRun (B "a[safe_offset]") =
    "OK (index (ident 61) (expr (ident 736166655f6f6666736574))) 0:IndexExpr:0:14:Rbrack=13 1:Ident:0:1:NamePos=0,NameEnd=1 1:ExprArg:2:13:- 2:Ident:2:13:NamePos=2,NameEnd=13" := by
  decide +kernel
example : exprPosRun (B "a[OFFSET(1)]") =
    "OK (index (ident 61) (OFFSET (int 31))) 0:IndexExpr:0:12:Rbrack=11 1:Ident:0:1:NamePos=0,NameEnd=1 1:SubscriptSpecifierKeyword:2:11:KeywordPos=2,Rparen=10 2:IntLiteral:9:10:ValuePos=9,ValueEnd=10" := by
  decide +kernel
example : exprPosRun (B "a[offset (1)]") =
    "OK (index (ident 61) (OFFSET (int 31))) 0:IndexExpr:0:13:Rbrack=12 1:Ident:0:1:NamePos=0,NameEnd=1 1:SubscriptSpecifierKeyword:2:12:KeywordPos=2,Rparen=11 2:IntLiteral:10:11:ValuePos=10,ValueEnd=11" := by
  decide +kernel

/-! Task E, stage 1: `CaseExpr{Case, EndPos}` (End = EndPos + 3), its `CaseWhen{When}` (End = Then.end) and
`CaseElse{Else}` (End = Expr.end) nodes, `IfExpr{If, Rparen}` -/

example : exprPosRun (B " CASE a WHEN 1 THEN - 1 ELSE b END . f + IF ( x , y , z )") =
    "OK (bin + (sel (case (ident 61) (when (int 31) (int 2d31)) (ident 62)) 66) (if (ident 78) (ident 79) (ident 7a))) 0:BinaryExpr:1:57:- 1:SelectorExpr:1:38:- 2:CaseExpr:1:34:Case=1,EndPos=31 3:Ident:6:7:NamePos=6,NameEnd=7 3:CaseWhen:8:23:When=8 4:IntLiteral:13:14:ValuePos=13,ValueEnd=14 4:IntLiteral:20:23:ValuePos=20,ValueEnd=23 3:CaseElse:24:30:Else=24 4:Ident:29:30:NamePos=29,NameEnd=30 2:Ident:37:38:NamePos=37,NameEnd=38 1:IfExpr:41:57:If=41,Rparen=56 2:Ident:46:47:NamePos=46,NameEnd=47 2:Ident:50:51:NamePos=50,NameEnd=51 2:Ident:54:55:NamePos=54,NameEnd=55" := by
  decide +kernel

/-! Task E, stage 2: `ArrayLiteral{Array = InvalidPos, Lbrack, Rbrack}`: Pos = Lbrack, End = Rbrack + 1 -/

example : exprPosRun (B " [ 1 , a ] [ 0 ] || [ ]") =
    "OK (bin || (index (array (int 31) (ident 61)) (expr (int 30))) (array)) 0:BinaryExpr:1:23:- 1:IndexExpr:1:16:Rbrack=15 2:ArrayLiteral:1:10:Array=-1,Lbrack=1,Rbrack=9 3:IntLiteral:3:4:ValuePos=3,ValueEnd=4 3:Ident:7:8:NamePos=7,NameEnd=8 2:ExprArg:13:14:- 3:IntLiteral:13:14:ValuePos=13,ValueEnd=14 1:ArrayLiteral:20:23:Array=-1,Lbrack=20,Rbrack=22" := by
  decide +kernel

/-! Task E, stage 3: `CastExpr{Cast, Rparen}` with its `NamedType` (Pos / End of the first / last `Ident` of the path) -/

example : exprPosRun (B " CAST ( a AS b . c ) ") =
    "OK (cast (ident 61) (named 62 63)) 0:CastExpr:1:20:Cast=1,Rparen=19 1:Ident:8:9:NamePos=8,NameEnd=9 1:NamedType:13:18:- 2:Ident:13:14:NamePos=13,NameEnd=14 2:Ident:17:18:NamePos=17,NameEnd=18" := by
  decide +kernel

end MF.Props.C05
