/-
  C03 for the statement-level entry points of the two models on top of M1 — the SELECT core (MF/Model/Query.lean:
  `ParseQuery`, `ParseStatement`; channel QUERY) and the DML fragment (MF/Model/Stmt2.lean: `ParseDML`, `ParseDMLs`,
  `ParseStatement`, `ParseStatements`; channel DML): the models TERMINATE and RETURN on every byte string — no fuel
  exhaustion, no crash — on accepted, rejected and garbage inputs.

  What is proved (about the Lean models, tied to the Go entry points by the QUERY and DML channels on every run):

   QUERY, bound `queryFuel ts = 15 * |ts| + 15` (the expression bound: only the list loops of the query layer spend fuel):
   * `parseQuery_terminates`, `parseQueryStatement_terminates` (+ `…_bound`, `…_driver`): `Query.parseQueryTop` /
     `Query.parseStatementTop` never answer `outOfFuel` on ANY token list with that fuel, nor with the driver's
     `Query.topFuel ts = 32 * (|ts| + 2)` (`query_fuel_linear`);
   * `parseQuery_fuel_stable`, `parseQueryStatement_fuel_stable` (+ `…_driver`): the same answer for every fuel above the bound;
   * `parseQuery_decides`: one of ok / raise / outside for ALL sufficient fuels (token lists with `NumOK`, e.g. lexer output);
   * `queryRun_total`: the QUERY request never answers `FUEL` or `CRASH`, for both entry points, on every byte string.

   DML, bound `dmlBound ts = 15 * |ts| + 18` (expression bound + the three nested loops statement list → rows → row),
   for the model instantiated with `parseExpr` (`dml_…`) and with the positioned `parsePExpr` (`dmlP_…`, the DML channel):
   * `dml_terminates`, `dmlP_terminates`: the four entry points never answer `outOfFuel` on ANY token list;
     `dmlP_terminates_driver`: nor with the request's `dmlFuel ts = 34 * (|ts| + 2)` (`dml_fuel_linear`);
   * `dml_fuel_stable`, `dmlP_fuel_stable`, `dmlP_fuel_stable_driver`: the same answer for every fuel above the bound;
   * `dmlRun_total`: the DML request never answers `FUEL` or `CRASH`, for every entry-point tag, on every byte string.

  Proofs: MF/Proofs/QueryTerminates.lean, MF/Proofs/DMLTerminates.lean (one pass `Fine` per function: answered, no crash
  under `NumOK`, rest is a suffix; the expression slot is the black box `parseExpr_ne_oof` / `parsePExpr_ne_oof` of
  C03Expr; new fuel-monotonicity lemmas for both layers).

  What is NOT proved: where the Go parser leaves the fragments (hints, WITH, joins, set operators, sub-queries, INSERT …
  SELECT, THEN RETURN, DDL, …) the models answer `outside` and nothing further is claimed; the other productions keep
  `no_escape` + the deadline of the predicate.  `raise` carries no state.
-/
import MF.Proofs.QueryTerminates
import MF.Proofs.DMLTerminates
import MF.Proofs.LexErr
import MF.Props.C03Expr
namespace MF.Props.C03
open MF MF.Expr

/-! ## QUERY -/

theorem parseQuery_terminates (ts : List Token) : Query.parseQueryTop (Query.queryFuel ts) ts ≠ .outOfFuel :=
  Query.parseQueryTop_ne_oof (Nat.le_refl _)

theorem parseQuery_terminates_bound (ts : List Token) (fuel : Nat) (h : 15 * ts.length + 15 ≤ fuel) :
    Query.parseQueryTop fuel ts ≠ .outOfFuel :=
  Query.parseQueryTop_ne_oof h

theorem parseQueryStatement_terminates (ts : List Token) : Query.parseStatementTop (Query.queryFuel ts) ts ≠ .outOfFuel :=
  Query.parseStatementTop_ne_oof (Nat.le_refl _)

theorem parseQueryStatement_terminates_bound (ts : List Token) (fuel : Nat) (h : 15 * ts.length + 15 ≤ fuel) :
    Query.parseStatementTop fuel ts ≠ .outOfFuel :=
  Query.parseStatementTop_ne_oof h

/-- the bound is a concrete linear function of the number of tokens (the expression bound) and lies below the driver's fuel -/
theorem query_fuel_linear (ts : List Token) :
    Query.queryFuel ts = 15 * ts.length + 15 ∧ Query.queryFuel ts = exprFuel ts ∧
    Query.topFuel ts = 32 * (ts.length + 2) ∧ Query.queryFuel ts ≤ Query.topFuel ts :=
  ⟨rfl, rfl, rfl, Query.queryFuel_le_topFuel ts⟩

/-- with the fuel the driver passes for QUERY requests -/
theorem parseQuery_terminates_driver (ts : List Token) :
    Query.parseQueryTop (Query.topFuel ts) ts ≠ .outOfFuel ∧ Query.parseStatementTop (Query.topFuel ts) ts ≠ .outOfFuel :=
  ⟨Query.parseQueryTop_ne_oof (Query.queryFuel_le_topFuel ts), Query.parseStatementTop_ne_oof (Query.queryFuel_le_topFuel ts)⟩

theorem parseQuery_fuel_stable (ts : List Token) (fuel : Nat) (h : Query.queryFuel ts ≤ fuel) :
    Query.parseQueryTop fuel ts = Query.parseQueryTop (Query.queryFuel ts) ts :=
  Query.parseQueryTop_stable h (Nat.le_refl _)

theorem parseQueryStatement_fuel_stable (ts : List Token) (fuel : Nat) (h : Query.queryFuel ts ≤ fuel) :
    Query.parseStatementTop fuel ts = Query.parseStatementTop (Query.queryFuel ts) ts :=
  Query.parseStatementTop_stable h (Nat.le_refl _)

theorem parseQuery_fuel_stable_driver (ts : List Token) (fuel : Nat) (h : Query.queryFuel ts ≤ fuel) :
    Query.parseQueryTop fuel ts = Query.parseQueryTop (Query.topFuel ts) ts ∧
    Query.parseStatementTop fuel ts = Query.parseStatementTop (Query.topFuel ts) ts :=
  ⟨Query.parseQueryTop_stable h (Query.queryFuel_le_topFuel ts), Query.parseStatementTop_stable h (Query.queryFuel_le_topFuel ts)⟩

/-- `ParseQuery` (model) decides, and with EVERY sufficient fuel the same way -/
theorem parseQuery_decides (ts : List Token) (hn : NumOK ts) :
    (∃ q, ∀ fuel, 15 * ts.length + 15 ≤ fuel → Query.parseQueryTop fuel ts = .ok q) ∨
    (∀ fuel, 15 * ts.length + 15 ≤ fuel → Query.parseQueryTop fuel ts = .raise) ∨
    (∀ fuel, 15 * ts.length + 15 ≤ fuel → Query.parseQueryTop fuel ts = .outside) := by
  cases h : Query.parseQueryTop (Query.queryFuel ts) ts with
  | ok e => exact Or.inl ⟨e, fun fuel hf => (parseQuery_fuel_stable ts fuel hf).trans h⟩
  | raise => exact Or.inr (Or.inl fun fuel hf => (parseQuery_fuel_stable ts fuel hf).trans h)
  | outside => exact Or.inr (Or.inr fun fuel hf => (parseQuery_fuel_stable ts fuel hf).trans h)
  | crash => exact absurd h (Query.parseQueryTop_ne_crash (Nat.le_refl _) hn)
  | outOfFuel => exact absurd h (parseQuery_terminates ts)

/-- TOTALITY of the QUERY request (`stmt = false`: ParseQuery, `stmt = true`: ParseStatement) -/
theorem queryRun_total (stmt : Bool) (buf : Bytes) :
    Query.queryRun stmt buf ≠ "FUEL" ∧ Query.queryRun stmt buf ≠ "CRASH" := by
  unfold Query.queryRun
  cases hl : Lex.lexAll buf with
  | ok ts =>
    have hn := lexAll_numOK hl
    have hb := Query.queryFuel_le_topFuel ts
    cases stmt
    · simp only [Bool.false_eq_true, ↓reduceIte]
      split
      · exact ⟨by decide, by decide⟩
      · cases hp : Query.parseQueryTop (Query.topFuel ts) ts with
        | ok q => simp only [String.append_assoc]; exact ok_ne_fuel _
        | raise => exact ⟨by decide, by decide⟩
        | outside => exact ⟨by decide, by decide⟩
        | crash => exact absurd hp (Query.parseQueryTop_ne_crash hb hn)
        | outOfFuel => exact absurd hp (Query.parseQueryTop_ne_oof hb)
    · simp only [↓reduceIte]
      split
      · exact ⟨by decide, by decide⟩
      · cases hp : Query.parseStatementTop (Query.topFuel ts) ts with
        | ok q => simp only [String.append_assoc]; exact ok_ne_fuel _
        | raise => exact ⟨by decide, by decide⟩
        | outside => exact ⟨by decide, by decide⟩
        | crash => exact absurd hp (Query.parseStatementTop_ne_crash hb hn)
        | outOfFuel => exact absurd hp (Query.parseStatementTop_ne_oof hb)
  | err ts e => simp only; exact ⟨by decide, by decide⟩
  | crash ts => exact absurd hl (Lex.lexAll_ne_crash buf ts)

/-! ## DML -/

/-- the bound and the fuel of the DML request -/
theorem dml_fuel_linear (ts : List Token) :
    DML.dmlBound ts = 15 * ts.length + 18 ∧ DML.dmlFuel ts = 34 * (ts.length + 2) ∧ DML.dmlBound ts ≤ DML.dmlFuel ts :=
  ⟨rfl, rfl, DML.dmlBound_le_dmlFuel ts⟩

/-- TERMINATION of `ParseDML`, `ParseDMLs`, `ParseStatement`, `ParseStatements` (model over `parseExpr`) on every token list -/
theorem dml_terminates (ts : List Token) (fuel : Nat) (h : 15 * ts.length + 18 ≤ fuel) :
    DML.parseDMLTop parseExpr fuel ts ≠ .outOfFuel ∧ DML.parseDMLsTop parseExpr fuel ts ≠ .outOfFuel ∧
    DML.parseStatementTop parseExpr fuel ts ≠ .outOfFuel ∧ DML.parseStatementsTop parseExpr fuel ts ≠ .outOfFuel :=
  DML.dmlTops_ne_oof DML.peFine_expr h

/-- the same for the positioned model (the one the DML channel runs) -/
theorem dmlP_terminates (ts : List Token) (fuel : Nat) (h : 15 * ts.length + 18 ≤ fuel) :
    DML.parseDMLTop parsePExpr fuel ts ≠ .outOfFuel ∧ DML.parseDMLsTop parsePExpr fuel ts ≠ .outOfFuel ∧
    DML.parseStatementTop parsePExpr fuel ts ≠ .outOfFuel ∧ DML.parseStatementsTop parsePExpr fuel ts ≠ .outOfFuel :=
  DML.dmlTops_ne_oof DML.peFine_pexpr h

/-- with the fuel the DML request passes -/
theorem dmlP_terminates_driver (ts : List Token) :
    DML.parseDMLTop parsePExpr (DML.dmlFuel ts) ts ≠ .outOfFuel ∧ DML.parseDMLsTop parsePExpr (DML.dmlFuel ts) ts ≠ .outOfFuel ∧
    DML.parseStatementTop parsePExpr (DML.dmlFuel ts) ts ≠ .outOfFuel ∧
    DML.parseStatementsTop parsePExpr (DML.dmlFuel ts) ts ≠ .outOfFuel :=
  DML.dmlTops_ne_oof DML.peFine_pexpr (DML.dmlBound_le_dmlFuel ts)

/-- FUEL STABILITY of the four entry points (model over `parseExpr`) -/
theorem dml_fuel_stable (ts : List Token) (fuel : Nat) (h : DML.dmlBound ts ≤ fuel) :
    DML.parseDMLTop parseExpr fuel ts = DML.parseDMLTop parseExpr (DML.dmlBound ts) ts ∧
    DML.parseDMLsTop parseExpr fuel ts = DML.parseDMLsTop parseExpr (DML.dmlBound ts) ts ∧
    DML.parseStatementTop parseExpr fuel ts = DML.parseStatementTop parseExpr (DML.dmlBound ts) ts ∧
    DML.parseStatementsTop parseExpr fuel ts = DML.parseStatementsTop parseExpr (DML.dmlBound ts) ts :=
  DML.dmlTops_stable DML.peFine_expr DML.peMono_expr h (Nat.le_refl _)

theorem dmlP_fuel_stable (ts : List Token) (fuel : Nat) (h : DML.dmlBound ts ≤ fuel) :
    DML.parseDMLTop parsePExpr fuel ts = DML.parseDMLTop parsePExpr (DML.dmlBound ts) ts ∧
    DML.parseDMLsTop parsePExpr fuel ts = DML.parseDMLsTop parsePExpr (DML.dmlBound ts) ts ∧
    DML.parseStatementTop parsePExpr fuel ts = DML.parseStatementTop parsePExpr (DML.dmlBound ts) ts ∧
    DML.parseStatementsTop parsePExpr fuel ts = DML.parseStatementsTop parsePExpr (DML.dmlBound ts) ts :=
  DML.dmlTops_stable DML.peFine_pexpr DML.peMono_pexpr h (Nat.le_refl _)

/-- … which is the answer of the request's fuel -/
theorem dmlP_fuel_stable_driver (ts : List Token) (fuel : Nat) (h : DML.dmlBound ts ≤ fuel) :
    DML.parseDMLTop parsePExpr fuel ts = DML.parseDMLTop parsePExpr (DML.dmlFuel ts) ts ∧
    DML.parseDMLsTop parsePExpr fuel ts = DML.parseDMLsTop parsePExpr (DML.dmlFuel ts) ts ∧
    DML.parseStatementTop parsePExpr fuel ts = DML.parseStatementTop parsePExpr (DML.dmlFuel ts) ts ∧
    DML.parseStatementsTop parsePExpr fuel ts = DML.parseStatementsTop parsePExpr (DML.dmlFuel ts) ts :=
  DML.dmlTops_stable DML.peFine_pexpr DML.peMono_pexpr h (DML.dmlBound_le_dmlFuel ts)

theorem resLine_ne {α : Type} (render : α → String) {r : Res α} (h1 : r ≠ .outOfFuel) (h2 : r ≠ .crash) :
    DML.resLine render r ≠ "FUEL" ∧ DML.resLine render r ≠ "CRASH" := by
  cases r with
  | ok a => simp only [DML.resLine]; exact ok_ne_fuel _
  | raise => simp only [DML.resLine]; exact ⟨by decide, by decide⟩
  | outside => simp only [DML.resLine]; exact ⟨by decide, by decide⟩
  | crash => exact absurd rfl h2
  | outOfFuel => exact absurd rfl h1

/-- TOTALITY of the DML request, for every entry-point tag `ep` (`D`, `Ds`, `S`, `Ss`; anything else is `BADREQ`) -/
theorem dmlRun_total (ep : String) (buf : Bytes) : DML.dmlRun ep buf ≠ "FUEL" ∧ DML.dmlRun ep buf ≠ "CRASH" := by
  unfold DML.dmlRun
  cases hl : Lex.lexAll buf with
  | ok ts =>
    have hn := lexAll_numOK hl
    obtain ⟨t1, t2, t3, t4⟩ := dmlP_terminates_driver ts
    obtain ⟨c1, c2, c3, c4⟩ := DML.dmlTops_ne_crash DML.peFine_pexpr (DML.dmlBound_le_dmlFuel ts) hn
    simp only
    split
    · exact ⟨by decide, by decide⟩
    · split
      · exact resLine_ne _ t1 c1
      · split
        · exact resLine_ne _ t3 c3
        · split
          · exact resLine_ne _ t2 c2
          · split
            · exact resLine_ne _ t4 c4
            · exact ⟨by decide, by decide⟩
  | err ts e => simp only; exact ⟨by decide, by decide⟩
  | crash ts => exact absurd hl (Lex.lexAll_ne_crash buf ts)

/-! ## non-vacuity on REJECTED and garbage inputs (through lexer and parser, evaluated by the kernel) -/

example : Query.queryRun false (B "SELECT") = "ERR" := by decide +kernel
example : Query.queryRun true (B "SELECT") = "ERR" := by decide +kernel
example : Query.queryRun false (B "SELECT a FROM") = "ERR" := by decide +kernel
example : Query.queryRun false (B "SELECT a,, b") = "ERR" := by decide +kernel
example : Query.queryRun false (B "SELECT a, b, c, d ORDER BY") = "ERR" := by decide +kernel
example : Query.queryRun false (B "SELECT 1 GROUP BY ((((") = "ERR" := by decide +kernel
example : Query.queryRun false (B ";;;") = "ERR" := by decide +kernel
example : DML.dmlRun "D" (B "DELETE") = "ERR" := by decide +kernel
example : DML.dmlRun "S" (B "UPDATE t SET") = "ERR" := by decide +kernel
example : DML.dmlRun "Ds" (B "INSERT INTO t (a) VALUES (") = "ERR" := by decide +kernel
example : DML.dmlRun "Ss" (B "INSERT INTO t (a) VALUES (((((") = "ERR" := by decide +kernel
example : DML.dmlRun "D" (B ";;;") = "ERR" := by decide +kernel
example : DML.dmlRun "Ds" (B ";;;") = "OK 0" := by decide +kernel
example : DML.dmlRun "Ds" (B "DELETE FROM t WHERE ((((; ;") = "ERR" := by decide +kernel
example : DML.dmlRun "Ss" (B "DELETE t WHERE a; DELETE") = "ERR" := by decide +kernel

/-- `SELECT 1 GROUP BY ((((` -/
def rejQ : List Token := lexed "SELECT 1 GROUP BY (((("
/-- `DELETE FROM t WHERE ((((; ;` -/
def rejD : List Token := lexed "DELETE FROM t WHERE ((((; ;"
/-- `INSERT INTO t (a) VALUES (((((` -/
def rejV : List Token := lexed "INSERT INTO t (a) VALUES ((((("

/-- `SELECT 1 GROUP BY ((((` (9 tokens): the four `(` cost the expression ladder 15 calls each: fuel 73 runs out, 74
rejects, the bound is 150, the driver passes 352 -/
theorem rejQ_facts : rejQ.length = 9 ∧ Query.queryFuel rejQ = 150 ∧ Query.topFuel rejQ = 352 ∧
    isOofE (Query.parseQueryTop 73 rejQ) = true ∧ isRaiseE (Query.parseQueryTop 74 rejQ) = true ∧
    isRaiseE (Query.parseQueryTop (Query.queryFuel rejQ) rejQ) = true ∧
    isRaiseE (Query.parseStatementTop (Query.topFuel rejQ) rejQ) = true := by
  decide +kernel

/-- DML garbage: the statement list loop and the nested VALUES loops add one unit each on top of the expression ladder -/
theorem rejD_facts : rejD.length = 11 ∧ DML.dmlBound rejD = 183 ∧ DML.dmlFuel rejD = 442 ∧
    isOofE (DML.parseDMLsTop parsePExpr 74 rejD) = true ∧ isRaiseE (DML.parseDMLsTop parsePExpr 75 rejD) = true ∧
    isRaiseE (DML.parseDMLsTop parsePExpr (DML.dmlBound rejD) rejD) = true ∧
    isRaiseE (DML.parseStatementsTop parseExpr (DML.dmlFuel rejD) rejD) = true := by
  decide +kernel

theorem rejV_facts : rejV.length = 13 ∧ DML.dmlBound rejV = 213 ∧
    isOofE (DML.parseDMLsTop parsePExpr 76 rejV) = true ∧ isRaiseE (DML.parseDMLsTop parsePExpr 77 rejV) = true ∧
    isRaiseE (DML.parseDMLTop parsePExpr (DML.dmlBound rejV) rejV) = true := by
  decide +kernel

end MF.Props.C03
