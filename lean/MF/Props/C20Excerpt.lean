/-
  C20 clause (4) — the excerpt of `File.Position` quotes exactly the lines from `pos`'s line to `end`'s line.

  "The lines of the text" are `splitLines buf` = `strings.Split(buf, "\n")`, pinned down independently of
  `token/file.go` by `lines_join` (joined with `\n` they give the text back) and `lines_no_newline`.

   (4a) `lineBuffer_eq`   : `f.Buffer[f.lines[l] : f.lines[l+1]-1]` is the `l`-th line of the text;
        `lines_length`    : `len(f.lines) - 1` is the number of lines;
        `line_in_range`   : the line of a position `≤ len` is a line of the text.
   (4b) `position_source_single` : `pos`, `end` on the same line `l`:
          source = pad3 (l+1) ++ "|  " ++ line_l ++ "\n" ++ "   |  " ++ col blanks ++ "^" ++ (endCol-col-1) tildes
   (4c) `position_source_multi`  : `line < endLine`:
          source = for l = line … endLine: (if l > 0 then "\n" else "") ++ pad3 (l+1) ++ "|  " ++ line_l
        (`excerptLines`, over the sub-list `drop line |>.take (endLine - line + 1)` of the lines of the text,
        which has exactly `endLine - line + 1` elements).
   `line_mono`: for `pos ≤ end` one of the two cases applies.
-/
import MF.Proofs.FileExcerpt
namespace MF.Props.C20
open MF MF.File MF.Spec

theorem lines_join (buf : Bytes) : joinLines (splitLines buf) = buf := File.splitLines_join buf

theorem lines_no_newline (buf : Bytes) : ∀ l ∈ splitLines buf, (10 : UInt8) ∉ l := File.splitLines_no_nl buf

theorem lines_length (buf : Bytes) : (splitLines buf).length = (lines buf).length - 1 :=
  File.splitLines_length buf

theorem line_in_range {buf : Bytes} {pos : Nat} (h : pos ≤ buf.length) :
    (lineCol buf pos).1 < (splitLines buf).length := File.lineCol_line_lt h

theorem lineBuffer_eq {buf : Bytes} {l : Nat} (h : l < (splitLines buf).length) :
    lineBuffer? buf l = some ((splitLines buf).getD l []) := File.lineBuffer_eq h

theorem lineBuffer_eq' {buf : Bytes} {l : Nat} {ln : Bytes} (h : (splitLines buf)[l]? = some ln) :
    lineBuffer? buf l = some ln := File.lineBuffer_eq' h

theorem position_source_single (buf : Bytes) (pos «end» : Nat) (h1 : pos ≤ «end») (h2 : «end» ≤ buf.length)
    (hsame : (lineCol buf pos).1 = (lineCol buf «end»).1) :
    ∃ p, position buf pos «end» = some p ∧
      p.source = pad3 ((lineCol buf pos).1 + 1) ++ B "|  " ++ (splitLines buf).getD (lineCol buf pos).1 [] ++ [10] ++
        B "   |  " ++ List.replicate (lineCol buf pos).2 32 ++ [94] ++
        List.replicate ((lineCol buf «end»).2 - (lineCol buf pos).2 - 1) 126 :=
  File.position_source_single buf pos «end» h1 h2 hsame

theorem position_source_multi (buf : Bytes) (pos «end» : Nat) (h1 : pos ≤ «end») (h2 : «end» ≤ buf.length)
    (hlt : (lineCol buf pos).1 < (lineCol buf «end»).1) :
    ∃ p, position buf pos «end» = some p ∧
      p.source = excerptLines
        (((splitLines buf).drop (lineCol buf pos).1).take ((lineCol buf «end»).1 - (lineCol buf pos).1 + 1))
        (lineCol buf pos).1 ∧
      (((splitLines buf).drop (lineCol buf pos).1).take ((lineCol buf «end»).1 - (lineCol buf pos).1 + 1)).length
        = (lineCol buf «end»).1 - (lineCol buf pos).1 + 1 :=
  File.position_source_multi buf pos «end» h1 h2 hlt

theorem line_mono (buf : Bytes) {p q : Nat} (h : p ≤ q) : (lineCol buf p).1 ≤ (lineCol buf q).1 :=
  File.lineCol_line_mono buf h

/-- the unfolding of the recursive excerpt specification -/
example (ln : Bytes) (rest : List Bytes) (l : Nat) :
    excerptLines (ln :: rest) l =
      (if l > 0 then [10] else []) ++ pad3 (l + 1) ++ B "|  " ++ ln ++ excerptLines rest (l + 1) := rfl
example (l : Nat) : excerptLines [] l = [] := rfl

/-- non-vacuity -/
example : splitLines (B "ab\n\ncd") = [B "ab", [], B "cd"] := by decide
example : (position (B "ab\ncd") 1 2).map (·.source) = some (B "  1|  ab\n   |   ^") := by decide
example : (position (B "ab\ncd\nef") 4 7).map (·.source) = some (B "\n  2|  cd\n  3|  ef") := by decide
example : (position (B "ab\ncd\nef") 1 7).map (·.source) = some (B "  1|  ab\n  2|  cd\n  3|  ef") := by decide

end MF.Props.C20
