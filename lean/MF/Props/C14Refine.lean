/-
  C14 — The lexer model refines the reference lexer `MF.Spec.Lexical`.

  `MF.Lex` is the function-for-function model of `lexer.go` (tied to the Go code by the LEX channel);
  `MF.Spec.Lexical` is an independently structured reference lexer written from the GoogleSQL documentation
  (token-class recognisers + rules).  The theorems below say that on EVERY input the two agree:

   (1) per step, from any lexer state inside the buffer: same accept/reject; on acceptance the same token kind,
       extent (`Pos`, `End`), decoded value (`AsString`), `Base`, and the same next dot-identifier mode  — `C14.step_refines`
   (2) on a whole input: same accept/reject, and the same list of token records                          — `C14.lexAll_refines`
   (3) consequences in the two directions                                                                 — `C14.accepts_iff`, `C14.records_eq`

  Property theorems only (helper lemmas live in MF/Proofs/Refine*.lean).
-/
import MF.Proofs.Refine
namespace MF.Props.C14
open MF MF.Lex

/-- one step: from any lexer state inside the buffer, the model in panic mode and the reference lexer agree on
accept/reject, and on acceptance on the token's kind, extent, decoded value, base, and on the next dot-identifier mode -/
theorem step_refines (buf : Bytes) (s : Lex.State) (hp : s.pos ≤ buf.length) :
    match Lex.nextToken buf false s, Spec.Lexical.next (buf.drop s.pos) s.tok.kind s.dotIdent with
    | .ok s', .tok w t => s'.tok.pos = s.pos + w ∧ s'.tok.end = s.pos + w + t.len ∧ s'.pos = s'.tok.end ∧
                           s'.tok.kind = t.kind ∧ s'.tok.asString = t.value ∧ s'.tok.base = t.base ∧
                           s'.dotIdent = Spec.Lexical.dotAfter s.tok.kind s.dotIdent t
    | .err _, .reject => True
    | _, _ => False :=
  MF.Refine.step_refines buf s hp

/-- whole input: same accept/reject, same token records -/
theorem lexAll_refines (buf : Bytes) :
    match Lex.lexAll buf, Spec.Lexical.lexAll buf with
    | .ok ts, some rs => rs = ts.map (fun t => ⟨t.kind, t.pos, t.end, t.asString, t.base⟩)
    | .err _ _, none => True
    | _, _ => False :=
  MF.Refine.lexAll_refines buf

/-- the model accepts an input exactly when the reference lexer does -/
theorem accepts_iff (buf : Bytes) : (∃ ts, Lex.lexAll buf = .ok ts) ↔ (∃ rs, Spec.Lexical.lexAll buf = some rs) := by
  have h := lexAll_refines buf
  constructor
  · rintro ⟨ts, hts⟩
    rw [hts] at h
    cases hr : Spec.Lexical.lexAll buf with
    | none => rw [hr] at h; exact h.elim
    | some rs => exact ⟨rs, rfl⟩
  · rintro ⟨rs, hrs⟩
    rw [hrs] at h
    cases hl : Lex.lexAll buf with
    | ok ts => exact ⟨ts, rfl⟩
    | err ts e => rw [hl] at h; exact h.elim
    | crash ts => rw [hl] at h; exact h.elim

/-- on an accepted input the reference lexer's records are the model's tokens, field by field -/
theorem records_eq {buf : Bytes} {ts : List Token} {rs : List Spec.Lexical.Rec}
    (h1 : Lex.lexAll buf = .ok ts) (h2 : Spec.Lexical.lexAll buf = some rs) :
    rs = ts.map (fun t => ⟨t.kind, t.pos, t.end, t.asString, t.base⟩) := by
  have h := lexAll_refines buf
  rw [h1, h2] at h
  exact h

/-! non-vacuity: concrete inputs evaluated on both sides -/

/-- dot-identifier mode (`a.1e5` is identifier, `.`, identifier), a raw bytes literal keeping its escape, a
hexadecimal literal with base 16 -/
example : Spec.Lexical.lexAll (B "a.1e5 rb'\\n' 0x1F") = some [
    ⟨.ident, 0, 1, B "a", 0⟩, ⟨.sym [46], 1, 2, [], 0⟩, ⟨.ident, 2, 5, B "1e5", 0⟩,
    ⟨.bytes, 6, 12, B "\\n", 0⟩, ⟨.int, 13, 17, [], 16⟩, ⟨.eof, 17, 17, [], 0⟩] := by rfl

example : ∃ ts, Lex.lexAll (B "a.1e5 rb'\\n' 0x1F") = .ok ts ∧
    ts.map (fun t => (⟨t.kind, t.pos, t.end, t.asString, t.base⟩ : Spec.Lexical.Rec)) = [
    ⟨.ident, 0, 1, B "a", 0⟩, ⟨.sym [46], 1, 2, [], 0⟩, ⟨.ident, 2, 5, B "1e5", 0⟩,
    ⟨.bytes, 6, 12, B "\\n", 0⟩, ⟨.int, 13, 17, [], 16⟩, ⟨.eof, 17, 17, [], 0⟩] := ⟨_, rfl, by decide⟩

/-- outside dot mode `.1e5` is a float; escapes are decoded; comments are skipped; keywords are upper-cased symbols -/
example : Spec.Lexical.lexAll (B "select .1e5, '\\x41\\u00e9' /*c*/ -- x\n") = some [
    ⟨.sym (B "SELECT"), 0, 6, [], 0⟩, ⟨.float, 7, 11, [], 0⟩, ⟨.sym [44], 11, 12, [], 0⟩,
    ⟨.string, 13, 25, [65, 195, 169], 0⟩, ⟨.eof, 37, 37, [], 0⟩] := by rfl

/-- both sides reject: a number glued to a letter, an unclosed comment, an empty back-quoted identifier,
`\u` in a bytes literal, a surrogate code point -/
example : Spec.Lexical.lexAll (B "1a") = none ∧ (∃ ts e, Lex.lexAll (B "1a") = .err ts e) := ⟨by rfl, _, _, rfl⟩
example : Spec.Lexical.lexAll (B "/* x") = none ∧ (∃ ts e, Lex.lexAll (B "/* x") = .err ts e) := ⟨by rfl, _, _, rfl⟩
example : Spec.Lexical.lexAll (B "``") = none ∧ (∃ ts e, Lex.lexAll (B "``") = .err ts e) := ⟨by rfl, _, _, rfl⟩
example : Spec.Lexical.lexAll (B "b'\\u0041'") = none ∧ (∃ ts e, Lex.lexAll (B "b'\\u0041'") = .err ts e) :=
  ⟨by rfl, _, _, rfl⟩
example : Spec.Lexical.lexAll (B "'\\ud800'") = none ∧ (∃ ts e, Lex.lexAll (B "'\\ud800'") = .err ts e) :=
  ⟨by rfl, _, _, rfl⟩

end MF.Props.C14
