/-
  C16 (lexer side) — the trivia lemma: whitespace, comments and keyword/identifier letter case never change the
  token stream.

  Statement (`MF/Spec/Respell.lean` has the definitions).  Let `lexAll x = .ok ts` (the model `MF.Lex` of
  `lexer.go`; the last token of `ts` is `<eof>`).  A RE-SPELLING of `x` is given by one pair `(τ'ᵢ, r'ᵢ)` per token
  and is the input `x' = τ'₁ ++ r'₁ ++ τ'₂ ++ r'₂ ++ … ++ τ'ₙ ++ r'ₙ`, where (`Respell ts ps x'`)
   * `r'ᵢ` is the raw text of token `i`, except that ASCII letters may change case when the token is a reserved
     keyword or an unquoted identifier (`RawOK`: `char.ToUpper r'ᵢ = char.ToUpper rᵢ`); every other token — numbers
     (`1E5`, `0X1`), parameters `@p`, quoted identifiers, string and bytes literals, punctuation — keeps its bytes;
   * `τ'ᵢ` is a trivia string (`Trivia`): whitespace runes and complete comments (`#…\n`, `--…\n`, `//…\n`,
     `/*…*/` whose first `*/` after the opener is the closer);
     (S1) a non-empty `τ'ᵢ` starts with a whitespace rune,
     (S2) `τ'ᵢ` is empty only if token `i` had no comments and no space in front of it (trivia may be replaced, and
          inserted between adjacent tokens, but never removed),
     (S3) only the last trivia string (in front of `<eof>`, i.e. the end of `x'`) may end in a line comment without
          its `\n`;
     (S1) and (S2) concern the boundary with the previous token and are NOT required of `τ'₁` (the input may start
     with a comment, and leading trivia may be dropped) — this makes the hypothesis weaker than in the task statement.
  Then `x'` is accepted, with exactly as many tokens, and token by token (`TokRel`): the same kind (so a keyword
  stays the same keyword `.sym K`), raw text `r'ᵢ`, the same `Base`, and the same `AsString` — except for an
  unquoted identifier, whose `AsString` is its raw text before (`rᵢ`) and after (`r'ᵢ`).

  `trivia_lemma` is the full statement (stages A "replace trivia", B "insert trivia between adjacent tokens" and
  C "letter case" of the plan are all covered by it; nothing is weakened).  The examples at the end show that
  the hypothesis is satisfiable and that (S1) and (S2) cannot be dropped.

  Proof (in `MF/Proofs`): `TriviaBytes` (look-ahead relation `LA`, `ISim`), `TriviaSpace` (the trivia loop consumes
  exactly a `Trivia` string), `TriviaNumber`, `TriviaQuoted`, `TriviaToken` (each scanner is determined by the bytes
  of its token up to case and by the class of the next byte: `consumeToken_sim`, `consumeFieldToken_sim`),
  `TriviaMain` (`step_sim`, induction over the run).
-/
import MF.Proofs.TriviaMain
namespace MF.Props.C16
open MF MF.Lex

/-- C16 (lexer): a re-spelling of an accepted input is accepted and has the same tokens. -/
theorem trivia_lemma' {x x' : Bytes} {ts : List Token} {ps : List (Bytes × Bytes)}
    (h : lexAll x = .ok ts) (hre : Respell ts ps x') :
    ∃ ts', lexAll x' = .ok ts' ∧ TokensRel ts ps ts' := trivia_lemma h hre

theorem TokensRel.length {ts : List Token} {ps : List (Bytes × Bytes)} {ts' : List Token}
    (h : TokensRel ts ps ts') : ts'.length = ts.length ∧ ps.length = ts.length := by
  induction ts generalizing ps ts' with
  | nil =>
    cases ps <;> cases ts' <;> simp [TokensRel] at h ⊢
  | cons t ts ih =>
    cases ps with
    | nil => simp [TokensRel] at h
    | cons p ps =>
      cases ts' with
      | nil => simp [TokensRel] at h
      | cons t' ts' =>
        simp only [TokensRel] at h
        have := ih h.2
        simp only [List.length_cons]
        omega

theorem TokensRel.get {ts : List Token} {ps : List (Bytes × Bytes)} {ts' : List Token}
    (h : TokensRel ts ps ts') : ∀ (i : Nat) (t : Token) (p : Bytes × Bytes) (t' : Token),
      ts[i]? = some t → ps[i]? = some p → ts'[i]? = some t' → TokRel t p.2 t' := by
  induction ts generalizing ps ts' with
  | nil => intro i t p t' h1; simp at h1
  | cons t0 ts ih =>
    cases ps with
    | nil => simp [TokensRel] at h
    | cons p0 ps =>
      cases ts' with
      | nil => simp [TokensRel] at h
      | cons t0' ts' =>
        simp only [TokensRel] at h
        intro i t p t' h1 h2 h3
        cases i with
        | zero =>
          simp only [List.getElem?_cons_zero, Option.some.injEq] at h1 h2 h3
          subst h1 h2 h3
          exact h.1
        | succ j =>
          simp only [List.getElem?_cons_succ] at h1 h2 h3
          exact ih h.2 j t p t' h1 h2 h3

theorem TokensRel.kinds {ts : List Token} {ps : List (Bytes × Bytes)} {ts' : List Token}
    (h : TokensRel ts ps ts') : ts'.map (·.kind) = ts.map (·.kind) ∧ ts'.map (·.raw) = ps.map (·.2) := by
  induction ts generalizing ps ts' with
  | nil => cases ps <;> cases ts' <;> simp [TokensRel] at h ⊢
  | cons t ts ih =>
    cases ps with
    | nil => simp [TokensRel] at h
    | cons p ps =>
      cases ts' with
      | nil => simp [TokensRel] at h
      | cons t' ts' =>
        simp only [TokensRel] at h
        have := ih h.2
        simp only [List.map_cons, h.1.1, h.1.2.1, this.1, this.2, and_self]

/-- index form of the trivia lemma: same number of tokens and, for every index, `TokRel`
(same kind, raw text `r'ᵢ`, same base, same `AsString` up to the case change of an unquoted identifier) -/
theorem trivia_lemma_indexed {x x' : Bytes} {ts : List Token} {ps : List (Bytes × Bytes)}
    (h : lexAll x = .ok ts) (hre : Respell ts ps x') :
    ∃ ts', lexAll x' = .ok ts' ∧ ts'.length = ts.length ∧
      ∀ (i : Nat) (t : Token) (p : Bytes × Bytes) (t' : Token),
        ts[i]? = some t → ps[i]? = some p → ts'[i]? = some t' →
        t'.kind = t.kind ∧ t'.raw = p.2 ∧ t'.base = t.base ∧
        (unquotedIdent t → t.asString = t.raw ∧ t'.asString = p.2) ∧
        (¬ unquotedIdent t → t'.asString = t.asString) := by
  obtain ⟨ts', h1, h2⟩ := trivia_lemma h hre
  exact ⟨ts', h1, h2.length.1, fun i t p t' a b c => h2.get i t p t' a b c⟩

/-- the token kinds (hence the keywords) are unchanged -/
theorem trivia_lemma_kinds {x x' : Bytes} {ts : List Token} {ps : List (Bytes × Bytes)}
    (h : lexAll x = .ok ts) (hre : Respell ts ps x') :
    ∃ ts', lexAll x' = .ok ts' ∧ ts'.map (·.kind) = ts.map (·.kind) := by
  obtain ⟨ts', h1, h2⟩ := trivia_lemma h hre
  exact ⟨ts', h1, h2.kinds.1⟩

/-! ### non-vacuity -/

theorem spaceRune_sp : SpaceRune [32] := ⟨by decide, by decide, by decide⟩

theorem trivia_sp {e : Bool} : Trivia e [32] := by
  have := Trivia.space (e := e) spaceRune_sp Trivia.nil
  simpa using this

theorem startsSpace_sp (τ : Bytes) : StartsSpace (32 :: τ) := ⟨[32], τ, spaceRune_sp, rfl⟩

/-- the tokens of `select a.b,1--c\n` -/
def exTs : List Token :=
  [{ kind := K "SELECT", raw := B "select", pos := 0, «end» := 6 },
   { kind := .ident, space := B " ", raw := B "a", asString := B "a", pos := 7, «end» := 8 },
   { kind := K ".", raw := B ".", pos := 8, «end» := 9 },
   { kind := .ident, raw := B "b", asString := B "b", pos := 9, «end» := 10 },
   { kind := K ",", raw := B ",", pos := 10, «end» := 11 },
   { kind := .int, raw := B "1", base := 10, pos := 11, «end» := 12 },
   { kind := .eof, comments := [{ space := [], raw := B "--c\n", pos := 12, «end» := 16 }], pos := 16, «end» := 16 }]

/-- the re-spelling ` SELECT /*x*/ A . b , 1 ` -/
def exPs : List (Bytes × Bytes) :=
  [(B " ", B "SELECT"), (B " /*x*/ ", B "A"), (B " ", B "."), (B " ", B "b"), (B " ", B ","), (B " ", B "1"),
   (B " ", [])]

example : lexAll (B "select a.b,1--c\n") = .ok exTs := by rfl

theorem ex_respell : Respell exTs exPs (B " SELECT /*x*/ A . b , 1 ") := by
  have hblock : Trivia false (B " /*x*/ ") := by
    have h1 : Trivia false ([47, 42] ++ [120] ++ [42, 47] ++ [32]) := Trivia.block (by decide) trivia_sp
    have := Trivia.space spaceRune_sp h1
    exact this
  simp only [Respell, RespellFrom, exTs, exPs]
  refine ⟨_, by rfl, trivia_sp, fun _ => ⟨Or.inr (startsSpace_sp _), fun h => absurd h (by decide)⟩, by decide, ?_⟩
  refine ⟨_, by rfl, hblock, fun _ => ⟨Or.inr (startsSpace_sp _), fun h => absurd h (by decide)⟩, by decide, ?_⟩
  refine ⟨_, by rfl, trivia_sp, fun _ => ⟨Or.inr (startsSpace_sp _), fun h => absurd h (by decide)⟩, by decide, ?_⟩
  refine ⟨_, by rfl, trivia_sp, fun _ => ⟨Or.inr (startsSpace_sp _), fun h => absurd h (by decide)⟩, by decide, ?_⟩
  refine ⟨_, by rfl, trivia_sp, fun _ => ⟨Or.inr (startsSpace_sp _), fun h => absurd h (by decide)⟩, by decide, ?_⟩
  refine ⟨_, by rfl, trivia_sp, fun _ => ⟨Or.inr (startsSpace_sp _), fun h => absurd h (by decide)⟩, by decide, ?_⟩
  exact ⟨[], by rfl, trivia_sp, fun _ => ⟨Or.inr (startsSpace_sp _), fun h => absurd h (by decide)⟩, by decide, rfl⟩

/-- the conclusion of the lemma on this instance, checked by evaluation: same kinds, new raws, the identifier
`a` became `A` -/
example : ∃ ts', lexAll (B " SELECT /*x*/ A . b , 1 ") = .ok ts' ∧
    ts'.map (·.kind) = exTs.map (·.kind) ∧ ts'.map (·.raw) = exPs.map (·.2) ∧
    ts'.map (·.asString) = [[], B "A", [], B "b", [], [], []] := ⟨_, rfl, by decide⟩

/-- (S2) trivia may be inserted between adjacent tokens (`a+b` ↦ `A + b`) and the input may end in a line
comment without newline (S3) -/
example : ∃ ts, lexAll (B "a+b") = .ok ts ∧
    Respell ts [([], B "A"), (B " ", B "+"), (B " ", B "b"), (B " --c", [])] (B "A + b --c") := by
  refine ⟨[{ kind := .ident, raw := B "a", asString := B "a", pos := 0, «end» := 1 },
           { kind := K "+", raw := B "+", pos := 1, «end» := 2 },
           { kind := .ident, raw := B "b", asString := B "b", pos := 2, «end» := 3 },
           { kind := .eof, pos := 3, «end» := 3 }], by rfl, ?_⟩
  have hend : Trivia true (B " --c") := by
    have h1 : Trivia true ([45, 45] ++ [99]) := Trivia.lineEnd (Or.inr (Or.inl rfl)) (by decide)
    exact Trivia.space spaceRune_sp h1
  simp only [Respell, RespellFrom]
  refine ⟨_, by rfl, Trivia.nil, fun h => (by cases h), by decide, ?_⟩
  refine ⟨_, by rfl, trivia_sp, fun _ => ⟨Or.inr (startsSpace_sp _), fun h => absurd h (by decide)⟩, by decide, ?_⟩
  refine ⟨_, by rfl, trivia_sp, fun _ => ⟨Or.inr (startsSpace_sp _), fun h => absurd h (by decide)⟩, by decide, ?_⟩
  exact ⟨[], by rfl, hend, fun _ => ⟨Or.inr (startsSpace_sp _), fun h => absurd h (by decide)⟩, by decide, rfl⟩

/-- the trivia in front of the first token is unconstrained: a header comment may be added -/
example : ∃ ts, lexAll (B " a") = .ok ts ∧ Respell ts [(B "--h\n", B "a"), ([], [])] (B "--h\na") := by
  refine ⟨[{ kind := .ident, space := B " ", raw := B "a", asString := B "a", pos := 1, «end» := 2 },
           { kind := .eof, pos := 2, «end» := 2 }], by rfl, ?_⟩
  have hc : Trivia false (B "--h\n") := by
    have := Trivia.line (e := false) (o := [45, 45]) (b := [104]) (τ := []) (Or.inr (Or.inl rfl)) (by decide) Trivia.nil
    exact this
  simp only [Respell, RespellFrom]
  refine ⟨_, by rfl, hc, fun h => (by cases h), by decide, ?_⟩
  exact ⟨[], by rfl, Trivia.nil, fun _ => (by simp), by decide, rfl⟩

/-- (S2) is needed: removing the space of `a b` glues the two identifiers -/
example : ∃ ts ts', lexAll (B "a b") = .ok ts ∧ lexAll (B "ab") = .ok ts' ∧ ts.length ≠ ts'.length :=
  ⟨_, _, rfl, rfl, by decide⟩

/-- (S1) is needed: putting the comment `--c\n` directly after the token `-` makes `---c\n` one comment -/
example : ∃ ts ts', lexAll (B "- 1") = .ok ts ∧ lexAll (B "---c\n1") = .ok ts' ∧ ts.length ≠ ts'.length :=
  ⟨_, _, rfl, rfl, by decide⟩

/-- numbers keep their spelling: the lemma does not (and could not) allow `1E5` ↦ `1e5` to change nothing,
because `Raw` differs — but keyword case is free: `SeLeCt` is the keyword `SELECT` -/
example : ∃ t1 t2, lexAll (B "SeLeCt") = .ok [t1, t2] ∧ t1.kind = K "SELECT" := ⟨_, _, rfl, rfl⟩

end MF.Props.C16
