/-
  C16 (parser side, ParseType) — re-spelling an accepted type never changes the AST up to position values.

  Composition of the lexer half (`trivia_lemma`, every input) with soundness / completeness of the ParseType model
  (`MF/Model/TypeParse.lean`, tied to `memefish.ParseType` by the TYPE channel):

    `respell_type`   if `ParseType x` is accepted with tree `t` (model lexer + model parser) and `x'` is a re-spelling of `x`
                     (any new trivia; any letter case of reserved keywords `ARRAY`, `STRUCT`; identifier tokens keep their
                     bytes), then `x'` is accepted and parses to a tree `t'` with `eraseT t' = eraseT t` (equal up to position
                     values) and the same `SQL()` text.
    `same_reads`     the reason: the position-free reading of a token list as the yield of a tree (`Reads`, which looks at
                     token classes, identifier names and — case-insensitively — simple type names) is invariant.

  Restriction, stated: `IdentsKept` keeps the bytes of every identifier token, so the letter case of the scalar type names
  (INT64, string, …: identifiers used as pseudo-keywords) is not varied by this theorem although `Reads` would allow it;
  the harness predicate of C16 varies it on the implementation.
-/
import MF.Props.C16Expr
import MF.Proofs.TypeRound
namespace MF.Props.C16
open MF MF.Lex MF.TypeP MF.TypeG

/-- two tokens the type parser cannot tell apart, positions aside: same kind, same `AsString` -/
def Same (t t' : Token) : Prop := t'.kind = t.kind ∧ t'.asString = t.asString

def SameL : List Token → List Token → Prop
  | [], [] => True
  | t :: ts, t' :: ts' => Same t t' ∧ SameL ts ts'
  | _, _ => False

theorem tok_same {t t' : Token} {r' : Bytes} (hrel : TokRel t r' t') (hid : t.kind = .ident → r' = t.raw) : Same t t' := by
  obtain ⟨hk, _, _, hu, hn⟩ := hrel
  refine ⟨hk, ?_⟩
  by_cases hq : unquotedIdent t
  · have := hu hq
    rw [this.2, this.1, hid hq.1]
  · exact hn hq

theorem tokens_same {ts ts' : List Token} {ps : List (Bytes × Bytes)}
    (hrel : TokensRel ts ps ts') (hid : IdentsKept ts ps) : SameL ts ts' := by
  induction ts generalizing ps ts' with
  | nil => cases ps <;> cases ts' <;> simp [TokensRel, SameL] at hrel ⊢
  | cons t ts ih =>
    cases ps with
    | nil => simp [TokensRel] at hrel
    | cons p ps =>
      cases ts' with
      | nil => simp [TokensRel] at hrel
      | cons t' ts' =>
        simp only [TokensRel] at hrel
        simp only [IdentsKept] at hid
        exact ⟨tok_same hrel.1 hid.1, ih hrel.2 hid.2⟩

theorem same_split {t t' : Token} (h : Same t t') :
    Same (gt1 t) (gt1 t') ∧ Same (gt2 t) (gt2 t') ∧ Same (lt1 t) (lt1 t') := by
  obtain ⟨hk, ha⟩ := h
  refine ⟨⟨rfl, ?_⟩, ⟨rfl, ?_⟩, ⟨rfl, ?_⟩⟩ <;> simp [gt1, gt2, lt1, splitTok, ha]

theorem sameL_expand {ts ts' : List Token} (h : SameL ts ts') : SameL (expand ts) (expand ts') := by
  induction ts generalizing ts' with
  | nil => cases ts' <;> simp [SameL, expand] at h ⊢
  | cons t ts ih =>
    cases ts' with
    | nil => simp [SameL] at h
    | cons t' ts' =>
      simp only [SameL] at h
      obtain ⟨h1, h2⟩ := h
      have hk : tk t'.kind = tk t.kind := by rw [h1.1]
      have hs := same_split h1
      simp only [expand, hk]
      split
      · exact ⟨hs.1, hs.2.1, ih h2⟩
      · exact ⟨hs.2.2, hs.2.1, ih h2⟩
      · exact ⟨h1, ih h2⟩

theorem sameL_append_inv {a b : List Token} {c : List Token} (h : SameL (a ++ b) c) :
    ∃ a' b', c = a' ++ b' ∧ SameL a a' ∧ SameL b b' := by
  induction a generalizing c with
  | nil => exact ⟨[], c, rfl, trivial, h⟩
  | cons x xs ih =>
    cases c with
    | nil => simp [SameL] at h
    | cons y ys =>
      simp only [List.cons_append, SameL] at h
      obtain ⟨a', b', e, h1, h2⟩ := ih h.2
      exact ⟨y :: a', b', by rw [e]; rfl, ⟨h.1, h1⟩, h2⟩

theorem readsB_same {y : YT} {t t' : Token} (h : Same t t') : y.readsB t' = y.readsB t := by
  obtain ⟨hk, ha⟩ := h
  have hs : simpleName? t' = simpleName? t := by
    simp only [simpleName?, Token.isIdent, hk, ha]
  cases y <;> simp only [YT.readsB, hk, ha, hs]

/-- the position-free reading is invariant -/
theorem same_reads {ys : List YT} {ts ts' : List Token} (h : SameL ts ts') (hr : Reads ys ts) : Reads ys ts' := by
  induction ys generalizing ts ts' with
  | nil =>
    cases ts with
    | nil => cases ts' <;> simp [SameL] at h ⊢; exact hr
    | cons _ _ => simp [Reads, readsB] at hr
  | cons y ys ih =>
    cases ts with
    | nil => simp [Reads, readsB] at hr
    | cons t ts =>
      cases ts' with
      | nil => simp [SameL] at h
      | cons t' ts' =>
        simp only [SameL] at h
        simp only [Reads, readsB, Bool.and_eq_true] at hr ⊢
        exact ⟨by rw [readsB_same h.1]; exact hr.1, ih h.2 hr.2⟩

theorem same_cur {a b : List Token} (h : SameL a b) (hc : cur a = .eof) : curX b = .eof := by
  cases a with
  | nil => cases b <;> simp [SameL] at h ⊢; rfl
  | cons x xs =>
    cases b with
    | nil => simp [SameL] at h
    | cons y ys =>
      simp only [SameL] at h
      simp only [cur] at hc
      simp only [curX, h.1.1]
      simpa [cur] using hc

/-- **C16 for the ParseType entry point.** -/
theorem respell_type {x x' : Bytes} {ts : List Token} {ps : List (Bytes × Bytes)} {fuel : Nat} {t : Ty}
    (hl : lexAll x = .ok ts) (hp : parseTypeTop fuel ts = .ok t)
    (hre : Respell ts ps x') (hk : IdentsKept ts ps) :
    ∃ ts' t', lexAll x' = .ok ts' ∧ parseTypeTop (topFuel ts') ts' = .ok t' ∧ eraseT t' = eraseT t ∧ sqlT t' = sqlT t := by
  obtain ⟨ts', hl', hrel⟩ := trivia_lemma hl hre
  obtain ⟨pre, rest, he, hcur, hm, hw⟩ := parseTypeTop_sound hp
  have hsame := sameL_expand (tokens_same hrel hk)
  rw [he] at hsame
  obtain ⟨pre', rest', he', hs1, hs2⟩ := sameL_append_inv hsame
  have hr' : Reads (yieldT t) pre' := same_reads hs1 (match_reads hm)
  obtain ⟨t', et, hm'⟩ := retagT t pre' hr'
  have hw' : wf t' = true := by rw [← wf_erase, et, wf_erase]; exact hw
  refine ⟨ts', t', hl', ?_, et, by rw [← sqlT_erase, et, sqlT_erase]⟩
  exact parseTypeTop_complete hw' hm' he' (same_cur hs2 hcur) _ (need_le_topFuel hw' hm' he')

/-! ### non-vacuity: the conclusion evaluated on a concrete pair -/

/-- the tree up to positions, and the printed text, of an accepted type -/
def erasedOf (s : String) : Option (String × Bytes) :=
  match lexAll (B s) with
  | .ok ts => match parseTypeTop (topFuel ts) ts with
    | .ok t => some (sexpT (eraseT t), sqlT t)
    | _ => none
  | _ => none

example : erasedOf "ARRAY<STRUCT<a INT64>>" = erasedOf "array /*c*/ <\n struct< a INT64 > >" ∧
    (erasedOf "ARRAY<STRUCT<a INT64>>").isSome = true := by decide +kernel

end MF.Props.C16
