/-
  C14 — Lexer conforms to the GoogleSQL lexical structure.

  The reference is `MF.Spec.Lexical` (written from the documentation, independent of lexer.go).
  Obligations in this file are the table instantiations, re-decided by the kernel on every run against files
  regenerated from the Go sources:
    `keywords_eq`    token.Keywords is exactly the list of reserved words of the specification
    `charclass_eq`   each `char.IsX` body (translated expression by expression) equals the specified class on all 256 bytes
  The refinement theorem (model ⊑ reference, every byte string) lives in `MF/Props/C14Refine.lean` when present.
-/
import MF.Model.Token
import MF.Spec.Lexical
import MF.Proofs.Basic
import MF.Gen.Keywords
import MF.Gen.CharClass
namespace MF.Props.C14
open MF

theorem keywords_eq : Gen.keywords = reservedStrs := by decide

theorem charclass_eq :
    (∀ c : UInt8, Gen.isPrint c = Char.isPrint c) ∧ (∀ c : UInt8, Gen.isDigit c = Spec.Lexical.isDigit c) ∧
    (∀ c : UInt8, Gen.isHexDigit c = Spec.Lexical.isHex c) ∧ (∀ c : UInt8, Gen.isOctalDigit c = Spec.Lexical.isOct c) ∧
    (∀ c : UInt8, Gen.isIdentStart c = Spec.Lexical.isLetter c) ∧ (∀ c : UInt8, Gen.isIdentPart c = Spec.Lexical.isIdentChar c) ∧
    (∀ c : UInt8, Gen.isDigit c = Char.isDigit c) ∧ (∀ c : UInt8, Gen.isHexDigit c = Char.isHexDigit c) ∧
    (∀ c : UInt8, Gen.isOctalDigit c = Char.isOctalDigit c) ∧ (∀ c : UInt8, Gen.isIdentStart c = Char.isIdentStart c) ∧
    (∀ c : UInt8, Gen.isIdentPart c = Char.isIdentPart c) ∧
    Gen.charClassNames = ["isPrint", "isDigit", "isHexDigit", "isOctalDigit", "isIdentStart", "isIdentPart"] := by
  refine ⟨?_, ?_, ?_, ?_, ?_, ?_, ?_, ?_, ?_, ?_, ?_, by decide⟩ <;> (apply UInt8.forall_of_fin; decide +kernel)

/-- non-vacuity: the reference lexer on an input with a dot-identifier, an exponent float, a raw bytes literal and hex -/
example : (Spec.Lexical.lexAll (B "a.1e5 rb'\\n' 0x1F")).map (·.map (·.kind)) =
    some [.ident, K ".", .ident, .bytes, .int, .eof] := by rfl

end MF.Props.C14
