/-
  C08 for the SELECT core (Task X) — the documented grammar G_Q (MF/Spec/QueryGrammar.lean) and the model of
  ParseQuery / ParseStatement (MF/Model/Query.lean, tied to memefish.ParseQuery / memefish.ParseStatement by the QUERY
  channel: every field, every position, Pos()/End() of every node, SQL()).

  Property theorems only (lemmas: MF/Proofs/QuerySound.lean, MF/Proofs/QueryComplete.lean).

   (1) `query_sound`, `query_sound_top`: an accepted token list splits into the consumed tokens and the rest; the consumed
       tokens read as the yield of the returned tree (`matchB (yieldQ q) pre`), and that yield is derivable in G_Q.
       The expression slots are discharged by `MF.Props.C07.parse_sound` through the erasure theorem.
   (2) completeness is proved CLAUSE-WISE only so far (`expr_slot_complete`, `where_complete`, `having_complete`; eventual-fuel
       form, side conditions explicit: no unquoted SAFE_CAST / REPLACE_FIELDS identifier — inherited from C07 — and the next
       token does not continue an expression); `query_complete` for whole derivations of G_Q is NOT proved (report §4).
   (3) `query_entry_points_agree`: on a token list that starts with SELECT the statement entry point answers exactly what
       the query entry point answers — for every fuel and every kind of answer (ok / raise / outside / outOfFuel).
-/
import MF.Proofs.QuerySound
import MF.Proofs.QueryComplete
namespace MF.Props.C08
open MF MF.Expr MF.Query

/-- (1) soundness of `parseQueryStatement` -/
theorem query_sound {fuel : Nat} {ts rest : List Token} {q : QueryStatement}
    (h : parseQueryStatement fuel ts = .ok (q, rest)) :
    ∃ pre, ts = pre ++ rest ∧ matchB (yieldQ q) pre = true ∧ WFQ q ∧ QueryD (yieldQ q) := by
  obtain ⟨⟨pre, e, m⟩, wf⟩ := parseQueryStatement_sound h
  exact ⟨pre, e, m, wf, yield_derivable wf⟩

/-- (1) the same for the entry point ParseQuery (the whole input is one query statement) -/
theorem query_sound_top {fuel : Nat} {ts : List Token} {q : QueryStatement} (h : parseQueryTop fuel ts = .ok q) :
    ∃ pre rest, ts = pre ++ rest ∧ qcur rest = .eof ∧ matchB (yieldQ q) pre = true ∧ WFQ q ∧ QueryD (yieldQ q) := by
  unfold parseQueryTop at h
  obtain ⟨p, hp, hk⟩ := Res.bind_eq_ok.1 h
  obtain ⟨q', rest⟩ := p
  simp only at hk
  split at hk
  · rename_i he
    cases hk
    obtain ⟨pre, e, m, wf, d⟩ := query_sound hp
    exact ⟨pre, rest, e, he, m, wf, d⟩
  · cases hk

/-- (3) the two entry points agree on every token list that starts with SELECT -/
theorem query_entry_points_agree {ts : List Token} (h : qcur ts = .select) (fuel : Nat) :
    parseStatementTop fuel ts = parseQueryTop fuel ts := by
  unfold parseStatementTop parseQueryTop parseStatement parseQueryStatement
  simp [h]

/-- (3) in particular an accepted query is accepted by ParseStatement with the SAME tree, and conversely -/
theorem query_entry_points_agree_ok {ts : List Token} (h : qcur ts = .select) (fuel : Nat) (q : QueryStatement) :
    parseStatementTop fuel ts = .ok q ↔ parseQueryTop fuel ts = .ok q := by
  rw [query_entry_points_agree h]

/-- every token list ParseQuery accepts starts with SELECT (the fragment has no other query form) -/
theorem accepted_starts_select {fuel : Nat} {ts : List Token} {q : QueryStatement} (h : parseQueryTop fuel ts = .ok q) :
    qcur ts = .select := by
  unfold parseQueryTop parseQueryStatement at h
  obtain ⟨p, hp, _⟩ := Res.bind_eq_ok.1 h
  split at hp
  · cases hp
  · obtain ⟨p2, hp2, _⟩ := Res.bind_eq_ok.1 hp
    unfold parseQueryExpr at hp2
    split at hp2
    · cases hp2
    · obtain ⟨s, hs, _⟩ := Res.bind_eq_ok.1 hp2
      unfold parseSimpleQueryExpr at hs
      split at hs
      · cases hs
      · cases hs
      · assumption
      · cases hs

/-- (2) an expression slot of G_Q, followed by a token that does not continue an expression, is consumed exactly by the
expression parser with positions (from `MF.Props.C07.parse_complete` through the erasure theorem) -/
theorem expr_slot_complete {ds : List QD} {pre rest : List Token} (he : ExprY ds) (hm : matchB ds pre = true)
    (hc : ∀ t ∈ pre, isCastLike t = false) (hf : Follow rest) :
    ∃ n, ∀ fuel, n ≤ fuel → ∃ e, parsePExpr fuel (pre ++ rest) = .ok (e, rest) :=
  parsePExpr_acc he hm hc hf

/-- (2) every derivation of `WHERE expr` is accepted by `tryParseWhere` -/
theorem where_complete {ds : List QD} {pre rest : List Token} (hd : WhereD ds) (hm : matchB ds pre = true)
    (hc : ∀ t ∈ pre, isCastLike t = false) (hf : Follow rest) :
    ∃ n, ∀ fuel, n ≤ fuel → ∃ w, tryParseWhere fuel (pre ++ rest) = .ok (w, rest) :=
  tryParseWhere_acc hd hm hc hf

/-- (2) every derivation of `HAVING expr` is accepted by `tryParseHaving` -/
theorem having_complete {ds : List QD} {pre rest : List Token} (hd : HavingD ds) (hm : matchB ds pre = true)
    (hc : ∀ t ∈ pre, isCastLike t = false) (hf : Follow rest) :
    ∃ n, ∀ fuel, n ≤ fuel → ∃ w, tryParseHaving fuel (pre ++ rest) = .ok (w, rest) :=
  tryParseHaving_acc hd hm hc hf

/-! ## non-vacuity: concrete statements through the model lexer and the model parser -/

/-- `ParseQuery` accepts the text and the consumed tokens (all but `<eof>`) read as the yield of the tree -/
def soundOn (buf : Bytes) : Bool :=
  match Lex.lexAll buf with
  | .ok ts =>
    match parseQueryTop (Query.topFuel ts) ts with
    | .ok q => matchB (yieldQ q) ts.dropLast
    | _ => false
  | _ => false

/-- both entry points answer the same line -/
def agreeOn (buf : Bytes) : Bool := queryRun true buf == queryRun false buf

def exFull : Bytes :=
  B "SELECT DISTINCT a.*, b + 1 AS c, d e, FROM t.u AS v WHERE x = 1 GROUP BY y, z HAVING w ORDER BY p DESC, q LIMIT 10 OFFSET @k"

example : soundOn exFull = true := by decide +kernel
example : agreeOn exFull = true := by decide +kernel
example : soundOn (B "SELECT * FROM offset offset LIMIT 1 offset 2") = true := by decide +kernel
example : soundOn (B "select a,") = true := by decide +kernel
example : queryRun false (B "SELECT a b") =
    "OK (stmt (select 0 - [(alias {(ident 61) 0:Ident:7:8:NamePos=7,NameEnd=8} (as -1 (id 9 10 62))@9:10)@7:10] - - - -)@0:10)@0:10 53454c45435420612062 0 10" := by
  decide +kernel
example : queryRun true (B "SELECT a b") = queryRun false (B "SELECT a b") := by decide +kernel
/-- the trailing comma stands before FROM or at the very end only -/
example : queryRun false (B "SELECT a, WHERE b") = "ERR" := by decide +kernel
example : queryRun false (B "SELECT a, LIMIT 1") = "ERR" := by decide +kernel
example : queryRun false (B "SELECT a, FROM t") =
    "OK (stmt (select 0 - [(item {(ident 61) 0:Ident:7:8:NamePos=7,NameEnd=8})@7:8] (from 10 (table (id 15 16 74) -)@15:16)@10:16 - - -)@0:16)@0:16 53454c45435420612046524f4d2074 0 16" := by
  decide +kernel
/-- a comma join leaves the fragment -/
example : queryRun false (B "SELECT a FROM t, u") = "OUTSIDE" := by decide +kernel
/-- the quoted word is not the pseudo keyword OFFSET -/
example : queryRun false (B "SELECT a LIMIT 1 `offset` 2") = "ERR" := by decide +kernel

end MF.Props.C08
