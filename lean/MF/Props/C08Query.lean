/-
  C08 for the SELECT core (Task X) — the documented grammar G_Q (MF/Spec/QueryGrammar.lean) and the model of
  ParseQuery / ParseStatement (MF/Model/Query.lean, tied to memefish.ParseQuery / memefish.ParseStatement by the QUERY
  channel: every field, every position, Pos()/End() of every node, SQL()).

  Property theorems only (lemmas: MF/Proofs/QuerySound.lean, MF/Proofs/QueryComplete.lean).

   (1) `query_sound`, `query_sound_top`: an accepted token list splits into the consumed tokens and the rest; the consumed
       tokens read as the yield of the returned tree (`matchB (yieldQ q) pre`), and that yield is derivable in G_Q.
       The expression slots are discharged by `MF.Props.C07.parse_sound` through the erasure theorem.
   (2) `query_complete_partial`: every derivation of G_Q WITHOUT the `expr.*` production, followed by `<eof>`, is accepted
       (eventual-fuel form, one tree); side conditions explicit, each shown necessary (`complete_needs_castfree`,
       `trailing_comma_placement`); `query_complete_statement_partial`: the same through ParseStatement, same tree;
       clause-wise: `expr_slot_complete`, `where_complete`, `having_complete`.
   (3) `query_entry_points_agree`: on a token list that starts with SELECT the statement entry point answers exactly what
       the query entry point answers — for every fuel and every kind of answer (ok / raise / outside / outOfFuel).
-/
import MF.Proofs.QuerySound
import MF.Proofs.QueryComplete
namespace MF.Props.C08
open MF MF.Expr MF.Query

/-- (1) soundness of `parseQueryStatement` -/
theorem query_sound {fuel : Nat} {ts rest : List Token} {q : QueryStatement}
    (h : parseQueryStatement fuel ts = .ok (q, rest)) :
    ∃ pre, ts = pre ++ rest ∧ matchB (yieldQ q) pre = true ∧ WFQ q ∧ QueryD (yieldQ q) := by
  obtain ⟨⟨pre, e, m⟩, wf⟩ := parseQueryStatement_sound h
  exact ⟨pre, e, m, wf, yield_derivable wf⟩

/-- (1) the same for the entry point ParseQuery (the whole input is one query statement) -/
theorem query_sound_top {fuel : Nat} {ts : List Token} {q : QueryStatement} (h : parseQueryTop fuel ts = .ok q) :
    ∃ pre rest, ts = pre ++ rest ∧ qcur rest = .eof ∧ matchB (yieldQ q) pre = true ∧ WFQ q ∧ QueryD (yieldQ q) := by
  unfold parseQueryTop at h
  obtain ⟨p, hp, hk⟩ := Res.bind_eq_ok.1 h
  obtain ⟨q', rest⟩ := p
  simp only at hk
  split at hk
  · rename_i he
    cases hk
    obtain ⟨pre, e, m, wf, d⟩ := query_sound hp
    exact ⟨pre, rest, e, he, m, wf, d⟩
  · cases hk

/-- (3) the two entry points agree on every token list that starts with SELECT -/
theorem query_entry_points_agree {ts : List Token} (h : qcur ts = .select) (fuel : Nat) :
    parseStatementTop fuel ts = parseQueryTop fuel ts := by
  unfold parseStatementTop parseQueryTop parseStatement parseQueryStatement
  simp [h]

/-- (3) in particular an accepted query is accepted by ParseStatement with the SAME tree, and conversely -/
theorem query_entry_points_agree_ok {ts : List Token} (h : qcur ts = .select) (fuel : Nat) (q : QueryStatement) :
    parseStatementTop fuel ts = .ok q ↔ parseQueryTop fuel ts = .ok q := by
  rw [query_entry_points_agree h]

/-- every token list ParseQuery accepts starts with SELECT (the fragment has no other query form) -/
theorem accepted_starts_select {fuel : Nat} {ts : List Token} {q : QueryStatement} (h : parseQueryTop fuel ts = .ok q) :
    qcur ts = .select := by
  unfold parseQueryTop parseQueryStatement at h
  obtain ⟨p, hp, _⟩ := Res.bind_eq_ok.1 h
  split at hp
  · cases hp
  · obtain ⟨p2, hp2, _⟩ := Res.bind_eq_ok.1 hp
    unfold parseQueryExpr at hp2
    split at hp2
    · cases hp2
    · obtain ⟨s, hs, _⟩ := Res.bind_eq_ok.1 hp2
      unfold parseSimpleQueryExpr at hs
      split at hs
      · cases hs
      · cases hs
      · assumption
      · cases hs

/-- (2) **completeness** for G_Q without the `expr.*` production (`QueryD0`; hence `_partial`): every derivation, read by
a token list `pre` and followed by `<eof>`, is accepted by ParseQuery — ONE tree for all sufficiently large fuels.
Side conditions: (a) `hc` — no unquoted SAFE_CAST / REPLACE_FIELDS identifier (inherited from `MF.Props.C07.parse_complete`;
necessary: `complete_needs_castfree`); (c) the placement of the trailing comma is part of `QueryG` (necessary:
`trailing_comma_placement`).  (b) the `expr.*` production is left out because C07 exports completeness only for a
following token that does not continue an expression (`Follow` excludes `.`). -/
theorem query_complete_partial {ds : List QD} {pre rest : List Token} (hd : QueryD0 ds) (hm : matchB ds pre = true)
    (hc : ∀ t ∈ pre, isCastLike t = false) (hr : qcur rest = .eof) :
    ∃ q n, ∀ fuel, n ≤ fuel → parseQueryTop fuel (pre ++ rest) = .ok q := by
  obtain ⟨q, n, hn⟩ := queryD0_complete hd hm hc hr
  exact ⟨q, n, hn⟩

/-- (2)+(3) the same through the statement entry point, with the same tree -/
theorem query_complete_statement_partial {ds : List QD} {pre rest : List Token} (hd : QueryD0 ds)
    (hm : matchB ds pre = true) (hc : ∀ t ∈ pre, isCastLike t = false) (hr : qcur rest = .eof) :
    ∃ q n, ∀ fuel, n ≤ fuel → parseStatementTop fuel (pre ++ rest) = .ok q ∧ parseQueryTop fuel (pre ++ rest) = .ok q := by
  obtain ⟨q, n, hn⟩ := query_complete_partial hd hm hc hr
  refine ⟨q, n, fun f hf => ?_⟩
  have h := hn f hf
  exact ⟨by rw [query_entry_points_agree (accepted_starts_select h)]; exact h, h⟩

/-- `QueryD0` is a sub-grammar of G_Q -/
theorem queryD0_sub {ds : List QD} (h : QueryD0 ds) : QueryD ds := by
  cases h with
  | mk tr ha his hf hw hg hh ho hl htr =>
    refine QueryG.mk tr ha ?_ hf hw hg hh ho hl htr
    clear htr
    induction his with
    | one h => exact SepBy.one (by cases h with
        | star => exact ItemD.star
        | expr he => exact ItemD.expr he
        | alias he ha => exact ItemD.alias he ha)
    | cons h _ ih => exact SepBy.cons (by cases h with
        | star => exact ItemD.star
        | expr he => exact ItemD.expr he
        | alias he ha => exact ItemD.alias he ha) ih

/-- (2) an expression slot of G_Q, followed by a token that does not continue an expression, is consumed exactly by the
expression parser with positions (from `MF.Props.C07.parse_complete` through the erasure theorem and `parsePExpr_mono`) -/
theorem expr_slot_complete {ds : List QD} {pre rest : List Token} (he : ExprY ds) (hm : matchB ds pre = true)
    (hc : ∀ t ∈ pre, isCastLike t = false) (hf : Follow rest) :
    ∃ e n, ∀ fuel, n ≤ fuel → parsePExpr fuel (pre ++ rest) = .ok (e, rest) :=
  parsePExpr_ev he hm hc hf

/-- (2) every derivation of `WHERE expr` is accepted by `tryParseWhere` -/
theorem where_complete {ds : List QD} {pre rest : List Token} (hd : WhereD ds) (hm : matchB ds pre = true)
    (hc : ∀ t ∈ pre, isCastLike t = false) (hf : Follow rest) :
    ∃ w n, ∀ fuel, n ≤ fuel → tryParseWhere fuel (pre ++ rest) = .ok (some w, rest) := by
  obtain ⟨w, n, hn⟩ := where_complete' hd hm hc hf
  exact ⟨w, n, hn⟩

/-- (2) every derivation of `HAVING expr` is accepted by `tryParseHaving` -/
theorem having_complete {ds : List QD} {pre rest : List Token} (hd : HavingD ds) (hm : matchB ds pre = true)
    (hc : ∀ t ∈ pre, isCastLike t = false) (hf : Follow rest) :
    ∃ w n, ∀ fuel, n ≤ fuel → tryParseHaving fuel (pre ++ rest) = .ok (some w, rest) := by
  obtain ⟨w, n, hn⟩ := having_complete' hd hm hc hf
  exact ⟨w, n, hn⟩

/-! ## the side conditions are necessary (kernel-checked, at the driver's fuel) -/

/-- the parser's own answer on a text (the token-level OUTSIDE rule of the channel is not applied) -/
def answerKind (buf : Bytes) : String :=
  match Lex.lexAll buf with
  | .ok ts =>
    match parseQueryTop (Query.topFuel ts) ts with
    | .ok _ => "ok" | .raise => "raise" | .outside => "outside" | .crash => "crash" | .outOfFuel => "fuel"
  | _ => "lex"

/-- the descriptor list reads the tokens of the text (all but `<eof>`) -/
def readsAs (ds : List QD) (buf : Bytes) : Bool :=
  match Lex.lexAll buf with
  | .ok ts => matchB ds ts.dropLast
  | _ => false

/-- (a) `SELECT safe_cast` is a sentence of G_Q (a select list of one expression, the column `safe_cast`), its tokens read
as that derivation, and the parser does NOT accept it: it leaves the fragment at the unquoted word (`isCastLike`) -/
theorem complete_needs_castfree :
    QueryD0 [.kw .select, .e ⟨.ident, B "safe_cast"⟩] ∧
    readsAs [.kw .select, .e ⟨.ident, B "safe_cast"⟩] (B "SELECT safe_cast") = true ∧
    answerKind (B "SELECT safe_cast") = "outside" ∧ answerKind (B "SELECT `safe_cast`") = "ok" := by
  refine ⟨?_, by decide +kernel, by decide +kernel, by decide +kernel⟩
  have h := QueryG.mk (I := ItemD0) (a := []) (is := [.e ⟨.ident, B "safe_cast"⟩]) (f := []) (w := []) (g := []) (h := [])
    (o := []) (l := []) false AodD.none
    (SepBy.one (ItemD0.expr ⟨.ident (B "safe_cast"), by decide, by decide, rfl⟩)) Opt.none Opt.none Opt.none Opt.none
    Opt.none Opt.none (by intro h; cases h)
  simpa [trailD] using h

/-- (c) a trailing comma before WHERE / LIMIT (not before FROM, not at the very end) is rejected although the select list,
the comma and the clause are each well formed: the placement condition of `QueryG` cannot be dropped -/
theorem trailing_comma_placement :
    answerKind (B "SELECT a, FROM t WHERE b") = "ok" ∧ answerKind (B "SELECT a,") = "ok" ∧
    answerKind (B "SELECT a, WHERE b") = "raise" ∧ answerKind (B "SELECT a, LIMIT 1") = "raise" ∧
    answerKind (B "SELECT a WHERE b") = "ok" ∧ answerKind (B "SELECT a LIMIT 1") = "ok" := by
  refine ⟨?_, ?_, ?_, ?_, ?_, ?_⟩ <;> decide +kernel

/-- (b) the production left out of `query_complete_partial` IS accepted on these inputs (explored by the channel on every run) -/
example : answerKind (B "SELECT t.*, a + b.*, NOT a.* FROM t") = "ok" := by decide +kernel

/-! ## non-vacuity: concrete statements through the model lexer and the model parser -/

/-- `ParseQuery` accepts the text and the consumed tokens (all but `<eof>`) read as the yield of the tree -/
def soundOn (buf : Bytes) : Bool :=
  match Lex.lexAll buf with
  | .ok ts =>
    match parseQueryTop (Query.topFuel ts) ts with
    | .ok q => matchB (yieldQ q) ts.dropLast
    | _ => false
  | _ => false

/-- both entry points answer the same line -/
def agreeOn (buf : Bytes) : Bool := queryRun true buf == queryRun false buf

def exFull : Bytes :=
  B "SELECT DISTINCT a.*, b + 1 AS c, d e, FROM t.u AS v WHERE x = 1 GROUP BY y, z HAVING w ORDER BY p DESC, q LIMIT 10 OFFSET @k"

example : soundOn exFull = true := by decide +kernel
example : agreeOn exFull = true := by decide +kernel
example : soundOn (B "SELECT * FROM offset offset LIMIT 1 offset 2") = true := by decide +kernel
example : soundOn (B "select a,") = true := by decide +kernel
example : queryRun false (B "SELECT a b") =
    "OK (stmt (select 0 - [(alias {(ident 61) 0:Ident:7:8:NamePos=7,NameEnd=8} (as -1 (id 9 10 62))@9:10)@7:10] - - - -)@0:10)@0:10 53454c45435420612062 0 10" := by
  decide +kernel
example : queryRun true (B "SELECT a b") = queryRun false (B "SELECT a b") := by decide +kernel
/-- the trailing comma stands before FROM or at the very end only -/
example : queryRun false (B "SELECT a, WHERE b") = "ERR" := by decide +kernel
example : queryRun false (B "SELECT a, LIMIT 1") = "ERR" := by decide +kernel
example : queryRun false (B "SELECT a, FROM t") =
    "OK (stmt (select 0 - [(item {(ident 61) 0:Ident:7:8:NamePos=7,NameEnd=8})@7:8] (from 10 (table (id 15 16 74) -)@15:16)@10:16 - - -)@0:16)@0:16 53454c45435420612046524f4d2074 0 16" := by
  decide +kernel
/-- a comma join leaves the fragment -/
example : queryRun false (B "SELECT a FROM t, u") = "OUTSIDE" := by decide +kernel
/-- the quoted word is not the pseudo keyword OFFSET -/
example : queryRun false (B "SELECT a LIMIT 1 `offset` 2") = "ERR" := by decide +kernel

end MF.Props.C08
