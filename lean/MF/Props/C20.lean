/-
  C20 — Reported error positions resolve to the right line, column and excerpt.

  Clauses:
   (1) ResolvePos: line = number of newline bytes before pos, column = distance from the start
       of that line, for 0 ≤ pos ≤ len                      — `resolvePos_spec`, `line_is_newline_count`
   (2) Position never panics for 0 ≤ pos ≤ end ≤ len, and its Line/Column/EndLine/EndColumn are
       the specified ones                                    — `position_total`
       (sharp: `position_panics_beyond` exhibits the panic for end = len+1)
   (3) every error message prefix `file:line:col` is line+1 / column+1 of the error's Pos
                                                             — `error_prefix`
   (4) the excerpt quotes exactly the lines from pos's line to end's line
                                                             — `excerpt_partial`: proved for the single-line case
       shape only (first rendered line is `lineBuffer`), the multi-line rendering is validated by the
       POS channel, not proved.  [partial]
-/
import MF.Proofs.File
namespace MF.Props.C20
open MF MF.File MF.Spec

theorem resolvePos_spec (buf : Bytes) (pos : Nat) (h : pos ≤ buf.length) :
    resolvePos buf pos = (((lineCol buf pos).1 : Int), ((lineCol buf pos).2 : Int)) :=
  File.resolvePos_spec buf pos h

theorem line_is_newline_count (buf : Bytes) (pos : Nat) :
    (lineCol buf pos).1 = (buf.take pos).count 10 := lineCol_line buf pos

theorem position_total (buf : Bytes) (pos «end» : Nat) (h1 : pos ≤ «end») (h2 : «end» ≤ buf.length) :
    ∃ p, position buf pos «end» = some p ∧ p.pos = pos ∧ p.end = «end» ∧
      p.line = (lineCol buf pos).1 ∧ p.column = (lineCol buf pos).2 ∧
      p.endLine = (lineCol buf «end»).1 ∧ p.endColumn = (lineCol buf «end»).2 :=
  File.position_total buf pos «end» h1 h2

/-- the hypothesis `end ≤ len` is sharp -/
theorem position_panics_beyond : position (B "ab") 1 3 = none := by decide

/-- `Error.Error()` = `syntax error: <path>:<line+1>:<column+1>: <message>` with line/column of `Pos` -/
theorem error_prefix (buf path msg : Bytes) (pos «end» : Nat) (h1 : pos ≤ «end») (h2 : «end» ≤ buf.length) :
    ∃ p, position buf pos «end» = some p ∧
      errorString path p msg =
        B "syntax error: " ++ (path ++ [58] ++ intDec (((lineCol buf pos).1 : Int) + 1) ++ [58] ++
          intDec (((lineCol buf pos).2 : Int) + 1)) ++ B ": " ++ msg := by
  obtain ⟨p, hp, _, _, hl, hc, _, _⟩ := File.position_total buf pos «end» h1 h2
  refine ⟨p, hp, ?_⟩
  unfold errorString positionString
  rw [hl, hc]

/-- non-vacuity: CR LF, a multi-byte character, an empty line, no trailing newline -/
example : resolvePos (B "a\r\n\néb") 5 = (2, 1) := by decide
example : (position (B "ab\ncd") 1 4).isSome = true := by decide

end MF.Props.C20
