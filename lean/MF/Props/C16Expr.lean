/-
  C16 (parser side, expression fragment M1) — re-spelling an accepted expression never changes the AST.

  `MF/Props/C16Lexer.lean` proves the LEXER half for every input (`trivia_lemma`): a re-spelling (new trivia in front of
  every token, new letter case of reserved keywords and unquoted identifiers) is accepted and has the same tokens up to
  raw text.  This file adds the PARSER half for the fragment M1 of C07 (`MF/Model/Expr.lean`, the model of
  parseExpr … parseLit tied to `memefish.ParseExpr` by the EXPR channel) and composes the two:

    `respell_expr_partial`   if `ParseExpr x` is accepted with tree `e` (model lexer + model parser) and `x'` is a re-spelling
                             of `x` that changes trivia and KEYWORD case only (user identifiers keep their bytes — the
                             property itself says "user identifiers … keep their exact spelling"), then `x'` is accepted and
                             parses to the SAME tree `e` (the typed tree `Expr` carries no positions: "same AST up to position
                             values").
    `respell_tokens_proj`    the reason: what the parser model reads from a token (`proj`: its class and, for names and
                             literals, its value; `isCastLike`) is invariant under such a re-spelling.

  PARTIAL in two stated ways:
   * hypothesis `hc`: no identifier token reads SAFE_CAST / REPLACE_FIELDS.  It is inherited from `C07.parse_complete` (where
     it is explained: on such a word followed by `(` the parser leaves the fragment) and is slightly stronger than necessary.
   * the letter case of the pseudo-keywords of the fragment (OFFSET, ORDINAL, SAFE_OFFSET, SAFE_ORDINAL in a subscript) is
     NOT varied: `IdentsKept` keeps every identifier token, pseudo-keyword or not.  (The tree records the spelling of that
     word, so with a changed case the statement would be about a tree "up to that spelling".)  The harness predicate of C16
     varies it on the implementation.
  Everything outside the fragment: exploration only (see the registry entry of C16).
-/
import MF.Proofs.TriviaMain
import MF.Proofs.ExprSound
import MF.Proofs.ExprUnique
import MF.Proofs.ExprLexToks
namespace MF.Props.C16
open MF MF.Lex MF.Expr

/-- the re-spelling leaves identifier tokens alone (`ps[i].2` is the new raw text of token `i`) -/
def IdentsKept : List Token → List (Bytes × Bytes) → Prop
  | [], [] => True
  | t :: ts, p :: ps => (t.kind = .ident → p.2 = t.raw) ∧ IdentsKept ts ps
  | _, _ => False

/-- the per-token condition `RawOK` of a re-spelling, for all tokens -/
def RawsOK : List Token → List (Bytes × Bytes) → Prop
  | [], [] => True
  | t :: ts, p :: ps => RawOK t p.2 ∧ RawsOK ts ps
  | _, _ => False

instance : (ts : List Token) → (ps : List (Bytes × Bytes)) → Decidable (IdentsKept ts ps)
  | [], [] => isTrue trivial
  | [], _ :: _ => isFalse (by simp [IdentsKept])
  | _ :: _, [] => isFalse (by simp [IdentsKept])
  | t :: ts, p :: ps =>
    have := instDecidableIdentsKept ts ps
    inferInstanceAs (Decidable ((t.kind = .ident → p.2 = t.raw) ∧ IdentsKept ts ps))

instance : (ts : List Token) → (ps : List (Bytes × Bytes)) → Decidable (RawsOK ts ps)
  | [], [] => isTrue trivial
  | [], _ :: _ => isFalse (by simp [RawsOK])
  | _ :: _, [] => isFalse (by simp [RawsOK])
  | t :: ts, p :: ps =>
    have := instDecidableRawsOK ts ps
    inferInstanceAs (Decidable (RawOK t p.2 ∧ RawsOK ts ps))

theorem respellFrom_rawsOK {first : Bool} {ts : List Token} {ps : List (Bytes × Bytes)} {x' : Bytes}
    (h : RespellFrom first ts ps x') : RawsOK ts ps := by
  induction ts generalizing first ps x' with
  | nil => cases ps <;> simp [RespellFrom, RawsOK] at h ⊢
  | cons t ts ih =>
    cases ps with
    | nil => simp [RespellFrom] at h
    | cons p ps =>
      obtain ⟨τ', r'⟩ := p
      simp only [RespellFrom] at h
      obtain ⟨rest', _, _, _, hraw, hrest⟩ := h
      exact ⟨hraw, ih hrest⟩

/-- what the parser model reads from one token is unchanged -/
theorem tok_invariant {t t' : Token} {r' : Bytes} (hrel : TokRel t r' t') (hraw : RawOK t r')
    (hid : t.kind = .ident → r' = t.raw) :
    proj t' = proj t ∧ isCastLike t' = isCastLike t := by
  obtain ⟨hk, hr, _, hu, hn⟩ := hrel
  by_cases hident : t.kind = .ident
  · -- an identifier keeps its bytes
    have hr' : t'.raw = t.raw := by rw [hr, hid hident]
    have has : t'.asString = t.asString := by
      by_cases hq : t.raw.head? ≠ some 96
      · have := hu ⟨hident, hq⟩
        rw [this.2, this.1, hid hident]
      · exact hn (fun h => hq h.2)
    refine ⟨?_, ?_⟩
    · simp only [proj, tokVal, hk, hident, has, hr']
    · simp only [isCastLike, Token.isKeywordLike, hk, hr']
  · have has : t'.asString = t.asString := hn (fun h => hident h.1)
    have hk' : t'.kind ≠ .ident := by rw [hk]; exact hident
    refine ⟨?_, ?_⟩
    · -- numbers keep their bytes (they are not case-free); every other class reads `asString` or nothing
      have hnum : (t.kind = .int ∨ t.kind = .float) → t'.raw = t.raw := by
        intro h
        have hcf : caseFree t = false := by
          rcases h with h | h <;> simp [caseFree, h]
        have : r' = t.raw := by simpa [RawOK, hcf] using hraw
        rw [hr, this]
      have hv : tokVal t' = tokVal t := by
        unfold tokVal
        rw [hk]
        cases hkind : t.kind with
        | int => simp only [tk]; exact hnum (Or.inl hkind)
        | float => simp only [tk]; exact hnum (Or.inr hkind)
        | ident => exact absurd hkind hident
        | sym s =>
          have h6 := symTK_noval s
          simp only [tk]
          generalize symTK s = k at h6 ⊢
          cases k <;> simp_all
        | _ => simp only [tk, has]
      simp only [proj, hk, hv]
    · have e1 : (t'.kind == TokKind.ident) = false := by simpa using hk'
      have e2 : (t.kind == TokKind.ident) = false := by simpa using hident
      simp only [isCastLike, Token.isKeywordLike, e1, e2, Bool.false_and, Bool.or_self]

/-- … hence for the whole token list -/
theorem respell_tokens_proj {ts ts' : List Token} {ps : List (Bytes × Bytes)}
    (hrel : TokensRel ts ps ts') (hraw : RawsOK ts ps) (hid : IdentsKept ts ps) :
    ts'.map proj = ts.map proj ∧ ts'.map isCastLike = ts.map isCastLike := by
  induction ts generalizing ps ts' with
  | nil => cases ps <;> cases ts' <;> simp [TokensRel] at hrel ⊢
  | cons t ts ih =>
    cases ps with
    | nil => simp [TokensRel] at hrel
    | cons p ps =>
      cases ts' with
      | nil => simp [TokensRel] at hrel
      | cons t' ts' =>
        simp only [TokensRel] at hrel
        simp only [RawsOK] at hraw
        simp only [IdentsKept] at hid
        have h1 := tok_invariant hrel.1 hraw.1 hid.1
        have h2 := ih hrel.2 hraw.2 hid.2
        simp only [List.map_cons, h1.1, h1.2, h2.1, h2.2, and_self]

theorem cur_of_proj {a b : List Token} (h : a.map proj = b.map proj) : cur a = cur b := by
  cases a with
  | nil => cases b with
    | nil => rfl
    | cons _ _ => simp at h
  | cons x xs => cases b with
    | nil => simp at h
    | cons y ys =>
      simp only [List.map_cons, List.cons.injEq] at h
      have := congrArg Tok'.k h.1
      simpa [proj, cur] using this

/-- **C16 for the expression fragment** (see the header for the two stated restrictions). -/
theorem respell_expr_partial {x x' : Bytes} {ts : List Token} {ps : List (Bytes × Bytes)} {fuel : Nat} {e : Expr}
    (hl : lexAll x = .ok ts) (hp : parseExprTop fuel ts = .ok e)
    (hc : ∀ t ∈ ts, isCastLike t = false)
    (hre : Respell ts ps x') (hk : IdentsKept ts ps) :
    ∃ ts', lexAll x' = .ok ts' ∧ ∃ n, ∀ fuel', n ≤ fuel' → parseExprTop fuel' ts' = .ok e := by
  obtain ⟨ts', hl', hrel⟩ := trivia_lemma hl hre
  refine ⟨ts', hl', ?_⟩
  obtain ⟨pre, rest, hts, hcur, hy, hprec, hnf⟩ := parseExprTop_sound hp
  obtain ⟨hproj, hcast⟩ := respell_tokens_proj hrel (respellFrom_rawsOK hre) hk
  have hsplit : ts' = ts'.take pre.length ++ ts'.drop pre.length := (List.take_append_drop _ _).symm
  have hpre : (ts'.take pre.length).map proj = yield e := by
    rw [List.map_take, hproj, hts, List.map_append, ← hy]
    simp
  have hrest : (ts'.drop pre.length).map proj = rest.map proj := by
    rw [List.map_drop, hproj, hts, List.map_append]
    simp
  have hc' : ∀ t ∈ ts'.take pre.length, isCastLike t = false := by
    have hall : ∀ b ∈ ts'.map isCastLike, b = false := by
      rw [hcast]; intro b hb
      obtain ⟨t, ht, rfl⟩ := List.mem_map.1 hb
      exact hc t ht
    intro t ht
    exact hall _ (List.mem_map.2 ⟨t, List.mem_of_mem_take ht, rfl⟩)
  have hcur' : cur (ts'.drop pre.length) = .eof := by rw [cur_of_proj hrest, hcur]
  obtain ⟨n, hn⟩ := parseExprTop_complete hprec hnf hpre hc' hcur'
  exact ⟨n, fun f hf => by rw [hsplit]; exact hn f hf⟩

/-! ### non-vacuity: `a  +  b` re-spelled with comments, line breaks and a lower-case keyword -/

/-- the tokens of `a IS NOT NULL and b` -/
def exprToks : List Token := match lexAll (B "a IS NOT NULL and b") with | .ok ts => ts | _ => []

/-- new trivia and new raw text per token: `/*c*/a  is\nnot NULL AND b--x` -/
def exprPs : List (Bytes × Bytes) :=
  [(B "/*c*/", B "a"), (B "  ", B "is"), (B "\n", B "not"), (B " ", B "NULL"), (B " ", B "AND"), (B " ", B "b"), (B "--x", [])]

example : exprToks.map (·.raw) = [B "a", B "IS", B "NOT", B "NULL", B "and", B "b", []] := by decide +kernel
example : IdentsKept exprToks exprPs := by
  simp only [exprToks, exprPs]; decide +kernel
example : ∀ t ∈ exprToks, isCastLike t = false := by decide +kernel
example : RawsOK exprToks exprPs := by
  simp only [exprToks, exprPs]; decide +kernel

/-- all hypotheses of `respell_expr_partial` hold together on a concrete pair: `a+b` re-spelled `a + b --c` -/
example : ∃ ts ps, lexAll (B "a+b") = .ok ts ∧ Respell ts ps (B "a + b --c") ∧ IdentsKept ts ps ∧
    (∀ t ∈ ts, isCastLike t = false) := by
  have spaceRune_sp : SpaceRune [32] := ⟨by decide, by decide, by decide⟩
  have trivia_sp : ∀ {e : Bool}, Trivia e [32] := fun {e} => by
    have := Trivia.space (e := e) spaceRune_sp Trivia.nil
    simpa using this
  have startsSpace_sp : ∀ τ : Bytes, StartsSpace (32 :: τ) := fun τ => ⟨[32], τ, spaceRune_sp, rfl⟩
  refine ⟨[{ kind := .ident, raw := B "a", asString := B "a", pos := 0, «end» := 1 },
           { kind := K "+", raw := B "+", pos := 1, «end» := 2 },
           { kind := .ident, raw := B "b", asString := B "b", pos := 2, «end» := 3 },
           { kind := .eof, pos := 3, «end» := 3 }],
          [([], B "a"), (B " ", B "+"), (B " ", B "b"), (B " --c", [])], by rfl, ?_, by decide, by decide⟩
  have hend : Trivia true (B " --c") := by
    have h1 : Trivia true ([45, 45] ++ [99]) := Trivia.lineEnd (Or.inr (Or.inl rfl)) (by decide)
    exact Trivia.space spaceRune_sp h1
  simp only [Respell, RespellFrom]
  refine ⟨_, by rfl, Trivia.nil, fun h => (by cases h), by decide, ?_⟩
  refine ⟨_, by rfl, trivia_sp, fun _ => ⟨Or.inr (startsSpace_sp _), fun h => absurd h (by decide)⟩, by decide, ?_⟩
  refine ⟨_, by rfl, trivia_sp, fun _ => ⟨Or.inr (startsSpace_sp _), fun h => absurd h (by decide)⟩, by decide, ?_⟩
  exact ⟨[], by rfl, hend, fun _ => ⟨Or.inr (startsSpace_sp _), fun h => absurd h (by decide)⟩, by decide, rfl⟩

/-- and the conclusion, evaluated: the model gives both spellings the same answer (tree and `SQL()` text) -/
example : exprRun (B "a+b") = "OK (bin + (ident 61) (ident 62)) 61202b2062" ∧ exprRun (B "a+b") = exprRun (B "a + b --c") := by
  decide +kernel
example : exprRun (B "a IS NOT NULL and b") = exprRun (B "/*c*/a  is\nnot NULL AND b--x") := by decide +kernel

end MF.Props.C16
