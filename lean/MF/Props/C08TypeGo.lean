/-
  MF.Props.C08TypeGo — the DATA the hand-written model of ParseType (MF/Model/TypeParse.lean) copies out of parser.go,
  regenerated on every run by `tools/extract/typego.go` and compared by the kernel:

   * `simpleTypes_translated`       `var simpleTypes` of parser.go IS the model's table `TypeP.simpleTypes` (same names, same
                                    order — `simpleName?` takes the first entry the token reads as);
   * `parseType_dispatch_translated` the `switch p.Token.Kind` of `parseType` has exactly the three cases the model's `parseType`
                                    has (`<ident>`: `if !lookaheadSimpleType → parseNamedType else parseSimpleType`; `ARRAY →
                                    parseArrayType`; `STRUCT → parseStructType`), falls through to a `panic(*Error)` (the model's
                                    `.raise`) and runs under the deferred recover that calls `handleParseTypeError`.

  These are extracted facts decided by kernel evaluation; the TYPE channel continues to compare model and code on inputs.
-/
import MF.Model.TypeParse
import MF.Gen.TypeGo
namespace MF.Props.C08
open MF

theorem simpleTypes_translated :
    Gen.simpleTypesRecognised = true ∧ Gen.simpleTypesGo.map B = TypeP.simpleTypes := by decide +kernel

theorem parseType_dispatch_translated :
    Gen.parseTypeDispatch =
      [("token.TokenIdent/ifNotLookaheadSimpleType", ["lookaheadSimpleType", "parseNamedType", "parseSimpleType"]),
       ("ARRAY/plain", ["parseArrayType"]), ("STRUCT/plain", ["parseStructType"])] ∧
    Gen.parseTypeProtected = true ∧ Gen.parseTypeFallsToPanic = true := by decide +kernel

/-- the model's dispatch, for comparison with the translated one: same three cases, `.raise` otherwise -/
theorem parseType_model_dispatch (f : Nat) (ts : TypeP.PState) :
    TypeP.parseType (f + 1) ts =
      match TypeP.cur ts with
      | .ident => if !TypeP.lookaheadSimpleType ts then TypeP.parseNamedType f ts else TypeP.parseSimpleType ts
      | .array => TypeP.parseArrayType f ts
      | .struct_ => TypeP.parseStructType f ts
      | _ => .raise := by
  rw [TypeP.parseType]; generalize TypeP.cur ts = k; cases k <;> rfl

end MF.Props.C08
