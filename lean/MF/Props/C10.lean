/-
  C10 — Bad nodes capture exactly the skipped source tokens.

  The claim is about the four recovery handlers of parser.go and the recovery-mode (noPanic) lexer they drive.
  Proved here (lexer side, every byte string, every lexer state inside the buffer):
    `recovery_step_total`   in recovery mode `nextToken` always returns a token (never raises, never panics)
    `recovery_step_frame`   that token's Raw is exactly input[Pos:End], its comments and space tile the bytes since the
                            previous token, and the cursor ends at End — so the tokens a handler collects are, in order,
                            consecutive exact slices of the input from the recovery point on
    `recovery_progress`     every recovery step except at end of input advances the cursor (handlers terminate)
  Proved here (handler side; the four handlers are modelled in `MF.Model.Handlers` and tied to parser.go by the HANDLER
  channel through the hook `VerifRecover`):
    `noPanic_agrees`        on text where panic-mode lexing succeeds the two lexer modes return the SAME state
    `recovery_enumerates`   hence iterating recovery-mode `nextToken` over a lexically clean buffer enumerates `lexAll buf`
    `bad_tokens_exact`      every handler, from every restored lexer state satisfying the lexer invariant, terminates within
                            `len - l.pos + 2` iterations and returns: Tokens = the recovery-mode token stream from `l` up to
                            (not including) the first stop token, each an exact slice of the input, consecutive with only
                            trivia in between, the first being the restored current token; NodePos = its Pos; NodeEnd = End of
                            the last collected token (NodePos when none); the lexer left on the stop token
    `bad_tokens_clean`      on a lexically clean range those tokens are the panic-mode tokens
    `split_gt`              the `>>` split: exactly when the type handler stops on `>>` with nesting 1 the current token becomes
                            `>` with Pos one past the original (End, Raw, cursor unchanged)
    `restored_inv`          the states the hook hands to the handlers (and any state produced by the lexer) satisfy the invariant
    `bad_sql_shape`         `BadNode.SQL()` (modelled from ast/sql.go, `Handlers.badSQL`) writes the Raws of the collected
                            tokens in order and has nothing between two consecutive ones exactly when the input had nothing
                            between them (it never glues tokens that a blank or a comment separated, never separates glued ones)
    `bad_sql_slice_partial` without comments and with canonical blanks `SQL()` is literally `input[NodePos:NodeEnd]`
  Not proved (stretch): `bad_sql_relex` (re-lexing `SQL()` yields the same spellings).  It is FALSE without a hypothesis on
  the lexer context of the restored state: after an identifier-like token a leading `.` is lexed as a selector dot and the
  next token as a field name (`THEN RETURN .5` gives the Bad node `.` `5`, whose `SQL()` `.5` is one float).  With that
  hypothesis it needs a lookahead-locality lemma for every token scanner, which the project does not have; `badSQL` is
  compared with ast/sql.go on every request of the HANDLER channel, and the C10 predicate re-lexes `SQL()` on the implementation.
-/
import MF.Proofs.LexErr
import MF.Proofs.LexModes
import MF.Proofs.Handlers
namespace MF.Props.C10
open MF MF.Lex MF.Handlers

theorem recovery_step_total {buf : Bytes} {s : State} (hp : s.pos ≤ buf.length) :
    ∃ s', nextToken buf true s = .ok s' := noPanic_total hp

theorem recovery_step_frame {buf : Bytes} {s s' : State} (h : nextToken buf true s = .ok s') : Frame buf s s' :=
  nextToken_frame h

theorem recovery_progress {buf : Bytes} {s s' : State} (h : nextToken buf true s = .ok s') (hp : s.pos ≤ buf.length) :
    (s'.tok.kind = .eof → s'.pos = buf.length) ∧ (s'.tok.kind ≠ .eof → s.pos < s'.pos) :=
  ⟨fun hk => ((nextToken_progress h hp).1 hk).2, (nextToken_progress h hp).2.2.1⟩

/-- non-vacuity: an unclosed literal and an unclosed comment become <bad> tokens spanning them -/
example : ∃ s', nextToken (B "a 'x") true { Lex.init with pos := 1 } = .ok s' ∧ s'.tok.kind = .bad ∧ s'.tok.raw = B "'x" := ⟨_, rfl, rfl, rfl⟩
example : ∃ s', nextToken (B "a /* x") true { Lex.init with pos := 1 } = .ok s' ∧ s'.tok.kind = .bad ∧ s'.tok.raw = B "/* x" := ⟨_, rfl, rfl, rfl⟩

/-- I1 -/
theorem noPanic_agrees {buf : Bytes} {s s' : State} (h : nextToken buf false s = .ok s') :
    nextToken buf true s = .ok s' := Lex.noPanic_agrees h

theorem recovery_enumerates {buf : Bytes} {ts : List Token} (h : lexAll buf = .ok ts) : recAll buf = .ok ts :=
  recAll_clean h

/-- I4 (a)–(e), for each handler `h ∈ {statement, query simple, expr, type}`; the fields of `BadExact` are the five claims -/
theorem bad_tokens_exact {buf : Bytes} (h : HKind) {l : State}
    (inv : l.tok.end = l.pos ∧ l.pos ≤ buf.length ∧ l.tok.raw = slice buf l.tok.pos l.tok.end) :
    ∃ o, handler buf h l = .ok o ∧ BadExact buf h l o :=
  Handlers.bad_tokens_exact h ⟨inv.1, inv.2.1, inv.2.2⟩

theorem bad_tokens_clean {buf : Bytes} {h : HKind} {l : State} {o : Out} (ex : BadExact buf h l o) {sk : State}
    (hclean : panState buf o.tokens.length l = some sk) :
    o.tokens = panToks buf o.tokens.length l ∧ ∃ m, runNest h 0 o.tokens = some m ∧ o.final = finalOf h m sk :=
  Handlers.bad_tokens_clean ex hclean

theorem split_gt {h : HKind} {m : Nat} {sk : State} :
    (h = .type ∧ sk.tok.kind = K ">>" ∧ m = 1 →
      (finalOf h m sk).tok = { sk.tok with kind := K ">", pos := sk.tok.pos + 1 } ∧
      (finalOf h m sk).pos = sk.pos ∧ (finalOf h m sk).lastKind = sk.lastKind ∧ (finalOf h m sk).dotIdent = sk.dotIdent) ∧
    (¬(h = .type ∧ sk.tok.kind = K ">>" ∧ m = 1) → finalOf h m sk = sk) := Handlers.split_gt

theorem bad_sql_shape {buf : Bytes} {h : HKind} {l : State} {o : Out} (ex : BadExact buf h l o)
    {pre post : List Token} {t t' : Token} (hsplit : o.tokens = pre ++ t :: t' :: post) (ht : t.raw ≠ []) :
    badSQL (pre ++ [t, t']) = badSQL (pre ++ [t]) ++ gap (badSQL (pre ++ [t])) t' ++ t'.raw ∧
    (gap (badSQL (pre ++ [t])) t' = [] ↔ t'.pos = t.end) := Handlers.bad_sql_shape ex hsplit ht

/-- partial: hypotheses added — no collected token has comments, every one after the first is preceded by nothing or one
blank, the first is not empty; conclusion — `SQL()` is the input slice itself (so its re-lexing is that of the slice) -/
theorem bad_sql_slice_partial {buf : Bytes} {h : HKind} {l : State} {o : Out} (inv : LexInv buf l) (ex : BadExact buf h l o)
    (hl : l.tok.pos < l.tok.end) (hcm : ∀ t ∈ o.tokens, t.comments = [])
    (hsp : ∀ t ∈ o.tokens.tail, t.space = [] ∨ t.space = [32]) :
    badSQL o.tokens = slice buf o.nodePos o.nodeEnd := Handlers.bad_sql_slice_partial inv ex hl hcm hsp

theorem restored_inv {buf : Bytes} {k : Nat} {l : State} (h : advance buf k Lex.init = some l) : LexInv buf l :=
  advance_inv (LexInv.init buf) h

/-- non-vacuity: `ARRAY<STRUCT<a b>> x` with the type handler started at the inner `<` (the 4th token): `< a b` are
collected and the `>>` is split; the statement handler started at `(` takes everything up to `;` -/
example : ∃ l o, advance (B "ARRAY<STRUCT<a b>> x") 4 Lex.init = some l ∧ handler (B "ARRAY<STRUCT<a b>> x") .type l = .ok o ∧
    o.tokens.map (·.raw) = [B "<", B "a", B "b"] ∧ o.nodePos = 12 ∧ o.nodeEnd = 16 ∧
    o.final.tok.kind = K ">" ∧ o.final.tok.pos = 17 ∧ o.final.tok.end = 18 ∧ o.final.tok.raw = B ">>" :=
  ⟨_, _, rfl, rfl, by decide⟩
example : ∃ l o, advance (B "a (b; c") 2 Lex.init = some l ∧ handler (B "a (b; c") .statement l = .ok o ∧
    o.tokens.map (·.raw) = [B "(", B "b"] ∧ o.nodePos = 2 ∧ o.nodeEnd = 4 ∧ o.final.tok.kind = K ";" :=
  ⟨_, _, rfl, rfl, by decide⟩

end MF.Props.C10
