/-
  C10 — Bad nodes capture exactly the skipped source tokens.

  The claim is about the four recovery handlers of parser.go and the recovery-mode (noPanic) lexer they drive.
  Proved here (lexer side, every byte string, every lexer state inside the buffer):
    `recovery_step_total`   in recovery mode `nextToken` always returns a token (never raises, never panics)
    `recovery_step_frame`   that token's Raw is exactly input[Pos:End], its comments and space tile the bytes since the
                            previous token, and the cursor ends at End — so the tokens a handler collects are, in order,
                            consecutive exact slices of the input from the recovery point on
    `recovery_progress`     every recovery step except at end of input advances the cursor (handlers terminate)
  Not proved yet (partial): `noPanic_agrees` (on lexically clean text both modes return the same tokens) and the
  handler-level statement `bad_tokens_exact` (NodePos/NodeEnd/Tokens of each of the four handlers, incl. the `>>` split);
  they are evaluated on the implementation by the C10 predicate (every BadNode of every explored tree) and the
  recovery-mode lexer is tied to the Go code by the LEX channel in mode `n`.
-/
import MF.Proofs.LexErr
namespace MF.Props.C10
open MF MF.Lex

theorem recovery_step_total {buf : Bytes} {s : State} (hp : s.pos ≤ buf.length) :
    ∃ s', nextToken buf true s = .ok s' := noPanic_total hp

theorem recovery_step_frame {buf : Bytes} {s s' : State} (h : nextToken buf true s = .ok s') : Frame buf s s' :=
  nextToken_frame h

theorem recovery_progress {buf : Bytes} {s s' : State} (h : nextToken buf true s = .ok s') (hp : s.pos ≤ buf.length) :
    (s'.tok.kind = .eof → s'.pos = buf.length) ∧ (s'.tok.kind ≠ .eof → s.pos < s'.pos) :=
  ⟨fun hk => ((nextToken_progress h hp).1 hk).2, (nextToken_progress h hp).2.2.1⟩

/-- non-vacuity: an unclosed literal and an unclosed comment become <bad> tokens spanning them -/
example : ∃ s', nextToken (B "a 'x") true { Lex.init with pos := 1 } = .ok s' ∧ s'.tok.kind = .bad ∧ s'.tok.raw = B "'x" := ⟨_, rfl, rfl, rfl⟩
example : ∃ s', nextToken (B "a /* x") true { Lex.init with pos := 1 } = .ok s' ∧ s'.tok.kind = .bad ∧ s'.tok.raw = B "/* x" := ⟨_, rfl, rfl, rfl⟩

end MF.Props.C10
