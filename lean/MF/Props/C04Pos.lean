/-
  C04 (Pos/End part) — `Pos()` and `End()` never panic.

  `PosTableOK` (MF/Proofs/TreePos.lean) is a decidable check of the regenerated tables: every struct of ast.go has a
  row in pos.go, both method bodies only read fields that the struct declares, each with the class the helper of
  pos_util.go it is passed to requires (`token.Pos` fields directly, `wrapNode` on single node fields,
  `nodeSliceIndex`/`nodeSliceLast` on node slices, `ifThenElse` on bool fields, `len` on string / enum fields), the
  only slice index used is the literal 0 (guarded by the empty-slice test inside `nodeSliceIndex`), and no body is
  unrecognised.

   (1) `gen_pos_table_ok`   the tables extracted from the repository pass the check (kernel-decided);
   (2) `pos_end_total`      for every generic tree whose nodes are of catalogued kinds and carry their pos / bool /
                            string / enum fields (`Shaped`), the compiled `Pos()`/`End()` return — the model has no
                            crash outcome (slice index out of range, wrong field class) on such trees;
   (3) `pos_end_doc`        … and then the documented expressions evaluate, lazily, to the same pair.
-/
import MF.Proofs.TreePos
import MF.Gen.Catalog
import MF.Gen.PosDoc
import MF.Gen.PosGo
import MF.Props.C19
namespace MF.Props.C04
open MF MF.Ast

/-- the regenerated tables -/
def genTables : PosTables := ⟨Gen.kinds, Gen.posDoc, Gen.posGo⟩

/-- the lock-step certificate (one pass over catalogue and table; kernel-decided) -/
theorem gen_pos_table_zip : zipOK Gen.kinds Gen.posGo = true := by decide +kernel

theorem gen_pos_table_ok : PosTableOK ⟨Gen.kinds, Gen.posDoc, Gen.posGo⟩ = true :=
  PosTableOK_of_zip _ gen_pos_table_zip

theorem pos_end_total (n : Node) (hn : Shaped genTables n) : ∃ r, goPosEnd genTables n = some r :=
  goPosEnd_total genTables gen_pos_table_ok n hn

theorem pos_end_doc (n : Node) (r : Int × Int) (h : goPosEnd genTables n = some r) : docPosEnd genTables n = some r :=
  goPosEnd_doc genTables MF.Props.C19.pos_go_eq_doc n r h

/-- both together: on shaped trees the compiled methods return, and return what the documentation says -/
theorem pos_end_total_doc (n : Node) (hn : Shaped genTables n) :
    ∃ r, goPosEnd genTables n = some r ∧ docPosEnd genTables n = some r := by
  obtain ⟨r, hr⟩ := pos_end_total n hn
  exact ⟨r, hr, pos_end_doc n r hr⟩

/-! non-vacuity: a shaped tree with an absent child (`Query` is nil) and an empty slice (`Records`) -/

def sample : Node :=
  .mk "QueryStatement" [] (.cons "Hint" none (.mk "Hint" [("Atmark", .pos 0), ("Rbrace", .pos 9)] .nil) .nil)

example : Shaped genTables sample := by decide +kernel
example : goPosEnd genTables sample = some (0, -1) := by decide +kernel
example : docPosEnd genTables sample = some (0, -1) := by decide +kernel
/-- and an unshaped one (the `Rbrace` field is missing) on which the model does report the crash outcome -/
example : goPosEnd genTables (.mk "Hint" [("Atmark", .pos 0)] .nil) = none := by decide +kernel

end MF.Props.C04
