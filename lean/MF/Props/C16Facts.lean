/-
  C16 — trivia and keyword case never change the AST: the extracted fact `token_uses` (parser side).

  The lexer-side theorem (`trivia_lemma`, M0) says a re-spelling changes, of each token, only `Space`, `Comments`,
  positions, and — for keywords and unquoted identifiers — the letter case of `Raw`/`AsString`.  What the PARSER may do
  with those fields is read out of parser.go on every run (`Gen.ParserFacts.tokenUses`, fact (e): every selector
  `.Raw`, `.AsString`, `.Space`, `.Comments`, with enclosing function, receiver and syntactic context).

  `token_uses`:
   * `.Space` and `.Comments` are never mentioned in parser.go (nor in the helper definitions of token/token.go);
   * the receiver of every such selector is a `token.Token` as far as the extractor's type inference goes (so the table
     is not polluted by same-named fields of other types);
   * every `.Raw` / `.AsString` is either
       - `errorArg`: inside an argument of `errorf…`/`panicf…` (only the error MESSAGE depends on the spelling),
       - `keywordTest`: the argument of `char.EqualFold` in `expectKeywordLike` (case-insensitive by construction), or
         inside the definitions of `Token.IsIdent` / `Token.IsKeywordLike`,
       - `nodeValue`: copied verbatim into one of the value fields listed in `valueFields` — identifier and parameter
         names, literal values — which is where C16 wants the user's spelling preserved,
       - `write`: the two assignments `p.Token.Raw = ">"` that split a `>>` token when closing nested `ARRAY<…>`/
         `STRUCT<…>` (a constant, independent of trivia and case);
   * class `other` is empty.

  A failing table: a production that starts to look at `p.Token.Comments` (row with `sel = .comments`), that compares
  `p.Token.Raw == "select"` (class `other`), or that copies `AsString` into a field that is not a name/literal value
  (e.g. `TableName.Alias` upper-cased through `strings.ToUpper` — class `other`, or a new `nodeValue` detail not in
  `valueFields`).
-/
import MF.Gen.ParserFacts
namespace MF.Props.C16
open MF MF.Facts MF.Gen

/-- the AST fields that receive a token's spelling -/
def valueFields : List String :=
  ["Ident.Name", "Param.Name", "IntLiteral.Value", "FloatLiteral.Value", "StringLiteral.Value", "BytesLiteral.Value"]

def inParser : List TokenUse := ParserFacts.tokenUses.filter (·.file == "parser.go")

theorem token_uses :
    -- no trivia field is read
    (ParserFacts.tokenUses.filter fun u => u.sel == .space || u.sel == .comments).map (fun u => (u.funcName, u.line)) = [] ∧
    ParserFacts.tokenUses.all (·.recvIsToken) = true ∧
    -- nothing unclassified
    (ParserFacts.tokenUses.filter (·.cls == .other)).map (fun u => (u.funcName, u.line)) = [] ∧
    -- verbatim copies go to name / literal value fields only
    (inParser.filter (·.cls == .nodeValue)).all (fun u => valueFields.contains u.detail) = true ∧
    -- the only assignment is the `>>` split, a constant
    (inParser.filter (·.cls == .write)).all (fun u => u.sel == .raw && u.detail == "p.Token.Raw = \">\"") = true ∧
    -- the helper definitions of token/token.go only compare case-insensitively
    (ParserFacts.tokenUses.filter (·.file != "parser.go")).all (·.cls == .keywordTest) = true := by
  decide +kernel

end MF.Props.C16
