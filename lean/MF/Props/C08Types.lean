/-
  C08 for the `ParseType` entry point — the documented type grammar G_T is exactly what the model of
  `ParseType` accepts, and the tree it returns is the derivation tree.

  Vocabulary (MF/Spec/TypeGrammar.lean): `TypeD ks` — the kind sequence `ks` is a sentence of G_T
  (`type ::= ident {"." ident} | ARRAY "<" type ">" | STRUCT "<" [field {"," field}] ">"`, `field ::= [ident] type`);
  `expand` — every `>>` token counts as two one-byte tokens `>` `>`, every `<>` as `<` `>`; `yieldT t` — the token
  descriptions a tree stands for (class, and the positions / names the tree records); `Match` — token by token;
  `wf t` — every `NamedType` path is non-empty, and a ONE-component path does not read as a simple type name (one
  identifier spelled like a scalar type is that `SimpleType`; `date.T`, `string.x.y` are named types).
  Model: MF/Model/TypeParse.lean (`parseType`, `parseTypeTop`; state = token list whose head is the mutable current
  token), tied to memefish.ParseType by the TYPE channel.

  The theorems are over token lists: they hold for the tokens of ANY spelling (trivia, letter case of keywords and
  identifiers, quoting) because only kinds, `AsString` and positions are read.
-/
import MF.Proofs.TypeSound
import MF.Proofs.TypeDeriv
import MF.Proofs.TypeComplete
import MF.Proofs.TypeOfDeriv
import MF.Proofs.TypeUnique
namespace MF.Props.C08
open MF MF.TypeP MF.TypeG

/-- SOUNDNESS.  A successful `parseType` consumed exactly the (split-aware) yield of the tree it returns: the expanded
state before is the matched tokens followed by the expanded state after (whose head may be the second half of a split
`>>`); the tree is `wf`; and the consumed tokens form, as a kind sequence, a sentence of G_T. -/
theorem type_sound {fuel : Nat} {ts ts' : PState} {t : Ty} (h : parseType fuel ts = .ok (t, ts')) :
    ∃ pre, expand ts = pre ++ expand ts' ∧ Match (yieldT t) pre ∧ wf t = true ∧ TypeD (pre.map (·.kind)) := by
  obtain ⟨⟨pre, e, m⟩, w⟩ := parseType_sound h
  exact ⟨pre, e, m, w, match_typeD w m⟩

/-- soundness of the entry point: everything in front of `<eof>` was consumed -/
theorem type_sound_top {fuel : Nat} {ts : PState} {t : Ty} (h : parseTypeTop fuel ts = .ok t) :
    ∃ pre rest, expand ts = pre ++ rest ∧ cur rest = .eof ∧ Match (yieldT t) pre ∧ wf t = true ∧
      TypeD (pre.map (·.kind)) := by
  obtain ⟨pre, rest, e, hr, m, w⟩ := parseTypeTop_sound h
  exact ⟨pre, rest, e, hr, m, w, match_typeD w m⟩

/-- COMPLETENESS (C08 for types).  Every token sequence derivable from G_T is accepted and gives the tree of the
derivation: if the kinds of the (expanded) tokens in front of `<eof>` form a sentence of G_T — NO side condition (the
former `HeadsOK` is gone with the repair of `lookaheadSimpleType`: `string.x`, `STRUCT<a date.t>` are accepted) — then
`parseTypeTop` succeeds — with the driver's fuel `topFuel ts`, and with every fuel `≥ needT t` — and its result is THE
`wf` tree whose yield these tokens are.  No bound on the depth or size of the derivation. -/
theorem type_complete {ts : PState} {pre rest : List Token} (he : expand ts = pre ++ rest) (hr : curX rest = .eof)
    (hd : TypeD (pre.map (·.kind))) :
    ∃ t, wf t = true ∧ Match (yieldT t) pre ∧ parseTypeTop (topFuel ts) ts = .ok t ∧
      (∀ fuel, needT t ≤ fuel → parseTypeTop fuel ts = .ok t) ∧
      ∀ t', wf t' = true → Match (yieldT t') pre → t' = t :=
  typeD_accepted he hr hd

/-- the model of `ParseType` accepts EXACTLY the sentences of G_T: soundness and completeness as one equivalence -/
theorem type_accepts_iff {ts : PState} :
    (∃ t, parseTypeTop (topFuel ts) ts = .ok t) ↔
      ∃ pre rest, expand ts = pre ++ rest ∧ curX rest = .eof ∧ TypeD (pre.map (·.kind)) := by
  constructor
  · rintro ⟨t, h⟩
    obtain ⟨pre, rest, e, hr, m, w⟩ := parseTypeTop_sound h
    exact ⟨pre, rest, e, by cases rest <;> exact hr, match_typeD w m⟩
  · rintro ⟨pre, rest, e, hr, hd⟩
    obtain ⟨t, _, _, h, _⟩ := typeD_accepted e hr hd
    exact ⟨t, h⟩

/-- completeness in tree form, for `parseType` in any context: what follows must not be a `.` -/
theorem type_complete_tree {t : Ty} (hw : wf t = true) {ts : PState} {pre rest : List Token}
    (hm : Match (yieldT t) pre) (he : expand ts = pre ++ rest) (hf : curX rest ≠ .dot) :
    ∃ ts', expand ts' = rest ∧ ∀ fuel, needT t ≤ fuel → parseType fuel ts = .ok (t, ts') :=
  parseType_complete hw hm he hf

/-- the grammar (with `wf`) is unambiguous: a token list is the yield of at most one tree -/
theorem type_unique {t t' : Ty} {pre : List Token} (hw : wf t = true) (hw' : wf t' = true)
    (hm : Match (yieldT t) pre) (hm' : Match (yieldT t') pre) : t = t' :=
  tree_unique hw hw' hm hm'

/-- the fuel is no restriction: a result obtained with SOME fuel is obtained with the driver's fuel -/
theorem fuel_irrelevant {fuel : Nat} {ts : PState} {t : Ty} (h : parseTypeTop fuel ts = .ok t) :
    parseTypeTop (topFuel ts) ts = .ok t := by
  obtain ⟨pre, rest, e, hr, m, w⟩ := parseTypeTop_sound h
  exact parseTypeTop_complete w m e (by cases rest <;> exact hr) _ (need_le_topFuel w m e)

/-! ## non-vacuity: `ARRAY<STRUCT<a INT64, b ARRAY<STRING>>>` through lexer and parser (note the `>>>`) -/

def exBuf : Bytes := B "ARRAY<STRUCT<a INT64, b ARRAY<STRING>>>"

def exToks : List Token := match Lex.lexAll exBuf with | .ok ts => ts | _ => []

def exTree : Ty :=
  .array 0 38 (.struct 6 37 (.cons (some ⟨13, 14, B "a"⟩) (.simple 15 (B "INT64"))
    (.cons (some ⟨22, 23, B "b"⟩) (.array 24 36 (.simple 30 (B "STRING"))) .nil)))

/-- the input lexes to 14 tokens, the three closers being the two tokens `>>` and `>` -/
theorem ex_lex : Lex.lexAll exBuf = .ok exToks := by rfl
theorem ex_kinds : exToks.length = 14 ∧ (exToks.map (fun t => tk t.kind)).drop 10 = [.ident, .shr, .gt, .eof] := by
  decide +kernel

/-- and is parsed to `exTree` (with the driver's fuel, and with the concrete fuel of the completeness theorem) -/
theorem ex_parse : parseTypeTop (topFuel exToks) exToks = .ok exTree := by rfl
theorem ex_parse_need : needT exTree = 11 ∧ parseTypeTop (needT exTree) exToks = .ok exTree := ⟨by decide, by rfl⟩

/-- the expanded kinds in front of `<eof>` -/
theorem ex_expanded : (expand exToks).dropLast.map (·.kind) =
    [K "ARRAY", K "<", K "STRUCT", K "<", .ident, .ident, K ",", .ident, K "ARRAY", K "<", .ident, K ">", K ">", K ">"] := by
  decide +kernel

/-- are a sentence of G_T: the hypotheses of `type_complete` are satisfiable -/
theorem ex_typeD : TypeD ([K "ARRAY", K "<", K "STRUCT", K "<", .ident, .ident, K ",", .ident, K "ARRAY", K "<", .ident,
    K ">", K ">", K ">"]) :=
  TypeD.array (TypeD.struct [(true, [.ident]), (true, [K "ARRAY", K "<", .ident, K ">"])] (by
    intro f hf
    simp only [List.mem_cons, List.not_mem_nil, or_false] at hf
    rcases hf with rfl | rfl
    · exact TypeD.path 0
    · exact TypeD.array (TypeD.path 0)))

/-- `type_sound_top` instantiated: the tree's yield matches the 14 expanded tokens -/
example : ∃ pre rest, expand exToks = pre ++ rest ∧ cur rest = .eof ∧ Match (yieldT exTree) pre ∧ wf exTree = true ∧
    TypeD (pre.map (·.kind)) := type_sound_top ex_parse

/-! ## a named type whose first path component spells a scalar type (the repaired defect) -/

/-- `date.T`, `string.x.y`, `` `date`.x `` are NAMED types (before the repair of `lookaheadSimpleType` they were cut
after the first component and rejected); one identifier spelled like a scalar type is still that scalar type -/
example : typeRun (B "date.T") = "OK (named (id 0 4 64617465) (id 5 6 54))@0:6 646174652e54 0 6" := by decide +kernel
example : typeRun (B "string.x.y") =
    "OK (named (id 0 6 737472696e67) (id 7 8 78) (id 9 10 79))@0:10 737472696e672e782e79 0 10" := by decide +kernel
example : typeRun (B "`date`.x") = "OK (named (id 0 6 64617465) (id 7 8 78))@0:8 646174652e78 0 8" := by decide +kernel
example : typeRun (B "date") = "OK (simple 0 44415445)@0:4 44415445 0 4" := by decide +kernel
example : typeRun (B "x.INT64") = "OK (named (id 0 1 78) (id 2 7 494e543634))@0:7 782e494e543634 0 7" := by decide +kernel

def ex3Buf : Bytes := B "STRUCT<a date.t, b INT64.u>"
def ex3Toks : List Token := match Lex.lexAll ex3Buf with | .ok ts => ts | _ => []
def ex3Tree : Ty :=
  .struct 0 26 (.cons (some ⟨7, 8, B "a"⟩) (.named [⟨9, 13, B "date"⟩, ⟨14, 15, B "t"⟩])
    (.cons (some ⟨17, 18, B "b"⟩) (.named [⟨19, 24, B "INT64"⟩, ⟨25, 26, B "u"⟩]) .nil))
theorem ex3_lex : Lex.lexAll ex3Buf = .ok ex3Toks := by rfl
theorem ex3_parse : parseTypeTop (topFuel ex3Toks) ex3Toks = .ok ex3Tree := by rfl
theorem ex3_wf : wf ex3Tree = true := by decide

def ex4Tree : Ty := .array 0 14 (.named [⟨6, 12, B "string"⟩, ⟨13, 14, B "x"⟩])
theorem ex4_run : typeRun (B "ARRAY<string.x>") = "OK " ++ sexpT ex4Tree ++ " " ++ hxs (B "ARRAY<string.x>") ++ " 0 15" := by
  decide +kernel

/-- the kinds `ident "." ident` are a sentence of G_T, so `type_complete` applies to `date.T` with no side condition -/
example : TypeD ([.ident, K ".", .ident]) := TypeD.path 1

/-- the residue in `wf`: the ONE-component named type `date` is not `wf` (the token is the simple type DATE);
every path of two or more components is -/
example : wf (.named [⟨0, 4, B "date"⟩]) = false := by decide
example : wf (.named [⟨0, 4, B "date"⟩, ⟨5, 6, B "T"⟩]) = true := by decide

/-- no trailing comma in a field list -/
example : typeRun (B "STRUCT<a INT64,>") = "ERR" := by decide +kernel

end MF.Props.C08
