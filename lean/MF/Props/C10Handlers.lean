/-
  MF.Props.C10Handlers — C10, the REGENERATED half of the tie between the recovery handlers of parser.go and the model.

  The theorems of `MF/Props/C10.lean` (`bad_tokens_exact` …) are about `Handlers.handler`, whose only handler-specific
  part is the function `Handlers.action` (the `switch p.Token.Kind` of the skip loop).  `tools/extract/handlers.go`
  TRANSLATES the four switches of parser.go on every run into the statement language of `MF/Model/HandlerLang.lean`
  (`Gen.handlersGo`) and checks that the loop around each switch has the one known frame.  Here:

   * `handlers_translated`   the regenerated translation is the table `HandlerLang.expected` (kernel-decided; this is
                             the obligation that breaks when a switch of parser.go changes);
   * `handler_frames`        all four handlers were found, each skip loop has the known frame, labels are distinct;
   * `action_is_go`          for every handler, nesting value and token kind, `Handlers.action` IS the interpretation of
                             the translated switch — which is therefore defined everywhere (no decrement of `nesting`
                             below zero, no statement outside the language);
   * `handler_is_go`         hence `Handlers.handler`, the object of `bad_tokens_exact`, runs the regenerated switches.

  What is a theorem: the three statements above, about the regenerated data and the semantics `HandlerLang.run`.
  What is an extracted fact: that `Gen.handlersGo` describes parser.go (a syntactic translation of four functions;
  whatever does not fit becomes `.unknown` / `frame = false` and the obligations fail).  The HANDLER channel continues to
  compare the model with the running code (through the hook `VerifRecover`).
-/
import MF.Proofs.HandlerLang
import MF.Gen.HandlersGo
namespace MF.Props.C10
open MF MF.Lex MF.Handlers MF.HandlerLang

theorem handlers_translated : Gen.handlersGo = expected := by decide +kernel

theorem handler_frames : framesOK Gen.handlersGo = true := by decide +kernel

theorem action_is_go (h : HKind) (n : Nat) (k : TokKind) : actionGo Gen.handlersGo h n k = some (action h n k) := by
  rw [handlers_translated]; exact action_eq_expected h n k

/-- the skip loop driven by the regenerated switch -/
def skipLoopGo (buf : Bytes) (h : HKind) (pos : Nat) : Nat → State → Nat → List Token → Nat → Res Out
  | 0, _, _, _, _ => .crash
  | fuel + 1, s, n, toks, e =>
    if s.tok.kind == .eof then .ok ⟨toks, pos, e, s⟩
    else
      match actionGo Gen.handlersGo h n s.tok.kind with
      | none => .crash
      | some .stop => .ok ⟨toks, pos, e, s⟩
      | some .split => .ok ⟨toks, pos, e, splitTok s⟩
      | some (.take n') =>
        match nextToken buf true s with
        | .ok s' => skipLoopGo buf h pos fuel s' n' (toks ++ [s.tok]) s.tok.end
        | .err er => .err er
        | .crash => .crash

theorem skipLoop_is_go (buf : Bytes) (h : HKind) (pos fuel : Nat) (s : State) (n : Nat) (toks : List Token) (e : Nat) :
    skipLoopGo buf h pos fuel s n toks e = skipLoop buf h pos fuel s n toks e := by
  induction fuel generalizing s n toks e with
  | zero => rfl
  | succ f ih =>
    simp only [skipLoopGo, skipLoop, action_is_go]
    split
    · rfl
    · cases action h n s.tok.kind with
      | stop => rfl
      | split => rfl
      | take n' =>
        simp only
        cases nextToken buf true s with
        | ok s' => exact ih ..
        | err _ => rfl
        | crash => rfl

/-- `Handlers.handler` (the object of `bad_tokens_exact`) is the skip loop over the switch translated from parser.go -/
theorem handler_is_go (buf : Bytes) (h : HKind) (l : State) :
    handler buf h l = skipLoopGo buf h l.tok.pos (buf.length - l.pos + 2) l 0 [] l.tok.pos :=
  (skipLoop_is_go ..).symm

/-! ### non-vacuity: a dropped closing bracket is noticed -/

example :
    let dropped : List HFn := Gen.handlersGo.map (fun f =>
      if f.name == "handleParseExprError" then
        { f with cases := f.cases.map (fun c => { c with toks := c.toks.filter (· != "]") }) } else f)
    decide (dropped = expected) = false := by decide +kernel

end MF.Props.C10
