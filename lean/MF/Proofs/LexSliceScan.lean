/-
  MF.Proofs.LexSliceScan — scanner-level lemmas for lexing a SLICE of the input (C06):

  * `consumeToken_take0` / `consumeFieldToken_take0`: Task K's truncation lemma WITHOUT the `;` sentinel — a token scan
    of length ≤ m is the same on the input cut at m, whatever byte follows in the original (a one-byte look-ahead that
    succeeds always produces a token of at least two bytes);
  * `consumeToken_p0` / `consumeFieldToken_p0`: an `ok` scan does not depend on the absolute position `p0` (which only
    occurs in error values).
-/
import MF.Proofs.LexLocalScan
namespace MF.Lex.S

/-! ## truncation without a sentinel -/

theorem peekIs_take1_false (R : Bytes) (x : UInt8) : peekIs (R.take 1) 1 x = false := by
  unfold peekIs
  rw [take_getElem?_ge (Nat.le_refl _)]
  rfl

theorem peekSat_take1_false (R : Bytes) (pred : UInt8 → Bool) : peekSat (R.take 1) 1 pred = false := by
  unfold peekSat
  rw [take_getElem?_ge (Nat.le_refl _)]

theorem peekIs_take_ge2 {R : Bytes} {m : Nat} (hm : 2 ≤ m) (x : UInt8) : peekIs (R.take m) 1 x = peekIs R 1 x := by
  unfold peekIs; rw [take_getElem?_lt (by omega)]

theorem peekSat_take_ge2 {R : Bytes} {m : Nat} (hm : 2 ≤ m) (pred : UInt8 → Bool) :
    peekSat (R.take m) 1 pred = peekSat R 1 pred := by
  unfold peekSat; rw [take_getElem?_lt (by omega)]

theorem tok2_len2 {k : String} {sc : Scan} (h : tok2 k = .ok sc) : sc.len = 2 := by
  unfold tok2 at h; cases h; rfl

/-- `.` followed by a digit scans at least two bytes -/
theorem consumeNumber_dot_len {t : Bytes} {p0 : Nat} {sc : Scan}
    (h : consumeNumber (46 :: t) p0 false = .ok sc) (hd : peekSat (46 :: t) 1 Char.isDigit = true) : 2 ≤ sc.len := by
  cases t with
  | nil => simp [peekSat] at hd
  | cons d t =>
    have hdd : Char.isDigit d = true := by simpa [peekSat] using hd
    unfold consumeNumber at h
    have hx : isHexPrefix (46 :: d :: t) = false := by simp [isHexPrefix]
    simp only [hx, Bool.false_eq_true, if_false] at h
    split at h
    · cases h
    · rename_i i isInt hnl
      have hi : 2 ≤ i := by
        simp only [List.length_cons] at hnl
        generalize t.length + 1 = F at hnl
        simp only [numberLoop] at hnl
        have h46 : Char.isDigit 46 = false := by decide
        simp [h46, hdd] at hnl
        have := (numberLoop_bound hnl (by simp)).1
        omega
      split at h
      · split at h
        · cases h
        · cases h; split <;> exact hi
      · cases h; split <;> exact hi

theorem paramTok_len2 {R : Bytes} {sc : Scan} (h : paramTok R = .ok sc) (hs : peekSat R 1 Char.isIdentStart = true) :
    2 ≤ sc.len := by
  unfold paramTok at h
  cases h
  simp only
  unfold peekSat at hs
  split at hs
  · rename_i c hc
    have hp := identStart_part c hs
    have : (R.drop 1) = c :: R.drop 2 := by
      have hlt := getElem?_some_lt hc
      rw [List.drop_eq_getElem_cons hlt]
      congr 1
      exact ((List.getElem?_eq_some_iff.mp hc).2)
    rw [this]
    have := spanLen_pos (t := R.drop 2) hp
    omega
  · cases hs

/-- Task K's `tokBody_take` without the sentinel -/
theorem tokBody_take0 {c : UInt8} {t : Bytes} {p0 : Nat} {lk : TokKind} {sc : Scan} {m : Nat}
    (h : tokBody (c :: t) c p0 lk false = .ok sc) (hm : sc.len ≤ m) (hm1 : 1 ≤ m) :
    tokBody ((c :: t).take m) c p0 lk false = .ok sc := by
  rcases Nat.lt_or_ge 1 m with h2 | h2
  · -- the look-ahead byte is inside the cut
    have pI := fun x => peekIs_take_ge2 (R := c :: t) (m := m) (by omega) x
    have pS := fun pred => peekSat_take_ge2 (R := c :: t) (m := m) (by omega) pred
    unfold tokBody at h ⊢
    split at h
    · exact h
    · rw [pS]
      split at h
      · rename_i hc; simp only [hc, if_true]; exact consumeNumber_take h hm
      · rename_i hc; simp only [hc, Bool.false_eq_true, if_false]; exact h
    · rw [pI, pI, pI]; exact h
    · rw [pI, pI]; exact h
    · rw [pI]; exact h
    · rw [pI, pI]; exact h
    · rw [pI]; exact h
    · rw [pI, pI]; exact h
    · rw [pI]; exact h
    · rw [pI, pS]
      split at h
      · rename_i hc; simp only [hc, if_true]; exact h
      · rename_i hc
        simp only [hc, Bool.false_eq_true, if_false]
        split at h
        · rename_i hc2; simp only [hc2, if_true]; exact paramTok_take h hm
        · rename_i hc2; simp only [hc2, Bool.false_eq_true, if_false]; exact h
    · unfold quotedTok at h
      split at h
      · rename_i qc hqc
        cases h
        simp only at hm
        rw [consumeQuotedContent_take hqc (by decide) (by omega)]
        rfl
      · cases h
      · cases h
    · exact consumeNumber_take h hm
    · exact stringTok_take h hm
    · unfold fallbackTok at h ⊢
      split at h
      · rename_i hs'
        simp only [hs', if_true]
        cases h
        have : spanLen Char.isIdentPart (c :: t) ≤ m := by
          unfold identTok at hm
          simp only at hm
          split at hm <;> exact hm
        rw [identTok_take this]
      · simp at h
  · -- the token is one byte long and the cut is right behind it: no look-ahead succeeded
    have hm' : m = 1 := by omega
    subst hm'
    have pI := fun x => peekIs_take1_false (c :: t) x
    have pS := fun pred => peekSat_take1_false (c :: t) pred
    unfold tokBody at h ⊢
    split at h
    · exact h
    · rename_i hcl
      rw [pS]
      have hc46 := classify_dot hcl
      subst hc46
      split at h
      · rename_i hc
        simp only [Bool.and_eq_true] at hc
        have := consumeNumber_dot_len h hc.2
        omega
      · rename_i hc
        simp only [Bool.and_false, Bool.false_eq_true, if_false]
        exact h
    · rw [pI, pI, pI]
      simp only [Bool.false_eq_true, if_false]
      split at h
      · have := tok2_len2 h; omega
      · split at h
        · have := tok2_len2 h; omega
        · split at h
          · have := tok2_len2 h; omega
          · exact h
    · rw [pI, pI]
      simp only [Bool.false_eq_true, if_false]
      split at h
      · have := tok2_len2 h; omega
      · split at h
        · have := tok2_len2 h; omega
        · exact h
    · rw [pI]
      simp only [Bool.false_eq_true, if_false]
      split at h
      · have := tok2_len2 h; omega
      · exact h
    · rw [pI, pI]
      simp only [Bool.false_eq_true, if_false]
      split at h
      · have := tok2_len2 h; omega
      · split at h
        · have := tok2_len2 h; omega
        · exact h
    · rw [pI]
      simp only [Bool.false_eq_true, if_false]
      split at h
      · have := tok2_len2 h; omega
      · exact h
    · rw [pI, pI]
      simp only [Bool.false_eq_true, if_false]
      split at h
      · have := tok2_len2 h; omega
      · split at h
        · have := tok2_len2 h; omega
        · exact h
    · rw [pI]
      simp only [Bool.false_eq_true, if_false]
      split at h
      · have := tok2_len2 h; omega
      · exact h
    · rw [pI, pS]
      simp only [Bool.false_eq_true, if_false]
      split at h
      · have := tok2_len2 h; omega
      · split at h
        · rename_i hc2
          have := paramTok_len2 h hc2
          omega
        · exact h
    · unfold quotedTok at h
      split at h
      · rename_i qc hqc
        cases h
        simp only at hm
        rw [consumeQuotedContent_take hqc (by decide) (by omega)]
        rfl
      · cases h
      · cases h
    · exact consumeNumber_take h hm
    · exact stringTok_take h hm
    · unfold fallbackTok at h ⊢
      split at h
      · rename_i hs'
        simp only [hs', if_true]
        cases h
        have : spanLen Char.isIdentPart (c :: t) ≤ 1 := by
          unfold identTok at hm
          simp only at hm
          split at hm <;> exact hm
        rw [identTok_take this]
      · simp at h

/-- a token scan that ends at or before offset `m` is the same on the input cut at `m` -/
theorem consumeToken_take0 {R : Bytes} {p0 : Nat} {lk : TokKind} {sc : Scan} {m : Nat}
    (h : consumeToken R p0 lk false = .ok sc) (hm : sc.len ≤ m) :
    consumeToken (R.take m) p0 lk false = .ok sc := by
  cases R with
  | nil => simpa using h
  | cons c t =>
    have hpos := (consumeToken_ok h).pos (by simp)
    cases m with
    | zero => omega
    | succ m =>
      rw [consumeToken_cons] at h
      have := tokBody_take0 h hm (by omega)
      rw [List.take_succ_cons] at this ⊢
      rw [consumeToken_cons]; exact this

theorem consumeFieldToken_take0 {R : Bytes} {p0 : Nat} {lk : TokKind} {sc : Scan} {m : Nat}
    (h : consumeFieldToken R p0 lk false = .ok sc) (hm : sc.len ≤ m) :
    consumeFieldToken (R.take m) p0 lk false = .ok sc := by
  cases R with
  | nil => simpa using h
  | cons c t =>
    have hpos := (consumeFieldToken_ok h).pos (by simp)
    cases m with
    | zero => omega
    | succ m =>
      rw [List.take_succ_cons]
      unfold consumeFieldToken at h ⊢
      simp only at h ⊢
      split at h
      · rename_i hc
        simp only [hc, if_true]
        cases h
        simp only at hm
        rw [← List.take_succ_cons, spanLen_take_le hm, List.take_take, Nat.min_eq_left hm]
      · rename_i hc
        simp only [hc, Bool.false_eq_true, if_false]
        rw [← List.take_succ_cons]
        exact consumeToken_take0 h hm

/-! ## an `ok` scan does not depend on the absolute position -/

def EscSim : Esc → Esc → Prop
  | .bytes bs i, .bytes bs' i' => bs = bs' ∧ i = i'
  | .bad _ _ _, .bad _ _ _ => True
  | .crash, .crash => True
  | _, _ => False

theorem escapeDigits_sim (rest : Bytes) (p0 p0' i : Nat) (pred : UInt8 → Bool) (start size base maxv : Nat)
    (k : ErrKind) (cp : Bool) :
    EscSim (escapeDigits rest p0 i pred start size base maxv k cp)
      (escapeDigits rest p0' i pred start size base maxv k cp) := by
  unfold escapeDigits
  cases firstBad rest pred i size with
  | some j => simp [EscSim]
  | none =>
    simp only
    cases lslice? rest start (i + size) with
    | none => simp [EscSim]
    | some s =>
      simp only
      cases parseUint? s base maxv with
      | none => simp [EscSim]
      | some u =>
        simp only
        cases cp
        · simp [EscSim]
        · simp only [if_true]
          by_cases hc : ((0xD800 ≤ u && u ≤ 0xDFFF) || decide (0x10FFFF < u)) = true
          · simp only [hc, if_true]; simp [EscSim]
          · simp only [hc, Bool.false_eq_true, if_false]; simp [EscSim]

theorem escape_sim (rest : Bytes) (p0 p0' : Nat) (unicode : Bool) (i : Nat) (c : UInt8) :
    EscSim (escape rest p0 unicode i c) (escape rest p0' unicode i c) := by
  unfold escape
  cases simpleEscape? c with
  | some b => simp [EscSim]
  | none =>
    simp only
    by_cases h1 : (c == 120 || c == 88) = true
    · simp only [h1, if_true]; exact escapeDigits_sim ..
    · simp only [h1, Bool.false_eq_true, if_false]
      by_cases h2 : (c == 117 || c == 85) = true
      · simp only [h2, if_true]
        cases unicode
        · simp [EscSim]
        · simp only [Bool.not_true, Bool.false_eq_true, if_false]; exact escapeDigits_sim ..
      · simp only [h2, Bool.false_eq_true, if_false]
        by_cases h3 : (c == 48 || c == 49 || c == 50 || c == 51) = true
        · simp only [h3, if_true]; exact escapeDigits_sim ..
        · simp only [h3, Bool.false_eq_true, if_false]; simp [EscSim]

def QStepSim : QStep → QStep → Prop
  | .done a, .done b => a = b
  | .fail _, .fail _ => True
  | .crash, .crash => True
  | .next i c h, .next i' c' h' => i = i' ∧ c = c' ∧ h = h'
  | _, _ => False

theorem quotedStep_sim (rest : Bytes) (tp tp' p0 p0' : Nat) (q : Bytes) (raw uni isId : Bool) (i : Nat)
    (content : Bytes) (he : Bool) :
    QStepSim (quotedStep rest tp p0 q raw uni isId false i content he)
      (quotedStep rest tp' p0' q raw uni isId false i content he) := by
  unfold quotedStep
  cases rest[i]? with
  | none => simp [QStepSim]
  | some c =>
    simp only
    cases lslice? rest i (i + q.length) with
    | none => simp [QStepSim]
    | some sl =>
      simp only
      by_cases h1 : (sl == q) = true
      · simp only [h1, if_true]
        by_cases h2 : (content.isEmpty && isId) = true
        · simp only [h2, if_true]; simp [QStepSim]
        · simp only [h2, Bool.false_eq_true, if_false]
          cases he <;> simp [QStepSim]
      · simp only [h1, Bool.false_eq_true, if_false]
        by_cases h2 : (c == 92) = true
        · simp only [h2, if_true]
          cases rest[i + 1]? with
          | none => simp [QStepSim]
          | some c2 =>
            simp only
            cases raw
            · simp only [Bool.false_eq_true, if_false]
              have := escape_sim rest p0 p0' uni (i + 2) c2
              cases e1 : escape rest p0 uni (i + 2) c2 <;> cases e2 : escape rest p0' uni (i + 2) c2 <;>
                simp only [e1, e2, EscSim] at this <;> simp [QStepSim, this]
            · simp [QStepSim]
        · simp only [h2, Bool.false_eq_true, if_false]
          by_cases h3 : (c == 10 && q.length != 3) = true
          · simp only [h3, if_true]; simp [QStepSim]
          · simp only [h3, Bool.false_eq_true, if_false]; simp [QStepSim]

theorem quotedLoop_p0 {rest : Bytes} {tp tp' p0 p0' : Nat} {q : Bytes} {raw uni isId : Bool} {fuel i : Nat}
    {content : Bytes} {he : Bool} {qc : QC}
    (h : quotedLoop rest tp p0 q raw uni isId false fuel i content he = .ok qc) :
    quotedLoop rest tp' p0' q raw uni isId false fuel i content he = .ok qc := by
  induction fuel generalizing i content he with
  | zero => simp [quotedLoop] at h
  | succ fuel ih =>
    simp only [quotedLoop] at h ⊢
    have hs := quotedStep_sim rest tp tp' p0 p0' q raw uni isId i content he
    cases e1 : quotedStep rest tp p0 q raw uni isId false i content he <;>
      cases e2 : quotedStep rest tp' p0' q raw uni isId false i content he <;>
      simp only [e1, e2, QStepSim] at hs h ⊢
    · rw [← hs]; exact h
    · cases h
    · cases h
    · obtain ⟨rfl, rfl, rfl⟩ := hs
      exact ih h

theorem consumeQuotedContent_p0 {rest : Bytes} {p0 p0' : Nat} {q : Bytes} {raw uni isId : Bool} {qc : QC}
    (h : consumeQuotedContent rest p0 q raw uni isId false = .ok qc) :
    consumeQuotedContent rest p0' q raw uni isId false = .ok qc := by
  unfold consumeQuotedContent at h ⊢
  exact quotedLoop_p0 h

theorem quotedTok_p0 {kind : TokKind} {pre : Nat} {r r' : Res QC} {sc : Scan} (h : quotedTok kind pre r = .ok sc)
    (hr : ∀ qc, r = .ok qc → r' = .ok qc) : quotedTok kind pre r' = .ok sc := by
  unfold quotedTok at h ⊢
  split at h
  · rw [hr _ rfl]; exact h
  · cases h
  · cases h

theorem consumeNumber_p0 {rest : Bytes} {p0 p0' : Nat} {sc : Scan} (h : consumeNumber rest p0 false = .ok sc) :
    consumeNumber rest p0' false = .ok sc := by
  unfold consumeNumber at h ⊢
  simp only at h ⊢
  split at h
  · cases h
  · rename_i i isInt hnl
    cases hc : rest[i]? with
    | none => simp only [hc] at h ⊢; exact h
    | some c =>
      simp only [hc] at h ⊢
      by_cases hip : Char.isIdentPart c = true
      · simp [hip] at h
      · simp only [hip, Bool.false_eq_true, if_false] at h ⊢; exact h

theorem fallbackTok_p0 {rest : Bytes} {c : UInt8} {p0 p0' : Nat} {sc : Scan}
    (h : fallbackTok rest c p0 false = .ok sc) : fallbackTok rest c p0' false = .ok sc := by
  unfold fallbackTok at h ⊢
  split at h
  · rename_i hs; simp only [hs, if_true]; exact h
  · simp at h

theorem stringTok_p0 {rest : Bytes} {c : UInt8} {p0 p0' : Nat} {sc : Scan}
    (h : stringTok rest c p0 false = .ok sc) : stringTok rest c p0' false = .ok sc := by
  unfold stringTok at h ⊢
  split at h
  · split at h
    · cases h
    · exact quotedTok_p0 h (fun qc hqc => consumeQuotedContent_p0 hqc)
  · exact fallbackTok_p0 h

theorem tokBody_p0 {rest : Bytes} {c : UInt8} {p0 p0' : Nat} {lk : TokKind} {sc : Scan}
    (h : tokBody rest c p0 lk false = .ok sc) : tokBody rest c p0' lk false = .ok sc := by
  unfold tokBody at h ⊢
  split at h
  · exact h
  · split at h
    · rename_i hc; simp only [hc, if_true]; exact consumeNumber_p0 h
    · rename_i hc; simp only [hc, Bool.false_eq_true, if_false]; exact h
  · exact h
  · exact h
  · exact h
  · exact h
  · exact h
  · exact h
  · exact h
  · exact h
  · exact quotedTok_p0 h (fun qc hqc => consumeQuotedContent_p0 hqc)
  · exact consumeNumber_p0 h
  · exact stringTok_p0 h
  · exact fallbackTok_p0 h

theorem consumeToken_p0 {rest : Bytes} {p0 p0' : Nat} {lk : TokKind} {sc : Scan}
    (h : consumeToken rest p0 lk false = .ok sc) : consumeToken rest p0' lk false = .ok sc := by
  cases rest with
  | nil => simpa [consumeToken] using h
  | cons c t => rw [consumeToken_cons] at h ⊢; exact tokBody_p0 h

theorem consumeFieldToken_p0 {rest : Bytes} {p0 p0' : Nat} {lk : TokKind} {sc : Scan}
    (h : consumeFieldToken rest p0 lk false = .ok sc) : consumeFieldToken rest p0' lk false = .ok sc := by
  unfold consumeFieldToken at h ⊢
  split at h
  · rename_i c t
    simp only
    split at h
    · rename_i hc; simp only [hc, if_true]; exact h
    · rename_i hc; simp only [hc, Bool.false_eq_true, if_false]; exact consumeToken_p0 h
  · exact consumeToken_p0 h

end MF.Lex.S
