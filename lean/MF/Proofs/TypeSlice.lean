/-
  MF.Proofs.TypeSlice — C06 for types, lexer side and the full theorem: for an accepted input and every type node `n`
  (no `SimpleType` on a back-quoted token), the model lexer turns the slice `input[pos n : end n]` into the node's tokens
  moved down by `pos n` (`slice_lex`), hence `parseTypeTop` on the slice returns `n` with all positions decreased by
  `pos n` (`type_exact`).
-/
import MF.Proofs.TypeExact
import MF.Proofs.LexWindow
namespace MF.TypeP
open MF.TypeG

/-! ## where a node starts and ends -/

theorem lastEndI_last (a : Ident) (rest : List Ident) : ∀ (m : List Token), Match (yieldPath (a :: rest)) m →
    ∃ m0 z, m = m0 ++ [z] ∧ z.end = lastEndI a rest := by
  induction rest generalizing a with
  | nil =>
    intro m hm
    obtain ⟨t, r, rfl, hy, hr⟩ := match_cons_inv hm
    rw [hr.nil_left]
    obtain ⟨_, rfl⟩ := hy
    exact ⟨[], t, rfl, rfl⟩
  | cons b rest ih =>
    intro m hm
    simp only [yieldPath] at hm
    obtain ⟨t, r1, rfl, _, hm1⟩ := match_cons_inv hm
    obtain ⟨d, r2, rfl, _, hm2⟩ := match_cons_inv hm1
    obtain ⟨m0, z, rfl, hz⟩ := ih b r2 hm2
    exact ⟨t :: d :: m0, z, rfl, hz⟩

/-- `pos n` is the start of the first token of the node and `end n` the end of its last token -/
theorem span_exact {t : Ty} {m : List Token} (hw : wf t = true) (hm : Match (yieldT t) m)
    (hx : ∀ tok ∈ m, XFacts tok) (hu : UnqT t m) :
    ∃ x m1 m0 z, m = x :: m1 ∧ m = m0 ++ [z] ∧ posT t = x.pos ∧ endT t = z.end := by
  cases t with
  | simple p n =>
    simp only [yieldT] at hm
    obtain ⟨tok, r, rfl, hy, hr⟩ := match_cons_inv hm
    have := hr.nil_left; subst this
    obtain ⟨hk, rfl, hn⟩ := hy
    have hq := hu tok.pos n (by simp [nodesT]) tok (by simp) rfl
    have he := (hx tok (by simp)).ident hk hq
    have hl := (simpleName?_len hn).1
    exact ⟨tok, [], [], tok, rfl, rfl, rfl, by simp only [endT]; omega⟩
  | named path =>
    cases path with
    | nil => simp [wf] at hw
    | cons a rest =>
      simp only [yieldT] at hm
      obtain ⟨m0, z, e, hz⟩ := lastEndI_last a rest m hm
      have hm' := hm
      rw [yieldPath_cons] at hm'
      obtain ⟨x, m1, rfl, hy, _⟩ := match_cons_inv hm'
      obtain ⟨_, rfl⟩ := hy
      exact ⟨x, m1, m0, z, rfl, e, rfl, by rw [endT_named]; exact hz.symm⟩
  | array a g item =>
    simp only [yieldT] at hm
    obtain ⟨ta, r1, rfl, hya, hm1⟩ := match_cons_inv hm
    obtain ⟨tl, r2, rfl, _, hm2⟩ := match_cons_inv hm1
    obtain ⟨mid, last, rfl, _, hml⟩ := hm2.append_inv
    obtain ⟨tg, r3, rfl, hyg, hr3⟩ := match_cons_inv hml
    have := hr3.nil_left; subst this
    obtain ⟨_, rfl⟩ := hya
    obtain ⟨hkg, rfl⟩ := hyg
    have hge := (hx tg (by simp)).gt hkg
    exact ⟨ta, _, ta :: tl :: mid, tg, rfl, by simp, rfl, by simp only [endT]; omega⟩
  | struct s g fs =>
    simp only [yieldT] at hm
    obtain ⟨ta, r1, rfl, hya, hm1⟩ := match_cons_inv hm
    obtain ⟨tl, r2, rfl, _, hm2⟩ := match_cons_inv hm1
    obtain ⟨mid, last, rfl, _, hml⟩ := hm2.append_inv
    obtain ⟨tg, r3, rfl, hyg, hr3⟩ := match_cons_inv hml
    have := hr3.nil_left; subst this
    obtain ⟨_, rfl⟩ := hya
    obtain ⟨hkg, rfl⟩ := hyg
    have hge := (hx tg (by simp)).gt hkg
    exact ⟨ta, _, ta :: tl :: mid, tg, rfl, by simp, rfl, by simp only [endT]; omega⟩

/-! ## the run of a node inside the original token list -/

/-- a plain token of the expanded list is a token of the list, at the same place -/
theorem split_plain {ts : List Token} {l : List Token} {x : Token} {rest : List Token}
    (h : expand ts = l ++ x :: rest) (hg : tk x.kind ≠ .gt) (hl : tk x.kind ≠ .lt) :
    ∃ A B, ts = A ++ x :: B ∧ expand A = l ∧ expand B = rest := by
  induction ts generalizing l with
  | nil => simp at h
  | cons t ts ih =>
    by_cases hs : tk t.kind = .shr
    · rw [expand_shr ts hs] at h
      cases l with
      | nil =>
        simp only [List.nil_append, List.cons.injEq] at h
        exact absurd (by rw [← h.1]; simp) hg
      | cons a l =>
        cases l with
        | nil =>
          simp only [List.cons_append, List.nil_append, List.cons.injEq] at h
          exact absurd (by rw [← h.2.1]; simp) hg
        | cons b l =>
          simp only [List.cons_append, List.cons.injEq] at h
          obtain ⟨rfl, rfl, h3⟩ := h
          obtain ⟨A, B, rfl, e1, e2⟩ := ih h3
          exact ⟨t :: A, B, rfl, by rw [expand_shr A hs, e1], e2⟩
    · by_cases hlt : tk t.kind = .ltgt
      · rw [expand_ltgt ts hlt] at h
        cases l with
        | nil =>
          simp only [List.nil_append, List.cons.injEq] at h
          exact absurd (by rw [← h.1]; simp) hl
        | cons a l =>
          cases l with
          | nil =>
            simp only [List.cons_append, List.nil_append, List.cons.injEq] at h
            exact absurd (by rw [← h.2.1]; simp) hg
          | cons b l =>
            simp only [List.cons_append, List.cons.injEq] at h
            obtain ⟨rfl, rfl, h3⟩ := h
            obtain ⟨A, B, rfl, e1, e2⟩ := ih h3
            exact ⟨t :: A, B, rfl, by rw [expand_ltgt A hlt, e1], e2⟩
      · rw [expand_plain ts hs hlt] at h
        cases l with
        | nil =>
          simp only [List.nil_append, List.cons.injEq] at h
          obtain ⟨rfl, rfl⟩ := h
          exact ⟨[], ts, rfl, rfl, rfl⟩
        | cons a l =>
          simp only [List.cons_append, List.cons.injEq] at h
          obtain ⟨rfl, h3⟩ := h
          obtain ⟨A, B, rfl, e1, e2⟩ := ih h3
          exact ⟨t :: A, B, rfl, by rw [expand_plain A hs hlt, e1], e2⟩

/-- a prefix `p ++ [y]` of an expanded list whose last token `y` is an identifier or a `>`: it is the expansion of a
prefix of the list, or it stops in the middle of a `>>` token -/
theorem split_prefix {B : List Token} {p : List Token} {y : Token} {r : List Token}
    (h : expand B = p ++ y :: r) (hy : tk y.kind = .ident ∨ tk y.kind = .gt) :
    (∃ M0 z C, B = M0 ++ z :: C ∧ expand (M0 ++ [z]) = p ++ [y] ∧ expand C = r ∧ z.end = y.end ∧ z.pos ≤ y.pos) ∨
    (∃ M0 z C, B = M0 ++ z :: C ∧ tk z.kind = .shr ∧ expand M0 = p ∧ y = gt1 z ∧ r = gt2 z :: expand C) := by
  induction B generalizing p with
  | nil => simp at h
  | cons t B ih =>
    have hyl : tk y.kind ≠ .lt := by rcases hy with h1 | h1 <;> rw [h1] <;> decide
    by_cases hs : tk t.kind = .shr
    · rw [expand_shr B hs] at h
      cases p with
      | nil =>
        simp only [List.nil_append, List.cons.injEq] at h
        obtain ⟨rfl, rfl⟩ := h
        exact Or.inr ⟨[], t, B, rfl, hs, rfl, rfl, rfl⟩
      | cons a p =>
        cases p with
        | nil =>
          simp only [List.cons_append, List.nil_append, List.cons.injEq] at h
          obtain ⟨rfl, rfl, rfl⟩ := h
          refine Or.inl ⟨[], t, B, rfl, by rw [List.nil_append, expand_shr [] hs]; rfl, rfl, rfl, by simp⟩
        | cons b p =>
          simp only [List.cons_append, List.cons.injEq] at h
          obtain ⟨rfl, rfl, h3⟩ := h
          rcases ih h3 with ⟨M0, z, C, rfl, e1, e2, e3, e4⟩ | ⟨M0, z, C, rfl, e1, e2, e3, e4⟩
          · exact Or.inl ⟨t :: M0, z, C, rfl, by rw [List.cons_append, expand_shr _ hs, e1]; rfl, e2, e3, e4⟩
          · exact Or.inr ⟨t :: M0, z, C, rfl, e1, by rw [expand_shr _ hs, e2], e3, e4⟩
    · by_cases hlt : tk t.kind = .ltgt
      · rw [expand_ltgt B hlt] at h
        cases p with
        | nil =>
          simp only [List.nil_append, List.cons.injEq] at h
          exact absurd (by rw [← h.1]; simp) hyl
        | cons a p =>
          cases p with
          | nil =>
            simp only [List.cons_append, List.nil_append, List.cons.injEq] at h
            obtain ⟨rfl, rfl, rfl⟩ := h
            refine Or.inl ⟨[], t, B, rfl, by rw [List.nil_append, expand_ltgt [] hlt]; rfl, rfl, rfl, by simp⟩
          | cons b p =>
            simp only [List.cons_append, List.cons.injEq] at h
            obtain ⟨rfl, rfl, h3⟩ := h
            rcases ih h3 with ⟨M0, z, C, rfl, e1, e2, e3, e4⟩ | ⟨M0, z, C, rfl, e1, e2, e3, e4⟩
            · exact Or.inl ⟨t :: M0, z, C, rfl, by rw [List.cons_append, expand_ltgt _ hlt, e1]; rfl, e2, e3, e4⟩
            · exact Or.inr ⟨t :: M0, z, C, rfl, e1, by rw [expand_ltgt _ hlt, e2], e3, e4⟩
      · rw [expand_plain B hs hlt] at h
        cases p with
        | nil =>
          simp only [List.nil_append, List.cons.injEq] at h
          obtain ⟨rfl, rfl⟩ := h
          exact Or.inl ⟨[], t, B, rfl, by rw [List.nil_append, expand_plain [] hs hlt]; rfl, rfl, rfl, Nat.le_refl _⟩
        | cons a p =>
          simp only [List.cons_append, List.cons.injEq] at h
          obtain ⟨rfl, h3⟩ := h
          rcases ih h3 with ⟨M0, z, C, rfl, e1, e2, e3, e4⟩ | ⟨M0, z, C, rfl, e1, e2, e3, e4⟩
          · exact Or.inl ⟨t :: M0, z, C, rfl, by rw [List.cons_append, expand_plain _ hs hlt, e1]; rfl, e2, e3, e4⟩
          · exact Or.inr ⟨t :: M0, z, C, rfl, e1, by rw [expand_plain _ hs hlt, e2], e3, e4⟩

/-! ## from the lexer's `ShiftList` to `Shifted` on the expansions -/

open MF.Lex (TokShift ShiftList TyKind Win)

theorem coreShift_of_tokShift {P : Nat} {u v : Token} (h : TokShift P u v) : CoreShift P u v :=
  ⟨h.kind, h.asString, by rw [h.pos]; omega, by rw [h.end]; omega⟩

theorem Shifted.append {d : Nat} {a b a' b' : List Token} (h1 : Shifted d a a') (h2 : Shifted d b b') :
    Shifted d (a ++ b) (a' ++ b') := by
  induction a generalizing a' with
  | nil =>
    cases a' with
    | nil => exact h2
    | cons v vs => exact absurd h1 (by simp [Shifted])
  | cons u us ih =>
    cases a' with
    | nil => exact absurd h1 (by simp [Shifted])
    | cons v vs => exact ⟨h1.1, ih h1.2⟩

theorem shiftList_expand {P : Nat} {M M' : List Token} (h : ShiftList P M M') : Shifted P (expand M) (expand M') := by
  induction M generalizing M' with
  | nil =>
    cases M' with
    | nil => trivial
    | cons v vs => exact absurd h (by simp [ShiftList])
  | cons u us ih =>
    cases M' with
    | nil => exact absurd h (by simp [ShiftList])
    | cons v vs =>
      obtain ⟨huv, hrest⟩ := h
      have ih' := ih hrest
      have hk : tk v.kind = tk u.kind := by rw [huv.kind]
      by_cases hs : tk u.kind = .shr
      · rw [expand_shr us hs, expand_shr vs (by rw [hk]; exact hs)]
        refine ⟨⟨rfl, huv.asString, ?_, ?_⟩, ⟨rfl, huv.asString, ?_, ?_⟩, ih'⟩
        · show v.pos = u.pos - P; rw [huv.pos]; omega
        · show v.pos + 1 = u.pos + 1 - P; rw [huv.pos]; omega
        · show v.pos + 1 = u.pos + 1 - P; rw [huv.pos]; omega
        · show v.end = u.end - P; rw [huv.end]; omega
      · by_cases hl : tk u.kind = .ltgt
        · rw [expand_ltgt us hl, expand_ltgt vs (by rw [hk]; exact hl)]
          refine ⟨⟨rfl, huv.asString, ?_, ?_⟩, ⟨rfl, huv.asString, ?_, ?_⟩, ih'⟩
          · show v.pos = u.pos - P; rw [huv.pos]; omega
          · show v.pos + 1 = u.pos + 1 - P; rw [huv.pos]; omega
          · show v.pos + 1 = u.pos + 1 - P; rw [huv.pos]; omega
          · show v.end = u.end - P; rw [huv.end]; omega
        · rw [expand_plain us hs hl, expand_plain vs (by rw [hk]; exact hs) (by rw [hk]; exact hl)]
          exact ⟨coreShift_of_tokShift huv, ih'⟩

theorem shiftList_append {P : Nat} {a b a' b' : List Token} (h1 : ShiftList P a a') (h2 : ShiftList P b b') :
    ShiftList P (a ++ b) (a' ++ b') := by
  induction a generalizing a' with
  | nil =>
    cases a' with
    | nil => exact h2
    | cons v vs => exact absurd h1 (by simp [ShiftList])
  | cons u us ih =>
    cases a' with
    | nil => exact absurd h1 (by simp [ShiftList])
    | cons v vs => exact ⟨h1.1, ih h1.2⟩

/-- a token of the list all of whose expanded tokens belong to the type vocabulary is an identifier, a keyword or a
punctuation token -/
theorem tyKind_of_voc {M : List Token} (hv : ∀ u ∈ expand M, Voc (tk u.kind)) : ∀ t ∈ M, TyKind t.kind := by
  induction M with
  | nil => simp
  | cons a M ih =>
    intro t ht
    simp only [List.mem_cons] at ht
    by_cases hs : tk a.kind = .shr
    · rw [expand_shr M hs] at hv
      rcases ht with rfl | ht
      · exact Or.inr ⟨_, kind_of_tk hs (by decide)⟩
      · exact ih (fun u hu => hv u (by simp [hu])) t ht
    · by_cases hl : tk a.kind = .ltgt
      · rw [expand_ltgt M hl] at hv
        rcases ht with rfl | ht
        · exact Or.inr ⟨_, kind_of_tk hl (by decide)⟩
        · exact ih (fun u hu => hv u (by simp [hu])) t ht
      · rw [expand_plain M hs hl] at hv
        rcases ht with rfl | ht
        · have hvoc := hv t (by simp)
          have hk := kind_of_tk (rfl : tk t.kind = tk t.kind) hvoc.ne.1
          rcases hvoc with h | h | h | h | h | h | h <;> rw [h] at hk <;> rw [hk]
          · exact Or.inl rfl
          all_goals exact Or.inr ⟨_, rfl⟩
        · exact ih (fun u hu => hv u (by simp [hu])) t ht

theorem match_voc {t : Ty} {m : List Token} (hm : Match (yieldT t) m) : ∀ u ∈ m, Voc (tk u.kind) := by
  have hc := hm.cls
  intro u hu
  have : tk u.kind ∈ m.map (fun t => tk t.kind) := List.mem_map.2 ⟨u, hu, rfl⟩
  rw [hc] at this
  obtain ⟨y, hy, e⟩ := List.mem_map.1 this
  rw [← e]
  exact yieldT_cls t y hy

/-- the last token of `A` is not `.` when the last token of its expansion is not -/
theorem prev_not_dot {A : List Token} (h : NotDotLast (expand A)) : ∀ t, A.getLast? = some t → t.kind ≠ K "." := by
  intro t ht hk
  rcases List.eq_nil_or_concat A with rfl | ⟨A0, t', rfl⟩
  · simp at ht
  · have hA : A0.concat t' = A0 ++ [t'] := by simp
    rw [hA] at ht h
    simp only [List.getLast?_append, List.getLast?_singleton, Option.some_or, Option.some.injEq] at ht
    subst ht
    have htk : tk t'.kind = .dot := by rw [hk]; decide
    have : expand (A0 ++ [t']) = expand A0 ++ [t'] := by
      rw [expand_append, expand_plain [] (by rw [htk]; decide) (by rw [htk]; decide)]; rfl
    rw [this] at h
    exact h t' (by simp) htk

/-! ## the lexer side of C06 -/

/-- for an accepted input and a type node `n` none of whose `SimpleType` nodes sits on a back-quoted token: the slice
`input[pos n : end n]` lexes, and its expanded tokens are the node's tokens moved down by `pos n`, followed by `<eof>` -/
theorem slice_lex {buf : Bytes} {ts : List Token} {fuel : Nat} {t : Ty}
    (hl : Lex.lexAll buf = .ok ts) (hp : parseTypeTop fuel ts = .ok t) {n : Ty} (hn : Node.ty n ∈ nodesT t)
    (hq : ∀ a nm, Node.ty (.simple a nm) ∈ nodesT n → ∀ tok ∈ ts, tok.pos = a → tok.raw.head? ≠ some 96) :
    ∃ l m r, expand ts = l ++ m ++ r ∧ Match (yieldT n) m ∧ wf n = true ∧
      ∃ ts2 vs e, Lex.lexAll (slice buf (posT n) (endT n)) = .ok ts2 ∧ expand ts2 = vs ++ [e] ∧ tk e.kind = .eof ∧
        Shifted (posT n) m vs := by
  obtain ⟨pre, rest, he, _, hm, hw⟩ := parseTypeTop_sound hp
  obtain ⟨l, m, r, e, hmn, hwn, hnd, _⟩ := exact_tokens hw hm hn
  refine ⟨l, m, r ++ rest, by rw [he, e]; simp, hmn, hwn, ?_⟩
  -- facts about the tokens
  obtain ⟨_, hok⟩ := Lex.lexAll_ok hl
  have hf := Lex.lexAll_facts hl
  have ho : Ord 0 (expand ts) buf.length := ord_expand (ord_of_tokensOK hok (Nat.zero_le _)) hf
  have hx := xfacts_expand hf
  have hets : expand ts = l ++ (m ++ (r ++ rest)) := by rw [he, e]; simp
  rw [hets] at ho hx
  obtain ⟨p1, _, ho2⟩ := ho.append_inv
  obtain ⟨q1, hom, ho3⟩ := ho2.append_inv
  have hq1 : q1 ≤ buf.length := ho3.le
  have hxm : ∀ tok ∈ m, XFacts tok := fun u hu => hx u (by simp [hu])
  have hsubm : ∀ u ∈ m, u ∈ expand ts := fun u hu => by rw [hets]; simp [hu]
  have hunq : UnqT n m := by
    intro a nm hnm tok htok hpos
    rcases mem_expand (hsubm tok htok) with h | h | h
    · exact hq a nm hnm tok h hpos
    · rw [h]; decide
    · rw [h]; decide
  obtain ⟨x, m1, m0, z, em1, em0, hP, hQ⟩ := span_exact hwn hmn hxm hunq
  obtain ⟨b1, b2, b3⟩ := posT_ok n hwn p1 q1 m hmn hom hxm hunq
  have hroot := (b3 _ (root_mem n)).2.2.1
  simp only [Node.pos, Node.end] at hroot
  have hzm : z ∈ m := by rw [em0]; simp
  have hzle : z.pos ≤ z.end := by
    have : z ∈ x :: m1 := by rw [← em1]; exact hzm
    clear hroot b3
    -- every token of an ordered list has `pos ≤ end`
    have aux : ∀ (p q : Nat) (lst : List Token), Ord p lst q → ∀ u ∈ lst, u.pos ≤ u.end := by
      intro p q lst
      induction lst generalizing p with
      | nil => intro _ u hu; simp at hu
      | cons v vs ih =>
        intro ho u hu
        simp only [List.mem_cons] at hu
        rcases hu with rfl | hu
        · exact ho.2.2.1
        · exact ih _ ho.2.2.2 u hu
    exact aux p1 q1 m hom z hzm
  have hQlen : endT n ≤ buf.length := by omega
  -- the window
  have w : Win buf (slice buf (posT n) (endT n)) (posT n) (endT n) := ⟨Nat.le_of_lt hroot, hQlen, rfl⟩
  -- the first token is a token of the list
  obtain ⟨y0, ys0, ey0, hy0⟩ := yieldT_head n hwn
  have hxk : TStart (tk x.kind) := by
    have hm' := hmn
    rw [em1, ey0] at hm'
    rw [YT.ok_cls hm'.1]; exact hy0
  have hsplit1 : expand ts = l ++ x :: (m1 ++ (r ++ rest)) := by rw [hets, em1]; simp
  obtain ⟨A, B, rfl, eA, eB⟩ := split_plain hsplit1 hxk.plain.1 hxk.plain.2.1
  have hxs : tk x.kind ≠ .shr := by rcases hxk with h | h | h <;> rw [h] <;> decide
  have hxl : tk x.kind ≠ .ltgt := by rcases hxk with h | h | h <;> rw [h] <;> decide
  have hprev := prev_not_dot (A := A) (by rw [eA]; exact hnd)
  have hvoc := match_voc hmn
  have hxdot : x.kind ≠ K "." := by
    intro hk
    have : tk x.kind = .dot := by rw [hk]; decide
    rcases hxk with h | h | h <;> rw [h] at this <;> cases this
  -- the last token
  have hzcls : tk z.kind = .ident ∨ tk z.kind = .gt := by
    obtain ⟨m0', z', e', hz'⟩ := match_last hwn hmn
    rw [em0] at e'
    obtain ⟨_, h2⟩ := List.append_inj' e' rfl
    simp only [List.cons.injEq, and_true] at h2
    rw [h2]; exact hz'
  have hxB : expand (x :: B) = m0 ++ z :: (r ++ rest) := by
    rw [expand_plain B hxs hxl, eB, ← List.cons_append, ← em1, em0]; simp
  rcases split_prefix hxB hzcls with ⟨M0, zz, C, eMC, e1, e2, e3, e4⟩ | ⟨M0, zz, C, eMC, hzs, e1, e2, e3⟩
  · -- the node ends at the end of a token
    have hhead : (M0 ++ [zz]).head? = some x := by
      cases M0 with
      | nil => simp only [List.nil_append, List.cons.injEq] at eMC; rw [eMC.1]; rfl
      | cons a M0 => simp only [List.cons_append, List.cons.injEq] at eMC; rw [eMC.1]; rfl
    have hexp : expand (M0 ++ [zz]) = m := by rw [e1, em0]
    obtain ⟨M0', z', ee, g1, g2, g3, g4⟩ := Lex.window_full w (A := A) (M0 := M0) (z := zz) (C := C)
      (by rw [← eMC]; exact hl) hprev
      (tyKind_of_voc (by rw [hexp]; exact hvoc))
      (by rw [hhead]; simpa using hxdot)
      (by rw [hhead, hP]; rfl) (by omega) (by rw [e3, hQ])
    have heplain : expand [ee] = [ee] := by
      have hk : tk ee.kind = .eof := by rw [g4]; rfl
      exact expand_plain [] (by rw [hk]; decide) (by rw [hk]; decide)
    refine ⟨M0' ++ [z', ee], expand (M0' ++ [z']), ee, g1, ?_, by rw [g4]; rfl, ?_⟩
    · have : M0' ++ [z', ee] = (M0' ++ [z']) ++ [ee] := by simp
      rw [this, expand_append, heplain]
    · rw [← hexp]
      exact shiftList_expand (shiftList_append g2 ⟨g3, trivial⟩)
  · -- the node ends in the middle of a `>>` token
    have hhead : (M0 ++ [zz]).head? = some x := by
      cases M0 with
      | nil => simp only [List.nil_append, List.cons.injEq] at eMC; rw [eMC.1]; rfl
      | cons a M0 => simp only [List.cons_append, List.cons.injEq] at eMC; rw [eMC.1]; rfl
    have hzk : zz.kind = K ">>" := kind_of_tk hzs (by decide)
    have hsub0 : ∀ u ∈ expand M0, Voc (tk u.kind) := by
      intro u hu
      exact hvoc u (by rw [em0, ← e1]; simp [hu])
    obtain ⟨M0', g, ee, g1, g2, g4, k1, k2, k3, k4, k5, k6⟩ := Lex.window_half w (A := A) (M0 := M0) (z := zz) (C := C)
      (by rw [← eMC]; exact hl) hprev (tyKind_of_voc hsub0)
      (by rw [hhead]; simpa using hxdot)
      (by rw [hhead, hP]; rfl) hzk (by rw [hQ, e2]; rfl)
    have heplain : expand [ee] = [ee] := by
      have hk : tk ee.kind = .eof := by rw [g4]; rfl
      exact expand_plain [] (by rw [hk]; decide) (by rw [hk]; decide)
    have hgplain : expand [g] = [g] := by
      have hk : tk g.kind = .gt := by rw [k1]; decide
      exact expand_plain [] (by rw [hk]; decide) (by rw [hk]; decide)
    refine ⟨M0' ++ [g, ee], expand M0' ++ [g], ee, g1, ?_, by rw [g4]; rfl, ?_⟩
    · have : M0' ++ [g, ee] = M0' ++ ([g] ++ [ee]) := by simp
      rw [this, expand_append, expand_append, hgplain, heplain, List.append_assoc]
    · rw [em0, ← e1, e2]
      refine Shifted.append (shiftList_expand g2) ⟨⟨?_, ?_, ?_, ?_⟩, trivial⟩
      · rw [k1]; rfl
      · rw [k2]; exact k3.symm
      · show g.pos = zz.pos - posT n; rw [k4]; omega
      · show g.end = zz.pos + 1 - posT n; rw [k5, k4]; omega

/-- C06 for types: the slice of a type node, parsed on its own, is the node with all positions decreased by its `pos` -/
theorem type_exact {buf : Bytes} {ts : List Token} {fuel : Nat} {t : Ty}
    (hl : Lex.lexAll buf = .ok ts) (hp : parseTypeTop fuel ts = .ok t) {n : Ty} (hn : Node.ty n ∈ nodesT t)
    (hq : ∀ a nm, Node.ty (.simple a nm) ∈ nodesT n → ∀ tok ∈ ts, tok.pos = a → tok.raw.head? ≠ some 96) :
    ∃ ts2, Lex.lexAll (slice buf (posT n) (endT n)) = .ok ts2 ∧
      parseTypeTop (topFuel ts2) ts2 = .ok (shiftT (posT n) n) := by
  obtain ⟨l, m, r, _, hmn, hwn, ts2, vs, e, hl2, he2, hk2, hs⟩ := slice_lex hl hp hn hq
  refine ⟨ts2, hl2, ?_⟩
  have hm2 : Match (yieldT (shiftT (posT n) n)) vs := by rw [yieldT_shift]; exact match_shift hmn hs
  have hw2 : wf (shiftT (posT n) n) = true := by rw [wf_shift]; exact hwn
  exact parseTypeTop_complete hw2 hm2 he2 (by simp [curX, hk2]) _ (need_le_topFuel hw2 hm2 he2)

end MF.TypeP
