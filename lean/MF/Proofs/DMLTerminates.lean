/-
  MF.Proofs.DMLTerminates — TOTAL termination of the model of `ParseDML` / `ParseDMLs` / `ParseStatement` /
  `ParseStatements` on DML texts (MF/Model/Stmt2.lean, fragment M2), GENERIC in the expression parser `pe` and
  instantiated with `parseExpr` and with the positioned `parsePExpr`: on EVERY token list the four entry points answer
  `ok`, `raise` or `outside` — never `outOfFuel`, and never `crash` on lexer output — as soon as the fuel is at least

      dmlBound ts = 15 * ts.length + 18        (≤ dmlFuel ts = 34 * (ts.length + 2), the fuel of the DML request)

  and from there on the answer does not depend on the fuel.

  Why: in this model only the four loops spend fuel — `stmtsLoop` (the statement list), `rowsLoop` (the rows of VALUES),
  `rowLoop` (the entries of a row), `itemsLoop` (the SET items); every other function hands its fuel unchanged to its
  callees; the identifier loops (`pathLoop`, `colLoop`) recurse on the token list.  The loops nest three deep
  (`stmtsLoop` → `rowsLoop` → `rowLoop` → expression), each level costs one unit, and every re-entry of a loop happens
  behind a consumed `,` / `;` / statement: `rowLoop` and `itemsLoop` need `15 * n + 16` on `n` tokens (the expression
  bound `15 * n + 15` plus one), `rowsLoop` `15 * n + 17`, `stmtsLoop` `15 * n + 18`.  `stmtsLoop` re-enters on the `;`
  that follows a statement (not behind it): the decrease there comes from the statement, which consumed at least its
  first word (`Strict`).

  What is assumed of the expression parser (`PeFine`): with fuel `15 * |ts0| + 15` it answers on every suffix `ts` of
  `ts0`, does not crash if `NumOK ts0`, and leaves a suffix — `expr_fine`, `pexpr_fine` (MF/Proofs/QueryTerminates.lean).
  Fuel monotonicity of the DML layer (`…_le`, new) from that of `pe` (`PeMono`: `mono_all`, `pmono_all`).
-/
import MF.Model.Stmt2
import MF.Proofs.QueryTerminates
namespace MF.DML
open MF MF.Expr

/-- what the DML layer needs of its expression parser, for termination -/
@[reducible] def PeFine {ε : Type} (pe : Nat → List Token → Res (ε × List Token)) : Prop :=
  ∀ (f : Nat) (ts ts0 : List Token), ts <:+ ts0 → 15 * ts0.length + 15 ≤ f → Fine ts0 (pe f ts)

/-- … and for fuel monotonicity -/
@[reducible] def PeMono {ε : Type} (pe : Nat → List Token → Res (ε × List Token)) : Prop :=
  ∀ (f : Nat) (ts : List Token), Le (pe f ts) (pe (f + 1) ts)

theorem peFine_expr : PeFine parseExpr := fun _ _ _ hs hf => expr_fine hs hf
theorem peFine_pexpr : PeFine parsePExpr := fun _ _ _ hs hf => pexpr_fine hs hf
theorem peMono_expr : PeMono parseExpr := fun f ts => (mono_all f).expr ts
theorem peMono_pexpr : PeMono parsePExpr := fun f ts => (pmono_all f).expr ts

theorem kd_pos {ts : List Token} {s : String} (h : kd ts = K s) : 0 < ts.length := by
  cases ts with
  | nil => simp [kd, K] at h
  | cons t tl => simp

/-! ## the identifier-only productions (no fuel) -/

theorem pathLoop_fine : ∀ ts : List Token, Fine ts (pathLoop ts)
  | t :: u :: rest => by
    rw [pathLoop]
    split
    · split
      · exact Fine.bind ((pathLoop_fine rest).of_suffix ⟨[t, u], rfl⟩) fun q hq => by fin
      · fin
    · fin
  | [t] => by rw [pathLoop]; split <;> fin
  | [] => by rw [pathLoop]; fin

theorem colLoop_fine : ∀ ts : List Token, Fine ts (colLoop ts)
  | t :: c :: rest => by
    rw [colLoop]
    split
    · split
      · exact Fine.bind ((colLoop_fine rest).of_suffix ⟨[t, c], rfl⟩) fun q hq => by fin
      · exact Fine.ok _ ⟨[t], rfl⟩
    · fin
  | [t] => by
    rw [colLoop]; split
    · exact Fine.ok _ ⟨[t], rfl⟩
    · fin
  | [] => by rw [colLoop]; fin

section
variable {ts ts0 : List Token}

theorem parsePIdent_fine (hs : ts <:+ ts0) : Fine ts0 (parsePIdent ts) := by
  unfold parsePIdent; fine_auto []

theorem parseIdentOrPath_fine (hs : ts <:+ ts0) : Fine ts0 (parseIdentOrPath ts) := by
  unfold parseIdentOrPath
  refine Fine.bind (parsePIdent_fine hs) fun p hp => ?_
  exact Fine.bind ((pathLoop_fine p.2).of_suffix hp) fun q hq => by fin

theorem tryParseAsAlias_fine (hs : ts <:+ ts0) : Fine ts0 (tryParseAsAlias ts) := by
  unfold tryParseAsAlias; fine_auto [parsePIdent_fine (by sfx)]

theorem thenReturn_quiet (ts : List Token) : Quiet (thenReturn ts) := by
  unfold thenReturn
  split
  · split <;> fin
  · fin

theorem parseInsertOr_fine (hs : ts <:+ ts0) : Fine ts0 (parseInsertOr ts) := by
  unfold parseInsertOr
  split
  · split
    · fin
    · split <;> fin
  · fin

theorem parseColumns_fine (hs : ts <:+ ts0) : Fine ts0 (parseColumns ts) := by
  unfold parseColumns
  split
  · refine Fine.bind ?_ fun c hc => ?_
    · split
      · fin
      · exact (colLoop_fine ts.tail).of_suffix (by sfx)
    · split <;> fin
  · fin

end

/-! ## the productions with expression slots -/

section
variable {ε : Type} {pe : Nat → List Token → Res (ε × List Token)}

section
variable {f : Nat} {ts ts0 : List Token}

theorem parseDefaultExpr_fine (hpe : PeFine pe) (hs : ts <:+ ts0) (hf : 15 * ts0.length + 15 ≤ f) :
    Fine ts0 (parseDefaultExpr pe f ts) := by
  unfold parseDefaultExpr
  split
  · fin
  · exact Fine.bind (hpe f ts ts0 hs hf) fun p hp => by fin

end

theorem rowLoop_fine (hpe : PeFine pe) : ∀ (f : Nat) (ts : List Token), 15 * ts.length + 16 ≤ f →
    Fine ts (rowLoop pe f ts)
  | 0, _, h => by omega
  | f + 1, ts, h => by
    rw [rowLoop]
    split
    · fin
    · refine Fine.bind (parseDefaultExpr_fine hpe (List.suffix_refl _) (by omega)) fun p hp => ?_
      have hl := hp.length_le
      split
      · rename_i hc
        have h0 := pos_of_cur hc (by decide)
        exact Fine.bind ((rowLoop_fine hpe f p.2.tail (by lia)).of_suffix (by sfx)) fun q hq => by fin
      · fin

section
variable {f : Nat} {ts ts0 : List Token}

theorem parseValuesRow_fine (hpe : PeFine pe) (hs : ts <:+ ts0) (hf : 15 * ts0.length + 16 ≤ f) :
    Fine ts0 (parseValuesRow pe f ts) := by
  unfold parseValuesRow
  have hl := hs.length_le
  split
  · refine Fine.bind ?_ fun q hq => ?_
    · split
      · fin
      · exact (rowLoop_fine hpe f ts.tail (by lia)).of_suffix (by sfx)
    · split <;> fin
  · fin

end

theorem rowsLoop_fine (hpe : PeFine pe) : ∀ (f : Nat) (ts : List Token), 15 * ts.length + 17 ≤ f →
    Fine ts (rowsLoop pe f ts)
  | 0, _, h => by omega
  | f + 1, ts, h => by
    rw [rowsLoop]
    refine Fine.bind (parseValuesRow_fine hpe (List.suffix_refl _) (by omega)) fun p hp => ?_
    have hl := hp.length_le
    split
    · rename_i hc
      have h0 := pos_of_cur hc (by decide)
      exact Fine.bind ((rowsLoop_fine hpe f p.2.tail (by lia)).of_suffix (by sfx)) fun q hq => by fin
    · fin

section
variable {f : Nat} {ts ts0 : List Token}

theorem parseValuesInput_fine (hpe : PeFine pe) (hs : ts <:+ ts0) (hf : 15 * ts0.length + 17 ≤ f) :
    Fine ts0 (parseValuesInput pe f ts) := by
  unfold parseValuesInput
  have hl := hs.length_le
  split
  · exact Fine.bind ((rowsLoop_fine hpe f ts.tail (by lia)).of_suffix (by sfx)) fun q hq => by fin
  · fin

theorem parseWhere_fine (hpe : PeFine pe) (hs : ts <:+ ts0) (hf : 15 * ts0.length + 15 ≤ f) :
    Fine ts0 (parseWhere pe f ts) := by
  unfold parseWhere
  split
  · exact Fine.bind (hpe f ts.tail ts0 (by sfx) hf) fun p hp => by fin
  · fin

theorem parseUpdateItem_fine (hpe : PeFine pe) (hs : ts <:+ ts0) (hf : 15 * ts0.length + 15 ≤ f) :
    Fine ts0 (parseUpdateItem pe f ts) := by
  unfold parseUpdateItem
  refine Fine.bind (parseIdentOrPath_fine hs) fun n hn => ?_
  split
  · exact Fine.bind (parseDefaultExpr_fine hpe (by sfx) hf) fun d hd => by fin
  · fin

end

theorem itemsLoop_fine (hpe : PeFine pe) : ∀ (f : Nat) (ts : List Token), 15 * ts.length + 16 ≤ f →
    Fine ts (itemsLoop pe f ts)
  | 0, _, h => by omega
  | f + 1, ts, h => by
    rw [itemsLoop]
    refine Fine.bind (parseUpdateItem_fine hpe (List.suffix_refl _) (by omega)) fun p hp => ?_
    have hl := hp.length_le
    split
    · rename_i hc
      have h0 := pos_of_cur hc (by decide)
      exact Fine.bind ((itemsLoop_fine hpe f p.2.tail (by lia)).of_suffix (by sfx)) fun q hq => by fin
    · fin

section
variable {f : Nat} {ts ts0 : List Token}

theorem parseInsert_fine (hpe : PeFine pe) (pos : Nat) (hs : ts <:+ ts0) (hf : 15 * ts0.length + 17 ≤ f) :
    Fine ts0 (parseInsert pe f pos ts) := by
  unfold parseInsert
  refine Fine.bind (parseInsertOr_fine hs) fun o ho => ?_
  dsimp only
  have h1 : (if kd o.2 = K "INTO" then o.2.tail else o.2) <:+ ts0 := by split <;> sfx
  refine Fine.bind (parseIdentOrPath_fine h1) fun n hn => ?_
  split
  · fin
  · refine Fine.bind (parseColumns_fine hn) fun c hc => ?_
    split
    · refine Fine.bind (parseValuesInput_fine hpe hc hf) fun v hv => ?_
      exact Fine.bindQ (thenReturn_quiet _) fun _ => by fin
    · split <;> fin

theorem parseDelete_fine (hpe : PeFine pe) (pos : Nat) (hs : ts <:+ ts0) (hf : 15 * ts0.length + 17 ≤ f) :
    Fine ts0 (parseDelete pe f pos ts) := by
  unfold parseDelete
  dsimp only
  have h1 : (if kd ts = K "FROM" then ts.tail else ts) <:+ ts0 := by split <;> sfx
  refine Fine.bind (parseIdentOrPath_fine h1) fun n hn => ?_
  split
  · fin
  · refine Fine.bind (tryParseAsAlias_fine hn) fun a ha => ?_
    refine Fine.bind (parseWhere_fine hpe ha (by omega)) fun w hw => ?_
    exact Fine.bindQ (thenReturn_quiet _) fun _ => by fin

theorem parseUpdate_fine (hpe : PeFine pe) (pos : Nat) (hs : ts <:+ ts0) (hf : 15 * ts0.length + 17 ≤ f) :
    Fine ts0 (parseUpdate pe f pos ts) := by
  unfold parseUpdate
  refine Fine.bind (parseIdentOrPath_fine hs) fun n hn => ?_
  split
  · fin
  · refine Fine.bind (tryParseAsAlias_fine hn) fun a ha => ?_
    have hl := ha.length_le
    split
    · refine Fine.bind ((itemsLoop_fine hpe f a.2.tail (by lia)).of_suffix (by sfx)) fun u hu => ?_
      refine Fine.bind (parseWhere_fine hpe hu (by omega)) fun w hw => ?_
      exact Fine.bindQ (thenReturn_quiet _) fun _ => by fin
    · fin

end

/-! ## statements: a successful statement consumed at least its first word -/

/-- `r` is a syntax error, leaves the fragment, or is `Fine` on the tokens BEHIND the first one -/
def Strict {α : Type} (ts : List Token) (r : Res (α × List Token)) : Prop :=
  r = .raise ∨ r = .outside ∨ (0 < ts.length ∧ Fine ts.tail r)

theorem Strict.fine {α : Type} {ts : List Token} {r : Res (α × List Token)} (h : Strict ts r) : Fine ts r := by
  rcases h with h | h | ⟨_, h⟩
  · rw [h]; exact Fine.raise
  · rw [h]; exact Fine.outside
  · exact h.of_suffix (List.tail_suffix ts)

theorem parseDMLInternal_strict (hpe : PeFine pe) {f : Nat} {ts : List Token} (hf : 15 * ts.length + 17 ≤ f) :
    Strict ts (parseDMLInternal pe f ts) := by
  unfold parseDMLInternal
  split
  · rename_i hc
    have h0 := pos_of_cur hc (by decide)
    have hf' : 15 * ts.tail.length + 17 ≤ f := by lia
    split
    · exact Or.inr (Or.inr ⟨h0, parseInsert_fine hpe _ (List.suffix_refl _) hf'⟩)
    · split
      · exact Or.inr (Or.inr ⟨h0, parseDelete_fine hpe _ (List.suffix_refl _) hf'⟩)
      · split
        · exact Or.inr (Or.inr ⟨h0, parseUpdate_fine hpe _ (List.suffix_refl _) hf'⟩)
        · exact Or.inl rfl
  · exact Or.inl rfl

theorem parseDML_strict (hpe : PeFine pe) {f : Nat} {ts : List Token} (hf : 15 * ts.length + 17 ≤ f) :
    Strict ts (parseDML pe f ts) := by
  unfold parseDML
  split
  · exact Or.inr (Or.inl rfl)
  · exact parseDMLInternal_strict hpe hf

theorem parseStatement_strict (hpe : PeFine pe) {f : Nat} {ts : List Token} (hf : 15 * ts.length + 17 ≤ f) :
    Strict ts (parseStatement pe f ts) := by
  unfold parseStatement
  split
  · exact Or.inr (Or.inl rfl)
  · split
    · exact parseDMLInternal_strict hpe hf
    · split
      · exact Or.inr (Or.inl rfl)
      · exact Or.inl rfl

end

/-! ## the list loop -/

theorem stmtsLoop_fine {α : Type} {doParse : Nat → List Token → Res (α × List Token)}
    (hd : ∀ (f : Nat) (ts : List Token), 15 * ts.length + 17 ≤ f → Strict ts (doParse f ts)) :
    ∀ (f : Nat) (ts : List Token), 15 * ts.length + 18 ≤ f → Fine ts (stmtsLoop doParse f ts)
  | 0, _, h => by omega
  | f + 1, ts, h => by
    rw [stmtsLoop]
    split
    · fin
    · split
      · rename_i hk
        have h0 := kd_pos hk
        exact (stmtsLoop_fine hd f ts.tail (by lia)).of_suffix (List.tail_suffix ts)
      · rcases hd f ts (by omega) with e | e | ⟨h0, hF⟩
        · rw [e]; exact Fine.raise
        · rw [e]; exact Fine.outside
        · refine Fine.of_suffix (List.tail_suffix ts) ?_
          refine Fine.bind hF fun p hp => ?_
          have hl := hp.length_le
          split
          · exact Fine.bind ((stmtsLoop_fine hd f p.2 (by lia)).of_suffix hp) fun q hq => by fin
          · fin

/-! ## fuel monotonicity of the DML layer -/

section
variable {ε : Type} {pe : Nat → List Token → Res (ε × List Token)}

theorem parseDefaultExpr_le (hm : PeMono pe) (f : Nat) (ts : List Token) :
    Le (parseDefaultExpr pe f ts) (parseDefaultExpr pe (f + 1) ts) := by
  unfold parseDefaultExpr; le_auto' [hm _ _]

theorem rowLoop_le (hm : PeMono pe) : ∀ (f : Nat) (ts : List Token), Le (rowLoop pe f ts) (rowLoop pe (f + 1) ts)
  | 0, _ => Le.oof _
  | f + 1, ts => by
    rw [rowLoop, rowLoop]
    le_auto' [parseDefaultExpr_le hm _ _, rowLoop_le hm f _]

theorem parseValuesRow_le (hm : PeMono pe) (f : Nat) (ts : List Token) :
    Le (parseValuesRow pe f ts) (parseValuesRow pe (f + 1) ts) := by
  unfold parseValuesRow; le_auto' [rowLoop_le hm _ _]

theorem rowsLoop_le (hm : PeMono pe) : ∀ (f : Nat) (ts : List Token), Le (rowsLoop pe f ts) (rowsLoop pe (f + 1) ts)
  | 0, _ => Le.oof _
  | f + 1, ts => by
    rw [rowsLoop, rowsLoop]
    le_auto' [parseValuesRow_le hm _ _, rowsLoop_le hm f _]

theorem parseValuesInput_le (hm : PeMono pe) (f : Nat) (ts : List Token) :
    Le (parseValuesInput pe f ts) (parseValuesInput pe (f + 1) ts) := by
  unfold parseValuesInput; le_auto' [rowsLoop_le hm _ _]

theorem parseWhere_le (hm : PeMono pe) (f : Nat) (ts : List Token) :
    Le (parseWhere pe f ts) (parseWhere pe (f + 1) ts) := by
  unfold parseWhere; le_auto' [hm _ _]

theorem parseUpdateItem_le (hm : PeMono pe) (f : Nat) (ts : List Token) :
    Le (parseUpdateItem pe f ts) (parseUpdateItem pe (f + 1) ts) := by
  unfold parseUpdateItem; le_auto' [parseDefaultExpr_le hm _ _]

theorem itemsLoop_le (hm : PeMono pe) : ∀ (f : Nat) (ts : List Token), Le (itemsLoop pe f ts) (itemsLoop pe (f + 1) ts)
  | 0, _ => Le.oof _
  | f + 1, ts => by
    rw [itemsLoop, itemsLoop]
    le_auto' [parseUpdateItem_le hm _ _, itemsLoop_le hm f _]

theorem parseInsert_le (hm : PeMono pe) (f pos : Nat) (ts : List Token) :
    Le (parseInsert pe f pos ts) (parseInsert pe (f + 1) pos ts) := by
  unfold parseInsert; le_auto' [parseValuesInput_le hm _ _]

theorem parseDelete_le (hm : PeMono pe) (f pos : Nat) (ts : List Token) :
    Le (parseDelete pe f pos ts) (parseDelete pe (f + 1) pos ts) := by
  unfold parseDelete; le_auto' [parseWhere_le hm _ _]

theorem parseUpdate_le (hm : PeMono pe) (f pos : Nat) (ts : List Token) :
    Le (parseUpdate pe f pos ts) (parseUpdate pe (f + 1) pos ts) := by
  unfold parseUpdate; le_auto' [parseWhere_le hm _ _, itemsLoop_le hm _ _]

theorem parseDMLInternal_le (hm : PeMono pe) (f : Nat) (ts : List Token) :
    Le (parseDMLInternal pe f ts) (parseDMLInternal pe (f + 1) ts) := by
  unfold parseDMLInternal; le_auto' [parseInsert_le hm _ _ _, parseDelete_le hm _ _ _, parseUpdate_le hm _ _ _]

theorem parseDML_le (hm : PeMono pe) (f : Nat) (ts : List Token) : Le (parseDML pe f ts) (parseDML pe (f + 1) ts) := by
  unfold parseDML; le_auto' [parseDMLInternal_le hm _ _]

theorem parseStatement_le (hm : PeMono pe) (f : Nat) (ts : List Token) :
    Le (parseStatement pe f ts) (parseStatement pe (f + 1) ts) := by
  unfold parseStatement; le_auto' [parseDMLInternal_le hm _ _]

end

theorem stmtsLoop_le {α : Type} {doParse : Nat → List Token → Res (α × List Token)}
    (hm : ∀ (f : Nat) (ts : List Token), Le (doParse f ts) (doParse (f + 1) ts)) :
    ∀ (f : Nat) (ts : List Token), Le (stmtsLoop doParse f ts) (stmtsLoop doParse (f + 1) ts)
  | 0, _ => Le.oof _
  | f + 1, ts => by
    rw [stmtsLoop, stmtsLoop]
    le_auto' [hm _ _, stmtsLoop_le hm f _]

theorem finish_le {α : Type} {a b : Res (α × List Token)} (h : Le a b) : Le (finish a) (finish b) := by
  unfold finish; exact Le.bind h fun _ => Le.refl _

/-! ## the bound and the entry points -/

/-- fuel that suffices for EVERY token list: the expression bound plus the three nested loops -/
def dmlBound (ts : List Token) : Nat := 15 * ts.length + 18

/-- the fuel of the DML request is above the bound -/
theorem dmlBound_le_dmlFuel (ts : List Token) : dmlBound ts ≤ dmlFuel ts := by
  unfold dmlBound dmlFuel; omega

theorem finish_of_fine {α : Type} {ts : List Token} {r : Res (α × List Token)} (h : Fine ts r) :
    finish r ≠ .outOfFuel ∧ (NumOK ts → finish r ≠ .crash) := by
  obtain ⟨h1, h2, _⟩ := h
  unfold finish
  cases r with
  | ok a =>
    simp only [Res.bind_ok]
    refine ⟨fun e => ?_, fun _ e => ?_⟩ <;> (split at e <;> cases e)
  | raise => exact ⟨fun e => (by cases e), fun _ e => (by cases e)⟩
  | outside => exact ⟨fun e => (by cases e), fun _ e => (by cases e)⟩
  | crash => exact ⟨fun e => (by cases e), fun hn _ => h2 hn rfl⟩
  | outOfFuel => exact absurd rfl h1

section
variable {ε : Type} {pe : Nat → List Token → Res (ε × List Token)}

theorem parseDML_fine (hpe : PeFine pe) {f : Nat} {ts : List Token} (h : dmlBound ts ≤ f) : Fine ts (parseDML pe f ts) :=
  (parseDML_strict hpe (by unfold dmlBound at h; omega)).fine

theorem parseStatement_fine (hpe : PeFine pe) {f : Nat} {ts : List Token} (h : dmlBound ts ≤ f) :
    Fine ts (parseStatement pe f ts) :=
  (parseStatement_strict hpe (by unfold dmlBound at h; omega)).fine

theorem parseDMLs_fine (hpe : PeFine pe) {f : Nat} {ts : List Token} (h : dmlBound ts ≤ f) :
    Fine ts (stmtsLoop (parseDML pe) f ts) :=
  stmtsLoop_fine (fun _ _ hf => parseDML_strict hpe hf) f ts h

theorem parseStatements_fine (hpe : PeFine pe) {f : Nat} {ts : List Token} (h : dmlBound ts ≤ f) :
    Fine ts (stmtsLoop (parseStatement pe) f ts) :=
  stmtsLoop_fine (fun _ _ hf => parseStatement_strict hpe hf) f ts h

/-- **the four DML entry points terminate on every token list** -/
theorem dmlTops_ne_oof (hpe : PeFine pe) {f : Nat} {ts : List Token} (h : dmlBound ts ≤ f) :
    parseDMLTop pe f ts ≠ .outOfFuel ∧ parseDMLsTop pe f ts ≠ .outOfFuel ∧
    parseStatementTop pe f ts ≠ .outOfFuel ∧ parseStatementsTop pe f ts ≠ .outOfFuel :=
  ⟨(finish_of_fine (parseDML_fine hpe h)).1, (finish_of_fine (parseDMLs_fine hpe h)).1,
    (finish_of_fine (parseStatement_fine hpe h)).1, (finish_of_fine (parseStatements_fine hpe h)).1⟩

/-- … and do not crash on token lists whose numeric tokens are non-empty (lexer output) -/
theorem dmlTops_ne_crash (hpe : PeFine pe) {f : Nat} {ts : List Token} (h : dmlBound ts ≤ f) (hn : NumOK ts) :
    parseDMLTop pe f ts ≠ .crash ∧ parseDMLsTop pe f ts ≠ .crash ∧
    parseStatementTop pe f ts ≠ .crash ∧ parseStatementsTop pe f ts ≠ .crash :=
  ⟨(finish_of_fine (parseDML_fine hpe h)).2 hn, (finish_of_fine (parseDMLs_fine hpe h)).2 hn,
    (finish_of_fine (parseStatement_fine hpe h)).2 hn, (finish_of_fine (parseStatements_fine hpe h)).2 hn⟩

theorem parseDMLTop_le (hm : PeMono pe) (f : Nat) (ts : List Token) : Le (parseDMLTop pe f ts) (parseDMLTop pe (f + 1) ts) :=
  finish_le (parseDML_le hm f ts)
theorem parseDMLsTop_le (hm : PeMono pe) (f : Nat) (ts : List Token) :
    Le (parseDMLsTop pe f ts) (parseDMLsTop pe (f + 1) ts) :=
  finish_le (stmtsLoop_le (parseDML_le hm) f ts)
theorem parseStatementTop_le (hm : PeMono pe) (f : Nat) (ts : List Token) :
    Le (parseStatementTop pe f ts) (parseStatementTop pe (f + 1) ts) :=
  finish_le (parseStatement_le hm f ts)
theorem parseStatementsTop_le (hm : PeMono pe) (f : Nat) (ts : List Token) :
    Le (parseStatementsTop pe f ts) (parseStatementsTop pe (f + 1) ts) :=
  finish_le (stmtsLoop_le (parseStatement_le hm) f ts)

end

/-- from "never out of fuel above the bound" and monotonicity: the answer does not depend on the fuel -/
theorem stable_of {α : Type} {p : Nat → Res α} {b : Nat} (hle : ∀ f, Le (p f) (p (f + 1)))
    (hne : ∀ f, b ≤ f → p f ≠ .outOfFuel) {f g : Nat} (hf : b ≤ f) (hg : b ≤ g) : p f = p g := by
  have e1 := (le_of_le (p := p) hle hf).eq rfl (hne b (Nat.le_refl _))
  have e2 := (le_of_le (p := p) hle hg).eq rfl (hne b (Nat.le_refl _))
  rw [e1, e2]

section
variable {ε : Type} {pe : Nat → List Token → Res (ε × List Token)}

/-- **fuel stability of the four DML entry points** -/
theorem dmlTops_stable (hpe : PeFine pe) (hm : PeMono pe) {f g : Nat} {ts : List Token}
    (hf : dmlBound ts ≤ f) (hg : dmlBound ts ≤ g) :
    parseDMLTop pe f ts = parseDMLTop pe g ts ∧ parseDMLsTop pe f ts = parseDMLsTop pe g ts ∧
    parseStatementTop pe f ts = parseStatementTop pe g ts ∧ parseStatementsTop pe f ts = parseStatementsTop pe g ts :=
  ⟨stable_of (p := fun f => parseDMLTop pe f ts) (fun f => parseDMLTop_le hm f ts) (fun _ h => (dmlTops_ne_oof hpe h).1) hf hg,
   stable_of (p := fun f => parseDMLsTop pe f ts) (fun f => parseDMLsTop_le hm f ts) (fun _ h => (dmlTops_ne_oof hpe h).2.1) hf hg,
   stable_of (p := fun f => parseStatementTop pe f ts) (fun f => parseStatementTop_le hm f ts)
     (fun _ h => (dmlTops_ne_oof hpe h).2.2.1) hf hg,
   stable_of (p := fun f => parseStatementsTop pe f ts) (fun f => parseStatementsTop_le hm f ts)
     (fun _ h => (dmlTops_ne_oof hpe h).2.2.2) hf hg⟩

end

end MF.DML
