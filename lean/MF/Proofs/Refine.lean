import MF.Proofs.RefineTrivia
import MF.Proofs.RefineToken
namespace MF.Refine
open MF MF.Lex MF.Spec.Lexical
set_option linter.unusedSimpArgs false

/-! ### C14: the lexer model refines the reference lexer -/

set_option linter.unusedSimpArgs false

theorem core_refines (buf : Bytes) (s : Lex.State) (hp : s.pos ≤ buf.length) :
    match nextTokenCore buf false s, next (buf.drop s.pos) s.tok.kind s.dotIdent with
    | .ok s', .tok w t => s'.tok.pos = s.pos + w ∧ s'.tok.end = s.pos + w + t.len ∧ s'.pos = s'.tok.end ∧
        s'.tok.kind = t.kind ∧ s'.tok.asString = t.value ∧ s'.tok.base = t.base ∧
        s'.dotIdent = dotAfter s.tok.kind s.dotIdent t
    | .err _, .reject => True
    | _, _ => False := by
  have htr := triviaLoop_refines buf (buf.length + 2) ((buf.drop s.pos).length + 1) s.pos [] hp (by omega)
    (by simp only [List.length_drop]; omega)
  unfold nextTokenCore next
  simp only
  revert htr
  cases htl : triviaLoop buf false (buf.length + 2) s.pos [] with
  | crash => cases triviaLen ((buf.drop s.pos).length + 1) (buf.drop s.pos) <;> simp
  | err e => cases triviaLen ((buf.drop s.pos).length + 1) (buf.drop s.pos) <;> simp
  | ok r =>
    obtain ⟨pos, comments, space, he⟩ := r
    cases triviaLen ((buf.drop s.pos).length + 1) (buf.drop s.pos) with
    | none => simp
    | some w =>
      simp only
      intro ⟨hpos, hhe⟩
      subst hhe hpos
      simp only [Bool.false_eq_true, if_false, List.drop_drop]
      have inv := triviaLoop_ok (p0 := s.pos) htl (by simp [CommentsOK]) (by simp [lastEnd])
      have hle : s.pos + w ≤ buf.length := inv.2.2.2.1
      have htk := token_refines (buf.drop (s.pos + w)) (s.pos + w) s.tok.kind s.dotIdent
      revert htk
      cases hsc : (if s.dotIdent = true then consumeFieldToken (buf.drop (s.pos + w)) (s.pos + w) s.tok.kind false
          else consumeToken (buf.drop (s.pos + w)) (s.pos + w) s.tok.kind false) with
      | crash => cases token (buf.drop (s.pos + w)) s.tok.kind s.dotIdent <;> simp
      | err e => cases token (buf.drop (s.pos + w)) s.tok.kind s.dotIdent <;> simp
      | ok sc =>
        have hok : ScanOK (buf.drop (s.pos + w)) sc := by
          split at hsc
          · exact consumeFieldToken_ok hsc
          · exact consumeToken_ok hsc
        have hl := hok.le
        simp only [List.length_drop] at hl
        cases token (buf.drop (s.pos + w)) s.tok.kind s.dotIdent with
        | none => simp
        | some t =>
          simp only
          intro ⟨h1, h2, h3, h4, h5⟩
          rw [slice?_of_le (Nat.le_add_right _ _) (by omega)]
          simp only
          refine ⟨by trivial, by rw [h2], by trivial, h1, h3, h4, h5⟩

set_option linter.unusedSimpArgs false

/-- C14, one step: from any lexer state inside the buffer, the model in panic mode and the reference lexer agree on
accept/reject, and on acceptance on the token's kind, extent, decoded value, base, and on the next dot-identifier mode -/
theorem step_refines (buf : Bytes) (s : Lex.State) (hp : s.pos ≤ buf.length) :
    match Lex.nextToken buf false s, Spec.Lexical.next (buf.drop s.pos) s.tok.kind s.dotIdent with
    | .ok s', .tok w t => s'.tok.pos = s.pos + w ∧ s'.tok.end = s.pos + w + t.len ∧ s'.pos = s'.tok.end ∧
                           s'.tok.kind = t.kind ∧ s'.tok.asString = t.value ∧ s'.tok.base = t.base ∧
                           s'.dotIdent = Spec.Lexical.dotAfter s.tok.kind s.dotIdent t
    | .err _, .reject => True
    | _, _ => False := by
  have hcore := core_refines buf s hp
  have hnc := nextToken_ne_crash (np := false) hp
  revert hcore hnc
  unfold nextToken
  cases nextTokenCore buf false s with
  | crash => simp
  | ok s' => exact fun h _ => h
  | err e0 =>
    simp only
    cases File.position buf (clampErr buf e0).pos (clampErr buf e0).end with
    | none => simp
    | some _ =>
      simp only
      intro h _
      revert h
      cases next (buf.drop s.pos) s.tok.kind s.dotIdent <;> simp

set_option linter.unusedSimpArgs false

/-- the record the reference lexer keeps of a token -/
def toRec (t : Token) : Rec := ⟨t.kind, t.pos, t.end, t.asString, t.base⟩

theorem lexAllFrom_refines (buf : Bytes) (fuel : Nat) (s : Lex.State) (acc : List Token) (racc : List Rec)
    (hp : s.pos ≤ buf.length) (hf : buf.length < fuel + s.pos) (hacc : racc = acc.map toRec) :
    match lexAllFrom buf fuel s acc, Spec.Lexical.lexAll.go buf fuel s.pos s.tok.kind s.dotIdent racc with
    | .ok ts, some rs => rs = ts.map toRec
    | .err _ _, none => True
    | _, _ => False := by
  induction fuel generalizing s acc racc with
  | zero => omega
  | succ fuel ih =>
    simp only [lexAllFrom, Spec.Lexical.lexAll.go]
    have hs := step_refines buf s hp
    revert hs
    cases hnt : nextToken buf false s with
    | crash => cases next (buf.drop s.pos) s.tok.kind s.dotIdent <;> simp
    | err e => cases next (buf.drop s.pos) s.tok.kind s.dotIdent <;> simp
    | ok s' =>
      cases next (buf.drop s.pos) s.tok.kind s.dotIdent with
      | reject => simp
      | tok w t =>
        simp only
        intro ⟨h1, h2, h3, h4, h5, h6, h7⟩
        have fr := nextToken_frame hnt
        have pg := nextToken_progress hnt hp
        have hrec : (⟨t.kind, s.pos + w, s.pos + w + t.len, t.value, t.base⟩ : Rec) = toRec s'.tok := by
          simp only [toRec, h1, h2, h4, h5, h6]
        rw [hrec, ← h4]
        by_cases hk : (s'.tok.kind == TokKind.eof) = true
        · simp only [hk, if_true]
          simp [hacc]
        · simp only [hk, if_false]
          have hk' : s'.tok.kind ≠ .eof := by simpa using hk
          have hlt := pg.2.2.1 hk'
          have := ih s' (s'.tok :: acc) (toRec s'.tok :: racc) fr.le_len (by omega) (by simp [hacc])
          rw [← h2, ← h3, ← h7]
          exact this

/-- C14, whole input: same accept/reject, same token records -/
theorem lexAll_refines (buf : Bytes) :
    match Lex.lexAll buf, Spec.Lexical.lexAll buf with
    | .ok ts, some rs => rs = ts.map (fun t => ⟨t.kind, t.pos, t.end, t.asString, t.base⟩)
    | .err _ _, none => True
    | _, _ => False := by
  have := lexAllFrom_refines buf (buf.length + 2) Lex.init [] [] (by simp [Lex.init]) (by simp [Lex.init]) rfl
  exact this

end MF.Refine
