/-
  MF.Proofs.LexAppend — forward extension for the reference lexer: a step that ends strictly inside the input `R`
  (at least one more byte of `R` follows the token) is the same step on `R ++ W`, for every `W`
  (`next_append`).  One lemma per recogniser: `run`, white space, comments, trivia (with fuel independence),
  `number`, `literalPrefix`, `delimiter`, `body` (quoted content), punctuation, and `token`.
-/
import MF.Proofs.LexNumCtx
import MF.Proofs.LexQuoteCtx
set_option linter.unusedSimpArgs false
namespace MF.Concat
open MF MF.Lex MF.Spec.Lexical

/-! ## `run` -/

theorem run_append_lt {p : UInt8 → Bool} {R : Bytes} (h : run p R < R.length) (W : Bytes) :
    run p (R ++ W) = run p R := by
  induction R with
  | nil => simp at h
  | cons c t ih =>
    by_cases hc : p c = true
    · simp only [run, hc, if_true, List.length_cons] at h
      simp only [List.cons_append, run, hc, if_true]
      rw [ih (by omega)]
    · simp [run, hc]

/-! ## `startsWith`, `findAfter` -/

theorem startsWith_append {s pat : Bytes} (h : pat.length ≤ s.length) (W : Bytes) :
    startsWith (s ++ W) pat = startsWith s pat := by
  unfold startsWith
  rw [List.take_append_of_le_length h]

theorem startsWith_true_len {s pat : Bytes} (h : startsWith s pat = true) : pat.length ≤ s.length := by
  unfold startsWith at h
  have : s.take pat.length = pat := by simpa using h
  have := congrArg List.length this
  rw [List.length_take] at this
  omega

theorem startsWith_true_append {s pat : Bytes} (h : startsWith s pat = true) (W : Bytes) :
    startsWith (s ++ W) pat = true := by
  rw [startsWith_append (startsWith_true_len h)]; exact h

theorem findAfter_some_len {pat t : Bytes} {m : Nat} (hf : findAfter pat t = some m) : pat.length ≤ t.length := by
  induction t generalizing m with
  | nil => simp [findAfter] at hf
  | cons d u ihu =>
    simp only [findAfter] at hf
    by_cases hs2 : startsWith (d :: u) pat = true
    · exact startsWith_true_len hs2
    · rw [if_neg hs2] at hf
      cases hf2 : findAfter pat u with
      | none => rw [hf2] at hf; simp at hf
      | some m2 => have := ihu hf2; simp only [List.length_cons]; omega

theorem findAfter_append {pat s : Bytes} {n : Nat} (h : findAfter pat s = some n) (W : Bytes) :
    findAfter pat (s ++ W) = some n := by
  induction s generalizing n with
  | nil => simp [findAfter] at h
  | cons c t ih =>
    simp only [findAfter] at h
    rw [List.cons_append]
    by_cases hs : startsWith (c :: t) pat = true
    · rw [if_pos hs] at h
      have := startsWith_true_append hs W
      rw [List.cons_append] at this
      simp only [findAfter, this, if_true]
      exact h
    · rw [if_neg hs] at h
      cases hf : findAfter pat t with
      | none => rw [hf] at h; simp at h
      | some m =>
        rw [hf] at h
        have hm : pat.length ≤ t.length := findAfter_some_len hf
        have hs' : startsWith (c :: (t ++ W)) pat = false := by
          rw [← List.cons_append, startsWith_append (by simp only [List.length_cons]; omega)]
          simpa using hs
        simp only [findAfter, hs', Bool.false_eq_true, if_false, ih hf]
        exact h

/-! ## white space -/

theorem whiteLen_le (f : Nat) (R : Bytes) : whiteLen f R ≤ R.length := by
  induction f generalizing R with
  | zero => exact Nat.zero_le _
  | succ f ih =>
    cases R with
    | nil => exact Nat.zero_le _
    | cons c t =>
      rw [whiteLen_cons]
      split
      · have h1 := (decodeRune_size (c :: t)).1
        have h2 := ih ((c :: t).drop (Utf8.decodeRune (c :: t)).2)
        simp only [List.length_drop] at h2
        omega
      · omega

/-- white space that ends strictly inside `R`, at an ASCII byte, is not changed by appending to `R` (nor by the fuel) -/
theorem whiteLen_append {f : Nat} : ∀ {f' : Nat} {R : Bytes}, whiteLen f R < R.length → R.length < f →
    (∀ c, (R.drop (whiteLen f R)).head? = some c → c.toNat < 0x80) → ∀ (W : Bytes), (R ++ W).length < f' →
    whiteLen f' (R ++ W) = whiteLen f R := by
  induction f with
  | zero => intro f' R _ hf; omega
  | succ f ih =>
    intro f' R hlt hf hascii W hf'
    cases f' with
    | zero => omega
    | succ f' =>
      cases R with
      | nil => simp at hlt
      | cons c t =>
        rw [List.cons_append, whiteLen_cons, whiteLen_cons]
        rw [whiteLen_cons] at hlt hascii
        have hsz := decodeRune_size (c :: t)
        rcases decodeRune_take (c :: (t ++ W)) (c :: t).length with hd | ⟨hd1, hd2⟩
        · have hd' : Utf8.decodeRune (c :: (t ++ W)) = Utf8.decodeRune (c :: t) := by
            rw [← hd, ← List.cons_append, List.take_left']
            rfl
          rw [hd']
          by_cases hw : (isWhite (Utf8.decodeRune (c :: t)).1 && decide ((Utf8.decodeRune (c :: t)).2 > 0)) = true
          · simp only [if_pos hw] at hlt hascii ⊢
            have hdr : (c :: (t ++ W)).drop (Utf8.decodeRune (c :: t)).2 =
                (c :: t).drop (Utf8.decodeRune (c :: t)).2 ++ W := by
              rw [← List.cons_append, List.drop_append_of_le_length hsz.1]
            rw [hdr]
            have hpos := hsz.2 (by simp)
            rw [ih (R := (c :: t).drop (Utf8.decodeRune (c :: t)).2)
              (by simp only [List.length_drop]; simp only [List.length_cons] at hlt ⊢; omega)
              (by simp only [List.length_drop]; simp only [List.length_cons] at hf ⊢; omega)
              (by
                intro x hx
                apply hascii x
                rw [← hx, List.drop_drop])
              W
              (by simp only [List.length_append, List.length_drop, List.length_cons] at hf' ⊢; omega)]
          · simp only [if_neg hw]
        · -- the truncated input decodes to RuneError: no white space at all, and the next byte is ASCII
          exfalso
          rw [← List.cons_append, List.take_left'] at hd1
          · have hnw : (isWhite (Utf8.decodeRune (c :: t)).1 && decide ((Utf8.decodeRune (c :: t)).2 > 0)) = false := by
              rw [hd1]; simp [isSpace_runeError, ← MF.Refine.isSpace_eq]
            rw [hnw] at hascii
            simp only [Bool.false_eq_true, if_false, List.drop_zero, List.head?_cons, Option.some.injEq,
              forall_eq'] at hascii
            have := decodeRune_ascii (t ++ W) hascii
            rw [this] at hd2
            simp only [List.length_cons] at hd2
            omega
          · rfl

theorem whiteLen_fuel {f f' : Nat} {R : Bytes} (hf : R.length < f) (hf' : R.length < f') :
    whiteLen f' R = whiteLen f R := by
  induction f generalizing f' R with
  | zero => omega
  | succ f ih =>
    cases f' with
    | zero => omega
    | succ f' =>
      cases R with
      | nil => rfl
      | cons c t =>
        rw [whiteLen_cons, whiteLen_cons]
        have hsz := decodeRune_size (c :: t)
        have hpos := hsz.2 (by simp)
        split
        · rw [ih (by simp only [List.length_drop]; simp only [List.length_cons] at hf ⊢; omega)
            (by simp only [List.length_drop]; simp only [List.length_cons] at hf' ⊢; omega)]
        · rfl

/-! ## comments -/

theorem comment_append {S : Bytes} (h2 : 2 ≤ S.length) (hc : ∀ n, comment S = .len n → n < S.length)
    (hu : comment S ≠ .unclosed) (W : Bytes) : comment (S ++ W) = comment S := by
  unfold comment at hc hu ⊢
  rw [startsWith_append (by simpa using (by omega : 1 ≤ S.length)), startsWith_append (by simpa using h2),
    startsWith_append (by simpa using h2), startsWith_append (by simpa using h2)]
  by_cases h1 : (startsWith S [35] || startsWith S [45, 45] || startsWith S [47, 47]) = true
  · simp only [if_pos h1] at hc ⊢
    cases hf : findAfter [10] S with
    | some n => rw [findAfter_append hf]
    | none =>
      rw [hf] at hc
      exact absurd (hc S.length rfl) (Nat.lt_irrefl _)
  · simp only [if_neg h1] at hc hu ⊢
    by_cases h3 : startsWith S [47, 42] = true
    · simp only [if_pos h3] at hc hu ⊢
      rw [List.drop_append_of_le_length h2]
      cases hf : findAfter [42, 47] (S.drop 2) with
      | some n => rw [findAfter_append hf]
      | none => rw [hf] at hu; exact absurd rfl hu
    · simp only [if_neg h3]

/-- a comment starts with an ASCII byte -/
theorem comment_head_ascii {S : Bytes} (h : comment S ≠ .none) : ∃ c t, S = c :: t ∧ c.toNat < 0x80 := by
  cases S with
  | nil => exact absurd (by simp [comment, startsWith]) h
  | cons c t =>
    refine ⟨c, t, rfl, ?_⟩
    unfold comment at h
    by_cases h1 : (startsWith (c :: t) [35] || startsWith (c :: t) [45, 45] || startsWith (c :: t) [47, 47]) = true
    · simp only [startsWith, List.length_cons, List.length_nil, List.take_succ_cons, List.take_zero,
        Bool.or_eq_true, beq_iff_eq, List.cons.injEq, and_true] at h1
      rcases h1 with (h1 | h1) | h1
      · rw [h1]; decide
      · cases t with
        | nil => simp at h1
        | cons d u => simp only [List.take_succ_cons, List.take_zero, List.cons.injEq] at h1; rw [h1.1]; decide
      · cases t with
        | nil => simp at h1
        | cons d u => simp only [List.take_succ_cons, List.take_zero, List.cons.injEq] at h1; rw [h1.1]; decide
    · rw [if_neg h1] at h
      by_cases h3 : startsWith (c :: t) [47, 42] = true
      · simp only [startsWith, List.length_cons, List.length_nil, List.take_succ_cons, beq_iff_eq] at h3
        cases t with
        | nil => simp at h3
        | cons d u => simp only [List.take_succ_cons, List.take_zero, List.cons.injEq] at h3; rw [h3.1]; decide
      · rw [if_neg h3] at h
        exact absurd rfl h

/-! ## trivia -/

/-- trivia that is followed, inside `R`, by at least two more bytes, the first of them ASCII (a token starts there),
is not changed by appending to `R` (nor by the fuel) -/
theorem triviaLen_append {F : Nat} : ∀ {F' : Nat} {R : Bytes} {w : Nat}, triviaLen F R = some w → R.length < F →
    w + 2 ≤ R.length → (∀ c, (R.drop w).head? = some c → c.toNat < 0x80) → ∀ (W : Bytes), (R ++ W).length < F' →
    triviaLen F' (R ++ W) = some w := by
  induction F with
  | zero => intro F' R w _ hF; omega
  | succ F ih =>
    intro F' R w h hF hw hascii W hF'
    cases F' with
    | zero => omega
    | succ F' =>
      simp only [triviaLen] at h ⊢
      have hwl := whiteLen_le (R.length + 1) R
      cases hcm : comment (R.drop (whiteLen (R.length + 1) R)) with
      | unclosed => simp only [hcm] at h; cases h
      | none =>
        simp only [hcm, Option.some.injEq] at h
        subst h
        have hwa := whiteLen_append (f := R.length + 1) (f' := (R ++ W).length + 1) (R := R) (by omega) (by omega)
          hascii W (by omega)
        rw [hwa, List.drop_append_of_le_length hwl, comment_append (by simp only [List.length_drop]; omega)
          (by rw [hcm]; intro n hn; cases hn) (by rw [hcm]; simp) W]
        simp only [hcm]
      | len n =>
        simp only [hcm] at h
        obtain ⟨c0, t0, hd0, hc0⟩ := comment_head_ascii (S := R.drop (whiteLen (R.length + 1) R)) (by rw [hcm]; simp)
        have hlt0 : whiteLen (R.length + 1) R < R.length := by
          have := congrArg List.length hd0
          simp only [List.length_drop, List.length_cons] at this
          omega
        have hwa := whiteLen_append (f := R.length + 1) (f' := (R ++ W).length + 1) (R := R) hlt0 (by omega)
          (by intro x hx; rw [hd0] at hx; simp only [List.head?_cons, Option.some.injEq] at hx; rw [← hx]; exact hc0)
          W (by omega)
        by_cases hn0 : (n == 0) = true
        · rw [if_pos hn0] at h
          simp only [Option.some.injEq] at h
          subst h
          have hn00 : n = 0 := by simpa using hn0
          rw [hwa, List.drop_append_of_le_length hwl, comment_append (by simp only [List.length_drop]; omega)
            (by rw [hcm]; intro m hm; cases hm; simp only [List.length_drop]; omega) (by rw [hcm]; simp) W]
          simp only [hcm, if_pos hn0]
        · rw [if_neg hn0] at h
          have hn1 : 1 ≤ n := by
            have : n ≠ 0 := by simpa using hn0
            omega
          cases hin : triviaLen F (R.drop (whiteLen (R.length + 1) R + n)) with
          | none => rw [hin] at h; cases h
          | some w1 =>
            rw [hin] at h
            simp only [Option.map_some, Option.some.injEq] at h
            rw [hwa, List.drop_append_of_le_length hwl, comment_append (by simp only [List.length_drop]; omega)
              (by rw [hcm]; intro m hm; cases hm; simp only [List.length_drop]; omega) (by rw [hcm]; simp) W]
            simp only [hcm, if_neg hn0]
            rw [List.drop_append_of_le_length (by omega),
              ih (R := R.drop (whiteLen (R.length + 1) R + n)) hin (by simp only [List.length_drop]; omega)
              (by simp only [List.length_drop]; omega)
              (by
                intro x hx
                apply hascii x
                rw [List.drop_drop] at hx
                rw [← hx, ← h]
                congr 2
                omega) W
              (by simp only [List.length_append, List.length_drop] at hF' ⊢; omega)]
            simp only [Option.map_some, h]

/-! ## quoted content -/

theorem body_some_facts {q : Bytes} {raw ib : Bool} {fuel : Nat} : ∀ {s acc : Bytes} {n : Nat} {r : Bytes × Nat},
    body q raw ib fuel s acc n = some r → q.length ≤ s.length ∧ n + q.length ≤ r.2 := by
  induction fuel with
  | zero => intro s acc n r h; simp [body] at h
  | succ fuel ih =>
    intro s acc n r h
    cases s with
    | nil => simp [body] at h
    | cons c t =>
      unfold body at h
      simp only [] at h
      by_cases c1 : startsWith (c :: t) q = true
      · simp only [if_pos c1, Option.some.injEq] at h
        subst h
        exact ⟨startsWith_true_len c1, Nat.le_refl _⟩
      · simp only [if_neg c1] at h
        have step : ∀ {s' acc' : Bytes} {n' : Nat}, body q raw ib fuel s' acc' n' = some r → s'.length ≤ t.length →
            n ≤ n' → q.length ≤ (c :: t).length ∧ n + q.length ≤ r.2 := by
          intro s' acc' n' h' hl hn
          have := ih h'
          simp only [List.length_cons]; omega
        by_cases c2 : (c == 92) = true
        · simp only [if_pos c2] at h
          cases t with
          | nil => cases h
          | cons e u =>
            simp only [] at h
            have hu : u.length ≤ (e :: u).length := by simp
            have hd : ∀ k, (u.drop k).length ≤ (e :: u).length := by
              intro k; simp only [List.length_drop, List.length_cons]; omega
            by_cases r1 : raw = true
            · simp only [if_pos r1] at h; exact step h hu (by omega)
            simp only [if_neg r1] at h
            by_cases e1 : (e == 97) = true
            · simp only [if_pos e1] at h; exact step h hu (by omega)
            simp only [if_neg e1] at h
            by_cases e2 : (e == 98) = true
            · simp only [if_pos e2] at h; exact step h hu (by omega)
            simp only [if_neg e2] at h
            by_cases e3 : (e == 102) = true
            · simp only [if_pos e3] at h; exact step h hu (by omega)
            simp only [if_neg e3] at h
            by_cases e4 : (e == 110) = true
            · simp only [if_pos e4] at h; exact step h hu (by omega)
            simp only [if_neg e4] at h
            by_cases e5 : (e == 114) = true
            · simp only [if_pos e5] at h; exact step h hu (by omega)
            simp only [if_neg e5] at h
            by_cases e6 : (e == 116) = true
            · simp only [if_pos e6] at h; exact step h hu (by omega)
            simp only [if_neg e6] at h
            by_cases e7 : (e == 118) = true
            · simp only [if_pos e7] at h; exact step h hu (by omega)
            simp only [if_neg e7] at h
            by_cases e8 : (e == 92 || e == 63 || e == 34 || e == 39 || e == 96) = true
            · simp only [if_pos e8] at h; exact step h hu (by omega)
            simp only [if_neg e8] at h
            by_cases e9 : (e == 120 || e == 88) = true
            · simp only [if_pos e9] at h
              by_cases g : ((List.take 2 u).length == 2 && (List.take 2 u).all isHex) = true
              · simp only [if_pos g] at h; exact step h (hd _) (by omega)
              · simp only [if_neg g] at h; cases h
            simp only [if_neg e9] at h
            by_cases e10 : (e == 117 || e == 85) = true
            · simp only [if_pos e10] at h
              by_cases i1 : ib = true
              · simp only [if_pos i1] at h; cases h
              simp only [if_neg i1] at h
              generalize hkk : (if (e == 85) = true then 8 else 4) = kk at h
              by_cases g : ((List.take kk u).length == kk && (List.take kk u).all isHex) = true
              · simp only [if_pos g] at h
                by_cases hsur : (decide (55296 ≤ hexNum (List.take kk u) 0) && decide (hexNum (List.take kk u) 0 ≤ 57343) ||
                    decide (hexNum (List.take kk u) 0 > 1114111)) = true
                · simp only [if_pos hsur] at h; cases h
                · simp only [if_neg hsur] at h; exact step h (hd _) (by omega)
              · simp only [if_neg g] at h; cases h
            simp only [if_neg e10] at h
            by_cases e11 : (decide (48 ≤ e) && decide (e ≤ 51)) = true
            · simp only [if_pos e11] at h
              by_cases g : ((List.take 2 u).length == 2 && (List.take 2 u).all isOct) = true
              · simp only [if_pos g] at h; exact step h (hd _) (by omega)
              · simp only [if_neg g] at h; cases h
            · simp only [if_neg e11] at h; cases h
        · simp only [if_neg c2] at h
          by_cases c3 : (c == 10 && q.length == 1) = true
          · simp only [if_pos c3] at h; cases h
          · simp only [if_neg c3] at h; exact step h (Nat.le_refl _) (by omega)

/-- quoted content that is closed inside `s` is scanned identically on `s ++ W` (and with more fuel) -/
theorem body_some_len {q : Bytes} {raw ib : Bool} {fuel : Nat} {s acc : Bytes} {n : Nat} {r : Bytes × Nat}
    (h : body q raw ib fuel s acc n = some r) : q.length ≤ s.length := (body_some_facts h).1

theorem body_append {q : Bytes} {raw ib : Bool} {fuel : Nat} : ∀ {fuel' : Nat} {s acc : Bytes} {n : Nat}
    {r : Bytes × Nat}, body q raw ib fuel s acc n = some r → fuel ≤ fuel' → ∀ (W : Bytes),
    body q raw ib fuel' (s ++ W) acc n = some r := by
  induction fuel with
  | zero => intro fuel' s acc n r h; simp [body] at h
  | succ fuel ih =>
    intro fuel' s acc n r h hf W
    obtain ⟨f', rfl⟩ : ∃ f', fuel' = f' + 1 := ⟨fuel' - 1, by omega⟩
    have hf' : fuel ≤ f' := by omega
    have hql := body_some_len h
    cases s with
    | nil => simp [body] at h
    | cons c t =>
      rw [List.cons_append]
      unfold body at h ⊢
      simp only [] at h ⊢
      by_cases c1 : startsWith (c :: t) q = true
      · have c1' := startsWith_true_append c1 W
        rw [List.cons_append] at c1'
        simp only [if_pos c1] at h
        simp only [if_pos c1']
        exact h
      · have c1' : ¬ startsWith (c :: (t ++ W)) q = true := by
          rw [← List.cons_append, startsWith_append hql]; exact c1
        simp only [if_neg c1] at h
        simp only [if_neg c1']
        by_cases c2 : (c == 92) = true
        · simp only [if_pos c2] at h ⊢
          cases t with
          | nil => cases h
          | cons e u =>
            simp only [List.cons_append] at h ⊢
            have tk : ∀ k, ((List.take k u).length == k) = true → List.take k (u ++ W) = List.take k u ∧
                List.drop k (u ++ W) = List.drop k u ++ W := by
              intro k hk
              have hk' : k ≤ u.length := by
                have : (List.take k u).length = k := by simpa using hk
                rw [List.length_take] at this; omega
              exact ⟨List.take_append_of_le_length hk', List.drop_append_of_le_length hk'⟩
            by_cases r1 : raw = true
            · simp only [if_pos r1] at h ⊢; exact ih h hf' W
            simp only [if_neg r1] at h ⊢
            by_cases e1 : (e == 97) = true
            · simp only [if_pos e1] at h ⊢; exact ih h hf' W
            simp only [if_neg e1] at h ⊢
            by_cases e2 : (e == 98) = true
            · simp only [if_pos e2] at h ⊢; exact ih h hf' W
            simp only [if_neg e2] at h ⊢
            by_cases e3 : (e == 102) = true
            · simp only [if_pos e3] at h ⊢; exact ih h hf' W
            simp only [if_neg e3] at h ⊢
            by_cases e4 : (e == 110) = true
            · simp only [if_pos e4] at h ⊢; exact ih h hf' W
            simp only [if_neg e4] at h ⊢
            by_cases e5 : (e == 114) = true
            · simp only [if_pos e5] at h ⊢; exact ih h hf' W
            simp only [if_neg e5] at h ⊢
            by_cases e6 : (e == 116) = true
            · simp only [if_pos e6] at h ⊢; exact ih h hf' W
            simp only [if_neg e6] at h ⊢
            by_cases e7 : (e == 118) = true
            · simp only [if_pos e7] at h ⊢; exact ih h hf' W
            simp only [if_neg e7] at h ⊢
            by_cases e8 : (e == 92 || e == 63 || e == 34 || e == 39 || e == 96) = true
            · simp only [if_pos e8] at h ⊢; exact ih h hf' W
            simp only [if_neg e8] at h ⊢
            by_cases e9 : (e == 120 || e == 88) = true
            · simp only [if_pos e9] at h ⊢
              by_cases g : ((List.take 2 u).length == 2 && (List.take 2 u).all isHex) = true
              · simp only [if_pos g] at h
                have g' := g
                simp only [Bool.and_eq_true] at g'
                obtain ⟨t1, t2⟩ := tk 2 g'.1
                rw [t1, t2]
                simp only [if_pos g]
                exact ih h hf' W
              · simp only [if_neg g] at h; cases h
            simp only [if_neg e9] at h ⊢
            by_cases e10 : (e == 117 || e == 85) = true
            · simp only [if_pos e10] at h ⊢
              by_cases i1 : ib = true
              · simp only [if_pos i1] at h; cases h
              simp only [if_neg i1] at h ⊢
              generalize hkk : (if (e == 85) = true then 8 else 4) = kk at h ⊢
              by_cases g : ((List.take kk u).length == kk && (List.take kk u).all isHex) = true
              · simp only [if_pos g] at h
                have g' := g
                simp only [Bool.and_eq_true] at g'
                obtain ⟨t1, t2⟩ := tk kk g'.1
                rw [t1, t2]
                simp only [if_pos g]
                by_cases hsur : (decide (55296 ≤ hexNum (List.take kk u) 0) && decide (hexNum (List.take kk u) 0 ≤ 57343) ||
                    decide (hexNum (List.take kk u) 0 > 1114111)) = true
                · simp only [if_pos hsur] at h; cases h
                · simp only [if_neg hsur] at h ⊢
                  exact ih h hf' W
              · simp only [if_neg g] at h; cases h
            simp only [if_neg e10] at h ⊢
            by_cases e11 : (decide (48 ≤ e) && decide (e ≤ 51)) = true
            · simp only [if_pos e11] at h ⊢
              by_cases g : ((List.take 2 u).length == 2 && (List.take 2 u).all isOct) = true
              · simp only [if_pos g] at h
                have g' := g
                simp only [Bool.and_eq_true] at g'
                obtain ⟨t1, t2⟩ := tk 2 g'.1
                rw [t1, t2]
                simp only [if_pos g]
                exact ih h hf' W
              · simp only [if_neg g] at h; cases h
            · simp only [if_neg e11] at h; cases h
        · simp only [if_neg c2] at h ⊢
          by_cases c3 : (c == 10 && q.length == 1) = true
          · simp only [if_pos c3] at h; cases h
          · simp only [if_neg c3] at h ⊢
            exact ih h hf' W

/-! ## numbers -/

/-- after a decimal integer of at least one digit the next byte is not `.` -/
theorem int10_next_not_dot {R : Bytes} {n : Nat} (h : number R = (.int10, n)) (h1 : 1 ≤ n) (hlt : n < R.length) :
    headSat (· == 46) (R.drop n) = false := by
  rw [number_eq] at h
  by_cases hh : hexD R > 0
  · rw [if_pos hh] at h; cases h
  · rw [if_neg hh] at h
    cases hd : R.drop (run isDigit R) with
    | nil =>
      rw [decPart_nil_branch hd] at h
      cases h
      have := congrArg List.length hd
      simp only [List.length_drop, List.length_nil] at this
      omega
    | cons c t =>
      by_cases hc : (c == 46) = true
      · have : c = 46 := by simpa using hc
        subst this
        rw [decPart_dot_branch hd] at h
        split at h
        · cases h
        · cases h; omega
      · rw [decPart_exp_branch hd (Bool.eq_false_iff.2 hc)] at h
        split at h
        · cases h
        · cases h
          rw [hd]
          simpa using hc

/-- a numeric literal that ends strictly inside `R`, before a byte that is not an identifier character -/
theorem number_append_lt {R : Bytes} {k : NumKind} {n : Nat} (hn : number R = (k, n)) (h1 : 1 ≤ n)
    (hlt : n < R.length) (hid : headSat isIdentChar (R.drop n) = false) (W : Bytes) : number (R ++ W) = (k, n) := by
  have htk := number_take hn
  have hlen : (R.take n).length = n := by rw [List.length_take]; omega
  have hsplit : R ++ W = R.take n ++ (R.drop n ++ W) := by
    rw [← List.append_assoc, List.take_append_drop]
  have hne : ∃ x u, R.drop n = x :: u := by
    cases hd : R.drop n with
    | nil =>
      have := congrArg List.length hd
      simp only [List.length_drop, List.length_nil] at this
      omega
    | cons x u => exact ⟨x, u, rfl⟩
  obtain ⟨x, u, hxu⟩ := hne
  rw [hsplit, number_append (by rw [htk, hlen]) (by rw [hxu] at hid ⊢; exact hid), htk]
  intro h10
  rw [htk] at h10
  simp only at h10
  subst h10
  have := int10_next_not_dot hn h1 hlt
  rw [hxu] at this ⊢
  exact this

/-! ## prefixes, delimiters, punctuation -/

theorem literalPrefix_append3 {R : Bytes} (h : 3 ≤ R.length) (W : Bytes) : literalPrefix (R ++ W) = literalPrefix R := by
  match R, h with
  | a :: b :: c :: r, _ => rfl

theorem delimiter_append3 {R : Bytes} (h : 3 ≤ R.length) (W : Bytes) : delimiter (R ++ W) = delimiter R := by
  match R, h with
  | a :: b :: c :: r, _ => rfl

theorem puncts_len : ∀ p ∈ puncts, p.length ≤ 2 := by decide

theorem punctLen_append {R : Bytes} (h : 2 ≤ R.length) (W : Bytes) : punctLen (R ++ W) = punctLen R := by
  unfold punctLen
  apply find?_congr'
  intro p hp
  exact startsWith_append (Nat.le_trans (puncts_len p hp) h) W

theorem nonascii_facts : ∀ c : UInt8, 0x80 ≤ c.toNat →
    isIdentChar c = false ∧ (c == 46) = false ∧ isDigit c = false ∧ (c == 96) = false ∧ (c == 64) = false ∧
    (c == 34 || c == 39) = false ∧ (c == 82 || c == 114) = false ∧ (c == 66 || c == 98) = false ∧
    isLetter c = false ∧ ∀ p ∈ puncts, p.head? ≠ some c := by
  apply UInt8.forall_of_fin; decide +kernel

/-- every token starts with an ASCII byte -/
theorem token_head_ascii {c : UInt8} {s : Bytes} {lk : TokKind} {d : Bool} {t : STok}
    (h : token (c :: s) lk d = some t) : c.toNat < 0x80 := by
  by_cases hc : c.toNat < 0x80
  · exact hc
  · exfalso
    obtain ⟨f1, f2, f3, f4, f5, f6, f7, f8, f9, f10⟩ := nonascii_facts c (by omega)
    have hlp := MF.Refine.literalPrefix_none_of_first (c := c) (t := s) f6 f7 f8
    have hpl := MF.Refine.punctLen_none s f10
    unfold token at h
    simp only [f1, Bool.and_false, Bool.false_eq_true, if_false, f2, f3, f4, f5, hlp, f9, hpl] at h
    cases h

end MF.Concat
