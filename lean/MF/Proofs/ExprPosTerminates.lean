/-
  MF.Proofs.ExprPosTerminates — the termination theorems of MF/Proofs/ExprTerminates.lean transferred to the POSITIONED
  twin `parsePExpr … parsePLit` (MF/Model/ExprPos.lean) of the expression model.

   * never out of fuel with `exprFuel ts = 15 * |ts| + 15`: through the erasure theorem (`parseExpr_eq_erase`: the proved
     parser answers what the positioned parser answers with the positions erased, for all five kinds of result — so the
     positioned parser runs out of fuel exactly when the proved one does);
   * fuel monotonicity of the positioned parser (`PMonoAt`, new: one record over its 35 functions, by induction on the
     fuel, in the style of MF/Proofs/ExprMono.lean; the type of a CAST goes through `TypeP.mono_all`);
   * together: from the bound on the answer — the positioned TREE included — does not depend on the fuel.
-/
import MF.Proofs.ExprTerminates
import MF.Proofs.ExprPosErase
import MF.Proofs.TypeTerminates
namespace MF.Expr

/-! ## fuel monotonicity of the positioned parser -/

theorem castTypeP_le (f : Nat) (ts : List Token) : Le (castTypeP f ts) (castTypeP (f + 1) ts) := by
  unfold castTypeP
  split
  · split
    · exact Le.refl _
    · rcases (TypeP.mono_all f).type ts with h | h
      · left; rw [h]
      · rw [h]; exact Le.refl _
  all_goals exact Le.refl _

structure PMonoAt (f : Nat) : Prop where
  expr : ∀ ts, Le (parsePExpr f ts) (parsePExpr (f + 1) ts)
  or_ : ∀ ts, Le (parsePOr f ts) (parsePOr (f + 1) ts)
  orLoop : ∀ e ts, Le (orLoopP f e ts) (orLoopP (f + 1) e ts)
  and_ : ∀ ts, Le (parsePAnd f ts) (parsePAnd (f + 1) ts)
  andLoop : ∀ e ts, Le (andLoopP f e ts) (andLoopP (f + 1) e ts)
  not_ : ∀ ts, Le (parsePNot f ts) (parsePNot (f + 1) ts)
  cmp : ∀ ts, Le (parsePComparison f ts) (parsePComparison (f + 1) ts)
  btw : ∀ n e ts, Le (parsePBetweenTail f n e ts) (parsePBetweenTail (f + 1) n e ts)
  inCond : ∀ ts, Le (parsePInCondition f ts) (parsePInCondition (f + 1) ts)
  inList : ∀ ts, Le (inListLoopP f ts) (inListLoopP (f + 1) ts)
  bitOr : ∀ ts, Le (parsePBitOr f ts) (parsePBitOr (f + 1) ts)
  bitOrLoop : ∀ e ts, Le (bitOrLoopP f e ts) (bitOrLoopP (f + 1) e ts)
  bitXor : ∀ ts, Le (parsePBitXor f ts) (parsePBitXor (f + 1) ts)
  bitXorLoop : ∀ e ts, Le (bitXorLoopP f e ts) (bitXorLoopP (f + 1) e ts)
  bitAnd : ∀ ts, Le (parsePBitAnd f ts) (parsePBitAnd (f + 1) ts)
  bitAndLoop : ∀ e ts, Le (bitAndLoopP f e ts) (bitAndLoopP (f + 1) e ts)
  shift : ∀ ts, Le (parsePBitShift f ts) (parsePBitShift (f + 1) ts)
  shiftLoop : ∀ e ts, Le (shiftLoopP f e ts) (shiftLoopP (f + 1) e ts)
  add : ∀ ts, Le (parsePAddSub f ts) (parsePAddSub (f + 1) ts)
  addLoop : ∀ e ts, Le (addLoopP f e ts) (addLoopP (f + 1) e ts)
  mul : ∀ ts, Le (parsePMulDiv f ts) (parsePMulDiv (f + 1) ts)
  mulLoop : ∀ e ts, Le (mulLoopP f e ts) (mulLoopP (f + 1) e ts)
  unary : ∀ ts, Le (parsePUnary f ts) (parsePUnary (f + 1) ts)
  sel : ∀ ts, Le (parsePSelector f ts) (parsePSelector (f + 1) ts)
  selLoop : ∀ e ts, Le (selLoopP f e ts) (selLoopP (f + 1) e ts)
  idx : ∀ ts, Le (parsePIndexSpecifier f ts) (parsePIndexSpecifier (f + 1) ts)
  lit : ∀ ts, Le (parsePLit f ts) (parsePLit (f + 1) ts)
  paren : ∀ ts, Le (parsePParenExpr f ts) (parsePParenExpr (f + 1) ts)
  caseE : ∀ ts, Le (parsePCaseExpr f ts) (parsePCaseExpr (f + 1) ts)
  caseLoop : ∀ ts, Le (caseWhenLoopP f ts) (caseWhenLoopP (f + 1) ts)
  caseWhen : ∀ ts, Le (parsePCaseWhen f ts) (parsePCaseWhen (f + 1) ts)
  caseElse : ∀ ts, Le (parsePCaseElse f ts) (parsePCaseElse (f + 1) ts)
  ifE : ∀ ts, Le (parsePIfExpr f ts) (parsePIfExpr (f + 1) ts)
  arr : ∀ ts, Le (parsePSimpleArrayLiteral f ts) (parsePSimpleArrayLiteral (f + 1) ts)
  cast : ∀ ts, Le (parsePCastExpr f ts) (parsePCastExpr (f + 1) ts)

theorem pmono_zero : PMonoAt 0 := by
  constructor <;> intros <;> exact Le.oof _

/-- close a goal `Le (body at f) (body at f+1)` after both sides have been unfolded once -/
macro "ple_auto" ih:ident : tactic => `(tactic| (
  repeat' first
    | exact Le.refl _
    | exact ($ih).expr _ | exact ($ih).or_ _ | exact ($ih).orLoop _ _ | exact ($ih).and_ _ | exact ($ih).andLoop _ _
    | exact ($ih).not_ _ | exact ($ih).cmp _ | exact ($ih).btw _ _ _ | exact ($ih).inCond _ | exact ($ih).inList _
    | exact ($ih).bitOr _ | exact ($ih).bitOrLoop _ _ | exact ($ih).bitXor _ | exact ($ih).bitXorLoop _ _
    | exact ($ih).bitAnd _ | exact ($ih).bitAndLoop _ _ | exact ($ih).shift _ | exact ($ih).shiftLoop _ _
    | exact ($ih).add _ | exact ($ih).addLoop _ _ | exact ($ih).mul _ | exact ($ih).mulLoop _ _
    | exact ($ih).unary _ | exact ($ih).sel _ | exact ($ih).selLoop _ _ | exact ($ih).idx _ | exact ($ih).lit _
    | exact ($ih).paren _
    | exact ($ih).caseE _ | exact ($ih).caseLoop _ | exact ($ih).caseWhen _ | exact ($ih).caseElse _ | exact ($ih).ifE _
    | exact ($ih).arr _ | exact ($ih).cast _ | exact castTypeP_le _ _
    | apply Le.bind
    | intro _
    | split))

theorem pmono_succ {f : Nat} (ih : PMonoAt f) : PMonoAt (f + 1) where
  expr := by intro ts; simp only [parsePExpr]; ple_auto ih
  or_ := by intro ts; simp only [parsePOr]; ple_auto ih
  orLoop := by intro e ts; simp only [orLoopP]; ple_auto ih
  and_ := by intro ts; simp only [parsePAnd]; ple_auto ih
  andLoop := by intro e ts; simp only [andLoopP]; ple_auto ih
  not_ := by intro ts; simp only [parsePNot]; ple_auto ih
  cmp := by intro ts; simp only [parsePComparison]; ple_auto ih
  btw := by intro n e ts; simp only [parsePBetweenTail]; ple_auto ih
  inCond := by intro ts; simp only [parsePInCondition]; ple_auto ih
  inList := by intro ts; simp only [inListLoopP]; ple_auto ih
  bitOr := by intro ts; simp only [parsePBitOr]; ple_auto ih
  bitOrLoop := by intro e ts; simp only [bitOrLoopP]; ple_auto ih
  bitXor := by intro ts; simp only [parsePBitXor]; ple_auto ih
  bitXorLoop := by intro e ts; simp only [bitXorLoopP]; ple_auto ih
  bitAnd := by intro ts; simp only [parsePBitAnd]; ple_auto ih
  bitAndLoop := by intro e ts; simp only [bitAndLoopP]; ple_auto ih
  shift := by intro ts; simp only [parsePBitShift]; ple_auto ih
  shiftLoop := by intro e ts; simp only [shiftLoopP]; ple_auto ih
  add := by intro ts; simp only [parsePAddSub]; ple_auto ih
  addLoop := by intro e ts; simp only [addLoopP]; ple_auto ih
  mul := by intro ts; simp only [parsePMulDiv]; ple_auto ih
  mulLoop := by intro e ts; simp only [mulLoopP]; ple_auto ih
  unary := by intro ts; simp only [parsePUnary]; ple_auto ih
  sel := by intro ts; simp only [parsePSelector]; ple_auto ih
  selLoop := by intro e ts; simp only [selLoopP]; ple_auto ih
  idx := by intro ts; simp only [parsePIndexSpecifier]; ple_auto ih
  lit := by intro ts; simp only [parsePLit]; ple_auto ih
  paren := by intro ts; simp only [parsePParenExpr]; ple_auto ih
  caseE := by intro ts; simp only [parsePCaseExpr]; ple_auto ih
  caseLoop := by intro ts; simp only [caseWhenLoopP]; ple_auto ih
  caseWhen := by intro ts; simp only [parsePCaseWhen]; ple_auto ih
  caseElse := by intro ts; simp only [parsePCaseElse]; ple_auto ih
  ifE := by intro ts; simp only [parsePIfExpr]; ple_auto ih
  arr := by intro ts; simp only [parsePSimpleArrayLiteral]; ple_auto ih
  cast := by intro ts; simp only [parsePCastExpr]; ple_auto ih

theorem pmono_all : ∀ f, PMonoAt f
  | 0 => pmono_zero
  | f + 1 => pmono_succ (pmono_all f)

/-- once the positioned parser answers, every larger fuel gives the same answer (the same positioned tree) -/
theorem parsePExpr_mono {n m : Nat} {ts : List Token} (hnm : n ≤ m) (h : parsePExpr n ts ≠ .outOfFuel) :
    parsePExpr m ts = parsePExpr n ts :=
  (le_of_le (p := fun f => parsePExpr f ts) (fun f => (pmono_all f).expr ts) hnm).eq rfl h

theorem parsePTop_mono {n m : Nat} {ts : List Token} (hnm : n ≤ m) (h : parsePTop n ts ≠ .outOfFuel) :
    parsePTop m ts = parsePTop n ts := by
  unfold parsePTop at h ⊢
  have h' : parsePExpr n ts ≠ .outOfFuel := by
    intro e; rw [e] at h; exact h rfl
  rw [parsePExpr_mono hnm h']

/-! ## termination, through the erasure -/

/-- the positioned parser runs out of fuel exactly when the proved parser does -/
theorem parsePExpr_oof_iff (f : Nat) (ts : List Token) : parsePExpr f ts = .outOfFuel ↔ parseExpr f ts = .outOfFuel := by
  rw [parseExpr_eq_erase]
  cases parsePExpr f ts <;> simp [Res.map]

theorem parsePTop_oof_iff (f : Nat) (ts : List Token) : parsePTop f ts = .outOfFuel ↔ parseExprTop f ts = .outOfFuel := by
  rw [parseExprTop_eq_erase]
  cases parsePTop f ts <;> simp [Res.map]

theorem parsePTop_crash_iff (f : Nat) (ts : List Token) : parsePTop f ts = .crash ↔ parseExprTop f ts = .crash := by
  rw [parseExprTop_eq_erase]
  cases parsePTop f ts <;> simp [Res.map]

/-- **the positioned `parsePExpr` terminates on every token list** -/
theorem parsePExpr_ne_oof {f : Nat} {ts : List Token} (h : exprFuel ts ≤ f) : parsePExpr f ts ≠ .outOfFuel :=
  fun e => parseExpr_ne_oof h ((parsePExpr_oof_iff f ts).1 e)

/-- **the positioned entry point terminates on every token list** -/
theorem parsePTop_ne_oof {f : Nat} {ts : List Token} (h : exprFuel ts ≤ f) : parsePTop f ts ≠ .outOfFuel :=
  fun e => parseExprTop_ne_oof h ((parsePTop_oof_iff f ts).1 e)

/-- from the bound on, the answer of the positioned parser does not depend on the fuel -/
theorem parsePExpr_stable {f g : Nat} {ts : List Token} (hf : exprFuel ts ≤ f) (hg : exprFuel ts ≤ g) :
    parsePExpr f ts = parsePExpr g ts := by
  rw [parsePExpr_mono hf (parsePExpr_ne_oof (Nat.le_refl _)), parsePExpr_mono hg (parsePExpr_ne_oof (Nat.le_refl _))]

theorem parsePTop_stable {f g : Nat} {ts : List Token} (hf : exprFuel ts ≤ f) (hg : exprFuel ts ≤ g) :
    parsePTop f ts = parsePTop g ts := by
  rw [parsePTop_mono hf (parsePTop_ne_oof (Nat.le_refl _)), parsePTop_mono hg (parsePTop_ne_oof (Nat.le_refl _))]

end MF.Expr
