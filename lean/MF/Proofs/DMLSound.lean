/-
  MF.Proofs.DMLSound — soundness of the DML model (MF/Model/Stmt2.lean, instantiated with the expression parser of M1)
  w.r.t. the documented grammar G_DML (MF/Spec/DMLGrammar.lean): what a production consumed is a derivation of its
  non-terminal and the tree returned is the derivation tree.  The expression slots go through
  `MF.Props.C07.parse_sound` as a black box (plus `yield_head`: a yield is not empty).
-/
import MF.Spec.DMLGrammar
import MF.Props.C07
import MF.Proofs.ExprPosC06
namespace MF.DML
open MF MF.Expr

/-! ## reading the head of the state -/

theorem kd_split {ts : List Token} {s : String} (h : kd ts = K s) : ∃ t tl, ts = t :: tl ∧ t.kind = K s := by
  cases ts with
  | nil => simp [kd, K] at h
  | cons t tl => exact ⟨t, tl, rfl, h⟩

theorem kwLike_split {s : String} {ts : List Token} (h : kwLike s ts = true) :
    ∃ t tl, ts = t :: tl ∧ t.isKeywordLike (B s) = true := by
  cases ts with
  | nil => simp [kwLike, hd, Token.isKeywordLike] at h
  | cons t tl => exact ⟨t, tl, rfl, h⟩

theorem cur_split {ts : List Token} {k : TK} (h : cur ts = k) (hk : k ≠ .eof) : ∃ t tl, ts = t :: tl ∧ tk t.kind = k :=
  cur_ne_eof h hk

theorem kwLike_ident {s : String} {t : Token} (h : t.isKeywordLike (B s) = true) : tk t.kind = .ident := by
  simp only [Token.isKeywordLike, Bool.and_eq_true, beq_iff_eq] at h
  rw [h.1]; rfl

/-! ## identifier-only productions -/

theorem parsePIdent_ok {ts : List Token} {i : PIdent} {rest : List Token} (h : parsePIdent ts = .ok (i, rest)) :
    ∃ t, ts = t :: rest ∧ tk t.kind = .ident ∧ i = identOf t := by
  unfold parsePIdent at h
  by_cases hc : cur ts = .ident
  · rw [if_pos hc] at h
    obtain ⟨t, tl, rfl, ht⟩ := cur_split hc (by decide)
    cases h
    exact ⟨t, rfl, ht, rfl⟩
  · rw [if_neg hc] at h; cases h

theorem pathLoop_sound : ∀ (ts : List Token) {ids : List PIdent} {rest : List Token},
    pathLoop ts = .ok (ids, rest) → ∃ pre, ts = pre ++ rest ∧ PathTailD ids pre
  | t :: u :: r, ids, rest, h => by
    unfold pathLoop at h
    by_cases h1 : tk t.kind = .dot
    · rw [if_pos h1] at h
      by_cases h2 : tk u.kind = .ident
      · rw [if_pos h2] at h
        obtain ⟨q, hq, h3⟩ := Res.bind_eq_ok.1 h
        cases h3
        obtain ⟨pre, hp, hd⟩ := pathLoop_sound r hq
        exact ⟨t :: u :: pre, by simp [hp], .cons h1 h2 hd⟩
      · rw [if_neg h2] at h; cases h
    · rw [if_neg h1] at h; cases h; exact ⟨[], rfl, .nil⟩
  | [t], ids, rest, h => by
    unfold pathLoop at h
    by_cases h1 : tk t.kind = .dot
    · rw [if_pos h1] at h; cases h
    · rw [if_neg h1] at h; cases h; exact ⟨[], rfl, .nil⟩
  | [], ids, rest, h => by
    unfold pathLoop at h; cases h; exact ⟨[], rfl, .nil⟩

theorem parseIdentOrPath_sound {ts : List Token} {ids : List PIdent} {rest : List Token}
    (h : parseIdentOrPath ts = .ok (ids, rest)) : ∃ pre, ts = pre ++ rest ∧ PathD ids pre := by
  unfold parseIdentOrPath at h
  obtain ⟨p, hp, h⟩ := Res.bind_eq_ok.1 h
  obtain ⟨q, hq, h⟩ := Res.bind_eq_ok.1 h
  cases h
  obtain ⟨t, rfl, ht, hi⟩ := parsePIdent_ok hp
  obtain ⟨pre, hpre, hd⟩ := pathLoop_sound _ hq
  exact ⟨t :: pre, by simp [hpre], hi ▸ .mk ht hd⟩

theorem colLoop_sound : ∀ (ts : List Token) {ids : List PIdent} {rest : List Token},
    colLoop ts = .ok (ids, rest) → ∃ pre, ts = pre ++ rest ∧ IdListD ids pre
  | t :: c :: r, ids, rest, h => by
    unfold colLoop at h
    by_cases h1 : tk t.kind = .ident
    · rw [if_pos h1] at h
      by_cases h2 : tk c.kind = .comma
      · rw [if_pos h2] at h
        obtain ⟨q, hq, h3⟩ := Res.bind_eq_ok.1 h
        cases h3
        obtain ⟨pre, hp, hd⟩ := colLoop_sound r hq
        exact ⟨t :: c :: pre, by simp [hp], .cons h1 h2 hd⟩
      · rw [if_neg h2] at h; cases h; exact ⟨[t], rfl, .one h1⟩
    · rw [if_neg h1] at h; cases h
  | [t], ids, rest, h => by
    unfold colLoop at h
    by_cases h1 : tk t.kind = .ident
    · rw [if_pos h1] at h; cases h; exact ⟨[t], rfl, .one h1⟩
    · rw [if_neg h1] at h; cases h
  | [], ids, rest, h => by
    unfold colLoop at h; cases h

theorem parseColumns_sound {ts : List Token} {ids : List PIdent} {rest : List Token}
    (h : parseColumns ts = .ok (ids, rest)) : ∃ pre, ts = pre ++ rest ∧ ColsD ids pre := by
  unfold parseColumns at h
  by_cases h1 : cur ts = .lparen
  · rw [if_pos h1] at h
    obtain ⟨l, tl, rfl, hl⟩ := cur_split h1 (by decide)
    obtain ⟨c, hc, h⟩ := Res.bind_eq_ok.1 h
    by_cases h2 : cur c.2 = .rparen
    · rw [if_pos h2] at h
      obtain ⟨r, tl2, hr, hrk⟩ := cur_split h2 (by decide)
      cases h
      simp only [List.tail_cons] at hc
      by_cases h3 : cur tl = .rparen
      · simp only [h3, ↓reduceIte] at hc
        cases hc
        simp only at hr
        subst hr
        exact ⟨[l, r], by simp, .empty hl hrk⟩
      · simp only [h3, ↓reduceIte] at hc
        obtain ⟨pre, hp, hd⟩ := colLoop_sound _ hc
        refine ⟨l :: pre ++ [r], ?_, .list hl hd hrk⟩
        rw [hp, hr]; simp
    · rw [if_neg h2] at h; cases h
  · rw [if_neg h1] at h; cases h

theorem tryParseAsAlias_sound {ts : List Token} {a : Option AsAlias} {rest : List Token}
    (h : tryParseAsAlias ts = .ok (a, rest)) : ∃ pre, ts = pre ++ rest ∧ AliasD a pre := by
  unfold tryParseAsAlias at h
  by_cases h1 : cur ts = .as_
  · rw [if_pos h1] at h
    obtain ⟨t, tl, rfl, ht⟩ := cur_split h1 (by decide)
    obtain ⟨p, hp, h⟩ := Res.bind_eq_ok.1 h
    cases h
    obtain ⟨u, hu, huk, hi⟩ := parsePIdent_ok hp
    simp only [List.tail_cons] at hu
    subst hu
    exact ⟨[t, u], by simp, hi ▸ .as_ ht huk⟩
  · rw [if_neg h1] at h
    by_cases h2 : cur ts = .ident
    · rw [if_pos h2] at h
      obtain ⟨t, tl, rfl, ht⟩ := cur_split h2 (by decide)
      cases h
      exact ⟨[t], by simp, .bare ht⟩
    · rw [if_neg h2] at h; cases h; exact ⟨[], rfl, .none⟩

theorem parseInsertOr_sound {ts : List Token} {o : InsertOrType} {rest : List Token}
    (h : parseInsertOr ts = .ok (o, rest)) : ∃ pre, ts = pre ++ rest ∧ OrD o pre := by
  unfold parseInsertOr at h
  by_cases h1 : cur ts = .or_
  · rw [if_pos h1] at h
    obtain ⟨t, tl, rfl, ht⟩ := cur_split h1 (by decide)
    simp only [List.tail_cons] at h
    by_cases h2 : kwLike "UPDATE" tl = true
    · simp only [h2, ↓reduceIte] at h
      obtain ⟨u, tl2, rfl, hu⟩ := kwLike_split h2
      cases h
      exact ⟨[t, u], by simp, .update ht hu⟩
    · simp only [h2] at h
      by_cases h3 : kd tl = K "IGNORE"
      · simp only [h3, ↓reduceIte] at h
        obtain ⟨u, tl2, rfl, hu⟩ := kd_split h3
        cases h
        exact ⟨[t, u], by simp, .ignore ht hu⟩
      · simp only [h3, ↓reduceIte] at h; cases h
  · rw [if_neg h1] at h; cases h; exact ⟨[], rfl, .none⟩

/-- the optional noise word in front of the table name -/
theorem opt_sound (s : String) (ts : List Token) :
    ∃ pre, ts = pre ++ (if kd ts = K s then ts.tail else ts) ∧ OptD s pre := by
  by_cases h : kd ts = K s
  · rw [if_pos h]
    obtain ⟨t, tl, rfl, ht⟩ := kd_split h
    exact ⟨[t], by simp, .some ht⟩
  · rw [if_neg h]; exact ⟨[], rfl, .none⟩

/-! ## productions with expression slots -/

theorem expr_sound {f : Nat} {ts rest : List Token} {e : Expr} (h : parseExpr f ts = .ok (e, rest)) :
    ∃ pre, ts = pre ++ rest ∧ ExprD e pre ∧ pre ≠ [] := by
  obtain ⟨⟨pre, hp, hy⟩, hpo, hnf⟩ := MF.Props.C07.parse_sound h
  refine ⟨pre, hp, ⟨hpo, hnf, hy⟩, ?_⟩
  intro hnil
  subst hnil
  exact (yield_head e hnf).2 (by simpa using hy.symm)

theorem kd_append {pre rest : List Token} (h : pre ≠ []) : kd (pre ++ rest) = kd pre := by
  cases pre with
  | nil => exact absurd rfl h
  | cons t tl => rfl

theorem cur_append {pre rest : List Token} (h : pre ≠ []) : cur (pre ++ rest) = cur pre := by
  cases pre with
  | nil => exact absurd rfl h
  | cons t tl => rfl

theorem parseDefaultExpr_sound {f : Nat} {ts rest : List Token} {d : DefaultExpr Expr}
    (h : parseDefaultExpr parseExpr f ts = .ok (d, rest)) : ∃ pre, ts = pre ++ rest ∧ DefaultD d pre ∧ pre ≠ [] := by
  unfold parseDefaultExpr at h
  by_cases h1 : kd ts = K "DEFAULT"
  · rw [if_pos h1] at h
    obtain ⟨t, tl, rfl, ht⟩ := kd_split h1
    cases h
    exact ⟨[t], by simp, .dflt ht, by simp⟩
  · rw [if_neg h1] at h
    obtain ⟨p, hp, h⟩ := Res.bind_eq_ok.1 h
    cases h
    obtain ⟨pre, hpre, hd, hne⟩ := expr_sound hp
    exact ⟨pre, hpre, .expr hd, hne⟩

/-- the row loop: a derivation of `default {"," default}`, or it stopped at `<eof>` (then `p.expect(")")` raises) -/
theorem rowLoop_sound : ∀ (f : Nat) {ts rest : List Token} {ds : List (DefaultExpr Expr)},
    rowLoop parseExpr f ts = .ok (ds, rest) → ∃ pre, ts = pre ++ rest ∧ (EntriesD ds pre ∨ cur rest = .eof)
  | 0, _, _, _, h => by simp [rowLoop] at h
  | f + 1, ts, rest, ds, h => by
    unfold rowLoop at h
    by_cases h0 : cur ts = .eof
    · rw [if_pos h0] at h; cases h; exact ⟨[], rfl, .inr h0⟩
    · rw [if_neg h0] at h
      obtain ⟨p, hp, h⟩ := Res.bind_eq_ok.1 h
      obtain ⟨pre, hpre, hd, hne⟩ := parseDefaultExpr_sound hp
      by_cases h1 : cur p.2 = .comma
      · rw [if_pos h1] at h
        obtain ⟨c, tl, hc, hck⟩ := cur_split h1 (by decide)
        obtain ⟨q, hq, h⟩ := Res.bind_eq_ok.1 h
        cases h
        rw [hc] at hq
        simp only [List.tail_cons] at hq
        obtain ⟨pre2, hpre2, hd2⟩ := rowLoop_sound f hq
        refine ⟨pre ++ c :: pre2, ?_, ?_⟩
        · rw [hpre, hc, hpre2]; simp
        · rcases hd2 with hd2 | hd2
          · exact .inl (.cons hd hck hd2)
          · exact .inr hd2
      · rw [if_neg h1] at h
        cases h
        exact ⟨pre, hpre, .inl (.one hd)⟩

theorem parseValuesRow_sound {f : Nat} {ts rest : List Token} {r : ValuesRow Expr}
    (h : parseValuesRow parseExpr f ts = .ok (r, rest)) : ∃ pre, ts = pre ++ rest ∧ RowD r pre := by
  unfold parseValuesRow at h
  by_cases h1 : cur ts = .lparen
  · rw [if_pos h1] at h
    obtain ⟨l, tl, rfl, hl⟩ := cur_split h1 (by decide)
    obtain ⟨q, hq, h⟩ := Res.bind_eq_ok.1 h
    by_cases h2 : cur q.2 = .rparen
    · rw [if_pos h2] at h
      obtain ⟨rp, tl2, hr, hrk⟩ := cur_split h2 (by decide)
      cases h
      simp only [List.tail_cons] at hq
      by_cases h3 : cur tl = .rparen
      · simp only [h3, ↓reduceIte] at hq
        cases hq
        simp only at hr
        subst hr
        exact ⟨[l, rp], by simp, by simpa using RowD.empty hl hrk⟩
      · simp only [h3, ↓reduceIte] at hq
        obtain ⟨pre, hp, hd⟩ := rowLoop_sound f hq
        rcases hd with hd | hd
        · refine ⟨l :: pre ++ [rp], ?_, ?_⟩
          · rw [hp, hr]; simp
          · rw [hr]; simpa using RowD.list hl hd hrk
        · rw [hd] at h2; cases h2
    · rw [if_neg h2] at h; cases h
  · rw [if_neg h1] at h; cases h

theorem rowsLoop_sound : ∀ (f : Nat) {ts rest : List Token} {rs : List (ValuesRow Expr)},
    rowsLoop parseExpr f ts = .ok (rs, rest) → ∃ pre, ts = pre ++ rest ∧ RowsD rs pre
  | 0, _, _, _, h => by simp [rowsLoop] at h
  | f + 1, ts, rest, rs, h => by
    unfold rowsLoop at h
    obtain ⟨p, hp, h⟩ := Res.bind_eq_ok.1 h
    obtain ⟨pre, hpre, hd⟩ := parseValuesRow_sound hp
    by_cases h1 : cur p.2 = .comma
    · rw [if_pos h1] at h
      obtain ⟨c, tl, hc, hck⟩ := cur_split h1 (by decide)
      obtain ⟨q, hq, h⟩ := Res.bind_eq_ok.1 h
      cases h
      rw [hc] at hq
      simp only [List.tail_cons] at hq
      obtain ⟨pre2, hpre2, hd2⟩ := rowsLoop_sound f hq
      refine ⟨pre ++ c :: pre2, ?_, .cons hd hck hd2⟩
      rw [hpre, hc, hpre2]; simp
    · rw [if_neg h1] at h
      cases h
      exact ⟨pre, hpre, .one hd⟩

theorem parseWhere_sound {f : Nat} {ts rest : List Token} {w : Where Expr}
    (h : parseWhere parseExpr f ts = .ok (w, rest)) : ∃ pre, ts = pre ++ rest ∧ WhereD w pre := by
  unfold parseWhere at h
  by_cases h1 : kd ts = K "WHERE"
  · rw [if_pos h1] at h
    obtain ⟨t, tl, rfl, ht⟩ := kd_split h1
    obtain ⟨p, hp, h⟩ := Res.bind_eq_ok.1 h
    cases h
    obtain ⟨pre, hpre, hd, _⟩ := expr_sound hp
    simp only [List.tail_cons] at hpre
    exact ⟨t :: pre, by simp [hpre], .mk ht hd⟩
  · rw [if_neg h1] at h; cases h

theorem parseUpdateItem_sound {f : Nat} {ts rest : List Token} {u : UpdateItem Expr}
    (h : parseUpdateItem parseExpr f ts = .ok (u, rest)) : ∃ pre, ts = pre ++ rest ∧ ItemD u pre := by
  unfold parseUpdateItem at h
  obtain ⟨n, hn, h⟩ := Res.bind_eq_ok.1 h
  obtain ⟨pre1, hpre1, hd1⟩ := parseIdentOrPath_sound hn
  by_cases h1 : cur n.2 = .eq
  · rw [if_pos h1] at h
    obtain ⟨e, tl, he, hek⟩ := cur_split h1 (by decide)
    obtain ⟨d, hd, h⟩ := Res.bind_eq_ok.1 h
    cases h
    rw [he] at hd
    simp only [List.tail_cons] at hd
    obtain ⟨pre2, hpre2, hd2, _⟩ := parseDefaultExpr_sound hd
    refine ⟨pre1 ++ e :: pre2, ?_, .mk hd1 hek hd2⟩
    rw [hpre1, he, hpre2]; simp
  · rw [if_neg h1] at h; cases h

theorem itemsLoop_sound : ∀ (f : Nat) {ts rest : List Token} {us : List (UpdateItem Expr)},
    itemsLoop parseExpr f ts = .ok (us, rest) → ∃ pre, ts = pre ++ rest ∧ ItemsD us pre
  | 0, _, _, _, h => by simp [itemsLoop] at h
  | f + 1, ts, rest, us, h => by
    unfold itemsLoop at h
    obtain ⟨p, hp, h⟩ := Res.bind_eq_ok.1 h
    obtain ⟨pre, hpre, hd⟩ := parseUpdateItem_sound hp
    by_cases h1 : cur p.2 = .comma
    · rw [if_pos h1] at h
      obtain ⟨c, tl, hc, hck⟩ := cur_split h1 (by decide)
      obtain ⟨q, hq, h⟩ := Res.bind_eq_ok.1 h
      cases h
      rw [hc] at hq
      simp only [List.tail_cons] at hq
      obtain ⟨pre2, hpre2, hd2⟩ := itemsLoop_sound f hq
      refine ⟨pre ++ c :: pre2, ?_, .cons hd hck hd2⟩
      rw [hpre, hc, hpre2]; simp
    · rw [if_neg h1] at h
      cases h
      exact ⟨pre, hpre, .one hd⟩

theorem thenReturn_ok {ts : List Token} {u : Unit} (h : thenReturn ts = .ok u) : cur ts ≠ .then_ := by
  unfold thenReturn at h
  intro hc
  rw [if_pos hc] at h
  split at h <;> cases h

theorem parseValuesInput_sound {f : Nat} {ts rest : List Token} {v : ValuesInput Expr}
    (h : parseValuesInput parseExpr f ts = .ok (v, rest)) :
    ∃ t pre, ts = t :: pre ++ rest ∧ t.isKeywordLike (B "VALUES") = true ∧ ∃ rs, v = ⟨t.pos, rs⟩ ∧ RowsD rs pre := by
  unfold parseValuesInput at h
  by_cases h1 : kwLike "VALUES" ts = true
  · rw [if_pos h1] at h
    obtain ⟨t, tl, rfl, ht⟩ := kwLike_split h1
    obtain ⟨q, hq, h⟩ := Res.bind_eq_ok.1 h
    cases h
    simp only [List.tail_cons] at hq
    obtain ⟨pre, hpre, hd⟩ := rowsLoop_sound f hq
    exact ⟨t, pre, by simp [hpre], ht, q.1, rfl, hd⟩
  · rw [if_neg h1] at h; cases h

theorem parseInsert_sound {f pos : Nat} {ts rest : List Token} {s : Stmt Expr}
    (h : parseInsert parseExpr f pos ts = .ok (s, rest)) :
    ∃ pre, ts = pre ++ rest ∧ ∀ k : Token, k.isKeywordLike (B "INSERT") = true → k.pos = pos → StmtD s (k :: pre) := by
  unfold parseInsert at h
  obtain ⟨o, ho, h⟩ := Res.bind_eq_ok.1 h
  obtain ⟨preO, hpreO, hdO⟩ := parseInsertOr_sound ho
  obtain ⟨preI, hpreI, hdI⟩ := opt_sound "INTO" o.2
  simp only at h
  obtain ⟨n, hn, h⟩ := Res.bind_eq_ok.1 h
  obtain ⟨preP, hpreP, hdP⟩ := parseIdentOrPath_sound hn
  by_cases hh : hintAhead n.2 = true
  · rw [if_pos hh] at h; cases h
  · rw [if_neg hh] at h
    obtain ⟨c, hc, h⟩ := Res.bind_eq_ok.1 h
    obtain ⟨preC, hpreC, hdC⟩ := parseColumns_sound hc
    by_cases hv : kwLike "VALUES" c.2 = true
    · rw [if_pos hv] at h
      obtain ⟨v, hv2, h⟩ := Res.bind_eq_ok.1 h
      obtain ⟨u, _, h⟩ := Res.bind_eq_ok.1 h
      cases h
      obtain ⟨t, preR, hpreR, ht, rs, hvs, hdR⟩ := parseValuesInput_sound hv2
      refine ⟨preO ++ (preI ++ (preP ++ (preC ++ t :: preR))), ?_, ?_⟩
      · rw [hpreO, hpreI, hpreP, hpreC, hpreR]; simp
      · intro k hk hkp
        rw [hvs, ← hkp]
        exact .insert hk hdO hdI hdP hdC ht hdR
    · rw [if_neg hv] at h
      split at h <;> cases h

theorem parseDelete_sound {f pos : Nat} {ts rest : List Token} {s : Stmt Expr}
    (h : parseDelete parseExpr f pos ts = .ok (s, rest)) :
    ∃ pre, ts = pre ++ rest ∧ ∀ k : Token, k.isKeywordLike (B "DELETE") = true → k.pos = pos → StmtD s (k :: pre) := by
  unfold parseDelete at h
  obtain ⟨preF, hpreF, hdF⟩ := opt_sound "FROM" ts
  simp only at h
  obtain ⟨n, hn, h⟩ := Res.bind_eq_ok.1 h
  obtain ⟨preP, hpreP, hdP⟩ := parseIdentOrPath_sound hn
  by_cases hh : hintAhead n.2 = true
  · rw [if_pos hh] at h; cases h
  · rw [if_neg hh] at h
    obtain ⟨a, ha, h⟩ := Res.bind_eq_ok.1 h
    obtain ⟨preA, hpreA, hdA⟩ := tryParseAsAlias_sound ha
    obtain ⟨w, hw, h⟩ := Res.bind_eq_ok.1 h
    obtain ⟨preW, hpreW, hdW⟩ := parseWhere_sound hw
    obtain ⟨u, _, h⟩ := Res.bind_eq_ok.1 h
    cases h
    refine ⟨preF ++ (preP ++ (preA ++ preW)), ?_, ?_⟩
    · rw [hpreF, hpreP, hpreA, hpreW]; simp
    · intro k hk hkp
      rw [← hkp]
      exact .delete hk hdF hdP hdA hdW

theorem parseUpdate_sound {f pos : Nat} {ts rest : List Token} {s : Stmt Expr}
    (h : parseUpdate parseExpr f pos ts = .ok (s, rest)) :
    ∃ pre, ts = pre ++ rest ∧ ∀ k : Token, k.isKeywordLike (B "UPDATE") = true → k.pos = pos → StmtD s (k :: pre) := by
  unfold parseUpdate at h
  obtain ⟨n, hn, h⟩ := Res.bind_eq_ok.1 h
  obtain ⟨preP, hpreP, hdP⟩ := parseIdentOrPath_sound hn
  by_cases hh : hintAhead n.2 = true
  · rw [if_pos hh] at h; cases h
  · rw [if_neg hh] at h
    obtain ⟨a, ha, h⟩ := Res.bind_eq_ok.1 h
    obtain ⟨preA, hpreA, hdA⟩ := tryParseAsAlias_sound ha
    by_cases hs : kd a.2 = K "SET"
    · rw [if_pos hs] at h
      obtain ⟨st, tl, hst, hsk⟩ := kd_split hs
      obtain ⟨us, hus, h⟩ := Res.bind_eq_ok.1 h
      rw [hst] at hus
      simp only [List.tail_cons] at hus
      obtain ⟨preU, hpreU, hdU⟩ := itemsLoop_sound f hus
      obtain ⟨w, hw, h⟩ := Res.bind_eq_ok.1 h
      obtain ⟨preW, hpreW, hdW⟩ := parseWhere_sound hw
      obtain ⟨u, _, h⟩ := Res.bind_eq_ok.1 h
      cases h
      refine ⟨preP ++ (preA ++ st :: (preU ++ preW)), ?_, ?_⟩
      · rw [hpreP, hpreA, hst, hpreU, hpreW]; simp
      · intro k hk hkp
        rw [← hkp]
        exact .update hk hdP hdA hsk hdU hdW
    · rw [if_neg hs] at h; cases h

theorem parseDMLInternal_sound {f : Nat} {ts rest : List Token} {s : Stmt Expr}
    (h : parseDMLInternal parseExpr f ts = .ok (s, rest)) : ∃ pre, ts = pre ++ rest ∧ StmtD s pre := by
  unfold parseDMLInternal at h
  by_cases h0 : cur ts = .ident
  · rw [if_pos h0] at h
    obtain ⟨k, tl, rfl, hk⟩ := cur_split h0 (by decide)
    simp only [List.tail_cons, hd_cons] at h
    by_cases h1 : kwLike "INSERT" (k :: tl) = true
    · rw [if_pos h1] at h
      obtain ⟨pre, hp, hd⟩ := parseInsert_sound h
      exact ⟨k :: pre, by simp [hp], hd k h1 rfl⟩
    · rw [if_neg h1] at h
      by_cases h2 : kwLike "DELETE" (k :: tl) = true
      · rw [if_pos h2] at h
        obtain ⟨pre, hp, hd⟩ := parseDelete_sound h
        exact ⟨k :: pre, by simp [hp], hd k h2 rfl⟩
      · rw [if_neg h2] at h
        by_cases h3 : kwLike "UPDATE" (k :: tl) = true
        · rw [if_pos h3] at h
          obtain ⟨pre, hp, hd⟩ := parseUpdate_sound h
          exact ⟨k :: pre, by simp [hp], hd k h3 rfl⟩
        · rw [if_neg h3] at h; cases h
  · rw [if_neg h0] at h; cases h

theorem parseDML_sound {f : Nat} {ts rest : List Token} {s : Stmt Expr}
    (h : parseDML parseExpr f ts = .ok (s, rest)) : ∃ pre, ts = pre ++ rest ∧ StmtD s pre := by
  unfold parseDML at h
  by_cases hh : hintAhead ts = true
  · rw [if_pos hh] at h; cases h
  · rw [if_neg hh] at h; exact parseDMLInternal_sound h

end MF.DML
