/-
  MF.Proofs.TriviaBytes — byte-level relations used by the C16 trivia lemma.

  `ISim n a b`: the buffers `a` (original, at the start of a token of length `n`) and `b` (re-spelled) agree
  up to letter case on the first `n` bytes, and the look-ahead byte `b[n]` is compatible with `a[n]` (`LA`):
  both absent, equal up to case, or `b[n]` is the first byte of a whitespace rune.
-/
import MF.Spec.Respell
import MF.Proofs.LexTrivia
import MF.Proofs.QuotedShift
namespace MF.Props.C16
open MF MF.Lex

/-- first byte of a whitespace rune: an ASCII space character or a non-ASCII byte -/
def wsLead (w : UInt8) : Bool :=
  w == 9 || w == 10 || w == 11 || w == 12 || w == 13 || w == 32 || 128 ≤ w

/-- look-ahead compatibility -/
inductive LA : Option UInt8 → Option UInt8 → Prop
  | none : LA none none
  | ceq {c d : UInt8} : Char.upperByte d = Char.upperByte c → LA (some c) (some d)
  | ws {z : Option UInt8} {w : UInt8} : wsLead w = true → LA z (some w)

/-- a byte predicate that ignores letter case and rejects the first byte of every whitespace rune -/
structure Term (P : UInt8 → Bool) : Prop where
  ci : ∀ c, P (Char.upperByte c) = P c
  ws : ∀ w, wsLead w = true → P w = false

theorem LA.pred_false {z y : Option UInt8} (h : LA z y) {P : UInt8 → Bool} (hP : Term P)
    (hz : ∀ c, z = some c → P c = false) : ∀ d, y = some d → P d = false := by
  intro d hd
  cases h with
  | none => cases hd
  | ceq hc =>
    cases hd
    rw [← hP.ci, hc, hP.ci]
    exact hz _ rfl
  | ws hw => cases hd; exact hP.ws _ hw

macro "byte_term" : tactic =>
  `(tactic| (constructor <;> (apply UInt8.forall_of_fin; decide +kernel)))

theorem term_identPart : Term Char.isIdentPart := by byte_term
theorem term_identStart : Term Char.isIdentStart := by byte_term
theorem term_digit : Term Char.isDigit := by byte_term
theorem term_hexDigit : Term Char.isHexDigit := by byte_term
theorem term_eq_46 : Term (fun c => c == 46) := by byte_term
theorem term_eq_60 : Term (fun c => c == 60) := by byte_term
theorem term_eq_61 : Term (fun c => c == 61) := by byte_term
theorem term_eq_62 : Term (fun c => c == 62) := by byte_term
theorem term_eq_124 : Term (fun c => c == 124) := by byte_term
theorem term_eq_64 : Term (fun c => c == 64) := by byte_term
theorem term_eq_47 : Term (fun c => c == 47) := by byte_term
theorem term_eq_42 : Term (fun c => c == 42) := by byte_term
theorem term_eq_45 : Term (fun c => c == 45) := by byte_term
theorem term_eq_34 : Term (fun c => c == 34) := by byte_term
theorem term_eq_39 : Term (fun c => c == 39) := by byte_term
theorem term_eq_48 : Term (fun c => c == 48) := by byte_term
theorem term_xX : Term (fun c => c == 120 || c == 88) := by byte_term
theorem term_quote : Term (fun c => c == 34 || c == 39) := by byte_term

theorem classify_upper : ∀ c, classify (Char.upperByte c) = classify c := by
  apply UInt8.forall_of_fin; decide +kernel

theorem classify_ceq {c d : UInt8} (h : Char.upperByte d = Char.upperByte c) : classify d = classify c := by
  rw [← classify_upper d, h, classify_upper]

theorem nonIdent_ceq : ∀ c, Char.isIdentPart c = false → ∀ d, Char.upperByte d = Char.upperByte c → d = c := by
  have h1 : ∀ c, Char.isIdentPart c = false → Char.upperByte c = c := by
    apply UInt8.forall_of_fin; decide +kernel
  have h2 : ∀ d, Char.upperByte d = d ∨ Char.isIdentPart (Char.upperByte d) = true := by
    apply UInt8.forall_of_fin; decide +kernel
  intro c hc d hd
  rw [h1 c hc] at hd
  rcases h2 d with h | h
  · rw [← h, hd]
  · rw [hd, hc] at h; cases h

theorem peekIs_eq_peekSat (rest : Bytes) (i : Nat) (x : UInt8) :
    peekIs rest i x = peekSat rest i (fun c => c == x) := by
  unfold peekIs peekSat
  cases rest[i]? with
  | none => simp
  | some c => simp

structure ISim (n : Nat) (a b : Bytes) : Prop where
  lt : ∀ i, i < n → ∃ c d, a[i]? = some c ∧ b[i]? = some d ∧ Char.upperByte d = Char.upperByte c
  la : LA a[n]? b[n]?

theorem ISim.le {n : Nat} {a b : Bytes} (hs : ISim n a b) {i : Nat} (hi : i ≤ n) : LA a[i]? b[i]? := by
  rcases Nat.lt_or_ge i n with h | h
  · obtain ⟨c, d, h1, h2, h3⟩ := hs.lt i h
    rw [h1, h2]; exact .ceq h3
  · have : i = n := by omega
    subst this; exact hs.la

theorem ISim.peekSat_false {n : Nat} {a b : Bytes} (hs : ISim n a b) {P : UInt8 → Bool} (hP : Term P)
    {i : Nat} (hi : i ≤ n) (h : peekSat a i P = false) : peekSat b i P = false := by
  have hla := hs.le hi
  unfold peekSat at h ⊢
  cases hb : b[i]? with
  | none => rfl
  | some d =>
    simp only
    refine hla.pred_false hP ?_ d hb
    intro c hc
    rw [hc] at h; exact h

theorem ISim.peekSat_true {n : Nat} {a b : Bytes} (hs : ISim n a b) {P : UInt8 → Bool} (hP : Term P)
    {i : Nat} (hi : i < n) (h : peekSat a i P = true) : peekSat b i P = true := by
  obtain ⟨c, d, h1, h2, h3⟩ := hs.lt i hi
  unfold peekSat at h ⊢
  rw [h1] at h
  rw [h2]
  simp only at h ⊢
  rw [← hP.ci, h3, hP.ci]; exact h

theorem ISim.peekIs_false {n : Nat} {a b : Bytes} (hs : ISim n a b) {x : UInt8} (hP : Term (fun c => c == x))
    {i : Nat} (hi : i ≤ n) (h : peekIs a i x = false) : peekIs b i x = false := by
  rw [peekIs_eq_peekSat] at h ⊢
  exact hs.peekSat_false hP hi h

theorem ISim.peekIs_true {n : Nat} {a b : Bytes} (hs : ISim n a b) {x : UInt8} (hP : Term (fun c => c == x))
    {i : Nat} (hi : i < n) (h : peekIs a i x = true) : peekIs b i x = true := by
  rw [peekIs_eq_peekSat] at h ⊢
  exact hs.peekSat_true hP hi h

theorem ISim.len {n : Nat} {a b : Bytes} (hs : ISim n a b) : n ≤ a.length ∧ n ≤ b.length := by
  cases n with
  | zero => exact ⟨Nat.zero_le _, Nat.zero_le _⟩
  | succ m =>
    obtain ⟨c, d, h1, h2, _⟩ := hs.lt m (Nat.lt_succ_self m)
    have := getElem?_some_lt h1
    have := getElem?_some_lt h2
    omega

theorem ISim.up {n : Nat} {a b : Bytes} (hs : ISim n a b) : Char.toUpper (b.take n) = Char.toUpper (a.take n) := by
  unfold Char.toUpper
  apply List.ext_getElem?
  intro i
  simp only [List.getElem?_map, List.getElem?_take]
  split
  · rename_i hi
    obtain ⟨c, d, h1, h2, h3⟩ := hs.lt i hi
    rw [h1, h2]; simp [h3]
  · rfl

theorem ISim.drop {n : Nat} {a b : Bytes} (hs : ISim n a b) {k : Nat} (hk : k ≤ n) :
    ISim (n - k) (a.drop k) (b.drop k) := by
  constructor
  · intro i hi
    obtain ⟨c, d, h1, h2, h3⟩ := hs.lt (k + i) (by omega)
    exact ⟨c, d, by rw [getElem?_drop']; exact h1, by rw [getElem?_drop']; exact h2, h3⟩
  · rw [getElem?_drop', getElem?_drop']
    have : k + (n - k) = n := by omega
    rw [this]; exact hs.la

/-- the list form: `a = r ++ Z`, `b = r' ++ Y` -/
theorem ISim.of_append {r r' Z Y : Bytes} (hup : Char.toUpper r' = Char.toUpper r)
    (hla : LA Z.head? Y.head?) : ISim r.length (r ++ Z) (r' ++ Y) := by
  have hlen : r'.length = r.length := by
    have := congrArg List.length hup
    simpa [Char.toUpper] using this
  constructor
  · intro i hi
    have h1 : (r ++ Z)[i]? = r[i]? := List.getElem?_append_left hi
    have h2 : (r' ++ Y)[i]? = r'[i]? := List.getElem?_append_left (by omega)
    have hr : r[i]? = some r[i] := List.getElem?_eq_getElem hi
    have hr' : r'[i]? = some (r'[i]'(by omega)) := List.getElem?_eq_getElem (by omega)
    refine ⟨r[i], r'[i]'(by omega), by rw [h1, hr], by rw [h2, hr'], ?_⟩
    have := congrArg (fun l => l[i]?) hup
    simp only [Char.toUpper, List.getElem?_map, hr, hr', Option.map_some] at this
    exact Option.some.inj this
  · have h1 : (r ++ Z)[r.length]? = Z.head? := by
      rw [List.getElem?_append_right (Nat.le_refl _), Nat.sub_self, List.head?_eq_getElem?]
    have h2 : (r' ++ Y)[r.length]? = Y.head? := by
      rw [← hlen, List.getElem?_append_right (Nat.le_refl _), Nat.sub_self, List.head?_eq_getElem?]
    rw [h1, h2]; exact hla

/-! exact agreement on the first `n` bytes -/

theorem take_eq_get {n : Nat} {a b : Bytes} (h : b.take n = a.take n) {i : Nat} (hi : i < n) : b[i]? = a[i]? := by
  have := congrArg (fun l => l[i]?) h
  simpa [List.getElem?_take, hi] using this

/-! `spanLen` by indices -/

theorem spanLen_spec {P : UInt8 → Bool} {a : Bytes} {n : Nat} (h : spanLen P a = n) :
    (∀ i, i < n → ∃ c, a[i]? = some c ∧ P c = true) ∧ (∀ c, a[n]? = some c → P c = false) := by
  induction a generalizing n with
  | nil =>
    simp only [spanLen] at h; subst h
    exact ⟨fun i hi => absurd hi (Nat.not_lt_zero _), fun c hc => by simp at hc⟩
  | cons x t ih =>
    simp only [spanLen] at h
    split at h
    · rename_i hx
      subst h
      obtain ⟨h1, h2⟩ := ih rfl
      constructor
      · intro i hi
        cases i with
        | zero => exact ⟨x, by simp, hx⟩
        | succ j =>
          obtain ⟨c, hc1, hc2⟩ := h1 j (by omega)
          exact ⟨c, by simpa using hc1, hc2⟩
      · intro c hc
        exact h2 c (by simpa using hc)
    · rename_i hx
      subst h
      refine ⟨fun i hi => absurd hi (Nat.not_lt_zero _), ?_⟩
      intro c hc
      simp at hc; subst hc
      simpa using hx

theorem spanLen_of {P : UInt8 → Bool} {a : Bytes} {n : Nat}
    (h1 : ∀ i, i < n → ∃ c, a[i]? = some c ∧ P c = true) (h2 : ∀ c, a[n]? = some c → P c = false) :
    spanLen P a = n := by
  induction a generalizing n with
  | nil =>
    cases n with
    | zero => rfl
    | succ m => obtain ⟨c, hc, _⟩ := h1 0 (by omega); simp at hc
  | cons x t ih =>
    cases n with
    | zero =>
      have := h2 x (by simp)
      simp [spanLen, this]
    | succ m =>
      obtain ⟨c, hc1, hc2⟩ := h1 0 (by omega)
      simp at hc1; subst hc1
      simp only [spanLen, hc2, if_true]
      congr 1
      apply ih
      · intro i hi
        obtain ⟨c, hc1, hc2⟩ := h1 (i + 1) (by omega)
        exact ⟨c, by simpa using hc1, hc2⟩
      · intro c hc
        exact h2 c (by simpa using hc)

theorem ISim.spanLen {n : Nat} {a b : Bytes} (hs : ISim n a b) {P : UInt8 → Bool} (hP : Term P)
    (h : spanLen P a = n) : spanLen P b = n := by
  obtain ⟨h1, h2⟩ := spanLen_spec h
  apply spanLen_of
  · intro i hi
    obtain ⟨c, d, e1, e2, e3⟩ := hs.lt i hi
    obtain ⟨c', e4, e5⟩ := h1 i hi
    rw [e1] at e4; cases e4
    exact ⟨d, e2, by rw [← hP.ci, e3, hP.ci]; exact e5⟩
  · exact hs.la.pred_false hP h2

end MF.Props.C16
