/-
  MF.Proofs.LexLocalBasic — locality of the scanners of the lexer under TRUNCATION of the input.

  Every scanner works on `rest = buf.drop pos`.  If a scan of `rest` succeeds and what it consumed ends at or before
  offset `m`, then the scan of `rest.take m` succeeds with the same result.  The only place where more is needed is
  the one-byte look-ahead of `consumeToken` (`<` vs `<=`, `.` vs `.5`, `@` vs `@p` …): there the byte at offset `m`
  must not continue a token, which is the case when it is `;` (`Sentinel`).
-/
import MF.Proofs.LexTrivia
namespace MF.Lex

/-! ## basic facts about `take` -/

theorem take_getElem?_lt {R : Bytes} {m i : Nat} (h : i < m) : (R.take m)[i]? = R[i]? := by
  rw [List.getElem?_take, if_pos h]

theorem take_getElem?_ge {R : Bytes} {m i : Nat} (h : m ≤ i) : (R.take m)[i]? = none := by
  rw [List.getElem?_take, if_neg (by omega)]

theorem slice_take {R : Bytes} {m a b : Nat} (hb : b ≤ m) : slice (R.take m) a b = slice R a b := by
  unfold slice
  rw [List.drop_take, List.take_take]
  congr 1
  omega

theorem slice?_take {R : Bytes} {m a b : Nat} (hb : b ≤ m) (hl : b ≤ R.length) :
    slice? (R.take m) a b = slice? R a b := by
  unfold slice?
  rw [slice_take hb]
  have : b ≤ min m R.length := Nat.le_min.2 ⟨hb, hl⟩
  simp [this, hl]

theorem lslice?_take {R : Bytes} {m a b : Nat} (hb : b ≤ m) : lslice? (R.take m) a b = lslice? R a b := by
  rcases Nat.lt_or_ge R.length b with h | h
  · rw [List.take_of_length_le (by omega)]
  · unfold lslice?
    have h1 : ¬ ((R.take m).length < b) := by rw [List.length_take]; omega
    have h2 : ¬ (R.length < b) := by omega
    simp only [h1, h2, if_false]
    exact slice?_take hb h

/-! ## white space -/

theorem isSpace_runeError : Utf8.isSpace Utf8.runeError = false := by decide

/-- decoding the first rune of a truncated input gives the same rune, or the truncation cut it (`RuneError`) -/
theorem decodeRune_take (S : Bytes) (m : Nat) :
    Utf8.decodeRune (S.take m) = Utf8.decodeRune S ∨
    ((Utf8.decodeRune (S.take m)).1 = Utf8.runeError ∧ m < (Utf8.decodeRune S).2) := by
  match S, m with
  | [], _ => left; simp
  | s0 :: t, 0 =>
    right
    have := (decodeRune_size (s0 :: t)).2 (by simp)
    simp [Utf8.decodeRune]; exact this
  | [s0], m + 1 => left; simp
  | s0 :: s1 :: t, 1 =>
    simp only [List.take_succ_cons, List.take_zero]
    unfold Utf8.decodeRune Utf8.dec2 Utf8.dec3 Utf8.dec4
    simp only
    repeat' split
    all_goals simp
  | [s0, s1], m + 2 => left; simp
  | s0 :: s1 :: s2 :: t, 2 =>
    simp only [List.take_succ_cons, List.take_zero]
    unfold Utf8.decodeRune Utf8.dec2 Utf8.dec3 Utf8.dec4
    simp only
    repeat' split
    all_goals simp_all
  | [s0, s1, s2], m + 3 => left; simp
  | s0 :: s1 :: s2 :: s3 :: t, 3 =>
    simp only [List.take_succ_cons, List.take_zero]
    unfold Utf8.decodeRune Utf8.dec2 Utf8.dec3 Utf8.dec4
    simp only
    repeat' split
    all_goals simp_all
  | s0 :: s1 :: s2 :: s3 :: t, m + 4 =>
    left
    simp only [List.take_succ_cons]
    unfold Utf8.decodeRune Utf8.dec2 Utf8.dec3 Utf8.dec4
    rfl

theorem skipSpaces_take {f : Nat} {R : Bytes} {m : Nat} (h : skipSpaces f R ≤ m) :
    skipSpaces f (R.take m) = skipSpaces f R := by
  induction f generalizing R m with
  | zero => simp [skipSpaces]
  | succ f ih =>
    simp only [skipSpaces] at h ⊢
    by_cases hR : R.isEmpty = true
    · have : R = [] := by simpa using hR
      subst this; simp
    · have hRne : R ≠ [] := by simpa using hR
      simp only [hR, Bool.false_eq_true, if_false] at h ⊢
      have hw := (decodeRune_size R).2 hRne
      by_cases hsp : Utf8.isSpace (Utf8.decodeRune R).1 = true
      · simp only [hsp, if_true] at h ⊢
        have hwm : (Utf8.decodeRune R).2 ≤ m := by omega
        have hd : Utf8.decodeRune (R.take m) = Utf8.decodeRune R := by
          rcases decodeRune_take R m with h1 | h1
          · exact h1
          · omega
        have hne : (R.take m).isEmpty = false := by
          cases R with
          | nil => exact absurd rfl hRne
          | cons c t =>
            cases m with
            | zero => omega
            | succ m' => rfl
        rw [hne, hd]
        simp only [Bool.false_eq_true, if_false, hsp, if_true]
        rw [List.drop_take, ih (by omega)]
      · simp only [hsp, Bool.false_eq_true, if_false]
        split
        · rfl
        · rcases decodeRune_take R m with h1 | h1
          · rw [h1]; simp [hsp]
          · rw [h1.1, isSpace_runeError]; simp

theorem skipSpaces_fuel {f1 f2 : Nat} {R : Bytes} (h1 : R.length < f1) (h2 : R.length < f2) :
    skipSpaces f1 R = skipSpaces f2 R := by
  induction f1 generalizing f2 R with
  | zero => omega
  | succ f1 ih =>
    cases f2 with
    | zero => omega
    | succ f2 =>
      simp only [skipSpaces]
      split
      · rfl
      · rename_i hR
        have hRne : R ≠ [] := by simpa using hR
        have hw := (decodeRune_size R).2 hRne
        have hw' := (decodeRune_size R).1
        split
        · rw [ih (f2 := f2) (by simp only [List.length_drop]; omega) (by simp only [List.length_drop]; omega)]
        · rfl

/-- where `skipSpaces` stops there is no further white space -/
theorem skipSpaces_idem (f : Nat) (R : Bytes) (g : Nat) : skipSpaces g (R.drop (skipSpaces f R)) = 0 ∨ f ≤ R.length := by
  induction f generalizing R with
  | zero => right; omega
  | succ f ih =>
    simp only [skipSpaces]
    split
    · rename_i hR
      have : R = [] := by simpa using hR
      subst this
      left; cases g <;> simp [skipSpaces]
    · rename_i hR
      have hRne : R ≠ [] := by simpa using hR
      have hw := (decodeRune_size R).2 hRne
      have hw' := (decodeRune_size R).1
      split
      · rcases ih (R.drop (Utf8.decodeRune R).2) with h | h
        · left
          rw [← List.drop_drop] at *
          exact h
        · right
          simp only [List.length_drop] at h
          omega
      · rename_i hsp
        left
        cases g with
        | zero => simp [skipSpaces]
        | succ g => simp [skipSpaces, hR, hsp]

/-! ## comments -/

theorem scanUntil_take {e R : Bytes} {k m : Nat} (he : 0 < e.length) (h : scanUntil e R = some k) (hk : k ≤ m) :
    scanUntil e (R.take m) = some k := by
  induction R generalizing k m with
  | nil => simp [scanUntil] at h
  | cons c t ih =>
    simp only [scanUntil] at h
    cases m with
    | zero =>
      exfalso
      have := (scanUntil_some (r := c :: t) (by simpa only [scanUntil] using h)).1
      omega
    | succ m =>
      simp only [List.take_succ_cons, scanUntil]
      have htt : (c :: t.take m).take e.length = (c :: t).take (min e.length (m + 1)) := by
        rw [← List.take_succ_cons, List.take_take]
      split at h
      · rename_i hc
        cases h
        have hc' : (c :: t).take e.length = e := by simpa using hc
        rw [htt, Nat.min_eq_left hk, hc']
        simp
      · rename_i hc
        cases hh : scanUntil e t with
        | none => simp [hh] at h
        | some k' =>
          simp [hh] at h
          subst h
          have hne : ¬ (((c :: t.take m).take e.length == e) = true) := by
            rw [htt]
            intro hx
            have hx' : (c :: t).take (min e.length (m + 1)) = e := by simpa using hx
            rcases Nat.le_total e.length (m + 1) with hle | hle
            · rw [Nat.min_eq_left hle] at hx'
              exact hc (by simp [hx'])
            · have := congrArg List.length hx'
              rw [List.length_take] at this
              have h2 : e.length ≤ m + 1 := by omega
              rw [Nat.min_eq_left h2] at hx'
              exact hc (by simp [hx'])
          simp only [hne]
          rw [ih hh (by omega)]
          rfl

theorem isLineCommentStart_eq (R : Bytes) : isLineCommentStart R =
    (R[0]? == some 35 || (R[0]? == some 47 && R[1]? == some 47) || (R[0]? == some 45 && R[1]? == some 45)) := by
  cases R with
  | nil => rfl
  | cons c t => simp [isLineCommentStart]

theorem isBlockCommentStart_eq (R : Bytes) : isBlockCommentStart R = (R[0]? == some 47 && R[1]? == some 42) := by
  cases R with
  | nil => rfl
  | cons c t => simp [isBlockCommentStart]

theorem isLineCommentStart_take_mono {R : Bytes} {m : Nat} (h : isLineCommentStart (R.take m) = true) :
    isLineCommentStart R = true := by
  rw [isLineCommentStart_eq] at h ⊢
  simp only [List.getElem?_take] at h
  by_cases h0 : 0 < m <;> by_cases h1 : 1 < m <;> simp_all

theorem isBlockCommentStart_take_mono {R : Bytes} {m : Nat} (h : isBlockCommentStart (R.take m) = true) :
    isBlockCommentStart R = true := by
  rw [isBlockCommentStart_eq] at h ⊢
  simp only [List.getElem?_take] at h
  by_cases h0 : 0 < m <;> by_cases h1 : 1 < m <;> simp_all

theorem isLineCommentStart_take2 {R : Bytes} {m : Nat} (hm : 2 ≤ m) :
    isLineCommentStart (R.take m) = isLineCommentStart R := by
  rw [isLineCommentStart_eq, isLineCommentStart_eq, take_getElem?_lt (by omega), take_getElem?_lt (by omega)]

theorem isBlockCommentStart_take2 {R : Bytes} {m : Nat} (hm : 2 ≤ m) :
    isBlockCommentStart (R.take m) = isBlockCommentStart R := by
  rw [isBlockCommentStart_eq, isBlockCommentStart_eq, take_getElem?_lt (by omega), take_getElem?_lt (by omega)]

end MF.Lex
