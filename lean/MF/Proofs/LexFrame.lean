import MF.Model.Lexer
import MF.Proofs.Basic
namespace MF.Lex

def Comment.text (c : Comment) : Bytes := c.space ++ c.raw
def triviaBytes (cs : List Comment) : Bytes := cs.flatMap Comment.text

/-- comments are consecutive slices of the buffer, each preceded by its `space` -/
def CommentsOK (buf : Bytes) : Nat → List Comment → Prop
  | _, [] => True
  | p, c :: cs => p ≤ c.pos ∧ c.pos < c.end ∧ c.end ≤ buf.length ∧ c.space = slice buf p c.pos ∧
                  c.raw = slice buf c.pos c.end ∧ CommentsOK buf c.end cs

def lastEnd : Nat → List Comment → Nat
  | p, [] => p
  | _, c :: cs => lastEnd c.end cs

theorem CommentsOK_append {buf : Bytes} {p : Nat} {cs : List Comment} {c : Comment}
    (h : CommentsOK buf p cs) (h1 : lastEnd p cs ≤ c.pos) (h2 : c.pos < c.end) (h3 : c.end ≤ buf.length)
    (h4 : c.space = slice buf (lastEnd p cs) c.pos) (h5 : c.raw = slice buf c.pos c.end) :
    CommentsOK buf p (cs ++ [c]) ∧ lastEnd p (cs ++ [c]) = c.end := by
  induction cs generalizing p with
  | nil => simp [CommentsOK, lastEnd] at *; exact ⟨h1, h2, h3, h4, h5⟩
  | cons d ds ih =>
    simp only [CommentsOK, lastEnd, List.cons_append] at *
    obtain ⟨a, b, c', d', e, f⟩ := h
    have := ih f h1 h4
    exact ⟨⟨a, b, c', d', e, this.1⟩, this.2⟩

theorem CommentsOK_le {buf : Bytes} {p : Nat} {cs : List Comment} (h : CommentsOK buf p cs) :
    p ≤ lastEnd p cs ∧ lastEnd p cs ≤ max p buf.length := by
  induction cs generalizing p with
  | nil => simp only [lastEnd]; omega
  | cons d ds ih =>
    simp only [CommentsOK, lastEnd] at *
    have := ih h.2.2.2.2.2
    omega

theorem triviaBytes_tile {buf : Bytes} {p : Nat} {cs : List Comment} (h : CommentsOK buf p cs) :
    triviaBytes cs = slice buf p (lastEnd p cs) := by
  induction cs generalizing p with
  | nil => simp [triviaBytes, lastEnd, slice_self]
  | cons d ds ih =>
    simp only [CommentsOK, lastEnd] at *
    obtain ⟨a, b, c', d', e, f⟩ := h
    have h1 := ih f
    have h2 := CommentsOK_le f
    simp only [triviaBytes, List.flatMap_cons, Comment.text] at *
    rw [h1, d', e, slice_append buf a (Nat.le_of_lt b), slice_append buf (by omega) h2.1]

theorem scanUntil_some {e r : Bytes} {k : Nat} (h : scanUntil e r = some k) :
    e.length ≤ k ∧ k ≤ r.length ∧ r.take k = r.take (k - e.length) ++ e := by
  induction r generalizing k with
  | nil => simp [scanUntil] at h
  | cons c t ih =>
    simp only [scanUntil] at h
    split at h
    · rename_i hc
      cases h
      have hc' : (c :: t).take e.length = e := by simpa using hc
      have hl : e.length ≤ (c :: t).length := by
        have := congrArg List.length hc'
        simp only [List.length_take] at this
        omega
      refine ⟨Nat.le_refl _, hl, ?_⟩
      simp [hc']
    · cases hh : scanUntil e t with
      | none => simp [hh] at h
      | some k' =>
        simp [hh] at h
        subst h
        obtain ⟨a, b, c'⟩ := ih hh
        refine ⟨by omega, by simp; omega, ?_⟩
        have : k' + 1 - e.length = (k' - e.length) + 1 := by omega
        rw [this]
        simp [c']

theorem isBlockCommentStart_len {rest : Bytes} (h : isBlockCommentStart rest = true) : 2 ≤ rest.length := by
  match rest with
  | [] => simp [isBlockCommentStart] at h
  | [_] => simp [isBlockCommentStart] at h
  | _ :: _ :: _ => simp

theorem skipComment_ok_le {rest : Bytes} {p0 : Nat} {np : Bool} {n : Nat} {he : Bool}
    (h : skipComment rest p0 np = .ok (n, he)) : n ≤ rest.length := by
  unfold skipComment at h
  split at h
  · cases h
    cases hs : scanUntil [10] rest with
    | none => simp
    | some k => simpa using (scanUntil_some hs).2.1
  · split at h
    · rename_i hb
      have h2 := isBlockCommentStart_len hb
      split at h
      · rename_i hs; cases h
        have := (scanUntil_some hs).2.1
        simp only [List.length_drop] at this
        omega
      · split at h
        · cases h; simp
        · cases h
    · cases h; simp

theorem skipComment_err_np {rest : Bytes} {p0 : Nat} {np : Bool} {n : Nat}
    (h : skipComment rest p0 np = .ok (n, true)) : np = true := by
  unfold skipComment at h
  split at h
  · cases h
  · split at h
    · split at h
      · cases h
      · split at h
        · rename_i hh; exact hh
        · cases h
    · cases h

/-- invariant of the trivia loop -/
theorem triviaLoop_ok {buf : Bytes} {np : Bool} {fuel pos : Nat} {cs : List Comment} {p0 : Nat}
    {pos' : Nat} {cs' : List Comment} {space : Bytes} {he : Bool}
    (h : triviaLoop buf np fuel pos cs = .ok (pos', cs', space, he))
    (hcs : CommentsOK buf p0 cs) (hle : lastEnd p0 cs = pos) :
    CommentsOK buf p0 cs' ∧ pos ≤ lastEnd p0 cs' ∧ lastEnd p0 cs' ≤ pos' ∧ pos' ≤ buf.length ∧
    space = slice buf (lastEnd p0 cs') pos' ∧
    (he = true → pos' < buf.length ∧ np = true) := by
  induction fuel generalizing pos cs with
  | zero => simp [triviaLoop] at h
  | succ fuel ih =>
    simp only [triviaLoop] at h
    split at h
    · cases h
    · rename_i space1 hsp
      obtain ⟨hs1, hs2, hs3⟩ := slice?_some hsp
      split at h
      · cases h
      · cases h
      · rename_i n he1 hsc
        have hn := skipComment_ok_le hsc
        simp only [List.length_drop] at hn
        split at h
        · rename_i hn0
          cases h
          refine ⟨hcs, by omega, by omega, hs2, ?_, by simp⟩
          rw [hle]; exact hs3
        · rename_i hn0
          split at h
          · cases h
          · rename_i raw hraw
            obtain ⟨hr1, hr2, hr3⟩ := slice?_some hraw
            have hn0' : n ≠ 0 := by simpa using hn0
            split at h
            · rename_i hhe
              cases h
              have hnp : np = true := skipComment_err_np (by rw [hsc, hhe])
              refine ⟨hcs, by omega, by omega, hs2, ?_, fun _ => ⟨by omega, hnp⟩⟩
              rw [hle]; exact hs3
            · have happ := CommentsOK_append (c := { space := space1, raw := raw, pos := pos + skipSpaces (buf.length + 1) (List.drop pos buf), «end» := pos + skipSpaces (buf.length + 1) (List.drop pos buf) + n })
                hcs (by simp; omega) (by simp; omega) (by simpa using hr2) (by simp [hle, hs3]) (by simpa using hr3)
              have := ih h happ.1 (by rw [happ.2])
              obtain ⟨a, b, c, d, e, f⟩ := this
              exact ⟨a, by omega, c, d, e, f⟩

/-- What one successful `nextToken` guarantees about the new token relative to the buffer. -/
structure Frame (buf : Bytes) (s s' : State) : Prop where
  pos_le : s.pos ≤ s'.pos
  le_len : s'.pos ≤ buf.length
  comments : CommentsOK buf s.pos s'.tok.comments
  space : s'.tok.space = slice buf (lastEnd s.pos s'.tok.comments) s'.tok.pos
  space_le : lastEnd s.pos s'.tok.comments ≤ s'.tok.pos
  raw : s'.tok.raw = slice buf s'.tok.pos s'.tok.end
  tok_le : s'.tok.pos ≤ s'.tok.end
  tok_end : s'.tok.end = s'.pos
  tile : triviaBytes s'.tok.comments ++ s'.tok.space ++ s'.tok.raw = slice buf s.pos s'.pos

theorem nextTokenCore_frame {buf : Bytes} {np : Bool} {s s' : State}
    (h : nextTokenCore buf np s = .ok s') : Frame buf s s' := by
  unfold nextTokenCore at h
  simp only at h
  split at h
  · cases h
  · cases h
  · rename_i pos comments space he htl
    have inv := triviaLoop_ok (p0 := s.pos) htl (by simp [CommentsOK]) (by simp [lastEnd])
    obtain ⟨i1, i2, i3, i4, i5, i6⟩ := inv
    have tb := triviaBytes_tile i1
    split at h
    · rename_i hhe
      split at h
      · cases h
      · rename_i raw hraw
        cases h
        obtain ⟨r1, r2, r3⟩ := slice?_some hraw
        refine ⟨by simp only; omega, Nat.le_refl _, i1, i5, i3, r3, r1, rfl, ?_⟩
        simp only
        rw [tb, i5, r3, slice_append buf i2 i3, slice_append buf (by omega) r1]
    · split at h
      · cases h
      · cases h
      · rename_i sc hsc
        split at h
        · cases h
        · rename_i raw hraw
          cases h
          obtain ⟨r1, r2, r3⟩ := slice?_some hraw
          refine ⟨by simp; omega, r2, i1, i5, i3, r3, r1, rfl, ?_⟩
          simp only
          rw [tb, i5, r3, slice_append buf i2 i3, slice_append buf (by omega) r1]

theorem nextToken_ok_core {buf : Bytes} {np : Bool} {s s' : State}
    (h : nextToken buf np s = .ok s') : nextTokenCore buf np s = .ok s' := by
  unfold nextToken at h
  split at h
  · simp only at h; split at h <;> cases h
  · exact h

/-- C13, per step: the new token, its comments and its space are exactly the bytes between the
old and the new cursor. -/
theorem nextToken_frame {buf : Bytes} {np : Bool} {s s' : State}
    (h : nextToken buf np s = .ok s') : Frame buf s s' :=
  nextTokenCore_frame (nextToken_ok_core h)

end MF.Lex
