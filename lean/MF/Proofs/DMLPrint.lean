/-
  MF.Proofs.DMLPrint — token level of C01 / C02 for the DML fragment: a token list that reads as the printed statement
  is a sentence of G_DML whose derivation tree is the statement up to positions (`print_derivable`); printing ignores
  positions and the spelling of position keywords (`sqlD_fixed`); the consumed tokens of a parsed statement read as its
  print once the optional INTO / FROM is put in (`parsed_prints`).
-/
import MF.Spec.DMLPrint
import MF.Proofs.DMLComplete
import MF.Proofs.ExprPrint
import MF.Proofs.ExprRoundTrip
namespace MF.DML
open MF MF.Expr

theorem erI_identOf {i : PIdent} {t : Token} (h : IsName i t) : erI (identOf t) = erI i := by
  simp [erI, Expr.identOf, h.2]

/-! ## (A) a printing is derivable, with the same tree up to positions -/

section
variable {rd : Expr → List Tok'} {c : Expr → Expr}

theorem printPath_derivable {ids : List PIdent} {p : List Token} (h : PrintPath ids p) :
    ∃ ids', PathD ids' p ∧ ids'.map erI = ids.map erI := by
  induction h with
  | one hn => exact ⟨[identOf _], .mk hn.1 .nil, by simp [erI_identOf hn]⟩
  | cons hn hd _ ih =>
    obtain ⟨ids', hp, he⟩ := ih
    cases hp with
    | mk ht' htl =>
      exact ⟨identOf _ :: identOf _ :: _, .mk hn.1 (.cons hd ht' htl), by
        simp only [List.map_cons] at he ⊢
        rw [erI_identOf hn, he]⟩

theorem printIds_derivable {ids : List PIdent} {p : List Token} (h : PrintIds ids p) :
    ∃ ids', IdListD ids' p ∧ ids'.map erI = ids.map erI := by
  induction h with
  | one hn => exact ⟨[identOf _], .one hn.1, by simp [erI_identOf hn]⟩
  | cons hn hc _ ih =>
    obtain ⟨ids', hp, he⟩ := ih
    exact ⟨identOf _ :: ids', .cons hn.1 hc hp, by simp only [List.map_cons]; rw [erI_identOf hn, he]⟩

theorem printCols_derivable {ids : List PIdent} {p : List Token} (h : PrintCols ids p) :
    ∃ ids', ColsD ids' p ∧ ids'.map erI = ids.map erI := by
  cases h with
  | empty hl hr => exact ⟨[], .empty hl hr, rfl⟩
  | list hl hd hr =>
    obtain ⟨ids', hp, he⟩ := printIds_derivable hd
    exact ⟨ids', .list hl hp hr, he⟩

variable (H : ∀ e x, PrintExpr rd e x → ExprD (c e) x)
include H

theorem printDefault_derivable {d : DefaultExpr Expr} {p : List Token} (h : PrintDefault rd d p) :
    ∃ d', DefaultD d' p ∧ eraseDefault d' = eraseDefault (d.map c) := by
  cases h with
  | dflt hk => exact ⟨.dflt _, .dflt hk, rfl⟩
  | expr he => exact ⟨.expr _, .expr (H _ _ he), rfl⟩

theorem printEntries_derivable {ds : List (DefaultExpr Expr)} {p : List Token} (h : PrintEntries rd ds p) :
    ∃ ds', EntriesD ds' p ∧ ds'.map eraseDefault = (ds.map (DefaultExpr.map c)).map eraseDefault := by
  induction h with
  | one hd =>
    obtain ⟨d', h1, h2⟩ := printDefault_derivable H hd
    exact ⟨[d'], .one h1, by simp [h2]⟩
  | cons hd hc _ ih =>
    obtain ⟨d', h1, h2⟩ := printDefault_derivable H hd
    obtain ⟨ds', h3, h4⟩ := ih
    exact ⟨d' :: ds', .cons h1 hc h3, by simp only [List.map_cons]; rw [h2, h4]⟩

theorem printRow_derivable {r : ValuesRow Expr} {p : List Token} (h : PrintRow rd r p) :
    ∃ r', RowD r' p ∧ eraseRow r' = eraseRow (r.map c) := by
  cases h with
  | empty he hl hr => exact ⟨_, .empty hl hr, by simp [eraseRow, ValuesRow.map, he]⟩
  | list hl hd hr =>
    obtain ⟨ds', h1, h2⟩ := printEntries_derivable H hd
    exact ⟨_, .list hl h1 hr, by simp only [eraseRow, ValuesRow.map]; rw [h2]⟩

theorem printRows_derivable {rs : List (ValuesRow Expr)} {p : List Token} (h : PrintRows rd rs p) :
    ∃ rs', RowsD rs' p ∧ rs'.map eraseRow = (rs.map (ValuesRow.map c)).map eraseRow := by
  induction h with
  | one hd =>
    obtain ⟨r', h1, h2⟩ := printRow_derivable H hd
    exact ⟨[r'], .one h1, by simp [h2]⟩
  | cons hd hc _ ih =>
    obtain ⟨r', h1, h2⟩ := printRow_derivable H hd
    obtain ⟨rs', h3, h4⟩ := ih
    exact ⟨r' :: rs', .cons h1 hc h3, by simp only [List.map_cons]; rw [h2, h4]⟩

theorem printItem_derivable {u : UpdateItem Expr} {p : List Token} (h : PrintItem rd u p) :
    ∃ u', ItemD u' p ∧ eraseItem u' = eraseItem (u.map c) := by
  cases h with
  | mk hp he hd =>
    obtain ⟨ids', h1, h2⟩ := printPath_derivable hp
    obtain ⟨d', h3, h4⟩ := printDefault_derivable H hd
    exact ⟨⟨ids', d'⟩, .mk h1 he h3, by simp only [eraseItem, UpdateItem.map]; rw [h2, h4]⟩

theorem printItems_derivable {us : List (UpdateItem Expr)} {p : List Token} (h : PrintItems rd us p) :
    ∃ us', ItemsD us' p ∧ us'.map eraseItem = (us.map (UpdateItem.map c)).map eraseItem := by
  induction h with
  | one hd =>
    obtain ⟨u', h1, h2⟩ := printItem_derivable H hd
    exact ⟨[u'], .one h1, by simp [h2]⟩
  | cons hd hc _ ih =>
    obtain ⟨u', h1, h2⟩ := printItem_derivable H hd
    obtain ⟨us', h3, h4⟩ := ih
    exact ⟨u' :: us', .cons h1 hc h3, by simp only [List.map_cons]; rw [h2, h4]⟩

theorem printWhere_derivable {w : Where Expr} {p : List Token} (h : PrintWhere rd w p) :
    ∃ w', WhereD w' p ∧ eraseWhere w' = eraseWhere (w.map c) := by
  cases h with
  | mk ht he => exact ⟨_, .mk ht (H _ _ he), rfl⟩

omit H in
theorem printAlias_derivable {a : Option AsAlias} {p : List Token} (h : PrintAlias a p) :
    ∃ a', AliasD a' p ∧ eraseAlias a' = eraseAlias a := by
  cases h with
  | none => exact ⟨none, .none, rfl⟩
  | @as_ a k t hs hk hn =>
    refine ⟨_, .as_ hk hn.1, ?_⟩
    cases a with
    | mk as al =>
      cases as with
      | none => simp at hs
      | some q => simp [eraseAlias, erI_identOf hn]
  | @bare a t hs hn =>
    refine ⟨_, .bare hn.1, ?_⟩
    cases a with
    | mk as al =>
      cases as with
      | none => simp [eraseAlias, erI_identOf hn]
      | some q => simp at hs

omit H in
theorem printOr_derivable {o : InsertOrType} {p : List Token} (h : PrintOr o p) : OrD o p := by
  cases h with
  | none => exact .none
  | update ho hu => exact .update ho hu
  | ignore ho hu => exact .ignore ho hu

/-- a token list that reads as the printed statement is a sentence of G_DML; its derivation tree is the statement up
to positions (and up to `c` in the slots) -/
theorem printStmt_derivable {s : Stmt Expr} {p : List Token} (h : PrintStmt rd s p) :
    ∃ s', StmtD s' p ∧ eraseS s' = eraseS (s.map c) := by
  cases h with
  | @insert k i v o p c0 r pos ot tbl cs vi hk ho hi hp hc hv hr =>
    obtain ⟨tbl', h1, h2⟩ := printPath_derivable hp
    obtain ⟨cs', h3, h4⟩ := printCols_derivable hc
    obtain ⟨rs', h5, h6⟩ := printRows_derivable H hr
    refine ⟨_, StmtD.insert (i := [i]) hk (printOr_derivable ho) (.some hi) h1 h3 hv h5, ?_⟩
    simp only [eraseS, Stmt.map, ValuesInput.map]
    rw [h2, h4, h6]
  | @delete k f p a w pos tbl al wh hk hf hp ha hw =>
    obtain ⟨tbl', h1, h2⟩ := printPath_derivable hp
    obtain ⟨al', h3, h4⟩ := printAlias_derivable ha
    obtain ⟨wh', h5, h6⟩ := printWhere_derivable H hw
    refine ⟨_, StmtD.delete (f := [f]) hk (.some hf) h1 h3 h5, ?_⟩
    simp only [eraseS, Stmt.map]
    rw [h2, h4, h6]
  | @update k s0 p a u w pos tbl al us wh hk hp ha hs hu hw =>
    obtain ⟨tbl', h1, h2⟩ := printPath_derivable hp
    obtain ⟨al', h3, h4⟩ := printAlias_derivable ha
    obtain ⟨us', h5, h6⟩ := printItems_derivable H hu
    obtain ⟨wh', h7, h8⟩ := printWhere_derivable H hw
    refine ⟨_, StmtD.update hk h1 h3 hs h5 h7, ?_⟩
    simp only [eraseS, Stmt.map]
    rw [h2, h4, h6, h8]
end

/-- the slot reading of `SQL()`: the printed tokens are the yield of the canonically spelled tree -/
theorem printExpr_sqlToks (e : Expr) (x : List Token) (h : PrintExpr sqlToks e x) : ExprD (canonKw e) x := by
  obtain ⟨hp, hn, hx⟩ := h
  refine ⟨?_, nf_canonKw e hn, by rw [hx, sqlToks_eq_yield e hp]⟩
  show precOK (canonKw e) = true
  rw [precOK_canonKw]; exact hp

theorem printExpr_yield (e : Expr) (x : List Token) (h : PrintExpr yield e x) : ExprD (id e) x := h

/-! ## (B) printing ignores positions and the spelling of position keywords -/

theorem pathSQL_er (t : List PIdent) : pathSQL (t.map erI) = pathSQL t := by
  simp [pathSQL, erI, List.map_map, Function.comp_def]

theorem colsSQL_er (cs : List PIdent) :
    (cs.map erI).map (fun i => identSQL i.name) = cs.map (fun i => identSQL i.name) := by
  simp [erI, List.map_map, Function.comp_def]

theorem sqlDefault_er (d : DefaultExpr Expr) : sqlDefault sqlE (eraseDefault d) = sqlDefault sqlE d := by
  cases d <;> rfl

theorem sqlRow_er (r : ValuesRow Expr) : sqlRow sqlE (eraseRow r) = sqlRow sqlE r := by
  simp [sqlRow, eraseRow, List.map_map, Function.comp_def, sqlDefault_er]

theorem sqlItem_er (u : UpdateItem Expr) : sqlItem sqlE (eraseItem u) = sqlItem sqlE u := by
  simp [sqlItem, eraseItem, pathSQL_er, sqlDefault_er]

theorem sqlAliasOpt_er (a : Option AsAlias) : sqlAliasOpt (eraseAlias a) = sqlAliasOpt a := by
  cases a with
  | none => rfl
  | some a => cases a with
    | mk as al => cases as <;> simp [sqlAliasOpt, eraseAlias, sqlAlias, erI]

/-- `SQL()` does not depend on the position fields -/
theorem sqlD_erase (s : Stmt Expr) : sqlD sqlE (eraseS s) = sqlD sqlE s := by
  cases s with
  | insert p o t cs v =>
    simp [sqlD, eraseS, pathSQL_er, erI, sqlInput, List.map_map, Function.comp_def, sqlRow_er]
  | delete p t a w => simp [sqlD, eraseS, pathSQL_er, sqlAliasOpt_er, sqlWhere, eraseWhere]
  | update p t a us w =>
    simp [sqlD, eraseS, pathSQL_er, sqlAliasOpt_er, sqlWhere, eraseWhere, List.map_map, Function.comp_def, sqlItem_er]

theorem sqlDefault_canon (d : DefaultExpr Expr) : sqlDefault sqlE (d.map canonKw) = sqlDefault sqlE d := by
  cases d with
  | dflt p => rfl
  | expr e => exact sqlE_canonKw e

theorem sqlRow_canon (r : ValuesRow Expr) : sqlRow sqlE (r.map canonKw) = sqlRow sqlE r := by
  simp [sqlRow, ValuesRow.map, List.map_map, Function.comp_def, sqlDefault_canon]

theorem sqlItem_canon (u : UpdateItem Expr) : sqlItem sqlE (u.map canonKw) = sqlItem sqlE u := by
  simp [sqlItem, UpdateItem.map, sqlDefault_canon]

/-- `SQL()` does not depend on how the position keywords of the slots were spelled -/
theorem sqlD_canon (s : Stmt Expr) : sqlD sqlE (canonS s) = sqlD sqlE s := by
  cases s with
  | insert p o t cs v =>
    simp [sqlD, canonS, Stmt.map, ValuesInput.map, sqlInput, List.map_map, Function.comp_def, sqlRow_canon]
  | delete p t a w => simp [sqlD, canonS, Stmt.map, sqlWhere, Where.map, sqlE_canonKw]
  | update p t a us w =>
    simp [sqlD, canonS, Stmt.map, sqlWhere, Where.map, sqlE_canonKw, List.map_map, Function.comp_def, sqlItem_canon]

/-- fixed point: a tree equal to `s` up to positions and position-keyword spelling prints the same text -/
theorem sqlD_fixed {s s' : Stmt Expr} (h : eraseS s' = eraseS (canonS s)) : sqlD sqlE s' = sqlD sqlE s := by
  rw [← sqlD_erase s', h, sqlD_erase, sqlD_canon]

/-! ## (C) the consumed tokens of a parsed statement read as its print, once the optional INTO / FROM is put in -/

theorem isName_identOf {t : Token} (h : tk t.kind = .ident) : IsName (identOf t) t := ⟨h, rfl⟩

theorem pathTail_prints {t : Token} (ht : tk t.kind = .ident) {ids : List PIdent} {p : List Token} (h : PathTailD ids p) :
    PrintPath (identOf t :: ids) (t :: p) := by
  induction h generalizing t with
  | nil => exact .one (isName_identOf ht)
  | cons hd ht' _ ih => exact .cons (isName_identOf ht) hd (ih ht')

theorem path_prints {ids : List PIdent} {p : List Token} (h : PathD ids p) : PrintPath ids p := by
  cases h with
  | mk ht htl => exact pathTail_prints ht htl

theorem idList_prints {ids : List PIdent} {p : List Token} (h : IdListD ids p) : PrintIds ids p := by
  induction h with
  | one ht => exact .one (isName_identOf ht)
  | cons ht hc _ ih => exact .cons (isName_identOf ht) hc ih

theorem cols_prints {ids : List PIdent} {p : List Token} (h : ColsD ids p) : PrintCols ids p := by
  cases h with
  | empty hl hr => exact .empty hl hr
  | list hl hd hr => exact .list hl (idList_prints hd) hr

theorem default_prints {d : DefaultExpr Expr} {p : List Token} (h : DefaultD d p) : PrintDefault yield d p := by
  cases h with
  | dflt hk => exact .dflt hk
  | expr he => exact .expr he

theorem entries_prints {ds : List (DefaultExpr Expr)} {p : List Token} (h : EntriesD ds p) : PrintEntries yield ds p := by
  induction h with
  | one hd => exact .one (default_prints hd)
  | cons hd hc _ ih => exact .cons (default_prints hd) hc ih

theorem row_prints {r : ValuesRow Expr} {p : List Token} (h : RowD r p) : PrintRow yield r p := by
  cases h with
  | empty hl hr => exact .empty rfl hl hr
  | list hl hd hr => exact .list hl (entries_prints hd) hr

theorem rows_prints {rs : List (ValuesRow Expr)} {p : List Token} (h : RowsD rs p) : PrintRows yield rs p := by
  induction h with
  | one hd => exact .one (row_prints hd)
  | cons hd hc _ ih => exact .cons (row_prints hd) hc ih

theorem item_prints {u : UpdateItem Expr} {p : List Token} (h : ItemD u p) : PrintItem yield u p := by
  cases h with
  | mk hp he hd => exact .mk (path_prints hp) he (default_prints hd)

theorem items_prints {us : List (UpdateItem Expr)} {p : List Token} (h : ItemsD us p) : PrintItems yield us p := by
  induction h with
  | one hd => exact .one (item_prints hd)
  | cons hd hc _ ih => exact .cons (item_prints hd) hc ih

theorem where_prints {w : Where Expr} {p : List Token} (h : WhereD w p) : PrintWhere yield w p := by
  cases h with
  | mk ht he => exact .mk ht he

theorem alias_prints {a : Option AsAlias} {p : List Token} (h : AliasD a p) : PrintAlias a p := by
  cases h with
  | none => exact .none
  | as_ ha ht => exact .as_ rfl ha (isName_identOf ht)
  | bare ht => exact .bare rfl (isName_identOf ht)

theorem or_prints {o : InsertOrType} {p : List Token} (h : OrD o p) : PrintOr o p := by
  cases h with
  | none => exact .none
  | update ho hu => exact .update ho hu
  | ignore ho hu => exact .ignore ho hu

/-- losslessness at token level: the tokens a statement was parsed from read as its print — every keyword, name and
expression token in place, AS exactly where it was written — after inserting the INTO of an INSERT / the FROM of a
DELETE when it was left out.  Nothing else is added, nothing is lost. -/
theorem parsed_prints {s : Stmt Expr} {pre : List Token} (h : StmtD s pre) :
    ∃ pre', AddNoise pre pre' ∧ PrintStmt yield s pre' := by
  cases h with
  | @insert k v o i p c r ot tbl cs rs hk ho hi hp hc hv hr =>
    cases hi with
    | none =>
      refine ⟨k :: (o ++ ({ kind := K "INTO" } :: (p ++ (c ++ v :: r)))), .inr ⟨k :: o, { kind := K "INTO" }, p ++ (c ++ v :: r), ?_, ?_, .inl rfl⟩, ?_⟩
      · simp
      · simp
      · exact .insert (o := o) (p := p) (c := c) (r := r) (vi := ⟨v.pos, rs⟩) hk (or_prints ho) rfl (path_prints hp) (cols_prints hc) hv (rows_prints hr)
    | @some t ht =>
      exact ⟨k :: (o ++ (t :: (p ++ (c ++ v :: r)))), .inl rfl, .insert (o := o) (p := p) (c := c) (r := r) (vi := ⟨v.pos, rs⟩) hk (or_prints ho) ht (path_prints hp) (cols_prints hc) hv (rows_prints hr)⟩
  | @delete k f p a w tbl al wh hk hf hp ha hw =>
    cases hf with
    | none =>
      refine ⟨k :: { kind := K "FROM" } :: (p ++ (a ++ w)), .inr ⟨[k], { kind := K "FROM" }, p ++ (a ++ w), ?_, ?_, .inr rfl⟩, ?_⟩
      · simp
      · simp
      · exact .delete (p := p) (a := a) (w := w) hk rfl (path_prints hp) (alias_prints ha) (where_prints hw)
    | @some t ht =>
      exact ⟨k :: t :: (p ++ (a ++ w)), .inl rfl, .delete (p := p) (a := a) (w := w) hk ht (path_prints hp) (alias_prints ha) (where_prints hw)⟩
  | update hk hp ha hs hu hw =>
    exact ⟨_, .inl rfl, .update hk (path_prints hp) (alias_prints ha) hs (items_prints hu) (where_prints hw)⟩

theorem defaultMap_id : DefaultExpr.map (id : Expr → Expr) = id := by
  funext d; cases d <;> rfl
theorem rowMap_id : ValuesRow.map (id : Expr → Expr) = id := by
  funext r; cases r; simp [ValuesRow.map, defaultMap_id]
theorem itemMap_id : UpdateItem.map (id : Expr → Expr) = id := by
  funext u; cases u; simp [UpdateItem.map, defaultMap_id]
theorem stmtMap_id (s : Stmt Expr) : s.map id = s := by
  cases s with
  | insert p o t cs v => cases v; simp [Stmt.map, ValuesInput.map, rowMap_id]
  | delete p t a w => cases w; simp [Stmt.map, Where.map]
  | update p t a us w => cases w; simp [Stmt.map, Where.map, itemMap_id]

end MF.DML
