/-
  MF.Proofs.ExprPosC06 — assembly of C06 for the expression fragment: for every sub-expression `n` of a parsed tree
  the slice `buf[Pos(n) : End(n)]` lexes (MF/Proofs/LexSlice.lean) and parses (MF/Proofs/ExprPosExact.lean) to `n` with
  all positions moved `Pos(n)` bytes to the left.
-/
import MF.Proofs.ExprPosExact
import MF.Proofs.LexSlice
namespace MF.Expr
open MF.Lex.S (shiftT bareT slice_lex)

/-! ## the first token of an expression is not `.` -/

/-- class of the first token (`<eof>` for the empty list) -/
def headK (l : List Tok') : TK := (l.head?.map (·.k)).getD .eof

theorem headK_cons (y : Tok') (l : List Tok') : headK (y :: l) = y.k := rfl
theorem headK_append {a b : List Tok'} (h : a ≠ []) : headK (a ++ b) = headK a := by
  cases a with
  | nil => exact absurd rfl h
  | cons y a => rfl

theorem yield_head : (x : Expr) → nf x = true → headK (yield x) ≠ .dot ∧ yield x ≠ []
  | .null, _ | .str _, _ | .bytes _, _ | .param _, _ | .ident _, _ => by simp [yield, headK_cons, T]
  | .bool b, _ => by cases b <;> simp [yield, headK_cons, T, boolTK]
  | .int none _, _ | .float none _, _ => by simp [yield, signToks, headK_cons]
  | .int (some s) _, _ | .float (some s) _, _ => by cases s <;> simp [yield, signToks, headK_cons, T, Sign.tk]
  | .path [], h => by simp [nf] at h
  | .path (a :: ns), _ => by
    cases ns with
    | nil => simp [yield, pathToks, headK_cons]
    | cons b ns => simp [yield, pathToks, headK_cons]
  | .paren _, _ | .caseE .., _ | .ifE .., _ | .array .nil, _ | .array (.cons _ _), _ | .cast .., _ => by
    simp [yield, headK_cons, T]
  | .unary op _, _ => by cases op <;> simp [yield, headK_cons, T, UOp.tk]
  | .bin _ l _, h => by
    obtain ⟨h1, h2⟩ := yield_head l (by simp only [nf, Bool.and_eq_true] at h; exact h.1)
    simp only [yield]; exact ⟨by rw [headK_append h2]; exact h1, by simp [h2]⟩
  | .isNull e _, h => by
    obtain ⟨h1, h2⟩ := yield_head e (by simpa [nf] using h)
    simp only [yield]; exact ⟨by rw [headK_append h2]; exact h1, by simp [h2]⟩
  | .isBool e _ _, h => by
    obtain ⟨h1, h2⟩ := yield_head e (by simpa [nf] using h)
    simp only [yield]; exact ⟨by rw [headK_append h2]; exact h1, by simp [h2]⟩
  | .between _ e _ _, h => by
    obtain ⟨h1, h2⟩ := yield_head e (by simp only [nf, Bool.and_eq_true] at h; exact h.1.1)
    simp only [yield]; exact ⟨by rw [headK_append h2]; exact h1, by simp [h2]⟩
  | .inList _ e _ _, h => by
    obtain ⟨h1, h2⟩ := yield_head e (by simp only [nf, Bool.and_eq_true] at h; exact h.1.1)
    simp only [yield]; exact ⟨by rw [headK_append h2]; exact h1, by simp [h2]⟩
  | .inUnnest _ e _, h => by
    obtain ⟨h1, h2⟩ := yield_head e (by simp only [nf, Bool.and_eq_true] at h; exact h.1)
    simp only [yield]; exact ⟨by rw [headK_append h2]; exact h1, by simp [h2]⟩
  | .sel e _, h => by
    obtain ⟨h1, h2⟩ := yield_head e (by simp only [nf, Bool.and_eq_true] at h; exact h.1)
    simp only [yield]; exact ⟨by rw [headK_append h2]; exact h1, by simp [h2]⟩
  | .index e none _, h => by
    obtain ⟨h1, h2⟩ := yield_head e (by simp only [nf, Bool.and_eq_true] at h; exact h.1)
    simp only [yield]; exact ⟨by rw [headK_append h2]; exact h1, by simp [h2]⟩
  | .index e (some (_, _)) _, h => by
    obtain ⟨h1, h2⟩ := yield_head e (by simp only [nf, Bool.and_eq_true] at h; exact h.1.1)
    simp only [yield]; exact ⟨by rw [headK_append h2]; exact h1, by simp [h2]⟩

theorem Pre.head {all : List Token} {k : Nat} {ys : List Tok'} (h : Pre all k ys) (hne : ys ≠ []) :
    tk (tokAt all k).kind = headK ys := by
  cases ys with
  | nil => exact absurd rfl hne
  | cons y ys =>
    obtain ⟨h1, _⟩ := Pre_cons'.mp h
    rw [h1.tk]; rfl

theorem kind_ne_dot {t : Token} (h : tk t.kind ≠ .dot) : t.kind ≠ K "." := by
  intro hk; apply h; rw [hk]; decide

/-! ## list bookkeeping -/

theorem tokAt_cons_zero (a : Token) (l : List Token) : tokAt (a :: l) 0 = a := rfl
theorem tokAt_cons_succ (a : Token) (l : List Token) (k : Nat) : tokAt (a :: l) (k + 1) = tokAt l k := rfl

theorem split_at (ts : List Token) (k n : Nat) (h1 : 1 ≤ n) (h2 : k + n < ts.length) :
    ts = ts.take k ++ tokAt ts k :: ((ts.drop (k + 1)).take (n - 1) ++ tokAt ts (k + n) :: ts.drop (k + n + 1)) := by
  have e1 : ts.drop k = tokAt ts k :: ts.drop (k + 1) := by
    rw [List.drop_eq_getElem_cons (by omega), tokAt_of_getElem? (List.getElem?_eq_getElem (by omega))]
  have e2 : ts.drop (k + n) = tokAt ts (k + n) :: ts.drop (k + n + 1) := by
    rw [List.drop_eq_getElem_cons (by omega), tokAt_of_getElem? (List.getElem?_eq_getElem (by omega))]
  have e3 : (ts.drop (k + 1)).drop (n - 1) = ts.drop (k + n) := by
    rw [List.drop_drop]; congr 1; omega
  calc ts = ts.take k ++ ts.drop k := (List.take_append_drop k ts).symm
    _ = ts.take k ++ tokAt ts k :: ts.drop (k + 1) := by rw [e1]
    _ = ts.take k ++ tokAt ts k :: ((ts.drop (k + 1)).take (n - 1) ++ (ts.drop (k + 1)).drop (n - 1)) := by
        rw [List.take_append_drop]
    _ = _ := by rw [e3, e2]

theorem tokAt_seg (ts : List Token) (k n j : Nat) (hj : j < n - 1) (h2 : k + n < ts.length) :
    ((ts.drop (k + 1)).take (n - 1))[j]? = some (tokAt ts (k + 1 + j)) := by
  rw [List.getElem?_take_of_lt hj, List.getElem?_drop, getElem?_tokAt (by omega)]

/-! ## from the token range of a sub-expression to the tokens of its slice -/

/-- the tokens of the slice `buf[pos(token k) : end(token k+n-1)]` are the tokens `k … k+n-1` moved to the left -/
theorem slice_toks {buf : Bytes} {ts : List Token} (hl : Lex.lexAll buf = .ok ts) {k n : Nat} (h1 : 1 ≤ n)
    (h2 : k + n < ts.length) (hprev : PrevOK ts k) (hfirst : tk (tokAt ts k).kind ≠ .dot) :
    ∃ ts', Lex.lexAll (slice buf (tokAt ts k).pos (tokAt ts (k + n - 1)).end) = .ok ts' ∧
      SliceToks ts k (k + n) (tokAt ts k).pos ts' := by
  have L := lexAll_lexed hl
  have hsplit := split_at ts k n h1 h2
  rw [hsplit] at hl
  have hlen_seg : ((ts.drop (k + 1)).take (n - 1)).length = n - 1 := by
    rw [List.length_take, List.length_drop]; omega
  -- the last token of the range
  have hlast : ((tokAt ts k :: (ts.drop (k + 1)).take (n - 1)).getLast (by simp)) = tokAt ts (k + n - 1) := by
    rcases Nat.eq_or_lt_of_le h1 with h1' | h1'
    · subst h1'
      simp
    · have hne : (ts.drop (k + 1)).take (n - 1) ≠ [] := by
        intro h0; rw [h0] at hlen_seg; simp at hlen_seg; omega
      rw [List.getLast_cons hne, List.getLast_eq_getElem]
      have := tokAt_seg ts k n (n - 1 - 1) (by omega) h2
      rw [List.getElem?_eq_some_iff] at this
      obtain ⟨_, hv⟩ := this
      simp only [hlen_seg]
      rw [hv]
      congr 1; omega
  have hmem : ∀ y ∈ tokAt ts k :: (ts.drop (k + 1)).take (n - 1), ∃ j, j < n ∧ y = tokAt ts (k + j) := by
    intro y hy
    rcases List.mem_cons.mp hy with rfl | hy
    · exact ⟨0, by omega, rfl⟩
    · obtain ⟨j, hj, rfl⟩ := List.getElem_of_mem hy
      rw [hlen_seg] at hj
      have := tokAt_seg ts k n j hj h2
      rw [List.getElem?_eq_some_iff] at this
      obtain ⟨_, hv⟩ := this
      exact ⟨j + 1, by omega, by rw [hv]; congr 1; omega⟩
  obtain ⟨eofT, hlex, e1, _, _⟩ := slice_lex (m := (tokAt ts (k + n - 1)).end) hl
    (by
      intro hne
      have hk : 0 < k := by
        rcases Nat.eq_zero_or_pos k with h0 | h0
        · subst h0; simp at hne
        · exact h0
      rcases hprev with h0 | h0
      · omega
      · rw [List.getLast_eq_getElem]
        have hlt : k - 1 < ts.length := by omega
        simp only [List.length_take, Nat.min_eq_left (by omega : k ≤ ts.length)]
        rw [List.getElem_take]
        have := tokAt_of_getElem? (List.getElem?_eq_getElem hlt)
        rw [← this]
        exact kind_ne_dot h0)
    (kind_ne_dot hfirst)
    (by
      intro y hy
      obtain ⟨j, hj, rfl⟩ := hmem y hy
      exact L.end_le_end (by omega) (by omega))
    (by rw [hlast])
    (L.end_le (by omega))
  refine ⟨_, hlex, ?_, ?_, ?_⟩
  · simp only [List.length_cons, List.length_append, List.length_map, hlen_seg, List.length_nil]
    omega
  · intro j hj
    have hj' : j < n := by omega
    cases j with
    | zero =>
      rw [tokAt_cons_zero, Nat.add_zero]
      exact ⟨rfl, rfl, rfl, rfl, rfl⟩
    | succ j =>
      rw [tokAt_cons_succ]
      have hseg := tokAt_seg ts k n j (by omega) h2
      have : (((ts.drop (k + 1)).take (n - 1)).map (shiftT (tokAt ts k).pos) ++ [eofT])[j]? =
          some (shiftT (tokAt ts k).pos (tokAt ts (k + 1 + j))) := by
        rw [List.getElem?_append_left (by rw [List.length_map, hlen_seg]; omega), List.getElem?_map, hseg]
        rfl
      rw [tokAt_of_getElem? this, show k + (j + 1) = k + 1 + j by omega]
      exact ⟨rfl, rfl, rfl, rfl, rfl⟩
  · have : k + n - k = (n - 1) + 1 := by omega
    rw [this, tokAt_cons_succ]
    have : (((ts.drop (k + 1)).take (n - 1)).map (shiftT (tokAt ts k).pos) ++ [eofT])[n - 1]? = some eofT := by
      rw [List.getElem?_append_right (by rw [List.length_map, hlen_seg]; exact Nat.le_refl _), List.length_map, hlen_seg]
      simp
    rw [tokAt_of_getElem? this]; exact e1

/-- **C06 for the expression fragment** (see MF/Props/C06Expr.lean for the reading) -/
theorem expr_exact_proof {buf : Bytes} {ts : List Token} {fuel : Nat} {e : PExpr} (hl : Lex.lexAll buf = .ok ts)
    (hp : parsePTop fuel ts = .ok e) :
    ∀ n ∈ subsP e, (∀ t ∈ ts, posP n ≤ t.pos → t.end ≤ endP n → isCastLike t = false) →
      ∃ ts' N, Lex.lexAll (slice buf (posP n) (endP n)) = .ok ts' ∧
        ∀ fuel', N ≤ fuel' → parsePTop fuel' ts' = .ok (shiftP (posP n) n) := by
  intro n hn hcast
  have F := top_facts hl hp
  have hsub := subs_ok (all := ts) (erase e) 0 F.pre F.nf F.prec (Or.inl rfl) n (by rw [F.placed]; exact hn)
  obtain ⟨k, _, hk2, hplace, hpre, hprev, hnf, hprec⟩ := hsub
  rw [Nat.zero_add] at hk2
  have hok := place_ok F.lexed.tok (erase n) k hpre hnf
  have hpos := hok.pos; have hend := hok.end_; have hnpos := hok.npos
  rw [hplace] at hpos hend
  have hlt : k + ntok (erase n) < ts.length := by have := F.lt; omega
  have hfirst : tk (tokAt ts k).kind ≠ .dot := by
    obtain ⟨h1, h2⟩ := yield_head (erase n) hnf
    rw [hpre.head h2]; exact h1
  obtain ⟨ts', hlex, hst⟩ := slice_toks hl hnpos hlt hprev hfirst
  rw [← hpos, ← hend] at hlex
  rw [← hpos] at hst
  have L := F.lexed
  obtain ⟨N, hN⟩ := exact_parse hplace hpre hnf hprec hst (by
    intro j hj
    apply hcast _ (tokAt_mem (by omega))
    · rw [hpos]; exact L.pos_le_pos (by omega) (by omega)
    · rw [hend]; exact L.end_le_end (by omega) (by omega))
  exact ⟨ts', N, hlex, hN⟩

/-! ## inputs the channel compares contain no cast-like identifier -/

theorem isCastLike_ident {t : Token} (h : isCastLike t = true) : tk t.kind = .ident := by
  simp only [isCastLike, Token.isKeywordLike, Bool.or_eq_true, Bool.and_eq_true, beq_iff_eq] at h
  rcases h with h | h <;> rw [h.1] <;> rfl

theorem outsideScan_cast : ∀ (ts : List Token) (prev : TK) (stack : List Bool),
    outsideScan prev stack ts = false → ∀ t ∈ ts, isCastLike t = false
  | [], _, _, _ => by simp
  | u :: ts, prev, stack, h => by
    intro t ht
    unfold outsideScan at h
    simp only at h
    split at h
    · cases h
    · split at h
      · cases h
      · rename_i hc2
        split at h
        · cases h
        · split at h
          · cases h
          · rcases List.mem_cons.mp ht with rfl | ht
            · cases hc : isCastLike t with
              | false => rfl
              | true =>
                exfalso
                apply hc2
                simp [isCastLike_ident hc, hc]
            · exact outsideScan_cast ts _ _ h t ht

theorem tokenOutside_cast {ts : List Token} (h : tokenOutside ts = false) : ∀ t ∈ ts, isCastLike t = false :=
  outsideScan_cast ts _ _ h

end MF.Expr
