/-
  `%02x` / `%04x` / `%08x` (model: `hex2`, `hex4`, `hex8`) are read back by the lexer's `strconv.ParseUint(s, 16, …)`
  (model: `parseUint?`).  Proved compositionally over `parseUintAux`.
-/
import MF.Model.Quote
import MF.Model.Lexer
import MF.Proofs.Basic
namespace MF.Quote
open MF.Lex

theorem hexLower_digit : ∀ d : Fin 16,
    Char.isHexDigit (hexLower d.val) = true ∧ digitVal? 16 (hexLower d.val) = some d.val := by
  decide +kernel

theorem hexLower_isHex {d : Nat} (h : d < 16) : Char.isHexDigit (hexLower d) = true :=
  (hexLower_digit ⟨d, h⟩).1

theorem hexLower_val {d : Nat} (h : d < 16) : digitVal? 16 (hexLower d) = some d :=
  (hexLower_digit ⟨d, h⟩).2

theorem parseUintAux_hex2 (a : Nat) (rest : Bytes) (acc : Nat) :
    parseUintAux 16 (hex2 a ++ rest) acc = parseUintAux 16 rest (acc * 256 + a % 256) := by
  simp only [hex2, List.cons_append, List.nil_append, parseUintAux,
    hexLower_val (show a / 16 % 16 < 16 by omega), hexLower_val (show a % 16 < 16 by omega)]
  congr 1
  omega

theorem parseUintAux_hex4 (a : Nat) (rest : Bytes) (acc : Nat) :
    parseUintAux 16 (hex4 a ++ rest) acc = parseUintAux 16 rest (acc * 65536 + a % 65536) := by
  unfold hex4
  rw [List.append_assoc, parseUintAux_hex2, parseUintAux_hex2]
  have : (acc * 256 + a / 256 % 256) * 256 + a % 256 % 256 = acc * 65536 + a % 65536 := by omega
  rw [this]

theorem parseUintAux_hex8 (a : Nat) (rest : Bytes) (acc : Nat) :
    parseUintAux 16 (hex8 a ++ rest) acc = parseUintAux 16 rest (acc * 4294967296 + a % 4294967296) := by
  unfold hex8
  rw [List.append_assoc, parseUintAux_hex4, parseUintAux_hex4]
  have : (acc * 65536 + a / 65536 % 65536) * 65536 + a % 65536 % 65536 = acc * 4294967296 + a % 4294967296 := by omega
  rw [this]

theorem hex2_length (n : Nat) : (hex2 n).length = 2 := rfl
theorem hex4_length (n : Nat) : (hex4 n).length = 4 := rfl
theorem hex8_length (n : Nat) : (hex8 n).length = 8 := rfl

theorem parseUint?_of_aux {s : Bytes} {v maxv : Nat} (hne : s ≠ []) (h : parseUintAux 16 s 0 = some v) (hv : v ≤ maxv) :
    parseUint? s 16 maxv = some v := by
  unfold parseUint?
  cases s with
  | nil => exact absurd rfl hne
  | cons c t => simp only [h, hv, if_true]

/-- Item 2 (`%02x`) -/
theorem parseUint_hex2 {n : Nat} (h : n < 256) : parseUint? (hex2 n) 16 255 = some n := by
  apply parseUint?_of_aux (by simp [hex2])
  · have := parseUintAux_hex2 n [] 0
    simp only [List.append_nil, parseUintAux] at this
    rw [this]; congr 1; omega
  · omega

/-- Item 2 (`%04x`) -/
theorem parseUint_hex4 {n : Nat} (h : n < 65536) : parseUint? (hex4 n) 16 0xFFFFFFFF = some n := by
  apply parseUint?_of_aux (by simp [hex4, hex2])
  · have := parseUintAux_hex4 n [] 0
    simp only [List.append_nil, parseUintAux] at this
    rw [this]; congr 1; omega
  · omega

/-- Item 2 (`%08x`) -/
theorem parseUint_hex8 {n : Nat} (h : n < 2 ^ 32) : parseUint? (hex8 n) 16 0xFFFFFFFF = some n := by
  apply parseUint?_of_aux (by simp [hex8, hex4, hex2])
  · have := parseUintAux_hex8 n [] 0
    simp only [List.append_nil, parseUintAux] at this
    rw [this]; congr 1; omega
  · omega

/-- Item 2: every digit produced is a hex digit -/
theorem hex2_isHex (n : Nat) : ∀ c ∈ hex2 n, Char.isHexDigit c = true := by
  intro c hc
  simp only [hex2, List.mem_cons, List.not_mem_nil, or_false] at hc
  rcases hc with rfl | rfl
  · exact hexLower_isHex (by omega)
  · exact hexLower_isHex (by omega)

theorem hex4_isHex (n : Nat) : ∀ c ∈ hex4 n, Char.isHexDigit c = true := by
  intro c hc
  simp only [hex4, List.mem_append] at hc
  rcases hc with h | h <;> exact hex2_isHex _ c h

theorem hex8_isHex (n : Nat) : ∀ c ∈ hex8 n, Char.isHexDigit c = true := by
  intro c hc
  simp only [hex8, List.mem_append] at hc
  rcases hc with h | h <;> exact hex4_isHex _ c h

end MF.Quote
