/-
  MF.Proofs.TypeDeriv — trees and derivations of G_T.

  * `yield_typeD`: the yield of a `wf` tree, read as token kinds, is a sentence of G_T (so a tree returned by the
    parser IS a derivation of G_T over the tokens it consumed: `match_typeD`);
-/
import MF.Proofs.TypeBasic
namespace MF.TypeP
open MF.TypeG

/-! ## classes and kinds -/

/-- the token kind of a class of the type vocabulary -/
def kindOf : TK → TokKind
  | .eof => .eof | .ident => .ident
  | .array => K "ARRAY" | .struct_ => K "STRUCT" | .lt => K "<" | .gt => K ">" | .shr => K ">>" | .ltgt => K "<>"
  | .comma => K "," | .dot => K "."
  | .other => .bad

theorem beq_B_eq {a b : Bytes} (h : (a == b) = true) : a = b := by simpa using h

theorem symTK_inv {s : Bytes} {c : TK} (h : symTK s = c) (hc : c ≠ .other) : TokKind.sym s = kindOf c := by
  unfold symTK at h
  cases hf : symTable.find? (fun p => B p.1 == s) with
  | none => rw [hf] at h; exact absurd h.symm hc
  | some p =>
    rw [hf] at h
    have hm := List.mem_of_find?_eq_some hf
    have hb := List.find?_some hf
    have hs : s = B p.1 := (beq_B_eq hb).symm
    subst hs
    simp only at h
    subst h
    simp only [symTable, List.mem_cons, List.not_mem_nil, or_false] at hm
    rcases hm with rfl | rfl | rfl | rfl | rfl | rfl | rfl | rfl <;> rfl

/-- a token of a known class has the kind of that class -/
theorem kind_of_tk {k : TokKind} {c : TK} (h : tk k = c) (hc : c ≠ .other) : k = kindOf c := by
  cases k with
  | sym s => exact symTK_inv h hc
  | eof => simp [tk] at h; subst h; rfl
  | ident => simp [tk] at h; subst h; rfl
  | _ => simp [tk] at h; exact absurd h.symm hc

theorem tk_kindOf (c : TK) (hc : c ≠ .other) : tk (kindOf c) = c := by
  cases c <;> first | rfl | decide | exact absurd rfl hc

/-- kind of a described token -/
def YT.kind (y : YT) : TokKind := kindOf y.cls

/-! ## the yield is a sentence -/

theorem sepBy_cons {α : Type} (sep a : List α) (l : List (List α)) :
    sepBy sep (a :: l) = a ++ (l.map (sep ++ ·)).flatten := by
  induction l generalizing a with
  | nil => simp [sepBy]
  | cons b l ih => simp [sepBy, ih]

theorem yieldPath_kinds (a : Ident) (rest : List Ident) :
    (yieldPath (a :: rest)).map YT.kind = pathKinds rest.length := by
  induction rest generalizing a with
  | nil => rfl
  | cons b rest ih =>
    simp only [yieldPath, List.map_cons, List.length_cons, pathKinds, ih]
    rfl

mutual
theorem yield_typeD : ∀ t : Ty, wf t = true → TypeD ((yieldT t).map YT.kind)
  | .simple p n, _ => TypeD.path 0
  | .named [], h => by simp [wf] at h
  | .named (a :: rest), _ => by
    simp only [yieldT, yieldPath_kinds]
    exact TypeD.path _
  | .array a g item, h => by
    have := yield_typeD item (by simpa [wf] using h)
    simp only [yieldT, List.map_cons, List.map_append, List.map_nil]
    exact TypeD.array this
  | .struct s g fs, h => by
    obtain ⟨l, hl, e1, _⟩ := yield_fieldsD fs (by simpa [wf] using h)
    simp only [yieldT, List.map_cons, List.map_append, List.map_nil, e1]
    exact TypeD.struct l hl
theorem yield_fieldsD : ∀ fs : Fields, wfs fs = true →
    ∃ l : List (Bool × List TokKind), (∀ f ∈ l, TypeD f.2) ∧
      (yieldFs fs).map YT.kind = sepBy [K ","] (l.map fieldKinds) ∧
      (yieldMore fs).map YT.kind = (l.map (fun f => [K ","] ++ fieldKinds f)).flatten
  | .nil, _ => ⟨[], by simp, rfl, rfl⟩
  | .cons i t rest, h => by
    have hw : wf t = true ∧ wfs rest = true := by simpa [wfs] using h
    have ht := yield_typeD t hw.1
    obtain ⟨l, hl, _, e2⟩ := yield_fieldsD rest hw.2
    refine ⟨(i.isSome, (yieldT t).map YT.kind) :: l, ?_, ?_, ?_⟩
    · intro f hf
      simp only [List.mem_cons] at hf
      rcases hf with rfl | hf
      · exact ht
      · exact hl f hf
    · rw [List.map_cons, sepBy_cons]
      simp only [yieldFs, List.map_append, e2, List.map_map]
      cases i <;> simp [fieldKinds, yieldName, YT.kind, YT.cls, kindOf, Function.comp_def]
    · simp only [yieldMore, List.map_cons, List.map_append, e2, List.flatten_cons]
      cases i <;> simp [fieldKinds, yieldName, YT.kind, YT.cls, kindOf]
end

theorem match_kinds {ys : List YT} {ts : List Token} (h : Match ys ts) (hy : ∀ y ∈ ys, y.cls ≠ .other) :
    ts.map (·.kind) = ys.map YT.kind := by
  induction ys generalizing ts with
  | nil => rw [h.nil_left]; rfl
  | cons y ys ih => cases ts with
    | nil => exact absurd h match_cons_nil
    | cons t ts =>
      simp only [List.map_cons]
      rw [ih h.2 (fun z hz => hy z (by simp [hz]))]
      rw [kind_of_tk (YT.ok_cls h.1) (hy y (by simp))]
      rfl

/-- the classes that occur in a yield -/
def Voc (c : TK) : Prop := c = .ident ∨ c = .array ∨ c = .struct_ ∨ c = .lt ∨ c = .gt ∨ c = .comma ∨ c = .dot

theorem Voc.ne {c : TK} (h : Voc c) : c ≠ .other ∧ c ≠ .shr ∧ c ≠ .ltgt ∧ c ≠ .eof := by
  rcases h with rfl | rfl | rfl | rfl | rfl | rfl | rfl <;> decide

theorem yieldPath_cls (p : List Ident) : ∀ y ∈ yieldPath p, Voc y.cls := by
  induction p with
  | nil => simp [yieldPath]
  | cons a rest ih =>
    cases rest with
    | nil => simp [yieldPath, YT.cls, Voc]
    | cons b rest =>
      intro y hy
      simp only [yieldPath, List.mem_cons] at hy
      rcases hy with rfl | rfl | hy
      · simp [YT.cls, Voc]
      · simp [YT.cls, Voc]
      · exact ih y (by simpa [yieldPath] using hy)

mutual
theorem yieldT_cls : ∀ t : Ty, ∀ y ∈ yieldT t, Voc y.cls
  | .simple p n => by simp [yieldT, YT.cls, Voc]
  | .named path => by simpa [yieldT] using yieldPath_cls path
  | .array a g item => by
    intro y hy
    simp only [yieldT, List.mem_cons, List.mem_append, List.not_mem_nil, or_false] at hy
    rcases hy with (rfl | rfl | hy) | rfl
    · simp [YT.cls, Voc]
    · simp [YT.cls, Voc]
    · exact yieldT_cls item y hy
    · simp [YT.cls, Voc]
  | .struct s g fs => by
    intro y hy
    simp only [yieldT, List.mem_cons, List.mem_append, List.not_mem_nil, or_false] at hy
    rcases hy with (rfl | rfl | hy) | rfl
    · simp [YT.cls, Voc]
    · simp [YT.cls, Voc]
    · exact (yieldFs_cls fs).1 y hy
    · simp [YT.cls, Voc]
theorem yieldFs_cls : ∀ fs : Fields, (∀ y ∈ yieldFs fs, Voc y.cls) ∧ (∀ y ∈ yieldMore fs, Voc y.cls)
  | .nil => by simp [yieldFs, yieldMore]
  | .cons i t rest => by
    have h1 := yieldT_cls t
    have h2 := yieldFs_cls rest
    have h0 : ∀ y ∈ yieldName i, Voc y.cls := by
      cases i <;> simp [yieldName, YT.cls, Voc]
    constructor
    · intro y hy
      simp only [yieldFs, List.mem_append] at hy
      rcases hy with (hy | hy) | hy
      · exact h0 y hy
      · exact h1 y hy
      · exact h2.2 y hy
    · intro y hy
      simp only [yieldMore, List.mem_cons, List.mem_append] at hy
      rcases hy with ((rfl | hy) | hy) | hy
      · simp [YT.cls, Voc]
      · exact h0 y hy
      · exact h1 y hy
      · exact h2.2 y hy
end

/-- the tokens matched by the yield of a `wf` tree form, as a kind sequence, a sentence of G_T -/
theorem match_typeD {t : Ty} {pre : List Token} (hw : wf t = true) (hm : Match (yieldT t) pre) :
    TypeD (pre.map (·.kind)) := by
  rw [match_kinds hm (fun y hy => (yieldT_cls t y hy).ne.1)]
  exact yield_typeD t hw

end MF.TypeP
