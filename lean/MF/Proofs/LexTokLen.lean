/-
  MF.Proofs.LexTokLen — the byte length of the tokens whose length the generated `End()` formulas of ast/pos.go
  hard-code (`Null + 4`, `Rparen + 1`, `Atmark + 1 + len(Name)`, …):

    a keyword / punctuation token of kind `k` is exactly `len(k)` bytes long;
    a `<param>` token is `1 + len(AsString)` bytes long.
-/
import MF.Proofs.LexAll
namespace MF.Lex

def ScanLen (sc : Scan) : Prop :=
  (∀ k, sc.kind = .sym k → sc.len = k.length) ∧ (sc.kind = .param → sc.len = 1 + sc.asString.length)

theorem consumeNumber_len {rest : Bytes} {p0 : Nat} {np : Bool} {sc : Scan}
    (h : consumeNumber rest p0 np = .ok sc) : ScanLen sc := by
  unfold consumeNumber at h
  simp only at h
  split at h
  · cases h
  · rename_i i isInt _
    have hk : ∀ (s : Scan), (s = (if isInt = true then { kind := .int, len := i, base := if isHexPrefix rest = true then 16 else 10 }
        else { kind := .float, len := i } : Scan)) → ScanLen s ∧ ScanLen { s with kind := .bad } := by
      intro s hs
      cases isInt <;> simp at hs <;> subst hs <;> exact ⟨⟨by simp, by simp⟩, ⟨by simp, by simp⟩⟩
    split at h
    · split at h
      · split at h
        · cases h; exact (hk _ rfl).2
        · cases h
      · cases h; exact (hk _ rfl).1
    · cases h; exact (hk _ rfl).1

theorem quotedTok_len {kind : TokKind} {pre : Nat} {r : Res QC} {sc : Scan} (h : quotedTok kind pre r = .ok sc)
    (hk : kind = .ident ∨ kind = .string ∨ kind = .bytes) : ScanLen sc := by
  unfold quotedTok at h
  split at h
  · cases h
    constructor
    · intro k hh; simp only at hh; split at hh
      · cases hh
      · rcases hk with rfl | rfl | rfl <;> cases hh
    · intro hh; simp only at hh; split at hh
      · cases hh
      · rcases hk with rfl | rfl | rfl <;> cases hh
  · cases h
  · cases h

theorem upper_length (s : Bytes) : (Char.toUpper s).length = s.length := by simp [Char.toUpper]

theorem identTok_len (rest : Bytes) : ScanLen (identTok rest) := by
  unfold identTok
  simp only
  split
  · constructor
    · intro k hk
      simp only [TokKind.sym.injEq] at hk
      subst hk
      have := spanLen_le Char.isIdentPart rest
      simp [upper_length]; omega
    · intro hk; cases hk
  · exact ⟨by simp, by simp⟩

theorem fallbackTok_len {rest : Bytes} {c : UInt8} {p0 : Nat} {np : Bool} {sc : Scan}
    (h : fallbackTok rest c p0 np = .ok sc) : ScanLen sc := by
  unfold fallbackTok at h
  split at h
  · cases h; exact identTok_len rest
  · split at h
    · cases h; exact ⟨by simp, by simp⟩
    · cases h

theorem stringTok_len {rest : Bytes} {c : UInt8} {p0 : Nat} {np : Bool} {sc : Scan}
    (h : stringTok rest c p0 np = .ok sc) : ScanLen sc := by
  unfold stringTok at h
  split at h
  · split at h
    · cases h
    · refine quotedTok_len h ?_
      split <;> simp
  · exact fallbackTok_len h

theorem tok1_len {k : String} {sc : Scan} (h : tok1 k = .ok sc) (hk : (B k).length = 1) : ScanLen sc := by
  unfold tok1 at h; cases h
  exact ⟨by intro k' hh; simp only [K, TokKind.sym.injEq] at hh; subst hh; exact hk.symm, by simp [K]⟩

theorem tok2_len {k : String} {sc : Scan} (h : tok2 k = .ok sc) (hk : (B k).length = 2) : ScanLen sc := by
  unfold tok2 at h; cases h
  exact ⟨by intro k' hh; simp only [K, TokKind.sym.injEq] at hh; subst hh; exact hk.symm, by simp [K]⟩

theorem paramTok_len {c : UInt8} {t : Bytes} {sc : Scan} (h : paramTok (c :: t) = .ok sc) : ScanLen sc := by
  unfold paramTok at h
  cases h
  have := spanLen_le Char.isIdentPart (List.drop 1 (c :: t))
  simp only [List.drop_succ_cons, List.drop_zero] at this
  refine ⟨by simp, fun _ => ?_⟩
  simp only [List.drop_succ_cons, List.drop_zero]
  rw [slice_length (by omega) (by simp; omega)]
  omega

theorem consumeToken_len {rest : Bytes} {p0 : Nat} {lk : TokKind} {np : Bool} {sc : Scan}
    (h : consumeToken rest p0 lk np = .ok sc) : ScanLen sc := by
  unfold consumeToken at h
  split at h
  · cases h; exact ⟨by simp, by simp⟩
  · rename_i c t
    split at h
    · cases h; exact ⟨by intro k hk; simp only [TokKind.sym.injEq] at hk; subst hk; rfl, by simp⟩
    · split at h
      · exact consumeNumber_len h
      · cases h
        exact ⟨by intro k hk; simp only [K, TokKind.sym.injEq] at hk; subst hk; rfl, by simp [K]⟩
    all_goals first
      | exact consumeNumber_len h
      | exact stringTok_len h
      | exact fallbackTok_len h
      | exact quotedTok_len h (Or.inl rfl)
      | ((repeat' split at h) <;>
          first
            | exact tok1_len h (by decide)
            | exact tok2_len h (by decide)
            | exact paramTok_len h)

theorem consumeFieldToken_len {rest : Bytes} {p0 : Nat} {lk : TokKind} {np : Bool} {sc : Scan}
    (h : consumeFieldToken rest p0 lk np = .ok sc) : ScanLen sc := by
  unfold consumeFieldToken at h
  split at h
  · split at h
    · cases h; exact ⟨by simp, by simp⟩
    · exact consumeToken_len h
  · exact consumeToken_len h

/-- the two length facts, for a token -/
def TokLen (t : Token) : Prop :=
  (∀ k, t.kind = .sym k → t.end = t.pos + k.length) ∧ (t.kind = .param → t.end = t.pos + 1 + t.asString.length)

theorem nextTokenCore_len {buf : Bytes} {np : Bool} {s s' : State} (h : nextTokenCore buf np s = .ok s') :
    TokLen s'.tok := by
  unfold nextTokenCore at h
  simp only at h
  split at h
  · cases h
  · cases h
  · split at h
    · split at h
      · cases h
      · cases h; exact ⟨by simp, by simp⟩
    · split at h
      · cases h
      · cases h
      · rename_i sc hsc
        have hl : ScanLen sc := by
          split at hsc
          · exact consumeFieldToken_len hsc
          · exact consumeToken_len hsc
        split at h
        · cases h
        · cases h
          constructor
          · intro k hk; simp only at hk ⊢; rw [hl.1 k hk]
          · intro hk; simp only at hk ⊢; rw [hl.2 hk]; omega

theorem nextToken_len {buf : Bytes} {np : Bool} {s s' : State} (h : nextToken buf np s = .ok s') :
    TokLen s'.tok := nextTokenCore_len (nextToken_ok_core h)

theorem lexAllFrom_len {buf : Bytes} {fuel : Nat} {s : State} {acc ts : List Token}
    (h : lexAllFrom buf fuel s acc = .ok ts) (hacc : ∀ t ∈ acc, TokLen t) : ∀ t ∈ ts, TokLen t := by
  induction fuel generalizing s acc with
  | zero => simp [lexAllFrom] at h
  | succ fuel ih =>
    simp only [lexAllFrom] at h
    split at h
    · cases h
    · cases h
    · rename_i s' hnt
      have hl := nextToken_len hnt
      split at h
      · cases h
        intro t ht
        simp only [List.reverse_cons, List.mem_append, List.mem_reverse, List.mem_singleton] at ht
        rcases ht with ht | rfl
        · exact hacc t ht
        · exact hl
      · refine ih h ?_
        intro t ht
        rcases List.mem_cons.mp ht with rfl | ht
        · exact hl
        · exact hacc t ht

/-- every token of an accepted input has the length its kind says -/
theorem lexAll_len {buf : Bytes} {ts : List Token} (h : lexAll buf = .ok ts) : ∀ t ∈ ts, TokLen t :=
  lexAllFrom_len h (by simp)

end MF.Lex
